/-
  C04 ⟵ C02: the key-switching phase theorem with its arithmetic hypotheses DISCHARGED.

  `Props/C04Ring.driver_apply_phase` states `phase(KS(c), s_out) = phase(c, s_in) + ν` for the driver's `apply` op under
  three hypotheses on the `RPoly` values:
    (G)  `Σ d_ij·P·g_ij = P·c`                (gadget recombination),
    (P)  `π P · pinv = 1`,
    (R)  `π E − ρ₀ − ρ₁·s = π P · ν`           (exact division, `ρ = ` centred remainders modulo `P`).
  Here they are PROVED, for every chain `qs ++ ps` of pairwise coprime moduli `≥ 2` (in particular pairwise distinct
  primes, `pairwise_coprime_of_primes`), every ring degree `n ≥ 1`, every `BaseTwoDecomposition w`, every number of
  special primes `#ps ≥ 1`, all well-formed inputs and every key of the shape the parameters prescribe:

    (G) `StackKS.gadget_closed`  — from `decomposeRNS_row` (C02's `hps_sum_eq` through `centerHalf_emod`, EVERY value of
        the IEEE index), `bits_row` (`digits_recombine_of_modulus`) and `KS.gadget_identity`;
    (P) `StackKS.hP_closed`      — from `RPolyRing.modInv_spec`;
    (R) ring algebra from (P); `ρ_i = π(rem x_i)` with `rem x ≡ x (mod P)` for every IEEE index (`partP_rem`) and
        `2‖rem x‖∞ ≤ P` under the NAMED IEEE hypothesis `FloatExactPoly` (`remZ_bound`) — the hypothesis
        `fidx … = hpsV …` of `Props/C02` (`StackKS.floatExact_iff_fidx`), needed ONLY for the size of the remainder.

  `keyswitch_phase_closed` : the phase identity, hypotheses = well-formedness + shape of the key.
  `keyswitch_noise_closed` : with errors / output secret given by signed coefficient lists (`ofInts`), the noise `ν` is the
     reduction of an INTEGER polynomial `ν^Z` with `2P‖ν^Z‖∞ ≤ 2·n·B·ΣD_ij + P(1 + h)`: `C04Noise.keyswitch_noise_bound`
     with `hrel`, `h0`, `h1`, `hd` all DERIVED (the ZPoly reading of (R) that `C04Noise` takes as a hypothesis is proved
     from `keyswitch_phase_QP_rpoly` + `rem x ≡ x (mod P)` + the homomorphism `ofInts : Z[X]/(X^n+1) → R_q` of
     `Proofs/StackKSZ`).  Remaining: the named IEEE hypothesis `FloatExactPoly` on the two accumulators (and on the
     blocks of multi-prime digits when `#ps ≥ 2`).
  `gadgetProduct_phase_closed`, `relin_phase_closed`, `automorphism_phase_closed` : the same closure for the ops `gp`,
     `relin`, `aut` (`gadgetProduct_hyps` packages the closed form of `gadgetProductR` and (G), (P), (R)).
  Not covered here: the hoisted variants (`DecomposeNTT` digits with a caller-chosen `nbPi`), keys without `P`
  (no division: `keyswitch_phase_QP_rpoly` + `gadget_closed` already apply), the ring-degree switches.
-/
import Lattigo.Props.C04Ring
import Lattigo.Props.C04Noise
import Lattigo.Proofs.StackKSGadget
import Lattigo.Proofs.StackKSNoise

set_option linter.unusedSectionVars false
set_option linter.unusedSimpArgs false

namespace Lattigo.KS.C04Stack
open Lattigo Lattigo.KS Lattigo.RPolyRing Lattigo.Transport Lattigo.KS.C04Ring Lattigo.StackKS Driver.C04

/-! ## 0. Bookkeeping -/

section shape
variable {α : Type} [Add α] [Mul α] [Neg α] [Sub α]

theorem genRowFrom_length (pg : ℕ → ℕ → α) (sIn sOut : α) (i : ℕ) : ∀ (j : ℕ) (row : List (α × α)),
    (genRowFrom pg sIn sOut i j row).length = row.length
  | _, [] => rfl
  | j, (_, _) :: rest => by simp only [genRowFrom, List.length_cons, genRowFrom_length pg sIn sOut i (j + 1) rest]

theorem genFrom_lengths (pg : ℕ → ℕ → α) (sIn sOut : α) : ∀ (i : ℕ) (m : List (List (α × α))),
    (genFrom pg sIn sOut i m).map List.length = m.map List.length
  | _, [] => rfl
  | i, row :: rest => by
    simp only [genFrom, List.map_cons, genRowFrom_length, genFrom_lengths pg sIn sOut (i + 1) rest]

/-- a generated key has the shape of its sample matrix -/
theorem genEvaluationKey_lengths (pg : ℕ → ℕ → α) (sIn sOut : α) (m : List (List (α × α))) :
    (genEvaluationKey pg sIn sOut m).map List.length = m.map List.length := genFrom_lengths pg sIn sOut 0 m

end shape

section closure
variable {qs : List ℕ} {n : ℕ} [Good qs n]

theorem wsumMat_wf (d e : List (List RPoly)) (hd : WFmat qs n d) (he : WFmat qs n e) :
    WFq qs n (wsumMat (RPoly.zero qs n) d e) := by
  obtain ⟨d, rfl⟩ := exists_lift_mat d hd
  obtain ⟨e, rfl⟩ := exists_lift_mat e he
  have h := wsumMat_push val_hom (0 : WFPoly qs n) d e
  have e0 : val (0 : WFPoly qs n) = RPoly.zero qs n := rfl
  rw [e0] at h
  rw [← h]; exact val_wf _

theorem eMat_wf (samples : List (List (RPoly × RPoly))) (hsm : WFpairs qs n samples) :
    WFmat qs n (eMat samples) := by
  intro r hr p hp
  simp only [eMat, List.mem_map] at hr
  obtain ⟨r', hr', rfl⟩ := hr
  simp only [List.mem_map] at hp
  obtain ⟨p', hp', rfl⟩ := hp
  exact (hsm r' hr' p' hp').2

/-- ring algebra: `P·(P⁻¹·Y) = Y` -/
theorem mul_pinv_cancel {P pinv Y : RPoly} (hPw : WFq qs n P) (hpw : WFq qs n pinv) (hY : WFq qs n Y)
    (hP : P * pinv = rpOne qs n) : P * (pinv * Y) = Y := by
  obtain ⟨P, rfl⟩ := exists_lift P hPw
  obtain ⟨pinv, rfl⟩ := exists_lift pinv hpw
  obtain ⟨Y, rfl⟩ := exists_lift Y hY
  have hP' : P * pinv = 1 := val_injective hP
  show val (P * (pinv * Y)) = val Y
  congr 1
  rw [← mul_assoc, hP', one_mul]

/-- `P⁻¹·P = 1` -/
theorem pinv_mul_P' {ps : List ℕ} (hcop : ∀ q ∈ qs, Nat.Coprime (RPoly.prod ps) q) :
    pinvElt qs ps n * constQ qs n (RPoly.prod ps) = rpOne qs n := by
  have h := hP_closed (qs := qs) (n := n) ps hcop
  obtain ⟨P, hP⟩ := exists_lift _ (constQ_wf (qs := qs) (n := n) (RPoly.prod ps))
  obtain ⟨I, hI⟩ := exists_lift _ (pinvElt_wf (qs := qs) (n := n) ps)
  rw [← hP, ← hI] at h ⊢
  have h' : P * I = 1 := val_injective h
  show val (I * P) = val (1 : WFPoly qs n)
  rw [mul_comm, h']

/-- ring algebra: `P⁻¹·(P·Y) = Y` -/
theorem pinv_cancel {P pinv Y : RPoly} (hPw : WFq qs n P) (hpw : WFq qs n pinv) (hY : WFq qs n Y)
    (hP : pinv * P = rpOne qs n) : pinv * (P * Y) = Y := by
  obtain ⟨P, rfl⟩ := exists_lift P hPw
  obtain ⟨pinv, rfl⟩ := exists_lift pinv hpw
  obtain ⟨Y, rfl⟩ := exists_lift Y hY
  have hP' : pinv * P = 1 := val_injective hP
  show val (pinv * (P * Y)) = val Y
  congr 1
  rw [← mul_assoc, hP', one_mul]

end closure

/-! ## 1. The phase theorem, closed -/

section phase
variable {qs ps : List ℕ} {n : ℕ} [hgq : Good qs n] [hg : Good (qs ++ ps) n]

/-- **keyswitch_phase_closed.**  The driver's `apply` op (`applyEvaluationKey ∘ gadgetProductR`, `handleKs_apply_calls`)
with a key generated by the model (`genEvaluationKey` with the model's gadget vector `pgElt`) of the shape the
parameters prescribe, on well-formed inputs over pairwise coprime moduli:

  `phase(KS(c0, c1), π s_out) = phase((c0, c1), π s_in) + ν`,  `P·ν = π(Σ d_ij·e_ij) − π(rem x₀) − π(rem x₁)·π s_out`,

where `x = Σ d_ij·evk_ij` is the accumulator modulo `QP`, `rem x_i` the model's centred remainder modulo `P`, which
satisfies `rem x_i ≡ x_i (mod P)`.  No hypothesis (G), (P), (R) and no hypothesis on the IEEE index is left. -/
theorem keyswitch_phase_closed (hqs : qs ≠ []) (hps : ps ≠ []) (hco : (qs ++ ps).Pairwise Nat.Coprime) (w : ℕ)
    (sIn sOut : RPoly) (samples : List (List (RPoly × RPoly))) (c0 c1 : RPoly)
    (hsIn : WFq (qs ++ ps) n sIn) (hsOut : WFq (qs ++ ps) n sOut) (hsm : WFpairs (qs ++ ps) n samples)
    (hc0 : WFq qs n c0) (hc1 : WFq qs n c1)
    (hshape : samples.map List.length = gadgetShape qs (qs.length - 1) ps.length w) :
    let key := genEvaluationKey (pgElt qs ps n w) sIn sOut samples
    let d := decompose ps w (key.map List.length) c1
    let z := RPoly.zero (qs ++ ps) n
    let x := dotMat z d key
    let E := wsumMat z d (eMat samples)
    let Y := takeRows qs.length E
      - (takeRows qs.length (rem qs ps x.1) + takeRows qs.length (rem qs ps x.2) * takeRows qs.length sOut)
    let ν := pinvElt qs ps n * Y
    phase (applyEvaluationKey (gadgetProductR ps w qs.length key c1) (c0, c1)) (takeRows qs.length sOut)
        = phase (c0, c1) (takeRows qs.length sIn) + ν
      ∧ constQ qs n (RPoly.prod ps) * ν = Y
      ∧ partP qs.length (rem qs ps x.1) = partP qs.length x.1
      ∧ partP qs.length (rem qs ps x.2) = partP qs.length x.2
      ∧ WFq qs n ν := by
  intro key d z x E Y ν
  have hcop := coprime_prod_of_pairwise hco
  have hpg : ∀ i j, WFq (qs ++ ps) n (pgElt qs ps n w i j) := fun i j => pgElt_wf qs ps n w i j
  have hklen : key.map List.length = samples.map List.length := genEvaluationKey_lengths _ _ _ _
  have hdeq : d = decompose ps w (samples.map List.length) c1 := by show decompose _ _ _ _ = _; rw [hklen]
  have hd : WFmat (qs ++ ps) n d := by
    rw [hdeq]; exact decompose_wf ps hqs w _ hc1
  obtain ⟨hx1, hx2⟩ := dotMat_gen_wf (pgElt qs ps n w) sIn sOut samples d hpg hsIn hsOut hsm hd
  have hE : WFq (qs ++ ps) n E := wsumMat_wf d _ hd (eMat_wf samples hsm)
  have hr0 : WFq qs n (takeRows qs.length (rem qs ps x.1)) := takeRows_wf (rem_wf hx1 hps)
  have hr1 : WFq qs n (takeRows qs.length (rem qs ps x.2)) := takeRows_wf (rem_wf hx2 hps)
  have hY : WFq qs n Y := (takeRows_wf hE).sub (hr0.add (hr1.mul (takeRows_wf hsOut)))
  have hpinv : WFq qs n (pinvElt qs ps n) := pinvElt_wf ps
  have hν : WFq qs n ν := hpinv.mul hY
  have hP : constQ qs n (RPoly.prod ps) * pinvElt qs ps n = rpOne qs n := hP_closed ps hcop
  have hPν : constQ qs n (RPoly.prod ps) * ν = Y := mul_pinv_cancel (constQ_wf _) hpinv hY hP
  have hpsc := pairwise_right hco
  have hpge : ∀ p ∈ ps, 2 ≤ p := (good_right hg).q_ge
  refine ⟨?_, hPν, partP_rem hx1 hps hpsc hpge, partP_rem hx2 hps hpsc hpge, hν⟩
  have hG : wsumMat z d (pgMat (pgElt qs ps n w) samples)
      = constQ (qs ++ ps) n (RPoly.prod ps) * extZ ps n c1 := by
    rw [hdeq]; exact gadget_closed hqs (pairwise_left hco) w hc1 samples hshape
  have h := driver_apply_phase (qs := qs) (ps := ps) (n := n) hqs hps w (pgElt qs ps n w)
    (constQ (qs ++ ps) n (RPoly.prod ps)) (extZ ps n c1) sIn sOut samples c0 c1 ν hpg (constQ_wf _)
    (extZ_wf ps hc1) hsIn hsOut hsm hc0 hc1 hν (takeRows_extZ ps hc1)
  simp only [takeRows_rem] at hr0 hr1 hPν
  refine h hd hpinv hr0 hr1 hG ?_ ?_
  · rw [takeRows_constQ]; exact hP
  · rw [takeRows_constQ, hPν]
    show _ = takeRows qs.length E
      - (takeRows qs.length (rem qs ps x.1) + takeRows qs.length (rem qs ps x.2) * takeRows qs.length sOut)
    rw [takeRows_rem, takeRows_rem]

/-! ### the other users of the gadget product: `GadgetProduct` itself, `Relinearize`, `Automorphism` -/

/-- data shared by the closed theorems: for a key generated by the model from `(sIn, sOut, samples)` of the prescribed
shape and a well-formed `c`, the driver's `gadgetProductR` IS `ModDown` of the accumulator, and (G), (P), (R) hold -/
theorem gadgetProduct_hyps (hqs : qs ≠ []) (hps : ps ≠ []) (hco : (qs ++ ps).Pairwise Nat.Coprime) (w : ℕ)
    (sIn sOut : RPoly) (samples : List (List (RPoly × RPoly))) (c1 : RPoly)
    (hsIn : WFq (qs ++ ps) n sIn) (hsOut : WFq (qs ++ ps) n sOut) (hsm : WFpairs (qs ++ ps) n samples)
    (hc1 : WFq qs n c1)
    (hshape : samples.map List.length = gadgetShape qs (qs.length - 1) ps.length w) :
    let key := genEvaluationKey (pgElt qs ps n w) sIn sOut samples
    let d := decompose ps w (key.map List.length) c1
    let z := RPoly.zero (qs ++ ps) n
    let x := dotMat z d key
    let pinv := pinvElt qs ps n
    let rho0 := modUpPtoQ qs (partP qs.length x.1)
    let rho1 := modUpPtoQ qs (partP qs.length x.2)
    let ν := pinv * (takeRows qs.length (wsumMat z d (eMat samples)) - (rho0 + rho1 * takeRows qs.length sOut))
    gadgetProductR ps w qs.length key c1
        = (modDown pinv (takeRows qs.length x.1) rho0, modDown pinv (takeRows qs.length x.2) rho1)
      ∧ WFmat (qs ++ ps) n d ∧ WFq qs n pinv ∧ WFq qs n rho0 ∧ WFq qs n rho1 ∧ WFq qs n ν
      ∧ wsumMat z d (pgMat (pgElt qs ps n w) samples) = constQ (qs ++ ps) n (RPoly.prod ps) * extZ ps n c1
      ∧ takeRows qs.length (constQ (qs ++ ps) n (RPoly.prod ps)) * pinv = rpOne qs n
      ∧ takeRows qs.length (wsumMat z d (eMat samples)) - (rho0 + rho1 * takeRows qs.length sOut)
          = takeRows qs.length (constQ (qs ++ ps) n (RPoly.prod ps)) * ν := by
  intro key d z x pinv rho0 rho1 ν
  have hcop := coprime_prod_of_pairwise hco
  have hpg : ∀ i j, WFq (qs ++ ps) n (pgElt qs ps n w i j) := fun i j => pgElt_wf qs ps n w i j
  have hklen : key.map List.length = samples.map List.length := genEvaluationKey_lengths _ _ _ _
  have hdeq : d = decompose ps w (samples.map List.length) c1 := by show decompose _ _ _ _ = _; rw [hklen]
  have hd : WFmat (qs ++ ps) n d := by rw [hdeq]; exact decompose_wf ps hqs w _ hc1
  obtain ⟨hx1, hx2⟩ := dotMat_gen_wf (pgElt qs ps n w) sIn sOut samples d hpg hsIn hsOut hsm hd
  have hE : WFq (qs ++ ps) n (wsumMat z d (eMat samples)) := wsumMat_wf d _ hd (eMat_wf samples hsm)
  have hr0 : WFq qs n rho0 := modUpPtoQ_wf hx1 hps
  have hr1 : WFq qs n rho1 := modUpPtoQ_wf hx2 hps
  have hpinv : WFq qs n pinv := pinvElt_wf ps
  have hY := (takeRows_wf hE).sub (hr0.add (hr1.mul (takeRows_wf hsOut)))
  have hP : constQ qs n (RPoly.prod ps) * pinv = rpOne qs n := hP_closed ps hcop
  have hk : 1 ≤ qs.length := List.length_pos_of_ne_nil hqs
  refine ⟨?_, hd, hpinv, hr0, hr1, hpinv.mul hY, ?_, by rw [takeRows_constQ]; exact hP, ?_⟩
  · rw [gadgetProductR_eq, hc1.1, headD_length_of_wf hc1 hqs, evkAtLevel_self qs.length hk,
      StackKS.modDownR_eq hqs hps hx1, StackKS.modDownR_eq hqs hps hx2]
  · rw [hdeq]; exact gadget_closed hqs (pairwise_left hco) w hc1 samples hshape
  · rw [takeRows_constQ]; exact (mul_pinv_cancel (constQ_wf _) hpinv hY hP).symm

/-- **gadgetProduct_phase_closed** (`GadgetProduct`, op `gp`): `phase(GP(c), π s_out) = c·π s_in + ν` -/
theorem gadgetProduct_phase_closed (hqs : qs ≠ []) (hps : ps ≠ []) (hco : (qs ++ ps).Pairwise Nat.Coprime) (w : ℕ)
    (sIn sOut : RPoly) (samples : List (List (RPoly × RPoly))) (c1 : RPoly)
    (hsIn : WFq (qs ++ ps) n sIn) (hsOut : WFq (qs ++ ps) n sOut) (hsm : WFpairs (qs ++ ps) n samples)
    (hc1 : WFq qs n c1)
    (hshape : samples.map List.length = gadgetShape qs (qs.length - 1) ps.length w) :
    let key := genEvaluationKey (pgElt qs ps n w) sIn sOut samples
    let d := decompose ps w (key.map List.length) c1
    let z := RPoly.zero (qs ++ ps) n
    let x := dotMat z d key
    let ν := pinvElt qs ps n * (takeRows qs.length (wsumMat z d (eMat samples))
      - (modUpPtoQ qs (partP qs.length x.1) + modUpPtoQ qs (partP qs.length x.2) * takeRows qs.length sOut))
    phase (gadgetProductR ps w qs.length key c1) (takeRows qs.length sOut)
      = c1 * takeRows qs.length sIn + ν := by
  intro key d z x ν
  obtain ⟨hgp, hd, hpinv, hr0, hr1, hν, hG, hP, hR⟩ :=
    gadgetProduct_hyps hqs hps hco w sIn sOut samples c1 hsIn hsOut hsm hc1 hshape
  rw [hgp]
  have h := keyswitch_phase_rpoly (qs := qs) (ps := ps) (n := n) (pgElt qs ps n w)
    (constQ (qs ++ ps) n (RPoly.prod ps)) (extZ ps n c1) sIn sOut samples d (pinvElt qs ps n) _ _ ν
    (fun i j => pgElt_wf qs ps n w i j) (constQ_wf _) (extZ_wf ps hc1) hsIn hsOut hsm hd hpinv hr0 hr1 hν hG hP hR
  rw [takeRows_extZ ps hc1] at h
  exact h

/-- **relin_phase_closed** (`Relinearize`, op `relin`): with the model's relinearisation key (`s² → s`),
`phase(Relin(c0, c1, c2), π s) = c0 + c1·π s + c2·(π s)² + ν` -/
theorem relin_phase_closed (hqs : qs ≠ []) (hps : ps ≠ []) (hco : (qs ++ ps).Pairwise Nat.Coprime) (w : ℕ)
    (s : RPoly) (samples : List (List (RPoly × RPoly))) (c0 c1 c2 : RPoly)
    (hs : WFq (qs ++ ps) n s) (hsm : WFpairs (qs ++ ps) n samples)
    (hc0 : WFq qs n c0) (hc1 : WFq qs n c1) (hc2 : WFq qs n c2)
    (hshape : samples.map List.length = gadgetShape qs (qs.length - 1) ps.length w) :
    let key := genRelinearizationKey (pgElt qs ps n w) s samples
    let d := decompose ps w (key.map List.length) c2
    let z := RPoly.zero (qs ++ ps) n
    let x := dotMat z d key
    let ν := pinvElt qs ps n * (takeRows qs.length (wsumMat z d (eMat samples))
      - (modUpPtoQ qs (partP qs.length x.1) + modUpPtoQ qs (partP qs.length x.2) * takeRows qs.length s))
    phase (relinearize (gadgetProductR ps w qs.length key c2) (c0, c1, c2)) (takeRows qs.length s)
      = c0 + c1 * takeRows qs.length s + c2 * (takeRows qs.length s * takeRows qs.length s) + ν := by
  intro key d z x ν
  obtain ⟨hgp, hd, hpinv, hr0, hr1, hν, hG, hP, hR⟩ :=
    gadgetProduct_hyps hqs hps hco w (s * s) s samples c2 (hs.mul hs) hs hsm hc2 hshape
  show phase (relinearize (gadgetProductR ps w qs.length (genEvaluationKey (pgElt qs ps n w) (s * s) s samples) c2)
    (c0, c1, c2)) _ = _
  rw [hgp]
  have h := relin_phase_rpoly (qs := qs) (ps := ps) (n := n) (pgElt qs ps n w)
    (constQ (qs ++ ps) n (RPoly.prod ps)) (extZ ps n c2) s samples d (pinvElt qs ps n) _ _ ν c0 c1
    (fun i j => pgElt_wf qs ps n w i j) (constQ_wf _) (extZ_wf ps hc2) hs hsm hd hpinv hr0 hr1 hν hc0 hc1 hG hP hR
  rw [takeRows_extZ ps hc2] at h
  exact h

/-- **automorphism_phase_closed** (`Automorphism`, op `aut`): with the model's Galois key for `g` (`s → σinvA s`, any
well-formedness-preserving `σinvA` with `σ_g(π(σinvA s)) = π s`, e.g. `RPoly.aut g⁻¹`),
`phase(Aut_g(c0, c1), π s) = σ_g(phase((c0, c1), π s)) + σ_g(ν)` -/
theorem automorphism_phase_closed (hqs : qs ≠ []) (hps : ps ≠ []) (hco : (qs ++ ps).Pairwise Nat.Coprime) (w : ℕ)
    (g : ℕ) (hg1 : Odd g) (hgc : Nat.Coprime g n) (σinvA : RPoly → RPoly)
    (hσwf : ∀ x, WFq (qs ++ ps) n x → WFq (qs ++ ps) n (σinvA x))
    (s : RPoly) (samples : List (List (RPoly × RPoly))) (c0 c1 : RPoly)
    (hs : WFq (qs ++ ps) n s) (hsm : WFpairs (qs ++ ps) n samples) (hc0 : WFq qs n c0) (hc1 : WFq qs n c1)
    (hσ : (takeRows qs.length (σinvA s)).aut g = takeRows qs.length s)
    (hshape : samples.map List.length = gadgetShape qs (qs.length - 1) ps.length w) :
    let key := genGaloisKey σinvA (pgElt qs ps n w) s samples
    let d := decompose ps w (key.map List.length) c1
    let z := RPoly.zero (qs ++ ps) n
    let x := dotMat z d key
    let ν := pinvElt qs ps n * (takeRows qs.length (wsumMat z d (eMat samples))
      - (modUpPtoQ qs (partP qs.length x.1)
          + modUpPtoQ qs (partP qs.length x.2) * takeRows qs.length (σinvA s)))
    phase (automorphism (fun y => y.aut g) (gadgetProductR ps w qs.length key c1) (c0, c1)) (takeRows qs.length s)
      = (phase (c0, c1) (takeRows qs.length s)).aut g + ν.aut g := by
  intro key d z x ν
  obtain ⟨hgp, hd, hpinv, hr0, hr1, hν, hG, hP, hR⟩ :=
    gadgetProduct_hyps hqs hps hco w s (σinvA s) samples c1 hs (hσwf s hs) hsm hc1 hshape
  show phase (automorphism _ (gadgetProductR ps w qs.length
    (genEvaluationKey (pgElt qs ps n w) s (σinvA s) samples) c1) (c0, c1)) _ = _
  rw [hgp]
  have h := automorphism_phase_rpoly (qs := qs) (ps := ps) (n := n) g hg1 hgc σinvA (pgElt qs ps n w)
    (constQ (qs ++ ps) n (RPoly.prod ps)) (extZ ps n c1) s samples d (pinvElt qs ps n) _ _ ν c0
    hσwf (fun i j => pgElt_wf qs ps n w i j) (constQ_wf _) (extZ_wf ps hc1) hs hsm hd hpinv hr0 hr1 hν hc0 hσ
    hG hP hR
  rw [takeRows_extZ ps hc1] at h
  exact h

end phase

/-! ## 2. The noise bound, closed -/

section noise
open Lattigo.ZPoly
variable {qs ps : List ℕ} {n : ℕ} [hgq : Good qs n] [hg : Good (qs ++ ps) n]

theorem two_normInf_le {l : List ℤ} {P : ℕ} (h : ∀ c ∈ l, 2 * c.natAbs ≤ P) : 2 * normInf l ≤ P := by
  have : normInf l ≤ P / 2 := normInf_le_iff.mpr (fun x hx => by have := h x hx; omega)
  omega

/-- ring algebra: `a − (b + c·s) = (a − b) − s·c` on well-formed values -/
theorem sub_add_mul_comm {a b c s : RPoly} (ha : WFq qs n a) (hb : WFq qs n b) (hc : WFq qs n c)
    (hs : WFq qs n s) : a - (b + c * s) = (a - b) - s * c := by
  obtain ⟨a, rfl⟩ := exists_lift a ha
  obtain ⟨b, rfl⟩ := exists_lift b hb
  obtain ⟨c, rfl⟩ := exists_lift c hc
  obtain ⟨s, rfl⟩ := exists_lift s hs
  show val (a - (b + c * s)) = val ((a - b) - s * c)
  congr 1
  ring

/-- ring algebra: `x₀ + x₁·s = T + E` ⟹ `(E − x₀) − s·x₁ = P'·y` whenever `T = P'·y'`, here with `y = −y'` -/
theorem residual_eq {x0 x1 s T E : RPoly} (h0 : WFq qs n x0) (h1 : WFq qs n x1) (hs : WFq qs n s)
    (hT : WFq qs n T) (hE : WFq qs n E) (h : x0 + x1 * s = T + E) : (E - x0) - s * x1 = -T := by
  obtain ⟨x0, rfl⟩ := exists_lift x0 h0
  obtain ⟨x1, rfl⟩ := exists_lift x1 h1
  obtain ⟨s, rfl⟩ := exists_lift s hs
  obtain ⟨T, rfl⟩ := exists_lift T hT
  obtain ⟨E, rfl⟩ := exists_lift E hE
  have h' : x0 + x1 * s = T + E := val_injective h
  show val ((E - x0) - s * x1) = val (-T)
  congr 1
  have : x0 = T + E - x1 * s := by rw [← h']; ring
  rw [this]; ring

/-- in `R_P`: `−(0·y) = 0` -/
theorem neg_zero_mul {y : RPoly} (hy : WFq ps n y) [Good ps n] : -(RPoly.zero ps n * y) = RPoly.zero ps n := by
  obtain ⟨y, rfl⟩ := exists_lift y hy
  show val (-((0 : WFPoly ps n) * y)) = val (0 : WFPoly ps n)
  congr 1
  ring

/-- **keyswitch_noise_closed.**  Setting of `keyswitch_phase_closed`, with the errors of the key and the output secret
given by their signed coefficient lists (`e_ij = ofInts e^Z_ij`, `‖e^Z_ij‖∞ ≤ B`; `s_out = ofInts s^Z`, `‖s^Z‖₁ ≤ h` — this is
how the driver builds them).  Under the NAMED IEEE hypothesis on the two accumulators (`FloatExactPoly`: the index of
`ModUpPtoQ` is the exact one) and, for a key with several special primes, on the blocks of the multi-prime digits, the
noise added by the key switch is the reduction of an INTEGER polynomial `ν^Z` with

      `2·P·‖ν^Z‖∞ ≤ 2·n·B·Σ_{i,j} D_ij + P·(1 + h)`,      i.e.  `‖ν^Z‖∞ ≤ n·B·ΣD/P + (1 + h)/2`,

`D_ij = digitBounds` (`⌈q_i/2⌉`, `⌊Q_i/2⌋`, `2^w − 1`).  `Props/C04Noise.keyswitch_noise_bound` with ALL its hypotheses
(`hrel` included: the exact division by `P` is derived from `keyswitch_phase_QP_rpoly`, the CRT congruence
`rem x ≡ x (mod P)` and the homomorphism `ofInts : Z[X]/(X^n+1) → R_q`) discharged. -/
theorem keyswitch_noise_closed (hqs : qs ≠ []) (hps : ps ≠ []) (hco : (qs ++ ps).Pairwise Nat.Coprime)
    (hodd : ∀ q ∈ qs ++ ps, q % 2 = 1) (w : ℕ) (sIn : RPoly) (sZ : List ℤ)
    (samples : List (List (RPoly × RPoly))) (eZ : List (List (List ℤ))) (c0 c1 : RPoly) (B h : ℕ)
    (hsIn : WFq (qs ++ ps) n sIn) (hsZ : sZ.length = n) (hsm : WFpairs (qs ++ ps) n samples)
    (hc0 : WFq qs n c0) (hc1 : WFq qs n c1)
    (hshape : samples.map List.length = gadgetShape qs (qs.length - 1) ps.length w)
    (heZ : eMat samples = eZ.map (List.map (RPoly.ofInts (qs ++ ps))))
    (hel : ∀ r ∈ eZ, ∀ e ∈ r, e.length = n) (heB : ErrBounded B eZ) (hsn : norm1 sZ ≤ h) :
    let sOut := RPoly.ofInts (qs ++ ps) sZ
    let key := genEvaluationKey (pgElt qs ps n w) sIn sOut samples
    let d := decompose ps w (key.map List.length) c1
    let x := dotMat (RPoly.zero (qs ++ ps) n) d key
    FloatExactPoly (partP qs.length x.1) → FloatExactPoly (partP qs.length x.2) →
    (ps.length ≥ 2 → ∀ i, ¬ dLvl qs.length ps.length i < 0 →
      FloatExactPoly (block (i * ps.length) (min (i * ps.length + ps.length) (qs.length - 1 + 1) - i * ps.length) c1)) →
    ∃ νZ : List ℤ, νZ.length = n
      ∧ phase (applyEvaluationKey (gadgetProductR ps w qs.length key c1) (c0, c1)) (takeRows qs.length sOut)
          = phase (c0, c1) (takeRows qs.length sIn) + RPoly.ofInts qs νZ
      ∧ 2 * (Scaling.prodN ps * normInf νZ)
          ≤ 2 * (n * B * sumSum (digitBounds qs ps.length w (samples.map List.length)))
            + Scaling.prodN ps * (1 + h) := by
  intro sOut key d x hf0 hf1 hfd
  have hsOut : WFq (qs ++ ps) n sOut := ofInts_wf _ hsZ
  obtain ⟨hphase, hPν, hp0, hp1, hνw⟩ := keyswitch_phase_closed hqs hps hco w sIn sOut samples c0 c1 hsIn hsOut
    hsm hc0 hc1 hshape
  -- bookkeeping, as in `keyswitch_phase_closed`
  have hcop := coprime_prod_of_pairwise hco
  have hpsc := pairwise_right hco
  have hpge : ∀ p ∈ ps, 2 ≤ p := (good_right hg).q_ge
  have hgp : Good ps n := good_right hg
  have hpg : ∀ i j, WFq (qs ++ ps) n (pgElt qs ps n w i j) := fun i j => pgElt_wf qs ps n w i j
  have hklen : key.map List.length = samples.map List.length := genEvaluationKey_lengths _ _ _ _
  have hdeq : d = decompose ps w (samples.map List.length) c1 := by show decompose _ _ _ _ = _; rw [hklen]
  have hd : WFmat (qs ++ ps) n d := by rw [hdeq]; exact decompose_wf ps hqs w _ hc1
  obtain ⟨hx1, hx2⟩ := dotMat_gen_wf (pgElt qs ps n w) sIn sOut samples d hpg hsIn hsOut hsm hd
  have hEw : WFq (qs ++ ps) n (wsumMat (RPoly.zero (qs ++ ps) n) d (eMat samples)) :=
    wsumMat_wf d _ hd (eMat_wf samples hsm)
  -- the integer side
  set dZ := decomposeZ ps.length w (samples.map List.length) c1 with hdZ
  have hdZeq : d = dZ.map (List.map (RPoly.ofInts (qs ++ ps))) := by
    rw [hdeq, decompose_eq_ofInts, hc1.1]
  have hdl : ∀ r ∈ dZ, ∀ e ∈ r, e.length = n := decomposeZ_length hqs _ w _ hc1
  obtain ⟨hEZ, hEZl⟩ := wsumMat_ofInts (qs := qs ++ ps) (n := n) dZ eZ hdl hel
  set EZ := dotMatZ n dZ eZ with hEZd
  have hE : wsumMat (RPoly.zero (qs ++ ps) n) d (eMat samples) = RPoly.ofInts (qs ++ ps) EZ := by
    rw [hdZeq, heZ]; exact hEZ
  set ρ0 := remZ (partP qs.length x.1) with hρ0
  set ρ1 := remZ (partP qs.length x.2) with hρ1
  have hρ0l : ρ0.length = n := remZ_length (partP_wf hx1) hps
  have hρ1l : ρ1.length = n := remZ_length (partP_wf hx2) hps
  set W := ZPoly.sub (ZPoly.sub EZ ρ0) (ZPoly.mul sZ ρ1) with hW
  have hWl : W.length = n := sub_length _ _ (sub_length _ _ hEZl hρ0l) (by rw [mul_length, hsZ])
  -- `ofInts W` over `QP` is `(E − rem x₀) − s·rem x₁`
  have hWQP : RPoly.ofInts (qs ++ ps) W
      = (wsumMat (RPoly.zero (qs ++ ps) n) d (eMat samples) - rem qs ps x.1) - sOut * rem qs ps x.2 := by
    rw [hW, ofInts_sub _ _ (sub_length _ _ hEZl hρ0l) (by rw [mul_length, hsZ]), ofInts_sub _ _ hEZl hρ0l,
      ofInts_mul _ _ hsZ hρ1l, ← hE]
    rfl
  -- its `P` rows vanish
  have hQP := keyswitch_phase_QP_rpoly (qs := qs ++ ps) (n := n) (pgElt qs ps n w)
    (constQ (qs ++ ps) n (RPoly.prod ps)) (extZ ps n c1) sIn sOut samples d hpg (constQ_wf _) (extZ_wf ps hc1)
    hsIn hsOut hsm hd (by rw [hdeq]; exact gadget_closed hqs (pairwise_left hco) w hc1 samples hshape)
  have hTw : WFq (qs ++ ps) n (constQ (qs ++ ps) n (RPoly.prod ps) * extZ ps n c1 * sIn) :=
    ((constQ_wf _).mul (extZ_wf ps hc1)).mul hsIn
  have hres := residual_eq hx1 hx2 hsOut hTw hEw hQP
  have hPW : RPoly.ofInts ps W = RPoly.zero ps n := by
    have h1 : partP qs.length (RPoly.ofInts (qs ++ ps) W) = RPoly.ofInts ps W := partP_ofInts _ _ _
    have hh := partP_hom qs.length
    rw [← h1, hWQP, hh.sub, hh.sub, hh.mul, hp0, hp1, ← hh.mul, ← hh.sub, ← hh.sub, hres, hh.neg, hh.mul, hh.mul,
      partP_constQ, constQ_P_zero]
    have hy : WFq ps n (partP qs.length (extZ ps n c1) * partP qs.length sIn) :=
      (partP_wf (extZ_wf ps hc1)).mul (partP_wf hsIn)
    obtain ⟨y, hy'⟩ := exists_lift _ hy
    obtain ⟨a, ha⟩ := exists_lift _ (partP_wf (extZ_wf (n := n) ps hc1))
    obtain ⟨b, hb⟩ := exists_lift _ (partP_wf (qs := qs) hsIn)
    rw [← ha, ← hb]
    show val (-((0 : WFPoly ps n) * a * b)) = val (0 : WFPoly ps n)
    congr 1
    ring
  have hdvd : ∀ x ∈ W, ((Scaling.prodN ps : ℕ) : ℤ) ∣ x := fun x hx =>
    prodN_dvd_int ps hpsc x (fun p hp => ofInts_eq_zero_dvd hpge W hPW p hp x hx)
  -- the integer noise
  refine ⟨W.map (· / ((Scaling.prodN ps : ℕ) : ℤ)), by rw [List.length_map, hWl], ?_, ?_⟩
  · have hsm' := smul_div (Scaling.prodN ps) W hdvd
    set νZ := W.map (· / ((Scaling.prodN ps : ℕ) : ℤ)) with hνZ
    have hνl : νZ.length = n := by rw [hνZ, List.length_map, hWl]
    -- `Y = ofInts qs W = P·ofInts νZ`
    have hY : takeRows qs.length (wsumMat (RPoly.zero (qs ++ ps) n) d (eMat samples))
          - (takeRows qs.length (rem qs ps x.1) + takeRows qs.length (rem qs ps x.2) * takeRows qs.length sOut)
        = constQ qs n (RPoly.prod ps) * RPoly.ofInts qs νZ := by
      have ht := takeRows_hom qs.length
      rw [sub_add_mul_comm (takeRows_wf hEw) (takeRows_wf (rem_wf hx1 hps)) (takeRows_wf (rem_wf hx2 hps))
        (takeRows_wf hsOut), ← ht.mul, ← ht.sub, ← ht.sub, ← hWQP, takeRows_ofInts, ← hsm',
        ofInts_smul _ _ hνl, prod_eq_prodN]
    rw [hphase]
    congr 1
    -- `ν = P⁻¹·Y = ofInts νZ`
    show pinvElt qs ps n * _ = _
    rw [hY]
    have hP := pinv_mul_P' (qs := qs) (n := n) hcop
    exact pinv_cancel (constQ_wf _) (pinvElt_wf ps) (ofInts_wf _ hνl) hP
  · have hrel : ZPoly.smul ((Scaling.prodN ps : ℕ) : ℤ) (W.map (· / ((Scaling.prodN ps : ℕ) : ℤ)))
        = ZPoly.sub (ZPoly.sub (dotMatZ n dZ eZ) ρ0) (ZPoly.mul sZ ρ1) := smul_div _ W hdvd
    have hPodd : Scaling.prodN ps % 2 = 1 :=
      Scaling.prodN_odd ps (fun p hp => hodd p (List.mem_append_right _ hp))
    have h0 : 2 * normInf ρ0 ≤ Scaling.prodN ps :=
      two_normInf_le (remZ_bound (partP_wf hx1) hpsc hpge hPodd hf0)
    have h1 : 2 * normInf ρ1 ≤ Scaling.prodN ps :=
      two_normInf_le (remZ_bound (partP_wf hx2) hpsc hpge hPodd hf1)
    have hdb := digitsBounded_decomposeZ hqs (pairwise_left hco)
      (fun q hq => hodd q (List.mem_append_left _ hq)) ps.length w (samples.map List.length) hc1 hfd
    exact Lattigo.KS.C04.keyswitch_noise_bound n (Scaling.prodN ps) B h dZ eZ _ _ ρ0 ρ1 sZ hdb heB hrel h0 h1 hsn

end noise

/-! ## 3. Concrete instances (`n = 8`), every remaining hypothesis discharged -/

section concrete

instance : Good [97] 8 := ⟨by decide, by decide⟩
instance : Good ([97] ++ [193]) 8 := ⟨by decide, by decide⟩

/-- the other ciphertext component -/
def c08 : RPoly := ⟨[97], [[1, 2, 3, 4, 5, 6, 7, 8]]⟩

/-- (a) `Q = [97]`, `P = [193]`, RNS digits (`w = 0`): the hypotheses of `keyswitch_phase_closed` -/
theorem hyps_a : ([97] : List ℕ) ≠ [] ∧ ([193] : List ℕ) ≠ [] ∧ ([97] ++ [193] : List ℕ).Pairwise Nat.Coprime
    ∧ WFq ([97] ++ [193]) 8 sIn8 ∧ WFq ([97] ++ [193]) 8 sOut8 ∧ WFpairs ([97] ++ [193]) 8 samples8
    ∧ WFq [97] 8 c08 ∧ WFq [97] 8 c8
    ∧ samples8.map List.length = gadgetShape [97] ([97].length - 1) [193].length 0 := by
  refine ⟨by decide, by decide, by decide, by decide +kernel, by decide +kernel, by decide +kernel,
    by decide +kernel, by decide +kernel, by decide⟩

/-- the instance obtained FROM THE THEOREM: the driver's `apply` on these values decrypts, under `π s_out`, to the
input's phase under `π s_in` plus `ν = P⁻¹·(π E − ρ₀ − ρ₁·π s_out)`, and `P·ν = π E − ρ₀ − ρ₁·π s_out` -/
theorem instance_a :
    let key := genEvaluationKey (pgElt [97] [193] 8 0) sIn8 sOut8 samples8
    let d := decompose [193] 0 (key.map List.length) c8
    let z := RPoly.zero ([97] ++ [193]) 8
    let x := dotMat z d key
    let Y := takeRows 1 (wsumMat z d (eMat samples8))
      - (takeRows 1 (rem [97] [193] x.1) + takeRows 1 (rem [97] [193] x.2) * takeRows 1 sOut8)
    phase (applyEvaluationKey (gadgetProductR [193] 0 1 key c8) (c08, c8)) (takeRows 1 sOut8)
        = phase (c08, c8) (takeRows 1 sIn8) + pinvElt [97] [193] 8 * Y
      ∧ constQ [97] 8 (RPoly.prod [193]) * (pinvElt [97] [193] 8 * Y) = Y :=
  have h := keyswitch_phase_closed (qs := [97]) (ps := [193]) (n := 8) hyps_a.1 hyps_a.2.1 hyps_a.2.2.1 0 sIn8 sOut8 samples8
    c08 c8 hyps_a.2.2.2.1 hyps_a.2.2.2.2.1 hyps_a.2.2.2.2.2.1 hyps_a.2.2.2.2.2.2.1 hyps_a.2.2.2.2.2.2.2.1
    hyps_a.2.2.2.2.2.2.2.2
  ⟨h.1, h.2.1⟩

/-- three samples for the base-`2^3` key of `Q = [97]` (`⌈7/3⌉ = 3` digits) -/
def samples8b : List (List (RPoly × RPoly)) := [[(a8, e8), (e8, a8), (sIn8, e8)]]

/-- (b) base-`2^3` digits -/
theorem hyps_b : WFpairs ([97] ++ [193]) 8 samples8b
    ∧ samples8b.map List.length = gadgetShape [97] ([97].length - 1) [193].length 3 := by
  refine ⟨by decide +kernel, by decide⟩

theorem instance_b :
    let key := genEvaluationKey (pgElt [97] [193] 8 3) sIn8 sOut8 samples8b
    let d := decompose [193] 3 (key.map List.length) c8
    let z := RPoly.zero ([97] ++ [193]) 8
    let x := dotMat z d key
    let Y := takeRows 1 (wsumMat z d (eMat samples8b))
      - (takeRows 1 (rem [97] [193] x.1) + takeRows 1 (rem [97] [193] x.2) * takeRows 1 sOut8)
    phase (applyEvaluationKey (gadgetProductR [193] 3 1 key c8) (c08, c8)) (takeRows 1 sOut8)
        = phase (c08, c8) (takeRows 1 sIn8) + pinvElt [97] [193] 8 * Y
      ∧ constQ [97] 8 (RPoly.prod [193]) * (pinvElt [97] [193] 8 * Y) = Y :=
  have h := keyswitch_phase_closed (qs := [97]) (ps := [193]) (n := 8) hyps_a.1 hyps_a.2.1 hyps_a.2.2.1 3 sIn8 sOut8 samples8b
    c08 c8 hyps_a.2.2.2.1 hyps_a.2.2.2.2.1 hyps_b.1 hyps_a.2.2.2.2.2.2.1 hyps_a.2.2.2.2.2.2.2.1 hyps_b.2
  ⟨h.1, h.2.1⟩

/-- TEST (EVALUATION with the compiled IEEE arithmetic — `modDownR` goes through `floatIndex`; not kernel-checked):
the conclusion of `instance_a` / `instance_b` on the values, and the named IEEE hypothesis on the two accumulators -/
def concl8 (w : ℕ) (samples : List (List (RPoly × RPoly))) : Bool :=
  let key := genEvaluationKey (pgElt [97] [193] 8 w) sIn8 sOut8 samples
  let d := decompose [193] w (key.map List.length) c8
  let z := RPoly.zero ([97] ++ [193]) 8
  let x := dotMat z d key
  let E := wsumMat z d (eMat samples)
  let Y := takeRows 1 E - (takeRows 1 (rem [97] [193] x.1) + takeRows 1 (rem [97] [193] x.2) * takeRows 1 sOut8)
  let ν := pinvElt [97] [193] 8 * Y
  phase (applyEvaluationKey (gadgetProductR [193] w 1 key c8) (c08, c8)) (takeRows 1 sOut8)
      == phase (c08, c8) (takeRows 1 sIn8) + ν
    && constQ [97] 8 (RPoly.prod [193]) * ν == Y

#guard concl8 0 samples8
#guard concl8 3 samples8b

/-- (c) the noise bound on the values of (a): integer errors / secret behind `samples8`, `sOut8` -/
def e8Z : List ℤ := [1, 0, -1, 0, 2, 0, -2, 1]
def sOut8Z : List ℤ := [0, 1, 1, 0, -1, 0, 0, 1]

theorem hyps_c : sOut8 = RPoly.ofInts ([97] ++ [193]) sOut8Z ∧ sOut8Z.length = 8
    ∧ eMat samples8 = [[e8Z]].map (List.map (RPoly.ofInts ([97] ++ [193])))
    ∧ (∀ r ∈ [[e8Z]], ∀ e ∈ r, e.length = 8) ∧ ZPoly.ErrBounded 2 [[e8Z]] ∧ ZPoly.norm1 sOut8Z ≤ 4
    ∧ (∀ q ∈ ([97] ++ [193] : List ℕ), q % 2 = 1) := by
  refine ⟨by decide +kernel, by decide, by decide +kernel, by decide, ?_, by decide, by decide⟩
  unfold ZPoly.ErrBounded; decide

instance (xP : RPoly) : Decidable (FloatExactPoly xP) := by
  unfold FloatExactPoly FloatExact; infer_instance

/-- the instance obtained FROM THE THEOREM: every hypothesis discharged except the NAMED IEEE hypothesis on the two
accumulators (Lean's kernel cannot evaluate `Float`; it is evaluated with the compiled arithmetic below) -/
theorem instance_c :
    let key := genEvaluationKey (pgElt [97] [193] 8 0) sIn8 (RPoly.ofInts ([97] ++ [193]) sOut8Z) samples8
    let d := decompose [193] 0 (key.map List.length) c8
    let x := dotMat (RPoly.zero ([97] ++ [193]) 8) d key
    FloatExactPoly (partP 1 x.1) → FloatExactPoly (partP 1 x.2) →
    ∃ νZ : List ℤ, νZ.length = 8
      ∧ phase (applyEvaluationKey (gadgetProductR [193] 0 1 key c8) (c08, c8))
            (takeRows 1 (RPoly.ofInts ([97] ++ [193]) sOut8Z))
          = phase (c08, c8) (takeRows 1 sIn8) + RPoly.ofInts [97] νZ
      ∧ 2 * (193 * ZPoly.normInf νZ) ≤ 2 * (8 * 2 * 49) + 193 * (1 + 4) := by
  intro key d x h0 h1
  exact keyswitch_noise_closed (qs := [97]) (ps := [193]) (n := 8) hyps_a.1 hyps_a.2.1 hyps_a.2.2.1 hyps_c.2.2.2.2.2.2 0
    sIn8 sOut8Z samples8 [[e8Z]] c08 c8 2 4 hyps_a.2.2.2.1 hyps_c.2.1 hyps_a.2.2.2.2.2.1 hyps_a.2.2.2.2.2.2.1
    hyps_a.2.2.2.2.2.2.2.1 hyps_a.2.2.2.2.2.2.2.2 hyps_c.2.2.1 hyps_c.2.2.2.1 hyps_c.2.2.2.2.1 hyps_c.2.2.2.2.2.1
    h0 h1 (fun h => absurd h (by decide))

/-- TEST (EVALUATION, compiled IEEE arithmetic): the named hypothesis holds on the two accumulators, and the noise
`ν^Z = (E^Z − ρ₀ − s·ρ₁)/P` computed over the integers reduces to the model's `ν` and meets the bound
(`‖ν^Z‖∞ = 1 ≤ (2·8·2·49 + 193·5)/(2·193) = 6.56…`) -/
def noise8 : Bool :=
  let key := genEvaluationKey (pgElt [97] [193] 8 0) sIn8 sOut8 samples8
  let d := decompose [193] 0 (key.map List.length) c8
  let x := dotMat (RPoly.zero ([97] ++ [193]) 8) d key
  let dZ := decomposeZ 1 0 (samples8.map List.length) c8
  let W := ZPoly.sub (ZPoly.sub (ZPoly.dotMatZ 8 dZ [[e8Z]]) (remZ (partP 1 x.1)))
    (ZPoly.mul sOut8Z (remZ (partP 1 x.2)))
  let νZ := W.map (· / 193)
  decide (FloatExactPoly (partP 1 x.1)) && decide (FloatExactPoly (partP 1 x.2))
    && ZPoly.smul 193 νZ == W
    && phase (applyEvaluationKey (gadgetProductR [193] 0 1 key c8) (c08, c8)) (takeRows 1 sOut8)
        == phase (c08, c8) (takeRows 1 sIn8) + RPoly.ofInts [97] νZ
    && decide (2 * (193 * ZPoly.normInf νZ) ≤ 2 * (8 * 2 * 49) + 193 * (1 + 4))
    && ZPoly.normInf νZ == 1

#guard noise8

/-- (d) TWO special primes: `Q = [97, 193]`, `P = [257, 769]` — the digit is the multi-prime HPS digit of `{97, 193}`
(`reconstructRNSCentered` with the IEEE index); the phase theorem needs NO hypothesis on that index -/
instance : Good [97, 193] 8 := ⟨by decide, by decide⟩
instance : Good ([97, 193] ++ [257, 769]) 8 := ⟨by decide, by decide⟩

def L4 : List ℕ := [97, 193] ++ [257, 769]
def sIn4 : RPoly := RPoly.ofInts L4 [1, -1, 0, 1, 0, 0, -1, 1]
def sOut4 : RPoly := RPoly.ofInts L4 [0, 1, 1, 0, -1, 0, 0, 1]
def a4 : RPoly := RPoly.ofInts L4 [123456, 7891011, 121314, 15161718, 192021, 22232425, 262728, 29303132]
def e4 : RPoly := RPoly.ofInts L4 [1, 0, -1, 0, 2, 0, -2, 1]
def samples4 : List (List (RPoly × RPoly)) := [[(a4, e4)]]
def c04 : RPoly := RPoly.ofInts [97, 193] [1, 2, 3, 4, 5, 6, 7, 8]
def c14 : RPoly := RPoly.ofInts [97, 193] [9000, -8000, 7000, -6000, 5000, -4000, 3000, -2000]

theorem hyps_d : ([97, 193] : List ℕ) ≠ [] ∧ ([257, 769] : List ℕ) ≠ []
    ∧ ([97, 193] ++ [257, 769] : List ℕ).Pairwise Nat.Coprime
    ∧ WFq ([97, 193] ++ [257, 769]) 8 sIn4 ∧ WFq ([97, 193] ++ [257, 769]) 8 sOut4
    ∧ WFpairs ([97, 193] ++ [257, 769]) 8 samples4 ∧ WFq [97, 193] 8 c04 ∧ WFq [97, 193] 8 c14
    ∧ samples4.map List.length = gadgetShape [97, 193] ([97, 193].length - 1) [257, 769].length 0 := by
  refine ⟨by decide, by decide, by decide, by decide +kernel, by decide +kernel, by decide +kernel,
    by decide +kernel, by decide +kernel, by decide⟩

theorem instance_d :
    let key := genEvaluationKey (pgElt [97, 193] [257, 769] 8 0) sIn4 sOut4 samples4
    let d := decompose [257, 769] 0 (key.map List.length) c14
    let z := RPoly.zero ([97, 193] ++ [257, 769]) 8
    let x := dotMat z d key
    let Y := takeRows 2 (wsumMat z d (eMat samples4))
      - (takeRows 2 (rem [97, 193] [257, 769] x.1) + takeRows 2 (rem [97, 193] [257, 769] x.2) * takeRows 2 sOut4)
    phase (applyEvaluationKey (gadgetProductR [257, 769] 0 2 key c14) (c04, c14)) (takeRows 2 sOut4)
        = phase (c04, c14) (takeRows 2 sIn4) + pinvElt [97, 193] [257, 769] 8 * Y :=
  (keyswitch_phase_closed (qs := [97, 193]) (ps := [257, 769]) (n := 8) hyps_d.1 hyps_d.2.1 hyps_d.2.2.1 0 sIn4 sOut4
    samples4 c04 c14 hyps_d.2.2.2.1 hyps_d.2.2.2.2.1 hyps_d.2.2.2.2.2.1 hyps_d.2.2.2.2.2.2.1
    hyps_d.2.2.2.2.2.2.2.1 hyps_d.2.2.2.2.2.2.2.2).1

-- TEST (EVALUATION): the conclusion of `instance_d`; the noise `ν` is small (`‖ν‖∞ ≤ 1`)
#guard
  let key := genEvaluationKey (pgElt [97, 193] [257, 769] 8 0) sIn4 sOut4 samples4
  let d := decompose [257, 769] 0 (key.map List.length) c14
  let z := RPoly.zero ([97, 193] ++ [257, 769]) 8
  let x := dotMat z d key
  let Y := takeRows 2 (wsumMat z d (eMat samples4))
    - (takeRows 2 (rem [97, 193] [257, 769] x.1) + takeRows 2 (rem [97, 193] [257, 769] x.2) * takeRows 2 sOut4)
  let ν := pinvElt [97, 193] [257, 769] 8 * Y
  phase (applyEvaluationKey (gadgetProductR [257, 769] 0 2 key c14) (c04, c14)) (takeRows 2 sOut4)
      == phase (c04, c14) (takeRows 2 sIn4) + ν
    && RPoly.infNorm (RPoly.toInts ν) ≤ 1

end concrete

end Lattigo.KS.C04Stack

#print axioms Lattigo.KS.C04Stack.keyswitch_phase_closed
#print axioms Lattigo.KS.C04Stack.instance_a
#print axioms Lattigo.KS.C04Stack.instance_b
#print axioms Lattigo.KS.C04Stack.gadgetProduct_phase_closed
#print axioms Lattigo.KS.C04Stack.relin_phase_closed
#print axioms Lattigo.KS.C04Stack.automorphism_phase_closed
#print axioms Lattigo.KS.C04Stack.keyswitch_noise_closed
#print axioms Lattigo.KS.C04Stack.instance_c
#print axioms Lattigo.KS.C04Stack.instance_d
