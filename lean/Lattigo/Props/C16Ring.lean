/-
  C16 on the carrier the driver executes.

  `Props/C16.lean` proves `cks_phase`, `pcks_phase`, `e2s_masked`, `s2e_phase`, `e2s_s2e_id`,
  `transform_spec`, `refresh_spec` for the generic functions of `Model/MPSwitch.lean` over EVERY
  commutative ring; the driver (`Driver/C16.lean`) runs them on plain `RPoly` values.  Here they are
  instantiated at the commutative ring `WFPoly qs n` (`Proofs/RPolyRing.lean`) and transported to
  `RPoly`:

    hypotheses = well-formedness of the INPUTS (`WFq qs n a` : `a.qs = qs ∧ a.WF n`; for the parties'
                 values `s i`, `e i`, … : for every index `i`);
    conclusion = the same identity between `RPoly` values (`0` is `RPoly.zero qs n`, which is what the
                 driver passes as the zero key).

  NOT transported (reason):
  * `transform_spec` for a general additive map `T` is transported with `T` any function on `RPoly` that
    preserves well-formedness and is additive on well-formed values (`transform_spec_rpoly`); that
    the real transforms (decode / apply `f` / encode) are of this form is not proved;
  * `pcks_zero_noise` is transported (`pcks_zero_noise_rpoly`) with `d0`, `d1` arbitrary well-formed
    values; that the driver's `centredLiftP` makes the bracket divisible by `P` is arithmetic of C02;
  * `q2t_centred`, `e2s_sum_mod_t`, `rescale_err`, `min_level_spec` are statements about `Nat`/`Int`
    (plaintext-space maps `ringQ2T`, `toBigints`, … go through `RPoly.crt`, which is not related to the
    ring structure): nothing to transport.
-/
import Lattigo.Proofs.RPolyTransport
import Lattigo.Proofs.MPSwitch
import Driver.C16

set_option linter.unusedSectionVars false
set_option linter.unusedSimpArgs false

namespace Lattigo.Props.C16Ring
open Lattigo Lattigo.MP Lattigo.RPolyRing Lattigo.Transport

/-! ## 1. Naturality of the model functions -/

section naturality
variable {α β : Type} [Add α] [Mul α] [Neg α] [Sub α] [Add β] [Mul β] [Neg β] [Sub β]
variable {φ : α → β} (hφ : OpsHom φ)
include hφ

theorem phase_push (c0 c1 s : α) : φ (phase c0 c1 s) = phase (φ c0) (φ c1) (φ s) := by
  simp only [phase, hφ.add, hφ.mul]

theorem cksShare_push (c1 sIn sOut e : α) :
    φ (cksShare c1 sIn sOut e) = cksShare (φ c1) (φ sIn) (φ sOut) (φ e) := by
  simp only [cksShare, hφ.add, hφ.mul, hφ.sub]

theorem encZeroPk_push (pinv pk0 pk1 u e0 e1 d0 d1 : α) :
    Prod.map φ φ (encZeroPk pinv pk0 pk1 u e0 e1 d0 d1)
      = encZeroPk (φ pinv) (φ pk0) (φ pk1) (φ u) (φ e0) (φ e1) (φ d0) (φ d1) := by
  simp only [encZeroPk, Prod.map, hφ.add, hφ.mul, hφ.sub]

theorem encZeroPkNoP_push (pk0 pk1 u e0 e1 : α) :
    Prod.map φ φ (encZeroPkNoP pk0 pk1 u e0 e1) = encZeroPkNoP (φ pk0) (φ pk1) (φ u) (φ e0) (φ e1) := by
  simp only [encZeroPkNoP, Prod.map, hφ.add, hφ.mul]

theorem pcksShare_push (z : α × α) (c1 s e : α) :
    Prod.map φ φ (pcksShare z c1 s e) = pcksShare (Prod.map φ φ z) (φ c1) (φ s) (φ e) := by
  simp only [pcksShare, Prod.map, hφ.add, hφ.mul]

theorem pcksAggregate_push (x y : α × α) :
    Prod.map φ φ (pcksAggregate x y) = pcksAggregate (Prod.map φ φ x) (Prod.map φ φ y) := by
  simp only [pcksAggregate, Prod.map, hφ.add]

theorem pcksKeySwitch_push (c0 : α) (agg : α × α) :
    Prod.map φ φ (pcksKeySwitch c0 agg) = pcksKeySwitch (φ c0) (Prod.map φ φ agg) := by
  simp only [pcksKeySwitch, Prod.map, hφ.add]

theorem e2sShare_push (zero c1 s e m : α) :
    φ (e2sShare zero c1 s e m) = e2sShare (φ zero) (φ c1) (φ s) (φ e) (φ m) := by
  simp only [e2sShare, cksShare_push hφ, hφ.sub]

theorem e2sMasked_push (c0 agg : α) : φ (e2sMasked c0 agg) = e2sMasked (φ c0) (φ agg) := by
  simp only [e2sMasked, hφ.add]

theorem s2eShare_push (zero a s e m : α) :
    φ (s2eShare zero a s e m) = s2eShare (φ zero) (φ a) (φ s) (φ e) (φ m) := by
  simp only [s2eShare, cksShare_push hφ, hφ.add]

theorem s2eEncryption_push (agg a : α) :
    Prod.map φ φ (s2eEncryption agg a) = s2eEncryption (φ agg) (φ a) := rfl

theorem refreshShare_push (zero c1 a sIn sOut e1 e2 m m' : α) :
    Prod.map φ φ (refreshShare zero c1 a sIn sOut e1 e2 m m')
      = refreshShare (φ zero) (φ c1) (φ a) (φ sIn) (φ sOut) (φ e1) (φ e2) (φ m) (φ m') := by
  simp only [refreshShare, Prod.map, e2sShare_push hφ, s2eShare_push hφ]

theorem refreshAggregate_push (x y : α × α) :
    Prod.map φ φ (refreshAggregate x y) = refreshAggregate (Prod.map φ φ x) (Prod.map φ φ y) := by
  simp only [refreshAggregate, Prod.map, hφ.add]

theorem refreshFinalize_push (pt' agg a : α) :
    Prod.map φ φ (refreshFinalize pt' agg a) = refreshFinalize (φ pt') (φ agg) (φ a) := by
  simp only [refreshFinalize, Prod.map, hφ.add]

/-- sums along a tree -/
theorem evalAdd_push (t : AggTree) (f : Nat → α) :
    φ (t.eval (· + ·) f) = t.eval (· + ·) (fun i => φ (f i)) :=
  eval_push φ (· + ·) (· + ·) hφ.add t f

theorem evalPcks_push (t : AggTree) (f : Nat → α × α) :
    Prod.map φ φ (t.eval pcksAggregate f) = t.eval pcksAggregate (fun i => Prod.map φ φ (f i)) :=
  eval_push (Prod.map φ φ) pcksAggregate pcksAggregate (pcksAggregate_push hφ) t f

theorem evalRefresh_push (t : AggTree) (f : Nat → α × α) :
    Prod.map φ φ (t.eval refreshAggregate f) = t.eval refreshAggregate (fun i => Prod.map φ φ (f i)) :=
  eval_push (Prod.map φ φ) refreshAggregate refreshAggregate (refreshAggregate_push hφ) t f

end naturality

/-! ## 2. Generic statements proved in `Props/C16.lean` (same statements, same proofs) -/

section gen
variable {α : Type} [CommRing α]

theorem cks_phase_gen (ctLevel aggLevel : Nat) (c0 c1 : α) (sIn sOut e : Nat → α) (t : AggTree)
    (hl : ctLevel ≤ aggLevel) :
    ∃ c0' c1', cksKeySwitch ctLevel c0 c1
        ⟨aggLevel, t.eval (· + ·) (fun i => cksShare c1 (sIn i) (sOut i) (e i))⟩ = .ok (c0', c1') ∧
      phase c0' c1' (t.eval (· + ·) sOut) = phase c0 c1 (t.eval (· + ·) sIn) + t.eval (· + ·) e := by
  refine ⟨c0 + t.eval (· + ·) (fun i => cksShare c1 (sIn i) (sOut i) (e i)), c1, ?_, ?_⟩
  · simp [cksKeySwitch, Nat.not_lt.mpr hl]
  · rw [cks_tree, cks_phase_single]

theorem pcks_phase_gen (c0 c1 sOut : α) (z : Nat → α × α) (s e : Nat → α) (t : AggTree) :
    let ks := pcksKeySwitch c0 (t.eval pcksAggregate fun i => pcksShare (z i) c1 (s i) (e i))
    phase ks.1 ks.2 sOut =
      phase c0 c1 (t.eval (· + ·) s) + t.eval (· + ·) e +
        phase (t.eval (· + ·) fun i => (z i).1) (t.eval (· + ·) fun i => (z i).2) sOut := by
  intro ks
  have : ks = pcksKeySwitch c0 (pcksShare (t.eval (· + ·) (fun i => (z i).1), t.eval (· + ·) (fun i => (z i).2))
      c1 (t.eval (· + ·) s) (t.eval (· + ·) e)) := by
    simp only [ks, pcks_tree]
  rw [this, pcks_phase_single]

theorem e2s_masked_gen (c0 c1 : α) (s e m : Nat → α) (t : AggTree) :
    e2sMasked c0 (t.eval (· + ·) fun i => e2sShare 0 c1 (s i) (e i) (m i)) + t.eval (· + ·) m =
      phase c0 c1 (t.eval (· + ·) s) + t.eval (· + ·) e := by
  rw [e2s_tree, e2s_masked_single]; ring

theorem s2e_phase_gen (a : α) (s e f : Nat → α) (t : AggTree) :
    let ct := s2eEncryption (t.eval (· + ·) fun i => s2eShare 0 a (s i) (e i) (f i)) a
    phase ct.1 ct.2 (t.eval (· + ·) s) = t.eval (· + ·) f + t.eval (· + ·) e := by
  intro ct
  simp only [ct, s2eEncryption, s2e_tree, s2e_phase_single]

theorem e2s_s2e_id_gen (c0 c1 a : α) (s e1 e2 f : Nat → α) (t : AggTree)
    (hf : t.eval (· + ·) f = phase c0 c1 (t.eval (· + ·) s) + t.eval (· + ·) e1) :
    let ct := s2eEncryption (t.eval (· + ·) fun i => s2eShare 0 a (s i) (e2 i) (f i)) a
    phase ct.1 ct.2 (t.eval (· + ·) s) =
      phase c0 c1 (t.eval (· + ·) s) + t.eval (· + ·) e1 + t.eval (· + ·) e2 := by
  intro ct
  have := s2e_phase_gen a s e2 f t
  simp only at this
  rw [this, hf]

theorem transform_spec_gen (T : α →+ α) (c0 c1 a : α) (sIn sOut e1 e2 m : Nat → α) (t : AggTree) :
    let shares := fun i => refreshShare 0 c1 a (sIn i) (sOut i) (e1 i) (e2 i) (m i) (T (m i))
    let agg := t.eval refreshAggregate shares
    let out := refreshFinalize (T (e2sMasked c0 agg.1)) agg.2 a
    phase out.1 out.2 (t.eval (· + ·) sOut) =
      T (phase c0 c1 (t.eval (· + ·) sIn) + t.eval (· + ·) e1) + t.eval (· + ·) e2 := by
  intro shares agg out
  have hagg : agg = (t.eval (· + ·) (fun i => e2sShare 0 c1 (sIn i) (e1 i) (m i)),
      t.eval (· + ·) (fun i => s2eShare 0 a (sOut i) (e2 i) (T (m i)))) := by
    simp only [agg, shares]
    induction t with
    | leaf i => rfl
    | node l r ihl ihr => simp only [AggTree.eval, refreshAggregate, ihl, ihr]
  have h1 := e2s_masked_gen c0 c1 sIn e1 m t
  have hm : e2sMasked c0 agg.1 = phase c0 c1 (t.eval (· + ·) sIn) + t.eval (· + ·) e1 - t.eval (· + ·) m := by
    rw [hagg]; simp only; rw [← h1]; ring
  simp only [out, refreshFinalize, hm]
  rw [hagg]
  simp only [s2e_tree, tree_addHom]
  unfold phase s2eShare cksShare
  simp only [map_sub, map_add]
  ring

theorem refresh_spec_gen (c0 c1 a : α) (s e1 e2 m : Nat → α) (t : AggTree) :
    let shares := fun i => refreshShare 0 c1 a (s i) (s i) (e1 i) (e2 i) (m i) (m i)
    let agg := t.eval refreshAggregate shares
    let out := refreshFinalize (e2sMasked c0 agg.1) agg.2 a
    phase out.1 out.2 (t.eval (· + ·) s) =
      phase c0 c1 (t.eval (· + ·) s) + t.eval (· + ·) e1 + t.eval (· + ·) e2 := by
  have := transform_spec_gen (AddMonoidHom.id α) c0 c1 a s s e1 e2 m t
  simpa using this

end gen

/-! ## 3. The theorems on `RPoly` values -/

section rpoly
variable {qs : List ℕ} {n : ℕ} [Good qs n]

/-- **cks_collective_rpoly.**  The aggregate of the parties' shares (any tree) is the share of the ideal
secrets and summed noise. -/
theorem cks_collective_rpoly (c1 : RPoly) (sIn sOut e : Nat → RPoly) (t : AggTree)
    (hc1 : WFq qs n c1) (hsIn : ∀ i, WFq qs n (sIn i)) (hsOut : ∀ i, WFq qs n (sOut i))
    (he : ∀ i, WFq qs n (e i)) :
    t.eval (· + ·) (fun i => cksShare c1 (sIn i) (sOut i) (e i)) =
      cksShare c1 (t.eval (· + ·) sIn) (t.eval (· + ·) sOut) (t.eval (· + ·) e) := by
  obtain ⟨c1, rfl⟩ := exists_lift c1 hc1
  obtain ⟨sIn, rfl⟩ := exists_lift_fun sIn hsIn
  obtain ⟨sOut, rfl⟩ := exists_lift_fun sOut hsOut
  obtain ⟨e, rfl⟩ := exists_lift_fun e he
  have h := congrArg val (cks_tree c1 sIn sOut e t)
  simp only [evalAdd_push val_hom, cksShare_push val_hom] at h
  exact h

/-- **cks_phase_rpoly.**  `phase(KeySwitch(ct, Σ shares), Σ s_out,i) = phase(ct, Σ s_in,i) + Σ e_i` -/
theorem cks_phase_rpoly (ctLevel aggLevel : Nat) (c0 c1 : RPoly) (sIn sOut e : Nat → RPoly) (t : AggTree)
    (hl : ctLevel ≤ aggLevel) (hc0 : WFq qs n c0) (hc1 : WFq qs n c1)
    (hsIn : ∀ i, WFq qs n (sIn i)) (hsOut : ∀ i, WFq qs n (sOut i)) (he : ∀ i, WFq qs n (e i)) :
    ∃ c0' c1', cksKeySwitch ctLevel c0 c1
        ⟨aggLevel, t.eval (· + ·) (fun i => cksShare c1 (sIn i) (sOut i) (e i))⟩ = .ok (c0', c1') ∧
      phase c0' c1' (t.eval (· + ·) sOut) = phase c0 c1 (t.eval (· + ·) sIn) + t.eval (· + ·) e
      ∧ WFq qs n c0' ∧ WFq qs n c1' := by
  obtain ⟨c0, rfl⟩ := exists_lift c0 hc0
  obtain ⟨c1, rfl⟩ := exists_lift c1 hc1
  obtain ⟨sIn, rfl⟩ := exists_lift_fun sIn hsIn
  obtain ⟨sOut, rfl⟩ := exists_lift_fun sOut hsOut
  obtain ⟨e, rfl⟩ := exists_lift_fun e he
  obtain ⟨x, y, h1, h2⟩ := cks_phase_gen ctLevel aggLevel c0 c1 sIn sOut e t hl
  simp only [cksKeySwitch, Nat.not_lt.mpr hl, if_false, Res.ok.injEq, Prod.mk.injEq] at h1
  obtain ⟨rfl, rfl⟩ := h1
  refine ⟨val (c0 + t.eval (· + ·) (fun i => cksShare c1 (sIn i) (sOut i) (e i))), val c1, ?_, ?_,
    val_wf _, val_wf _⟩
  · simp only [cksKeySwitch, Nat.not_lt.mpr hl, if_false, val_hom.add, evalAdd_push val_hom,
      cksShare_push val_hom]
  · have h := congrArg val h2
    simp only [phase_push val_hom, val_hom.add, evalAdd_push val_hom, cksShare_push val_hom] at h ⊢
    exact h

/-- **pcks_phase_rpoly.**  With `z i` the parties' encryptions of zero under the target public key:
`phase(KeySwitch(ct, Σ shares), s_out) = phase(ct, Σ s_i) + Σ e_i + Σ phase(z_i, s_out)`. -/
theorem pcks_phase_rpoly (c0 c1 sOut : RPoly) (z : Nat → RPoly × RPoly) (s e : Nat → RPoly) (t : AggTree)
    (hc0 : WFq qs n c0) (hc1 : WFq qs n c1) (hsOut : WFq qs n sOut)
    (hz : ∀ i, WFq qs n (z i).1 ∧ WFq qs n (z i).2) (hs : ∀ i, WFq qs n (s i)) (he : ∀ i, WFq qs n (e i)) :
    let ks := pcksKeySwitch c0 (t.eval pcksAggregate fun i => pcksShare (z i) c1 (s i) (e i))
    phase ks.1 ks.2 sOut =
      phase c0 c1 (t.eval (· + ·) s) + t.eval (· + ·) e +
        phase (t.eval (· + ·) fun i => (z i).1) (t.eval (· + ·) fun i => (z i).2) sOut := by
  obtain ⟨c0, rfl⟩ := exists_lift c0 hc0
  obtain ⟨c1, rfl⟩ := exists_lift c1 hc1
  obtain ⟨sOut, rfl⟩ := exists_lift sOut hsOut
  obtain ⟨s, rfl⟩ := exists_lift_fun s hs
  obtain ⟨e, rfl⟩ := exists_lift_fun e he
  obtain ⟨z, rfl⟩ : ∃ z' : Nat → WFPoly qs n × WFPoly qs n, (fun i => Prod.map val val (z' i)) = z :=
    ⟨fun i => (lift (z i).1 (hz i).1, lift (z i).2 (hz i).2), rfl⟩
  have h := congrArg val (pcks_phase_gen c0 c1 sOut z s e t)
  have e1 : ∀ p : WFPoly qs n × WFPoly qs n, val p.1 = (Prod.map val val p).1 := fun _ => rfl
  have e2 : ∀ p : WFPoly qs n × WFPoly qs n, val p.2 = (Prod.map val val p).2 := fun _ => rfl
  simp only [phase_push val_hom, val_hom.add, evalAdd_push val_hom] at h
  rw [e1, e2, pcksKeySwitch_push val_hom, evalPcks_push val_hom] at h
  simp only [pcksShare_push val_hom] at h
  exact h

/-- **pcks_zero_noise_rpoly.**  Phase of the encryption of zero under `pk` divided by the auxiliary modulus. -/
theorem pcks_zero_noise_rpoly (pinv pk0 pk1 u e0 e1 d0 d1 sOut epk : RPoly)
    (hpk : phase pk0 pk1 sOut = epk)
    (h1 : WFq qs n pinv) (h2 : WFq qs n pk0) (h3 : WFq qs n pk1) (h4 : WFq qs n u) (h5 : WFq qs n e0)
    (h6 : WFq qs n e1) (h7 : WFq qs n d0) (h8 : WFq qs n d1) (h9 : WFq qs n sOut) :
    phase (encZeroPk pinv pk0 pk1 u e0 e1 d0 d1).1 (encZeroPk pinv pk0 pk1 u e0 e1 d0 d1).2 sOut =
      pinv * (u * epk + e0 + e1 * sOut - d0 - d1 * sOut) := by
  subst hpk
  obtain ⟨pinv, rfl⟩ := exists_lift pinv h1
  obtain ⟨pk0, rfl⟩ := exists_lift pk0 h2
  obtain ⟨pk1, rfl⟩ := exists_lift pk1 h3
  obtain ⟨u, rfl⟩ := exists_lift u h4
  obtain ⟨e0, rfl⟩ := exists_lift e0 h5
  obtain ⟨e1, rfl⟩ := exists_lift e1 h6
  obtain ⟨d0, rfl⟩ := exists_lift d0 h7
  obtain ⟨d1, rfl⟩ := exists_lift d1 h8
  obtain ⟨sOut, rfl⟩ := exists_lift sOut h9
  have h := congrArg val (encZeroPk_phase pinv pk0 pk1 u e0 e1 d0 d1 sOut _ rfl)
  have e1' : ∀ p : WFPoly qs n × WFPoly qs n, val p.1 = (Prod.map val val p).1 := fun _ => rfl
  have e2' : ∀ p : WFPoly qs n × WFPoly qs n, val p.2 = (Prod.map val val p).2 := fun _ => rfl
  rw [phase_push val_hom, e1', e2', encZeroPk_push val_hom] at h
  simp only [val_hom.add, val_hom.mul, val_hom.sub, phase_push val_hom] at h
  exact h

/-- **e2s_masked_rpoly.**  The masked plaintext plus the parties' masks is the plaintext plus the smudging
noise (`RPoly.zero qs n` is the zero key the driver passes). -/
theorem e2s_masked_rpoly (c0 c1 : RPoly) (s e m : Nat → RPoly) (t : AggTree)
    (hc0 : WFq qs n c0) (hc1 : WFq qs n c1) (hs : ∀ i, WFq qs n (s i)) (he : ∀ i, WFq qs n (e i))
    (hm : ∀ i, WFq qs n (m i)) :
    e2sMasked c0 (t.eval (· + ·) fun i => e2sShare (RPoly.zero qs n) c1 (s i) (e i) (m i))
        + t.eval (· + ·) m =
      phase c0 c1 (t.eval (· + ·) s) + t.eval (· + ·) e := by
  obtain ⟨c0, rfl⟩ := exists_lift c0 hc0
  obtain ⟨c1, rfl⟩ := exists_lift c1 hc1
  obtain ⟨s, rfl⟩ := exists_lift_fun s hs
  obtain ⟨e, rfl⟩ := exists_lift_fun e he
  obtain ⟨m, rfl⟩ := exists_lift_fun m hm
  have h := congrArg val (e2s_masked_gen c0 c1 s e m t)
  simp only [phase_push val_hom, val_hom.add, e2sMasked_push val_hom, evalAdd_push val_hom,
    e2sShare_push val_hom, val_zero] at h
  exact h

/-- **s2e_phase_rpoly.** -/
theorem s2e_phase_rpoly (a : RPoly) (s e f : Nat → RPoly) (t : AggTree)
    (ha : WFq qs n a) (hs : ∀ i, WFq qs n (s i)) (he : ∀ i, WFq qs n (e i)) (hf : ∀ i, WFq qs n (f i)) :
    let ct := s2eEncryption (t.eval (· + ·) fun i => s2eShare (RPoly.zero qs n) a (s i) (e i) (f i)) a
    phase ct.1 ct.2 (t.eval (· + ·) s) = t.eval (· + ·) f + t.eval (· + ·) e := by
  obtain ⟨a, rfl⟩ := exists_lift a ha
  obtain ⟨s, rfl⟩ := exists_lift_fun s hs
  obtain ⟨e, rfl⟩ := exists_lift_fun e he
  obtain ⟨f, rfl⟩ := exists_lift_fun f hf
  have h := congrArg val (s2e_phase_gen a s e f t)
  simp only [s2eEncryption, phase_push val_hom, val_hom.add, evalAdd_push val_hom,
    s2eShare_push val_hom, val_zero] at h
  exact h

/-- **e2s_s2e_id_rpoly.**  ShareToEnc ∘ EncToShare is the identity on phases up to the two smudging noises. -/
theorem e2s_s2e_id_rpoly (c0 c1 a : RPoly) (s e1 e2 f : Nat → RPoly) (t : AggTree)
    (hc0 : WFq qs n c0) (hc1 : WFq qs n c1) (ha : WFq qs n a) (hs : ∀ i, WFq qs n (s i))
    (he1 : ∀ i, WFq qs n (e1 i)) (he2 : ∀ i, WFq qs n (e2 i)) (hfw : ∀ i, WFq qs n (f i))
    (hf : t.eval (· + ·) f = phase c0 c1 (t.eval (· + ·) s) + t.eval (· + ·) e1) :
    let ct := s2eEncryption (t.eval (· + ·) fun i => s2eShare (RPoly.zero qs n) a (s i) (e2 i) (f i)) a
    phase ct.1 ct.2 (t.eval (· + ·) s) =
      phase c0 c1 (t.eval (· + ·) s) + t.eval (· + ·) e1 + t.eval (· + ·) e2 := by
  obtain ⟨c0, rfl⟩ := exists_lift c0 hc0
  obtain ⟨c1, rfl⟩ := exists_lift c1 hc1
  obtain ⟨a, rfl⟩ := exists_lift a ha
  obtain ⟨s, rfl⟩ := exists_lift_fun s hs
  obtain ⟨e1, rfl⟩ := exists_lift_fun e1 he1
  obtain ⟨e2, rfl⟩ := exists_lift_fun e2 he2
  obtain ⟨f, rfl⟩ := exists_lift_fun f hfw
  have hf' : t.eval (· + ·) f = phase c0 c1 (t.eval (· + ·) s) + t.eval (· + ·) e1 := val_injective (by
    simp only [phase_push val_hom, val_hom.add, evalAdd_push val_hom]; exact hf)
  have h := congrArg val (e2s_s2e_id_gen c0 c1 a s e1 e2 f t hf')
  simp only [s2eEncryption, phase_push val_hom, val_hom.add, evalAdd_push val_hom,
    s2eShare_push val_hom, val_zero] at h
  exact h

/-- **transform_spec_rpoly.**  `T` any map of `RPoly` that preserves well-formedness and is additive on
well-formed values. -/
theorem transform_spec_rpoly (T : RPoly → RPoly) (hTwf : ∀ x, WFq qs n x → WFq qs n (T x))
    (hTadd : ∀ x y, WFq qs n x → WFq qs n y → T (x + y) = T x + T y)
    (c0 c1 a : RPoly) (sIn sOut e1 e2 m : Nat → RPoly) (t : AggTree)
    (hc0 : WFq qs n c0) (hc1 : WFq qs n c1) (ha : WFq qs n a) (hsIn : ∀ i, WFq qs n (sIn i))
    (hsOut : ∀ i, WFq qs n (sOut i)) (he1 : ∀ i, WFq qs n (e1 i)) (he2 : ∀ i, WFq qs n (e2 i))
    (hm : ∀ i, WFq qs n (m i)) :
    let shares := fun i => refreshShare (RPoly.zero qs n) c1 a (sIn i) (sOut i) (e1 i) (e2 i) (m i) (T (m i))
    let agg := t.eval refreshAggregate shares
    let out := refreshFinalize (T (e2sMasked c0 agg.1)) agg.2 a
    phase out.1 out.2 (t.eval (· + ·) sOut) =
      T (phase c0 c1 (t.eval (· + ·) sIn) + t.eval (· + ·) e1) + t.eval (· + ·) e2 := by
  obtain ⟨c0, rfl⟩ := exists_lift c0 hc0
  obtain ⟨c1, rfl⟩ := exists_lift c1 hc1
  obtain ⟨a, rfl⟩ := exists_lift a ha
  obtain ⟨sIn, rfl⟩ := exists_lift_fun sIn hsIn
  obtain ⟨sOut, rfl⟩ := exists_lift_fun sOut hsOut
  obtain ⟨e1, rfl⟩ := exists_lift_fun e1 he1
  obtain ⟨e2, rfl⟩ := exists_lift_fun e2 he2
  obtain ⟨m, rfl⟩ := exists_lift_fun m hm
  -- `T` as an additive endomorphism of the ring
  have hT0 : T (RPoly.zero qs n) = RPoly.zero qs n := by
    have h0 : (0 : WFPoly qs n) + 0 = 0 := add_zero 0
    have h := hTadd _ _ (val_wf (0 : WFPoly qs n)) (val_wf (0 : WFPoly qs n))
    rw [← val_hom.add, h0] at h
    have : lift (T (val 0)) (hTwf _ (val_wf (0 : WFPoly qs n))) = 0 := by
      have h' : lift (T (val (0 : WFPoly qs n))) (hTwf _ (val_wf _))
          = lift (T (val (0 : WFPoly qs n))) (hTwf _ (val_wf _)) + lift (T (val (0 : WFPoly qs n))) (hTwf _ (val_wf _)) :=
        val_injective h
      exact (add_eq_left.mp h'.symm)
    exact congrArg val this
  let T' : WFPoly qs n →+ WFPoly qs n :=
    { toFun := fun x => lift (T (val x)) (hTwf _ (val_wf x))
      map_zero' := val_injective hT0
      map_add' := fun x y => val_injective (hTadd _ _ (val_wf x) (val_wf y)) }
  have hT' : ∀ x, val (T' x) = T (val x) := fun _ => rfl
  have h := congrArg val (transform_spec_gen T' c0 c1 a sIn sOut e1 e2 m t)
  have p1 : ∀ p : WFPoly qs n × WFPoly qs n, val p.1 = (Prod.map val val p).1 := fun _ => rfl
  have p2 : ∀ p : WFPoly qs n × WFPoly qs n, val p.2 = (Prod.map val val p).2 := fun _ => rfl
  simp only [phase_push val_hom, val_hom.add, evalAdd_push val_hom, hT'] at h
  rw [p1, p2, refreshFinalize_push val_hom, hT', e2sMasked_push val_hom, p1, p2,
    evalRefresh_push val_hom] at h
  simp only [refreshShare_push val_hom, hT', val_zero] at h
  exact h

/-- **refresh_spec_rpoly.**  Refresh: a fresh ciphertext on the CRP `a` with phase
`phase(ct, Σ s) + Σ e1 + Σ e2`. -/
theorem refresh_spec_rpoly (c0 c1 a : RPoly) (s e1 e2 m : Nat → RPoly) (t : AggTree)
    (hc0 : WFq qs n c0) (hc1 : WFq qs n c1) (ha : WFq qs n a) (hs : ∀ i, WFq qs n (s i))
    (he1 : ∀ i, WFq qs n (e1 i)) (he2 : ∀ i, WFq qs n (e2 i)) (hm : ∀ i, WFq qs n (m i)) :
    let shares := fun i => refreshShare (RPoly.zero qs n) c1 a (s i) (s i) (e1 i) (e2 i) (m i) (m i)
    let agg := t.eval refreshAggregate shares
    let out := refreshFinalize (e2sMasked c0 agg.1) agg.2 a
    phase out.1 out.2 (t.eval (· + ·) s) =
      phase c0 c1 (t.eval (· + ·) s) + t.eval (· + ·) e1 + t.eval (· + ·) e2 :=
  transform_spec_rpoly id (fun _ h => h) (fun _ _ _ _ => rfl) c0 c1 a s s e1 e2 m t hc0 hc1 ha hs hs he1 he2 hm

end rpoly

/-! ## 4. The driver -/

section driver
open Driver.C16

/-- **the `cks_share` handler calls `cksShare`** on `RPoly` values: the ciphertext component as parsed, the
secrets and the error as residues of the integer vectors (`RPoly.ofInts`, well formed by `ofInts_wf`) -/
theorem handle_cks_share_calls (qs n c1 sIn sOut e : String) (qsv : List ℕ) (c1m : List (List ℕ))
    (sInv sOutv ev : List ℤ)
    (h1 : Driver.parseVec? qs = some qsv) (h2 : Driver.parseMat? c1 = some c1m)
    (h3 : Driver.parseIVec? sIn = some sInv) (h4 : Driver.parseIVec? sOut = some sOutv)
    (h5 : Driver.parseIVec? e = some ev) :
    handleOpt ["cks_share", qs, n, c1, sIn, sOut, e]
      = some (Driver.showMat (cksShare (poly qsv c1m) (RPoly.ofInts qsv sInv) (RPoly.ofInts qsv sOutv)
          (RPoly.ofInts qsv ev)).c) := by
  have h : handleOpt ["cks_share", qs, n, c1, sIn, sOut, e] = (do
      let qs ← Driver.parseVec? qs
      let c1 := poly qs (← Driver.parseMat? c1)
      some (Driver.showMat (cksShare c1 (RPoly.ofInts qs (← Driver.parseIVec? sIn))
        (RPoly.ofInts qs (← Driver.parseIVec? sOut)) (RPoly.ofInts qs (← Driver.parseIVec? e))).c)) := rfl
  rw [h]
  simp only [h1, h2, h3, h4, h5, Option.bind_eq_bind, Option.bind_some]

/-- **the `bgv_e2s` handler calls `e2sShare`** with the zero key `RPoly.zero qs n` of the theorems -/
theorem handle_bgv_e2s_calls (qs n t c1 s e mask : String) (qsv : List ℕ) (nv tv : ℕ) (c1m : List (List ℕ))
    (sv ev : List ℤ) (mv : List ℕ)
    (h1 : Driver.parseVec? qs = some qsv) (h2 : n.toNat? = some nv) (h3 : t.toNat? = some tv)
    (h4 : Driver.parseMat? c1 = some c1m) (h5 : Driver.parseIVec? s = some sv)
    (h6 : Driver.parseIVec? e = some ev) (h7 : Driver.parseVec? mask = some mv) :
    handleOpt ["bgv_e2s", qs, n, t, c1, s, e, mask]
      = some (Driver.showMat (e2sShare (RPoly.zero qsv nv) (poly qsv c1m) (RPoly.ofInts qsv sv)
          (RPoly.ofInts qsv ev) (ringT2Q qsv nv tv mv)).c) := by
  have h : handleOpt ["bgv_e2s", qs, n, t, c1, s, e, mask] = (do
      let qs ← Driver.parseVec? qs
      let n ← n.toNat?
      let t ← t.toNat?
      let m := ringT2Q qs n t (← Driver.parseVec? mask)
      some (Driver.showMat (e2sShare (zeroOf qs n) (poly qs (← Driver.parseMat? c1))
        (RPoly.ofInts qs (← Driver.parseIVec? s)) (RPoly.ofInts qs (← Driver.parseIVec? e)) m).c)) := rfl
  rw [h]
  simp only [h1, h2, h3, h4, h5, h6, h7, Option.bind_eq_bind, Option.bind_some, zeroOf]

end driver

/-! ## 5. A concrete instance: `qs = [97, 193]`, `n = 8`, three parties, tree `(0 + 1) + 2` -/

section concrete

instance good8 : Good [97, 193] 8 := ⟨by decide, by decide⟩

def c08 : RPoly := ⟨[97, 193], [[5, 6, 7, 8, 9, 10, 11, 12], [5, 6, 7, 8, 9, 10, 11, 12]]⟩
def c18 : RPoly := ⟨[97, 193], [[1, 2, 3, 4, 5, 6, 7, 8], [10, 20, 30, 40, 50, 60, 70, 80]]⟩
/-- party `i`: ternary secrets and small errors, as the driver builds them (`RPoly.ofInts`) -/
def sIn8 (i : Nat) : RPoly := RPoly.ofInts [97, 193] [1, -1, 0, (i : ℤ) % 2, 0, 0, -1, 1]
def sOut8 (i : Nat) : RPoly := RPoly.ofInts [97, 193] [0, 1, 1, 0, -1, 0, (i : ℤ) % 2, 1]
def e8 (i : Nat) : RPoly := RPoly.ofInts [97, 193] [1, 0, -1, 0, 2, 0, -2, (i : ℤ) % 3]
def t8 : AggTree := .node (.node (.leaf 0) (.leaf 1)) (.leaf 2)

/-- an instance of `cks_phase_rpoly` obtained FROM THE THEOREM, all hypotheses discharged -/
example : ∃ c0' c1', cksKeySwitch 1 c08 c18
      ⟨1, t8.eval (· + ·) (fun i => cksShare c18 (sIn8 i) (sOut8 i) (e8 i))⟩ = .ok (c0', c1') ∧
    phase c0' c1' (t8.eval (· + ·) sOut8) = phase c08 c18 (t8.eval (· + ·) sIn8) + t8.eval (· + ·) e8
    ∧ WFq [97, 193] 8 c0' ∧ WFq [97, 193] 8 c1' :=
  cks_phase_rpoly (qs := [97, 193]) (n := 8) 1 1 c08 c18 sIn8 sOut8 e8 t8 (le_refl _) (by decide) (by decide)
    (fun _ => ofInts_wf _ rfl) (fun _ => ofInts_wf _ rfl) (fun _ => ofInts_wf _ rfl)

/-- TEST (evaluation of the model on these values) -/
example : phase (c08 + t8.eval (· + ·) (fun i => cksShare c18 (sIn8 i) (sOut8 i) (e8 i))) c18
      (t8.eval (· + ·) sOut8)
    = phase c08 c18 (t8.eval (· + ·) sIn8) + t8.eval (· + ·) e8 := by decide +kernel

/-- TEST (evaluation): refresh on these values (masks `m i = e8 (i+1)`, CRP `a = c08`) -/
example :
    let shares := fun i => refreshShare (RPoly.zero [97, 193] 8) c18 c08 (sIn8 i) (sIn8 i) (e8 i) (e8 (i + 2))
      (e8 (i + 1)) (e8 (i + 1))
    let agg := t8.eval refreshAggregate shares
    let out := refreshFinalize (e2sMasked c08 agg.1) agg.2 c08
    phase out.1 out.2 (t8.eval (· + ·) sIn8) =
      phase c08 c18 (t8.eval (· + ·) sIn8) + t8.eval (· + ·) e8 + t8.eval (· + ·) (fun i => e8 (i + 2)) := by
  decide +kernel

end concrete

end Lattigo.Props.C16Ring

#print axioms Lattigo.Props.C16Ring.cks_collective_rpoly
#print axioms Lattigo.Props.C16Ring.cks_phase_rpoly
#print axioms Lattigo.Props.C16Ring.pcks_phase_rpoly
#print axioms Lattigo.Props.C16Ring.pcks_zero_noise_rpoly
#print axioms Lattigo.Props.C16Ring.e2s_masked_rpoly
#print axioms Lattigo.Props.C16Ring.s2e_phase_rpoly
#print axioms Lattigo.Props.C16Ring.e2s_s2e_id_rpoly
#print axioms Lattigo.Props.C16Ring.transform_spec_rpoly
#print axioms Lattigo.Props.C16Ring.refresh_spec_rpoly
#print axioms Lattigo.Props.C16Ring.handle_cks_share_calls
#print axioms Lattigo.Props.C16Ring.handle_bgv_e2s_calls
