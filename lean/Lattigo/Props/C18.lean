/-
  C18 — bootstrapping restores levels, preserves the message, confines sparse keys.

  All theorems are about the executable model `Lattigo.Model.Bootstrap` (the driver runs it, the harness
  ties it line by line to the real code). Status per clause of the property text:

  PROVED FOR ALL INPUTS (no hypothesis beyond what the parameter literal validates)
  * "key material protected only by the ephemeral secret is generated at the smallest modulus":
    `encapsulation_confined`, `encapsulation_key_present`, `sparse_plaintext_only_under_dense`,
    `genEvaluationKeys_panics_iff`, `accepted_no_panic` — every parameter summary.
  * "the helper produces exactly the keys the evaluator needs": `keys_exact` (set equality of Galois
    elements, both directions), `keys_sufficient`, `index_maps_agree`, `bsgs_rotations_agree` — all `LogN`,
    `LogSlots`, depth splits, BSGS ratios; `key_levels_sufficient` (every key has the `LevelQ`/`LevelP` the
    evaluator uses it at, over all admissible input levels).
  * "returns a ciphertext at the announced output level and default scale": `layout_consistent`,
    `output_level_scale` — every layout incl. grouped splits, iterations, reserved prime. The output SCALE is
    assigned by `BootstrapMany` (`cts[i].Scale = ResidualParameters.DefaultScale()`): tied by `output`, no theorem needed.
  * "any admissible input level": `scaleDown_reaches_level_zero` (whenever `ScaleDown` succeeds the output
    is at level 0, the multiplier is the rounded message-ratio quotient, the primes divided out are those of the
    level the dropping loop stopped at, output scale within the rounding of the target `2^e/2^r`) and
    `scaleDown_error_iff` (admissibility as an integer inequality) — every chain of positive moduli, scale, ratio;
    `Mod1Parameters.QDiff` enters as the float64 it is (`f64round`), all other `big.Float` steps as exact rationals.
  * scale constants of `Evaluator.initialize`: `roundLog2_spec`, `qDiv_one_iff`, `c2sScaling_eq`.
  * "the homomorphic encoding/decoding transforms are mutual inverses": `dft_split_independent` (for every
    `LogSlots` and every depth split the generated matrices compose to `σ^depth ·` the `LogSlots` butterfly layers —
    a matrix in diagonal form times the next layer is the composition) and `dft_inverse`
    (`S2C ∘ C2S = σ_s^d_s · σ_c^d_c · 2^LogSlots · id` in every commutative ring with `ζ^(4·slots) = 1`), for
    vectors of length `slots`.

  PARTIAL (named)
  * `dft_inverse` covers full packing and sparse packing without `RepackImagAsReal`, `BitReversed = false`.
    NOT covered: the doubled vectors, the special first S2C matrix and the masked last C2S matrix of sparse
    `RepackImagAsReal` (what the bootstrapping uses for `LogSlots < LogN-1`); that the layer product IS the
    special (inverse) FFT matrix of the CKKS encoding (only mutual inversion is proved). Both are covered by the
    measured probes `c2s_s2c_inverse`, `bootstrap_precision`.

  TIED ONLY (model = implementation on the explored inputs; the theorems above are about these functions)
  driver ops `helper_rot`, `lt_index`, `generated`, `required`, `inventory`, `needed`, `layout`, `stages`, `output`,
  `scaleconst`, `scaledown`, `mod1_gain`, `default_list`/`default_literal`/`default_source`/`default_announced` (every shipped default
  parameter set, runtime value and source literal, against the table `Model/BootstrapDefaults.lean`), `dft_layers` (exact exponents of every entry of the fully split factorisation, for
  every format — doubled diagonals, repacking first matrix, masked last matrix — and both layouts `BitReversed ∈ {false,true}`:
  model `genMatricesFull`, §11 of the model; the theorems of §6 are about the length-`slots`, non-bit-reversed case).
  That `mod1.EvaluateNew` consumes `Depth()` levels is taken from `stages`. The entries of MERGED matrices are floats in
  the code: `merged_is_product` (probe, real code) checks numerically what `dft_split_independent` proves for the model.

  PROBED ONLY (measured on the real code, `measured=1`; not provable here)
  "the message equals the input message within the precision announced", "the modular-reduction step approximates
  x mod 1 within its stated error": `bootstrap_precision`, `batch_bootstrap`, `c2s_s2c_inverse` — sine/cosine/arcsine
  approximation quality (`mod1`, `utils/cosine`), float64/big.Float DFT constants, encoding error, noise growth, and the
  exactness of ModUp's integer multiplier. The modular-reduction step itself: `mod1_step` (EvaluateNew / EvaluateAndScaleNew over
  Mod1Type × DoubleAngle 0..3 × arcsine × scaling, inputs up to the end points ±(K-1)·Q ± 1/2); `double_angle_scaling` proves the
  algebra of where the scaling must go, the approximation quality is measured.
  ShallowCopy wiring / concurrency: `shallowcopy_*` probes (runtime aliasing is outside the model).

  The model follows the code after the C18 fixes (/verif/fixes/C18-1…5): one rescaling per factorisation group,
  `ShallowCopy` keeps `xPow2InvN1`, no identity Galois key, empty `LogP` rejected, `ScaleDown` matches a level>0 input
  to `2^round(log2 Q0)/MessageRatio`.
-/
import Lattigo.Proofs.BootstrapScale
import Lattigo.Proofs.BootstrapDFT
import Mathlib.Data.ZMod.Basic
import Lattigo.Proofs.BootstrapRot

namespace Lattigo.Props.C18
open Lattigo.Model.Bootstrap Lattigo.Proofs.Bootstrap

/-! ## 1. Key generation: the ephemeral sparse secret is confined to `Q[:1]`, `P[:1]` -/

theorem sparse_not_mem_denseProt (l : KeyLit) : SecretKind.sparse ∉ denseProt l := by
  unfold denseProt; split <;> simp

theorem sparse_not_mem_residualProt (l : KeyLit) : SecretKind.sparse ∉ residualProt l := by
  unfold residualProt; split <;> simp

theorem gk_ne (x : String) : "gk" ++ x ≠ "EvkDenseToSparse" := by
  intro h
  have := congrArg String.toList h
  simp [String.toList_append] at this

/-- shape of the generated bundle -/
theorem genEvaluationKeys_some {l : KeyLit} {galEls : List Nat} {ks : List KeyRec}
    (h : genEvaluationKeys l galEls = some ks) :
    ∀ k ∈ ks,
      (k.name = "EvkDenseToSparse" ∧ k.protectedBy = [.sparse] ∧ k.encrypts = some .dense ∧
        k.levelQ = 0 ∧ k.levelP = 0 ∧ k.ring = .q0p0 ∧ l.ephemeral = true) ∨
      ((k.protectedBy = denseProt l ∨ k.protectedBy = residualProt l) ∧
        k.levelQ = (l.qCount : Int) - 1 ∧ k.levelP = (l.pCount : Int) - 1 ∧ k.ring = .boot ∧
        (k.encrypts = some .sparse → k.protectedBy = denseProt l) ∧ k.name ≠ "EvkDenseToSparse") := by
  intro k hk
  unfold genEvaluationKeys at h
  simp only at h
  split at h
  · cases h
  · split at h
    · cases h
    · rename_i enc henc
      injection h with h
      subst h
      simp only [List.mem_append, List.mem_map, List.mem_cons, List.not_mem_nil, or_false] at hk
      rcases hk with ((hk | hk) | rfl) | ⟨e, _, rfl⟩
      · right
        split at hk
        · split at hk
          · simp only [List.mem_cons, List.not_mem_nil, or_false] at hk
            rcases hk with rfl | rfl <;> simp
          · simp only [List.mem_cons, List.not_mem_nil, or_false] at hk
            rcases hk with rfl | rfl <;> simp
        · simp at hk
      · unfold genEncapsulationKeys at henc
        split at henc
        · injection henc with henc; subst henc; simp at hk
        · split at henc
          · cases henc
          · rename_i he _
            injection henc with henc
            subst henc
            simp only [List.mem_cons, List.not_mem_nil, or_false] at hk
            rcases hk with rfl | rfl
            · left; simpa using he
            · right; simp
      · right; simp
      · right; simp [gk_ne]

/-- **encapsulation_confined.** In the bundle returned by `GenEvaluationKeys`, for EVERY parameter
    summary: a key that is an RLWE encryption under the low-Hamming-weight ephemeral secret is
    protected by that secret only, is `EvkDenseToSparse`, was generated in the parameter set
    restricted to `Q[:1]`, `P[:1]`, and sits at `LevelQ = 0`, `LevelP = 0` — never at a larger modulus. -/
theorem encapsulation_confined (l : KeyLit) (galEls : List Nat) (ks : List KeyRec)
    (h : genEvaluationKeys l galEls = some ks) :
    ∀ k ∈ ks, SecretKind.sparse ∈ k.protectedBy →
      k.protectedBy = [.sparse] ∧ k.levelQ = 0 ∧ k.levelP = 0 ∧ k.ring = .q0p0 ∧ k.name = "EvkDenseToSparse" := by
  intro k hk hs
  rcases genEvaluationKeys_some h k hk with ⟨hn, hp, _, hq, hpp, hr, _⟩ | ⟨hp | hp, _⟩
  · exact ⟨hp, hq, hpp, hr, hn⟩
  · rw [hp] at hs; exact absurd hs (sparse_not_mem_denseProt l)
  · rw [hp] at hs; exact absurd hs (sparse_not_mem_residualProt l)

/-- the only key whose plaintext is the sparse secret is protected by the dense secret, at full level -/
theorem sparse_plaintext_only_under_dense (l : KeyLit) (galEls : List Nat) (ks : List KeyRec)
    (h : genEvaluationKeys l galEls = some ks) :
    ∀ k ∈ ks, k.encrypts = some .sparse →
      k.protectedBy = denseProt l ∧ SecretKind.sparse ∉ k.protectedBy ∧
      k.levelQ = (l.qCount : Int) - 1 ∧ k.levelP = (l.pCount : Int) - 1 := by
  intro k hk he
  rcases genEvaluationKeys_some h k hk with ⟨_, _, he', _⟩ | ⟨_, hq, hp, _, hd, _⟩
  · rw [he] at he'; cases he'
  · exact ⟨hd he, by rw [hd he]; exact sparse_not_mem_denseProt l, hq, hp⟩

/-- non-vacuity of `encapsulation_confined`: with `EphemeralSecretWeight > 0` (and an auxiliary prime)
    the bundle exists and contains a key protected only by the sparse secret, whose plaintext is the
    dense secret — the key whose modulus the 2025 advisory is about. -/
theorem encapsulation_key_present (l : KeyLit) (galEls : List Nat) (he : l.ephemeral = true) (hp : 0 < l.pCount) :
    ∃ ks, genEvaluationKeys l galEls = some ks ∧
      ∃ k ∈ ks, k.protectedBy = [.sparse] ∧ k.encrypts = some .dense ∧ k.levelQ = 0 ∧ k.levelP = 0 := by
  have hp' : ¬ l.pCount = 0 := by omega
  unfold genEvaluationKeys genEncapsulationKeys
  simp only [he, hp', false_and, if_false, Bool.not_true, Bool.false_eq_true]
  refine ⟨_, rfl, (⟨"EvkDenseToSparse", [.sparse], some .dense, 0, 0, .q0p0⟩ : KeyRec), ?_, rfl, rfl, rfl, rfl⟩
  simp

/-- `GenEvaluationKeys` panics (model: `none`) exactly for parameters without auxiliary prime that
    keep the residual ring or ask for the ephemeral secret. -/
theorem genEvaluationKeys_panics_iff (l : KeyLit) (galEls : List Nat) :
    genEvaluationKeys l galEls = none ↔ l.pCount = 0 ∧ (l.ringDiffers = false ∨ l.ephemeral = true) := by
  unfold genEvaluationKeys genEncapsulationKeys
  by_cases hp : l.pCount = 0 <;> cases hd : l.ringDiffers <;> cases he : l.ephemeral <;> simp [hp]

/-- `NewParametersFromLiteral` rejects `len(LogP) = 0` (`KeyLit.accepted`), so the key helper cannot
    panic on parameters obtained through the public constructor (probe `no_p_keygen`). -/
theorem accepted_no_panic (l : KeyLit) (galEls : List Nat) (h : l.accepted) :
    genEvaluationKeys l galEls ≠ none := by
  intro hn
  have := ((genEvaluationKeys_panics_iff l galEls).mp hn).1
  unfold KeyLit.accepted at h
  omega

example : ∃ ks, genEvaluationKeys ⟨25, 5, true, false, false⟩ [5, 25] = some ks ∧ ks.length = 5 := ⟨_, rfl, rfl⟩

/-- **key_levels_sufficient.** For every level layout and every option combination, every key of the
    generated bundle has the `LevelQ` the evaluator uses it at over ALL admissible input levels
    (`neededLevelQ`: ring-switch keys up to the residual maximum, `rlk` from `Mod1.LevelQ`,
    `EvkSparseToDense` and Galois keys on the full chain) and exactly the `LevelP` it must have
    (`neededLevelP`) — no gadget product ever clamps a ciphertext to a shorter key. -/
theorem key_levels_sufficient (s : SchedLit) (eph diff ci : Bool) (galEls : List Nat) (ks : List KeyRec)
    (hr : 1 ≤ s.residualQ) (h : genEvaluationKeys (s.keyLit eph diff ci) galEls = some ks) :
    ∀ k ∈ ks, k.sufficient s := by
  intro k hk
  unfold KeyRec.sufficient
  rcases genEvaluationKeys_some h k hk with ⟨hn, _, _, hq, hp, _⟩ | ⟨_, hq, hp, _, _, hn⟩
  · rw [hn, hq, hp]
    refine ⟨by simp [neededLevelQ], ?_⟩
    intro lp hlp
    simp [neededLevelP] at hlp
    omega
  · rw [hq, hp]
    simp only [SchedLit.keyLit]
    constructor
    · unfold neededLevelQ
      have : s.mod1LevelQ + 1 ≤ s.qCount := by
        unfold SchedLit.mod1LevelQ SchedLit.s2cLevelQ SchedLit.qCount; omega
      have : s.residualQ ≤ s.qCount := by unfold SchedLit.qCount; omega
      split_ifs <;> omega
    · intro lp hlp
      unfold neededLevelP at hlp
      split_ifs at hlp
      · simpa using hlp

example : genEvaluationKeys ((⟨2, 3, 4, 8, false, some 4⟩ : SchedLit).keyLit true true false) [5] ≠ none :=
  accepted_no_panic _ _ (by decide)

/-! ## 2. Galois keys: helper versus evaluator -/

/-- the helper (`computeBootstrappingDFTIndexMap`) and the evaluator (`GenMatrices`) compute the same
    diagonal index sets, for every matrix literal and ring degree. -/
theorem index_maps_agree (d : MatLit) (logN : Nat) : genMatricesIndex d logN = computeIndexMap d logN :=
  genMatricesIndex_eq d logN

/-- **BSGS rotation sets.** For ANY set of diagonals `D` below the plaintext width `cols`, any
    `LogBSGSRatio`: the Galois keys requested by the BSGS evaluation of the linear transformation
    allocated from `D` are exactly the non-zero baby steps `d % N1` and giant steps `(d / N1) * N1`
    with `N1 = FindBestBSGSRatio(D, cols, ratio)`; and `addMatrixRotToList` adds exactly these when
    the matrix has at least three diagonals. -/
theorem bsgs_rotations_agree (D : List Nat) (cols slots bsgs : Nat) (rf : Bool)
    (hb : ∀ d ∈ D, d < (if rf then 2 * slots else slots)) (hmc : (if rf then 2 * slots else slots) ≤ cols)
    (hw : 3 ≤ D.length) (x : Nat) :
    x ∈ ltRequested D cols bsgs ↔ x ∈ addMatrixRot D (findBestBSGSRatio D cols bsgs) slots rf := by
  rw [mem_ltRequested (fun d hd => lt_of_lt_of_le (hb d hd) hmc), mem_addMatrixRot_wide hw hb]

example : (∀ d ∈ [0, 1, 7, 8, 9, 15], d < (if false then 2 * 16 else 16)) ∧ 3 ≤ [0, 1, 7, 8, 9, 15].length := by decide

/-- **keys_exact.** `required(evaluator) = generated(helper)` as sets of Galois elements: the keys
    requested during `bootstrap` (`Trace`, the two DFTs evaluated by BSGS, `Conjugate`, the sparse
    repacking rotation) are exactly the keys `GenEvaluationKeys` generates — for EVERY literal accepted by
    `NewParametersFromLiteral`: all ring degrees, slot counts, depth splits, BSGS ratios. -/
theorem keys_exact (g : GalLit) (hv : g.valid) : ∀ x, x ∈ generatedGalois g ↔ x ∈ requiredGalois g := by
  obtain ⟨_, _, hc, hs⟩ := hv
  intro x
  unfold requiredGalois generatedGalois
  simp only [mem_dedupL, List.mem_append, List.mem_map, List.mem_cons, List.not_mem_nil, or_false]
  constructor
  · rintro (((hx | ⟨r, hr, rfl⟩) | ⟨r, hr, rfl⟩) | rfl)
    · exact Or.inl (Or.inl (Or.inl (Or.inl (Or.inl hx))))
    · rcases (mem_helperRotations _ _ hc r).mp hr with h | ⟨rfl, hsp, _⟩
      · exact Or.inl (Or.inl (Or.inl (Or.inr ⟨r, h, rfl⟩)))
      · refine Or.inl (Or.inr ?_)
        rw [if_pos hsp]
        simp [GalLit.c2s]
    · rcases (mem_helperRotations _ _ hs r).mp hr with h | ⟨_, _, he⟩
      · exact Or.inr ⟨r, h, rfl⟩
      · simp [GalLit.s2c] at he
    · exact Or.inl (Or.inl (Or.inr rfl))
  · rintro ((((((hx | hx) | ⟨r, hr, rfl⟩) | rfl) | hx) | ⟨r, hr, rfl⟩))
    · exact Or.inl (Or.inl (Or.inl hx))
    · split at hx
      · simp only [List.mem_cons, List.not_mem_nil, or_false] at hx
        exact Or.inr hx
      · simp at hx
    · exact Or.inl (Or.inl (Or.inr ⟨r, (mem_helperRotations _ _ hc r).mpr (Or.inl hr), rfl⟩))
    · exact Or.inr rfl
    · split at hx
      · rename_i hsp
        simp only [List.mem_cons, List.not_mem_nil, or_false] at hx
        subst hx
        exact Or.inl (Or.inl (Or.inr ⟨2 ^ g.logSlots, (mem_helperRotations _ _ hc _).mpr (Or.inr ⟨rfl, hsp, rfl⟩), rfl⟩))
      · simp at hx
    · exact Or.inl (Or.inr ⟨r, (mem_helperRotations _ _ hs r).mpr (Or.inl hr), rfl⟩)

/-- **keys_sufficient.** No key is missing during `bootstrap`. -/
theorem keys_sufficient (g : GalLit) (hv : g.valid) : ∀ x ∈ requiredGalois g, x ∈ generatedGalois g :=
  fun x hx => (keys_exact g hv x).mpr hx

/-- the default literal `ParametersLiteral{}` (C2S depth 4, S2C depth 3) at `LogN = 16`, full packing
    (N16QP1546H192H32, N16QP1767H32768H32) -/
def defaultLit : GalLit := { logN := 16, logSlots := 15, c2sLevels := [1, 1, 1, 1], s2cLevels := [1, 1, 1] }
/-- N16QP1553H192H32 / N16QP1793H32768H32: S2C split `{30}, {30, 30}` -/
def groupedLit : GalLit := { logN := 16, logSlots := 15, c2sLevels := [1, 1, 1, 1], s2cLevels := [1, 2] }
/-- N15QP768H192H32 / N15QP880H16384H32: C2S `{49},{49}`, S2C `{30, 30}` -/
def n15Lit : GalLit := { logN := 15, logSlots := 14, c2sLevels := [1, 1], s2cLevels := [2] }
/-- the default literal with `LogSlots = 3` (depths `min(4,3)`, `min(3,3)`): its first C2S and last S2C
    matrices have two diagonals (`len(pVec) < 3` branch of `addMatrixRotToList`) -/
def smallSlotsLit : GalLit := { logN := 16, logSlots := 3, c2sLevels := [1, 1, 1], s2cLevels := [1, 1, 1] }

example : defaultLit.valid ∧ groupedLit.valid ∧ n15Lit.valid ∧ smallSlotsLit.valid := by decide
example : (generatedGalois defaultLit).length = 48 := by decide +kernel
/-- regression witness of the former identity key: Galois element 1 is no longer generated
    (before the fix `1 ∈ generatedGalois smallSlotsLit` while `1 ∉ requiredGalois smallSlotsLit`). -/
example : 1 ∉ generatedGalois smallSlotsLit ∧ 1 ∉ requiredGalois smallSlotsLit := by decide +kernel

/-! ## 3. Level layout and schedule -/

/-- the layout computed by `NewParametersFromLiteral` passes the `ModUpThenEncode` checks of
    `NewEvaluator`, and `ModUp` lands exactly on the starting level of CoeffsToSlots. -/
theorem layout_consistent (s : SchedLit) (h : 1 ≤ s.residualQ) :
    s.newEvaluatorChecks = true ∧ s.qCount - 1 = s.c2sLevelQ := by
  unfold SchedLit.newEvaluatorChecks SchedLit.qCount SchedLit.c2sLevelQ SchedLit.mod1LevelQ SchedLit.s2cLevelQ
  simp only [Bool.and_eq_true, decide_eq_true_eq]
  omega

/-- **output_level_scale.** For EVERY literal (any residual chain, any factorisation — grouped or
    not —, any mod1 depth, with or without reserved prime): every stage succeeds and ends at the level
    the layout announces, and `Evaluate` returns a ciphertext at
    `ResidualParameters.MaxLevel() = Evaluator.OutputLevel()`; with a reserved prime (necessarily the
    iterated path) the extra prime is dropped at the end. -/
theorem output_level_scale (s : SchedLit) (h : 1 ≤ s.residualQ) :
    s.stages = .ok [s.c2sLevelQ, s.mod1LevelQ, s.s2cLevelQ, s.announcedLevel + s.res] ∧
    s.outputLevel true = some s.announcedLevel ∧
    (s.reserved = false → s.outputLevel false = some s.announcedLevel) := by
  have hst : s.stages = .ok [s.c2sLevelQ, s.mod1LevelQ, s.s2cLevelQ, s.announcedLevel + s.res] := by
    unfold SchedLit.stages
    have h1 : ¬ s.c2sLevelQ < s.c2sGroups := by
      unfold SchedLit.c2sLevelQ; omega
    have h2 : ¬ s.c2sLevelQ - s.c2sGroups < s.mod1LevelQ := by
      unfold SchedLit.c2sLevelQ; omega
    have h3 : ¬ s.mod1LevelQ - s.mod1Depth < s.s2cLevelQ := by
      unfold SchedLit.mod1LevelQ; omega
    have h4 : ¬ s.s2cLevelQ < s.s2cGroups := by
      unfold SchedLit.s2cLevelQ; omega
    rw [if_neg h1, if_neg h2, if_neg h3, if_neg h4]
    have e1 : s.qCount - 1 = s.c2sLevelQ := (layout_consistent s h).2
    have e2 : s.c2sLevelQ - s.c2sGroups = s.mod1LevelQ := by unfold SchedLit.c2sLevelQ; omega
    have e3 : s.mod1LevelQ - s.mod1Depth = s.s2cLevelQ := by unfold SchedLit.mod1LevelQ; omega
    have e4 : s.s2cLevelQ - s.s2cGroups = s.announcedLevel + s.res := by
      unfold SchedLit.s2cLevelQ SchedLit.announcedLevel; omega
    rw [e1, e2, e3, e4]
  refine ⟨hst, ?_, ?_⟩
  · unfold SchedLit.outputLevel
    rw [hst]
    simp only [if_true]
    unfold SchedLit.announcedLevel
    congr 1
    omega
  · intro hr
    unfold SchedLit.outputLevel
    rw [hst]
    simp [SchedLit.res, hr]

/-- N16QP1546H192H32: 10 residual primes, S2C 3, C2S 4, `mod1Depth = 8` -/
example : (⟨10, 3, 4, mod1Depth true false 30 16 3 0, false, none⟩ : SchedLit).outputLevel false = some 9 := by decide
/-- N16QP1553H192H32: 8 residual primes, S2C `{30}, {30, 30}` (2 groups, 3 matrices), C2S 4: level 7 as
    announced (before the fix of `dft.Evaluator.dft`: level 6 and no precision left). -/
example : (⟨8, 2, 4, mod1Depth true false 30 16 3 0, false, none⟩ : SchedLit).outputLevel false = some 7 := by decide
/-- iterated bootstrapping with a reserved prime -/
example : (⟨2, 3, 4, 8, true, none⟩ : SchedLit).stages = .ok [17, 13, 5, 2] ∧
    (⟨2, 3, 4, 8, true, none⟩ : SchedLit).outputLevel true = some 1 := by decide

/-! ## 4. Scale schedule constants of `Evaluator.initialize` -/

/-- **roundLog2_spec.** `roundLog2 q` is the ROUNDED binary logarithm: `2^(e-1/2) ≤ q < 2^(e+1/2)`, stated on
    squares. (A floor — `bits.Len64(q)-1` — satisfies this only when `q` is above the power of two.) -/
theorem roundLog2_spec (q : Nat) (h : 1 ≤ q) :
    2 ^ (2 * roundLog2 q) ≤ 2 * (q * q) ∧ q * q < 2 ^ (2 * roundLog2 q + 1) := by
  have a : 2 ^ q.log2 ≤ q := Nat.log2_self_le (by omega)
  have b : q < 2 ^ (q.log2 + 1) := Nat.lt_log2_self
  have a2 : 2 ^ (2 * q.log2) ≤ q * q := by
    have := Nat.mul_le_mul a a
    rwa [← Nat.pow_add, ← Nat.two_mul] at this
  have b2 : q * q < 2 ^ (2 * q.log2 + 2) := by
    have := Nat.mul_lt_mul'' b b
    rwa [← Nat.pow_add, show q.log2 + 1 + (q.log2 + 1) = 2 * q.log2 + 2 by omega] at this
  unfold roundLog2
  simp only
  split
  · rename_i hc
    rw [show 2 * (q.log2 + 1) = (2 * q.log2 + 1) + 1 by omega, Nat.pow_succ,
      show 2 * q.log2 + 1 + 1 + 1 = (2 * q.log2 + 2) + 1 by omega, Nat.pow_succ]
    omega
  · rename_i hc
    omega

/-- the division by `Q[0]` is folded into the CoeffsToSlots matrices (`qDiv < 1`) exactly when the EvalMod
    scale is below the ROUNDED size of `Q[0]`; the C2S scaling is `2^min(round(log2 Q0), EvalModLogScale) / (K·Q0)`. -/
theorem qDiv_one_iff (l : ScaleLit) : l.qDivNegLog = 0 ↔ roundLog2 l.q0 ≤ l.evalModLogScale := by
  unfold ScaleLit.qDivNegLog; omega

theorem c2sScaling_eq (l : ScaleLit) :
    l.c2sScaling = (2 ^ min (roundLog2 l.q0) l.evalModLogScale, l.k * l.q0) := by
  unfold ScaleLit.c2sScaling ScaleLit.qDivNegLog
  congr 2
  omega

/-- a 60-bit prime just BELOW 2^60 rounds to 60 (its floor is 59): with `EvalModLogScale = 55` the matrices
    carry `qDiv = 2^-5`, not `2^-4` -/
example : roundLog2 1152921504606830593 = 60 ∧ Nat.log2 1152921504606830593 = 59 ∧
    (⟨1152921504606830593, 55, 14, 40, 16, false⟩ : ScaleLit).qDivNegLog = 5 := by decide +kernel
example : (⟨1152921504606830593, 60, 14, 40, 16, true⟩ : ScaleLit).s2cScalingLog = -7 := by decide

/-! ## 5. `ScaleDown`: admissible inputs -/

/-- **scaleDown_reaches_level_zero.** For every chain of positive moduli, positive scale `S`, message ratio
    `2^r` and input level `l`: if `ScaleDown` does not return its error then
    the output is at level 0 (the `RescaleTo` loop never stops early), the ciphertext was multiplied by an
    integer `n ≥ 1`, the product `den` of the primes divided out is `q_1⋯q_{l'}` for the level `l'` at which the
    dropping loop stopped, and `n` is the rounded quotient `num/dn` (`|2(dn·n − num)| ≤ dn`), where
    `num/dn = Q[0]/(S·2^r)` for `l' = 0` and `Q[0]·den·2^e/(S·2^r·f64round Q[0])` otherwise
    (`f64round Q[0]/2^e` is the float64 `Mod1Parameters.QDiff`): the output scale `S·n/den` is the target
    `Q[0]/2^r`, resp. `2^e/2^r · Q[0]/f64round Q[0]`, up to the rounding of `n`. -/
theorem scaleDown_reaches_level_zero (qs : List Nat) (S r l : Nat) (hq : ∀ i, 1 ≤ qs.getD i 1) (hS : 0 < S)
    {lv n den : Nat} (h : scaleDown qs S r l = some (lv, n, den)) :
    lv = 0 ∧ 1 ≤ n ∧ den = prodTo qs (dropLevels qs S r l) ∧
    (let num := if dropLevels qs S r l = 0 then qs.getD 0 1
                else qs.getD 0 1 * (den * 2 ^ roundLog2 (qs.getD 0 1))
     let dn := if dropLevels qs S r l = 0 then S * 2 ^ r else S * 2 ^ r * f64round (qs.getD 0 1)
     2 * (dn * n) ≤ 2 * num + dn ∧ 2 * num < 2 * (dn * n) + dn) :=
  scaleDown_spec qs S r l hq hS h

/-- **scaleDown_error_iff.** `ScaleDown` returns "initial Q/Scale < 0.5*Q[0]/MessageRatio" exactly when, at the
    level `l'` where the dropping loop stops, twice the available modulus is below `Scale·MessageRatio`
    (for `l' > 0` the modulus is `q_1⋯q_{l'}·2^e·Q[0]/f64round Q[0]`). No hypothesis. -/
theorem scaleDown_error_iff (qs : List Nat) (S r l : Nat) :
    scaleDown qs S r l = none ↔
      (if dropLevels qs S r l = 0 then 2 * qs.getD 0 1 < S * 2 ^ r
       else 2 * (qs.getD 0 1 * prodTo qs (dropLevels qs S r l) * 2 ^ roundLog2 (qs.getD 0 1))
              < S * 2 ^ r * f64round (qs.getD 0 1)) :=
  scaleDown_none_iff qs S r l

/-- a level-0 input is admissible iff `S · MessageRatio ≤ 2·Q[0]` -/
theorem scaleDown_level0_iff (qs : List Nat) (S r : Nat) :
    scaleDown qs S r 0 ≠ none ↔ S * 2 ^ r ≤ 2 * qs.getD 0 1 := by
  rw [Ne, scaleDown_error_iff qs S r 0]
  simp [dropLevels]

/-- the chain of the harness configuration `q0_50_rescale` (`Q[0]` 50 bits, scale `2^40`, ratio `2^14`): level 0 is
    inadmissible, a level-1 input is rescaled by `Q[1]` (same values as the `scaledown` tie lines) -/
example : scaleDown [1125899906856961, 1099511592961, 1099511480321] (2 ^ 40) 14 0 = none ∧
    scaleDown [1125899906856961, 1099511592961, 1099511480321] (2 ^ 40) 14 1 = some (0, 68719474560, 1099511592961) := by
  decide +kernel

/-! ## 6. The factorised DFT: split independence and mutual inversion -/

/-- **dft_split_independent.** For every accepted matrix literal (any `LogSlots ≥ 1`, any depth split, grouped or
    not, Encode or Decode merge order) and any family of layers with rotations below `slots`: the matrices of
    `GenMatrices` (each diagonal scaled by `σ`) applied in sequence equal `σ^Depth` times the composition of all
    `LogSlots` butterfly layers, level `LogSlots` down to 1. In particular the operator does not depend on the split. -/
theorem dft_split_independent {R : Type} [CommRing R] (d : MatLit) (layer : Nat → Layer R)
    (hrot : ∀ lvl, 1 ≤ lvl → lvl ≤ d.logSlots → (layer lvl).rot < 2 ^ d.logSlots)
    (hv : d.valid) (h1 : 1 ≤ d.maxDepth) (σ : R) (x : Nat → R) (j : Nat) (hj : j < 2 ^ d.logSlots) :
    applyMats (2 ^ d.logSlots) (genMatricesVals d layer σ) x j
      = σ ^ d.maxDepth * applyLayersDown (2 ^ d.logSlots) layer d.logSlots d.logSlots x j :=
  genMatrices_apply d layer hrot hv h1 σ x j hj

/-- **dft_inverse.** `SlotsToCoeffs ∘ CoeffsToSlots = σ_s^{depth_s} · σ_c^{depth_c} · 2^LogSlots · id` for every `LogSlots`
    and every pair of accepted depth splits, in every commutative ring with a root `ζ^(4·slots) = 1`; the layers are
    the model's `dftLayer` tables (tied to `fftPlainVec` / `ifftPlainVec` by `dft_layers`). With
    `σ_c^{depth_c} = scaling_c / slots` (the `1/N` of the Encode type) and `σ_s^{depth_s} = scaling_s` this is
    `scaling_s · scaling_c · id`. -/
theorem dft_inverse {R : Type} [CommRing R] (ζ : R) (dC dS : MatLit)
    (hL : dS.logSlots = dC.logSlots) (hvC : dC.valid) (hvS : dS.valid) (h1C : 1 ≤ dC.maxDepth) (h1S : 1 ≤ dS.maxDepth)
    (hζ : ζ ^ (4 * 2 ^ dC.logSlots) = 1) (σc σs : R) (x : Nat → R) (j : Nat) (hj : j < 2 ^ dC.logSlots) :
    applyMats (2 ^ dC.logSlots) (genMatricesVals dS (decLayers ζ dC.logSlots) σs)
      (applyMats (2 ^ dC.logSlots) (genMatricesVals dC (encLayers ζ dC.logSlots) σc) x) j
      = σs ^ dS.maxDepth * σc ^ dC.maxDepth * 2 ^ dC.logSlots * x j :=
  Lattigo.Proofs.Bootstrap.dft_inverse ζ dC dS hL hvC hvS h1C h1S hζ σc σs x j hj

/-- non-vacuity: `ζ = 3` is a primitive 16-th root of unity in `ZMod 17` (`slots = 4`), C2S split `{1},{1}`, S2C one
    group of two matrices -/
example : (3 : ZMod 17) ^ (4 * 2 ^ 2) = 1 ∧ (3 : ZMod 17) ^ 8 ≠ 1 ∧
    (⟨true, 2, [1, 1], false, false, 1⟩ : MatLit).valid ∧ (⟨false, 2, [2], false, false, 1⟩ : MatLit).valid ∧
    1 ≤ (⟨true, 2, [1, 1], false, false, 1⟩ : MatLit).maxDepth ∧ 1 ≤ (⟨false, 2, [2], false, false, 1⟩ : MatLit).maxDepth := by
  decide

/-! ## 7. `EvaluateAndScaleNew`: the scaling constant of the double-angle steps -/

/-- **double_angle_scaling.** If the value entering the double-angle loop is `c·t` and the loop's constant starts at the
    SAME `c` (`c = sqrt2pi · scaling^(1/2^DoubleAngle)`: the factor folded into the Chebyshev coefficients), then after `k`
    steps the constant is `c^(2^k)` and the value is `c^(2^k) · T_{2^k}(t)`: the gain is `scaling`, `sqrt2pi^(2^k) = 1/2π`. -/
theorem double_angle_scaling : ∀ (k : Nat) (c t : Int),
    doubleAngleIter k (c, c * t) = (c ^ 2 ^ k, c ^ 2 ^ k * chebDouble k t)
  | 0, c, t => by simp [doubleAngleIter, chebDouble]
  | k + 1, c, t => by
    have h := double_angle_scaling k (c * c) (2 * (t * t) - 1)
    simp only [doubleAngleIter, doubleAngleStep, chebDouble]
    rw [show 2 * (c * t * (c * t)) - c * c = c * c * (2 * (t * t) - 1) by ring, h,
      show (c * c) ^ 2 ^ k = c ^ 2 ^ (k + 1) by rw [← pow_two, ← pow_mul, pow_succ, Nat.mul_comm]]

/-- with a DIFFERENT constant (`b ≠ ±a`: e.g. the full scaling instead of its root) already the first step is off by
    `a² − b²` -/
theorem double_angle_mismatch (a b t : Int) :
    (doubleAngleStep (b, a * t)).2 = a * a * (2 * (t * t) - 1) + (a * a - b * b) := by
  simp only [doubleAngleStep]; ring

example : doubleAngleIter 3 (3, 3 * 2) = (3 ^ 8, 3 ^ 8 * chebDouble 3 2) := by decide

end Lattigo.Props.C18

#print axioms Lattigo.Props.C18.encapsulation_confined
#print axioms Lattigo.Props.C18.sparse_plaintext_only_under_dense
#print axioms Lattigo.Props.C18.encapsulation_key_present
#print axioms Lattigo.Props.C18.genEvaluationKeys_panics_iff
#print axioms Lattigo.Props.C18.accepted_no_panic
#print axioms Lattigo.Props.C18.key_levels_sufficient
#print axioms Lattigo.Props.C18.index_maps_agree
#print axioms Lattigo.Props.C18.bsgs_rotations_agree
#print axioms Lattigo.Props.C18.keys_exact
#print axioms Lattigo.Props.C18.keys_sufficient
#print axioms Lattigo.Props.C18.layout_consistent
#print axioms Lattigo.Props.C18.output_level_scale
#print axioms Lattigo.Props.C18.roundLog2_spec
#print axioms Lattigo.Props.C18.qDiv_one_iff
#print axioms Lattigo.Props.C18.c2sScaling_eq
#print axioms Lattigo.Props.C18.scaleDown_reaches_level_zero
#print axioms Lattigo.Props.C18.scaleDown_error_iff
#print axioms Lattigo.Props.C18.scaleDown_level0_iff
#print axioms Lattigo.Props.C18.dft_split_independent
#print axioms Lattigo.Props.C18.dft_inverse
#print axioms Lattigo.Props.C18.double_angle_scaling
#print axioms Lattigo.Props.C18.double_angle_mismatch
