import Lattigo.Proofs.NTTCI
import Mathlib.NumberTheory.LucasPrimality
import Mathlib.Tactic.NormNum.Prime
/-!
  # C01 — the number-theoretic-transform layer (WP-N): property theorems

  All theorems are about the executable definitions of `Lattigo/Model/NTT.lean`
  (`nttCoreLazy`, `nttCICoreLazy`, `inttCoreLazy`, `nttStd`, `inttStd`, `mkTables`), the ones the
  driver runs and the correspondence check compares limb for limb with `ring/ntt.go`.
  They hold for ALL degrees `n = 2^K`, all `q` in the stated range, all inputs.

  Hypothesis bundles (defined in `Proofs/`):
  * `RootsLt roots q`        — every table entry is `< q`;
  * `Valid T K`              — `T.n = 2^K`, `q` prime, `8q ≤ 2^64`, Montgomery/Barrett constants,
                               roots `< q`, `rootsF[j]·rootsB[j] ≡ W²` for `1 ≤ j < n`, `nInv ≡ n⁻¹W`;
  * `TableInv (rho q roots) M` — the table invariant in `Z_q` (`ρ_j = roots[j]·W⁻¹`):
                               `ρ_1² = −1`, `ρ_{2j}² = ρ_j`, `ρ_{2j+1}² = −ρ_j` for `1 ≤ j < M`.
  `tables_invariant` shows that `mkTables` (the model of `generateNTTConstants`) satisfies all of them.
-/
namespace Lattigo.Props.C01NTT
open Lattigo Lattigo.Gen Lattigo.NTT

/-! ## 1. Ranges, absence of uint64 wrap-around -/

/-- **ntt_range** (standard ring, `nttCoreLazy` = `ring/ntt.go: nttCoreLazy`).
For every `n = 2^K` (`K ≥ 4`: the 16-way unrolled schedule `flagStd`; `K < 4`: every stage reduces),
every odd `q` with `8q ≤ 2^64` and its Montgomery constant, every table with entries `< q`, and every
input with entries `< b0·q`, `b0 ≤ 2` (`b0 = 1` reduced, `b0 = 2` lazy input):
* the invariant `FwdOK` holds at the root, i.e. at EVERY node `(depth d, index j)` of the network:
  the values entering depth `d` are `< BStd n b0 d · q` (for `n ≥ 16`, `b0 = 1`: `q, 3q, 5q`, then
  `6q` at odd depths / `8q` at even depths, see `BStd_values`), every word-level butterfly of the
  stage equals the butterfly computed with unbounded naturals (NO wrap), and its outputs are
  `≤ BStd n b0 (d+1) · q − 2`;
* hence `nttCoreLazy` equals the ideal network `fwdRecN`;
* every output is `≤ 6q − 2` (the documented range `[0, 6q−2]`), for `n ≥ 2`. -/
theorem ntt_range (T : Tables) (K : ℕ) (hn : T.n = 2 ^ K) (h8 : 8 * T.q ≤ W)
    (hm : MontConst T.q T.qinv) (hr : RootsLt T.rootsF T.q) (b0 : ℕ) (hb0 : b0 ≤ 2)
    (a : List ℕ) (ha : ∀ x ∈ a, x < b0 * T.q) :
    FwdOK T.rootsF T.q T.qinv (flagStd T.n) (BStd T.n b0) K 0 1 a
    ∧ nttCoreLazy T a = fwdRecN T.rootsF T.q T.qinv (flagStd T.n) K 0 1 a
    ∧ (1 ≤ K → ∀ y ∈ nttCoreLazy T a, y + 2 ≤ 6 * T.q) :=
  nttCoreLazy_range T K hn h8 hm hr b0 hb0 a ha

/-- the per-depth bounds of `ntt_range` for `n ≥ 16` and reduced input: `q, 3q, 5q / 6q, 8q` -/
theorem ntt_range_bounds (K d : ℕ) (hK : 4 ≤ K) (hd : d < K) :
    BStd (2 ^ K) 1 d = if d = 0 then 1 else if d = 1 then 3 else if d = 2 then 5
      else if d % 2 = 1 then 6 else 8 :=
  BStd_values K d hK hd

/-- **ntt_range, conjugate-invariant ring** (`nttCICoreLazy` = twist by `roots[1]`, then the network
from node index `2` with the schedule `flagCI`): the twist does not wrap and yields `< (b0+2)q`; the
invariant holds at every node with bounds `BCI n (b0+2)`; outputs `≤ 6q − 2`. -/
theorem ntt_range_ci (T : Tables) (K : ℕ) (hn : T.n = 2 ^ K) (h8 : 8 * T.q ≤ W)
    (hm : MontConst T.q T.qinv) (hr : RootsLt T.rootsF T.q) (b0 : ℕ) (hb0 : b0 ≤ 2)
    (a : List ℕ) (ha : ∀ x ∈ a, x < b0 * T.q) :
    twist T T.rootsF a = twistN T T.rootsF a
    ∧ FwdOK T.rootsF T.q T.qinv (flagCI T.n) (BCI T.n (b0 + 2)) K 0 2 (twistN T T.rootsF a)
    ∧ nttCICoreLazy T a = fwdRecN T.rootsF T.q T.qinv (flagCI T.n) K 0 2 (twistN T T.rootsF a)
    ∧ (1 ≤ K → ∀ y ∈ nttCICoreLazy T a, y + 2 ≤ 6 * T.q) :=
  nttCICoreLazy_range T K hn h8 hm hr b0 hb0 a ha

/-- **intt_range** (`inttCoreLazy`): inputs `< 2q` and `6q ≤ 2^64` (implied by `8q ≤ 2^64`) ⊢ at every
node all values are `< 2q`, no butterfly wraps (`U + 4q − V` is computed exactly), the result is the
ideal network, and all outputs are `< 2q` (documented `[0, 2q−1]`). -/
theorem intt_range (T : Tables) (K : ℕ) (hn : T.n = 2 ^ K) (h6 : 6 * T.q ≤ W)
    (hm : MontConst T.q T.qinv) (hr : RootsLt T.rootsB T.q)
    (a : List ℕ) (ha : ∀ x ∈ a, x < 2 * T.q) :
    InvOK T.rootsB T.q T.qinv K 1 a
    ∧ inttCoreLazy T a = invRecN T.rootsB T.q T.qinv K 1 a
    ∧ ∀ y ∈ inttCoreLazy T a, y < 2 * T.q :=
  inttCoreLazy_range T K hn h6 hm hr a ha

/-- **intt_range, conjugate-invariant ring** (`inttCICoreLazy` = inverse network from node `2`, twist
by `rootsB[1]`, `p[0] ← CRed(2·p[0])`): no wrap anywhere, every output `< 4q`; after the multiplication
by `N⁻¹` the public entry points return `< q` (`inttCI`) resp. `< 2q` (`inttCILazy`).
The `[0, 2q−1]` claimed by the Go comment on the internal `inttCoreConjugateInvariantLazy`
(`ring/ntt.go:1095`) is NOT met, see `inttCICoreLazy_doc_range_counterexample`. -/
theorem intt_range_ci (T : Tables) (K : ℕ) (hn : T.n = 2 ^ K) (h6 : 6 * T.q ≤ W)
    (hm : MontConst T.q T.qinv) (hr : RootsLt T.rootsB T.q) (hN : T.nInv < T.q)
    (a : List ℕ) (ha : ∀ x ∈ a, x < 2 * T.q) :
    InvOK T.rootsB T.q T.qinv K 2 a
    ∧ twist T T.rootsB (invRec T.rootsB T.q T.qinv K 2 a)
        = twistN T T.rootsB (invRec T.rootsB T.q T.qinv K 2 a)
    ∧ (∀ y ∈ inttCICoreLazy T a, y < 4 * T.q)
    ∧ (∀ y ∈ inttCI T a, y < T.q)
    ∧ (∀ y ∈ inttCILazy T a, y < 2 * T.q) :=
  ⟨(inttCICoreLazy_range T K hn h6 hm hr a ha).1, (inttCICoreLazy_range T K hn h6 hm hr a ha).2.1,
   (inttCICoreLazy_range T K hn h6 hm hr a ha).2.2, inttCI_lt T K hn h6 hm hr hN a ha,
   inttCILazy_lt T K hn h6 hm hr hN a ha⟩

/-- Documentation defect (harmless): on the real conjugate-invariant table for `N = 16`,
`q = 2^61 − 2^21 + 1` and the reduced input `[1,…,16]`, `inttCICoreLazy` returns a value `≥ 3q`,
outside the `[0, 2q−1]` its Go comment claims. -/
theorem inttCICoreLazy_doc_range_counterexample :
    ∃ y ∈ inttCICoreLazy (mkTables 16 2305843009211596801 64 37) ((List.range 16).map (· + 1)),
      3 * 2305843009211596801 ≤ y := by decide +kernel

/-- table entries all `< q`, checkable on a concrete array -/
theorem rootsLt_of (roots : Array ℕ) (q : ℕ) (hq : 0 < q) (h : ∀ i, i < roots.size → roots[i]! < q) :
    RootsLt roots q := by
  intro i
  by_cases hi : i < roots.size
  · exact h i hi
  · have : roots[i]! = 0 := by simp [hi]
    rw [this]; exact hq

/-- the 62-bit prime `2^62 + 33` (accepted by `rlwe.CheckModuli`; `q ≡ 1 mod 32`) -/
def q62 : ℕ := 4611686018427387617
/-- its tables for `N = 16` (`3` is the least primitive root) -/
def T62 : Tables := mkTables 16 q62 32 3

/-- **The bound `8q ≤ 2^64` of `ntt_range` is needed.** For the 62-bit prime `q = 2^62 + 33`
(`8q > 2^64`, indeed already `4q > 2^64`), its genuine tables for `N = 16` (every other hypothesis of
`ntt_range` holds) and the reduced input `a = [1,…,16]`: the word-level forward transform differs
from the ideal network (a uint64 wrap occurred), and `INTT(NTT(a)) ≠ a`.  (Evaluation of the Model;
the same happens on the Go code, see the report.) -/
theorem ntt_range_needs_8q_counterexample :
    W < 8 * T62.q ∧ T62.n = 2 ^ 4 ∧ MontConst T62.q T62.qinv ∧ RootsLt T62.rootsF T62.q
    ∧ (∀ x ∈ (List.range 16).map (· + 1), x < 1 * T62.q)
    ∧ nttCoreLazy T62 ((List.range 16).map (· + 1))
        ≠ fwdRecN T62.rootsF T62.q T62.qinv (flagStd T62.n) 4 0 1 ((List.range 16).map (· + 1))
    ∧ inttStd T62 (nttStd T62 ((List.range 16).map (· + 1))) ≠ (List.range 16).map (· + 1) := by
  refine ⟨by decide, rfl, ?_, ?_, by decide, by decide +kernel, by decide +kernel⟩
  · exact (GenMRedConstant_spec q62 (by decide) (by decide)).1
  · exact rootsLt_of _ _ (by decide) (by decide +kernel)

/-! ## 2. Semantics -/

/-- **fwd_sem, node form** (exact network over any commutative ring `F`, twiddles `ρ`).
Under the table invariant on the node indices `< M`, node `(k,j)` (block length `2^k`) computes
`a mod (X^{2^k} − c_j)` (`c_1 = −1`, `c_{2j} = ρ_j`, `c_{2j+1} = −ρ_j`): after the full recursion leaf
`t` holds the evaluation `a(pt t)` and `pt t ^ 2^k = c_j`. -/
theorem fwd_sem_node {F : Type} [CommRing F] (ρ : ℕ → F) (M : ℕ) (hρ : TableInv ρ M)
    (k j : ℕ) (a : List F) (hlen : a.length = 2 ^ k) (hj : 1 ≤ j) (hM : (j + 1) * 2 ^ k ≤ 2 * M) :
    fwdZ ρ k j a = (List.range (2 ^ k)).map (fun t => evalL a (pt ρ k j t))
    ∧ ∀ t, pt ρ k j t ^ 2 ^ k = cnode ρ j :=
  ⟨fwdZ_eval ρ M hρ k j a hlen hj hM, fun t => pt_pow ρ M hρ k j t hj hM⟩

/-- **fwd_sem, stage-wise exactness**: under the range hypotheses of `ntt_range` (any schedule `flag`
with compatible bounds `B`), the word-level network `fwdRec` read in `Z_q` IS the exact network
`fwdZ` with twiddles `ρ_j = roots[j]·W⁻¹` (every stage is the exact butterfly `(U + ρV, U − ρV)`). -/
theorem fwd_sem_exact {q : ℕ} [Fact q.Prime] (roots : Array ℕ) (qinv : ℕ) (flag : ℕ → Bool)
    (B : ℕ → ℕ) (K : ℕ) (h8 : 8 * q ≤ W) (hm : MontConst q qinv) (hr : RootsLt roots q)
    (hB : BoundOK flag B K) (k d j : ℕ) (a : List ℕ) (hd : d + k ≤ K) (ha : ∀ x ∈ a, x < B d * q) :
    (fwdRec roots q qinv flag k d j a).map (Nat.cast : ℕ → ZMod q)
      = fwdZ (rho q roots) k j (a.map (Nat.cast : ℕ → ZMod q)) :=
  fwdRec_cast roots qinv flag B K h8 hm hr hB k d j a hd ha

/-- **fwd_sem for `nttStd`**: entry `t` of `nttStd T a` is (the canonical representative `< q` of)
the evaluation of `a ∈ Z_q[X]` at `ρ_t = pt ρ K 1 t`, and `ρ_t^N = −1`. -/
theorem fwd_sem (T : Tables) (K : ℕ) (hT : Valid T K) [Fact T.q.Prime]
    (hinv : TableInv (rho T.q T.rootsF) (2 ^ K))
    (a : List ℕ) (hlen : a.length = T.n) (ha : ∀ x ∈ a, x < T.q) :
    (nttStd T a).map (Nat.cast : ℕ → ZMod T.q)
      = (List.range (2 ^ K)).map
          (fun t => evalL (a.map (Nat.cast : ℕ → ZMod T.q)) (pt (rho T.q T.rootsF) K 1 t))
    ∧ (∀ t, pt (rho T.q T.rootsF) K 1 t ^ 2 ^ K = -1)
    ∧ ∀ y ∈ nttStd T a, y < T.q :=
  ⟨(nttStd_eval hT hinv a hlen ha).1, (nttStd_eval hT hinv a hlen ha).2, (nttStd_cast hT a ha).2⟩

/-- **ntt_mul**: `NTT(a ⊛ b) = NTT(a) ⊙ NTT(b)` where `⊛ = RPoly.rowMul q` is the schoolbook
negacyclic product in `Z_q[X]/(X^N+1)` and `⊙` the coefficient-wise product mod `q`; equality of
lists of canonical residues. -/
theorem ntt_mul (T : Tables) (K : ℕ) (hT : Valid T K) (hinv : TableInv (rho T.q T.rootsF) (2 ^ K))
    (a b : List ℕ) (hla : a.length = T.n) (hlb : b.length = T.n)
    (ha : ∀ x ∈ a, x < T.q) (hb : ∀ x ∈ b, x < T.q) :
    nttStd T (RPoly.rowMul T.q a b)
      = List.zipWith (fun x y => (x * y) % T.q) (nttStd T a) (nttStd T b) :=
  nttStd_mul hT hinv a b hla hlb ha hb

/-- **intt_ntt**: `INTT(NTT(a)) = a` for every `a` of length `N` with entries `< q`
(needs only `ρF_j·ρB_j = 1` and `nInv = N⁻¹`, not the table invariant). -/
theorem intt_ntt (T : Tables) (K : ℕ) (hT : Valid T K) (a : List ℕ) (hlen : a.length = T.n)
    (ha : ∀ x ∈ a, x < T.q) : inttStd T (nttStd T a) = a :=
  inttStd_nttStd hT a hlen ha

/-- one inverse stage undoes one forward stage up to the factor 2 (pure algebra, any commutative ring) -/
theorem inv_fwd_exact {F : Type} [CommRing F] (ρ ρ' : ℕ → F) (M : ℕ)
    (hinv : ∀ i, 1 ≤ i → i < M → ρ i * ρ' i = 1) (k j : ℕ) (a : List F)
    (hlen : a.length = 2 ^ k) (hj : 1 ≤ j) (hM : (j + 1) * 2 ^ k ≤ 2 * M) :
    invZ ρ' k j (fwdZ ρ k j a) = a.map (fun x => 2 ^ k * x) :=
  invZ_fwdZ ρ ρ' M hinv k j a hlen hj hM

/-! ## 3. The tables -/

/-- **tables_invariant**: for a prime `q ≡ 1 (mod 2N)`, `N = 2^K`, `8q ≤ 2^64`, and `g` a quadratic
non-residue mod `q` (e.g. any primitive root, `tables_invariant_primitive`), the tables computed by
`mkTables N q 2N g` satisfy `Valid` and the table invariant. -/
theorem tables_invariant (K q g : ℕ) (hq : q.Prime) (h8 : 8 * q ≤ W) (hdiv : 2 ^ (K + 1) ∣ q - 1)
    (hg : g ^ ((q - 1) / 2) % q = q - 1) :
    Valid (mkTables (2 ^ K) q (2 ^ (K + 1)) g) K
    ∧ TableInv (rho q (mkTables (2 ^ K) q (2 ^ (K + 1)) g).rootsF) (2 ^ K) :=
  mkTables_valid K q g hq h8 hdiv hg

theorem tables_invariant_primitive (K q g : ℕ) (hq : q.Prime) (h8 : 8 * q ≤ W)
    (hdiv : 2 ^ (K + 1) ∣ q - 1) (hg : orderOf ((g : ℕ) : ZMod q) = q - 1) :
    Valid (mkTables (2 ^ K) q (2 ^ (K + 1)) g) K
    ∧ TableInv (rho q (mkTables (2 ^ K) q (2 ^ (K + 1)) g).rootsF) (2 ^ K) :=
  mkTables_valid_of_primitive K q g hq h8 hdiv hg

/-! ## 4. End to end: the generated tables -/

/-- `INTT(NTT(a)) = a` with the tables the code generates. -/
theorem intt_ntt_mkTables (K q g : ℕ) (hq : q.Prime) (h8 : 8 * q ≤ W) (hdiv : 2 ^ (K + 1) ∣ q - 1)
    (hg : g ^ ((q - 1) / 2) % q = q - 1) (a : List ℕ) (hlen : a.length = 2 ^ K)
    (ha : ∀ x ∈ a, x < q) :
    inttStd (mkTables (2 ^ K) q (2 ^ (K + 1)) g) (nttStd (mkTables (2 ^ K) q (2 ^ (K + 1)) g) a) = a :=
  inttStd_nttStd (mkTables_valid K q g hq h8 hdiv hg).1 a hlen ha

/-- `NTT(a ⊛ b) = NTT(a) ⊙ NTT(b)` with the tables the code generates. -/
theorem ntt_mul_mkTables (K q g : ℕ) (hq : q.Prime) (h8 : 8 * q ≤ W) (hdiv : 2 ^ (K + 1) ∣ q - 1)
    (hg : g ^ ((q - 1) / 2) % q = q - 1) (a b : List ℕ) (hla : a.length = 2 ^ K)
    (hlb : b.length = 2 ^ K) (ha : ∀ x ∈ a, x < q) (hb : ∀ x ∈ b, x < q) :
    nttStd (mkTables (2 ^ K) q (2 ^ (K + 1)) g) (RPoly.rowMul q a b)
      = List.zipWith (fun x y => (x * y) % q) (nttStd (mkTables (2 ^ K) q (2 ^ (K + 1)) g) a)
          (nttStd (mkTables (2 ^ K) q (2 ^ (K + 1)) g) b) :=
  nttStd_mul (T := mkTables (2 ^ K) q (2 ^ (K + 1)) g) (mkTables_valid K q g hq h8 hdiv hg).1
    (mkTables_valid K q g hq h8 hdiv hg).2 a b hla hlb ha hb

open Finset in
/-- **ntt_eval** (closed form with the generated tables): in `Z_q`,
`(NTT a)[t] = Σ_i a_i ψ^{i(2·brv_K(t)+1)}`, `ψ = g^((q−1)/2N)`, `ψ^N = −1`. -/
theorem ntt_eval (K q g : ℕ) (hK : 1 ≤ K) (hq : q.Prime) (h8 : 8 * q ≤ W)
    (hdiv : 2 ^ (K + 1) ∣ q - 1) (hg : g ^ ((q - 1) / 2) % q = q - 1)
    (a : List ℕ) (hlen : a.length = 2 ^ K) (ha : ∀ x ∈ a, x < q) :
    (nttStd (mkTables (2 ^ K) q (2 ^ (K + 1)) g) a).map (Nat.cast : ℕ → ZMod q)
      = (List.range (2 ^ K)).map (fun t => ∑ i ∈ range (2 ^ K), ((a.getD i 0 : ℕ) : ZMod q)
          * ((((g : ℕ) : ZMod q) ^ ((q - 1) / 2 ^ (K + 1))) ^ (2 * bitRev t K + 1)) ^ i)
    ∧ (((g : ℕ) : ZMod q) ^ ((q - 1) / 2 ^ (K + 1))) ^ 2 ^ K = -1 :=
  ⟨nttStd_mkTables_eval K q g hK hq h8 hdiv hg a hlen ha, (mkTables_all K q g hq h8 hdiv hg).2.2.1⟩

/-- the generated forward table, Montgomery factor stripped, is `ψ^{brv_K(j)}` -/
theorem tables_closed_form (K q g : ℕ) (hq : q.Prime) (h8 : 8 * q ≤ W)
    (hdiv : 2 ^ (K + 1) ∣ q - 1) (hg : g ^ ((q - 1) / 2) % q = q - 1) (j : ℕ) (hj : j < 2 ^ K) :
    rho q (mkTables (2 ^ K) q (2 ^ (K + 1)) g).rootsF j
      = (((g : ℕ) : ZMod q) ^ ((q - 1) / 2 ^ (K + 1))) ^ bitRev j K :=
  (mkTables_all K q g hq h8 hdiv hg).2.2.2 j hj

/-- the lazy forward transform with the generated tables never wraps and returns values `≤ 6q − 2` -/
theorem ntt_range_mkTables (K q g : ℕ) (hK : 1 ≤ K) (hq : q.Prime) (h8 : 8 * q ≤ W)
    (hdiv : 2 ^ (K + 1) ∣ q - 1) (hg : g ^ ((q - 1) / 2) % q = q - 1) (a : List ℕ)
    (ha : ∀ x ∈ a, x < 2 * q) :
    nttCoreLazy (mkTables (2 ^ K) q (2 ^ (K + 1)) g) a
      = fwdRecN (mkTables (2 ^ K) q (2 ^ (K + 1)) g).rootsF q (GenMRedConstant q)
          (flagStd (2 ^ K)) K 0 1 a
    ∧ ∀ y ∈ nttCoreLazy (mkTables (2 ^ K) q (2 ^ (K + 1)) g) a, y + 2 ≤ 6 * q := by
  have hT := (mkTables_valid K q g hq h8 hdiv hg).1
  obtain ⟨_, h1, h2⟩ := nttCoreLazy_range _ K hT.n_eq hT.h8 hT.mont hT.rootsF_lt 2 (by omega) a ha
  exact ⟨h1, h2 hK⟩

/-! ## 4b. The conjugate-invariant ring -/

/-- **intt_ntt, conjugate-invariant ring**: `inttCI T (nttCI T a) = a` for all `a` of length `N` with
entries `< q`, under `ValidCI` (tables of `2N` entries, `ρF_j ρB_j = 1` for `1 ≤ j < 2N`, `ρ_1² = −1`,
`nInv = (2N)⁻¹`). -/
theorem intt_ntt_ci (T : Tables) (K : ℕ) (hT : ValidCI T K) (a : List ℕ) (hlen : a.length = T.n)
    (ha : ∀ x ∈ a, x < T.q) : inttCI T (nttCI T a) = a :=
  inttCI_nttCI hT a hlen ha

/-- `nttCI` is, in `Z_q`, the exact twist followed by the exact network from node `2` -/
theorem ntt_ci_exact (T : Tables) (K : ℕ) (hT : ValidCI T K) [Fact T.q.Prime] (a : List ℕ)
    (ha : ∀ x ∈ a, x < T.q) :
    (nttCI T a).map (Nat.cast : ℕ → ZMod T.q)
      = fwdZ (rho T.q T.rootsF) K 2 (twistZ (rho T.q T.rootsF 1) (a.map (Nat.cast : ℕ → ZMod T.q)))
    ∧ ∀ y ∈ nttCI T a, y < T.q :=
  nttCI_cast hT a ha

open Finset in
/-- **Semantics of the conjugate-invariant forward transform**: entry `t` of `nttCI T a` is the value at
`x_t` of the conjugate-invariant polynomial `a_0 + Σ_{m=1}^{N−1} a_m (X^m + X^{−m})`, where
`x_t^N = ρ_1`, `ρ_1² = −1` (the `x_t` are primitive `4N`-th roots of unity): the left half of the
`2N`-point negacyclic transform of the folded polynomial. -/
theorem ntt_ci_sem (T : Tables) (K : ℕ) (hT : ValidCI T K) [Fact T.q.Prime]
    (hinv : TableInv (rho T.q T.rootsF) (2 ^ (K + 1)))
    (a : List ℕ) (hlen : a.length = T.n) (ha : ∀ x ∈ a, x < T.q) :
    (nttCI T a).map (Nat.cast : ℕ → ZMod T.q)
      = (List.range (2 ^ K)).map (fun t =>
          ∑ j ∈ range (2 ^ K), ((a.getD j 0 : ℕ) : ZMod T.q) * pt (rho T.q T.rootsF) K 2 t ^ j
          + ∑ m ∈ range (2 ^ K - 1),
              ((a.getD (m + 1) 0 : ℕ) : ZMod T.q) * (pt (rho T.q T.rootsF) K 2 t)⁻¹ ^ (m + 1))
    ∧ (∀ t, pt (rho T.q T.rootsF) K 2 t ^ 2 ^ K = rho T.q T.rootsF 1)
    ∧ rho T.q T.rootsF 1 * rho T.q T.rootsF 1 = -1 :=
  nttCI_eval hT hinv a hlen ha

/-- the table invariant for the generated conjugate-invariant tables (`2N` entries) -/
theorem tables_invariant_ci_inv (K q g : ℕ) (hq : q.Prime) (h8 : 8 * q ≤ W)
    (hdiv : 2 ^ (K + 2) ∣ q - 1) (hg : g ^ ((q - 1) / 2) % q = q - 1) :
    TableInv (rho q (mkTables (2 ^ K) q (2 ^ (K + 2)) g).rootsF) (2 ^ (K + 1)) :=
  mkTables_tableInvCI K q g hq h8 hdiv hg

/-- the tables generated for the conjugate-invariant ring (`nthRoot = 4N`) satisfy `ValidCI` -/
theorem tables_invariant_ci (K q g : ℕ) (hq : q.Prime) (h8 : 8 * q ≤ W) (hdiv : 2 ^ (K + 2) ∣ q - 1)
    (hg : g ^ ((q - 1) / 2) % q = q - 1) : ValidCI (mkTables (2 ^ K) q (2 ^ (K + 2)) g) K :=
  mkTables_validCI K q g hq h8 hdiv hg

/-- `INTT_ci(NTT_ci(a)) = a` with the generated tables -/
theorem intt_ntt_ci_mkTables (K q g : ℕ) (hq : q.Prime) (h8 : 8 * q ≤ W)
    (hdiv : 2 ^ (K + 2) ∣ q - 1) (hg : g ^ ((q - 1) / 2) % q = q - 1) (a : List ℕ)
    (hlen : a.length = 2 ^ K) (ha : ∀ x ∈ a, x < q) :
    inttCI (mkTables (2 ^ K) q (2 ^ (K + 2)) g) (nttCI (mkTables (2 ^ K) q (2 ^ (K + 2)) g) a) = a :=
  inttCI_nttCI (mkTables_validCI K q g hq h8 hdiv hg) a hlen ha

/-! ## 5. Non-vacuity -/

/-- modular exponentiation in `ZMod p` through the (proved correct) executable `modExp` -/
theorem zmod_pow_eq_modExp (p a e : ℕ) (hp : 0 < p) (he : e < 2 ^ 64) :
    ((a : ℕ) : ZMod p) ^ e = ((modExp a e p : ℕ) : ZMod p) := by
  rw [modExp_spec a e p hp he, ZMod.natCast_mod, Nat.cast_pow]

theorem cast_ne_one_of (p v : ℕ) (hp : 1 < p) (hv : v < p) (h1 : v ≠ 1) : ((v : ℕ) : ZMod p) ≠ 1 := by
  intro h
  have h' : ((v : ℕ) : ZMod p) = ((1 : ℕ) : ZMod p) := by rw [h, Nat.cast_one]
  have := (ZMod.natCast_eq_natCast_iff' v 1 p).1 h'
  rw [Nat.mod_eq_of_lt hv, Nat.mod_eq_of_lt hp] at this
  exact h1 this

/-- the 61-bit NTT-friendly prime `2^61 − 2^21 + 1 = 0x1fffffffffe00001` -/
def q61 : ℕ := 2305843009211596801

theorem q61_factor : q61 - 1 = 2 ^ 21 * 3 * 5 ^ 2 * 11 * 17 * 31 * 41 * 61681 := by decide

/-- `q61` is prime (Lucas test with base `37`, powers computed by `modExp`) -/
theorem q61_prime : Nat.Prime q61 := by
  have hp0 : 0 < q61 := by decide
  have hp1 : 1 < q61 := by decide
  apply lucas_primality q61 ((37 : ℕ) : ZMod q61)
  · rw [zmod_pow_eq_modExp q61 37 _ hp0 (by decide)]
    have : modExp 37 (q61 - 1) q61 = 1 := by decide +kernel
    rw [this, Nat.cast_one]
  · intro r hr hdvd
    have key : ∀ e : ℕ, e < 2 ^ 64 → modExp 37 e q61 < q61 → modExp 37 e q61 ≠ 1 →
        ((37 : ℕ) : ZMod q61) ^ e ≠ 1 := by
      intro e he h1 h2
      rw [zmod_pow_eq_modExp q61 37 e hp0 he]
      exact cast_ne_one_of q61 _ hp1 h1 h2
    rw [q61_factor] at hdvd
    have hcase : r = 2 ∨ r = 3 ∨ r = 5 ∨ r = 11 ∨ r = 17 ∨ r = 31 ∨ r = 41 ∨ r = 61681 := by
      rcases (Nat.Prime.dvd_mul hr).1 hdvd with h | h
      · rcases (Nat.Prime.dvd_mul hr).1 h with h | h
        · rcases (Nat.Prime.dvd_mul hr).1 h with h | h
          · rcases (Nat.Prime.dvd_mul hr).1 h with h | h
            · rcases (Nat.Prime.dvd_mul hr).1 h with h | h
              · rcases (Nat.Prime.dvd_mul hr).1 h with h | h
                · rcases (Nat.Prime.dvd_mul hr).1 h with h | h
                  · left; exact (Nat.prime_dvd_prime_iff_eq hr (by norm_num)).1 (hr.dvd_of_dvd_pow h)
                  · right; left; exact (Nat.prime_dvd_prime_iff_eq hr (by norm_num)).1 h
                · right; right; left
                  exact (Nat.prime_dvd_prime_iff_eq hr (by norm_num)).1 (hr.dvd_of_dvd_pow h)
              · right; right; right; left; exact (Nat.prime_dvd_prime_iff_eq hr (by norm_num)).1 h
            · right; right; right; right; left; exact (Nat.prime_dvd_prime_iff_eq hr (by norm_num)).1 h
          · right; right; right; right; right; left
            exact (Nat.prime_dvd_prime_iff_eq hr (by norm_num)).1 h
        · right; right; right; right; right; right; left
          exact (Nat.prime_dvd_prime_iff_eq hr (by norm_num)).1 h
      · right; right; right; right; right; right; right
        exact (Nat.prime_dvd_prime_iff_eq hr (by norm_num)).1 h
    rcases hcase with rfl | rfl | rfl | rfl | rfl | rfl | rfl | rfl
    all_goals
      apply key
      · decide
      · decide +kernel
      · decide +kernel

/-- `37` is a quadratic non-residue mod `q61` (it is a primitive root) -/
theorem q61_nonresidue : 37 ^ ((q61 - 1) / 2) % q61 = q61 - 1 := by
  rw [← modExp_spec 37 ((q61 - 1) / 2) q61 (by decide) (by decide)]
  decide +kernel

/-- non-vacuity of `tables_invariant` (hence of `Valid`, `TableInv`, and of every theorem above):
the 61-bit prime `q61`, `N = 16`. -/
example : Valid (mkTables (2 ^ 4) q61 (2 ^ 5) 37) 4
    ∧ TableInv (rho q61 (mkTables (2 ^ 4) q61 (2 ^ 5) 37).rootsF) (2 ^ 4) :=
  tables_invariant 4 q61 37 q61_prime (by decide) (by decide) q61_nonresidue

/-- … and `N = 2^20` with the same prime (`2^21 ∣ q61 − 1`): the theorems are not about small `N` only -/
example : Valid (mkTables (2 ^ 20) q61 (2 ^ 21) 37) 20 :=
  (tables_invariant 20 q61 37 q61_prime (by decide) (by decide +kernel) q61_nonresidue).1

/-- non-vacuity with the Fermat prime `65537`, `N = 16`, `g = 3` -/
example : Valid (mkTables (2 ^ 4) 65537 (2 ^ 5) 3) 4
    ∧ TableInv (rho 65537 (mkTables (2 ^ 4) 65537 (2 ^ 5) 3).rootsF) (2 ^ 4) :=
  tables_invariant 4 65537 3 (by norm_num) (by decide) (by decide) (by decide +kernel)

/-- non-vacuity of `ValidCI`: `q61`, conjugate-invariant ring of degree `16` (`64 ∣ q61 − 1`) -/
example : ValidCI (mkTables (2 ^ 4) q61 (2 ^ 6) 37) 4 :=
  tables_invariant_ci 4 q61 37 q61_prime (by decide) (by decide) q61_nonresidue

/-- the hypotheses of `ntt_range` / `intt_range` hold for the real `N = 16` table of `q61` and the
extreme lazy input `2q − 1` -/
example : let T := mkTables (2 ^ 4) q61 (2 ^ 5) 37
    T.n = 2 ^ 4 ∧ 8 * T.q ≤ W ∧ MontConst T.q T.qinv ∧ RootsLt T.rootsF T.q ∧ RootsLt T.rootsB T.q
    ∧ ∀ x ∈ List.replicate 16 (2 * q61 - 1), x < 2 * T.q := by
  have hT := (tables_invariant 4 q61 37 q61_prime (by decide) (by decide) q61_nonresidue).1
  exact ⟨hT.n_eq, hT.h8, hT.mont, hT.rootsF_lt, hT.rootsB_lt, by decide⟩

/-- TEST (evaluation, not a theorem about all inputs): the real table for `N = 16`, `q61`; the
all-`(q−1)` vector round-trips and the lazy output at the extreme lazy input stays `≤ 6q − 2`. -/
example : inttStd (mkTables 16 q61 32 37) (nttStd (mkTables 16 q61 32 37) (List.replicate 16 (q61 - 1)))
    = List.replicate 16 (q61 - 1) := by decide +kernel
example : ∀ y ∈ nttCoreLazy (mkTables 16 q61 32 37) (List.replicate 16 (2 * q61 - 1)), y + 2 ≤ 6 * q61 := by
  decide +kernel

/-- TEST: the decidable ℕ-form of the table invariant, checked directly on the concrete table -/
example : TableInvNat (mkTables 16 q61 32 37).rootsF q61 16 :=
  ⟨by decide +kernel,
   fun j h1 h2 => (by decide +kernel : ∀ j < 8, 1 ≤ j → 2 * j < 16 →
      ((mkTables 16 q61 32 37).rootsF[2 * j]! * (mkTables 16 q61 32 37).rootsF[2 * j]!) % q61
        = ((mkTables 16 q61 32 37).rootsF[j]! * W) % q61) j (by omega) h1 h2,
   fun j h1 h2 => (by decide +kernel : ∀ j < 8, 1 ≤ j → 2 * j + 1 < 16 →
      ((mkTables 16 q61 32 37).rootsF[2 * j + 1]! * (mkTables 16 q61 32 37).rootsF[2 * j + 1]!
        + (mkTables 16 q61 32 37).rootsF[j]! * W) % q61 = 0) j (by omega) h1 h2⟩

/-- the bound sequence for `N = 32` (reduced input): `1,3,5,6,8` entering depths `0..4`, `6` at the end -/
example : (List.range 6).map (BStd 32 1) = [1, 3, 5, 6, 8, 6] := by decide
example : (List.range 6).map (BCI 32 3) = [3, 5, 6, 8, 6, 6] := by decide
/-- small degrees (`N = 8`: every stage reduces): `1,3,5,6` -/
example : (List.range 4).map (BStd 8 1) = [1, 3, 5, 6] := by decide

end Lattigo.Props.C01NTT

#print axioms Lattigo.Props.C01NTT.ntt_range
#print axioms Lattigo.Props.C01NTT.ntt_range_bounds
#print axioms Lattigo.Props.C01NTT.ntt_range_ci
#print axioms Lattigo.Props.C01NTT.intt_range
#print axioms Lattigo.Props.C01NTT.intt_range_ci
#print axioms Lattigo.Props.C01NTT.inttCICoreLazy_doc_range_counterexample
#print axioms Lattigo.Props.C01NTT.ntt_range_needs_8q_counterexample
#print axioms Lattigo.Props.C01NTT.fwd_sem_node
#print axioms Lattigo.Props.C01NTT.fwd_sem_exact
#print axioms Lattigo.Props.C01NTT.fwd_sem
#print axioms Lattigo.Props.C01NTT.ntt_mul
#print axioms Lattigo.Props.C01NTT.intt_ntt
#print axioms Lattigo.Props.C01NTT.inv_fwd_exact
#print axioms Lattigo.Props.C01NTT.tables_invariant
#print axioms Lattigo.Props.C01NTT.tables_invariant_primitive
#print axioms Lattigo.Props.C01NTT.intt_ntt_mkTables
#print axioms Lattigo.Props.C01NTT.ntt_mul_mkTables
#print axioms Lattigo.Props.C01NTT.ntt_eval
#print axioms Lattigo.Props.C01NTT.tables_closed_form
#print axioms Lattigo.Props.C01NTT.ntt_range_mkTables
#print axioms Lattigo.Props.C01NTT.intt_ntt_ci
#print axioms Lattigo.Props.C01NTT.ntt_ci_exact
#print axioms Lattigo.Props.C01NTT.tables_invariant_ci
#print axioms Lattigo.Props.C01NTT.tables_invariant_ci_inv
#print axioms Lattigo.Props.C01NTT.ntt_ci_sem
#print axioms Lattigo.Props.C01NTT.intt_ntt_ci_mkTables
#print axioms Lattigo.Props.C01NTT.q61_prime
