/-
  C12 — homomorphic linear transformations compute the plaintext matrix–vector product.

  Scope of the theorems: the ALGORITHMS of `circuits/common/lintrans` as modelled in
  `Lattigo.Model.LinTrans` over a slot carrier (`SlotOps`): which encoded diagonal is multiplied
  with which rotation, the encoding-time pre-rotation, the accumulation, the Galois keys requested
  and advertised, the output level/scale rule.  The ciphertext layer underneath (hoisted key
  switching, lazy QP accumulation with overflow margins, ModDown) is not part of these theorems:
  it is exercised on the real code by the harness (decrypted result = `M·v` exactly mod t / within
  2^-8 for ckks) and belongs to C04/C11.

  Two deviations of the real code from the property were found, are reproduced by the model
  (`EvalRes.stale`, `EvalRes.garbage`), exhibited by failing probes, and proved below as
  counterexamples:
    * `naive_main_diagonal_only_counterexample` — `MultiplyByDiagMatrix` with the main diagonal as
      the only diagonal never assigns its accumulator;
    * `evaluateMany_clobber_counterexample` — `EvaluateMany` with several transformations reuses a
      hoisted decomposition that the first BSGS transformation has overwritten.
  plus `at_counterexample` (`Diagonals.At` does not implement the documented `-i ≡ n-i`).
-/
import Lattigo.Proofs.LinTransMatrix

namespace Lattigo.Props.C12
open Lattigo.Model.LinTrans
open Lattigo.Model

/-! ## the diagonal method -/

/-- **diag_method**: on `rows × n` integer slots (each row rotating cyclically and independently),
    `Σ_d diag_d ⊙ rot_d v` is the matrix–vector product with the matrix whose generalised diagonals
    are the `diag_d` (`M[c][(c+d) mod n] = diag_d[c]`, zero elsewhere), in every row `r`,
    for every set of distinct indices in `[0,n)`. -/
theorem diag_method (n : Nat) (ds : List Int) (hnd : ds.Nodup)
    (hr : ∀ d ∈ ds, 0 ≤ d ∧ d < (n : Int)) (diag : Int → Slots n) (v : Slots n) (r : Nat) (c : Fin n) :
    diagSum (fnOps n) ds diag v r c = Finset.univ.sum fun c' : Fin n => matrixOf n ds diag r c c' * v r c' := by
  rw [diagSum_fn]; exact matVec_eq_matrix n ds hnd hr diag v r c

example : ([0, 1, 3] : List Int).Nodup ∧ ∀ d ∈ ([0, 1, 3] : List Int), 0 ≤ d ∧ d < ((4 : Nat) : Int) := by decide

/-- the rows of the packing are independent: row `r` of the result depends on row `r` only -/
theorem rows_independent (n : Nat) (ds : List Int) (diag diag' : Int → Slots n) (v v' : Slots n) (r : Nat)
    (hv : v r = v' r) (hd : ∀ d, diag d r = diag' d r) :
    diagSum (fnOps n) ds diag v r = diagSum (fnOps n) ds diag' v' r := by
  rw [diagSum_fn, diagSum_fn]
  funext c
  simp only [matVec, hv, hd]

/-- **naive algorithm**: `MultiplyByDiagMatrix` on the diagonals as `Encode` stores them (no
    pre-rotation) returns `Σ_d diag_d ⊙ rot_d v` whenever there is a diagonal besides the main one;
    abstract carrier. -/
theorem naive_spec {α : Type} (O : SlotOps α) (n : Nat) (L : SlotLaws O n) (ks : List Int)
    (hr : ∀ k ∈ ks, 0 ≤ k ∧ k < (n : Int)) (hnd : ks.Nodup) (hnz : ∃ k ∈ ks, k ≠ 0)
    (diag : Int → α) (v : α) :
    evalNaive O n (ks.map fun k => (k, diag k)) v = .val (diagSum O ks diag v) :=
  evalNaive_eq L ks hr hnd hnz diag v

/-- the hypothesis `hnz` is forced by the code: with the main diagonal alone the accumulator
    (`opOut`, `BuffQP[5]`) is reduced and mod-downed without ever having been assigned.
    circuits/common/lintrans/lintrans_evaluator.go:177-247. -/
theorem naive_main_diagonal_only_counterexample {α : Type} (O : SlotOps α) (n : Nat) (d v : α) :
    evalNaive O n [(0, d)] v = .stale (some (O.mul d v)) :=
  evalNaive_only_main_diagonal O n d v

/-- … and evaluated in place (`opOut == ctIn`, as the package's own tests do for other matrices)
    the result is not the specified one. -/
theorem naive_main_diagonal_only_inplace_counterexample :
    (match evalMany (fnOps 4)
        [{ N1 := 0, logCols := 2, levelQ := 1, scale := 1, vec := [(0, fun _ _ => 1)] }]
        (fun _ _ => 1) false with
      | [.garbage] => true | _ => false) = true := by decide

/-- **bsgs_regroup**: for EVERY baby-step size `N1 > 0` — so for every
    `LogBabyStepGiantStepRatio` — and every non-empty list of normalised diagonal indices,
    `Σ_j rot_j( Σ_i rot_{-j}(diag_{j+i}) ⊙ rot_i v ) = Σ_d diag_d ⊙ rot_d v`, where the left side is
    `MultiplyByDiagMatrixBSGS` run on the diagonals pre-rotated as `Encode` does. -/
theorem bsgs_regroup {α : Type} (O : SlotOps α) (n : Nat) (L : SlotLaws O n) (N1 : Nat) (hN : 0 < N1)
    (ks : List Int) (hr : ∀ k ∈ ks, 0 ≤ k ∧ k < (n : Int)) (hne : ks ≠ [])
    (diag : Int → α) (v : α) :
    evalBSGS O n N1 (ks.map fun k => (k, preRot O n N1 k (diag k))) v = .val (diagSum O ks diag v) :=
  evalBSGS_eq L N1 hN ks hr hne diag v

/-- the laws are satisfiable: the carrier the driver executes on is lawful -/
example (n : Nat) : SlotLaws (fnOps n) n := fnOps_laws n

/-- **end to end, BSGS** on the execution carrier: `Encode` (which looks every allocated key up
    with `Diagonals.At`) followed by `MultiplyByDiagMatrixBSGS` is the matrix–vector product. -/
theorem lintrans_bsgs_spec (n N1 : Nat) (hN : 0 < N1) (keys : List Int)
    (hr : ∀ k ∈ keys, 0 ≤ k ∧ k < (n : Int)) (hne : keys ≠ [])
    (diagonals : List (Int × Slots n)) (D : Int → Slots n)
    (hAt : ∀ k ∈ keys, diagAt diagonals k n = some (D k)) (v : Slots n) :
    ∃ vec, encode (fnOps n) n N1 keys diagonals = some vec ∧
      evalBSGS (fnOps n) n N1 vec v = .val (matVec n keys D v) := by
  refine ⟨_, encode_bsgs (fnOps n) n N1 (Nat.pos_iff_ne_zero.1 hN) keys diagonals D hAt, ?_⟩
  rw [evalBSGS_eq (fnOps_laws n) N1 hN keys hr hne D v, diagSum_fn]

/-- non-vacuity: diagonals given with a negative spelling are found by `At` under their normalised key -/
example : diagAt [((-3 : Int), (7 : Int)), (1, 8)] 5 8 = some 7 ∧ diagAt [((-3 : Int), (7 : Int)), (1, 8)] 1 8 = some 8 := by
  decide

/-- both algorithms agree -/
theorem bsgs_eq_naive {α : Type} (O : SlotOps α) (n : Nat) (L : SlotLaws O n) (N1 : Nat) (hN : 0 < N1)
    (ks : List Int) (hr : ∀ k ∈ ks, 0 ≤ k ∧ k < (n : Int)) (hnd : ks.Nodup) (hnz : ∃ k ∈ ks, k ≠ 0)
    (diag : Int → α) (v : α) :
    evalBSGS O n N1 (ks.map fun k => (k, preRot O n N1 k (diag k))) v
      = evalNaive O n (ks.map fun k => (k, diag k)) v := by
  have hne : ks ≠ [] := by obtain ⟨k, hk, _⟩ := hnz; intro h; rw [h] at hk; simp at hk
  rw [evalBSGS_eq L N1 hN ks hr hne, evalNaive_eq L ks hr hnd hnz]

/-! ## EvaluateMany -/

/-- a single transformation through `EvaluateMany` is the plain evaluation -/
theorem evaluateMany_single {α : Type} (O : SlotOps α) (lt : LinTrans.LT α) (v : α) (fresh : Bool) :
    evalMany O [lt] v fresh = [resolveStale O fresh (evalOne O lt v)] := by
  unfold evalMany manyStep evalOne
  by_cases h : lt.N1 = 0
  · simp [h]
  · simp [h, reqPreRot]

/-- **`EvaluateMany` with several transformations is wrong**: a BSGS transformation with a non-zero
    giant step (here diagonals {0,2}, N1 = 2) followed by any transformation that still needs the
    hoisted decomposition (here the naive shift by 1).  Real code: `GadgetProductLazy` overwrites
    `eval.BuffDecompQP[0]`, the very buffer `EvaluateMany` hoisted the decomposition of `ctIn` into. -/
theorem evaluateMany_clobber_counterexample :
    (match evalMany (fnOps 4)
        [{ N1 := 2, logCols := 2, levelQ := 1, scale := 1, vec := [(0, fun _ _ => 1), (2, fun _ _ => 1)] },
         { N1 := 0, logCols := 2, levelQ := 1, scale := 1, vec := [(1, fun _ _ => 1)] }]
        (fun _ _ => 1) true with
      | [.val _, .garbage] => true | _ => false) = true := by decide

/-! ## Galois keys -/

/-- **lintrans_keys_sufficient**: for EVERY list of diagonal indices (any integers, any order,
    duplicates allowed), every `n > 0` and every `LogBabyStepGiantStepRatio` (negative: naive), the
    rotations whose Galois keys `EvaluateMany` requests for the allocated transformation are among
    the ones `GaloisElements` advertises. -/
theorem lintrans_keys_sufficient (n : Nat) (hn : 0 < n) (diags : List Int) (logRatio : Int) (x : Int)
    (hx : x ∈ reqMany [((allocate diags n logRatio).1, n, (allocate diags n logRatio).2)]) :
    x ∈ advertisedRots diags n logRatio := by
  by_cases hl : logRatio < 0
  · have hal : allocate diags n logRatio = allocate diags n (-1) := by simp [allocate, hl]
    have had : advertisedRots diags n logRatio = advertisedRots diags n (-1) := by
      simp [advertisedRots, hl]
    rw [hal] at hx; rw [had]
    have h0 : (allocate diags n (-1)).1 = 0 := by simp [allocate]
    simp only [reqMany, List.foldl_cons, List.foldl_nil, h0, if_true, List.nil_append] at hx
    exact naive_keys_sufficient n diags x hx
  · have hN := findBestBSGSRatio_pos diags n logRatio.toNat
    simp only [allocate, hl, if_false] at hx
    simp only [advertisedRots, hl, if_false]
    simp only [reqMany, List.foldl_cons, List.foldl_nil, Nat.ne_of_gt hN, if_false, List.nil_append] at hx
    exact bsgs_keys_sufficient n _ hn hN diags [] x hx

/-- `FindBestBSGSRatio` never returns 0 (so a non-negative ratio always selects the BSGS algorithm) -/
theorem findBestBSGSRatio_pos (diags : List Int) (maxN lr : Nat) : 0 < findBestBSGSRatio diags maxN lr :=
  Lattigo.Model.LinTrans.findBestBSGSRatio_pos diags maxN lr

/-! ## level and scale -/

/-- **meta_spec**: `level = min(opOut.Level, ctIn.Level, lt.LevelQ)`, `scale = scale_ct · scale_lt`
    (mod `t` for the integer scheme) — the rule the tie lines compare with the real output metadata -/
theorem meta_spec (t ol cl ll cs ls : Nat) :
    (outMeta t ol cl ll cs ls).1 = min ol (min cl ll) ∧
    (outMeta t ol cl ll cs ls).2 = (if t = 0 then cs * ls else cs * ls % t) := ⟨rfl, rfl⟩

/-! ## `Diagonals.At` -/

/-- documented: "Method accepts negative values with the equivalency -i = n - i".  As coded
    (`else if j < 0` tests the freshly declared `j`, not `i`), a non-positive index absent from the
    map is an error even when the equivalent key is present.  lintrans.go:97-122. -/
theorem at_counterexample : diagAt [((5 : Int), (1 : Int))] (-3) 8 = none := by decide

#print axioms diag_method
#print axioms rows_independent
#print axioms naive_spec
#print axioms naive_main_diagonal_only_counterexample
#print axioms naive_main_diagonal_only_inplace_counterexample
#print axioms bsgs_regroup
#print axioms lintrans_bsgs_spec
#print axioms bsgs_eq_naive
#print axioms evaluateMany_single
#print axioms evaluateMany_clobber_counterexample
#print axioms lintrans_keys_sufficient
#print axioms findBestBSGSRatio_pos
#print axioms meta_spec
#print axioms at_counterexample

end Lattigo.Props.C12
