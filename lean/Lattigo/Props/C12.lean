/-
  C12 — homomorphic linear transformations compute the plaintext matrix–vector product.

  Scope of the theorems: the ALGORITHMS of `circuits/common/lintrans` as modelled in
  `Lattigo.Model.LinTrans` over a slot carrier (`SlotOps`): which encoded diagonal is multiplied
  with which rotation, the encoding-time pre-rotation, the accumulation, the Galois keys requested
  and advertised, the output level/scale rule.  The ciphertext layer underneath (hoisted key
  switching, lazy QP accumulation with overflow margins, ModDown) is not part of these theorems:
  it is exercised on the real code by the harness (decrypted result = `M·v` exactly mod t / within
  2^-8 for ckks) and belongs to C04/C11.

  The model follows the code with the fixes C12-1 (EvaluateMany recomputes the hoisted decomposition
  for every transformation), C12-2 (the naive algorithm without any off-main diagonal; the zero
  matrix) and C12-3 (`Diagonals.At` for negative indices) applied; the former counterexample theorems
  are now the positive `evaluateMany_spec`, `naive_spec` (no restriction), `at_spec`.
-/
import Lattigo.Proofs.LinTransMatrix

namespace Lattigo.Props.C12
open Lattigo.Model.LinTrans
open Lattigo.Model

/-! ## the diagonal method -/

/-- **diag_method**: on `rows × n` integer slots (each row rotating cyclically and independently),
    `Σ_d diag_d ⊙ rot_d v` is the matrix–vector product with the matrix whose generalised diagonals
    are the `diag_d` (`M[c][(c+d) mod n] = diag_d[c]`, zero elsewhere), in every row `r`,
    for every set of distinct indices in `[0,n)`. -/
theorem diag_method (n : Nat) (ds : List Int) (hnd : ds.Nodup)
    (hr : ∀ d ∈ ds, 0 ≤ d ∧ d < (n : Int)) (diag : Int → Slots n) (v : Slots n) (r : Nat) (c : Fin n) :
    diagSum (fnOps n) ds diag v r c = Finset.univ.sum fun c' : Fin n => matrixOf n ds diag r c c' * v r c' := by
  rw [diagSum_fn]; exact matVec_eq_matrix n ds hnd hr diag v r c

example : ([0, 1, 3] : List Int).Nodup ∧ ∀ d ∈ ([0, 1, 3] : List Int), 0 ≤ d ∧ d < ((4 : Nat) : Int) := by decide

/-- the rows of the packing are independent: row `r` of the result depends on row `r` only -/
theorem rows_independent (n : Nat) (ds : List Int) (diag diag' : Int → Slots n) (v v' : Slots n) (r : Nat)
    (hv : v r = v' r) (hd : ∀ d, diag d r = diag' d r) :
    diagSum (fnOps n) ds diag v r = diagSum (fnOps n) ds diag' v' r := by
  rw [diagSum_fn, diagSum_fn]
  funext c
  simp only [matVec, hv, hd]

/-- **naive algorithm**: `MultiplyByDiagMatrix` on the diagonals as `Encode` stores them (no
    pre-rotation) returns `Σ_d diag_d ⊙ rot_d v` for EVERY list of distinct normalised indices — the
    main diagonal alone and the empty list (zero matrix) included; abstract carrier. -/
theorem naive_spec {α : Type} (O : SlotOps α) (n : Nat) (L : SlotLaws O n) (ks : List Int)
    (hr : ∀ k ∈ ks, 0 ≤ k ∧ k < (n : Int)) (hnd : ks.Nodup)
    (diag : Int → α) (v : α) :
    evalNaive O n (ks.map fun k => (k, diag k)) v = .val (diagSum O ks diag v) :=
  evalNaive_eq L ks hr hnd diag v

/-- the case the unpatched code got wrong: the main diagonal alone is `diag_0 ⊙ v` -/
theorem naive_main_diagonal_only {α : Type} (O : SlotOps α) (n : Nat) (L : SlotLaws O n) (hn : 0 < n)
    (d v : α) : evalNaive O n [(0, d)] v = .val (O.mul d v) := by
  have h := evalNaive_eq L [0] (by intro k hk; simp at hk; subst hk; exact ⟨le_refl _, by exact_mod_cast hn⟩)
    (by simp) (fun _ => d) v
  simp only [List.map_cons, List.map_nil] at h
  rw [h]
  simp [diagSum, sumL, L.rot_zero, L.add_zero]

/-- **bsgs_regroup**: for EVERY baby-step size `N1 > 0` — so for every
    `LogBabyStepGiantStepRatio` — and every list of normalised diagonal indices (also the empty one),
    `Σ_j rot_j( Σ_i rot_{-j}(diag_{j+i}) ⊙ rot_i v ) = Σ_d diag_d ⊙ rot_d v`, where the left side is
    `MultiplyByDiagMatrixBSGS` run on the diagonals pre-rotated as `Encode` does. -/
theorem bsgs_regroup {α : Type} (O : SlotOps α) (n : Nat) (L : SlotLaws O n) (N1 : Nat) (hN : 0 < N1)
    (ks : List Int) (hr : ∀ k ∈ ks, 0 ≤ k ∧ k < (n : Int))
    (diag : Int → α) (v : α) :
    evalBSGS O n N1 (ks.map fun k => (k, preRot O n N1 k (diag k))) v = .val (diagSum O ks diag v) :=
  evalBSGS_eq L N1 hN ks hr diag v

/-- the laws are satisfiable: the carrier the driver executes on is lawful -/
example (n : Nat) : SlotLaws (fnOps n) n := fnOps_laws n

/-- **end to end, BSGS** on the execution carrier: `Encode` (which looks every allocated key up
    with `Diagonals.At`) followed by `MultiplyByDiagMatrixBSGS` is the matrix–vector product. -/
theorem lintrans_bsgs_spec (n N1 : Nat) (hN : 0 < N1) (keys : List Int)
    (hr : ∀ k ∈ keys, 0 ≤ k ∧ k < (n : Int))
    (diagonals : List (Int × Slots n)) (D : Int → Slots n)
    (hAt : ∀ k ∈ keys, diagAt diagonals k n = some (D k)) (v : Slots n) :
    ∃ vec, encode (fnOps n) n N1 keys diagonals = some vec ∧
      evalBSGS (fnOps n) n N1 vec v = .val (matVec n keys D v) := by
  refine ⟨_, encode_bsgs (fnOps n) n N1 (Nat.pos_iff_ne_zero.1 hN) keys diagonals D hAt, ?_⟩
  rw [evalBSGS_eq (fnOps_laws n) N1 hN keys hr D v, diagSum_fn]

/-- non-vacuity: diagonals given with a negative spelling are found by `At` under their normalised key -/
example : diagAt [((-3 : Int), (7 : Int)), (1, 8)] 5 8 = some 7 ∧ diagAt [((-3 : Int), (7 : Int)), (1, 8)] 1 8 = some 8 := by
  decide

/-- both algorithms agree -/
theorem bsgs_eq_naive {α : Type} (O : SlotOps α) (n : Nat) (L : SlotLaws O n) (N1 : Nat) (hN : 0 < N1)
    (ks : List Int) (hr : ∀ k ∈ ks, 0 ≤ k ∧ k < (n : Int)) (hnd : ks.Nodup)
    (diag : Int → α) (v : α) :
    evalBSGS O n N1 (ks.map fun k => (k, preRot O n N1 k (diag k))) v
      = evalNaive O n (ks.map fun k => (k, diag k)) v := by
  rw [evalBSGS_eq L N1 hN ks hr, evalNaive_eq L ks hr hnd]

/-! ## EvaluateMany -/

/-- a transformation as `NewLinearTransformation` + `Encode` produce it from `(N1, ks, diag)`:
    naive (`N1 = 0`) stores the diagonals, BSGS stores them pre-rotated -/
def mkLT {α : Type} (O : SlotOps α) (logCols : Nat) (s : Nat × List Int × (Int → α)) : LinTrans.LT α :=
  { N1 := s.1, logCols := logCols, levelQ := 0, scale := 1,
    vec := if s.1 = 0 then s.2.1.map fun k => (k, s.2.2 k)
           else s.2.1.map fun k => (k, preRot O (2 ^ logCols) s.1 k (s.2.2 k)) }

/-- **evaluateMany_spec**: `EvaluateMany` on ANY number of transformations (naive and BSGS mixed, any
    baby-step sizes) returns, for each of them, `Σ_d diag_d ⊙ rot_d v` of the SAME input `v`. -/
theorem evaluateMany_spec {α : Type} (O : SlotOps α) (logCols : Nat) (L : SlotLaws O (2 ^ logCols))
    (specs : List (Nat × List Int × (Int → α)))
    (hr : ∀ s ∈ specs, ∀ k ∈ s.2.1, 0 ≤ k ∧ k < ((2 ^ logCols : Nat) : Int))
    (hnd : ∀ s ∈ specs, s.2.1.Nodup) (v : α) :
    evalMany O (specs.map (mkLT O logCols)) v = specs.map fun s => .val (diagSum O s.2.1 s.2.2 v) := by
  unfold evalMany
  rw [List.map_map]
  apply List.map_congr_left
  intro s hs
  simp only [Function.comp, evalOne, mkLT]
  by_cases h0 : s.1 = 0
  · simp only [h0, if_true]
    exact evalNaive_eq L s.2.1 (hr s hs) (hnd s hs) s.2.2 v
  · simp only [h0, if_false]
    exact evalBSGS_eq L s.1 (Nat.pos_of_ne_zero h0) s.2.1 (hr s hs) s.2.2 v

/-- non-vacuity: the pair of transformations the unpatched `EvaluateMany` got wrong (BSGS with a
    non-zero giant step, then the naive shift by 1) -/
example : ∀ s ∈ [((2 : Nat), ([0, 2] : List Int)), (0, [1])], ∀ k ∈ s.2, 0 ≤ k ∧ k < ((2 ^ 2 : Nat) : Int) := by
  decide

/-- `EvaluateSequential` composes: two transformations give the second applied to the first -/
theorem evaluateSequential_two {α : Type} (O : SlotOps α) (lt0 lt1 : LinTrans.LT α) (v w : α)
    (h0 : evalOne O lt0 v = .val w) :
    evalSeq O [lt0, lt1] v = evalOne O lt1 w := by
  simp [evalSeq, h0]

/-! ## Galois keys -/

/-- **lintrans_keys_sufficient**: for EVERY list of diagonal indices (any integers, any order,
    duplicates allowed), every `n > 0` and every `LogBabyStepGiantStepRatio` (negative: naive), the
    rotations whose Galois keys `EvaluateMany` requests for the allocated transformation are among
    the ones `GaloisElements` advertises. -/
theorem lintrans_keys_sufficient (n : Nat) (hn : 0 < n) (diags : List Int) (logRatio : Int) (x : Int)
    (hx : x ∈ reqMany [((allocate diags n logRatio).1, n, (allocate diags n logRatio).2)]) :
    x ∈ advertisedRots diags n logRatio := by
  by_cases hl : logRatio < 0
  · have hal : allocate diags n logRatio = allocate diags n (-1) := by simp [allocate, hl]
    have had : advertisedRots diags n logRatio = advertisedRots diags n (-1) := by
      simp [advertisedRots, hl]
    rw [hal] at hx; rw [had]
    have h0 : (allocate diags n (-1)).1 = 0 := by simp [allocate]
    simp only [reqMany, List.foldl_cons, List.foldl_nil, h0, if_true, List.nil_append] at hx
    exact naive_keys_sufficient n diags x hx
  · have hN := findBestBSGSRatio_pos diags n logRatio.toNat
    simp only [allocate, hl, if_false] at hx
    simp only [advertisedRots, hl, if_false]
    simp only [reqMany, List.foldl_cons, List.foldl_nil, Nat.ne_of_gt hN, if_false, List.nil_append] at hx
    exact bsgs_keys_sufficient n _ hn hN diags [] x hx

/-- `FindBestBSGSRatio` never returns 0 (so a non-negative ratio always selects the BSGS algorithm) -/
theorem findBestBSGSRatio_pos (diags : List Int) (maxN lr : Nat) : 0 < findBestBSGSRatio diags maxN lr :=
  Lattigo.Model.LinTrans.findBestBSGSRatio_pos diags maxN lr

/-! ## level and scale -/

/-- **meta_spec**: `level = min(opOut.Level, ctIn.Level, lt.LevelQ)`, `scale = scale_ct · scale_lt`
    (mod `t` for the integer scheme) — the rule the tie lines compare with the real output metadata -/
theorem meta_spec (t ol cl ll cs ls : Nat) :
    (outMeta t ol cl ll cs ls).1 = min ol (min cl ll) ∧
    (outMeta t ol cl ll cs ls).2 = (if t = 0 then cs * ls else cs * ls % t) := ⟨rfl, rfl⟩

/-! ## `Diagonals.At` -/

/-- **at_spec**: "accepts negative values with the equivalency -i = n - i": an index absent from the map
    is looked up under its other spelling, `i + n` for `i < 0`, `i - n` for `i > 0` -/
theorem at_spec {β : Type} (m : List (Int × β)) (i : Int) (n : Nat) (h : lookupI i m = none) :
    (i < 0 → diagAt m i n = lookupI (i + n) m) ∧ (0 < i → diagAt m i n = lookupI (i - n) m) := by
  constructor
  · intro hi
    have : ¬ i > 0 := by omega
    simp [diagAt, h, this, hi]
  · intro hi
    simp [diagAt, h, hi]

example : diagAt [((5 : Int), (1 : Int))] (-3) 8 = some 1 := by decide

#print axioms diag_method
#print axioms rows_independent
#print axioms naive_spec
#print axioms naive_main_diagonal_only
#print axioms bsgs_regroup
#print axioms lintrans_bsgs_spec
#print axioms bsgs_eq_naive
#print axioms evaluateMany_spec
#print axioms evaluateSequential_two
#print axioms lintrans_keys_sufficient
#print axioms findBestBSGSRatio_pos
#print axioms meta_spec
#print axioms at_spec

end Lattigo.Props.C12
