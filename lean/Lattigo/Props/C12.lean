/-
  C12 — homomorphic linear transformations compute the plaintext matrix–vector product.

  STATUS (what each clause of the property text rests on).

  Proved for ALL inputs — the ALGORITHMS of `circuits/common/lintrans` (`Lattigo.Model.LinTrans`) over a slot
  carrier (`SlotOps`; execution instance `fnOps n`: `rows × n` integer slots, rows rotating independently):
    `diag_method`, `rows_independent`          Σ_d diag_d ⊙ rot_d v IS the matrix–vector product, per row
    `naive_spec`, `bsgs_regroup`, `bsgs_eq_naive`   both algorithms return it: every set of normalised
                                               indices, every baby-step size, main diagonal alone, zero matrix
    `lintrans_spec_allocated`                  end to end, from the index-set hypotheses alone (indices in
                                               (−n, n), distinct mod n, positive or negative spelling), for EVERY
                                               ratio: NewLinearTransformation + Encode (incl. `Diagonals.At`) +
                                               Evaluate = M·v on the allocated keys (`lintrans_naive_spec`,
                                               `lintrans_bsgs_spec(_allocated)`)
    `evaluateMany_spec`, `evaluateSequential_spec`   many-on-one-input; sequential = composition, any length
    `out_scale_spec`, `evaluateSequential_scale_reduced`  the output scale's VALUE and MODULUS (tied: `v%mod`)
    `meta_spec`, `evaluateSequential_meta(_too_few)`  output level/scale; closed form along a sequence (bgv,
                                               scales in ZMod t), error with more steps than levels
    `lintrans_keys_sufficient`                 advertised Galois elements ⊇ requested, any indices, any ratio
    `at_spec`                                  `Diagonals.At` on negative indices
  Proved for ALL inputs — of the ciphertext layer, the lazy-accumulation SCHEDULE (`Model.LinTrans.Lazy`):
    `lazy_accumulation_no_wrap(_general)`, `lazy_accumulation_no_wrap_gen` (margin = the REGENERATED
    `QiOverflowMargin`, `C12Gen.overflowMargin_gen` / `C19Gen.margin_floor_gen`), `mredlazy_reduced_bound`,
    `lazy_2q_bound_insufficient` (the documented `< 2q` bound alone does not suffice),
    `modDown_once_per_giant_step`, `no_P_no_reduce`, `naive_final_reduce_redundant`.
  Regenerated from the source and proved equal to the model (`C12Gen`): the margins, the index arithmetic of
  `BSGSIndex` for one diagonal.  `FindBestBSGSRatio` (float ratios) is hand-modelled; `findBestBSGSRatio_pos`.
  `permDiagonals_keys`: the keys of `Permutation.GetDiagonals` are pairwise different, in [0, n).
  Tied only: `bsgsindex`, `bestratio`, `galels`, `alloc`, `at`, `permdiags(c)` (`Permutation.GetDiagonals`: keys
  only; that the diagonals realise the permutation is probed end to end, `perm_e2e_*`), the `eval` lines (keys requested in order, advertised, level, scale, decrypted values).
  Probed only: decrypted result = M·v (bgv exact, ckks 2^-8) incl. 60/61-bit primes with several windows of
  baby steps, keys from the package-level `GaloisElements` only (`keys_sufficient_pkg`).
  Not covered: the polynomials under the schedule (hoisted gadget products, automorphisms, ModDown: C04/C11;
  the schedule's reduce points have no observable counterpart — `ring.Reduce` cannot be intercepted), ckks
  precision as a theorem, `Permutation` → diagonals correctness.

  The model follows the code with the fixes C12-1 (EvaluateMany recomputes the hoisted decomposition), C12-2
  (naive algorithm without off-main diagonal; the zero matrix), C12-3 (`Diagonals.At`, negative indices) applied.
-/
import Lattigo.Proofs.LinTransAt
import Lattigo.Proofs.LinTransLazy
import Lattigo.Proofs.LinTransSeq
import Lattigo.Props.C12Gen
import Mathlib.Tactic.NormNum.Prime

namespace Lattigo.Props.C12
open Lattigo.Model.LinTrans
open Lattigo.Model

/-! ## the diagonal method -/

/-- **diag_method**: on `rows × n` integer slots (each row rotating cyclically and independently),
    `Σ_d diag_d ⊙ rot_d v` is the matrix–vector product with the matrix whose generalised diagonals
    are the `diag_d` (`M[c][(c+d) mod n] = diag_d[c]`, zero elsewhere), in every row `r`,
    for every set of distinct indices in `[0,n)`. -/
theorem diag_method (n : Nat) (ds : List Int) (hnd : ds.Nodup)
    (hr : ∀ d ∈ ds, 0 ≤ d ∧ d < (n : Int)) (diag : Int → Slots n) (v : Slots n) (r : Nat) (c : Fin n) :
    diagSum (fnOps n) ds diag v r c = Finset.univ.sum fun c' : Fin n => matrixOf n ds diag r c c' * v r c' := by
  rw [diagSum_fn]; exact matVec_eq_matrix n ds hnd hr diag v r c

example : ([0, 1, 3] : List Int).Nodup ∧ ∀ d ∈ ([0, 1, 3] : List Int), 0 ≤ d ∧ d < ((4 : Nat) : Int) := by decide

/-- the rows of the packing are independent: row `r` of the result depends on row `r` only -/
theorem rows_independent (n : Nat) (ds : List Int) (diag diag' : Int → Slots n) (v v' : Slots n) (r : Nat)
    (hv : v r = v' r) (hd : ∀ d, diag d r = diag' d r) :
    diagSum (fnOps n) ds diag v r = diagSum (fnOps n) ds diag' v' r := by
  rw [diagSum_fn, diagSum_fn]
  funext c
  simp only [matVec, hv, hd]

/-- **naive algorithm**: `MultiplyByDiagMatrix` on the diagonals as `Encode` stores them (no
    pre-rotation) returns `Σ_d diag_d ⊙ rot_d v` for EVERY list of distinct normalised indices — the
    main diagonal alone and the empty list (zero matrix) included; abstract carrier. -/
theorem naive_spec {α : Type} (O : SlotOps α) (n : Nat) (L : SlotLaws O n) (ks : List Int)
    (hr : ∀ k ∈ ks, 0 ≤ k ∧ k < (n : Int)) (hnd : ks.Nodup)
    (diag : Int → α) (v : α) :
    evalNaive O n (ks.map fun k => (k, diag k)) v = .val (diagSum O ks diag v) :=
  evalNaive_eq L ks hr hnd diag v

/-- the case the unpatched code got wrong: the main diagonal alone is `diag_0 ⊙ v` -/
theorem naive_main_diagonal_only {α : Type} (O : SlotOps α) (n : Nat) (L : SlotLaws O n) (hn : 0 < n)
    (d v : α) : evalNaive O n [(0, d)] v = .val (O.mul d v) := by
  have h := evalNaive_eq L [0] (by intro k hk; simp at hk; subst hk; exact ⟨le_refl _, by exact_mod_cast hn⟩)
    (by simp) (fun _ => d) v
  simp only [List.map_cons, List.map_nil] at h
  rw [h]
  simp [diagSum, sumL, L.rot_zero, L.add_zero]

/-- **bsgs_regroup**: for EVERY baby-step size `N1 > 0` — so for every
    `LogBabyStepGiantStepRatio` — and every list of normalised diagonal indices (also the empty one),
    `Σ_j rot_j( Σ_i rot_{-j}(diag_{j+i}) ⊙ rot_i v ) = Σ_d diag_d ⊙ rot_d v`, where the left side is
    `MultiplyByDiagMatrixBSGS` run on the diagonals pre-rotated as `Encode` does. -/
theorem bsgs_regroup {α : Type} (O : SlotOps α) (n : Nat) (L : SlotLaws O n) (N1 : Nat) (hN : 0 < N1)
    (ks : List Int) (hr : ∀ k ∈ ks, 0 ≤ k ∧ k < (n : Int))
    (diag : Int → α) (v : α) :
    evalBSGS O n N1 (ks.map fun k => (k, preRot O n N1 k (diag k))) v = .val (diagSum O ks diag v) :=
  evalBSGS_eq L N1 hN ks hr diag v

/-- the laws are satisfiable: the carrier the driver executes on is lawful -/
example (n : Nat) : SlotLaws (fnOps n) n := fnOps_laws n

/-- **end to end, BSGS** on the execution carrier, from the index-set hypotheses alone: the user's
    diagonal map has its indices in `(-n, n)`, distinct modulo `n` (positive or negative spellings);
    `keys` are normalised indices of it (what `NewLinearTransformation` allocates).  Then `Encode` —
    which looks every allocated key up with `Diagonals.At` — succeeds, and
    `MultiplyByDiagMatrixBSGS` on the result is the matrix–vector product with the diagonal
    `diagOf n diagonals k` (the one the user supplied for the residue class of `k`) on diagonal `k`. -/
theorem lintrans_bsgs_spec (n N1 : Nat) (hn : 0 < n) (hN : 0 < N1)
    (diagonals : List (Int × Slots n))
    (hrange : ∀ d ∈ diagonals, -(n : Int) < d.1 ∧ d.1 < (n : Int))
    (hdist : (diagonals.map fun d => d.1 % (n : Int)).Nodup)
    (keys : List Int) (hkeys : ∀ k ∈ keys, ∃ d ∈ diagonals, k = normIdx n d.1) (v : Slots n) :
    (∀ d ∈ diagonals, diagOf n diagonals (normIdx n d.1) = d.2) ∧
    ∃ vec, encode (fnOps n) n N1 keys diagonals = some vec ∧
      evalBSGS (fnOps n) n N1 vec v = .val (matVec n keys (diagOf n diagonals) v) := by
  have hr : ∀ k ∈ keys, 0 ≤ k ∧ k < (n : Int) := by
    intro k hk
    obtain ⟨d, _, rfl⟩ := hkeys k hk
    exact normIdx_range n hn d.1
  have hAt := diagAt_keys n diagonals hrange hdist keys hkeys
  refine ⟨fun d hd => diagOf_of_mem n diagonals hdist d.1 d.2 hd, _,
    encode_bsgs (fnOps n) n N1 (Nat.pos_iff_ne_zero.1 hN) keys diagonals _ hAt, ?_⟩
  rw [evalBSGS_eq (fnOps_laws n) N1 hN keys hr (diagOf n diagonals) v, diagSum_fn]

/-- … for the transformation `NewLinearTransformation` allocates: every `LogBabyStepGiantStepRatio ≥ 0`,
    `N1 = FindBestBSGSRatio`, the keys of `Vec` as allocated — no hypothesis left on the keys -/
theorem lintrans_bsgs_spec_allocated (n : Nat) (hn : 0 < n) (logRatio : Int) (hl : ¬ logRatio < 0)
    (diagonals : List (Int × Slots n))
    (hrange : ∀ d ∈ diagonals, -(n : Int) < d.1 ∧ d.1 < (n : Int))
    (hdist : (diagonals.map fun d => d.1 % (n : Int)).Nodup) (v : Slots n) :
    ∃ vec, encode (fnOps n) n (allocate (diagonals.map (·.1)) n logRatio).1
        (allocate (diagonals.map (·.1)) n logRatio).2 diagonals = some vec ∧
      evalBSGS (fnOps n) n (allocate (diagonals.map (·.1)) n logRatio).1 vec v
        = .val (matVec n (allocate (diagonals.map (·.1)) n logRatio).2 (diagOf n diagonals) v) := by
  have hN := Lattigo.Model.LinTrans.findBestBSGSRatio_pos (diagonals.map (·.1)) n logRatio.toNat
  have hkeys : ∀ k ∈ (allocate (diagonals.map (·.1)) n logRatio).2, ∃ d ∈ diagonals, k = normIdx n d.1 := by
    intro k hk
    simp only [allocate, hl, if_false] at hk
    obtain ⟨i, hi, rfl⟩ := allocKeys_mem n _ hn hN (diagonals.map (·.1)) k hk
    obtain ⟨d, hd, rfl⟩ := List.mem_map.1 hi
    exact ⟨d, hd, rfl⟩
  have h1 : (allocate (diagonals.map (·.1)) n logRatio).1 = findBestBSGSRatio (diagonals.map (·.1)) n logRatio.toNat := by
    simp [allocate, hl]
  have := lintrans_bsgs_spec n _ hn (h1 ▸ hN) diagonals hrange hdist _ hkeys v
  exact this.2

/-- non-vacuity: indices `-3` and `1` for `n = 8` lie in `(-8, 8)` and are distinct modulo 8; `At`
    finds the first under its normalised key 5 -/
example : (∀ d ∈ [((-3 : Int), (7 : Int)), (1, 8)], -((8 : Nat) : Int) < d.1 ∧ d.1 < ((8 : Nat) : Int)) ∧
    ([((-3 : Int), (7 : Int)), (1, 8)].map fun d => d.1 % ((8 : Nat) : Int)).Nodup ∧
    diagAt [((-3 : Int), (7 : Int)), (1, 8)] 5 8 = some 7 ∧ diagAt [((-3 : Int), (7 : Int)), (1, 8)] 1 8 = some 8 := by
  decide

/-- **end to end, naive** (`LogBabyStepGiantStepRatio < 0`) from the index-set hypotheses alone: `Encode`
    succeeds and `MultiplyByDiagMatrix` on the result is the matrix–vector product -/
theorem lintrans_naive_spec (n : Nat) (hn : 0 < n) (diagonals : List (Int × Slots n))
    (hrange : ∀ d ∈ diagonals, -(n : Int) < d.1 ∧ d.1 < (n : Int))
    (hdist : (diagonals.map fun d => d.1 % (n : Int)).Nodup)
    (keys : List Int) (hknd : keys.Nodup) (hall : ∀ d ∈ diagonals, normIdx n d.1 ∈ keys)
    (hkeys : ∀ k ∈ keys, ∃ d ∈ diagonals, k = normIdx n d.1) (v : Slots n) :
    ∃ vec, encode (fnOps n) n 0 keys diagonals = some vec ∧
      evalNaive (fnOps n) n vec v = .val (matVec n keys (diagOf n diagonals) v) := by
  have hr : ∀ k ∈ keys, 0 ≤ k ∧ k < (n : Int) := by
    intro k hk
    obtain ⟨d, _, rfl⟩ := hkeys k hk
    exact normIdx_range n hn d.1
  refine ⟨_, encode_naive n diagonals hrange hdist keys hall hkeys, ?_⟩
  rw [evalNaive_eq (fnOps_laws n) keys hr hknd (diagOf n diagonals) v, diagSum_fn]

/-- **lintrans_spec_allocated**: for EVERY `LogBabyStepGiantStepRatio` (negative: naive; `≥ 0`: BSGS with
    `N1 = FindBestBSGSRatio`), every diagonal map with indices in `(-n, n)` distinct modulo `n`:
    `NewLinearTransformation` + `Encode` + `Evaluate` is the matrix–vector product with the user's
    diagonals, on the keys the allocation chose — no hypothesis on `N1` or on the keys. -/
theorem lintrans_spec_allocated (logCols : Nat) (logRatio : Int)
    (diagonals : List (Int × Slots (2 ^ logCols)))
    (hrange : ∀ d ∈ diagonals, -((2 ^ logCols : Nat) : Int) < d.1 ∧ d.1 < ((2 ^ logCols : Nat) : Int))
    (hdist : (diagonals.map fun d => d.1 % ((2 ^ logCols : Nat) : Int)).Nodup) (v : Slots (2 ^ logCols)) :
    ∃ vec, encode (fnOps (2 ^ logCols)) (2 ^ logCols) (allocate (diagonals.map (·.1)) (2 ^ logCols) logRatio).1
        (allocate (diagonals.map (·.1)) (2 ^ logCols) logRatio).2 diagonals = some vec ∧
      evalOne (fnOps (2 ^ logCols)) (⟨(allocate (diagonals.map (·.1)) (2 ^ logCols) logRatio).1,
          logCols, 0, 1, vec⟩ : LinTrans.LT (Slots (2 ^ logCols))) v
        = .val (matVec (2 ^ logCols) (allocate (diagonals.map (·.1)) (2 ^ logCols) logRatio).2
            (diagOf (2 ^ logCols) diagonals) v) := by
  have hn : 0 < 2 ^ logCols := Nat.two_pow_pos logCols
  by_cases hl : logRatio < 0
  · have hal : allocate (diagonals.map (·.1)) (2 ^ logCols) logRatio
        = (0, sortU ((diagonals.map (·.1)).map fun i => if i < 0 then i + ((2 ^ logCols : Nat) : Int) else i)) := by
      simp [allocate, hl]
    have hkeq : ((diagonals.map (·.1)).map fun i => if i < 0 then i + ((2 ^ logCols : Nat) : Int) else i)
        = diagonals.map fun d => normIdx (2 ^ logCols) d.1 := by
      rw [List.map_map]
      apply List.map_congr_left
      intro d hd
      exact naiveNorm_eq _ d.1 (hrange d hd).1 (hrange d hd).2
    rw [hal, hkeq]
    simp only
    obtain ⟨vec, h1, h2⟩ := lintrans_naive_spec (2 ^ logCols) hn diagonals hrange hdist
      (sortU (diagonals.map fun d => normIdx (2 ^ logCols) d.1)) (sortU_nodup _)
      (fun d hd => (mem_sortU _ _).2 (List.mem_map.2 ⟨d, hd, rfl⟩))
      (fun k hk => by
        obtain ⟨d, hd, rfl⟩ := List.mem_map.1 ((mem_sortU _ _).1 hk)
        exact ⟨d, hd, rfl⟩) v
    exact ⟨vec, h1, by simpa [evalOne] using h2⟩
  · obtain ⟨vec, h1, h2⟩ := lintrans_bsgs_spec_allocated (2 ^ logCols) hn logRatio hl diagonals hrange hdist v
    have hN := Lattigo.Model.LinTrans.findBestBSGSRatio_pos (diagonals.map (·.1)) (2 ^ logCols) logRatio.toNat
    have h0 : (allocate (diagonals.map (·.1)) (2 ^ logCols) logRatio).1 ≠ 0 := by
      simp only [allocate, hl, if_false]; omega
    exact ⟨vec, h1, by simpa [evalOne, h0] using h2⟩

/-- non-vacuity: two diagonals, one spelled negatively, `n = 2^2`, naive and BSGS -/
example : (∀ d ∈ [((-1 : Int), (7 : Int)), (2, 8)], -((2 ^ 2 : Nat) : Int) < d.1 ∧ d.1 < ((2 ^ 2 : Nat) : Int)) ∧
    ([((-1 : Int), (7 : Int)), (2, 8)].map fun d => d.1 % ((2 ^ 2 : Nat) : Int)).Nodup := by decide

/-- both algorithms agree -/
theorem bsgs_eq_naive {α : Type} (O : SlotOps α) (n : Nat) (L : SlotLaws O n) (N1 : Nat) (hN : 0 < N1)
    (ks : List Int) (hr : ∀ k ∈ ks, 0 ≤ k ∧ k < (n : Int)) (hnd : ks.Nodup)
    (diag : Int → α) (v : α) :
    evalBSGS O n N1 (ks.map fun k => (k, preRot O n N1 k (diag k))) v
      = evalNaive O n (ks.map fun k => (k, diag k)) v := by
  rw [evalBSGS_eq L N1 hN ks hr, evalNaive_eq L ks hr hnd]

/-! ## EvaluateMany -/

/-- a transformation as `NewLinearTransformation` + `Encode` produce it from `(N1, ks, diag)`:
    naive (`N1 = 0`) stores the diagonals, BSGS stores them pre-rotated -/
def mkLT {α : Type} (O : SlotOps α) (logCols : Nat) (s : Nat × List Int × (Int → α)) : LinTrans.LT α :=
  { N1 := s.1, logCols := logCols, levelQ := 0, scale := 1,
    vec := if s.1 = 0 then s.2.1.map fun k => (k, s.2.2 k)
           else s.2.1.map fun k => (k, preRot O (2 ^ logCols) s.1 k (s.2.2 k)) }

/-- **evaluateMany_spec**: `EvaluateMany` on ANY number of transformations (naive and BSGS mixed, any
    baby-step sizes) returns, for each of them, `Σ_d diag_d ⊙ rot_d v` of the SAME input `v`. -/
theorem evaluateMany_spec {α : Type} (O : SlotOps α) (logCols : Nat) (L : SlotLaws O (2 ^ logCols))
    (specs : List (Nat × List Int × (Int → α)))
    (hr : ∀ s ∈ specs, ∀ k ∈ s.2.1, 0 ≤ k ∧ k < ((2 ^ logCols : Nat) : Int))
    (hnd : ∀ s ∈ specs, s.2.1.Nodup) (v : α) :
    evalMany O (specs.map (mkLT O logCols)) v = specs.map fun s => .val (diagSum O s.2.1 s.2.2 v) := by
  unfold evalMany
  rw [List.map_map]
  apply List.map_congr_left
  intro s hs
  simp only [Function.comp, evalOne, mkLT]
  by_cases h0 : s.1 = 0
  · simp only [h0, if_true]
    exact evalNaive_eq L s.2.1 (hr s hs) (hnd s hs) s.2.2 v
  · simp only [h0, if_false]
    exact evalBSGS_eq L s.1 (Nat.pos_of_ne_zero h0) s.2.1 (hr s hs) s.2.2 v

/-- non-vacuity: the pair of transformations the unpatched `EvaluateMany` got wrong (BSGS with a
    non-zero giant step, then the naive shift by 1) -/
example : ∀ s ∈ [((2 : Nat), ([0, 2] : List Int)), (0, [1])], ∀ k ∈ s.2, 0 ≤ k ∧ k < ((2 ^ 2 : Nat) : Int) := by
  decide

/-- `EvaluateSequential` composes: two transformations give the second applied to the first -/
theorem evaluateSequential_two {α : Type} (O : SlotOps α) (lt0 lt1 : LinTrans.LT α) (v w : α)
    (h0 : evalOne O lt0 v = .val w) :
    evalSeq O [lt0, lt1] v = evalOne O lt1 w := by
  simp [evalSeq, h0]

/-- one transformation built by `mkLT` evaluates to `Σ_d diag_d ⊙ rot_d` of its input -/
theorem evalOne_mkLT {α : Type} (O : SlotOps α) (logCols : Nat) (L : SlotLaws O (2 ^ logCols))
    (s : Nat × List Int × (Int → α)) (hr : ∀ k ∈ s.2.1, 0 ≤ k ∧ k < ((2 ^ logCols : Nat) : Int))
    (hnd : s.2.1.Nodup) (v : α) :
    evalOne O (mkLT O logCols s) v = .val (diagSum O s.2.1 s.2.2 v) := by
  simp only [evalOne, mkLT]
  by_cases h0 : s.1 = 0
  · simp only [h0, if_true]
    exact evalNaive_eq L s.2.1 hr hnd s.2.2 v
  · simp only [h0, if_false]
    exact evalBSGS_eq L s.1 (Nat.pos_of_ne_zero h0) s.2.1 hr s.2.2 v

/-- **evaluateSequential_spec**: `EvaluateSequential` on ANY non-empty list of transformations (naive and
    BSGS mixed) is their composition, first to last: `M_k(… M_1(M_0 v))` -/
theorem evaluateSequential_spec {α : Type} (O : SlotOps α) (logCols : Nat) (L : SlotLaws O (2 ^ logCols))
    (s0 : Nat × List Int × (Int → α)) (rest : List (Nat × List Int × (Int → α)))
    (hr : ∀ s ∈ s0 :: rest, ∀ k ∈ s.2.1, 0 ≤ k ∧ k < ((2 ^ logCols : Nat) : Int))
    (hnd : ∀ s ∈ s0 :: rest, s.2.1.Nodup) (v : α) :
    evalSeq O ((s0 :: rest).map (mkLT O logCols)) v
      = .val ((s0 :: rest).foldl (fun w s => diagSum O s.2.1 s.2.2 w) v) := by
  simp only [List.map_cons, evalSeq, List.foldl_cons]
  rw [evalOne_mkLT O logCols L s0 (hr s0 (by simp)) (hnd s0 (by simp)) v]
  have hrest : ∀ (l : List (Nat × List Int × (Int → α))) (w : α),
      (∀ s ∈ l, ∀ k ∈ s.2.1, 0 ≤ k ∧ k < ((2 ^ logCols : Nat) : Int)) → (∀ s ∈ l, s.2.1.Nodup) →
      (l.map (mkLT O logCols)).foldl (fun (acc : EvalRes α) lt =>
        match acc with
        | .val w => evalOne O lt w
        | r => r) (.val w) = .val (l.foldl (fun w s => diagSum O s.2.1 s.2.2 w) w) := by
    intro l
    induction l with
    | nil => intro w _ _; rfl
    | cons s l ih =>
      intro w h1 h2
      simp only [List.map_cons, List.foldl_cons]
      rw [evalOne_mkLT O logCols L s (h1 s (by simp)) (h2 s (by simp)) w]
      exact ih _ (fun x hx => h1 x (by simp [hx])) (fun x hx => h2 x (by simp [hx]))
  exact hrest rest _ (fun s hs => hr s (by simp [hs])) (fun s hs => hnd s (by simp [hs]))

/-- the empty list: `linearTransformations[:1]` of an empty slice panics -/
example {α : Type} (O : SlotOps α) (v : α) : (match evalSeq O [] v with | .panic => true | _ => false) = true := rfl

/-- **evaluateSequential_meta**: level and scale of `EvaluateSequential` (bgv, exact scales modulo the
    prime `t`) in closed form: `k` transformations allocated at levels `≥` the input's, `k ≤` input level,
    the consumed primes units modulo `t`: output level = input level `− k`, output scale
    `= s_ct · Π s_i · Π_{j<k} q_{level-j}⁻¹` in `ZMod t` -/
theorem evaluateSequential_meta (t : Nat) [Fact t.Prime] (h64 : t < 2 ^ 64) (qmodt : List Nat)
    (ctLevel ctScale : Nat) (ls0 : Nat × Nat) (rest : List (Nat × Nat))
    (hlv : ∀ ls ∈ ls0 :: rest, ctLevel ≤ ls.1) (hk : (ls0 :: rest).length ≤ ctLevel)
    (hq : ∀ l, 1 ≤ l → l ≤ ctLevel → ((qmodt.getD l 0 : Nat) : ZMod t) ≠ 0) :
    ∃ sc, seqMeta t qmodt ctLevel ctScale (ls0 :: rest) = some (ctLevel - (ls0 :: rest).length, sc) ∧
      ((sc : Nat) : ZMod t) = (ctScale : ZMod t) * (((ls0 :: rest).map fun ls => ((ls.2 : Nat) : ZMod t)).prod) *
        ((List.range (ls0 :: rest).length).map fun j => (((qmodt.getD (ctLevel - j) 0 : Nat) : ZMod t))⁻¹).prod := by
  obtain ⟨sc, h1, h2⟩ := seqFold_spec t h64 qmodt (ls0 :: rest) ctLevel ctScale hlv hk hq
  refine ⟨sc, ?_, h2⟩
  rw [← h1, seqMeta_cons]
  simp only [List.foldl_cons, seqStep]
  have hl0 : ctLevel ≤ ls0.1 := hlv ls0 (by simp)
  have e1 : (outMeta t ls0.1 ctLevel ls0.1 ctScale ls0.2).1 = (outMeta t ctLevel ctLevel ls0.1 ctScale ls0.2).1 := by
    simp only [outMeta]; omega
  have e2 : (outMeta t ls0.1 ctLevel ls0.1 ctScale ls0.2).2 = (outMeta t ctLevel ctLevel ls0.1 ctScale ls0.2).2 := rfl
  rw [e1, e2]

/-- too few levels: with more transformations than levels the sequence stops on a failing `Rescale` -/
theorem evaluateSequential_meta_too_few (t : Nat) (qmodt : List Nat) (ctScale : Nat) (ls0 : Nat × Nat) :
    seqMeta t qmodt 0 ctScale [ls0] = none := by
  simp [seqMeta, outMeta]

/-- non-vacuity: `t = 65537`, two transformations from level 3 -/
example : Nat.Prime 65537 ∧ (∀ ls ∈ [((3 : Nat), (5 : Nat)), (4, 7)], 3 ≤ ls.1) ∧ ([((3 : Nat), (5 : Nat)), (4, 7)]).length ≤ 3 ∧
    seqMeta 65537 [705, 16321, 16577, 15553] 3 9 [(3, 5), (4, 7)] = some (1, 17311) := by
  refine ⟨by norm_num, by decide, by decide, by decide +kernel⟩

/-! ## Galois keys -/

/-- **lintrans_keys_sufficient**: for EVERY list of diagonal indices (any integers, any order,
    duplicates allowed), every `n > 0` and every `LogBabyStepGiantStepRatio` (negative: naive), the
    rotations whose Galois keys `EvaluateMany` requests for the allocated transformation are among
    the ones `GaloisElements` advertises. -/
theorem lintrans_keys_sufficient (n : Nat) (hn : 0 < n) (diags : List Int) (logRatio : Int) (x : Int)
    (hx : x ∈ reqMany [((allocate diags n logRatio).1, n, (allocate diags n logRatio).2)]) :
    x ∈ advertisedRots diags n logRatio := by
  by_cases hl : logRatio < 0
  · have hal : allocate diags n logRatio = allocate diags n (-1) := by simp [allocate, hl]
    have had : advertisedRots diags n logRatio = advertisedRots diags n (-1) := by
      simp [advertisedRots, hl]
    rw [hal] at hx; rw [had]
    have h0 : (allocate diags n (-1)).1 = 0 := by simp [allocate]
    simp only [reqMany, List.foldl_cons, List.foldl_nil, h0, if_true, List.nil_append] at hx
    exact naive_keys_sufficient n diags x hx
  · have hN := findBestBSGSRatio_pos diags n logRatio.toNat
    simp only [allocate, hl, if_false] at hx
    simp only [advertisedRots, hl, if_false]
    simp only [reqMany, List.foldl_cons, List.foldl_nil, Nat.ne_of_gt hN, if_false, List.nil_append] at hx
    exact bsgs_keys_sufficient n _ hn hN diags [] x hx

/-- the naive branch on a negative index in sparse packing: `GaloisElements` normalises modulo the number
    of columns — for 4 columns the index `-3` is advertised as the rotation by `1` (what
    `MultiplyByDiagMatrix` asks for), not as `5^(-3 mod N/2)`; an instance of `lintrans_keys_sufficient`,
    probed on the real code as `keys_sufficient_pkg` -/
example : advertisedRots [-3] 4 (-1) = [1] ∧ advertisedRots [-1, 1, -2] 4 (-1) = [1, 2, 3] ∧
    reqMany [((allocate [-3] 4 (-1)).1, 4, (allocate [-3] 4 (-1)).2)] = [1] := by decide

/-- `FindBestBSGSRatio` never returns 0 (so a non-negative ratio always selects the BSGS algorithm) -/
theorem findBestBSGSRatio_pos (diags : List Int) (maxN lr : Nat) : 0 < findBestBSGSRatio diags maxN lr :=
  Lattigo.Model.LinTrans.findBestBSGSRatio_pos diags maxN lr

/-! ## permutations -/

theorem permFold_keys (rowsN n : Nat) (hn : 0 < n) (maps : List (Nat × Int × Int × Nat)) :
    ∀ (acc : List (Int × List Nat)), (∀ k ∈ acc.map (·.1), 0 ≤ k ∧ k < (n : Int)) →
      ∀ k ∈ (maps.foldl (fun (acc : List (Int × List Nat)) (mp : Nat × Int × Int × Nat) =>
        let (row, from_, to_, sc) := mp
        let d := permDiagIdx n from_ to_
        let pos := (to_ + (row * n : Nat)).toNat
        match lookupI d acc with
        | some _ => acc.map fun kv => if kv.1 = d then (kv.1, setAt kv.2 pos sc) else kv
        | none => acc ++ [(d, setAt (List.replicate (rowsN * n) 0) pos sc)]) acc).map (·.1),
      0 ≤ k ∧ k < (n : Int) := by
  induction maps with
  | nil => intro acc h; simpa using h
  | cons mp rest ih =>
    intro acc h
    obtain ⟨row, from_, to_, sc⟩ := mp
    simp only [List.foldl_cons]
    apply ih
    intro k hk
    split at hk
    · simp only [List.map_map, List.mem_map, Function.comp] at hk
      obtain ⟨kv, hkv, rfl⟩ := hk
      have : kv.1 ∈ acc.map (·.1) := List.mem_map_of_mem hkv
      split <;> exact h _ this
    · simp only [List.map_append, List.map_cons, List.map_nil, List.mem_append, List.mem_singleton] at hk
      rcases hk with hk | hk
      · exact h k hk
      · rw [hk]; exact normIdx_range n hn _

/-- **permDiagonals_keys**: the diagonals `Permutation.GetDiagonals` returns (tied: `permdiags`, `permdiagsc`) have
    pairwise different keys, all in `[0, n)` — one key per diagonal of the matrix modulo `n`, for every list of
    mappings (offsets `+n/2` and `−n/2` land on the same key) -/
theorem permDiagonals_keys (rowsN n : Nat) (hn : 0 < n) (maps : List (Nat × Int × Int × Nat)) :
    ((permDiagonals rowsN n maps).map (·.1)).Nodup ∧
    ∀ kv ∈ permDiagonals rowsN n maps, 0 ≤ kv.1 ∧ kv.1 < (n : Int) := by
  have hkeys := permFold_keys rowsN n hn maps [] (by simp)
  unfold permDiagonals
  generalize maps.foldl _ [] = m at hkeys ⊢
  constructor
  · have hsub : ∀ ks : List Int, (ks.filterMap fun k => (lookupI k m).map fun v => (k, v)).map (·.1)
        = ks.filter fun k => (lookupI k m).isSome := by
      intro ks
      induction ks with
      | nil => rfl
      | cons k ks ih =>
        simp only [List.filterMap_cons, List.filter_cons]
        cases hl : lookupI k m with
        | none => simpa using ih
        | some v => simp [ih]
    rw [hsub]
    exact (sortU_nodup _).filter _
  · intro kv hkv
    simp only [List.mem_filterMap] at hkv
    obtain ⟨k, hk, hkv⟩ := hkv
    cases hl : lookupI k m with
    | none => simp [hl] at hkv
    | some v =>
      simp only [hl, Option.map_some, Option.some.injEq] at hkv
      rw [← hkv]
      exact hkeys k ((mem_sortU k _).mp hk)

/-! ## level and scale -/

/-- **meta_spec**: `level = min(opOut.Level, ctIn.Level, lt.LevelQ)`, `scale = scale_ct · scale_lt`
    (mod `t` for the integer scheme) — the rule the tie lines compare with the real output metadata -/
theorem meta_spec (t ol cl ll cs ls : Nat) :
    (outMeta t ol cl ll cs ls).1 = min ol (min cl ll) ∧
    (outMeta t ol cl ll cs ls).2 = (if t = 0 then cs * ls else cs * ls % t) := ⟨rfl, rfl⟩

/-- **out_scale_spec**: the recorded output scale of `Evaluate`/`EvaluateMany` for a ciphertext whose scale carries
    the modulus `t`: it carries `t` again and its value is the product reduced modulo `t` — the `meta_spec` value —
    HOWEVER the transformation's scale was built: with the modulus (`params.NewScale`, `DefaultScale`), without
    (`rlwe.NewScale(k)`), `k` below or above `t` -/
theorem out_scale_spec (t cs ls lm : Nat) (ht : 0 < t) (ol cl ll : Nat) :
    (outScale ⟨cs, t⟩ ⟨ls, lm⟩).mod = t ∧
    (outScale ⟨cs, t⟩ ⟨ls, lm⟩).value = cs * ls % t ∧
    (outScale ⟨cs, t⟩ ⟨ls, lm⟩).value = (outMeta t ol cl ll cs ls).2 ∧
    (outScale ⟨cs, t⟩ ⟨ls, lm⟩).value < t := by
  have h0 : t ≠ 0 := by omega
  simp only [outScale, ScaleM.mul, outMeta, h0, if_false]
  exact ⟨trivial, trivial, trivial, Nat.mod_lt _ ht⟩

/-- the receiver matters: the product taken the other way round (`matrix.Scale.Mul(ctIn.Scale)`) with a
    transformation scale without modulus loses the modulus and is not reduced — `Rescale`, `MatchScales`, the
    decoder then compute with a plain integer instead of a residue -/
theorem out_scale_receiver_matters :
    ScaleM.mul ⟨40000, 0⟩ ⟨3, 65537⟩ = ⟨120000, 0⟩ ∧ outScale ⟨3, 65537⟩ ⟨40000, 0⟩ = ⟨54463, 65537⟩ := by decide

/-- the scale along `EvaluateSequential` stays a reduced residue (its modulus is `t`: every step of `seqMeta`
    reduces modulo `t`) -/
theorem evaluateSequential_scale_reduced (t : Nat) (ht : 0 < t) (qmodt : List Nat) (ctLevel ctScale : Nat)
    (lts : List (Nat × Nat)) (l sc : Nat) (h : seqMeta t qmodt ctLevel ctScale lts = some (l, sc)) : sc < t := by
  have inv : ∀ {β : Type} (f : Option (Nat × Nat) → β → Option (Nat × Nat))
      (_ : ∀ acc x l sc, f acc x = some (l, sc) → sc < t) (xs : List β) (acc : Option (Nat × Nat)),
      (∀ l sc, acc = some (l, sc) → sc < t) → ∀ l sc, xs.foldl f acc = some (l, sc) → sc < t := by
    intro β f hf xs
    induction xs with
    | nil => intro acc hacc l sc hh; exact hacc l sc hh
    | cons x xs ih =>
      intro acc _ l sc hh
      simp only [List.foldl_cons] at hh
      exact ih _ (fun l' sc' h' => hf acc x l' sc' h') l sc hh
  cases lts with
  | nil => simp [seqMeta] at h
  | cons ls0 rest =>
    simp only [seqMeta] at h
    refine inv _ ?_ rest _ ?_ l sc h
    · intro acc x l' sc' hh
      cases acc with
      | none => simp at hh
      | some p =>
        obtain ⟨lvl, s0⟩ := p
        simp only at hh
        split at hh
        · exact absurd hh (by simp)
        · simp only [Option.some.injEq, Prod.mk.injEq] at hh
          rw [← hh.2]; exact Nat.mod_lt _ ht
    · intro l' sc' hh
      split at hh
      · exact absurd hh (by simp)
      · simp only [Option.some.injEq, Prod.mk.injEq] at hh
        rw [← hh.2]; exact Nat.mod_lt _ ht

/-! ## lazy accumulation (ciphertext layer, schedule only) -/

section lazy
open Lattigo.Model.LinTrans.Lazy Lattigo.Gen

/-- **lazy_accumulation_no_wrap**: in the inner loop of `MultiplyByDiagMatrixBSGS` — margin
    `QiOverflowMargin(level) >> 1 = ⌊⌊2^64 / max q_i⌋ / 2⌋`, test `cnt % margin == margin-1 ⇒ Reduce`,
    final test `cnt % margin != 0 ⇒ Reduce` — a uint64 accumulator word of the limb `q` never reaches
    2^64, for every chain of moduli below 2^61 (what `CheckModuli` admits in Q and in P), every number of baby steps, all reduced operands; it
    ends reduced and congruent to the sum of the lazy products. -/
theorem lazy_accumulation_no_wrap (qs : List Nat) (hqs : ∀ x ∈ qs, x < 2 ^ 61) (q qinv : Nat) (hq : q ∈ qs)
    (hm : MontConst q qinv) (xys : List (Nat × Nat)) (hxy : ∀ xy ∈ xys, xy.1 < q ∧ xy.2 < q) (hne : xys ≠ []) :
    let ps := xys.map fun xy => MRedLazy xy.1 xy.2 q qinv
    let r := accRun q (halved (overflowMargin qs)) ps
    (∀ raw ∈ r.1, raw < W) ∧ r.2 < q ∧ r.2 % q = ps.sum % q :=
  Lattigo.Model.LinTrans.Lazy.lazy_accumulation_no_wrap qs hqs q qinv hq hm xys hxy hne

/-- **lazy_accumulation_no_wrap_gen**: the same with the margin the REGENERATED `QiOverflowMargin`
    (`Gen/Params.lean`, printed from core/rlwe/params.go on every run; `C19Gen.margin_floor_gen`: it is
    `⌊(2^64-1)/max⌋`) at the top level of the chain, halved as `MultiplyByDiagMatrixBSGS` does — for every
    chain of odd moduli in `(2, 2^61)` (every chain of primes `CheckModuli` admits) -/
theorem lazy_accumulation_no_wrap_gen (qs : List Nat) (hlen : qs.length < 2 ^ 62) (hqs : ∀ x ∈ qs, x < 2 ^ 61)
    (hodd : ∀ x ∈ qs, x % 2 = 1) (h2 : ∀ x ∈ qs, 2 < x) (q qinv : Nat) (hq : q ∈ qs)
    (hm : MontConst q qinv) (xys : List (Nat × Nat)) (hxy : ∀ xy ∈ xys, xy.1 < q ∧ xy.2 < q) (hne : xys ≠ []) :
    let ps := xys.map fun xy => MRedLazy xy.1 xy.2 q qinv
    let r := accRun q (halved (i64toInt (Lattigo.Gen.Params.QiOverflowMargin qs (qs.length - 1)))) ps
    (∀ raw ∈ r.1, raw < W) ∧ r.2 < q ∧ r.2 % q = ps.sum % q := by
  have hmaxmem : qs ≠ [] → qs.foldl max 0 ∈ qs := by
    intro hne'
    have : ∀ (l : List Nat) (a : Nat), l.foldl max a = a ∨ l.foldl max a ∈ l := by
      intro l
      induction l with
      | nil => intro a; left; rfl
      | cons y ys ih =>
        intro a
        simp only [List.foldl_cons]
        rcases ih (max a y) with h | h
        · rcases Nat.le_total a y with hay | hay
          · right; rw [h, Nat.max_eq_right hay]; simp
          · left; rw [h, Nat.max_eq_left hay]
        · right; exact List.mem_cons_of_mem _ h
    rcases this qs 0 with h | h
    · -- the maximum is 0: impossible, every modulus is > 2
      obtain ⟨x, hx⟩ := List.exists_mem_of_ne_nil qs hne'
      have := le_foldl_max qs 0 x (Or.inr hx)
      have := h2 x hx
      omega
    · exact h
  rw [Lattigo.Props.C12Gen.overflowMargin_gen qs hlen (fun h => hodd _ (hmaxmem h)) (fun h => h2 _ (hmaxmem h))]
  exact Lattigo.Model.LinTrans.Lazy.lazy_accumulation_no_wrap qs hqs q qinv hq hm xys hxy hne

/-- non-vacuity: a chain of a 60-bit and a 61-bit modulus; the Montgomery constant of the latter -/
example : (∀ x ∈ [1152921504606846883, 2305843009213693951], x < 2 ^ 61) ∧
    MontConst 2305843009213693951 (GenMRedConstant 2305843009213693951) := by
  refine ⟨by decide, ?_⟩
  exact (GenMRedConstant_spec 2305843009213693951 (by decide) (by decide)).1

/-- the general form: any moduli `q ≤ qmax ≤ 2^64/3` (covers the 62-bit primes of P), margin
    `⌊2^64/qmax⌋ >> 1`, summands at most `q + ⌊q²/2^64⌋` — also the OUTER loop, whose summands are
    reduced words -/
theorem lazy_accumulation_no_wrap_general (q qmax : Nat) (hq0 : 0 < q) (hq : q ≤ qmax) (h3 : 3 * qmax ≤ W)
    (ps : List Nat) (hps : ∀ p ∈ ps, p ≤ q + q * q / W) (hne : ps ≠ []) :
    let r := accRun q (halved ((W / qmax : Nat) : Int)) ps
    (∀ raw ∈ r.1, raw < W) ∧ r.2 < q ∧ r.2 % q = ps.sum % q :=
  accRun_no_wrap q qmax hq0 hq h3 ps hps hne

example : 3 * 4611686018427387847 ≤ W := by decide   -- a 62-bit prime

/-- the product bound that makes it work: on reduced operands `MRedLazy ≤ q + ⌊q²/2^64⌋` -/
theorem mredlazy_reduced_bound (x y q qinv : Nat) (hq : 2 * q ≤ W) (hm : MontConst q qinv)
    (hx : x < q) (hy : y < q) : MRedLazy x y q qinv ≤ q + q * q / W :=
  MRedLazy_le_reduced x y q qinv hq hm hx hy

/-- **the documented bound is not enough**: with summands only known to be `< 2q` (the bound of
    `MRedLazy_spec`, and what "margin = how many elements of Z_q fit into 2^64, halved" accounts for) the
    accumulator DOES wrap: every window after the first starts from a reduced word, not from 0. -/
theorem lazy_2q_bound_insufficient :
    ∃ q : Nat, q < 2 ^ 61 ∧ ∃ ps : List Nat, (∀ p ∈ ps, p < 2 * q) ∧
      ∃ raw ∈ (accRun q (halved ((W / q : Nat) : Int)) ps).1, W ≤ raw :=
  accLoop_2q_bound_wraps

/-- **ModDown once per giant step** (and once more for the result), for every index and all margins -/
theorem modDown_once_per_giant_step (MQ MP : Int) (index : List (Int × List Int)) :
    (bsgsSchedule MQ MP index).countP isModDownInner = (index.filter fun ji => ji.1 != 0).length :=
  Lattigo.Model.LinTrans.Lazy.modDown_once_per_giant_step MQ MP index

/-- without P (`PiOverflowMargin = -1`) no reduction of a P part is scheduled -/
theorem no_P_no_reduce (cnt : Nat) :
    reduceNow (halved (overflowMargin [])) cnt = false ∧ reduceAtEnd (halved (overflowMargin [])) cnt = false :=
  no_reduce_without_moduli cnt

/-- the naive algorithm's final `Reduce` is redundant (it fires iff the last iteration reduced) -/
theorem naive_final_reduce_redundant (M : Nat) (hM : 1 ≤ M) (len : Nat) (hlen : 1 ≤ len) :
    reduceAtEndNaive (M : Int) len = reduceNow (M : Int) (len - 1) :=
  Lattigo.Model.LinTrans.Lazy.naive_final_reduce_redundant M hM len hlen

/-- test: two giant steps of 9 and 3 baby steps, margins 4 (Q) and 2 (P) -/
example : ((bsgsSchedule 4 2 [(0, [0,1,2,3,4,5,6,7,8]), (16, [0,1,2])]).filter (· == .reduceInnerQ)).length = 4 ∧
    ((bsgsSchedule 4 2 [(0, [0,1,2,3,4,5,6,7,8]), (16, [0,1,2])]).filter (· == .modDownFinal)).length = 1 := by decide

end lazy

/-! ## `Diagonals.At` -/

/-- **at_spec**: "accepts negative values with the equivalency -i = n - i": an index absent from the map
    is looked up under its other spelling, `i + n` for `i < 0`, `i - n` for `i > 0` -/
theorem at_spec {β : Type} (m : List (Int × β)) (i : Int) (n : Nat) (h : lookupI i m = none) :
    (i < 0 → diagAt m i n = lookupI (i + n) m) ∧ (0 < i → diagAt m i n = lookupI (i - n) m) := by
  constructor
  · intro hi
    have : ¬ i > 0 := by omega
    simp [diagAt, h, this, hi]
  · intro hi
    simp [diagAt, h, hi]

example : diagAt [((5 : Int), (1 : Int))] (-3) 8 = some 1 := by decide

#print axioms diag_method
#print axioms rows_independent
#print axioms naive_spec
#print axioms naive_main_diagonal_only
#print axioms bsgs_regroup
#print axioms lintrans_bsgs_spec
#print axioms lintrans_bsgs_spec_allocated
#print axioms bsgs_eq_naive
#print axioms evaluateMany_spec
#print axioms evaluateSequential_two
#print axioms lintrans_keys_sufficient
#print axioms findBestBSGSRatio_pos
#print axioms permDiagonals_keys
#print axioms meta_spec
#print axioms out_scale_spec
#print axioms out_scale_receiver_matters
#print axioms evaluateSequential_scale_reduced
#print axioms at_spec
#print axioms lazy_accumulation_no_wrap
#print axioms lazy_accumulation_no_wrap_gen
#print axioms lintrans_naive_spec
#print axioms lintrans_spec_allocated
#print axioms evalOne_mkLT
#print axioms evaluateSequential_spec
#print axioms evaluateSequential_meta
#print axioms evaluateSequential_meta_too_few
#print axioms lazy_accumulation_no_wrap_general
#print axioms mredlazy_reduced_bound
#print axioms lazy_2q_bound_insufficient
#print axioms modDown_once_per_giant_step
#print axioms no_P_no_reduce
#print axioms naive_final_reduce_redundant

end Lattigo.Props.C12
