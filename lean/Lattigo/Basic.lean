def hello := "world"
