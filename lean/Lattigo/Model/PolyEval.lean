/-
  C13 — homomorphic polynomial evaluation: executable model of

    circuits/common/polynomial/power_basis.go          : SplitDegree, GenPower, genPower
    circuits/common/polynomial/polynomial.go           : Polynomial.Factorize, PatersonStockmeyerPolynomial, recursePS
    circuits/common/polynomial/polynomial_evaluator.go : Evaluate, EvaluatePatersonStockmeyerPolynomialVector,
                                                         EvaluateBabyStep, EvaluateGianStep, EvaluateMonomial,
                                                         EvaluatePolynomialVectorFromPowerBasis
    circuits/common/polynomial/polynomial_evaluator_sim.go, circuits/{bgv,ckks}/polynomial/polynomial_evaluator_sim.go
    utils/bignum/polynomial.go                         : OptimalSplit, Factorize, Depth

  Two layers.
  (A) The ALGEBRA over an abstract value carrier (`ValOps R`): `powVal` (what the power basis holds),
      `factorize`, `psRec` (Paterson–Stockmeyer recursion), `evalBasis` (the specification).  The
      theorems of `Props/C13.lean` are about these.
  (B) The MACHINE: the evaluator as a state machine over operands carrying (level, scale mod t,
      ciphertext degree, slot values) and emitting the ordered trace of scheme-evaluator calls.  The
      driver runs (B) and (A) on the same input; the harness compares the trace and the final
      level/scale/values with the real code, and the value of (A) with the decrypted result.
  Scales are exact modulo t (bgv).  For ckks (`t = 0`) the machine tracks levels only (the real scales
  are 128-bit floats divided by non-dyadic primes; they are checked by probes, not tied).
  Core Lean only.
-/
namespace Lattigo.Model.PolyEval

/-! ## small arithmetic -/

/-- `bits.Len64(n)` -/
def bitLen (n : Nat) : Nat := if n = 0 then 0 else Nat.log2 n + 1

/-- `bignum.OptimalSplit(logDegree)` (Go `int` arithmetic; the subtractions can go negative) -/
def optimalSplit (logDegree : Nat) : Nat :=
  let ls := logDegree / 2
  let a : Int := (2 : Int) ^ ls + (2 : Int) ^ (logDegree - ls) + logDegree - ls - 3
  let b : Int := (2 : Int) ^ (ls + 1) + (if logDegree - ls ≥ 1 then (2 : Int) ^ (logDegree - ls - 1) else 0)
      + logDegree - ls - 4
  if a > b then ls + 1 else ls

/-- `n & (n-1) == 0` for `n ≥ 1` -/
def isPow2 (n : Nat) : Bool := n != 0 && 2 ^ Nat.log2 n == n

/-- `SplitDegree(n)` (`n ≥ 1`): the two exponents whose powers are multiplied to obtain power `n`.
    (The Go comment says `a * b = n`; the code computes `a + b = n`.) -/
def splitDegree (n : Nat) : Nat × Nat :=
  if isPow2 n then (n / 2, n / 2)
  else
    let k := bitLen (n - 1) - 1
    (2 ^ k - 1, n + 1 - 2 ^ k)

/-- `bignum.Polynomial.Depth()`: `int(math.Ceil(math.Log2(float64(degree))))` for `degree ≥ 1` -/
def depthCheck (degree : Nat) : Nat := if degree ≤ 1 then 0 else Nat.log2 (degree - 1) + 1

/-- `simEvaluator.PolynomialDepth(degree)`: `bits.Len64(degree) - 1` (non-invariant, one level per rescaling) -/
def polynomialDepth (degree : Nat) : Nat := bitLen degree - 1

/-! ## (A) the algebra -/

structure ValOps (R : Type) where
  add : R → R → R
  sub : R → R → R
  mul : R → R → R
  ofNat : Nat → R

/-- the value `genPower` stores at index `n` (`n ≥ 1`): the product of the values at `SplitDegree(n)`,
    and for the Chebyshev basis `2·C_a·C_b − C_{|a−b|}` (`C_0 = 1`).  First argument: fuel. -/
def powVal {R : Type} (O : ValOps R) (cheb : Bool) (x : R) : Nat → Nat → R
  | 0, _ => O.ofNat 0
  | fuel + 1, n =>
    if n = 0 then O.ofNat 1
    else if n = 1 then x
    else
      let (a, b) := splitDegree n
      let pa := powVal O cheb x fuel a
      let pb := powVal O cheb x fuel b
      if cheb then
        let c := if a ≥ b then a - b else b - a
        O.sub (O.mul (O.ofNat 2) (O.mul pa pb)) (powVal O cheb x fuel c)
      else O.mul pa pb

/-- `Σ_i c_i · B_{k+i}(x)` over the coefficient list, with `B_i = X^i` resp. `T_i` taken from `powVal` -/
def evalFrom {R : Type} (O : ValOps R) (cheb : Bool) (x : R) : Nat → List R → R
  | _, [] => O.ofNat 0
  | k, c :: cs => O.add (O.mul c (powVal O cheb x (k + 1) k)) (evalFrom O cheb x (k + 1) cs)

/-- the specification: `p(x) = Σ_i c_i · B_i(x)` -/
def evalBasis {R : Type} (O : ValOps R) (cheb : Bool) (x : R) (coeffs : List R) : R :=
  evalFrom O cheb x 0 coeffs

/-- `bignum.Polynomial.Factorize(n)`, all coefficients present, flags `IsOdd = IsEven` (the
    constructor's default, under which no coefficient is skipped): `p = q·B_n + r`.
    Monomial: `q = p[n:]`, `r = p[:n]`.  Chebyshev: `q_0 = p_n`, `q_j = 2·p_{n+j}`,
    `r_{n-j} -= p_{n+j}` for `j ≥ 1`. -/
def factorize {R : Type} (O : ValOps R) (cheb : Bool) (n : Nat) (p : List R) : List R × List R :=
  if !cheb then (p.drop n, p.take n)
  else
    let hi := p.drop n
    let q := match hi with
      | [] => []
      | c :: cs => c :: cs.map fun x => O.mul (O.ofNat 2) x
    let r := (List.range n).map fun i =>
      let base := p.getD i (O.ofNat 0)
      -- i = n - j  ⇒  j = n - i, source index n + j = 2n - i
      if 2 * n - i < p.length ∧ n - i ≥ 1 then O.sub base (p.getD (2 * n - i) (O.ofNat 0)) else base
    (q, r)

/-- the guard of `bignum.Polynomial.Factorize(n)`: `if n < (p.Degree()+1)>>1 { panic }` -/
def factorizeGuard (n : Nat) (len : Nat) : Bool := n < (len - 1 + 1) / 2

/-- the split power chosen by `recursePS`: `nextPower = 1 << logSplit; for nextPower < (deg>>1)+1 { <<= 1 }` -/
def nextPowerLoop (deg : Nat) : Nat → Nat → Nat
  | 0, np => np
  | fuel + 1, np => if np < deg / 2 + 1 then nextPowerLoop deg fuel (2 * np) else np

def nextPower (logSplit deg : Nat) : Nat := nextPowerLoop deg (deg + 1) (2 ^ logSplit)

/-- Paterson–Stockmeyer recursion on values: sub-polynomials of degree `< 2^logSplit` are evaluated
    directly on the power basis (baby steps), the others as `q(x)·B_{nextPower}(x) + r(x)`. -/
def psRec {R : Type} (O : ValOps R) (cheb : Bool) (logSplit : Nat) (x : R) : Nat → List R → R
  | 0, p => evalBasis O cheb x p
  | fuel + 1, p =>
    let deg := p.length - 1
    if deg < 2 ^ logSplit then evalBasis O cheb x p
    else
      let np := nextPower logSplit deg
      let (q, r) := factorize O cheb np p
      O.add (O.mul (psRec O cheb logSplit x fuel q) (powVal O cheb x (np + 1) np))
            (psRec O cheb logSplit x fuel r)

/-- the integer instance the driver runs -/
def intOps : ValOps Int := { add := (· + ·), sub := (· - ·), mul := (· * ·), ofNat := fun n => (n : Int) }

/-! ## (B) the machine -/

structure Env where
  t : Nat              -- plaintext modulus; 0 = ckks (scales and values untracked)
  q : List Nat         -- q_l mod t, l = 0..L  (bgv)
  cheb : Bool
  slots : Nat

structure Opd where
  level : Int
  scale : Nat
  deg : Nat
  val : List Int
  deriving Inhabited

structure St where
  pb : List (Nat × Opd) := []
  tr : List String := []

abbrev M := ExceptT String (StateM St)

def modExp (t : Nat) (x e : Nat) : Nat := Id.run do
  let mut r := 1 % t
  let mut b := x % t
  let mut k := e
  for _ in [0:64] do
    if k % 2 = 1 then r := r * b % t
    b := b * b % t
    k := k / 2
  return r

def invMod (t x : Nat) : Nat := modExp t x (t - 2)

def mulS (env : Env) (a b : Nat) : Nat := if env.t = 0 then 0 else a * b % env.t
def divS (env : Env) (a b : Nat) : Nat := if env.t = 0 then 0 else a * invMod env.t b % env.t
def qAt (env : Env) (l : Int) : Nat := if l < 0 then 0 else env.q.getD l.toNat 0

def redV (env : Env) (x : Int) : Int := if env.t = 0 then 0 else x % (env.t : Int)

def showOpd (env : Env) (o : Opd) : String :=
  if env.t = 0 then s!"{o.level}" else s!"{o.level}:{o.scale}"

def log (s : String) : M Unit := modify fun st => { st with tr := st.tr ++ [s] }

def getP (n : Nat) : M Opd := do
  match (← get).pb.find? (·.1 == n) with
  | some (_, o) => pure o
  | none => throw "panic"                 -- nil ciphertext dereference

def hasP (n : Nat) : M Bool := do pure (((← get).pb.find? (·.1 == n)).isSome)

def setP (n : Nat) (o : Opd) : M Unit :=
  modify fun st => { st with pb := (n, o) :: st.pb.filter (·.1 != n) }

/-- `eval.Rescale(ct, ct)`: error at level 0 -/
def rescaleOp (env : Env) (o : Opd) : M Opd := do
  log s!"rescale({showOpd env o})"
  if o.level ≤ 0 then throw "err"
  pure { o with level := o.level - 1, scale := divS env o.scale (qAt env o.level) }

def relinOp (env : Env) (o : Opd) : M Opd := do
  log s!"relin({showOpd env o})"
  pure { o with deg := 1 }

def zipV (f : Int → Int → Int) (a b : List Int) : List Int := List.zipWith f a b

/-- `MulNew` / `MulRelinNew` / `Mul` of two ciphertexts -/
def mulOp (env : Env) (name : String) (relin : Bool) (a b : Opd) : M Opd := do
  log s!"{name}({showOpd env a},{showOpd env b})"
  let v := zipV (fun x y => redV env (x * y)) a.val b.val
  pure { level := min a.level b.level, scale := mulS env a.scale b.scale,
         deg := if relin then 1 else a.deg + b.deg, val := v }

def addCt (env : Env) (name : String) (sub : Bool) (a b : Opd) : M Opd := do
  log s!"{name}({showOpd env a},{showOpd env b})"
  let v := zipV (fun x y => redV env (if sub then x - y else x + y)) a.val b.val
  pure { level := min a.level b.level, scale := a.scale, deg := max a.deg b.deg, val := v }

def addConst (env : Env) (a : Opd) (c : List Int) : M Opd := do
  log s!"add({showOpd env a},c)"
  pure { a with val := zipV (fun x y => redV env (x + y)) a.val c }

/-- `MulThenAdd(x, coefficient, res)` with a scalar or a slot vector: the accumulator is resized to the
    larger of the two degrees and to the smaller of the two levels
    (`opOut.Resize(utils.Max(op0.Degree(), opOut.Degree()), level)`), its scale is unchanged. -/
def mulThenAddConst (env : Env) (x : Opd) (c : List Int) (res : Opd) : M Opd := do
  log s!"multhenadd({showOpd env x},c,{showOpd env res})"
  let v := zipV (fun r xc => redV env (r + xc)) res.val (zipV (· * ·) x.val c)
  pure { res with level := min res.level x.level, deg := max res.deg x.deg, val := v }

/-! ### power basis -/

mutual
/-- `PowerBasis.GenPower(n, lazy, eval)` -/
def genPowerTop (env : Env) : Nat → Nat → Bool → M Unit
  | 0, _, _ => throw "fuel"
  | fuel + 1, n, lazy => do
    if !(← hasP n) then
      let r ← genPowerRec env fuel n lazy
      if r then
        let o ← getP n
        setP n (← rescaleOp env o)

/-- `PowerBasis.genPower(n, lazy, rescale, eval)`; returns `rescaleOut` -/
def genPowerRec (env : Env) : Nat → Nat → Bool → M Bool
  | 0, _, _ => throw "fuel"
  | fuel + 1, n, lazy => do
    if ← hasP n then return false
    if n = 0 then throw "panic"                  -- SplitDegree(0) panics
    let (a, b) := splitDegree n
    let p2 := isPow2 n
    let rA ← genPowerRec env fuel a (lazy && !p2)
    let rB ← genPowerRec env fuel b (lazy && !p2)
    if lazy then
      if (← getP a).deg == 2 then setP a (← relinOp env (← getP a))
      if (← getP b).deg == 2 then setP b (← relinOp env (← getP b))
      if rA then setP a (← rescaleOp env (← getP a))
      if rB then setP b (← rescaleOp env (← getP b))
      setP n (← mulOp env "mulnew" false (← getP a) (← getP b))
    else
      if rA then setP a (← rescaleOp env (← getP a))
      if rB then setP b (← rescaleOp env (← getP b))
      setP n (← mulOp env "mulrelinnew" true (← getP a) (← getP b))
    if env.cheb then
      let c := if a ≥ b then a - b else b - a
      let o ← getP n
      setP n (← addCt env "add" false o o)
      if c = 0 then
        let o ← getP n
        log s!"add({showOpd env o},c)"
        setP n { o with val := o.val.map fun x => redV env (x - 1) }
      else
        genPowerTop env fuel c lazy
        setP n (← addCt env "sub" true (← getP n) (← getP c))
    return true
end

/-! ### the simulated evaluation (levels and scales of the sub-polynomials) -/

structure SimOpd where
  level : Int
  scale : Nat

/-- `SimPowerBasis.GenPower(n)`: every call recomputes `d[n] = Rescale(MulNew(d[a], d[b]))` -/
def simGenPower (env : Env) : Nat → Nat → List (Nat × SimOpd) → List (Nat × SimOpd)
  | 0, _, d => d
  | fuel + 1, n, d =>
    if n < 2 then d
    else
      let (a, b) := splitDegree n
      let d := simGenPower env fuel a d
      let d := simGenPower env fuel b d
      match d.find? (·.1 == a), d.find? (·.1 == b) with
      | some (_, oa), some (_, ob) =>
        let lvl := min oa.level ob.level
        let sc := mulS env oa.scale ob.scale
        (n, { level := lvl - 1, scale := divS env sc (qAt env lvl) }) :: d.filter (·.1 != n)
      | _, _ => d

/-- a sub-polynomial of the decomposition (one per polynomial of the vector: `coeffs` is the list of
    coefficient lists) with the bookkeeping of `polynomial.Polynomial` -/
structure SubPoly where
  coeffs : List (List Int)
  maxDeg : Nat
  lead : Bool
  level : Int := 0
  scale : Nat := 0

def SubPoly.degree (p : SubPoly) : Nat := (p.coeffs.headD []).length - 1

/-- `Polynomial.Factorize(n)` on every polynomial of the vector -/
def SubPoly.factorize (env : Env) (p : SubPoly) (n : Nat) : SubPoly × SubPoly :=
  let qs := p.coeffs.map fun c => (PolyEval.factorize intOps env.cheb n c).1
  let rs := p.coeffs.map fun c => (PolyEval.factorize intOps env.cheb n c).2
  ({ coeffs := qs, maxDeg := p.maxDeg, lead := p.lead },
   { coeffs := rs, lead := false,
     maxDeg := if p.maxDeg == p.degree then n - 1 else p.maxDeg - (p.degree - n + 1) })

/-- `recursePS`; `none` = run-time panic (missing power, scale check) -/
def recursePS (env : Env) (pb : List (Nat × SimOpd)) :
    Nat → Nat → Int → SubPoly → Nat → Option (List SubPoly × SimOpd)
  | 0, _, _, _, _ => none
  | fuel + 1, logSplit, targetLevel, p, outScale =>
    if p.degree < 2 ^ logSplit then
      if p.lead && logSplit > 1 && p.maxDeg > 2 ^ bitLen p.maxDeg - 2 ^ (logSplit - 1) then
        recursePS env pb fuel (optimalSplit (bitLen p.degree)) targetLevel p outScale
      else
        -- UpdateLevelAndScaleBabyStep
        let sc := if p.lead then mulS env outScale (qAt env targetLevel) else outScale
        some ([{ p with level := targetLevel, scale := sc }], { level := targetLevel, scale := sc })
    else
      let np := nextPower logSplit p.degree
      match pb.find? (·.1 == np) with
      | none => none
      | some (_, xpow) =>
        let (cq, cr) := p.factorize env np
        -- UpdateLevelAndScaleGiantStep
        let qi := if p.lead then qAt env targetLevel else qAt env (targetLevel + 1)
        let tScaleNew := mulS env (divS env outScale xpow.scale) qi
        match recursePS env pb fuel logSplit (targetLevel + 1) cq tScaleNew with
        | none => none
        | some (bq, res) =>
          -- Rescale(res); res = MulNew(res, XPow)
          let res1 : SimOpd := { level := res.level - 1, scale := divS env res.scale (qAt env res.level) }
          let res2 : SimOpd := { level := min res1.level xpow.level, scale := mulS env res1.scale xpow.scale }
          match recursePS env pb fuel logSplit targetLevel cr res2.scale with
          | none => none
          | some (br, tmp) => if tmp.scale != res2.scale then none else some (bq ++ br, res2)

/-! ### baby steps and giant steps -/

/-- slot-wise coefficient `k` of a vector of polynomials under a mapping (`GetVectorCoefficient`;
    without mapping: the single coefficient in every slot) -/
def coeffVec (env : Env) (mapping : Option (List (List Nat))) (coeffs : List (List Int)) (k : Nat) : List Int :=
  match mapping with
  | none => List.replicate env.slots ((coeffs.headD []).getD k 0)
  | some m =>
    (List.range env.slots).map fun j =>
      -- later polynomials overwrite earlier ones on a shared slot
      ((m.zip coeffs).foldl (fun acc mc => if mc.1.contains j then mc.2.getD k 0 else acc) 0)

/-- `EvaluatePolynomialVectorFromPowerBasis` (flags `IsEven = IsOdd = true`: every coefficient used) -/
def evalFromPowerBasis (env : Env) (mapping : Option (List (List Nat))) (targetLevel : Int)
    (p : SubPoly) (targetScale : Nat) : M Opd := do
  let deg := p.degree
  let st ← get
  let maxCtDeg := (List.range (deg + 1)).foldl (fun acc i =>
    if i = 0 then acc else match st.pb.find? (·.1 == i) with
      | some (_, o) => max acc o.deg
      | none => acc) 0
  let zero := List.replicate env.slots (0 : Int)
  if deg = 0 then
    let res : Opd := { level := targetLevel, scale := targetScale, deg := 1, val := zero }
    addConst env res (coeffVec env mapping p.coeffs 0)
  else
    let mut res : Opd := { level := targetLevel, scale := targetScale, deg := maxCtDeg, val := zero }
    res ← addConst env res (coeffVec env mapping p.coeffs 0)
    for i in [0:deg] do
      let key := deg - i
      let x ← getP key
      res ← mulThenAddConst env x (coeffVec env mapping p.coeffs key) res
    pure res

/-- `EvaluateMonomial(a, b, xpow)`: `b = Rescale(Relin(b)) * xpow + a` -/
def evalMonomial (env : Env) (a b xpow : Opd) : M Opd := do
  let mut b := b
  if b.deg == 2 then b ← relinOp env b
  b ← rescaleOp env b
  b ← mulOp env "mul" false b xpow
  if env.t != 0 && a.scale != b.scale then throw "err"
  addCt env "add" false b a

/-- one pass of the giant-step loop over `(degree, value)` pairs (ascending position).  The
    `giantsteps` marks are computed from the degrees before the pass: two neighbours of equal degree
    `d` are combined into `(2·2^{bitLen d} − 1, odd·X^{2^{bitLen d}} + even)`; an unpaired LAST element
    takes the (already updated) degree of its predecessor.  `prev` = that predecessor's degree. -/
def giantPass (env : Env) : Nat → Option Nat → List (Nat × Opd) → M (List (Nat × Opd))
  | 0, _, l => pure l
  | _, _, [] => pure []
  | _, prev, [(d, v)] => pure [(prev.getD d, v)]
  | fuel + 1, _, (d0, v0) :: (d1, v1) :: rest => do
    if d0 == d1 then
      let dg := 2 ^ bitLen d0
      let xp ← getP dg
      let b ← evalMonomial env v0 v1 xp
      let tl ← giantPass env fuel (some (2 * dg - 1)) rest
      pure ((2 * dg - 1, b) :: tl)
    else
      let tl ← giantPass env fuel (some d0) ((d1, v1) :: rest)
      pure ((d0, v0) :: tl)

def giantLoop (env : Env) : Nat → List (Nat × Opd) → M (List (Nat × Opd))
  | 0, l => pure l
  | fuel + 1, l => do
    if l.length ≤ 1 then pure l
    else
      let l' ← giantPass env (l.length + 1) none l
      giantLoop env fuel l'

/-- `Evaluator.Evaluate` on a fresh power basis holding the input at index 1 -/
def evaluate (env : Env) (polys : List (List Int)) (mapping : Option (List (List Nat)))
    (lazy : Bool) (inLevel : Nat) (inScale targetScale : Nat) (x : List Int) : M Opd := do
  let deg := (polys.headD []).length - 1
  setP 1 { level := inLevel, scale := inScale, deg := 1, val := x }
  -- a constant polynomial consumes no level: the encoding of its coefficient at the target scale
  if deg = 0 then
    return ← evalFromPowerBasis env mapping inLevel { coeffs := polys, maxDeg := 0, lead := true } targetScale
  -- depth check
  if inLevel < depthCheck deg then throw "err"
  let logDegree := bitLen deg
  let logSplit := optimalSplit logDegree
  genPowerTop env (2 * deg + 8) (2 ^ (logDegree - 1)) false
  for k in [0:2 ^ logSplit] do
    let i := 2 ^ logSplit - 1 - k
    if i > 2 then genPowerTop env (2 * deg + 8) i lazy
  -- simulation
  let spb0 : List (Nat × SimOpd) := [(1, { level := inLevel, scale := inScale })]
  let spb1 := simGenPower env (2 * deg + 8) (2 ^ logDegree) spb0
  let spb := (List.range (2 ^ logSplit)).foldl (fun d k =>
    let i := 2 ^ logSplit - 1 - k
    if i > 2 then simGenPower env (2 * deg + 8) i d else d) spb1
  let p0 : SubPoly := { coeffs := polys, maxDeg := deg, lead := true }
  match recursePS env spb (2 * deg + 8) logSplit ((inLevel : Int) - polynomialDepth deg) p0 targetScale with
  | none => throw "panic"
  | some (subs, _) =>
    -- baby steps: babySteps[split-i-1] = EvaluateBabyStep(i)
    let mut bs : List (Nat × Opd) := []
    for sp in subs do
      let v ← evalFromPowerBasis env mapping sp.level sp sp.scale
      bs := (sp.degree, v) :: bs
    let fin ← giantLoop env (subs.length + 2) bs
    match fin with
    | [(_, v)] =>
      let v ← if v.deg == 2 then relinOp env v else pure v
      rescaleOp env v
    | _ => throw "panic"

/-- run: `(trace, status, final operand)`; the trace survives an error -/
def run (env : Env) (polys : List (List Int)) (mapping : Option (List (List Nat)))
    (lazy : Bool) (inLevel : Nat) (inScale targetScale : Nat) (x : List Int) :
    List String × String × Option Opd :=
  let (r, st) := (ExceptT.run (evaluate env polys mapping lazy inLevel inScale targetScale x)).run ({} : St)
  match r with
  | .ok o => (st.tr, "ok", some o)
  | .error e => (st.tr, e, none)

end Lattigo.Model.PolyEval
