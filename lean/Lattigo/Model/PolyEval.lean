/-
  C13 — homomorphic polynomial evaluation: executable model of

    circuits/common/polynomial/power_basis.go          : SplitDegree, GenPower, genPower
    circuits/common/polynomial/polynomial.go           : Polynomial.Factorize, PatersonStockmeyerPolynomial, recursePS
    circuits/common/polynomial/polynomial_evaluator.go : Evaluate, EvaluatePatersonStockmeyerPolynomialVector,
                                                         EvaluateBabyStep, EvaluateGianStep, EvaluateMonomial,
                                                         EvaluatePolynomialVectorFromPowerBasis
    circuits/common/polynomial/polynomial_evaluator_sim.go, circuits/{bgv,ckks}/polynomial/polynomial_evaluator_sim.go
    utils/bignum/polynomial.go                         : OptimalSplit, Factorize, Depth

  Two layers.
  (A) The ALGEBRA over an abstract value carrier (`ValOps R`): `powVal` (what the power basis holds),
      `factorize`/`factorizeF` (with user-set IsOdd/IsEven), `psRec` (Paterson–Stockmeyer recursion),
      `evalBasis` (the specification); at the end of the file the bookkeeping of the composite circuits
      (`normIters`, `goldschmidt`, `normStep`) and of the Chebyshev change of basis (`changeOfBasis8`,
      `changeOfBasisVec8`, `chebEval`).
  (B) The MACHINE: the evaluator as a state machine over operands carrying (level, scale mod t,
      ciphertext degree, slot values) and emitting the ordered trace of scheme-evaluator calls; modes:
      standard / scale-invariant (`Env.inv`), user-set flags (`Env.odd/even`), a fresh basis (`run`) or one
      the caller filled (`runFrom`, `PreOp`).  The driver runs (B) and (A) on the same input; the harness
      compares the trace and the final level/scale/values with the real code, and the value of (A) with the
      decrypted result.  The functions are written without join points (explicit `else`, helper functions,
      projections instead of tuple patterns) so that `Proofs/PolyEvalSim.lean` can follow them.
  Scales are exact modulo t (bgv).  For ckks (`t = 0`) the machine tracks levels and degrees only, with ONE
  level per rescaling (the real scales are 128-bit floats divided by non-dyadic primes, and
  `LevelsConsumedPerRescaling = 2` parameter sets are probed, not modelled).
  Core Lean only.
-/
namespace Lattigo.Model.PolyEval

/-! ## small arithmetic -/

/-- `bits.Len64(n)` -/
def bitLen (n : Nat) : Nat := if n = 0 then 0 else Nat.log2 n + 1

/-- `bignum.OptimalSplit(logDegree)` (Go `int` arithmetic; the subtractions can go negative) -/
def optimalSplit (logDegree : Nat) : Nat :=
  let ls := logDegree / 2
  let a : Int := (2 : Int) ^ ls + (2 : Int) ^ (logDegree - ls) + logDegree - ls - 3
  let b : Int := (2 : Int) ^ (ls + 1) + (if logDegree - ls ≥ 1 then (2 : Int) ^ (logDegree - ls - 1) else 0)
      + logDegree - ls - 4
  if a > b then ls + 1 else ls

/-- `n & (n-1) == 0` for `n ≥ 1` -/
def isPow2 (n : Nat) : Bool := n != 0 && 2 ^ Nat.log2 n == n

/-- `SplitDegree(n)` (`n ≥ 1`): the two exponents whose powers are multiplied to obtain power `n`.
    (The Go comment says `a * b = n`; the code computes `a + b = n`.) -/
def splitDegree (n : Nat) : Nat × Nat :=
  if isPow2 n then (n / 2, n / 2)
  else
    let k := bitLen (n - 1) - 1
    (2 ^ k - 1, n + 1 - 2 ^ k)

/-- `bignum.Polynomial.Depth()`: `int(math.Ceil(math.Log2(float64(degree))))` for `degree ≥ 1` -/
def depthCheck (degree : Nat) : Nat := if degree ≤ 1 then 0 else Nat.log2 (degree - 1) + 1

/-- `simEvaluator.PolynomialDepth(degree)`: `bits.Len64(degree) - 1` (non-invariant, one level per rescaling) -/
def polynomialDepth (degree : Nat) : Nat := bitLen degree - 1

/-! ## (A) the algebra -/

structure ValOps (R : Type) where
  add : R → R → R
  sub : R → R → R
  mul : R → R → R
  ofNat : Nat → R

/-- the value `genPower` stores at index `n` (`n ≥ 1`): the product of the values at `SplitDegree(n)`,
    and for the Chebyshev basis `2·C_a·C_b − C_{|a−b|}` (`C_0 = 1`).  First argument: fuel. -/
def powVal {R : Type} (O : ValOps R) (cheb : Bool) (x : R) : Nat → Nat → R
  | 0, _ => O.ofNat 0
  | fuel + 1, n =>
    if n = 0 then O.ofNat 1
    else if n = 1 then x
    else
      let (a, b) := splitDegree n
      let pa := powVal O cheb x fuel a
      let pb := powVal O cheb x fuel b
      if cheb then
        let c := if a ≥ b then a - b else b - a
        O.sub (O.mul (O.ofNat 2) (O.mul pa pb)) (powVal O cheb x fuel c)
      else O.mul pa pb

/-- `Σ_i c_i · B_{k+i}(x)` over the coefficient list, with `B_i = X^i` resp. `T_i` taken from `powVal` -/
def evalFrom {R : Type} (O : ValOps R) (cheb : Bool) (x : R) : Nat → List R → R
  | _, [] => O.ofNat 0
  | k, c :: cs => O.add (O.mul c (powVal O cheb x (k + 1) k)) (evalFrom O cheb x (k + 1) cs)

/-- the specification: `p(x) = Σ_i c_i · B_i(x)` -/
def evalBasis {R : Type} (O : ValOps R) (cheb : Bool) (x : R) (coeffs : List R) : R :=
  evalFrom O cheb x 0 coeffs

/-- `bignum.Polynomial.Factorize(n)`, all coefficients present, flags `IsOdd = IsEven` (the
    constructor's default, under which no coefficient is skipped): `p = q·B_n + r`.
    Monomial: `q = p[n:]`, `r = p[:n]`.  Chebyshev: `q_0 = p_n`, `q_j = 2·p_{n+j}`,
    `r_{n-j} -= p_{n+j}` for `j ≥ 1`. -/
def factorize {R : Type} (O : ValOps R) (cheb : Bool) (n : Nat) (p : List R) : List R × List R :=
  if !cheb then (p.drop n, p.take n)
  else
    let hi := p.drop n
    let q := match hi with
      | [] => []
      | c :: cs => c :: cs.map fun x => O.mul (O.ofNat 2) x
    let r := (List.range n).map fun i =>
      let base := p.getD i (O.ofNat 0)
      -- i = n - j  ⇒  j = n - i, source index n + j = 2n - i
      if 2 * n - i < p.length ∧ n - i ≥ 1 then O.sub base (p.getD (2 * n - i) (O.ofNat 0)) else base
    (q, r)

/-- the guard of `bignum.Polynomial.Factorize(n)`: `if n < (p.Degree()+1)>>1 { panic }` -/
def factorizeGuard (n : Nat) (len : Nat) : Bool := n < (len - 1 + 1) / 2

/-- the coefficient filter of `Factorize` / `EvaluatePolynomialVectorFromPowerBasis` under the flags
    `IsOdd`, `IsEven`: `!(even || odd) || (i&1 == 0 && even) || (i&1 == 1 && odd)` -/
def useIdx (odd even : Bool) (i : Nat) : Bool :=
  !(even || odd) || (i % 2 == 0 && even) || (i % 2 == 1 && odd)

/-- `bignum.Polynomial.Factorize(n)` under flags `IsOdd`, `IsEven` as the user may set them.  With
    `IsOdd = IsEven` (both set: the constructor's default; both cleared) no coefficient is skipped: this
    is `factorize`.  With exactly one flag the coefficients `p_i`, `i > n`, of the other parity are
    skipped: the quotient entry stays absent (read as 0) and the Chebyshev remainder is not corrected. -/
def factorizeF {R : Type} (O : ValOps R) (cheb odd even : Bool) (n : Nat) (p : List R) : List R × List R :=
  if odd == even then factorize O cheb n p
  else
    let z := O.ofNat 0
    let hi := p.drop n
    let q := match hi with
      | [] => []
      | c :: cs => c :: (List.range cs.length).map fun j =>
          -- entry j+1 of the quotient comes from p_{n+j+1}
          if useIdx odd even (n + j + 1) then
            (if cheb then O.mul (O.ofNat 2) (cs.getD j z) else cs.getD j z)
          else z
    let r := if !cheb then p.take n else (List.range n).map fun i =>
      let base := p.getD i z
      if 2 * n - i < p.length ∧ n - i ≥ 1 ∧ useIdx odd even (2 * n - i) = true then O.sub base (p.getD (2 * n - i) z) else base
    (q, r)

/-- the split power chosen by `recursePS`: `nextPower = 1 << logSplit; for nextPower < (deg>>1)+1 { <<= 1 }` -/
def nextPowerLoop (deg : Nat) : Nat → Nat → Nat
  | 0, np => np
  | fuel + 1, np => if np < deg / 2 + 1 then nextPowerLoop deg fuel (2 * np) else np

def nextPower (logSplit deg : Nat) : Nat := nextPowerLoop deg (deg + 1) (2 ^ logSplit)

/-- Paterson–Stockmeyer recursion on values: sub-polynomials of degree `< 2^logSplit` are evaluated
    directly on the power basis (baby steps), the others as `q(x)·B_{nextPower}(x) + r(x)`. -/
def psRec {R : Type} (O : ValOps R) (cheb : Bool) (logSplit : Nat) (x : R) : Nat → List R → R
  | 0, p => evalBasis O cheb x p
  | fuel + 1, p =>
    let deg := p.length - 1
    if deg < 2 ^ logSplit then evalBasis O cheb x p
    else
      let np := nextPower logSplit deg
      let (q, r) := factorize O cheb np p
      O.add (O.mul (psRec O cheb logSplit x fuel q) (powVal O cheb x (np + 1) np))
            (psRec O cheb logSplit x fuel r)

/-- the integer instance the driver runs -/
def intOps : ValOps Int := { add := (· + ·), sub := (· - ·), mul := (· * ·), ofNat := fun n => (n : Int) }

/-! ## (B) the machine -/

structure Env where
  t : Nat              -- plaintext modulus; 0 = ckks (scales and values untracked)
  q : List Nat         -- q_l mod t, l = 0..L  (bgv)
  cheb : Bool
  slots : Nat
  /-- `bgv.Evaluator.ScaleInvariant` (BFV-style tensoring: `Rescale` is a no-op, no level is consumed) -/
  inv : Bool := false
  /-- the flags `IsOdd`, `IsEven` of the polynomial(s) as the evaluator sees them (the constructor sets
      both; a user may clear one — or both) -/
  odd : Bool := true
  even : Bool := true
  /-- the RAW flags `(IsOdd, IsEven)` of each polynomial of a vector, in order (what each polynomial's own
      `Factorize` reads); empty: every polynomial carries `(odd, even)`.  For a vector `odd`/`even` above are
      `vecFlags pflags`: the parities at least one member uses (`PolynomialVector.IsOdd/IsEven`). -/
  pflags : List (Bool × Bool) := []

structure Opd where
  level : Int
  scale : Nat
  deg : Nat
  val : List Int
  deriving Inhabited

structure St where
  pb : List (Nat × Opd) := []
  tr : List String := []

abbrev M := ExceptT String (StateM St)

/-- square-and-multiply over the 64 bits of the exponent (`ring.ModExp`): `fuel` bits left, accumulator
    `r`, current power `b`, remaining exponent `k` -/
def modExpLoop (t : Nat) : Nat → Nat → Nat → Nat → Nat
  | 0, r, _, _ => r
  | fuel + 1, r, b, k => modExpLoop t fuel (if k % 2 = 1 then r * b % t else r) (b * b % t) (k / 2)

def modExp (t : Nat) (x e : Nat) : Nat := modExpLoop t 64 (1 % t) (x % t) e

def invMod (t x : Nat) : Nat := modExp t x (t - 2)

def mulS (env : Env) (a b : Nat) : Nat := if env.t = 0 then 0 else a * b % env.t
def divS (env : Env) (a b : Nat) : Nat := if env.t = 0 then 0 else a * invMod env.t b % env.t
def qAt (env : Env) (l : Int) : Nat := if l < 0 then 0 else env.q.getD l.toNat 0

/-- `T - (Q_level mod T)` with `Q_level = q_0 ⋯ q_level` (`MulScaleInvariant`, `UpdateLevelAndScaleGiantStep`),
    as a scale, i.e. modulo `t` -/
def negQ (env : Env) (l : Int) : Nat :=
  if env.t = 0 ∨ l < 0 then 0
  else (env.t - ((env.q.take (l.toNat + 1)).foldl (fun acc x => acc * x % env.t) (1 % env.t))) % env.t

/-- scale of a ciphertext–ciphertext product at level `l`: the product, divided by `-Q_l` in the
    scale-invariant mode -/
def mulScale (env : Env) (a b : Nat) (l : Int) : Nat :=
  if env.inv then divS env (mulS env a b) (negQ env l) else mulS env a b

def redV (env : Env) (x : Int) : Int := if env.t = 0 then 0 else x % (env.t : Int)

def showOpd (env : Env) (o : Opd) : String :=
  if env.t = 0 then s!"{o.level}" else s!"{o.level}:{o.scale}"

def log (s : String) : M Unit := modify fun st => { st with tr := st.tr ++ [s] }

def getP (n : Nat) : M Opd := do
  match (← get).pb.find? (·.1 == n) with
  | some (_, o) => pure o
  | none => throw "panic"                 -- nil ciphertext dereference

def hasP (n : Nat) : M Bool := do pure (((← get).pb.find? (·.1 == n)).isSome)

def setP (n : Nat) (o : Opd) : M Unit :=
  modify fun st => { st with pb := (n, o) :: st.pb.filter (·.1 != n) }

/-- `eval.Rescale(ct, ct)`: error at level 0; a no-op (that cannot fail) in the scale-invariant mode -/
def rescaleOp (env : Env) (o : Opd) : M Opd := do
  log s!"rescale({showOpd env o})"
  if env.inv then pure o
  else
    if o.level ≤ 0 then throw "err"
    pure { o with level := o.level - 1, scale := divS env o.scale (qAt env o.level) }

def relinOp (env : Env) (o : Opd) : M Opd := do
  log s!"relin({showOpd env o})"
  pure { o with deg := 1 }

def zipV (f : Int → Int → Int) (a b : List Int) : List Int := List.zipWith f a b

/-- `MulNew` / `MulRelinNew` / `Mul` of two ciphertexts; the first one must have degree at least 1 (the
    accumulator `EvaluatePolynomialVectorFromPowerBasis` allocates for a one-coefficient polynomial flagged
    even-and-not-odd has degree 0) -/
def mulOp (env : Env) (name : String) (relin : Bool) (a b : Opd) : M Opd := do
  log s!"{name}({showOpd env a},{showOpd env b})"
  -- "op0 must be of degree at least 1 (a plaintext operand is expected as op1)"
  if a.deg = 0 && env.t != 0 then throw "err"       -- bgv only: ckks multiplies a degree-0 operand
  -- "op0 and op1 total degree cannot exceed 2" (a power the caller generated lazily and left at degree 2)
  if a.deg + b.deg > 2 then throw "err"
  let v := zipV (fun x y => redV env (x * y)) a.val b.val
  pure { level := min a.level b.level, scale := mulScale env a.scale b.scale (min a.level b.level),
         deg := if relin then 1 else a.deg + b.deg, val := v }

def addCt (env : Env) (name : String) (sub : Bool) (a b : Opd) : M Opd := do
  log s!"{name}({showOpd env a},{showOpd env b})"
  let v := zipV (fun x y => redV env (if sub then x - y else x + y)) a.val b.val
  pure { level := min a.level b.level, scale := a.scale, deg := max a.deg b.deg, val := v }

def addConst (env : Env) (a : Opd) (c : List Int) : M Opd := do
  log s!"add({showOpd env a},c)"
  pure { a with val := zipV (fun x y => redV env (x + y)) a.val c }

/-- `MulThenAdd(x, coefficient, res)` with a scalar or a slot vector: the accumulator is resized to the
    larger of the two degrees and to the smaller of the two levels
    (`opOut.Resize(utils.Max(op0.Degree(), opOut.Degree()), level)`), its scale is unchanged. -/
def mulThenAddConst (env : Env) (x : Opd) (c : List Int) (res : Opd) : M Opd := do
  log s!"multhenadd({showOpd env x},c,{showOpd env res})"
  let v := zipV (fun r xc => redV env (r + xc)) res.val (zipV (· * ·) x.val c)
  pure { res with level := min res.level x.level, deg := max res.deg x.deg, val := v }

/-! ### power basis -/

/-- `if p.Value[n].Degree() == 2 { eval.Relinearize(p.Value[n], p.Value[n]) }` -/
def relinIf2 (env : Env) (n : Nat) : M Unit := do
  let o ← getP n
  if o.deg == 2 then do
    let o' ← relinOp env o
    setP n o'
  else pure ()

/-- `if rescale { eval.Rescale(p.Value[n], p.Value[n]) }` -/
def rescaleIf (env : Env) (r : Bool) (n : Nat) : M Unit :=
  if r then do
    let o ← getP n
    let o' ← rescaleOp env o
    setP n o'
  else pure ()

/-- `p.Value[n] = eval.MulNew / MulRelinNew(p.Value[a], p.Value[b])` -/
def mulInto (env : Env) (name : String) (relin : Bool) (a b n : Nat) : M Unit := do
  let oa ← getP a
  let ob ← getP b
  let o ← mulOp env name relin oa ob
  setP n o

mutual
/-- `PowerBasis.GenPower(n, lazy, eval)` -/
def genPowerTop (env : Env) : Nat → Nat → Bool → M Unit
  | 0, _, _ => throw "fuel"
  | fuel + 1, n, lazy => do
    let c ← hasP n
    if c then pure ()
    else do
      let r ← genPowerRec env fuel n lazy
      rescaleIf env r n

/-- `PowerBasis.genPower(n, lazy, rescale, eval)`; returns `rescaleOut` -/
def genPowerRec (env : Env) : Nat → Nat → Bool → M Bool
  | 0, _, _ => throw "fuel"
  | fuel + 1, n, lazy => do
    let c ← hasP n
    if c then pure false
    else if n = 0 then throw "panic"                  -- SplitDegree(0) panics
    else do
      let a := (splitDegree n).1
      let b := (splitDegree n).2
      let p2 := isPow2 n
      let rA ← genPowerRec env fuel a (lazy && !p2)
      let rB ← genPowerRec env fuel b (lazy && !p2)
      (if lazy then do
        relinIf2 env a
        relinIf2 env b
        rescaleIf env rA a
        rescaleIf env rB b
        mulInto env "mulnew" false a b n
      else do
        rescaleIf env rA a
        rescaleIf env rB b
        mulInto env "mulrelinnew" true a b n)
      -- Chebyshev: C_n = 2·C_a·C_b − C_{|a−b|}
      (if env.cheb then do
        let c := if a ≥ b then a - b else b - a
        let o ← getP n
        let o2 ← addCt env "add" false o o
        setP n o2
        (if c = 0 then do
          let o ← getP n
          log s!"add({showOpd env o},c)"
          setP n { o with val := o.val.map fun x => redV env (x - 1) }
        else do
          genPowerTop env fuel c lazy
          let on ← getP n
          let oc ← getP c
          let o3 ← addCt env "sub" true on oc
          setP n o3)
      else pure ())
      pure true
end

/-! ### the simulated evaluation (levels and scales of the sub-polynomials) -/

structure SimOpd where
  level : Int
  scale : Nat

/-- `simEvaluator.Rescale`: one level and the prime `q_level`; nothing in the scale-invariant mode -/
def simRescale (env : Env) (o : SimOpd) : SimOpd :=
  if env.inv then o else { level := o.level - 1, scale := divS env o.scale (qAt env o.level) }

/-- `simEvaluator.MulNew` -/
def simMul (env : Env) (a b : SimOpd) : SimOpd :=
  { level := min a.level b.level, scale := mulScale env a.scale b.scale (min a.level b.level) }

/-- `SimPowerBasis.GenPower(n)`: every call recomputes `d[n] = Rescale(MulNew(d[a], d[b]))` -/
def simGenPower (env : Env) : Nat → Nat → List (Nat × SimOpd) → List (Nat × SimOpd)
  | 0, _, d => d
  | fuel + 1, n, d =>
    if n < 2 then d
    else
      let a := (splitDegree n).1
      let b := (splitDegree n).2
      let d := simGenPower env fuel a d
      let d := simGenPower env fuel b d
      match d.find? (·.1 == a), d.find? (·.1 == b) with
      | some (_, oa), some (_, ob) =>
        (n, simRescale env (simMul env oa ob)) :: d.filter (·.1 != n)
      | _, _ => d

/-- a sub-polynomial of the decomposition (one per polynomial of the vector: `coeffs` is the list of
    coefficient lists) with the bookkeeping of `polynomial.Polynomial` -/
structure SubPoly where
  coeffs : List (List Int)
  maxDeg : Nat
  lead : Bool
  level : Int := 0
  scale : Nat := 0

def SubPoly.degree (p : SubPoly) : Nat := (p.coeffs.headD []).length - 1

/-- `PolynomialVector.IsOdd()` / `IsEven()` from the members' raw flags `(IsOdd, IsEven)`: the odd- resp.
    even-indexed coefficients of AT LEAST ONE member have to be evaluated.  A member flagged odd-and-not-even has no
    even part, one flagged even-and-not-odd no odd part; any other flagging is a general polynomial. -/
def vecFlags (fl : List (Bool × Bool)) : Bool × Bool :=
  (fl.any fun f => f.1 || !f.2, fl.any fun f => f.2 || !f.1)

/-- the raw flags of polynomial `i` of the vector -/
def Env.flagsOf (env : Env) (i : Nat) : Bool × Bool := env.pflags.getD i (env.odd, env.even)

/-- `Polynomial.Factorize(n)` on every polynomial of the vector, each with its OWN flags -/
def SubPoly.factorize (env : Env) (p : SubPoly) (n : Nat) : SubPoly × SubPoly :=
  let qs := p.coeffs.mapIdx fun i c => (PolyEval.factorizeF intOps env.cheb (env.flagsOf i).1 (env.flagsOf i).2 n c).1
  let rs := p.coeffs.mapIdx fun i c => (PolyEval.factorizeF intOps env.cheb (env.flagsOf i).1 (env.flagsOf i).2 n c).2
  ({ coeffs := qs, maxDeg := p.maxDeg, lead := p.lead },
   { coeffs := rs, lead := false,
     maxDeg := if p.maxDeg == p.degree then n - 1 else p.maxDeg - (p.degree - n + 1) })

/-- `simEvaluator.PolynomialDepth(degree)` -/
def simDepth (env : Env) (degree : Nat) : Nat := if env.inv then 0 else polynomialDepth degree

/-- `UpdateLevelAndScaleBabyStep` (scale) -/
def babyScale (env : Env) (lead : Bool) (targetLevel : Int) (outScale : Nat) : Nat :=
  if !env.inv && lead then mulS env outScale (qAt env targetLevel) else outScale

/-- `UpdateLevelAndScaleGiantStep`: `(tLevelNew, tScaleNew)` -/
def giantLevelScale (env : Env) (lead : Bool) (targetLevel : Int) (outScale xpowScale : Nat) : Int × Nat :=
  let s := divS env outScale xpowScale
  if env.inv then (targetLevel, mulS env s (negQ env targetLevel))
  else (targetLevel + 1, mulS env s (if lead then qAt env targetLevel else qAt env (targetLevel + 1)))

/-- `recursePS`; `none` = run-time panic (missing power, scale check) -/
def recursePS (env : Env) (pb : List (Nat × SimOpd)) :
    Nat → Nat → Int → SubPoly → Nat → Option (List SubPoly × SimOpd)
  | 0, _, _, _, _ => none
  | fuel + 1, logSplit, targetLevel, p, outScale =>
    if p.degree < 2 ^ logSplit then
      if p.lead && logSplit > 1 && p.maxDeg > 2 ^ bitLen p.maxDeg - 2 ^ (logSplit - 1) then
        recursePS env pb fuel (optimalSplit (bitLen p.degree)) targetLevel p outScale
      else
        -- UpdateLevelAndScaleBabyStep
        let sc := babyScale env p.lead targetLevel outScale
        some ([{ p with level := targetLevel, scale := sc }], { level := targetLevel, scale := sc })
    else
      let np := nextPower logSplit p.degree
      match pb.find? (·.1 == np) with
      | none => none
      | some (_, xpow) =>
        let cq := (p.factorize env np).1
        let cr := (p.factorize env np).2
        let ls := giantLevelScale env p.lead targetLevel outScale xpow.scale
        match recursePS env pb fuel logSplit ls.1 cq ls.2 with
        | none => none
        | some (bq, res) =>
          -- Rescale(res); res = MulNew(res, XPow)
          let res2 := simMul env (simRescale env res) xpow
          match recursePS env pb fuel logSplit targetLevel cr res2.scale with
          | none => none
          | some (br, tmp) => if tmp.scale != res2.scale then none else some (bq ++ br, res2)

/-! ### baby steps and giant steps -/

/-- slot-wise coefficient `k` of a vector of polynomials under a mapping (`GetVectorCoefficient`;
    without mapping: the single coefficient in every slot) -/
def coeffVec (env : Env) (mapping : Option (List (List Nat))) (coeffs : List (List Int)) (k : Nat) : List Int :=
  match mapping with
  | none => List.replicate env.slots ((coeffs.headD []).getD k 0)
  | some m =>
    (List.range env.slots).map fun j =>
      -- later polynomials overwrite earlier ones on a shared slot
      ((m.zip coeffs).foldl (fun acc mc => if mc.1.contains j then mc.2.getD k 0 else acc) 0)

/-- `maximumCiphertextDegree`: the largest ciphertext degree among the stored powers `1..deg` -/
def maxCtDeg (pb : List (Nat × Opd)) (deg : Nat) : Nat :=
  (List.range (deg + 1)).foldl (fun acc i =>
    if i = 0 then acc else match pb.find? (·.1 == i) with
      | some (_, o) => max acc o.deg
      | none => acc) 0

/-- `EvaluatePolynomialVectorFromPowerBasis`.  The constant coefficient is added unless the polynomial is
    flagged odd-and-not-even (`even || !odd`); the powers `key = deg … 1` are used when `useIdx odd even key`. -/
def evalFromPowerBasis (env : Env) (mapping : Option (List (List Nat))) (targetLevel : Int)
    (p : SubPoly) (targetScale : Nat) : M Opd := do
  let deg := p.degree
  -- `len(Coeffs) - 1`, one less for an even (and not odd) polynomial with more than one coefficient
  let len1 : Int := ((p.coeffs.headD []).length : Int) - 1
  let minDeg : Int := if env.even && !env.odd && len1 > 0 then len1 - 1 else len1
  let st ← get
  let zero := List.replicate env.slots (0 : Int)
  if minDeg = 0 then
    let res : Opd := { level := targetLevel, scale := targetScale, deg := 1, val := zero }
    if env.even || !env.odd then addConst env res (coeffVec env mapping p.coeffs 0) else pure res
  else
    let res : Opd := { level := targetLevel, scale := targetScale, deg := maxCtDeg st.pb deg, val := zero }
    let res ← (if env.even || !env.odd then addConst env res (coeffVec env mapping p.coeffs 0) else pure res)
    (List.range deg).foldlM (fun res i => do
      let key := deg - i
      if useIdx env.odd env.even key then
        let x ← getP key
        mulThenAddConst env x (coeffVec env mapping p.coeffs key) res
      else pure res) res

/-- `EvaluateMonomial(a, b, xpow)`: `b = Rescale(Relin(b)) * xpow + a` -/
def evalMonomial (env : Env) (a b xpow : Opd) : M Opd := do
  let b1 ← (if b.deg == 2 then relinOp env b else pure b)
  let b2 ← rescaleOp env b1
  let b3 ← mulOp env "mul" false b2 xpow
  if env.t != 0 && a.scale != b3.scale then throw "err"
  else addCt env "add" false b3 a

/-- one pass of the giant-step loop over `(degree, value)` pairs (ascending position).  The
    `giantsteps` marks are computed from the degrees before the pass: two neighbours of equal degree
    `d` are combined into `(2·2^{bitLen d} − 1, odd·X^{2^{bitLen d}} + even)`; an unpaired LAST element
    takes the (already updated) degree of its predecessor.  `prev` = that predecessor's degree. -/
def giantPass (env : Env) : Nat → Option Nat → List (Nat × Opd) → M (List (Nat × Opd))
  | 0, _, l => pure l
  | _, _, [] => pure []
  | _, prev, [(d, v)] => pure [(prev.getD d, v)]
  | fuel + 1, _, (d0, v0) :: (d1, v1) :: rest => do
    if d0 == d1 then
      let dg := 2 ^ bitLen d0
      let xp ← getP dg
      let b ← evalMonomial env v0 v1 xp
      let tl ← giantPass env fuel (some (2 * dg - 1)) rest
      pure ((2 * dg - 1, b) :: tl)
    else
      let tl ← giantPass env fuel (some d0) ((d1, v1) :: rest)
      pure ((d0, v0) :: tl)

def giantLoop (env : Env) : Nat → List (Nat × Opd) → M (List (Nat × Opd))
  | 0, l => pure l
  | fuel + 1, l => do
    if l.length ≤ 1 then pure l
    else
      let l' ← giantPass env (l.length + 1) none l
      giantLoop env fuel l'

/-- the powers `Evaluate` generates: `GenPower(2^i, false)` for `i = 1 … logDegree-1`, then `GenPower(i, lazy)` for
    `i = 2^logSplit - 1 … 3` of the parities selected by the flags -/
def genPowers (env : Env) (deg : Nat) (lazy : Bool) : M Unit := do
  let logDegree := bitLen deg
  let logSplit := optimalSplit logDegree
  -- the powers of two X^2 … X^(2^(logDegree-1)), one by one (a caller's basis may hold X^4 without X^2)
  (List.range (logDegree - 1)).forM fun i => genPowerTop env (2 * deg + 8) (2 ^ (i + 1)) false
  (List.range (2 ^ logSplit)).forM fun k => do
    let i := 2 ^ logSplit - 1 - k
    if i > 2 && useIdx env.odd env.even i then genPowerTop env (2 * deg + 8) i lazy

/-- the simulated power basis of `PatersonStockmeyerPolynomial` (every power, whatever the flags) -/
def simPowers (env : Env) (deg : Nat) (inLevel : Int) (inScale : Nat) : List (Nat × SimOpd) :=
  let logDegree := bitLen deg
  let logSplit := optimalSplit logDegree
  let spb0 : List (Nat × SimOpd) := [(1, { level := inLevel, scale := inScale })]
  let spb1 := simGenPower env (2 * deg + 8) (2 ^ logDegree) spb0
  (List.range (2 ^ logSplit)).foldl (fun d k =>
    let i := 2 ^ logSplit - 1 - k
    if i > 2 then simGenPower env (2 * deg + 8) i d else d) spb1

/-- the final step of `EvaluatePatersonStockmeyerPolynomialVector` -/
def finish (env : Env) (fin : List (Nat × Opd)) : M Opd :=
  match fin with
  | [(_, v)] => do
    let v ← (if v.deg == 2 then relinOp env v else pure v)
    rescaleOp env v
  | _ => throw "panic"

/-- `EvaluatePatersonStockmeyerPolynomialVector`: baby steps (`babySteps[split-i-1] = EvaluateBabyStep(i)`),
    giant steps, final relinearisation and rescaling -/
def evalSubs (env : Env) (mapping : Option (List (List Nat))) (subs : List SubPoly) : M Opd := do
  let bs ← subs.foldlM (fun bs sp => do
    let v ← evalFromPowerBasis env mapping sp.level sp sp.scale
    pure ((sp.degree, v) :: bs)) []
  let fin ← giantLoop env (subs.length + 2) bs
  finish env fin

/-- `Evaluator.Evaluate` on the power basis of the state (which holds at least the input at index 1:
    a fresh basis for a ciphertext input, the caller's for `EvaluateFromPowerBasis`) -/
def evaluateFrom (env : Env) (polys : List (List Int)) (mapping : Option (List (List Nat)))
    (lazy : Bool) (targetScale : Nat) : M Opd := do
  let deg := (polys.headD []).length - 1
  let x1 ← getP 1
  let inLevel := x1.level
  -- a constant polynomial consumes no level: the encoding of its coefficient at the target scale
  if deg = 0 then
    evalFromPowerBasis env mapping inLevel { coeffs := polys, maxDeg := 0, lead := true } targetScale
  -- level check: `levelsConsumedPerRescaling·bits.Len64(degree)` (= ⌈log2(degree+1)⌉ rescalings), 0 levels per
  -- rescaling in the scale-invariant mode
  else if !env.inv && inLevel < bitLen deg then throw "err"
  else do
    genPowers env deg lazy
    let p0 : SubPoly := { coeffs := polys, maxDeg := deg, lead := true }
    match recursePS env (simPowers env deg inLevel x1.scale) (2 * deg + 8) (optimalSplit (bitLen deg))
        (inLevel - simDepth env deg) p0 targetScale with
    | none => throw "panic"
    | some r => evalSubs env mapping r.1

/-- `Evaluator.Evaluate` on a ciphertext: a fresh power basis holding the input at index 1 -/
def evaluate (env : Env) (polys : List (List Int)) (mapping : Option (List (List Nat)))
    (lazy : Bool) (inLevel : Nat) (inScale targetScale : Nat) (x : List Int) : M Opd := do
  setP 1 { level := inLevel, scale := inScale, deg := 1, val := x }
  evaluateFrom env polys mapping lazy targetScale

/-- run: `(trace, status, final operand)`; the trace survives an error -/
def run (env : Env) (polys : List (List Int)) (mapping : Option (List (List Nat)))
    (lazy : Bool) (inLevel : Nat) (inScale targetScale : Nat) (x : List Int) :
    List String × String × Option Opd :=
  let (r, st) := (ExceptT.run (evaluate env polys mapping lazy inLevel inScale targetScale x)).run ({} : St)
  match r with
  | .ok o => (st.tr, "ok", some o)
  | .error e => (st.tr, e, none)

/-! ### `EvaluateFromPowerBasis` on a basis the caller filled -/

/-- how the caller filled the basis before the call -/
inductive PreOp where
  /-- `pb.GenPower(n, lazy, eval)` -/
  | gen (n : Nat) (lazy : Bool)
  /-- `pb.Value[n] =` a fresh encryption of `x^n` at the given level and scale -/
  | fresh (n : Nat) (level : Nat) (scale : Nat)
  /-- `delete(pb.Value, n)` -/
  | del (n : Nat)

/-- slot-wise `x^n` (mod `t`) -/
def powV (env : Env) (x : List Int) (n : Nat) : List Int := x.map fun a => redV env (a ^ n)

def preFill (env : Env) (x : List Int) : List PreOp → M Unit
  | [] => pure ()
  | .gen n lazy :: rest => do genPowerTop env (2 * n + 8) n lazy; preFill env x rest
  | .fresh n level scale :: rest => do
    setP n { level := level, scale := scale, deg := 1, val := powV env x n }
    preFill env x rest
  | .del n :: rest => do
    modify fun st => { st with pb := st.pb.filter (·.1 != n) }
    preFill env x rest

/-- `EvaluateFromPowerBasis(pb, p, targetScale)`: the basis holds the input at index 1 and whatever
    `pre` put there; the trace is the one of the call itself -/
def runFrom (env : Env) (pre : List PreOp) (polys : List (List Int)) (mapping : Option (List (List Nat)))
    (lazy : Bool) (inLevel : Nat) (inScale targetScale : Nat) (x : List Int) :
    List String × String × Option Opd :=
  let m : M Opd := do
    setP 1 { level := inLevel, scale := inScale, deg := 1, val := x }
    preFill env x pre
    modify fun st => { st with tr := [] }
    evaluateFrom env polys mapping lazy targetScale
  let (r, st) := (ExceptT.run m).run ({} : St)
  match r with
  | .ok o => (st.tr, "ok", some o)
  | .error e => (st.tr, e, none)

/-! ### `PowerBasis.GenPower(n, lazy, eval)` on a fresh basis -/

/-- `pb := NewPowerBasis(ct, basis); pb.GenPower(n, lazy, eval)`: `(trace, status, stored powers sorted by index)` -/
def runGen (env : Env) (n : Nat) (lazy : Bool) (inLevel : Nat) (inScale : Nat) (x : List Int) :
    List String × String × List (Nat × Opd) :=
  let m : M Unit := do
    setP 1 { level := inLevel, scale := inScale, deg := 1, val := x }
    genPowerTop env (2 * n + 8) n lazy
  let (r, st) := (ExceptT.run m).run ({} : St)
  let pb := (List.range (n + 1)).filterMap fun k => (st.pb.find? (·.1 == k)).map fun e => (k, e.2)
  match r with
  | .ok _ => (st.tr, "ok", pb)
  | .error e => (st.tr, e, pb)

/-- the check of `lazy_genpower_degrees`: from a fresh basis at a level high enough, `GenPower(n, lazy)` succeeds —
    in particular no multiplication is refused for a total degree above 2, i.e. every stored power used as a factor
    was relinearised to degree 1 beforehand when it had degree 2 — and every stored power has degree at most 2 -/
def genPowerCheck (cheb : Bool) (n : Nat) (lazy : Bool) : Bool :=
  let r := runGen { t := 0, q := [], cheb := cheb, slots := 0 } n lazy 64 0 []
  r.2.1 == "ok" && r.2.2.all (fun e => e.2.deg ≤ 2) && (r.2.2.find? (·.1 == n)).isSome

/-! ## composite circuits and changes of basis: bookkeeping -/

/-- `inverse.IntervalNormalization`: the number of compression steps `n = ⌈log2max / log2(2.45)⌉` for
    `log2max = num/den`: the least `n` with `2.45^n ≥ 2^(num/den)`, i.e. `245^(n·den) ≥ 2^num · 100^(n·den)`
    (each step compresses by the factor `L = 2.45`; fewer steps leave values above the threshold of the
    last step, where `1 − (c·x)²` turns negative) -/
def normItersLoop (num den : Nat) : Nat → Nat → Nat
  | 0, n => n
  | fuel + 1, n =>
    if 245 ^ (n * den) ≥ 2 ^ num * 100 ^ (n * den) then n else normItersLoop num den fuel (n + 1)

def normIters (num den : Nat) : Nat := normItersLoop num den (num + 1) 0

/-- `bignum.Polynomial.ChangeOfBasis` for the Chebyshev interval `[a, b]`, times 8:
    `scalar = 2/(b-a)`, `constant = (-a-b)/(b-a)` (exact for the widths the harness uses: 1, 2, 4, 8) -/
def changeOfBasis8 (ab : Int × Int) : Int × Int := (16 / (ab.2 - ab.1), 8 * (-ab.1 - ab.2) / (ab.2 - ab.1))

/-- `PolynomialVector.ChangeOfBasis(slots)` of circuits/ckks/polynomial: every slot mapped to polynomial `i`
    gets the change of basis of polynomial `i`'s OWN interval; unmapped slots get `(0, 0)` -/
def changeOfBasisVec8 (slots : Nat) (mapping : List (List Nat)) (ivs : List (Int × Int)) : List Int × List Int :=
  let per := (List.range slots).map fun j =>
    (mapping.zip ivs).foldl (fun acc mi => if mi.1.contains j then changeOfBasis8 mi.2 else acc) ((0, 0) : Int × Int)
  (per.map (·.1), per.map (·.2))

/-- `bignum.Polynomial.Evaluate` in the Chebyshev basis on `[a, b]` at an integer point where the change
    of basis `u = (2x - a - b)/(b - a)` is integral: `Σ c_i T_i(u)` -/
def chebEval (a b x : Int) (coeffs : List Int) : Int :=
  evalBasis intOps true ((2 * x - a - b) / (b - a)) coeffs

/-- `inverse.GoldschmidtDivisionNew`, the arithmetic of its loop on values: `a = 2 - x`, `b = 1 - x`, then
    `iters - 1` times `b = b·b; a = a + a·b`.  Returns `(a, b)` after `k` steps. -/
def goldschmidt {R : Type} (O : ValOps R) (x : R) : Nat → R × R
  | 0 => (O.sub (O.ofNat 2) x, O.sub (O.ofNat 1) x)
  | k + 1 =>
    let ab := goldschmidt O x k
    let b := O.mul ab.2 ab.2
    (O.add ab.1 (O.mul ab.1 b), b)

/-- one compression step of `inverse.IntervalNormalization` on values: `z = 1 - (c·y)²`, the normalised value
    and the normalisation factor are both multiplied by `z`.  State `(y, fac)`. -/
def normStep {R : Type} (O : ValOps R) (c : R) (s : R × R) : R × R :=
  let cy := O.mul c s.1
  let z := O.sub (O.ofNat 1) (O.mul cy cy)
  (O.mul s.1 z, O.mul s.2 z)

end Lattigo.Model.PolyEval
