/-
  C17 — the float64 arithmetic the samplers perform, done exactly on `Nat`.

  A finite non-negative IEEE-754 binary64 value `v` is represented by the natural number
  `v · 2^1074` (every finite double is an integer multiple of 2^-1074).  Multiplication, addition
  and subtraction compute the exact result and round it to 53 significant bits, ties to even
  (`rne53`) — what the hardware does for results in the normal range.  Not modelled: overflow to
  +Inf, gradual underflow of PRODUCTS below 2^-1022, NaN, negative numbers (the samplers only
  form non-negative values; the harness keeps `sigma`, `bound`, `P` finite and inside the normal
  range and the tie would expose any deviation).
  Core Lean only (`Float` is not used: the hardware type is opaque to proofs).
-/
namespace Lattigo.Sampler.SF

/-- the scale exponent: value = n / 2^S -/
def S : Nat := 1074

/-- number of bits of `n` (0 for 0) -/
def bitLen (n : Nat) : Nat := if n = 0 then 0 else Nat.log2 n + 1

/-- round a natural number to at most 53 significant bits, ties to even -/
def rne53 (n : Nat) : Nat :=
  let b := bitLen n
  if b ≤ 53 then n else
    let s := b - 53
    let q := n / 2 ^ s
    let r := n % 2 ^ s
    let half := 2 ^ (s - 1)
    if r < half then q * 2 ^ s
    else if r = half then (if q % 2 = 0 then q * 2 ^ s else (q + 1) * 2 ^ s)
    else (q + 1) * 2 ^ s

/-- decode the bit pattern of a finite non-negative float64 (sign bit ignored) -/
def ofBits64 (b : Nat) : Nat :=
  let e := (b / 2 ^ 52) % 2048
  let f := b % 2 ^ 52
  if e = 0 then f else (2 ^ 52 + f) * 2 ^ (e - 1)

/-- encode (inverse of `ofBits64` on representable values) -/
def toBits64 (n : Nat) : Nat :=
  if n < 2 ^ 52 then n else
    let b := Nat.log2 n
    (b - 51) * 2 ^ 52 + (n / 2 ^ (b - 52) - 2 ^ 52)

/-- decode the bit pattern of a finite non-negative float32, converted (exactly) to float64 -/
def ofBits32 (b : Nat) : Nat :=
  let e := (b / 2 ^ 23) % 256
  let f := b % 2 ^ 23
  if e = 0 then f * 2 ^ 925 else (2 ^ 23 + f) * 2 ^ (e + 924)

/-- `float64(n)` for a non-negative integer -/
def ofNat (n : Nat) : Nat := rne53 (n * 2 ^ S)

/-- `a * b` -/
def mul (a b : Nat) : Nat := rne53 (a * b) / 2 ^ S
/-- `a + b` -/
def add (a b : Nat) : Nat := rne53 (a + b)
/-- `a - b` for `a ≥ b` -/
def sub (a b : Nat) : Nat := rne53 (a - b)
/-- `uint64(a)` / `big.Float.Int`: truncation -/
def trunc (a : Nat) : Nat := a / 2 ^ S

def one : Nat := 2 ^ S
def half : Nat := 2 ^ (S - 1)

end Lattigo.Sampler.SF
