/-
  C14 — collective (multiparty) key generation, scheme-level model.

  Follows /repo/multiparty/{keygen_cpk,keygen_evk,keygen_gal,keygen_relin,crs}.go.

  The algebra is written GENERICALLY over a carrier `α` with `[Add α] [Mul α] [Neg α] [Sub α]`
  (so that the theorems of `Proofs/MP*.lean` hold for every commutative ring) and executed by the
  driver on `Lattigo.RPoly` (canonical RNS rows, coefficient domain, out of Montgomery form).

  Sampled values (CRS polynomials, Gaussian errors, secrets, ephemeral secrets) are INPUTS.
  Conventions about the stored words of the Go code (what `Canon` has to undo):
    * cpk / evk / gal : share and CRP are stored NTT + Montgomery; `a = crp·R⁻¹`.
    * relin round 1/2 : shares and CRP are stored NTT, NOT Montgomery (`a = crp`); the final key
      is `MForm` of them, i.e. the same canonical value read as NTT + Montgomery.
  Core Lean only.
-/
import Lattigo.Model.RPoly
import Lattigo.Model.SamplerUniform

namespace Lattigo.MP

/-- outcome of an API call: a value, a returned `error`, or a run-time panic -/
inductive Res (β : Type) where
  | ok (v : β)
  | err
  | panic
  deriving Repr, BEq, DecidableEq

namespace Res
def bind {β γ : Type} (r : Res β) (f : β → Res γ) : Res γ :=
  match r with
  | .ok v => f v
  | .err => .err
  | .panic => .panic
def isOk {β : Type} : Res β → Bool
  | .ok _ => true
  | _ => false
end Res

/-! ## Aggregation order: any binary tree over the shares -/

/-- the shape in which shares are combined: leaves are share indices -/
inductive AggTree where
  | leaf (i : Nat)
  | node (l r : AggTree)
  deriving Repr, BEq, DecidableEq

namespace AggTree
/-- leaves from left to right -/
def leaves : AggTree → List Nat
  | leaf i => [i]
  | node l r => l.leaves ++ r.leaves

/-- evaluate the tree with a total binary operation -/
def eval {β : Type} (op : β → β → β) (sh : Nat → β) : AggTree → β
  | leaf i => sh i
  | node l r => op (l.eval op sh) (r.eval op sh)

/-- evaluate the tree with a validating operation -/
def evalM {β : Type} (op : β → β → Res β) (sh : Nat → β) : AggTree → Res β
  | leaf i => .ok (sh i)
  | node l r => (l.evalM op sh).bind fun x => (r.evalM op sh).bind fun y => op x y

/-- the left comb `((0 + 1) + 2) + … + (n-1)` used by the library's own tests -/
def comb : Nat → AggTree
  | 0 => leaf 0
  | 1 => leaf 0
  | n + 2 => node (comb (n + 1)) (leaf (n + 1))
end AggTree

section generic
variable {α : Type} [Add α] [Mul α] [Neg α] [Sub α]

/-- phase of a degree-one element `(c0, c1)` under the secret `s` -/
def phase (c0 c1 s : α) : α := c0 + c1 * s

/-- left fold of share addition starting from the first share (how the tests aggregate) -/
def aggList (x : α) (xs : List α) : α := xs.foldl (· + ·) x

abbrev Mat (β : Type) := List (List β)

def map3 {β γ δ ε : Type} (f : β → γ → δ → ε) : List β → List γ → List δ → List ε
  | b :: bs, c :: cs, d :: ds => f b c d :: map3 f bs cs ds
  | _, _, _ => []

def matMap3 {β γ δ ε : Type} (f : β → γ → δ → ε) (x : Mat β) (y : Mat γ) (z : Mat δ) : Mat ε :=
  map3 (map3 f) x y z

def vecAdd (x y : List α) : List α := List.zipWith (· + ·) x y
def matAdd (x y : Mat α) : Mat α := List.zipWith vecAdd x y
/-- component-wise addition of `[i][j][k]` arrays -/
def cubeAdd (x y : Mat (List α)) : Mat (List α) := List.zipWith (List.zipWith vecAdd) x y

/-! ## Collective public key (keygen_cpk.go) -/

/-- `PublicKeyGenProtocol.GenShare`: `e − s·a`
    (code: `MulCoeffsMontgomeryThenSub(sk, crp, e)`). -/
def cpkShare (a s e : α) : α := e - s * a

/-- `PublicKeyGenProtocol.AggregateShares` -/
def cpkAggregate (x y : α) : α := x + y

/-- `PublicKeyGenProtocol.GenPublicKey`: `(aggregate, crp)` -/
def genPublicKey (agg a : α) : α × α := (agg, a)

/-- the single-party public key for secret `s`, mask `a`, error `e` (same formula) -/
def pkOf (a s e : α) : α × α := (cpkShare a s e, a)

/-! ## Gadget shares (keygen_evk.go, keygen_gal.go, keygen_relin.go) -/

/-- a share / key shaped like `rlwe.GadgetCiphertext`: `val[i][j][k]`,
    `i` RNS digit, `j` power-of-two digit, `k ≤ degree` -/
structure GShare (α : Type) where
  levelQ : Nat
  /-- `-1` : no auxiliary modulus -/
  levelP : Int
  base2  : Nat
  val    : Mat (List α)
  deriving Repr, BEq, DecidableEq

/-- `BaseTwoDecompositionVectorSize()` of a share or CRP: the row lengths -/
def shapeOf {β : Type} (m : Mat β) : List Nat := m.map List.length

/-- one row of an evaluation-key share:
    `e + w·s_in − a·s_out`  (`w = P·2^{jb}·[digit i]`), in the order the code computes it. -/
def evkShareRow (a sOut e w sIn : α) : α := (e + w * sIn) - a * sOut

/-- `EvaluationKeyGenProtocol.GenShare`.
    `skInLvl`/`skOutLvl` (`skInLvlP`/`skOutLvlP`) are the `LevelQ()` (`LevelP()`) of the two secret
    keys; `w`, `e` are given in the shape of the CRP. -/
def evkGenShare (skInLvl skOutLvl : Nat) (skInLvlP skOutLvlP : Int) (sIn sOut : α) (crp w e : Mat α)
    (out : GShare α) : Res (GShare α) :=
  if out.levelQ > min skInLvl skOutLvl then .err
  else if out.levelP > min skInLvlP skOutLvlP then .err
  else if out.val.length ≠ crp.length then .err
  else if shapeOf out.val ≠ shapeOf crp then .err
  else .ok { out with val := matMap3 (fun a w e => [evkShareRow a sOut e w sIn]) crp w e }

/-- replace component 0 of `z` by `x₀ + y₀` (`ringQP.Add(m1[i][j][0], m2[i][j][0], m3[i][j][0])`) -/
def addHead : List α → List α → List α → Option (List α)
  | x :: _, y :: _, _ :: zs => some ((x + y) :: zs)
  | _, _, _ => none

/-- the double loop of `AggregateShares`: shape of the FIRST share, indexing into the others -/
def aggRow : List (List α) → List (List α) → List (List α) → Option (List (List α))
  | [], _, r3 => some r3
  | x :: xs, y :: ys, z :: zs =>
      match addHead x y z, aggRow xs ys zs with
      | some h, some t => some (h :: t)
      | _, _ => none
  | _ :: _, _, _ => none

def aggRows : Mat (List α) → Mat (List α) → Mat (List α) → Option (Mat (List α))
  | [], _, r3 => some r3
  | x :: xs, y :: ys, z :: zs =>
      match aggRow x y z, aggRows xs ys zs with
      | some h, some t => some (h :: t)
      | _, _ => none
  | _ :: _, _, _ => none

/-- `EvaluationKeyGenProtocol.AggregateShares(share1, share2, &share3)`: the levels and the
    decompositions (`BaseTwoDecomposition` of the operands, row lengths of all three) must agree. -/
def evkAggregate (s1 s2 s3 : GShare α) : Res (GShare α) :=
  if s1.levelQ ≠ s2.levelQ ∨ s1.levelQ ≠ s3.levelQ then .err
  else if s1.levelP ≠ s2.levelP ∨ s1.levelP ≠ s3.levelP then .err
  else if s1.base2 ≠ s2.base2 ∨ shapeOf s1.val ≠ shapeOf s2.val ∨ shapeOf s1.val ≠ shapeOf s3.val then .err
  else match aggRows s1.val s2.val s3.val with
    | some v => .ok { s3 with val := v }
    | none => .panic

/-- the usual call `AggregateShares(a, b, &a)` -/
def evkAgg2 (x y : GShare α) : Res (GShare α) := evkAggregate x y x

/-- copy `m[i][j][0]` and `p[i][j]` into the key entry `[i][j]` -/
def setKeyEntry : List α → α → List α → Option (List α)
  | b :: _, a, _ :: _ :: ks => some (b :: a :: ks)
  | _, _, _ => none

/-- inner loop of `GenEvaluationKey`: every power-of-two digit of the row -/
def keyRow : List (List α) → List α → List (List α) → Option (List (List α))
  | [], _, k => some k
  | m :: ms, p :: ps, k :: ks =>
      match setKeyEntry m p k, keyRow ms ps ks with
      | some h, some t => some (h :: t)
      | _, _ => none
  | _ :: _, _, _ => none

def keyRows : Mat (List α) → Mat α → Mat (List α) → Option (Mat (List α))
  | [], _, k => some k
  | m :: ms, p :: ps, k :: ks =>
      match keyRow m p k, keyRows ms ps ks with
      | some h, some t => some (h :: t)
      | _, _ => none
  | _ :: _, _, _ => none

/-- `EvaluationKeyGenProtocol.GenEvaluationKey(share, crp, evk)`: levels and decompositions of the
    share, the CRP and the key must agree; every row `[i][j]` is copied (`none`: a key entry without
    the second component, e.g. a compressed key — index out of range). -/
def genEvaluationKey (share : GShare α) (crp : Mat α) (evk : GShare α) : Res (GShare α) :=
  if share.levelQ ≠ evk.levelQ then .err
  else if share.levelP ≠ evk.levelP then .err
  else if shapeOf share.val ≠ shapeOf crp ∨ shapeOf share.val ≠ shapeOf evk.val then .err
  else match keyRows share.val crp evk.val with
    | some v => .ok { evk with val := v }
    | none => .panic

/-- what `GenEvaluationKey` is meant to produce: every entry `(share[i][j][0], crp[i][j])` -/
def evkAssemble (share : Mat (List α)) (crp : Mat α) : Mat (List α) :=
  List.zipWith (List.zipWith fun m a => [m.headD a, a]) share crp

/-! ### Galois keys -/

structure GalShare (α : Type) where
  galEl : Nat
  sh    : GShare α
  deriving Repr, BEq, DecidableEq

/-- `GaloisKeyGenProtocol.GenShare`: an evaluation-key share from `s` to `σ_{g⁻¹}(s)`, tagged
    with `g`.  `sigInv` is the automorphism `X ↦ X^{g⁻¹}`; the automorphed key lives in the protocol's
    buffer, whose levels are `bufLvl`, `bufLvlP` (the maximum levels of the parameters). -/
def galGenShare (sigInv : α → α) (skLvl bufLvl : Nat) (skLvlP bufLvlP : Int) (s : α) (galEl : Nat)
    (crp w e : Mat α) (out : GalShare α) : Res (GalShare α) :=
  (evkGenShare skLvl bufLvl skLvlP bufLvlP s (sigInv s) crp w e out.sh).bind fun sh => .ok ⟨galEl, sh⟩

/-- `GaloisKeyGenProtocol.AggregateShares` -/
def galAggregate (s1 s2 s3 : GalShare α) : Res (GalShare α) :=
  if s1.galEl ≠ s2.galEl then .err
  else (evkAggregate s1.sh s2.sh s3.sh).bind fun sh => .ok ⟨s1.galEl, sh⟩

def galAgg2 (x y : GalShare α) : Res (GalShare α) := galAggregate x y x

/-- `GaloisKeyGenProtocol.GenGaloisKey` (the key's element is the share's tag) -/
def genGaloisKey (share : GalShare α) (crp : Mat α) (gk : GalShare α) : Res (GalShare α) :=
  (genEvaluationKey share.sh crp gk.sh).bind fun k => .ok ⟨share.galEl, k⟩

/-! ### Relinearisation key, two rounds -/

/-- round one, one row: `(e0 + w·s − u·a ,  e1 + s·a)` -/
def rkgRoundOneRow (a s u e0 e1 w : α) : List α := [(e0 + w * s) - u * a, e1 + s * a]

/-- `GenShareRoundOne`: no validation in the code; `e[i][j] = (e0, e1)` -/
def rkgRoundOne (s u : α) (crp w : Mat α) (e : Mat (α × α)) (out : GShare α) : GShare α :=
  { out with val := matMap3 (fun a w (e : α × α) => rkgRoundOneRow a s u e.1 e.2 w) crp w e }

/-- round two, one row: `h0·s + e2 + (u − s)·h1` -/
def rkgRoundTwoRow (h0 h1 s u e2 : α) : α := (h0 * s + e2) + (u - s) * h1

def rkgRoundTwoEntry (s u : α) : List α → α → List α
  | h0 :: h1 :: _, e2 => [rkgRoundTwoRow h0 h1 s u e2]
  | _, _ => []

/-- `GenShareRoundTwo` from the aggregated round-one share -/
def rkgRoundTwo (s u : α) (round1 : GShare α) (e2 : Mat α) (out : GShare α) : GShare α :=
  { out with val := List.zipWith (List.zipWith (rkgRoundTwoEntry s u)) round1.val e2 }

/-- `RelinearizationKeyGenProtocol.AggregateShares`: every component, no validation -/
def rkgAggregate (s1 s2 : GShare α) : GShare α := { s1 with val := cubeAdd s1.val s2.val }

def rkgKeyEntry : List α → List α → List α
  | r2 :: _, _ :: h1 :: _ => [r2, h1]
  | _, _ => []

/-- `GenRelinearizationKey(round1, round2)`: `(round2[i][j][0], round1[i][j][1])` -/
def genRelinKey (round1 round2 : GShare α) : GShare α :=
  { round1 with val := List.zipWith (List.zipWith rkgKeyEntry) round2.val round1.val }

end generic

/-! ## Executable instance: RNS rows -/

open Lattigo

/-- constant polynomial with per-row constants -/
def constPoly (ms : List Nat) (n : Nat) (cs : List Nat) : RPoly :=
  { qs := ms, c := (ms.zip cs).map fun (q, c) => (c % q) :: List.replicate (n - 1) 0 }

/-- the gadget constant `P·2^{j·b}·[rows of RNS digit i]` over the rows `qs ++ ps`
    (code: `buff = P·s_in` then `MulScalar(buff, 1<<b)` after every `j`, added only to the rows
    `i·(levelP+1) … (i+1)·(levelP+1)−1` of Q; the P rows get nothing). -/
def gadgetW (qs ps : List Nat) (n i j b : Nat) : RPoly :=
  let kp := if ps.isEmpty then 1 else ps.length
  let P := RPoly.prod ps
  let cq := (List.range qs.length).map fun r =>
    let q := qs[r]!
    if i * kp ≤ r ∧ r < (i + 1) * kp then (P % q) * (2 ^ (j * b) % q) % q else 0
  constPoly (qs ++ ps) n (cq ++ ps.map fun _ => 0)

/-- all gadget constants in the given shape -/
def gadgetWs (qs ps : List Nat) (n b : Nat) (shape : List Nat) : Mat RPoly :=
  (List.range shape.length).map fun i =>
    (List.range (shape[i]!)).map fun j => gadgetW qs ps n i j b

/-- `ring.ModExp(galEl, NthRoot−1, NthRoot)` with `NthRoot = 2n` -/
def galInv (galEl n : Nat) : Nat :=
  (List.range (2 * n - 1)).foldl (fun acc _ => acc * galEl % (2 * n)) 1

/-! ## The common reference string (crs.go, ring/sampler_uniform.go, ring/ringqp/samplers.go)

  A CRS is a keyed XOF (`sampling.KeyedPRNG`, modelled in `Model/SamplerPRNG.lean`); a party's copy of it is the
  not-yet-read part of its byte stream.  Every `SampleCRP` builds FRESH `ring.UniformSampler`s (one for Q, one for
  P), each with a private 1024-byte buffer refilled from the CRS: the reference polynomials are
  `ringqp.UniformSampler.ReadNew` — the C17 model `Sampler.qpRead` on fresh buffers — applied `count` times, a
  function of the CRS bytes and the request only; the unused tail of the last buffers is discarded with the
  samplers. -/

structure CRPRequest where
  qs : List Nat
  ps : List Nat
  n  : Nat
  count : Nat
  deriving Repr, DecidableEq

/-- `count` times `ReadNew` on the same pair of samplers; a polynomial is its Q rows followed by its P rows -/
def crpReadN (fuel : Nat) (qs ps : List Nat) (n : Nat) :
    Nat → Sampler.Bytes → Sampler.QPBufs → Sampler.Res (List Sampler.Poly × Sampler.Bytes)
  | 0, s, _ => .ok ([], s)
  | k + 1, s, bs =>
    match Sampler.qpRead fuel (some qs) (if ps.isEmpty then none else some ps)
        (Sampler.zeroPoly qs.length n) (Sampler.zeroPoly ps.length n) s bs with
    | .ok (rQ, rP, s, bs) =>
      match crpReadN fuel qs ps n k s bs with
      | .ok (rest, s) => .ok ((rQ ++ rP) :: rest, s)
      | .exhausted => .exhausted
      | .panic => .panic
    | .exhausted => .exhausted
    | .panic => .panic

/-- one `SampleCRP`: fresh samplers (fresh buffers), `count` polynomials; the rejection loop of one coefficient can
    use at most all remaining 64-bit words (`fuel`) -/
def sampleCRP (r : CRPRequest) (s : Sampler.Bytes) : Sampler.Res (List Sampler.Poly × Sampler.Bytes) :=
  crpReadN (s.length / 8 + 2) r.qs r.ps r.n r.count s ⟨Sampler.Buf.new, Sampler.Buf.new⟩

/-- a party's sequence of `SampleCRP` calls on its copy of the CRS -/
def runCRS : List CRPRequest → Sampler.Bytes → Sampler.Res (List (List Sampler.Poly) × Sampler.Bytes)
  | [], s => .ok ([], s)
  | r :: rs, s =>
    match sampleCRP r s with
    | .ok (p, s) =>
      match runCRS rs s with
      | .ok (ps, s) => .ok (p :: ps, s)
      | .exhausted => .exhausted
      | .panic => .panic
    | .exhausted => .exhausted
    | .panic => .panic

end Lattigo.MP
