/-
  C09 — `Store`: a small imperative model of the operations of lattigo whose Go code branches on
  pointer identity, or writes (part of) the output before it has finished reading an operand.

  * A *location* is (object id, field).  Objects: the roles `op0 op1 out` of a call are mapped to
    object ids by a `Pat` (so `out = op0` is literally "same object id"); scratch buffers of the
    evaluator have fixed ids ≥ 10.  Fields 0…6 are `Value[i]` (one abstract ring element per
    polynomial — every arithmetic step of the modelled code is coefficient-wise or reads its operands
    completely before writing, which is what one atomic step expresses), field 8 is `Scale`,
    field 9 the rest of the metadata.
  * A *step* `dst := fn(args)` reads its arguments from the store, applies the UNINTERPRETED function
    symbol `fn` (interpretation `I : Fn → List α → α` is a parameter), writes `dst`.
  * A *program* is a list of steps, in the order of the Go statements.  The program of an operation
    is a function of the `Pat` — exactly where the Go code compares pointers (`opOut == c0`,
    `op1.El() == opOut.El()`, `op0.El() == op1.El()`, `ctIn != opOut`) the transcription compares
    object ids.
  Transcribed from (file:line in /repo):
    ckks.evaluateInPlace          schemes/ckks/evaluator.go:246-431   (degree 1 ⊕ degree 1)
    ckks.mulRelin                 schemes/ckks/evaluator.go:786-881   (degree 1 ⊗ degree 1)
    bgv.tensorStandard            schemes/bgv/evaluator.go:665-751    (degree 1 ⊗ degree 1)
    bgv.tensorScaleInvariant      schemes/bgv/evaluator.go:975-1040, 1053-1124
    bgv.matchScaleThenEvaluateInPlace schemes/bgv/evaluator.go:288-305
    bgv.Add / bgv.Mul (*big.Int)  schemes/bgv/evaluator.go:197-227, 481-503
    rlwe.Automorphism             core/rlwe/evaluator_automorphism.go:14-58
    rlwe.PartialTracesSum (InnerSum) core/rlwe/inner_sum.go:152-288
    rlwe.Element.Resize + Add's degree choice  core/rlwe/element.go:160-182, core/rlwe/evaluator.go:168-169
    ring.DivRoundByLastModulus / NTT  ring/scaling.go:93-147 (HEAD) and the version before commit 64e1afc
  Degrees 0/1/2 (section "degrees"): `ckksAddProg` = ckks.Add/Sub with an element operand
    (schemes/ckks/evaluator.go:62-80, 158-184: InitOutputBinaryOp, `opOut.Resize(degree, level)`, evaluateInPlace
    with its copy of the higher-degree polynomials, the negation of Sub), `tensorProgD` = ckks.mulRelin /
    bgv.tensorStandard incl. their "Plaintext (x) Ciphertext" branches; the degree of every object is a
    STATIC attribute (`deg : object → Nat`) that `Element.Resize` updates — because the receiver may be the same
    object as an operand, the degree the code reads AFTER the resize is the updated one.
  Levels (section "shapes"): the list of the levels of `Value[0..degree]` of every object (`Shape`),
    `resizeShape` = `Element.Resize` (core/rlwe/element.go:160-182) incl. its test of `Value[0]` only, and for every
    modelled operation the sequence of `Resize` calls it makes on the receiver (`OpS.shapeAfter`).
  Core Lean only.
-/
namespace Lattigo.Store

structure Loc where
  obj : Nat
  fld : Nat
deriving DecidableEq, Repr

/-- a store is a total map from locations to values (wrapped in a structure so that the compiled
    code evaluates each written value once, when it is written) -/
structure Store (α : Type) where
  get : Loc → α

instance {α : Type} : CoeFun (Store α) (fun _ => Loc → α) := ⟨Store.get⟩

def Store.set {α : Type} (σ : Store α) (l : Loc) (v : α) : Store α :=
  ⟨fun x => if x = l then v else σ.get x⟩

/-- function symbols: one per arithmetic step kind of the transcribed Go code -/
inductive Fn
  | copy      -- CopyLvl
  | zero      -- Poly.Zero / freshly appended polynomial of Resize
  | mform     -- ring.MForm                         (ckks.mulRelin, bgv.tensorLowDeg)
  | mulT      -- MulRNSScalarMontgomery(·, tMontgomery)   (bgv.tensorStandard)
  | mulM      -- MulCoeffsMontgomery(a, b)
  | mulMAdd   -- MulCoeffsMontgomeryThenAdd(a, b, acc)
  | add       -- ring.Add
  | ev        -- the `evaluate` callback of evaluateInPlace (Add or Sub)
  | evs       -- the `evaluate` callback of ckks.Sub in the degree-aware program `ckksAddProg` (ring.Sub)
  | neg       -- ring.Neg (ckks.Sub negates the higher-degree polynomials taken from op1)
  | ratio     -- ⌊scaleHi / scaleLo⌋ as big.Int
  | scal      -- eval.Mul(ct, ratioInt, ·) on one polynomial
  | smax      -- Scale.Max
  | dmax      -- utils.Max on one component of LogDimensions (InitOutputBinaryOp)
  | smul      -- Scale.Mul
  | sinv      -- bgv.MulScaleInvariant(params, a, b, level)
  | r0 | r1   -- the two results of bgv.matchScalesBinary(scale0, scale1)
  | mulS      -- ring.MulScalar(p, r, ·)           args [r, p]
  | mulSAdd   -- ring.MulScalarThenAdd(p, r, acc)  args [p, r, acc]
  | gp0 | gp1 -- the two components of GadgetProduct(level, c2, rlk/galois key)
  | aut       -- ring.Automorphism / AutomorphismNTTWithIndex
  | intt      -- INTT into buffQ[0]
  | modup     -- ModUpQtoP then NTTLazy
  | mformM    -- ringQMul.MForm
  | quant     -- bgv.quantize(c2Q1, c2Q2) result in c2Q1   args [q1, q2]
  | bigScale  -- op1 := op1 * op0.Scale                  (bgv.Add *big.Int)
  | bigModT   -- op1 := op1 mod T
  | bigCenter -- if op1 > T/2 then op1 -= T
  | bigTInv   -- op1 := op1 * tInvModQ[level]
  | addBig    -- AddScalarBigint(p, s, ·)   args [p, s]
  | mulBig    -- MulScalarBigint(p, s, ·)   args [p, s]
  | addHalf   -- AddScalar(p0[L], pHalf)
  | negAdd    -- AddScalarLazyThenNegTwoModulusLazy(p0[i], q_i - pHalf)   (code before commit 64e1afc)
  | addC      -- AddScalar(p1[i], (-pHalf)·(-InvQ))                        (code since commit 64e1afc)
  | divStep   -- AddLazyThenMulScalarMontgomery(p0[L], p0[i], c_i) / SubThenMulScalarMontgomeryTwoModulus
  | inttL     -- INTTLazy of the last limb into buff
  | nttStep   -- AddScalarLazy(buff[L], ·) then NTTLazy  (DivRoundByLastModulusNTT)
  | autLazy0 | autLazy1  -- the two components of AutomorphismHoistedLazy(ctInNTT, rot k)  args [k-tag, s0, s1]
  | autH0 | autH1        -- the two components of AutomorphismHoisted(ctInNTT, rot 2^i)
  | modDown   -- ModDownQPtoQNTT
  | ntt       -- ring.NTT / NTTLazy                     (encryptor, decryptor, key-generation protocols)
  | reduce    -- ring.Reduce
  | mulMSub   -- MulCoeffsMontgomeryThenSub(a, b, acc): acc - a·b      args [a, b, acc]
  | extend    -- ringqp.ExtendBasisSmallNormAndCenter (Q part → Q and P parts of the same polynomial)
  | mulP      -- MulScalarBigint(skIn, P, ·)            (EvaluationKeyGenProtocol.GenShare with an auxiliary modulus)
  | mulS2     -- MulScalar(·, 2^BaseTwoDecomposition, ·)
  | tag (k : Nat) -- a constant: a rotation index used as a first argument, or (no argument) the k-th draw of a sampler
deriving DecidableEq, Repr

structure Step where
  dst : Loc
  fn : Fn
  args : List Loc
deriving DecidableEq, Repr

abbrev Prog := List Step

structure Interp (α : Type) where
  fn : Fn → List α → α
  cmp : α → α → Ordering     -- Scale.Cmp

def Step.exec {α : Type} (I : Interp α) (σ : Store α) (s : Step) : Store α :=
  σ.set s.dst (I.fn s.fn (s.args.map σ))

def run {α : Type} (I : Interp α) (p : Prog) (σ : Store α) : Store α :=
  p.foldl (Step.exec I) σ

/-- which object plays which role in a call -/
structure Pat where
  op0 : Nat
  op1 : Nat
  out : Nat
deriving DecidableEq, Repr

/-- the five aliasing patterns (up to renaming of objects) -/
inductive Alias | distinct | outOp0 | outOp1 | op0Op1 | allEq
deriving DecidableEq, Repr

def Alias.pat : Alias → Pat
  | .distinct => ⟨0, 1, 2⟩
  | .outOp0   => ⟨0, 1, 0⟩
  | .outOp1   => ⟨0, 1, 1⟩
  | .op0Op1   => ⟨0, 0, 2⟩
  | .allEq    => ⟨0, 0, 0⟩

-- scratch objects of the evaluators
def bq : Nat := 10    -- bgv/ckks evaluatorBuffers.buffQ[0..2]
def bqp : Nat := 11   -- rlwe.EvaluatorBuffers.BuffQP[i].Q (fields 0..5); .P parts are fields 10+i
def bct : Nat := 12   -- rlwe.EvaluatorBuffers.BuffCt.Value[i]
def bqm : Nat := 13   -- bgv evaluatorBuffers.buffQMul[0..6]
def bigArg : Nat := 5 -- the caller's *big.Int (bgv.Add / bgv.Mul)
def fScale : Nat := 8
def fMeta : Nat := 9
-- the metadata fields the binary/unary output initialisation writes one by one
def fRows : Nat := 20     -- LogDimensions.Rows
def fCols : Nat := 21     -- LogDimensions.Cols
def fBatched : Nat := 22  -- IsBatched
def fNTT : Nat := 23      -- IsNTT
def metaFields : List Nat := [fRows, fCols, fBatched, fNTT]

def encBuf : Nat := 15   -- rlwe.Encryptor.encryptorBuffers.buffQP
def decBuf : Nat := 16   -- rlwe.Decryptor.buff
def protoBuf : Nat := 17 -- multiparty.EvaluationKeyGenProtocol.buff
def crpArg : Nat := 6    -- the common reference polynomial handed to a GenShare (an input, like `bigArg`)

def isScratch (o : Nat) : Bool :=
  o == bq || o == bqp || o == bct || o == bqm || o == 14 || o == encBuf || o == decBuf || o == protoBuf

def L (o f : Nat) : Loc := ⟨o, f⟩
def st (dst : Loc) (fn : Fn) (args : List Loc) : Step := ⟨dst, fn, args⟩

/-- `lo, lo+1, …, lo+cnt-1` -/
def fromTo (lo : Nat) : Nat → List Nat
  | 0 => []
  | cnt + 1 => lo :: fromTo (lo + 1) cnt

/-! ### metadata of the receiver: rlwe.Evaluator.InitOutputBinaryOp / InitOutputUnaryOp
    (core/rlwe/evaluator.go:147-187, 203-222), the first thing every Add/Sub/Mul… does -/

/-- InitOutputBinaryOp: `opOut.IsNTT = op0.IsNTT`, `opOut.IsBatched = op0.IsBatched`,
    `opOut.LogDimensions.Rows = max(op0.…Rows, op1.…Rows)`, `….Cols = max(op0.…Cols, op1.…Cols)` — each component is
    computed from BOTH operands in one expression and only then stored -/
def initBinaryMeta (p : Pat) : Prog :=
  let a := p.op0; let b := p.op1; let o := p.out
  [ st (L o fNTT) .copy [L a fNTT], st (L o fBatched) .copy [L a fBatched],
    st (L o fRows) .dmax [L a fRows, L b fRows], st (L o fCols) .dmax [L a fCols, L b fCols] ]

/-- a variant that is NOT alias-safe (the shape of seeded regression C09-r3m3; never was the code of /repo):
    `opOut.LogDimensions = op0.LogDimensions` first, then the maximum with op1's — with `opOut == op1` the first
    assignment has overwritten what the second statement reads -/
def initBinaryMetaOverwriteFirst (p : Pat) : Prog :=
  let a := p.op0; let b := p.op1; let o := p.out
  [ st (L o fNTT) .copy [L a fNTT], st (L o fBatched) .copy [L a fBatched],
    st (L o fRows) .copy [L a fRows], st (L o fCols) .copy [L a fCols],
    st (L o fRows) .dmax [L o fRows, L b fRows], st (L o fCols) .dmax [L o fCols, L b fCols] ]

/-- InitOutputUnaryOp: IsNTT, IsBatched, LogDimensions of op0 -/
def initUnaryMeta (p : Pat) : Prog :=
  let a := p.op0; let o := p.out
  [ st (L o fNTT) .copy [L a fNTT], st (L o fBatched) .copy [L a fBatched],
    st (L o fRows) .copy [L a fRows], st (L o fCols) .copy [L a fCols] ]

/-! ### ckks.evaluateInPlace (Add/Sub with scale alignment), degree 1 ⊕ degree 1 -/

/-- `eval.Mul(src, ratioInt, dst)` for an integer constant: scales both polynomials, sets
    `dst.Scale = src.Scale` (integer ⇒ factor 1).  `hi lo` are the locations the ratio was read from;
    the Go code reads `c0Scale, c1Scale` into locals first — field 8 of scratch object `bct` holds
    the ratio. -/
def ckksMulInt (src dst : Nat) (dstScale : Bool) : Prog :=
  [ st (L dst 0) .scal [L bct fScale, L src 0],
    st (L dst 1) .scal [L bct fScale, L src 1] ] ++
  (if dstScale then [st (L dst fScale) .copy [L src fScale]] else [])

def ckksEvalProg (p : Pat) (cmp : Ordering) : Prog :=
  let a := p.op0; let b := p.op1; let o := p.out
  let evalStep (x y : Nat) : Prog :=
    [ st (L o 0) .ev [L x 0, L y 0], st (L o 1) .ev [L x 1, L y 1],
      st (L o fScale) .smax [L a fScale, L b fScale] ]
  if o = a then
    match cmp with
    | .gt => [st (L bct fScale) .ratio [L a fScale, L b fScale]] ++ ckksMulInt b bct false ++ evalStep a bct
    | .lt => [st (L bct fScale) .ratio [L b fScale, L a fScale]] ++ ckksMulInt a a true ++
             [st (L o fScale) .copy [L b fScale]] ++ evalStep a b
    | .eq => evalStep a b
  else if o = b then
    match cmp with
    | .gt => [st (L bct fScale) .ratio [L a fScale, L b fScale]] ++ ckksMulInt b o true ++
             [st (L o fScale) .copy [L a fScale]] ++ evalStep a b
    | .lt => [st (L bct fScale) .ratio [L b fScale, L a fScale]] ++ ckksMulInt a bct false ++ evalStep bct b
    | .eq => evalStep a b
  else
    match cmp with
    | .gt => [st (L bct fScale) .ratio [L a fScale, L b fScale]] ++ ckksMulInt b bct false ++ evalStep a bct
    | .lt => [st (L bct fScale) .ratio [L b fScale, L a fScale]] ++ ckksMulInt a bct false ++ evalStep bct b
    | .eq => evalStep a b

def ckksEval {α : Type} (I : Interp α) (p : Pat) (σ : Store α) : Store α :=
  run I (ckksEvalProg p (I.cmp (σ (L p.op0 fScale)) (σ (L p.op1 fScale)))) σ

/-! ### ckks.mulRelin and bgv.tensorStandard, degree 1 ⊗ degree 1
    (same statement order; `pre` is `mform` for ckks and `mulT` for bgv) -/

def tensorProg (pre : Fn) (relin : Bool) (p : Pat) : Prog :=
  let a := p.op0; let b := p.op1; let o := p.out
  let t0 := if b = o then b else a
  let t1 := if b = o then a else b
  let c2 := if relin then L bq 2 else L o 2
  [ st (L o fScale) .smul [L a fScale, L b fScale],
    st (L bq 0) pre [L t0 0],
    st (L bq 1) pre [L t0 1] ] ++
  (if a = b then
    [ st (L o 0) .mulM [L bq 0, L t1 0],
      st c2 .mulM [L bq 1, L t1 1],
      st (L o 1) .mulM [L bq 0, L t1 1],
      st (L o 1) .add [L o 1, L o 1] ]
   else
    [ st (L o 0) .mulM [L bq 0, L t1 0],
      st c2 .mulM [L bq 1, L t1 1],
      st (L o 1) .mulM [L bq 0, L t1 1],
      st (L o 1) .mulMAdd [L bq 1, L t1 0, L o 1] ]) ++
  (if relin then
    [ st (L bqp 1) .gp0 [c2], st (L bqp 2) .gp1 [c2],
      st (L o 0) .add [L o 0, L bqp 1], st (L o 1) .add [L o 1, L bqp 2] ]
   else [])

def ckksMulRelinProg := tensorProg .mform
def bgvTensorStandardProg := tensorProg .mulT

/-! ### bgv.tensorScaleInvariant -/

def bgvTensorSIProg (relin : Bool) (p : Pat) : Prog :=
  let a := p.op0; let b := p.op1; let o := p.out
  let t0 := if b = o then b else a
  let t1 := if b = o then a else b
  let c2 := if relin then L bq 2 else L o 2
  -- modUpAndNTT(tmp0Q0 → buffQMul[0:3])
  [ st (L bq 0) .intt [L t0 0], st (L bqm 0) .modup [L bq 0],
    st (L bq 0) .intt [L t0 1], st (L bqm 1) .modup [L bq 0] ] ++
  (if t0 ≠ t1 then
    [ st (L bq 0) .intt [L t1 0], st (L bqm 3) .modup [L bq 0],
      st (L bq 0) .intt [L t1 1], st (L bqm 4) .modup [L bq 0] ] else []) ++
  -- tensorLowDeg
  [ st (L bq 0) .mform [L t0 0], st (L bq 1) .mform [L t0 1],
    st (L bqm 5) .mformM [L bqm 0], st (L bqm 6) .mformM [L bqm 1] ] ++
  (if t0 = t1 then
    [ st (L o 0) .mulM [L bq 0, L t0 0], st c2 .mulM [L bq 1, L t0 1],
      st (L o 1) .mulM [L bq 0, L t0 1], st (L o 1) .add [L o 1, L o 1],
      st (L bqm 0) .mulM [L bqm 5, L bqm 0], st (L bqm 2) .mulM [L bqm 6, L bqm 1],
      st (L bqm 1) .mulM [L bqm 5, L bqm 1], st (L bqm 1) .add [L bqm 1, L bqm 1] ]
   else
    [ st (L o 0) .mulM [L bq 0, L t1 0], st c2 .mulM [L bq 1, L t1 1],
      st (L o 1) .mulM [L bq 0, L t1 1], st (L o 1) .mulMAdd [L bq 1, L t1 0, L o 1],
      st (L bqm 0) .mulM [L bqm 5, L bqm 3], st (L bqm 2) .mulM [L bqm 6, L bqm 4],
      st (L bqm 1) .mulM [L bqm 5, L bqm 4], st (L bqm 1) .mulMAdd [L bqm 6, L bqm 3, L bqm 1] ]) ++
  -- quantize ×3
  [ st (L o 0) .quant [L o 0, L bqm 0], st (L o 1) .quant [L o 1, L bqm 1], st c2 .quant [c2, L bqm 2] ] ++
  (if relin then
    [ st (L bqp 1) .gp0 [c2], st (L bqp 2) .gp1 [c2],
      st (L o 0) .add [L o 0, L bqp 1], st (L o 1) .add [L o 1, L bqp 2] ]
   else []) ++
  -- opOut.Scale = MulScaleInvariant(params, ct0.Scale, ct1.Scale, level)   (fix C05-10: ct1, not tmp1Q0;
  -- nothing has written a Scale before this line, so it is right under every aliasing pattern)
  [ st (L o fScale) .sinv [L a fScale, L b fScale] ]

/-- bgv.tensorScaleInvariant BEFORE fix C05-10: the scale is computed at the end from `ct0.Scale` and
    `tmp1Q0.Scale`, and `tmp1Q0` is `ct0` after the swap (found by this property, kept for the
    counterexample). -/
def bgvTensorSIProgOld (relin : Bool) (p : Pat) : Prog :=
  let a := p.op0; let b := p.op1; let o := p.out
  let t0 := if b = o then b else a
  let t1 := if b = o then a else b
  let c2 := if relin then L bq 2 else L o 2
  -- modUpAndNTT(tmp0Q0 → buffQMul[0:3])
  [ st (L bq 0) .intt [L t0 0], st (L bqm 0) .modup [L bq 0],
    st (L bq 0) .intt [L t0 1], st (L bqm 1) .modup [L bq 0] ] ++
  (if t0 ≠ t1 then
    [ st (L bq 0) .intt [L t1 0], st (L bqm 3) .modup [L bq 0],
      st (L bq 0) .intt [L t1 1], st (L bqm 4) .modup [L bq 0] ] else []) ++
  -- tensorLowDeg
  [ st (L bq 0) .mform [L t0 0], st (L bq 1) .mform [L t0 1],
    st (L bqm 5) .mformM [L bqm 0], st (L bqm 6) .mformM [L bqm 1] ] ++
  (if t0 = t1 then
    [ st (L o 0) .mulM [L bq 0, L t0 0], st c2 .mulM [L bq 1, L t0 1],
      st (L o 1) .mulM [L bq 0, L t0 1], st (L o 1) .add [L o 1, L o 1],
      st (L bqm 0) .mulM [L bqm 5, L bqm 0], st (L bqm 2) .mulM [L bqm 6, L bqm 1],
      st (L bqm 1) .mulM [L bqm 5, L bqm 1], st (L bqm 1) .add [L bqm 1, L bqm 1] ]
   else
    [ st (L o 0) .mulM [L bq 0, L t1 0], st c2 .mulM [L bq 1, L t1 1],
      st (L o 1) .mulM [L bq 0, L t1 1], st (L o 1) .mulMAdd [L bq 1, L t1 0, L o 1],
      st (L bqm 0) .mulM [L bqm 5, L bqm 3], st (L bqm 2) .mulM [L bqm 6, L bqm 4],
      st (L bqm 1) .mulM [L bqm 5, L bqm 4], st (L bqm 1) .mulMAdd [L bqm 6, L bqm 3, L bqm 1] ]) ++
  -- quantize ×3
  [ st (L o 0) .quant [L o 0, L bqm 0], st (L o 1) .quant [L o 1, L bqm 1], st c2 .quant [c2, L bqm 2] ] ++
  (if relin then
    [ st (L bqp 1) .gp0 [c2], st (L bqp 2) .gp1 [c2],
      st (L o 0) .add [L o 0, L bqp 1], st (L o 1) .add [L o 1, L bqp 2] ]
   else []) ++
  -- opOut.Scale = MulScaleInvariant(params, ct0.Scale, tmp1Q0.Scale, level)   (evaluator.go:1037)
  [ st (L o fScale) .sinv [L a fScale, L t1 fScale] ]

/-! ### bgv.matchScaleThenEvaluateInPlace, degree 1 ⊕ degree 1 -/

/-- a heap object allocated inside a call (`el1.CopyNew()` of fix C05-4) -/
def heapTmp : Nat := 14

/-- code with fix C05-4: `if el1 == elOut.El() { el1 = el1.CopyNew() }` before the receiver is written -/
def bgvMatchScaleProg (p : Pat) : Prog :=
  let a := p.op0; let b := p.op1; let o := p.out
  let b' := if b = o then heapTmp else b
  [ st (L bq 5) .r0 [L a fScale, L b fScale],     -- r0, r1 are Go locals: two scratch cells
    st (L bq 6) .r1 [L a fScale, L b fScale] ] ++
  (if b = o then [ st (L heapTmp 0) .copy [L b 0], st (L heapTmp 1) .copy [L b 1],
                   st (L heapTmp fScale) .copy [L b fScale], st (L heapTmp fMeta) .copy [L b fMeta] ] else []) ++
  [ st (L o 0) .mulS [L bq 5, L a 0],
    st (L o 1) .mulS [L bq 5, L a 1],
    st (L o 0) .mulSAdd [L b' 0, L bq 6, L o 0],
    st (L o 1) .mulSAdd [L b' 1, L bq 6, L o 1],
    st (L o fScale) .smul [L a fScale, L bq 5] ]

/-- the code BEFORE fix C05-4 (kept for the counterexample) -/
def bgvMatchScaleProgOld (p : Pat) : Prog :=
  let a := p.op0; let b := p.op1; let o := p.out
  [ st (L bq 5) .r0 [L a fScale, L b fScale],     -- r0, r1 are Go locals: two scratch cells
    st (L bq 6) .r1 [L a fScale, L b fScale],
    st (L o 0) .mulS [L bq 5, L a 0],
    st (L o 1) .mulS [L bq 5, L a 1],
    st (L o 0) .mulSAdd [L b 0, L bq 6, L o 0],
    st (L o 1) .mulSAdd [L b 1, L bq 6, L o 1],
    st (L o fScale) .smul [L a fScale, L bq 5] ]

/-! ### bgv.Add / bgv.Mul with a `*big.Int` operand (op1 is the caller's big.Int, object `bigArg`) -/

/-- code with fixes C05-1 (the scalar is normalised in a NEW big.Int: cell 7 of `bq` is that local) and
    C05-2 (`opOut.Scale = op0.Scale`) -/
def bgvAddBigProg (p : Pat) : Prog :=
  let a := p.op0; let o := p.out
  [ st (L o fScale) .copy [L a fScale],
    st (L bq 7) .bigScale [L bigArg 0, L a fScale],
    st (L bq 7) .bigModT [L bq 7],
    st (L bq 7) .bigCenter [L bq 7],
    st (L bq 7) .bigTInv [L bq 7],
    st (L o 0) .addBig [L a 0, L bq 7] ] ++
  (if a ≠ o then [st (L o 1) .copy [L a 1]] else [])

def bgvMulBigProg (p : Pat) : Prog :=
  let a := p.op0; let o := p.out
  [ st (L o fScale) .copy [L a fScale],
    st (L bq 7) .bigModT [L bigArg 0],
    st (L bq 7) .bigCenter [L bq 7],
    st (L o 0) .mulBig [L a 0, L bq 7],
    st (L o 1) .mulBig [L a 1, L bq 7] ]

/-- the code BEFORE fix C05-1: the caller's big.Int was normalised in place (kept for the counterexamples) -/
def bgvAddBigProgOld (p : Pat) : Prog :=
  let a := p.op0; let o := p.out
  [ st (L bigArg 0) .bigScale [L bigArg 0, L a fScale],
    st (L bigArg 0) .bigModT [L bigArg 0],
    st (L bigArg 0) .bigCenter [L bigArg 0],
    st (L bigArg 0) .bigTInv [L bigArg 0],
    st (L o 0) .addBig [L a 0, L bigArg 0] ] ++
  (if a ≠ o then [st (L o 1) .copy [L a 1]] else [])

def bgvMulBigProgOld (p : Pat) : Prog :=
  let a := p.op0; let o := p.out
  [ st (L bigArg 0) .bigModT [L bigArg 0],
    st (L bigArg 0) .bigCenter [L bigArg 0],
    st (L o 0) .mulBig [L a 0, L bigArg 0],
    st (L o 1) .mulBig [L a 1, L bigArg 0] ]

/-! ### rlwe.Evaluator.Automorphism (galEl ≠ 1) — unary: `op0` is ctIn -/

def rlweAutProg (p : Pat) : Prog :=
  let a := p.op0; let o := p.out
  [ st (L bqp 0) .gp0 [L a 1], st (L bqp 1) .gp1 [L a 1],
    st (L bqp 0) .add [L bqp 0, L a 0],
    st (L o 0) .aut [L bqp 0], st (L o 1) .aut [L bqp 1],
    st (L o fScale) .copy [L a fScale], st (L o fMeta) .copy [L a fMeta] ]

/-! ### rlwe.Evaluator.PartialTracesSum (the core of InnerSum/Replicate), NTT-domain input -/

/-- one iteration of the binary reading of `n` (inner_sum.go:215-279); `cp` is the Go flag `copy`,
    `stt` the flag `state`; returns the steps and the new flags -/
def ptsIter (o : Nat) (n i j : Nat) (cp stt : Bool) : Prog × Bool × Bool :=
  let k := n - (n % (2 ^ (i + 1)))
  let odd : Prog × Bool × Bool :=
    if j % 2 = 1 then
      if k ≠ 0 then
        if cp then
          ([ st (L bqp 2) .autLazy0 [L bct 0, L bct 1], st (L bqp 3) .autLazy1 [L bct 0, L bct 1] ], false, stt)
        else
          ([ st (L bqp 4) .autLazy0 [L bct 0, L bct 1], st (L bqp 5) .autLazy1 [L bct 0, L bct 1],
             st (L bqp 2) .add [L bqp 2, L bqp 4], st (L bqp 3) .add [L bqp 3, L bqp 5] ], cp, stt)
      else
        if n % (2 ^ (Nat.log2 n)) ≠ 0 then   -- n & (n-1) ≠ 0
          ([ st (L o 0) .modDown [L bqp 2], st (L o 1) .modDown [L bqp 3],
             st (L o 0) .add [L o 0, L bct 0], st (L o 1) .add [L o 1, L bct 1] ], cp, true)
        else
          ([ st (L o 0) .copy [L bct 0], st (L o 1) .copy [L bct 1] ], cp, true)
    else ([], cp, stt)
  let (p1, cp1, stt1) := odd
  if !stt1 then
    (p1 ++ [ st (L bqp 4) .autH0 [L bct 0, L bct 1], st (L bqp 5) .autH1 [L bct 0, L bct 1],
             st (L bct 0) .add [L bct 0, L bqp 4], st (L bct 1) .add [L bct 1, L bqp 5] ], cp1, stt1)
  else (p1, cp1, stt1)

def ptsLoop (o n : Nat) : Nat → Nat → Nat → Bool → Bool → Prog
  | 0, _, _, _, _ => []
  | fuel + 1, i, j, cp, stt =>
    if j = 0 then [] else
    let (p, cp', stt') := ptsIter o n i j cp stt
    p ++ ptsLoop o n fuel (i + 1) (j / 2) cp' stt'

def rlwePTSProg (n : Nat) (p : Pat) : Prog :=
  let a := p.op0; let o := p.out
  [ st (L o fScale) .copy [L a fScale], st (L o fMeta) .copy [L a fMeta],
    st (L bct 0) .copy [L a 0], st (L bct 1) .copy [L a 1] ] ++
  (if n = 1 then
     (if a ≠ o then [st (L o 0) .copy [L a 0], st (L o 1) .copy [L a 1]] else [])
   else ptsLoop o n (n + 1) 0 n true false)

/-! ### ring.DivRoundByLastModulus (two limbs below the last one: fields 0,1; last limb field 2)
    `op0` = p0, `out` = p1 -/

/-- the code as of /repo HEAD (since commit 64e1afc, ring/scaling.go:113-147): the centred last limb
    is staged in the LAST ROW OF THE OUTPUT (`p1[level-1]`, evaluated last), or in `p0[level]` when
    the evaluation is in place (`utils.Alias1D(p0[level-1], p1[level-1])`). -/
def divRoundProg (p : Pat) : Prog :=
  let a := p.op0; let o := p.out
  let buff := if a = o then L a 2 else L o 1
  [ st buff .addHalf [L a 2],
    st (L o 0) .divStep [buff, L a 0], st (L o 0) .addC [L o 0],
    st (L o 1) .divStep [buff, L a 1], st (L o 1) .addC [L o 1] ]

/-- the code BEFORE commit 64e1afc (found by this property's reading, fixed meanwhile): it centred
    and negated the input limbs in place. Kept for the counterexample. -/
def divRoundProgOld (p : Pat) : Prog :=
  let a := p.op0; let o := p.out
  [ st (L a 2) .addHalf [L a 2],
    st (L a 0) .negAdd [L a 0], st (L o 0) .divStep [L a 2, L a 0],
    st (L a 1) .negAdd [L a 1], st (L o 1) .divStep [L a 2, L a 1] ]

/-- ring.DivRoundByLastModulusNTT(p0, buff, p1): `buff` is scratch object `bq` -/
def divRoundNTTProg (p : Pat) : Prog :=
  let a := p.op0; let o := p.out
  [ st (L bq 2) .inttL [L a 2], st (L bq 2) .addHalf [L bq 2],
    st (L bq 0) .nttStep [L bq 2], st (L o 0) .divStep [L bq 0, L a 0],
    st (L bq 1) .nttStep [L bq 2], st (L o 1) .divStep [L bq 1, L a 1] ]

/-! ### Element.Resize and the degree chosen by Add/Sub (`InitOutputBinaryOp`)
    A ciphertext is the list of its polynomials. -/

/-- rlwe.Element.Resize, degree part (element.go:170-177) -/
def resize {α : Type} (zero : α) (degree : Nat) (v : List α) : List α :=
  if v.length > degree + 1 then v.take (degree + 1)
  else v ++ List.replicate (degree + 1 - v.length) zero

/-- ckks/bgv `Add(op0, op1, opOut)` for ciphertext operands of equal scale, on the polynomial lists:
    `degree = max(op0.Degree, op1.Degree, opOut.Degree)` (evaluator.go:168-169), `opOut.Resize(degree)`,
    evaluate on the common prefix, copy the rest of the larger operand; positions above
    `max(op0.Degree, op1.Degree)` are NOT touched. -/
def addLists {α : Type} (add : α → α → α) : List α → List α → List α
  | [], ys => ys
  | xs, [] => xs
  | x :: xs, y :: ys => add x y :: addLists add xs ys

def addInto {α : Type} (zero : α) (add : α → α → α) (op0 op1 out : List α) : List α :=
  let degree := max (op0.length - 1) (op1.length - 1)   -- since fix C09-2 the receiver's degree is not taken
  let out' := resize zero degree out
  let s := addLists add op0 op1
  s ++ out'.drop s.length

/-- Add BEFORE fix C09-2: `degree = max(op0.Degree, op1.Degree, opOut.Degree)` -/
def addIntoOld {α : Type} (zero : α) (add : α → α → α) (op0 op1 out : List α) : List α :=
  let degree := max (max (op0.length - 1) (op1.length - 1)) (out.length - 1)
  let out' := resize zero degree out
  let s := addLists add op0 op1
  s ++ out'.drop s.length

/-! ### degrees 0/1/2 in the pointer-branching routines -/

/-- degree part of `Element.Resize(degree, ·)` on object `o` of current degree `d` (element.go:170-177):
    the polynomials `d+1 … degree` are freshly allocated, i.e. zero; a larger degree is cut (no write) -/
def resizeSteps (o d degree : Nat) : Prog :=
  (fromTo (d + 1) (degree - d)).map fun i => st (L o i) .zero []

def setDeg (deg : Nat → Nat) (o d : Nat) : Nat → Nat := fun x => if x = o then d else deg x

/-- `eval.Mul(src, ratioInt, dst)` on ALL `dsrc+1` polynomials of `src` (ckks.Mul, scalar case: it resizes
    `dst` to the degree of `src` — no change here: `dst` is `src`, or the view `BuffCt.Value[:dsrc+1]`) -/
def ckksScaleInto (src dst dsrc : Nat) (dstScale : Bool) : Prog :=
  (fromTo 0 (dsrc + 1)).map (fun i => st (L dst i) .scal [L bct fScale, L src i]) ++
  (if dstScale then [st (L dst fScale) .copy [L src fScale]] else [])

/-- the three cases of `evaluateInPlace` (evaluator.go:263-398): steps before the loop, object of `tmp0`,
    object of `tmp1`; `d0 d1` are the degrees AFTER the receiver was resized -/
def ckksAlign (p : Pat) (d0 d1 : Nat) (cmp : Ordering) : Prog × Nat × Nat :=
  let a := p.op0; let b := p.op1; let o := p.out
  let ratioAB := st (L bct fScale) .ratio [L a fScale, L b fScale]
  let ratioBA := st (L bct fScale) .ratio [L b fScale, L a fScale]
  if o = a then
    match cmp with
    | .gt => ([ratioAB] ++ ckksScaleInto b bct d1 false, a, bct)
    | .lt => ([ratioBA] ++ ckksScaleInto a a d0 true ++ [st (L o fScale) .copy [L b fScale]], a, b)
    | .eq => ([], a, b)
  else if o = b then
    match cmp with
    | .gt => ([ratioAB] ++ ckksScaleInto b o d1 true ++ [st (L o fScale) .copy [L a fScale]], a, b)
    | .lt => ([ratioBA] ++ ckksScaleInto a bct d0 false, bct, b)
    | .eq => ([], a, b)
  else
    match cmp with
    | .gt => ([ratioAB] ++ ckksScaleInto b bct d1 false, a, bct)
    | .lt => ([ratioBA] ++ ckksScaleInto a bct d0 false, bct, b)
    | .eq => ([], a, b)

/-- ckks.Add / ckks.Sub (`sub`) with an element operand, any degrees (evaluator.go:62-80 / 158-184 and
    evaluateInPlace 246-431).  `deg` gives the degree of every object BEFORE the call.
      degree := max(op0.Degree(), op1.Degree());  opOut.Resize(degree, level)
      evaluateInPlace: scale alignment (`ckksAlign`), `evaluate` on the common polynomials, Scale,
        then `if c0.Degree() > c1.Degree() && &tmp0.Element != opOut.El()` copy of tmp0's higher polynomials,
        `else if c1.Degree() > c0.Degree() && &tmp1.Element != opOut.El()` copy of tmp1's — `tmp1` is a fresh
        `&rlwe.Ciphertext{Element: *c1}`, so that second pointer test is always true (with `opOut == op1` the
        polynomials are copied onto themselves);
      Sub: `if op0.Degree() < op1.Degree()` (degrees read after the resize) negate the higher polynomials. -/
def ckksAddProg (sub : Bool) (p : Pat) (deg : Nat → Nat) (cmp : Ordering) : Prog :=
  let a := p.op0; let b := p.op1; let o := p.out
  let evf : Fn := if sub then .evs else .ev
  let degree := max (deg a) (deg b)
  let deg' := setDeg deg o degree
  let d0 := deg' a; let d1 := deg' b
  let mn := min d0 d1
  let al := ckksAlign p d0 d1 cmp
  let t0 := al.2.1; let t1 := al.2.2
  resizeSteps o (deg o) degree ++ al.1 ++
  (fromTo 0 (mn + 1)).map (fun i => st (L o i) evf [L t0 i, L t1 i]) ++
  [st (L o fScale) .smax [L a fScale, L b fScale]] ++
  (if d0 > d1 ∧ t0 ≠ o then (fromTo (mn + 1) (d0 - mn)).map fun i => st (L o i) .copy [L t0 i]
   else if d1 > d0 then (fromTo (mn + 1) (d1 - mn)).map fun i => st (L o i) .copy [L t1 i]
   else []) ++
  (if sub ∧ d0 < d1 then (fromTo (d0 + 1) (d1 - d0)).map fun i => st (L o i) .neg [L o i] else [])

/-- result of building the program of a call: the code may reject the operands (`err`) or panic -/
inductive Gen (β : Type)
  | ok (x : β) | err | panic
deriving DecidableEq, Repr

/-- ckks.Add/Sub: InitOutputBinaryOp rejects two degree-0 operands; result degree = max -/
def ckksAddGen (sub : Bool) (p : Pat) (deg : Nat → Nat) (cmp : Ordering) : Gen (Prog × Nat) :=
  if deg p.op0 + deg p.op1 = 0 then .err
  else .ok (ckksAddProg sub p deg cmp, max (deg p.op0) (deg p.op1))

/-- THE CODE BEFORE COMMIT e9e846c (fix C09-6; HEAD is `tensorGenDFixed`, kept for the counterexample):
    ckks.Mul/MulRelin → mulRelin (`bgv = false`, evaluator.go:786-894) and bgv.Mul/MulRelin → tensorStandard
    (`bgv = true`, evaluator.go:674-768) for operands of degree 0/1/2 and a receiver of any previous degree.
    InitOutputBinaryOp(…, 2, …) rejects total degree 0 and > 2; bgv rejects op0 of degree 0 (fix C05-9).
    * 1 ⊗ 1: `c0, c1 = opOut.Value[0], opOut.Value[1]` were taken BEFORE the receiver is resized to degree 2
      (1 with relinearisation): a receiver of degree 0 PANICKED (index out of range) — finding
      C09/mul-receiver-degree0-panics; otherwise `tensorProg`, preceded by the zero polynomial `Resize` appends.
    * otherwise ("Plaintext (x) Ciphertext"): ckks — `MForm` of the degree-0 operand's polynomial into buffQ[0]
      (op0's when op0 has degree 0, else op1's), `c1 :=` the other operand's polynomials, `opOut.Resize(max)`,
      `opOut[i] = buffQ[0] · c1[i]`;  bgv — `opOut.Resize(op0.Degree())` FIRST, `buffQ[0] = T·op1[0]`,
      `opOut[i] = op0[i] · buffQ[0]`. -/
def tensorGenD (bgv : Bool) (relin : Bool) (p : Pat) (deg : Nat → Nat) : Gen (Prog × Nat) :=
  let a := p.op0; let b := p.op1; let o := p.out
  let d0 := deg a; let d1 := deg b
  let pre : Fn := if bgv then .mulT else .mform
  if d0 + d1 = 0 ∨ d0 + d1 > 2 then .err
  else if bgv ∧ d0 = 0 then .err
  else if d0 = 1 ∧ d1 = 1 then
    if deg o = 0 then .panic
    else .ok ((if relin then [] else resizeSteps o (deg o) 2) ++ tensorProg pre relin p, if relin then 1 else 2)
  else
    let scale := st (L o fScale) .smul [L a fScale, L b fScale]
    if bgv then
      .ok ([scale] ++ resizeSteps o (deg o) d0 ++ [st (L bq 0) pre [L b 0]] ++
           (fromTo 0 (d0 + 1)).map (fun i => st (L o i) .mulM [L a i, L bq 0]), d0)
    else if d0 = 0 then
      .ok ([scale, st (L bq 0) pre [L a 0]] ++ resizeSteps o (deg o) (max d0 d1) ++
           (fromTo 0 (d1 + 1)).map (fun i => st (L o i) .mulM [L bq 0, L b i]), max d0 d1)
    else
      .ok ([scale, st (L bq 0) pre [L b 0]] ++ resizeSteps o (deg o) (max d0 d1) ++
           (fromTo 0 (d0 + 1)).map (fun i => st (L o i) .mulM [L bq 0, L a i]), max d0 d1)

/-- HEAD (commit e9e846c, patch fixes/C09-6): the receiver is resized to degree 2 (1 with relinearisation) FIRST,
    then `c0, c1 = opOut.Value[0], opOut.Value[1]`: a receiver of degree 0 is extended by zero polynomials like
    any other; everything else as in `tensorGenD` -/
def tensorGenDFixed (bgv : Bool) (relin : Bool) (p : Pat) (deg : Nat → Nat) : Gen (Prog × Nat) :=
  if deg p.op0 = 1 ∧ deg p.op1 = 1 ∧ deg p.out = 0 ∧ ¬(bgv ∧ deg p.op0 = 0) then
    .ok ((if relin then resizeSteps p.out 0 1 else resizeSteps p.out 0 2) ++
         tensorProg (if bgv then .mulT else .mform) relin p, if relin then 1 else 2)
  else tensorGenD bgv relin p deg

/-! ### shapes: degree and levels of the receiver through the `Resize` calls of an operation -/

/-- levels of `Value[0], Value[1], …` of an element (`level = len(Coeffs) - 1`); never empty -/
abbrev Shape := List Nat

def Shape.level (s : Shape) : Nat := s.headD 0
def Shape.degree (s : Shape) : Nat := s.length - 1

/-- rlwe.Element.Resize(degree, level) BEFORE COMMIT 114cfa0 (fix C09-7; HEAD is `resizeShapeFixed`, kept for
    the counterexample):
      if op.Level() != level { every polynomial is resized to level }      — `op.Level()` is `Value[0]`'s
      cut to degree+1 polynomials, or append new polynomials AT `level` -/
def resizeShape (s : Shape) (degree level : Nat) : Shape :=
  let s1 := if s.level = level then s else s.map fun _ => level
  if s1.length > degree + 1 then s1.take (degree + 1)
  else s1 ++ List.replicate (degree + 1 - s1.length) level

/-- rlwe.Element.Resize(degree, level) at HEAD (commit 114cfa0, core/rlwe/element.go:160-182): EVERY polynomial is
    resized to `level`, then the element is cut to degree+1 polynomials or extended by polynomials at `level` -/
def resizeShapeFixed (s : Shape) (degree level : Nat) : Shape :=
  let s1 := s.map fun _ => level
  if s1.length > degree + 1 then s1.take (degree + 1)
  else s1 ++ List.replicate (degree + 1 - s1.length) level

def setSh (sh : Nat → Shape) (o : Nat) (s : Shape) : Nat → Shape := fun x => if x = o then s else sh x

/-- the operations of the `shape` tie -/
inductive OpS
  | addLike            -- ckks/bgv Add, Sub with an element operand
  | ckksMul (relin : Bool)     -- ckks.Mul / MulRelin with an element operand
  | bgvMul (relin : Bool)      -- bgv.Mul / MulRelin (standard tensoring)
  | bgvMulSI (relin : Bool)    -- bgv.MulScaleInvariant / MulRelinScaleInvariant
  | unaryBig           -- bgv.Add / bgv.Mul with a *big.Int (InitOutputUnaryOp)
  | rlweAut            -- rlwe.Automorphism (galEl ≠ 1)
  | rlwePTS            -- rlwe.PartialTracesSum
deriving DecidableEq, Repr

/-- which of the two patches reported by this property the code under /repo carries: the model follows HEAD
    (both since commits e9e846c / 114cfa0).
    `headFix6` = fixes/C09-6 (the receiver is resized before `c0, c1` are taken: no panic on a degree-0
    receiver), `headFix7` = fixes/C09-7 (`Element.Resize` resizes every polynomial). -/
def headFix6 : Bool := true
def headFix7 : Bool := true

/-- the receiver's shape after the `Resize` calls of the operation, in program order; the degrees and
    levels of the operands are read from the CURRENT shapes (an operand that is the receiver has been
    resized with it).  `rs` is `Element.Resize` on shapes (`resizeShape`, or `resizeShapeFixed` with patch C09-7),
    `fix6` says whether the products resize the receiver before they index it (patch C09-6). -/
def OpS.resizesG (rs : Shape → Nat → Nat → Shape) (fix6 : Bool) (op : OpS) (p : Pat) (sh : Nat → Shape) : Gen Shape :=
  let a := p.op0; let b := p.op1; let o := p.out
  let d0 := (sh a).degree; let d1 := (sh b).degree
  let lvl3 := min (min (sh a).level (sh b).level) (sh o).level
  match op with
  | .addLike =>
    if d0 + d1 = 0 then .err
    else .ok (rs (sh o) (max d0 d1) lvl3)
  | .ckksMul relin =>
    if d0 + d1 = 0 ∨ d0 + d1 > 2 then .err else
    let sh1 := setSh sh o (rs (sh o) (sh o).degree lvl3)
    let level := (sh1 o).level
    if (sh1 a).degree = 1 ∧ (sh1 b).degree = 1 then
      if fix6 = false ∧ (sh1 o).degree = 0 then .panic
      else .ok (rs (sh1 o) (if relin then 1 else 2) level)
    else .ok (rs (sh1 o) (max (sh1 a).degree (sh1 b).degree) level)
  | .bgvMul relin =>
    if d0 + d1 = 0 ∨ d0 + d1 > 2 then .err else
    let sh1 := setSh sh o (rs (sh o) (sh o).degree lvl3)
    let level := (sh1 o).level
    if (sh1 a).degree = 0 then .err
    else if (sh1 a).degree = 1 ∧ (sh1 b).degree = 1 then
      if fix6 = false ∧ (sh1 o).degree = 0 then .panic
      else .ok (rs (sh1 o) (if relin then 1 else 2) level)
    else .ok (rs (sh1 o) (sh1 a).degree level)
  | .bgvMulSI relin =>
    if d0 + d1 = 0 ∨ d0 + d1 > 2 then .err else
    let sh1 := setSh sh o (rs (sh o) (sh o).degree lvl3)
    let level := (sh1 o).level
    if (sh1 a).degree = 0 then .err
    else if (sh1 b).degree = 0 then .ok (rs (sh1 o) (sh1 a).degree level)
    else .ok (rs (sh1 o) (if relin then 1 else 2) level)
  | .unaryBig => .ok (rs (sh o) d0 (min (sh a).level (sh o).level))
  | .rlweAut =>
    if d0 ≠ 1 ∨ (sh o).degree ≠ 1 then .err
    else .ok (rs (sh o) (sh o).degree (min (sh a).level (sh o).level))
  | .rlwePTS =>
    if d0 ≠ 1 then .err else .ok (rs (sh o) 1 (sh a).level)

/-- the receiver's shape after the call: every polynomial of the receiver is then written by ring
    operations at the level of `Value[0]`; a polynomial that `Resize` left SHORTER than that makes them
    panic (index out of range) -/
def OpS.shapeAfterG (rs : Shape → Nat → Nat → Shape) (fix6 : Bool) (op : OpS) (p : Pat) (sh : Nat → Shape) : Gen Shape :=
  match op.resizesG rs fix6 p sh with
  | .ok s => if s.any (· < s.level) then .panic else .ok s
  | r => r

/-- the code BEFORE commits e9e846c / 114cfa0 (without the two patches) -/
def OpS.shapeAfter (op : OpS) (p : Pat) (sh : Nat → Shape) : Gen Shape := op.shapeAfterG resizeShape false p sh

/-- the code WITH patches C09-6 and C09-7 (= HEAD) -/
def OpS.shapeAfterFixed (op : OpS) (p : Pat) (sh : Nat → Shape) : Gen Shape := op.shapeAfterG resizeShapeFixed true p sh

/-- the code at HEAD -/
def OpS.shapeAfterHead (op : OpS) (p : Pat) (sh : Nat → Shape) : Gen Shape :=
  op.shapeAfterG (if headFix7 then resizeShapeFixed else resizeShape) headFix6 p sh

/-- the level the documentation promises for the receiver: `min(op0.Level(), op1.Level(), opOut.Level())`
    (InitOutputBinaryOp / InitOutputUnaryOp), the input's level for PartialTracesSum -/
def OpS.docLevel (op : OpS) (l0 l1 lOut : Nat) : Nat :=
  match op with
  | .unaryBig | .rlweAut => min l0 lOut
  | .rlwePTS => l0
  | _ => min (min l0 l1) lOut

/-- the degree the receiver must have after an accepted call -/
def OpS.docDegree (op : OpS) (d0 d1 dOut : Nat) : Nat :=
  match op with
  | .addLike => max d0 d1
  | .ckksMul relin => if d0 = 1 ∧ d1 = 1 then (if relin then 1 else 2) else max d0 d1
  | .bgvMul relin | .bgvMulSI relin => if d0 = 1 ∧ d1 = 1 then (if relin then 1 else 2) else d0
  | .unaryBig => d0
  | .rlweAut => dOut
  | .rlwePTS => 1

/-! ### encryptor, decryptor, key-generation protocols (degree 1, one RNS row): which argument is read, which
    buffer is written, in program order.  A draw of a sampler is a step without arguments (`tag k`). -/

/-- rlwe.Encryptor.Encrypt(pt, ct) under a secret key, NTT-domain target of degree 1 (core/rlwe/encryptor.go:148-166,
    368-442): `*ct.MetaData = *pt.MetaData`; c1 := uniform draw INTO ct.Value[1]; c0 := -(c1·sk); e := Gaussian draw into
    buffQP[0].Q, NTT; c0 += e; c0 += pt.   Roles: op0 = pt, op1 = sk, out = ct. -/
def encryptSkProg (p : Pat) : Prog :=
  let pt := p.op0; let sk := p.op1; let o := p.out
  [ st (L o fScale) .copy [L pt fScale], st (L o fMeta) .copy [L pt fMeta],
    st (L o 1) (.tag 1) [],
    st (L o 0) .mulM [L o 1, L sk 0], st (L o 0) .neg [L o 0],
    st (L encBuf 0) (.tag 2) [], st (L encBuf 0) .ntt [L encBuf 0],
    st (L o 0) .add [L o 0, L encBuf 0],
    st (L o 0) .add [L o 0, L pt 0] ]

/-- rlwe.Decryptor.Decrypt(ct, pt), degree-1 ciphertext (core/rlwe/decryptor.go:50-88); `ntt` = ct.IsNTT.
    Roles: op0 = ct, op1 = sk, out = pt. -/
def decryptProg (ntt : Bool) (p : Pat) : Prog :=
  let ct := p.op0; let sk := p.op1; let o := p.out
  [ st (L o fScale) .copy [L ct fScale], st (L o fMeta) .copy [L ct fMeta] ] ++
  (if ntt then
    [ st (L o 0) .copy [L ct 1], st (L o 0) .mulM [L o 0, L sk 0], st (L o 0) .add [L o 0, L ct 0],
      st (L o 0) .reduce [L o 0] ]
   else
    [ st (L o 0) .ntt [L ct 1], st (L o 0) .mulM [L o 0, L sk 0],
      st (L decBuf 0) .ntt [L ct 0], st (L o 0) .add [L o 0, L decBuf 0],
      st (L o 0) .reduce [L o 0], st (L o 0) .intt [L o 0] ])

/-- multiparty.PublicKeyGenProtocol.GenShare(sk, crp, shareOut) (multiparty/keygen_cpk.go:70-83).
    Roles: op0 = sk, `crpArg` = crp, out = share. -/
def ckgGenShareProg (p : Pat) : Prog :=
  let sk := p.op0; let o := p.out
  [ st (L o 0) (.tag 3) [], st (L o 0) .extend [L o 0], st (L o 0) .ntt [L o 0], st (L o 0) .mform [L o 0],
    st (L o 0) .mulMSub [L sk 0, L crpArg 0, L o 0] ]

/-- one base-two digit `j` of EvaluationKeyGenProtocol.GenShare -/
def evkDigit (hasP : Bool) (skOut o work : Nat) (j : Nat) : Prog :=
  [ st (L o j) (.tag (10 + j)) [] ] ++
  (if hasP then [st (L o j) .extend [L o j]] else []) ++
  [ st (L o j) .ntt [L o j], st (L o j) .mform [L o j],
    st (L o j) .add [L o j, L work 0],
    st (L o j) .mulMSub [L crpArg j, L skOut 0, L o j],
    st (L work 0) .mulS2 [L work 0] ]

/-- multiparty.EvaluationKeyGenProtocol.GenShare(skIn, skOut, crp, shareOut), one RNS row, `digits` base-two digits
    (multiparty/keygen_evk.go:115-210): skIn is first brought into `evkg.buff[0].Q` — multiplied by P when the key has an
    auxiliary modulus, COPIED otherwise — and that buffer is multiplied by 2^w after every digit.
    Roles: op0 = skIn, op1 = skOut, `crpArg` = crp, out = share (field j = digit j). -/
def evkGenShareProg (hasP : Bool) (digits : Nat) (p : Pat) : Prog :=
  let skIn := p.op0; let skOut := p.op1; let o := p.out
  [ if hasP then st (L protoBuf 0) .mulP [L skIn 0] else st (L protoBuf 0) .copy [L skIn 0] ] ++
  (fromTo 0 digits).flatMap (evkDigit hasP skOut o protoBuf)

/-- a variant that is NOT input-preserving (the shape of a seeded regression; never the code of /repo): without an
    auxiliary modulus the working polynomial IS skIn's, and the multiplication by 2^w after each digit rewrites the
    caller's secret key -/
def evkGenShareProgInPlace (digits : Nat) (p : Pat) : Prog :=
  (fromTo 0 digits).flatMap (evkDigit false p.op1 p.out p.op0)

/-! ### the interpretation used by the driver and the counterexamples: `Int`, every symbol a
    different affine/multiplicative map so that distinct expressions get distinct values on the
    test store -/

def intFn : Fn → List Int → Int
  | .copy, [x] => x
  | .zero, _ => 0
  | .mform, [x] => x
  | .mulT, [x] => 7 * x
  | .mulM, [x, y] => x * y
  | .mulMAdd, [c, y, acc] => acc + c * y
  | .add, [x, y] => x + y
  | .ev, [x, y] => x + y
  | .evs, [x, y] => x - y
  | .neg, [x] => -x
  | .ratio, [s, t] => s / t
  | .scal, [r, x] => r * x
  | .smax, [s, t] => max s t
  | .dmax, [s, t] => max s t
  | .smul, [s, t] => s * t
  | .sinv, [s, t] => 5 * (s * t)
  | .r0, [_, t] => t
  | .r1, [s, _] => s
  | .mulS, [r, x] => r * x
  | .mulSAdd, [x, r, acc] => acc + r * x
  | .gp0, [x] => 11 * x
  | .gp1, [x] => 13 * x
  | .aut, [x] => 17 * x + 1
  | .intt, [x] => x + 100
  | .modup, [x] => 3 * x + 1
  | .mformM, [x] => x
  | .quant, [x, y] => x + 19 * y
  | .bigScale, [x, s] => x * s
  | .bigModT, [x] => x % 65537
  | .bigCenter, [x] => if x > 32768 then x - 65537 else x
  | .bigTInv, [x] => 29 * x
  | .addBig, [p, s] => p + s
  | .mulBig, [p, s] => p * s
  | .addHalf, [x] => x + 5
  | .negAdd, [x] => -(x + 3)
  | .addC, [x] => x + 47
  | .divStep, [x, y] => 23 * (x + y)
  | .inttL, [x] => x + 1000
  | .nttStep, [x] => 2 * x + 9
  | .autLazy0, [x, y] => 31 * x + y
  | .autLazy1, [x, y] => x + 37 * y
  | .autH0, [x, y] => 41 * x + y
  | .autH1, [x, y] => x + 43 * y
  | .modDown, [x] => x - 2
  | .ntt, [x] => 3 * x + 2
  | .reduce, [x] => x
  | .mulMSub, [a, b, acc] => acc - a * b
  | .extend, [x] => x + 1
  | .mulP, [x] => 53 * x
  | .mulS2, [x] => 4 * x
  | .tag k, _ => k
  | _, _ => 0

def intI : Interp Int := ⟨intFn, fun a b => compare a b⟩

/-- test store: pairwise distinct values everywhere; object `o`, field `f` ↦ 1000·(o+1) + 10·f + 3,
    scales (field 8): object 0 ↦ 6, object 1 ↦ 2, others 4 -/
def testStore : Store Int := ⟨fun l =>
  if l.fld = fScale then (if l.obj = 0 then 6 else if l.obj = 1 then 2 else 4)
  else if l.obj = 5 then 100000   -- the caller's big.Int: larger than T = 65537, centred value negative
  else 1000 * (l.obj + 1) + 10 * l.fld + 3⟩

/-- the operations the driver knows -/
inductive Op
  | ckksEval | ckksMul | ckksMulRelin | bgvTensor | bgvTensorRelin | bgvTensorSI | bgvTensorSIRelin
  | bgvMatchScale | bgvAddBig | bgvMulBig | rlweAut | rlwePTS (n : Nat) | divRound | divRoundNTT
  | encryptSk | decrypt (ntt : Bool) | ckgGenShare | evkGenShare (hasP : Bool) (digits : Nat)
deriving DecidableEq, Repr

/-- the arithmetic part of an operation -/
def Op.valueProg {α : Type} (I : Interp α) (op : Op) (p : Pat) (σ : Store α) : Prog :=
  match op with
  | .ckksEval => ckksEvalProg p (I.cmp (σ (L p.op0 fScale)) (σ (L p.op1 fScale)))
  | .ckksMul => ckksMulRelinProg false p
  | .ckksMulRelin => ckksMulRelinProg true p
  | .bgvTensor => bgvTensorStandardProg false p
  | .bgvTensorRelin => bgvTensorStandardProg true p
  | .bgvTensorSI => bgvTensorSIProg false p
  | .bgvTensorSIRelin => bgvTensorSIProg true p
  | .bgvMatchScale => bgvMatchScaleProg p
  | .bgvAddBig => bgvAddBigProg p
  | .bgvMulBig => bgvMulBigProg p
  | .rlweAut => rlweAutProg p
  | .rlwePTS n => rlwePTSProg n p
  | .divRound => divRoundProg p
  | .divRoundNTT => divRoundNTTProg p
  | .encryptSk => encryptSkProg p
  | .decrypt ntt => decryptProg ntt p
  | .ckgGenShare => ckgGenShareProg p
  | .evkGenShare hasP digits => evkGenShareProg hasP digits p

/-- the metadata initialisation that precedes it -/
def Op.metaProg (op : Op) (p : Pat) : Prog :=
  match op with
  | .ckksEval | .ckksMul | .ckksMulRelin | .bgvTensor | .bgvTensorRelin | .bgvTensorSI | .bgvTensorSIRelin
  | .bgvMatchScale => initBinaryMeta p
  | .bgvAddBig | .bgvMulBig => initUnaryMeta p
  | _ => []

def Op.prog {α : Type} (I : Interp α) (op : Op) (p : Pat) (σ : Store α) : Prog :=
  op.metaProg p ++ op.valueProg I p σ

def Op.exec {α : Type} (I : Interp α) (op : Op) (p : Pat) (σ : Store α) : Store α :=
  run I (op.prog I p σ) σ

/-- the fields of `out` that carry the result -/
def Op.outFields : Op → List Nat
  | .ckksMul | .bgvTensor | .bgvTensorSI => [0, 1, 2, fScale] ++ metaFields
  | .rlweAut | .rlwePTS _ => [0, 1, fScale, fMeta]
  | .divRound | .divRoundNTT => [0, 1]
  | .encryptSk => [0, 1, fScale, fMeta]
  | .decrypt _ => [0, fScale, fMeta]
  | .ckgGenShare => [0]
  | .evkGenShare _ digits => fromTo 0 digits
  | .bgvAddBig | .bgvMulBig => [0, 1] ++ metaFields
  | _ => [0, 1, fScale] ++ metaFields

/-- the argument objects (besides `out`) whose every field must be unchanged by the call -/
def Op.inputFields : List Nat := [0, 1, 2, fScale, fMeta] ++ metaFields

/-- `store` with the operand contents of the test store placed according to the pattern:
    role op0 has the test contents of object 0, role op1 those of object 1 (if `op0 = op1` both are
    object 0's), a distinct `out` has the contents of object 2. -/
def patStore (p : Pat) (s0 s1 : Int) : Store Int := ⟨fun l =>
  if l.obj = p.op0 then (if l.fld = fScale then s0 else testStore ⟨0, l.fld⟩)
  else if l.obj = p.op1 then (if l.fld = fScale then s1 else testStore ⟨1, l.fld⟩)
  else testStore l⟩

/-- Outcome classes of the tie lines. -/
inductive Outcome | sameAsFresh | differs
deriving DecidableEq, Repr

/-- model prediction for `alias_insensitive`: run the op under the pattern and under the
    all-distinct pattern on stores holding the same operand values; compare the result fields. -/
def predictAlias (op : Op) (al : Alias) (s0 s1 : Int) : Outcome :=
  let p := al.pat
  let d : Pat := ⟨20, 21, 22⟩
  let σp := patStore p s0 s1
  let σd : Store Int := ⟨fun l =>
    if l.obj = 20 then σp ⟨p.op0, l.fld⟩ else if l.obj = 21 then σp ⟨p.op1, l.fld⟩ else testStore l⟩
  let rp := op.exec intI p σp
  let rd := op.exec intI d σd
  if op.outFields.all (fun f => rp ⟨p.out, f⟩ == rd ⟨22, f⟩) then .sameAsFresh else .differs

/-- model prediction for `inputs_unchanged` under the all-distinct pattern:
    are all fields of op0, op1 and the big.Int argument as before? -/
def predictInputs (op : Op) (s0 s1 : Int) : Outcome :=
  let p := Alias.distinct.pat
  let σ := patStore p s0 s1
  let r := op.exec intI p σ
  if ([p.op0, p.op1, bigArg, crpArg].all fun o => Op.inputFields.all fun f => r ⟨o, f⟩ == σ ⟨o, f⟩)
  then .sameAsFresh else .differs

/-- model prediction for `hist`: the call into a receiver and with buffers that hold residue of earlier use
    (every non-input object rewritten) against the call on the test store: do the result fields agree? -/
def predictHistory (op : Op) (s0 s1 : Int) : Outcome :=
  let p := Alias.distinct.pat
  let σ := patStore p s0 s1
  let σr : Store Int := ⟨fun l =>
    if l.obj = p.op0 ∨ l.obj = p.op1 ∨ l.obj = bigArg ∨ l.obj = crpArg then σ l else 777777 + 13 * l.obj + l.fld⟩
  let r := op.exec intI p σ
  let r' := op.exec intI p σr
  if op.outFields.all (fun f => r ⟨p.out, f⟩ == r' ⟨p.out, f⟩) then .sameAsFresh else .differs

/-- model prediction for `history_free` of ct+ct Add/Sub at the level of polynomial lists:
    previous degree of the output `dOut`, operand degrees `d0 d1`. -/
def predictAddHistory (d0 d1 dOut : Nat) : Outcome :=
  let mk (base n : Nat) : List Int := (List.range (n + 1)).map fun i => (base + i : Nat)
  let r := addInto (0 : Int) (· + ·) (mk 100 d0) (mk 200 d1) (mk 900 dOut)
  let f := addInto (0 : Int) (· + ·) (mk 100 d0) (mk 200 d1) (mk 0 (max d0 d1) |>.map fun _ => 0)
  if r == f then .sameAsFresh else .differs

/-! ### predictions for the degree-aware tie lines -/

/-- the degree-aware operations the driver knows -/
inductive OpD
  | ckksAdd | ckksSub | ckksMul | ckksMulRelin | bgvMul | bgvMulRelin
deriving DecidableEq, Repr

def OpD.gen (op : OpD) (p : Pat) (deg : Nat → Nat) (cmp : Ordering) : Gen (Prog × Nat) :=
  match op with
  | .ckksAdd => ckksAddGen false p deg cmp
  | .ckksSub => ckksAddGen true p deg cmp
  | .ckksMul => if headFix6 then tensorGenDFixed false false p deg else tensorGenD false false p deg
  | .ckksMulRelin => if headFix6 then tensorGenDFixed false true p deg else tensorGenD false true p deg
  | .bgvMul => if headFix6 then tensorGenDFixed true false p deg else tensorGenD true false p deg
  | .bgvMulRelin => if headFix6 then tensorGenDFixed true true p deg else tensorGenD true true p deg

inductive OutcomeD | sameAsFresh | differs | err | panic
deriving DecidableEq, Repr

/-- degrees of the objects of a pattern: role op0 has degree `d0`, a distinct op1 `d1`, a distinct
    receiver `dOut` -/
def patDeg (p : Pat) (d0 d1 dOut : Nat) : Nat → Nat := fun x =>
  if x = p.op0 then d0 else if x = p.op1 then d1 else if x = p.out then dOut else 0

/-- model prediction for `aliasd`: the call under the pattern (receiver of previous degree `dOut` when it is
    a distinct object) against the all-distinct call into a fresh receiver of the result's degree -/
def predictAliasD (op : OpD) (al : Alias) (d0 d1 dOut : Nat) (s0 s1 : Int) : OutcomeD :=
  let p := al.pat
  let d : Pat := ⟨20, 21, 22⟩
  let d1' := if p.op1 = p.op0 then d0 else d1
  let σp := patStore p s0 s1
  let σd : Store Int := ⟨fun l =>
    if l.obj = 20 then σp ⟨p.op0, l.fld⟩ else if l.obj = 21 then σp ⟨p.op1, l.fld⟩
    else if l.obj = 22 then 0 else testStore l⟩
  let cmp := intI.cmp (σp (L p.op0 fScale)) (σp (L p.op1 fScale))
  match op.gen p (patDeg p d0 d1 dOut) cmp with
  | .err => .err
  | .panic => .panic
  | .ok (prog, dres) =>
    match op.gen d (patDeg d d0 d1' 2) cmp with
    | .ok (_, dref) =>
      match op.gen d (patDeg d d0 d1' dref) cmp with
      | .ok (progRef, dref') =>
        let rp := run intI prog σp
        let rd := run intI progRef σd
        if dres == dref' && (fScale :: fromTo 0 (dres + 1)).all (fun f => rp ⟨p.out, f⟩ == rd ⟨22, f⟩)
        then .sameAsFresh else .differs
      | _ => .differs
    | _ => .differs

/-- shapes of the objects of a pattern -/
def patShape (p : Pat) (s0 s1 sOut : Shape) : Nat → Shape := fun x =>
  if x = p.op0 then s0 else if x = p.op1 then s1 else if x = p.out then sOut else [0]

/-- model prediction for `shape`: the receiver's shape after the call (code at HEAD) -/
def predictShape (op : OpS) (al : Alias) (s0 s1 sOut : Shape) : Gen Shape :=
  op.shapeAfterHead al.pat (patShape al.pat s0 s1 sOut)

end Lattigo.Store
