/-
  C18 — bootstrapping: executable model of the *bookkeeping* of

    circuits/ckks/bootstrapping/keys.go        : GenEvaluationKeys, genEncapsulationEvaluationKeysNew
    circuits/ckks/bootstrapping/parameters.go  : NewParametersFromLiteral (level layout), GaloisElements
    circuits/ckks/bootstrapping/evaluator.go   : bootstrap / Evaluate level schedule, ModUp (Trace), checkKeys,
                                                 initialize (qDiv, C2S/S2C scaling constants, §8),
                                                 ScaleDown / checkMessageRatio on exact integers (§9)
    circuits/ckks/dft/dft.go                   : MatrixLiteral.GaloisElements, computeBootstrappingDFTIndexMap,
                                                 addMatrixRotToList (the HELPER side);
                                                 GenMatrices / NewMatrixFromLiteral index bookkeeping,
                                                 CoeffsToSlots / SlotsToCoeffs rotations (the EVALUATOR side);
                                                 fftPlainVec / ifftPlainVec entries, genFFTDiagMatrix,
                                                 multiplyFFTMatrixWithNextFFTLevel, GenMatrices values for vectors
                                                 of length `slots` (§10, generic in the entry type)
    schemes/ckks/evaluator.go                  : RescaleTo loop as used by ScaleDown (§9)
    circuits/common/lintrans/lintrans.go       : BSGSIndex, FindBestBSGSRatio, NewLinearTransformation (keys of Vec)
    circuits/common/lintrans/lintrans_evaluator.go : EvaluateMany / MultiplyByDiagMatrixBSGS (requested keys)
    circuits/ckks/mod1/mod1_parameters.go      : ParametersLiteral.Depth
    core/rlwe/inner_sum.go                     : Trace (requested keys)
    core/rlwe/params.go                        : GaloisElement

  Not modelled: polynomial evaluation (`mod1`, Chebyshev), encoding/float arithmetic, noise, the ring arithmetic of
  ModUp / key switching (properties C01–C04), runtime aliasing (ShallowCopy); sparse `RepackImagAsReal` VALUES (§10
  covers indices for all formats, values for length-`slots` vectors only).

  Core Lean only.  Go `map[int]bool` index sets are lists without duplicates (insertion order is
  irrelevant: every consumer either takes the length or is compared as a set).
  Go `int` quantities that are provably non-negative for accepted literals are `Nat`; levels of
  keys are `Int` because `LevelP = PCount-1` is `-1` when there is no auxiliary modulus.
-/
namespace Lattigo.Model.Bootstrap

/-! ## 0. small utilities -/

/-- remove duplicates (keeps the last occurrence, like Mathlib's `List.dedup`). -/
def dedupL : List Nat → List Nat
  | [] => []
  | a :: l => if l.contains a then dedupL l else a :: dedupL l

/-- insertion into an ascending list -/
def insSorted (a : Nat) : List Nat → List Nat
  | [] => [a]
  | b :: l => if a ≤ b then a :: b :: l else b :: insSorted a l

/-- ascending sort (used only for canonical output) -/
def sortL (l : List Nat) : List Nat := l.foldr insSorted []

/-- `bits.Len64` -/
def bitsLen (n : Nat) : Nat := if n = 0 then 0 else Nat.log2 n + 1

/-- `int(math.Ceil(float64(a)/float64(b)))` for `b > 0` (and small `a`, `b`) -/
def ceilDiv (a b : Nat) : Nat := (a + (b - 1)) / b

/-- `ring.ModExp` loop (fuel 64 = width of the exponent). -/
def modExpLoop (p : Nat) : Nat → Nat → Nat → Nat → Nat
  | 0, _, _, r => r
  | f + 1, i, x, r =>
    if i = 0 then r
    else modExpLoop p f (i / 2) (x * x % p) (if i % 2 = 1 then r * x % p else r)

/-- `rlwe.Parameters.GaloisElement(k)` for a non-negative rotation `k` in the standard ring of degree
    `2^logN`: `ModExp(5, k & (NthRoot-1), NthRoot)`, `NthRoot = 2^(logN+1)`. -/
def galEl (logN k : Nat) : Nat :=
  let nth := 2 ^ (logN + 1)
  modExpLoop nth 64 (k % nth) (5 % nth) (1 % nth)

/-- `GaloisElementForComplexConjugation` = `NthRoot - 1` -/
def galConj (logN : Nat) : Nat := 2 ^ (logN + 1) - 1

/-! ## 1. `lintrans.BSGSIndex` / `FindBestBSGSRatio` -/

/-- giant-step index of a diagonal (`idxN1` in `BSGSIndex`): `((rot/N1)*N1) & (slots-1)` after
    `rot &= slots-1`; `slots` is a power of two. -/
def bsgsGiant (slots n1 d : Nat) : Nat := ((d % slots) / n1 * n1) % slots

/-- baby-step index (`idxN2`): `rot & (N1-1)`; `N1` is a power of two. -/
def bsgsBaby (slots n1 d : Nat) : Nat := (d % slots) % n1

/-- `rotN1` (sorted keys of `rotN1Map`) as a duplicate-free list -/
def bsgsGiants (diags : List Nat) (slots n1 : Nat) : List Nat := dedupL (diags.map (bsgsGiant slots n1))

/-- `rotN2` -/
def bsgsBabies (diags : List Nat) (slots n1 : Nat) : List Nat := dedupL (diags.map (bsgsBaby slots n1))

/-- loop of `FindBestBSGSRatio`; `float64(nbN2)/float64(nbN1) == maxRatio` and `> maxRatio` are
    expressed on integers (`x/0` is `+Inf` for `x>0` and `NaN` for `x=0`; `NaN` compares false). -/
def findBestLoop (diags : List Nat) (maxN maxRatio : Nat) : Nat → Nat → Nat
  | 0, _ => 1
  | fuel + 1, n1 =>
    if n1 < maxN then
      let nbN1 := (bsgsGiants diags maxN n1).length - 1
      let nbN2 := (bsgsBabies diags maxN n1).length - 1
      if nbN1 ≠ 0 ∧ nbN2 = maxRatio * nbN1 then n1
      else if (nbN1 = 0 ∧ 0 < nbN2) ∨ (nbN1 ≠ 0 ∧ maxRatio * nbN1 < nbN2) then n1 / 2
      else findBestLoop diags maxN maxRatio fuel (2 * n1)
    else 1

/-- `lintrans.FindBestBSGSRatio(nonZeroDiags, maxN, logMaxRatio)`; the loop doubles `N1` from 1
    while `N1 < maxN`, so `maxN` iterations of fuel are more than enough. -/
def findBestBSGSRatio (diags : List Nat) (maxN logMaxRatio : Nat) : Nat :=
  findBestLoop diags maxN (2 ^ logMaxRatio) maxN 1

/-! ## 2. DFT matrix literal and the index bookkeeping -/

/-- the fields of `dft.MatrixLiteral` that determine rotations.
    `encode = true` is `HomomorphicEncode` (CoeffsToSlots), `false` is `HomomorphicDecode`.
    `repack` is `Format == RepackImagAsReal` (the only format the bootstrapping instantiates). -/
structure MatLit where
  encode : Bool
  logSlots : Nat
  levels : List Nat
  repack : Bool
  bitReversed : Bool
  logBSGS : Nat
deriving Repr, DecidableEq

/-- `MatrixLiteral.Depth(false)`: total factorisation depth = number of matrices -/
def MatLit.maxDepth (d : MatLit) : Nat := d.levels.foldl (· + ·) 0

/-- accepted by `GetCoeffsToSlots/SlotsToCoeffsFactorizationDepthAndLogScales`: the total
    factorisation depth does not exceed `LogSlots`. -/
def MatLit.valid (d : MatLit) : Prop := d.maxDepth ≤ d.logSlots

instance (d : MatLit) : Decidable d.valid := by unfold MatLit.valid; infer_instance

/-- sparse packing with imaginary repacking (`logSlots < logN-1 && imgRepack`) -/
def MatLit.sparseRepack (d : MatLit) (logN : Nat) : Bool := decide (d.logSlots < logN - 1) && d.repack

/-- `dslots` of `MatrixLiteral.GaloisElements` = `1 << logdSlots` of `NewMatrixFromLiteral` -/
def MatLit.dslots (d : MatLit) (logN : Nat) : Nat :=
  if d.sparseRepack logN then 2 * 2 ^ d.logSlots else 2 ^ d.logSlots

/-- the `depth` values computed by the merge loop, in loop order:
    `depth = ceil(level/(maxDepth-i)); level -= depth`. -/
def mergeDepths : (remaining : Nat) → (level : Nat) → List Nat
  | 0, _ => []
  | k + 1, level => let dpt := ceilDiv level (k + 1); dpt :: mergeDepths k (level - dpt)

/-- `merge`: in loop order for Encode, reversed for Decode. -/
def mergeSched (d : MatLit) : List Nat :=
  let m := mergeDepths d.maxDepth d.logSlots
  if d.encode then m else m.reverse

/-- the rotation of one FFT layer: `1 << (level-1)` when `Encode && !bitreversed || Decode && bitreversed`,
    else `1 << (logL-level)`. -/
def layerRot (d : MatLit) (level : Nat) : Nat :=
  if d.encode != d.bitReversed then 2 ^ (level - 1) else 2 ^ (d.logSlots - level)

/-- `genWfftIndexMap` -/
def genWfftIndexMap (d : MatLit) (level : Nat) : List Nat :=
  let rot := layerRot d level
  dedupL [0, rot, 2 ^ d.logSlots - rot]

/-- `genWfftRepackIndexMap` -/
def genWfftRepackIndexMap (d : MatLit) : List Nat := [0, 2 ^ d.logSlots]

/-- `nextLevelfftIndexMap(vec, logL, N, nextLevel, …)`; `(i-rot)&(N-1)` on two's complement ints is
    `(i + (N - rot % N)) % N`. -/
def nextLevelfftIndexMap (d : MatLit) (vec : List Nat) (n nextLevel : Nat) : List Nat :=
  let rot := layerRot d nextLevel % n
  dedupL (vec.flatMap fun i => [i, (i + rot) % n, (i + (n - rot)) % n])

/-- the inner merge loop: `for j := 0; j < merge[i]-1; j++ { … nextLevel-- }` -/
def mergeNext (d : MatLit) (n : Nat) : (cnt : Nat) → (nextLevel : Nat) → List Nat → List Nat
  | 0, _, vec => vec
  | c + 1, nl, vec => mergeNext d n c (nl - 1) (nextLevelfftIndexMap d vec n nl)

/-- index set of the `i`-th matrix starting at FFT level `level` with `m = merge[i]` layers;
    `special` selects the repacking first matrix of a sparse Decode. -/
def factorIndex (d : MatLit) (special : Bool) (level m : Nat) : List Nat :=
  if special then
    let v0 := nextLevelfftIndexMap d (genWfftRepackIndexMap d) (2 * 2 ^ d.logSlots) level
    mergeNext d (2 * 2 ^ d.logSlots) (m - 1) (level - 1) v0
  else
    mergeNext d (2 ^ d.logSlots) (m - 1) (level - 1) (genWfftIndexMap d level)

/-- outer loop shared shape: walks the merge schedule; `i = 0` flag is `first`. -/
def indexLoop (d : MatLit) (specialFirst : Bool) : (first : Bool) → (level : Nat) → List Nat → List (List Nat)
  | _, _, [] => []
  | first, level, m :: ms =>
    factorIndex d (first && specialFirst) level m :: indexLoop d specialFirst false (level - m) ms

/-- HELPER side: `MatrixLiteral.computeBootstrappingDFTIndexMap(logN)`;
    special first matrix iff `logSlots < logN-1 && ltType == HomomorphicDecode && i == 0 && repacki2r`. -/
def computeIndexMap (d : MatLit) (logN : Nat) : List (List Nat) :=
  indexLoop d (decide (d.logSlots < logN - 1) && !d.encode && d.repack) true d.logSlots (mergeSched d)

/-- `logdSlots` of `GenMatrices` -/
def MatLit.logdSlots (d : MatLit) (logN : Nat) : Nat :=
  if decide (d.logSlots < logN - 1) && d.repack then d.logSlots + 1 else d.logSlots

/-- EVALUATOR side: key sets of the maps returned by `MatrixLiteral.GenMatrices(LogN, prec)`
    (`genFFTDiagMatrix`, `genRepackMatrix`, `multiplyFFTMatrixWithNextFFTLevel` add diagonals at exactly
    the indices of `genWfftIndexMap`, `genWfftRepackIndexMap`, `nextLevelfftIndexMap`);
    special first matrix iff `logSlots != logdSlots && ltType == HomomorphicDecode && i == 0 && imagRepack`. -/
def genMatricesIndex (d : MatLit) (logN : Nat) : List (List Nat) :=
  indexLoop d (decide (d.logSlots ≠ d.logdSlots logN) && !d.encode && d.repack) true d.logSlots (mergeSched d)

/-! ## 3. rotations: helper vs evaluator -/

/-- non-zero entries -/
def nz (l : List Nat) : List Nat := l.filter (· ≠ 0)

/-- HELPER: contribution of one matrix in `addMatrixRotToList(pVec, rotations, N1, slots, repack)`;
    with fewer than three diagonals the non-zero diagonal indices themselves are added. -/
def addMatrixRot (pVec : List Nat) (n1 slots : Nat) (repackFirst : Bool) : List Nat :=
  if pVec.length < 3 then nz pVec
  else
    let mask := if repackFirst then 2 * slots else slots
    nz (pVec.flatMap fun j => [(j / n1 * n1) % mask, j % n1])

/-- HELPER: the loop `for i, pVec := range indexCtS { N1 := FindBestBSGSRatio(keys(pVec), dslots, LogBSGSRatio);
    rotations = addMatrixRotToList(pVec, rotations, N1, slots, Decode && logSlots < logN-1 && i == 0 && imgRepack) }`. -/
def helperGo (d : MatLit) (logN : Nat) : List (List Nat) → Bool → List Nat
  | [], _ => []
  | pVec :: rest, first =>
    addMatrixRot pVec (findBestBSGSRatio pVec (d.dslots logN) d.logBSGS) (2 ^ d.logSlots)
      (!d.encode && decide (d.logSlots < logN - 1) && first && d.repack) ++ helperGo d logN rest false

/-- HELPER: rotations of `MatrixLiteral.GaloisElements(params)` (before `params.GaloisElements`). -/
def helperRotations (d : MatLit) (logN : Nat) : List Nat :=
  dedupL ((if d.sparseRepack logN && d.encode then [2 ^ d.logSlots] else [])
    ++ helperGo d logN (computeIndexMap d logN) true)

/-- EVALUATOR: keys of `LinearTransformation.Vec` allocated by `NewLinearTransformation` for the
    diagonal index list `diags` (`vec[j+i]` over `BSGSIndex(diags, cols, N1)`). -/
def ltVecKeys (diags : List Nat) (cols n1 : Nat) : List Nat :=
  dedupL (diags.map fun dd => bsgsGiant cols n1 dd + bsgsBaby cols n1 dd)

/-- EVALUATOR: Galois keys requested when one BSGS linear transformation is evaluated
    (`PreRotatedCiphertextForDiagonalMatrixMultiplication`: every `i ∈ rotN2`, `i ≠ 0`;
     `MultiplyByDiagMatrixBSGS`: every `j ∈ keys(index)`, `j ≠ 0`), for the transformation built by
    `NewMatrixFromLiteral` from the diagonal list `diags`. -/
def ltRequested (diags : List Nat) (cols logBSGS : Nat) : List Nat :=
  let n1 := findBestBSGSRatio diags cols logBSGS
  let keys := ltVecKeys diags cols n1
  nz (bsgsBabies keys cols n1) ++ nz (bsgsGiants keys cols n1)

/-- EVALUATOR: rotations requested by `dft.Evaluator.dft` over all matrices of the literal. -/
def dftRequested (d : MatLit) (logN : Nat) : List Nat :=
  (genMatricesIndex d logN).flatMap fun diags => ltRequested diags (2 ^ d.logdSlots logN) d.logBSGS

/-! ## 4. Galois element inventory of the whole bootstrapping -/

/-- what determines the Galois keys: bootstrapping `LogN`, `LogSlots`, the two `Levels` lists
    (`len` of each group of the factorisation literals), `LogBSGSRatio` (always 1 in
    `NewParametersFromLiteral`). -/
structure GalLit where
  logN : Nat
  logSlots : Nat
  c2sLevels : List Nat
  s2cLevels : List Nat
  logBSGS : Nat := 1
deriving Repr, DecidableEq

def GalLit.c2s (g : GalLit) : MatLit :=
  { encode := true, logSlots := g.logSlots, levels := g.c2sLevels, repack := true, bitReversed := false, logBSGS := g.logBSGS }

def GalLit.s2c (g : GalLit) : MatLit :=
  { encode := false, logSlots := g.logSlots, levels := g.s2cLevels, repack := true, bitReversed := false, logBSGS := g.logBSGS }

/-- literals accepted by `NewParametersFromLiteral`: `1 ≤ LogSlots ≤ LogN-1` (`GetLogSlots`) and both
    factorisation depths at most `LogSlots`. -/
def GalLit.valid (g : GalLit) : Prop :=
  1 ≤ g.logSlots ∧ g.logSlots ≤ g.logN - 1 ∧ g.c2s.valid ∧ g.s2c.valid

instance (g : GalLit) : Decidable g.valid := by unfold GalLit.valid; infer_instance

/-- `for i := LogSlots; i < logN-1; i++ { 1<<i }` (SubSum / `Trace` rotations) -/
def traceRots (logN logSlots : Nat) : List Nat :=
  (List.range (logN - 1 - logSlots)).map fun t => 2 ^ (logSlots + t)

/-- HELPER: `bootstrapping.Parameters.GaloisElements(params)` (as a set), which is what
    `GenEvaluationKeys` hands to `GenGaloisKeysNew`. -/
def generatedGalois (g : GalLit) : List Nat :=
  dedupL ((traceRots g.logN g.logSlots).map (galEl g.logN)
    ++ (helperRotations g.c2s g.logN).map (galEl g.logN)
    ++ (helperRotations g.s2c g.logN).map (galEl g.logN)
    ++ [galConj g.logN])

/-- EVALUATOR: Galois keys requested during one `bootstrap` call on a ciphertext with
    `LogDimensions.Cols = LogSlots`:
    `ModUp` → `Trace(ct, LogSlots)` (rotations `2^i`, plus conjugation when `LogSlots = 0`);
    `CoeffsToSlots` → `dft`, `Conjugate`, and `Rotate(tmp, slots)` when sparse;
    `SlotsToCoeffs` → `dft`. (`EvalMod` only relinearises.) -/
def requiredGalois (g : GalLit) : List Nat :=
  dedupL ((traceRots g.logN g.logSlots).map (galEl g.logN)
    ++ (if g.logSlots = 0 then [galConj g.logN] else [])
    ++ (dftRequested g.c2s g.logN).map (galEl g.logN)
    ++ [galConj g.logN]
    ++ (if g.c2s.sparseRepack g.logN then [galEl g.logN (2 ^ g.logSlots)] else [])
    ++ (dftRequested g.s2c g.logN).map (galEl g.logN))

/-! ## 5. Key generation data flow (`GenEvaluationKeys`) -/

/-- the three secrets: the user's residual secret `skN1`, the dense bootstrapping secret `skN2`,
    the ephemeral low-Hamming-weight secret `skSparse`. -/
inductive SecretKind | residual | dense | sparse
deriving Repr, DecidableEq

/-- parameter set the key generator of the key was instantiated with:
    `boot` = `BootstrappingParameters` (all of Q and P), `q0p0` = `paramsSparse` (`Q[:1]`, `P[:1]`). -/
inductive RingKind | boot | q0p0
deriving Repr, DecidableEq

/-- one generated key. `protectedBy` lists every secret under which the key is an RLWE encryption
    (its *output* secret; two entries when the bootstrapping secret *is* the residual secret);
    `encrypts` is the secret that is the plaintext of the key (`none` for relinearisation / Galois keys,
    whose plaintext is a function of the protecting secret itself). -/
structure KeyRec where
  name : String
  protectedBy : List SecretKind
  encrypts : Option SecretKind
  levelQ : Int
  levelP : Int
  ring : RingKind
deriving Repr, DecidableEq

/-- summary of a `bootstrapping.Parameters` value as far as `GenEvaluationKeys` looks at it. -/
structure KeyLit where
  /-- `BootstrappingParameters.QCount()` (≥ 1) -/
  qCount : Nat
  /-- `BootstrappingParameters.PCount()` -/
  pCount : Nat
  /-- `EphemeralSecretWeight != 0` -/
  ephemeral : Bool
  /-- `ResidualParameters.N() != BootstrappingParameters.N()` -/
  ringDiffers : Bool
  /-- `ResidualParameters.RingType() == ring.ConjugateInvariant` -/
  conjInv : Bool
deriving Repr, DecidableEq

/-- `NewParametersFromLiteral` rejects a literal without auxiliary prime (`len(LogP) == 0`). -/
def KeyLit.accepted (l : KeyLit) : Prop := 0 < l.pCount

instance (l : KeyLit) : Decidable l.accepted := by unfold KeyLit.accepted; infer_instance

/-- secrets that decrypt a key produced under `skN2`: when the rings are equal `skN2` is the
    residual secret extended to the larger basis. -/
def denseProt (l : KeyLit) : List SecretKind :=
  if l.ringDiffers then [.dense] else [.residual, .dense]

/-- secrets that decrypt a key produced under `skN1` (embedded in the bootstrapping ring). -/
def residualProt (l : KeyLit) : List SecretKind :=
  if l.ringDiffers then [.residual] else [.residual, .dense]

/-- `genEncapsulationEvaluationKeysNew(skN2)`; `none` models the Go panic of `params.P()[:1]`
    when there is no auxiliary prime (unreachable through `NewParametersFromLiteral`, see `KeyLit.accepted`). -/
def genEncapsulationKeys (l : KeyLit) : Option (List KeyRec) :=
  if !l.ephemeral then some []
  else if l.pCount = 0 then none
  else some
    [ -- kgenSparse.GenEvaluationKeyNew(skDense, skSparse)
      { name := "EvkDenseToSparse", protectedBy := [.sparse], encrypts := some .dense,
        levelQ := 0, levelP := 0, ring := .q0p0 },
      -- kgenDense.GenEvaluationKeyNew(skSparse, skDense)
      { name := "EvkSparseToDense", protectedBy := denseProt l, encrypts := some .sparse,
        levelQ := (l.qCount : Int) - 1, levelP := (l.pCount : Int) - 1, ring := .boot } ]

/-- `Parameters.GenEvaluationKeys(skN1)`: every key of the returned bundle, in the order
    EvkN1ToN2, EvkN2ToN1, EvkRealToCmplx, EvkCmplxToReal, EvkDenseToSparse, EvkSparseToDense, rlk,
    Galois keys (`galEls` = the set handed to `GenGaloisKeysNew`). -/
def genEvaluationKeys (l : KeyLit) (galEls : List Nat) : Option (List KeyRec) :=
  let lq : Int := (l.qCount : Int) - 1
  let lp : Int := (l.pCount : Int) - 1
  let full (n : String) (p : List SecretKind) (e : Option SecretKind) : KeyRec :=
    { name := n, protectedBy := p, encrypts := e, levelQ := lq, levelP := lp, ring := .boot }
  let switchKeys : List KeyRec :=
    if l.ringDiffers then
      if l.conjInv then
        -- EvkCmplxToReal, EvkRealToCmplx = kgen.GenEvaluationKeysForRingSwapNew(skN2, skN1)
        --   stdToci = GenEvaluationKey(skStd, skCIMappedToStandard); ciToStd = GenEvaluationKey(skCIMapped, skStd)
        [ full "EvkRealToCmplx" (denseProt l) (some .residual),
          full "EvkCmplxToReal" (residualProt l) (some .dense) ]
      else
        [ full "EvkN1ToN2" (denseProt l) (some .residual),   -- kgen.GenEvaluationKeyNew(skN1, skN2)
          full "EvkN2ToN1" (residualProt l) (some .dense) ]  -- kgen.GenEvaluationKeyNew(skN2, skN1)
    else []
  -- same ring: `ringP := paramsN2.RingP()` is nil without auxiliary primes and
  -- `ExtendBasisSmallNormAndCenterNTTMontgomery(ringQ, ringP, …)` dereferences it (Go panic)
  if l.pCount = 0 ∧ !l.ringDiffers then none else
  match genEncapsulationKeys l with
  | none => none
  | some enc =>
    some (switchKeys ++ enc ++ [full "rlk" (denseProt l) none]
      ++ (sortL (dedupL galEls)).map fun e => full ("gk" ++ toString e) (denseProt l) none)

/-! ## 6. Level layout (`NewParametersFromLiteral`) and schedule (`bootstrap`, `Evaluate`) -/

/-- `mod1.ParametersLiteral.Depth()`; `cosDiscrete`/`sinContinuous` are the two special `Mod1Type`s
    (`CosContinuous` is neither). -/
def mod1Depth (cosDiscrete sinContinuous : Bool) (mod1Degree k doubleAngle mod1InvDegree : Nat) : Nat :=
  (if cosDiscrete then bitsLen (if k = 0 then mod1Degree else max mod1Degree (2 * k - 1)) else bitsLen mod1Degree)
  + (if sinContinuous then 0 else doubleAngle)
  + bitsLen mod1InvDegree

/-- what determines the level layout. -/
structure SchedLit where
  /-- `ResidualParameters.QCount()` (≥ 1) -/
  residualQ : Nat
  /-- `len(SlotsToCoeffsFactorizationDepthAndLogScales)` -/
  s2cGroups : Nat
  /-- `len(CoeffsToSlotsFactorizationDepthAndLogScales)` -/
  c2sGroups : Nat
  /-- `Mod1ParametersLiteral.Depth()` -/
  mod1Depth : Nat
  /-- `IterationsParameters != nil && ReservedPrimeBitSize > 0` -/
  reserved : Bool
  /-- explicit `len(LogP)`, `none` = default `max(1, floor(sqrt(#Qi)))` -/
  logPLen : Option Nat := none
deriving Repr, DecidableEq

def SchedLit.res (s : SchedLit) : Nat := if s.reserved then 1 else 0
/-- `S2CParams.LevelQ` -/
def SchedLit.s2cLevelQ (s : SchedLit) : Nat := (s.residualQ - 1) + s.s2cGroups + s.res
/-- `Mod1ParametersLiteral.LevelQ` -/
def SchedLit.mod1LevelQ (s : SchedLit) : Nat := s.s2cLevelQ + s.mod1Depth
/-- `C2SParams.LevelQ` -/
def SchedLit.c2sLevelQ (s : SchedLit) : Nat := s.mod1LevelQ + s.c2sGroups
/-- number of primes of the bootstrapping `Q`: residual ++ LogQBootstrappingCircuit -/
def SchedLit.qCount (s : SchedLit) : Nat := s.residualQ + s.res + s.s2cGroups + s.mod1Depth + s.c2sGroups
/-- `len(GetLogP(C2SParams.LevelQ + 1))` -/
def SchedLit.pCount (s : SchedLit) : Nat :=
  match s.logPLen with
  | some n => n
  | none => max 1 (Nat.sqrt (s.c2sLevelQ + 1))

/-- levels after ModUp, CoeffsToSlots, EvalMod, SlotsToCoeffs of `bootstrap`, or the stage that
    returns an error.
    * `ModUp` resizes to `MaxLevel`.
    * `CoeffsToSlotsNew` allocates at `C2S.LevelQ`; `dft.Evaluator.dft` evaluates the `Levels[i]`
      matrices of a group back to back and rescales once per group (`Rescale` drops one prime and
      errors at level 0), so `Depth(true) = len(Levels)` primes are consumed whatever the group sizes.
    * `mod1.Evaluator.EvaluateNew`: error if the level is below `Mod1.LevelQ`, drops down to it
      otherwise, consumes `Depth()`.
    * `SlotsToCoeffsNew`: error if the level is below `S2C.LevelQ`, allocates at `S2C.LevelQ`, again one
      prime per group. -/
def SchedLit.stages (s : SchedLit) : Except String (List Nat) :=
  if s.c2sLevelQ < s.c2sGroups then .error "err:c2s"
  else if s.c2sLevelQ - s.c2sGroups < s.mod1LevelQ then .error "err:evalmod"
  else if s.mod1LevelQ - s.mod1Depth < s.s2cLevelQ then .error "err:s2c"
  else if s.s2cLevelQ < s.s2cGroups then .error "err:s2c"
  else .ok [ s.qCount - 1, s.c2sLevelQ - s.c2sGroups, s.mod1LevelQ - s.mod1Depth, s.s2cLevelQ - s.s2cGroups ]

/-- level of the ciphertext returned by `Evaluate` (`none` = an error is returned): the non-iterated
    path returns the output of `bootstrap`; the iterated / PREC128 path finally drops to
    `ResidualParameters.MaxLevel()` if it is above. -/
def SchedLit.outputLevel (s : SchedLit) (iterated : Bool) : Option Nat :=
  match s.stages with
  | .ok [_, _, _, l] => some (if iterated then min l (s.residualQ - 1) else l)
  | _ => none

/-- `Evaluator.OutputLevel()` -/
def SchedLit.announcedLevel (s : SchedLit) : Nat := s.residualQ - 1

/-- the two `ModUpThenEncode` consistency checks of `NewEvaluator`. -/
def SchedLit.newEvaluatorChecks (s : SchedLit) : Bool :=
  decide (s.c2sLevelQ - s.c2sGroups = s.mod1LevelQ) && decide (s.mod1LevelQ - s.mod1Depth = s.s2cLevelQ)

/-! ## 7. Levels the evaluator needs from every key, for every admissible input level -/

/-- smallest `LevelQ` a key must have so that no gadget product silently clamps the ciphertext
    (`GadgetProduct` works at `min(levelQ, key.LevelQ())`), over all input levels `0 … residual max`:
    * `EvkN1ToN2` / `EvkRealToCmplx`: applied to the INPUT at its level (up to the residual maximum)
      before `ScaleDown`; `EvkN2ToN1` / `EvkCmplxToReal`: applied to the OUTPUT at the residual maximum;
    * `EvkDenseToSparse`: applied after `ScaleDown`, at level 0;
    * `rlk`: first used by `EvalMod` at `Mod1.LevelQ`;
    * `EvkSparseToDense` (`GadgetProductHoisted(levelQ = QCount-1, …)`) and the Galois keys
      (`Trace` after `ModUp`, CoeffsToSlots at `C2S.LevelQ = MaxLevel`): the full chain. -/
def neededLevelQ (s : SchedLit) (name : String) : Int :=
  if name = "EvkN1ToN2" ∨ name = "EvkN2ToN1" ∨ name = "EvkRealToCmplx" ∨ name = "EvkCmplxToReal" then
    (s.residualQ : Int) - 1
  else if name = "EvkDenseToSparse" then 0
  else if name = "rlk" then (s.mod1LevelQ : Int)
  else (s.qCount : Int) - 1

/-- `LevelP` a key must have EXACTLY (`none`: any auxiliary level works, the gadget product follows the key):
    `EvkDenseToSparse` lives in `P[:1]`; `EvkSparseToDense` is multiplied with `BuffDecompQP` decomposed over
    all of `P`; the Galois keys must match `LinearTransformation.LevelP = len(LogP)-1`
    (`MultiplyByDiagMatrixBSGS` returns an error otherwise). -/
def neededLevelP (s : SchedLit) (name : String) : Option Int :=
  if name = "EvkN1ToN2" ∨ name = "EvkN2ToN1" ∨ name = "EvkRealToCmplx" ∨ name = "EvkCmplxToReal" ∨ name = "rlk" then none
  else if name = "EvkDenseToSparse" then some 0
  else some ((s.pCount : Int) - 1)

/-- the key summary of a literal with layout `s` -/
def SchedLit.keyLit (s : SchedLit) (ephemeral ringDiffers conjInv : Bool) : KeyLit :=
  { qCount := s.qCount, pCount := s.pCount, ephemeral := ephemeral, ringDiffers := ringDiffers, conjInv := conjInv }

/-- a key has what the evaluator needs -/
def KeyRec.sufficient (s : SchedLit) (k : KeyRec) : Prop :=
  neededLevelQ s k.name ≤ k.levelQ ∧ ∀ lp, neededLevelP s k.name = some lp → k.levelP = lp

/-! ## 8. Scale schedule constants of `Evaluator.initialize` (exact powers of two / rationals) -/

/-- `math.Round(math.Log2(float64(q)))` for `q ≥ 1`: the exponent `e` with `2^(e-1/2) ≤ q < 2^(e+1/2)`,
    decided on integers by comparing `q²` with `2^(2·⌊log2 q⌋+1)` (no integer square is an odd power
    of two, so there is no tie). -/
def roundLog2 (q : Nat) : Nat :=
  let e := Nat.log2 q
  if 2 ^ (2 * e + 1) ≤ q * q then e + 1 else e

/-- what determines the constants: `Q[0]`, `EvalModLogScale` (`Mod1Parameters.ScalingFactor() = 2^…`),
    `LogMessageRatio`, the bootstrapping `LogDefaultScale`, `K`, conjugate-invariant residual ring. -/
structure ScaleLit where
  q0 : Nat
  evalModLogScale : Nat
  logMessageRatio : Nat
  logDefaultScale : Nat
  k : Nat
  conjInv : Bool
deriving Repr, DecidableEq

/-- `-log2 qDiv` where `qDiv = min(1, ScalingFactor / 2^round(log2 Q[0]))`: the part of the division by
    `Q[0]` that cannot be done by scale manipulation and is folded into the CoeffsToSlots matrices;
    `0` as soon as `EvalModLogScale ≥ round(log2 Q[0])`. -/
def ScaleLit.qDivNegLog (l : ScaleLit) : Nat := roundLog2 l.q0 - l.evalModLogScale

/-- `C2SScaling = qDiv / (K · qDiff)` with `qDiff = Q[0] / 2^round(log2 Q[0])`, as the exact fraction
    `2^(round(log2 Q[0]) - qDivNegLog) / (K · Q[0])` (the code evaluates it in float64). -/
def ScaleLit.c2sScaling (l : ScaleLit) : Nat × Nat := (2 ^ (roundLog2 l.q0 - l.qDivNegLog), l.k * l.q0)

/-- `log2 StCScaling`, `StCScaling = DefaultScale / (ScalingFactor / MessageRatio)`, halved when the residual
    ring is conjugate invariant (`SlotsToCoeffsParameters.Scaling = 0.5` in `NewEvaluator`). -/
def ScaleLit.s2cScalingLog (l : ScaleLit) : Int :=
  (l.logDefaultScale : Int) + l.logMessageRatio - l.evalModLogScale - (if l.conjInv then 1 else 0)

/-! ## 9. `ScaleDown`: message-ratio arithmetic on exact integers

  `Evaluator.ScaleDown` works on `rlwe.Scale` values (128-bit `big.Float`); the model uses the exact
  rationals they approximate. `qs` is the modulus chain `Q[0], Q[1], …`, `S` the input scale (an
  integer: scales are `2^LogDefaultScale`), `r = LogMessageRatio`, `e = round(log2 Q[0])`
  (`Mod1Parameters.QDiff = Q[0]/2^e`). -/

/-- `ring.ModulusAtLevel[l]` -/
def modulusAt (qs : List Nat) (l : Nat) : Nat := (qs.take (l + 1)).foldl (· * ·) 1

/-- the loop `for ctIn.Level() != 0 && checkMessageRatio(…) { drop the last prime }`:
    `checkMessageRatio` is `Q_l / S ≥ q_l · MessageRatio`, i.e. `Q_{l-1} ≥ S · 2^r`. -/
def dropLevels (qs : List Nat) (S r : Nat) : Nat → Nat
  | 0 => 0
  | l + 1 => if S * 2 ^ r ≤ modulusAt qs l then dropLevels qs S r l else l + 1

/-- `float64(q)` for `q < 2^64`: rounding to 53 significant bits, ties to even. -/
def f64round (q : Nat) : Nat :=
  let sh := Nat.log2 q - 52
  if Nat.log2 q < 53 then q
  else
    let t := q / 2 ^ sh
    let rem := q % 2 ^ sh
    let half := 2 ^ (sh - 1)
    let up := if half < rem ∨ (rem = half ∧ t % 2 = 1) then 1 else 0
    (t + up) * 2 ^ sh

/-- `scaleUp = (Q_l / S) / MessageRatio`, divided by `qDiff` when `l ≠ 0`, as a fraction.
    `qDiff = Mod1Parameters.QDiff` is the float64 `float64(Q[0]) / 2^e`, i.e. exactly `f64round(Q[0]) / 2^e`. -/
def scaleUpFrac (qs : List Nat) (S r l : Nat) : Nat × Nat :=
  if l = 0 then (modulusAt qs 0, S * 2 ^ r)
  else (modulusAt qs l * 2 ^ roundLog2 (qs.headD 1), S * 2 ^ r * f64round (qs.headD 1))

/-- `Scale.BigInt()`: `floor(x + 1/2)` -/
def roundHalfUp (num den : Nat) : Nat := (2 * num + den) / (2 * den)

/-- the loop of `RescaleTo(ct, targetScale)` with `targetScale = tnum / tden`:
    divide by `q_lv` while the quotient stays `≥ targetScale / 2`. `sn / den` is the current scale.
    Returns the final level and the product of the primes divided out. -/
def rescaleLoop (qs : List Nat) (sn tnum tden : Nat) : (lv : Nat) → (den : Nat) → Nat × Nat
  | 0, den => (0, den)
  | lv + 1, den =>
    let q := qs.getD (lv + 1) 1
    if den * q * tnum ≤ 2 * sn * tden then rescaleLoop qs sn tnum tden lv (den * q) else (lv + 1, den)

/-- `Evaluator.ScaleDown` on a ciphertext at level `l` with scale `S`:
    `none` = the error "initial Q/Scale < 0.5*Q[0]/MessageRatio";
    `some (level, n, den)`: output level, the integer `scaleUpBigint = n` the ciphertext is multiplied
    with, and the product `den` of the primes rescaled away — the output scale is `S · n / den`. -/
def scaleDown (qs : List Nat) (S r l : Nat) : Option (Nat × Nat × Nat) :=
  let l' := dropLevels qs S r l
  let (num, dn) := scaleUpFrac qs S r l'
  if 2 * num < dn then none
  else
    let n := roundHalfUp num dn
    if l' = 0 then some (0, n, 1)
    else
      -- targetScale = Q[0] / MessageRatio / qDiff = Q[0]·2^e / (2^r · f64round Q[0])
      let (lv, den) := rescaleLoop qs (S * n) (qs.headD 1 * 2 ^ roundLog2 (qs.headD 1)) (2 ^ r * f64round (qs.headD 1)) l' 1
      some (lv, n, den)

/-! ## 10. The DFT factorisation with exact entries

  `fftPlainVec` / `ifftPlainVec` fill three vectors `a, b, c` per butterfly layer with `0`, `±1`, `±ζ^k`
  (`ζ = roots[1]`, the primitive `4·slots`-th root of unity); `genFFTDiagMatrix` turns a layer into the
  three-diagonal matrix `diag(a) + diag(b)·Rot_rot + diag(c)·Rot_{-rot}` and
  `multiplyFFTMatrixWithNextFFTLevel` multiplies a matrix in diagonal form with the next layer.
  The model is generic in the entry type `α` (the driver prints the layers with `α = RootEnt`,
  the theorems interpret them in any commutative ring with a root `ζ`, `ζ^(4·slots) = 1`).
  Covered: vectors of length `slots` (full packing, or sparse packing without `RepackImagAsReal`),
  `BitReversed = false`. Not covered: the doubled vectors and the special first / masked last matrix of
  the sparse `RepackImagAsReal` format. -/

/-- an entry of a layer vector: `0`, `ζ^k` or `-ζ^k` -/
inductive RootEnt | zero | pos (k : Nat) | neg (k : Nat)
deriving Repr, DecidableEq

/-- one butterfly layer: rotation and the three vectors as functions of the slot index -/
structure Layer (α : Type) where
  rot : Nat
  a : Nat → α
  b : Nat → α
  c : Nat → α

/-- `pow5[j] & (4m-1)` = `5^j mod 4m` (`pow5[j] = 5^j mod 4·slots` and `4m | 4·slots`) -/
def pow5mod (j m4 : Nat) : Nat := modExpLoop m4 64 j (5 % m4) (1 % m4)

/-- layer of `fftPlainVec` (Decode) for butterfly size `m` (`2 ≤ m ≤ slots`, powers of two):
    positions `i+j` (`j < m/2`): `a = 1`, `b = ζ^k`; positions `i+j+m/2`: `a = -ζ^k`, `c = 1`;
    `k = (5^j mod 4m)·(slots/m)`. -/
def fftLayer (slots m : Nat) : Layer RootEnt :=
  let tt := m / 2
  let k := fun x => pow5mod (x % m % tt) (4 * m) * (slots / m)
  { rot := tt
    a := fun x => if x % m < tt then .pos 0 else .neg (k x)
    b := fun x => if x % m < tt then .pos (k x) else .zero
    c := fun x => if x % m < tt then .zero else .pos 0 }

/-- layer of `ifftPlainVec` (Encode): positions `i+j`: `a = 1`, `b = 1`; positions `i+j+m/2`: `a = -ζ^k'`,
    `c = ζ^k'`; `k' = (4m - 5^j mod 4m)·(slots/m)`. -/
def ifftLayer (slots m : Nat) : Layer RootEnt :=
  let tt := m / 2
  let k := fun x => (4 * m - pow5mod (x % m % tt) (4 * m)) * (slots / m)
  { rot := tt
    a := fun x => if x % m < tt then .pos 0 else .neg (k x)
    b := fun x => if x % m < tt then .pos 0 else .zero
    c := fun x => if x % m < tt then .zero else .pos (k x) }

/-- the layer used at FFT level `lvl` (`lvl = logSlots … 1`): tables `a[logSlots - lvl]`, i.e. butterfly size
    `2^lvl` for Encode (`m = N, N/2, …`) and `2^(logSlots - lvl + 1)` for Decode (`m = 2, 4, …`). -/
def dftLayer (encode : Bool) (logSlots lvl : Nat) : Layer RootEnt :=
  if encode then ifftLayer (2 ^ logSlots) (2 ^ lvl) else fftLayer (2 ^ logSlots) (2 ^ (logSlots - lvl + 1))

/-- a matrix in diagonal form: `map[int][]T` as an association list, vectors as functions of the slot -/
abbrev DiagMat (α : Type) := List (Nat × (Nat → α))

/-- `addToDiagMatrix`: create the diagonal or add to the existing one -/
def addToDiag {α : Type} [Add α] : DiagMat α → Nat → (Nat → α) → DiagMat α
  | [], i, v => [(i, v)]
  | (j, w) :: rest, i, v => if j = i then (j, fun x => w x + v x) :: rest else (j, w) :: addToDiag rest i v

/-- `genFFTDiagMatrix`: diagonals `0`, `rot`, `n - rot` -/
def layerDiag {α : Type} [Add α] (n : Nat) (l : Layer α) : DiagMat α :=
  addToDiag (addToDiag (addToDiag [] 0 l.a) l.rot l.b) (n - l.rot) l.c

/-- `multiplyFFTMatrixWithNextFFTLevel(vec, logL, N, …, a, b, c)` with `rot = l.rot & (N-1)`:
    every diagonal `(i, v)` contributes `a ⊙ v` to `i`, `b ⊙ rot_rot(v)` to `(i+rot) mod N` and
    `c ⊙ rot_{-rot}(v)` to `(i-rot) mod N` (`rotateAndMulNew`). -/
def mulNextLayer {α : Type} [Add α] [Mul α] (n : Nat) (vec : DiagMat α) (l : Layer α) : DiagMat α :=
  let rot := l.rot % n
  vec.foldl (fun acc iv =>
    addToDiag
      (addToDiag
        (addToDiag acc iv.1 (fun x => l.a x * iv.2 x))
        ((iv.1 + rot) % n) (fun x => l.b x * iv.2 ((x + rot) % n)))
      ((iv.1 + (n - rot)) % n) (fun x => l.c x * iv.2 ((x + (n - rot)) % n))) []

/-- the inner merge loop over the next `cnt` levels -/
def mergeLayers {α : Type} [Add α] [Mul α] (n : Nat) (layer : Nat → Layer α) :
    (cnt : Nat) → (nextLevel : Nat) → DiagMat α → DiagMat α
  | 0, _, vec => vec
  | c + 1, nl, vec => mergeLayers n layer c (nl - 1) (mulNextLayer n vec (layer nl))

/-- the matrices of `GenMatrices` (before the scaling): one per entry of the merge schedule -/
def factorMats {α : Type} [Add α] [Mul α] (n : Nat) (layer : Nat → Layer α) : (level : Nat) → List Nat → List (DiagMat α)
  | _, [] => []
  | level, m :: ms =>
    mergeLayers n layer (m - 1) (level - 1) (layerDiag n (layer level)) :: factorMats n layer (level - m) ms

/-- `MatrixLiteral.GenMatrices` for vectors of length `slots`, every diagonal multiplied by `σ`
    (`σ = scaling^(1/Depth(false))`). -/
def genMatricesVals {α : Type} [Add α] [Mul α] (d : MatLit) (layer : Nat → Layer α) (σ : α) : List (DiagMat α) :=
  (factorMats (2 ^ d.logSlots) layer d.logSlots (mergeSched d)).map fun M =>
    M.map fun iv => (iv.1, fun x => iv.2 x * σ)

/-- evaluation of a matrix in diagonal form on a vector: `(M x)_i = Σ_d v_d[i] · x[(i+d) mod n]` -/
def applyDiag {α : Type} [Add α] [Mul α] [Zero α] (n : Nat) (M : DiagMat α) (x : Nat → α) : Nat → α :=
  fun i => M.foldr (fun iv s => iv.2 i * x ((i + iv.1) % n) + s) 0

/-- canonical exponent of an entry: `ζ^k ↦ k mod 4n`, `-ζ^k ↦ (k + 2n) mod 4n`, `0 ↦ 4n` -/
def RootEnt.code (n : Nat) : RootEnt → Nat
  | .zero => 4 * n
  | .pos k => k % (4 * n)
  | .neg k => (k + 2 * n) % (4 * n)

/-! ## 10b. `mod1.EvaluateAndScaleNew`: where the scaling goes

  Without arcsine the scaling `s` is folded into the Chebyshev coefficients as `s' = s^(1/2^DoubleAngle)` and the
  constant of the double-angle steps starts at `sqrt2pi · s'` (it is squared before every step): after `DoubleAngle`
  steps `y ↦ 2y² − c²` the value `c·t` has become `c^(2^DoubleAngle) · T_{2^DoubleAngle}(t)` — the gain is `s'^(2^DoubleAngle) = s`
  (`double_angle_scaling` in `Props/C18.lean`). With arcsine the scaling multiplies the arcsine coefficients. Either way the
  gain of the step is exactly `s`. -/

/-- log2 of the gain of `EvaluateAndScaleNew(ct, 2^k)` over `EvaluateNew(ct)` -/
def mod1GainLog (_doubleAngle : Nat) (_arcsine : Bool) (k : Int) : Int := k

/-- one double-angle step on (constant, value): `sqrt2pi *= sqrt2pi; y = 2·y·y − sqrt2pi` (over the integers; the
    identity is polynomial) -/
def doubleAngleStep (cy : Int × Int) : Int × Int := (cy.1 * cy.1, 2 * (cy.2 * cy.2) - cy.1 * cy.1)

/-- `DoubleAngle` steps -/
def doubleAngleIter : Nat → Int × Int → Int × Int
  | 0, cy => cy
  | k + 1, cy => doubleAngleIter k (doubleAngleStep cy)

/-- `t ↦ 2t² − 1` iterated: `T_{2^k}` -/
def chebDouble : Nat → Int → Int
  | 0, t => t
  | k + 1, t => chebDouble k (2 * (t * t) - 1)

/-! ## 11. `GenMatrices` for every format: doubled diagonals, repacking, bit-reversed layout

  With sparse packing and `RepackImagAsReal` the diagonals have `2·slots` entries (the layer tables are
  written twice), the first Decode matrix is the repacking matrix times the first layer (indices mod `2·slots`),
  the last Encode matrix is masked on its right half; with `BitReversed` every block of `slots` entries of the layer
  tables is bit-reversed and the layer rotations are swapped. Generic in the entry type; the driver instantiates it
  with `RootSum` (a sum of at most one root) to print the fully split factorisation, tied by `dft_layers`. -/

/-- reversal of the `L` low bits -/
def revBits : Nat → Nat → Nat
  | 0, _ => 0
  | L + 1, x => (x % 2) * 2 ^ L + revBits L (x / 2)

/-- index map of `BitReverseInPlaceSlice(v[blk·2^L : (blk+1)·2^L], 2^L)` applied to every block -/
def bitRevBlock (L x : Nat) : Nat := (x / 2 ^ L) * 2 ^ L + revBits L (x % 2 ^ L)

/-- products and sums of entries as long as at most one root survives -/
inductive RootSum | ent (e : RootEnt) | bad
deriving Repr, DecidableEq

def RootEnt.mul : RootEnt → RootEnt → RootEnt
  | .zero, _ => .zero
  | _, .zero => .zero
  | .pos a, .pos b => .pos (a + b)
  | .pos a, .neg b => .neg (a + b)
  | .neg a, .pos b => .neg (a + b)
  | .neg a, .neg b => .pos (a + b)

instance : Mul RootSum where
  mul
    | .ent a, .ent b => .ent (a.mul b)
    | _, _ => .bad

instance : Add RootSum where
  add
    | .ent .zero, y => y
    | x, .ent .zero => x
    | _, _ => .bad

/-- the layer at FFT level `lvl` for either layout: tables of `dftLayer`, bit-reversed per block of `2^logSlots`
    entries when `bitrev`, rotation `2^(lvl-1)` if `Encode ≠ BitReversed` else `2^(logSlots-lvl)`. -/
def dftLayerBR (encode bitrev : Bool) (logSlots lvl : Nat) : Layer RootEnt :=
  let l := dftLayer encode logSlots lvl
  let ix := fun x => if bitrev then bitRevBlock logSlots x else x
  { rot := if encode != bitrev then 2 ^ (lvl - 1) else 2 ^ (logSlots - lvl)
    a := fun x => l.a (ix x), b := fun x => l.b (ix x), c := fun x => l.c (ix x) }

/-- `multiplyFFTMatrixWithNextFFTLevel` with index modulus `nidx` (`N` of the Go call) and vectors of length
    `len` (`rotateAndMulNew` rotates modulo `len(a)`); `mulNextLayer n` is the case `nidx = len = n`. -/
def mulNextLayer2 {α : Type} [Add α] [Mul α] (nidx len : Nat) (vec : DiagMat α) (l : Layer α) : DiagMat α :=
  let rot := l.rot % nidx
  vec.foldl (fun acc iv =>
    addToDiag
      (addToDiag
        (addToDiag acc iv.1 (fun x => l.a x * iv.2 x))
        ((iv.1 + rot) % nidx) (fun x => l.b x * iv.2 ((x + rot) % len)))
      ((iv.1 + (nidx - rot)) % nidx) (fun x => l.c x * iv.2 ((x + (len - rot)) % len))) []

def mergeLayers2 {α : Type} [Add α] [Mul α] (nidx len : Nat) (layer : Nat → Layer α) :
    (cnt : Nat) → (nextLevel : Nat) → DiagMat α → DiagMat α
  | 0, _, vec => vec
  | c + 1, nl, vec => mergeLayers2 nidx len layer c (nl - 1) (mulNextLayer2 nidx len vec (layer nl))

/-- `genRepackMatrix`: diagonal 0 = `[1,…,1, i,…,i]`, diagonal `slots` = `[i,…,i, 1,…,1]` -/
def repackDiag {α : Type} (slots : Nat) (one imag : α) : DiagMat α :=
  [(0, fun x => if x < slots then one else imag), (slots, fun x => if x < slots then imag else one)]

/-- the loop of `GenMatrices` over the merge schedule; `special` = repacking first matrix of a sparse Decode -/
def factorMats2 {α : Type} [Add α] [Mul α] (slots len : Nat) (one imag : α) (layer : Nat → Layer α) :
    (special : Bool) → (level : Nat) → List Nat → List (DiagMat α)
  | _, _, [] => []
  | special, level, m :: ms =>
    (if special then
        mergeLayers2 (2 * slots) len layer (m - 1) (level - 1)
          (mulNextLayer2 (2 * slots) len (repackDiag slots one imag) (layer level))
      else mergeLayers2 slots len layer (m - 1) (level - 1) (layerDiag slots (layer level)))
    :: factorMats2 slots len one imag layer false (level - m) ms

/-- `MatrixLiteral.GenMatrices(LogN, prec)` before the scaling, for every format. -/
def genMatricesFull {α : Type} [Add α] [Mul α] (d : MatLit) (logN : Nat) (zero one imag : α)
    (layer : Nat → Layer α) : List (DiagMat α) :=
  let slots := 2 ^ d.logSlots
  let dbl := d.sparseRepack logN
  let len := if dbl then 2 * slots else slots
  let ms := factorMats2 slots len one imag layer (dbl && !d.encode) d.logSlots (mergeSched d)
  if dbl && d.encode then
    -- repacking after the IDFT: the right half of every diagonal of the last matrix is zeroed
    match ms.reverse with
    | [] => []
    | last :: front => (front.reverse ++ [last.map fun iv => (iv.1, fun x => if x % len < slots then iv.2 x else zero)])
  else ms

end Lattigo.Model.Bootstrap
