/-
  The abstract ring layer, executable: canonical RNS polynomials of
  R_Q = Z_Q[X]/(X^N+1), Q = Π qs.  A value is a list of rows (one per modulus), each row the
  N coefficients REDUCED modulo that modulus, in the coefficient domain (no NTT, no Montgomery
  form).  Operations are the exact ring operations modulo each prime (schoolbook negacyclic
  product).  This is the specification the RNS/NTT/Montgomery code of lattigo must implement
  (property C01) and the carrier on which the scheme-level models (C03…) are executed.
  Core Lean only.
-/
namespace Lattigo

structure RPoly where
  qs : List Nat
  c  : List (List Nat)
  deriving Repr, BEq, DecidableEq, Inhabited

namespace RPoly

def zipRows (f : Nat → List Nat → List Nat → List Nat) (a b : RPoly) : RPoly :=
  { qs := a.qs, c := (a.qs.zip (a.c.zip b.c)).map fun (q, (x, y)) => f q x y }

def mapRows (f : Nat → List Nat → List Nat) (a : RPoly) : RPoly :=
  { qs := a.qs, c := (a.qs.zip a.c).map fun (q, x) => f q x }

def rowAdd (q : Nat) (x y : List Nat) : List Nat := List.zipWith (fun a b => (a + b) % q) x y
def rowSub (q : Nat) (x y : List Nat) : List Nat := List.zipWith (fun a b => (a + q - b % q) % q) x y
def rowNeg (q : Nat) (x : List Nat) : List Nat := x.map fun a => (q - a % q) % q
def rowScale (k : Nat) (q : Nat) (x : List Nat) : List Nat := x.map fun a => (a * k) % q

/-- schoolbook negacyclic product of two rows of equal length `n` modulo `q` -/
def rowMul (q : Nat) (x y : List Nat) : List Nat :=
  let n := x.length
  let xa := x.toArray
  let ya := y.toArray
  (List.range n).map fun k =>
    let pos := (List.range (k + 1)).foldl (fun acc i => (acc + xa[i]! * ya[k - i]!) % q) 0
    let neg := (List.range (n - 1 - k)).foldl
      (fun acc j => let i := k + 1 + j; (acc + xa[i]! * ya[n + k - i]!) % q) 0
    (pos + q - neg) % q

def add (a b : RPoly) : RPoly := zipRows rowAdd a b
def sub (a b : RPoly) : RPoly := zipRows rowSub a b
def neg (a : RPoly) : RPoly := mapRows rowNeg a
def mul (a b : RPoly) : RPoly := zipRows rowMul a b
def scale (a : RPoly) (k : Nat) : RPoly := mapRows (rowScale k) a

instance : Add RPoly := ⟨add⟩
instance : Sub RPoly := ⟨sub⟩
instance : Neg RPoly := ⟨neg⟩
instance : Mul RPoly := ⟨mul⟩

def zero (qs : List Nat) (n : Nat) : RPoly := { qs := qs, c := qs.map fun _ => List.replicate n 0 }

/-- residues of a (signed) integer coefficient vector -/
def ofInts (qs : List Nat) (v : List Int) : RPoly :=
  { qs := qs, c := qs.map fun (q : Nat) => v.map fun (x : Int) => (x % (q : Int)).toNat }

/-- multiply by a signed integer constant -/
def scaleInt (a : RPoly) (k : Int) : RPoly :=
  mapRows (fun (q : Nat) (x : List Nat) => x.map fun (c : Nat) => ((c : Int) * k % (q : Int)).toNat) a

/-- a ↦ a(X^g) in Z[X]/(X^N+1) (g odd) on one row -/
def rowAut (g : Nat) (q : Nat) (x : List Nat) : List Nat :=
  let n := x.length
  let init : Array Nat := Array.replicate n 0
  let r := (List.range n).foldl (fun (acc : Array Nat) i =>
    let e := (i * g) % (2 * n)
    let v := x[i]!
    if e < n then acc.set! e v else acc.set! (e - n) ((q - v % q) % q)) init
  r.toList

def aut (a : RPoly) (g : Nat) : RPoly := mapRows (rowAut g) a

/-- multiply by X^k, k any integer, on one row -/
def rowMonomial (k : Int) (q : Nat) (x : List Nat) : List Nat :=
  let n := x.length
  let kk := (k % (2 * n : Int)).toNat
  let init : Array Nat := Array.replicate n 0
  let r := (List.range n).foldl (fun (acc : Array Nat) i =>
    let e := (i + kk) % (2 * n)
    let v := x[i]!
    if e < n then acc.set! e v else acc.set! (e - n) ((q - v % q) % q)) init
  r.toList

def mulMonomial (a : RPoly) (k : Int) : RPoly := mapRows (rowMonomial k) a

/-- keep the first `l+1` rows (drop to level `l`) -/
def atLevel (a : RPoly) (l : Nat) : RPoly := { qs := a.qs.take (l + 1), c := a.c.take (l + 1) }

/-! ### CRT reconstruction (for norms / decryption) -/

def egcd : Nat → Int → Int → Int → Int → Int → Int → Int × Int × Int
  | 0, r0, s0, t0, _, _, _ => (r0, s0, t0)
  | fuel + 1, r0, s0, t0, r1, s1, t1 =>
    if r1 == 0 then (r0, s0, t0)
    else
      let qt := r0 / r1
      egcd fuel r1 s1 t1 (r0 - qt * r1) (s0 - qt * s1) (t0 - qt * t1)

/-- inverse of `a` modulo `m` (0 if none) -/
def modInv (a m : Nat) : Nat :=
  let (g, s, _) := egcd (2 * (Nat.log2 m + 2)) (a % m : Nat) 1 0 m 0 1
  if g == 1 then (s % (m : Int)).toNat else 0

def prod (qs : List Nat) : Nat := qs.foldl (· * ·) 1

/-- the unique x in [0, Q) with x ≡ r_i (mod q_i) -/
def crt (qs : List Nat) (rs : List Nat) : Nat :=
  let Q := prod qs
  (qs.zip rs).foldl (fun acc (q, r) =>
    let Qi := Q / q
    (acc + r % q * modInv (Qi % q) q % q * Qi) % Q) 0

def center (Q : Nat) (x : Nat) : Int := if 2 * x > Q then (x : Int) - Q else x

def transpose (rows : List (List Nat)) : List (List Nat) :=
  match rows with
  | [] => []
  | r :: _ => (List.range r.length).map fun j => rows.map fun row => row[j]!

/-- centred integer coefficients of the polynomial -/
def toInts (a : RPoly) : List Int :=
  let Q := prod a.qs
  (transpose a.c).map fun col => center Q (crt a.qs col)

def infNorm (v : List Int) : Nat := v.foldl (fun m x => max m x.natAbs) 0

end RPoly
end Lattigo
