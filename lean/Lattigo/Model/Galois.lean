/-
  C11 — Galois elements of the rotation group: executable model of

    core/rlwe/params.go : GaloisElement, GaloisElements, ModInvGaloisElement,
                          GaloisElementOrderTwoOrthogonalSubgroup, SolveDiscreteLogGaloisElement
    ring/utils.go       : ModExp, ModExpPow2
    ring/automorphism.go: AutomorphismNTTIndex
    utils/bits          : BitReverse64

  Core Lean only.  Go's `int` is modelled as `Int` together with the two conversions the code
  performs on it: `uint64(k)` (`toU64`, reduction mod 2^64) and the two's-complement wrap of
  `int` arithmetic (`wrapInt`).  `uint64` values are `Nat` with explicit wrap (`Lattigo/Word.lean`).
  `ring.BRed(x,y,p)` inside `ModExp` is written here as its specification `x*y % p`; the driver ops
  `galel`, `galels`, `modinv`, `dlog`, `ordertwo` do NOT execute this file but the definitions regenerated
  from the Go source (`Gen/Galois.lean` via `Model/GaloisGen.lean`, with the word-level `Gen.BRed`), and
  `Props/C11Gen.lean` proves the two equal for `NthRoot = 2^m`, `1 ≤ m ≤ 63`.  `automorphismNTTIndex`
  (op `nttindex`) is executed from this file.  Theorems: `Props/C11.lean` §1, §4.
-/
import Lattigo.Word

namespace Lattigo.Model.Galois
open Lattigo

/-- `ring.GaloisGen` -/
def galoisGen : Nat := 5

/-- Go `uint64(k)` for `k : int`: reduction modulo 2^64. -/
def toU64 (k : Int) : Nat := (k % 18446744073709551616).toNat

/-- Two's-complement wrap of a Go `int` (64 bit) result. -/
def wrapInt (k : Int) : Int :=
  (k + 9223372036854775808) % 18446744073709551616 - 9223372036854775808

/-- `ring.ModExp` loop: `for i := e; i > 0; i >>= 1 { if i&1==1 {r = r*x mod p}; x = x*x mod p }`.
    First argument is fuel (64 = width of `i`). -/
def modExpLoop (p : Nat) : Nat → Nat → Nat → Nat → Nat
  | 0, _, _, r => r
  | f + 1, i, x, r =>
    if i = 0 then r
    else modExpLoop p f (i >>> 1) (x * x % p) (if i % 2 = 1 then r * x % p else r)

/-- `ring.ModExp(x, e, p)` -/
def modExp (x e p : Nat) : Nat := modExpLoop p 64 e x 1

/-- `ring.ModExpPow2` loop: same, with wrapping `uint64` products and no reduction. -/
def modExpPow2Loop : Nat → Nat → Nat → Nat → Nat
  | 0, _, _, r => r
  | f + 1, i, x, r =>
    if i = 0 then r
    else modExpPow2Loop f (i >>> 1) (u64mul x x) (if i % 2 = 1 then u64mul r x else r)

/-- `ring.ModExpPow2(x, e, p)`: `result & (p-1)` at the end. -/
def modExpPow2 (x e p : Nat) : Nat := modExpPow2Loop 64 e x 1 &&& (p - 1)

/-- `Parameters.GaloisElement(k)`:
    `ring.ModExp(GaloisGen, uint64(k) & (NthRoot-1), NthRoot)`. -/
def galEl (nthRoot : Nat) (k : Int) : Nat :=
  modExp galoisGen (toU64 k &&& (nthRoot - 1)) nthRoot

/-- `Parameters.GaloisElements(ks)` -/
def galEls (nthRoot : Nat) (ks : List Int) : List Nat := ks.map (galEl nthRoot)

/-- `Parameters.ModInvGaloisElement(g)`: `ring.ModExp(g, NthRoot-1, NthRoot)`. -/
def modInv (nthRoot g : Nat) : Nat := modExp g (nthRoot - 1) nthRoot

/-- Ring types (`ring.Standard`, `ring.ConjugateInvariant`). -/
inductive RingType | standard | conjugateInvariant
  deriving DecidableEq, Repr

/-- `RingQ().NthRoot()`: `2N` for the standard ring, `4N` for the conjugate-invariant one. -/
def nthRootOf (rt : RingType) (logN : Nat) : Nat :=
  match rt with
  | .standard => 2 ^ (logN + 1)
  | .conjugateInvariant => 2 ^ (logN + 2)

/-- `Parameters.GaloisElementOrderTwoOrthogonalSubgroup()`: `NthRoot-1`; panics (`none`) for the
    conjugate-invariant ring. -/
def orderTwo (rt : RingType) (nthRoot : Nat) : Option Nat :=
  match rt with
  | .standard => some (nthRoot - 1)
  | .conjugateInvariant => none

/-- Loop of `SolveDiscreteLogGaloisElement`.  Arguments: fuel, `x`, `kuint`.
    `none` = fuel exhausted (the Go loop does not terminate: happens iff `N < 8`). -/
def dlogLoop (N g : Nat) : Nat → Nat → Nat → Option Nat
  | 0, _, _ => none
  | f + 1, x, k =>
    let k' := if modExpPow2 galoisGen k N ≠ modExpPow2 g x N then k ||| (N >>> 3) else k
    if x = 1 then some k' else dlogLoop N g f (x >>> 1) (k' >>> 1)

/-- `Parameters.SolveDiscreteLogGaloisElement(galEl)` with `N = NthRoot`. -/
def solveDiscreteLog (nthRoot g : Nat) : Option Nat := dlogLoop nthRoot g 64 (nthRoot >>> 3) 0

/-! ### `AutomorphismNTTIndex` -/

/-- `utils.BitReverse64(x, bitLen)` for `x < 2^bitLen`: reverse the `bitLen` low bits. -/
def bitRevAux : Nat → Nat → Nat → Nat
  | 0, _, acc => acc
  | b + 1, x, acc => bitRevAux b (x / 2) (2 * acc + x % 2)

def bitRev (x bitLen : Nat) : Nat := bitRevAux bitLen x 0

/-- One entry of the table of `ring.AutomorphismNTTIndex(N, NthRoot, GalEl)`:
    `tmp1 = 2*brev(i)+1; tmp2 = ((GalEl*tmp1 & mask) - 1) >> 1; index[i] = brev(tmp2)`,
    with `logNthRoot = bits.Len64(NthRoot-1) - 1`, `mask = NthRoot-1`. -/
def nttIndexAt (nthRoot g i : Nat) : Nat :=
  let logNthRoot := len64 (nthRoot - 1) - 1
  let mask := nthRoot - 1
  let tmp1 := u64add (u64mul 2 (bitRev i logNthRoot)) 1
  let tmp2 := (u64sub (u64mul g tmp1 &&& mask) 1) >>> 1
  bitRev tmp2 logNthRoot

/-- `ring.AutomorphismNTTIndex(N, NthRoot, GalEl)`; `none` = the error returns
    (N or NthRoot not a power of two). -/
def automorphismNTTIndex (N nthRoot g : Nat) : Option (List Nat) :=
  if N &&& (N - 1) ≠ 0 then none
  else if nthRoot &&& (nthRoot - 1) ≠ 0 then none
  else some ((List.range N).map (nttIndexAt nthRoot g))

end Lattigo.Model.Galois
