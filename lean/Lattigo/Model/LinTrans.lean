/-
  C12 — homomorphic linear transformations: executable model of the ALGORITHMS of

    circuits/common/lintrans/lintrans.go           : Diagonals.At, NewLinearTransformation, Encode,
                                                     rotateAndEncodeDiagonal, GaloisElements,
                                                     FindBestBSGSRatio, BSGSIndex
    circuits/common/lintrans/lintrans_evaluator.go : EvaluateMany, EvaluateSequential,
                                                     PreRotatedCiphertextForDiagonalMatrixMultiplication,
                                                     MultiplyByDiagMatrix, MultiplyByDiagMatrixBSGS
    circuits/{bgv,ckks}/lintrans/lintrans.go       : Permutation.GetDiagonals, Diagonals.Evaluate

  over an abstract slot carrier `α` (`SlotOps α`: slot-wise sum and product, cyclic rotation of every
  row, zero).  The ciphertext layer is not modelled here (its lazy-accumulation schedule — counters,
  margins, reduce points, one accumulator word — is `Model/LinTransLazy.lean`; hoisting, automorphisms,
  ModDown are not modelled at all): a ciphertext is represented by the slot vector it decrypts to; `rot k` stands for
  "automorphism with Galois element 5^k followed by key switching", `mul pt ct` for the product with
  an encoded diagonal.  What IS modelled exactly: which diagonal is multiplied with which rotation of
  the input, the pre-rotation applied at encoding time, the order of accumulation, the ordered list
  of Galois keys requested, the advertised list, the output level and scale.

  Go `int` indices are `Int`.  `x & (slots-1)` is modelled as `x % slots` (every caller passes
  `slots = 1 << LogDimensions.Cols` and `N1` a power of two, for which the two agree in two's
  complement).  Go maps are association lists; wherever the Go code iterates a map in unspecified
  order the model uses the sorted order and the harness canonicalises (only `GaloisElements` in the
  BSGS branch exposes such an order).
  Core Lean only.
-/
import Lattigo.Model.Galois

namespace Lattigo.Model.LinTrans

/-! ## the abstract slot carrier -/

structure SlotOps (α : Type) where
  add : α → α → α
  mul : α → α → α
  rot : Int → α → α
  zero : α

/-! ## sorted lists of indices -/

/-- insert into a strictly increasing list (no duplicates): the sorted key list of a Go map -/
def insertU (x : Int) : List Int → List Int
  | [] => [x]
  | y :: ys => if x < y then x :: y :: ys else if x = y then y :: ys else y :: insertU x ys

/-- `utils.GetSortedKeys` of a map whose keys are the elements of `l` -/
def sortU (l : List Int) : List Int := l.foldr insertU []

/-- insert into a sorted list keeping duplicates (`sort.Ints`) -/
def insertS (x : Int) : List Int → List Int
  | [] => [x]
  | y :: ys => if x ≤ y then x :: y :: ys else y :: insertS x ys

def sortS (l : List Int) : List Int := l.foldr insertS []

/-! ## index arithmetic -/

/-- `rot &= (slots - 1)` -/
def normIdx (slots : Nat) (k : Int) : Int := k % (slots : Int)

/-- `idxN1 := ((rot / N1) * N1) & (slots - 1)` (giant step) for `rot` already normalised -/
def giant (slots N1 : Nat) (r : Int) : Int := normIdx slots (r / (N1 : Int) * (N1 : Int))

/-- `idxN2 := rot & (N1 - 1)` (baby step) -/
def baby (N1 : Nat) (r : Int) : Int := r % (N1 : Int)

/-- result of `BSGSIndex`: `index` (as a list sorted by key; every value list sorted), `rotN1`, `rotN2` -/
structure BSGS where
  index : List (Int × List Int)
  rotN1 : List Int
  rotN2 : List Int

/-- `lintrans.BSGSIndex(nonZeroDiags, slots, N1)` -/
def bsgsIndex (diags : List Int) (slots N1 : Nat) : BSGS :=
  let ds := diags.map (normIdx slots)
  let rotN1 := sortU (ds.map (giant slots N1))
  let rotN2 := sortU (ds.map (baby N1))
  { index := rotN1.map fun j =>
      (j, sortS ((ds.filter fun r => giant slots N1 r == j).map (baby N1)))
    rotN1 := rotN1
    rotN2 := rotN2 }

/-- `float64(nbN2)/float64(nbN1) == maxRatio` for `maxRatio = 2^logMaxRatio`:
    `x/0` is `±Inf` or `NaN`, never equal to a finite number. -/
def ratioEq (nbN2 nbN1 : Int) (logMaxRatio : Nat) : Bool :=
  nbN1 != 0 && nbN2 == (2 : Int) ^ logMaxRatio * nbN1

/-- `float64(nbN2)/float64(nbN1) > maxRatio`: `+Inf` for `nbN2 > 0 = nbN1`, `NaN` (false) for `0/0`. -/
def ratioGt (nbN2 nbN1 : Int) (logMaxRatio : Nat) : Bool :=
  if nbN1 > 0 then nbN2 > (2 : Int) ^ logMaxRatio * nbN1
  else if nbN1 == 0 then nbN2 > 0
  else nbN2 < (2 : Int) ^ logMaxRatio * nbN1

/-- loop of `FindBestBSGSRatio`: `for N1 := 1; N1 < maxN; N1 <<= 1` -/
def findBestLoop (diags : List Int) (maxN logMaxRatio : Nat) : Nat → Nat → Nat
  | 0, _ => 1
  | fuel + 1, N1 =>
    if N1 < maxN then
      let b := bsgsIndex diags maxN N1
      let nbN1 : Int := (b.rotN1.length : Int) - 1
      let nbN2 : Int := (b.rotN2.length : Int) - 1
      if ratioEq nbN2 nbN1 logMaxRatio then N1
      else if ratioGt nbN2 nbN1 logMaxRatio then N1 / 2
      else findBestLoop diags maxN logMaxRatio fuel (2 * N1)
    else 1

/-- `lintrans.FindBestBSGSRatio(nonZeroDiags, maxN, logMaxRatio)` (`logMaxRatio ≥ 0`) -/
def findBestBSGSRatio (diags : List Int) (maxN logMaxRatio : Nat) : Nat :=
  findBestLoop diags maxN logMaxRatio (maxN + 1) 1

/-! ## advertised rotations -/

/-- rotation indices whose Galois elements `lintrans.GaloisElements` returns.  Naive branch
    (`logRatio < 0`): `rotN2` of `BSGSIndex(diags, slots, slots)` in that order.  BSGS branch:
    `utils.GetDistincts(append(rotN1, rotN2...))` — Go map order, canonicalised as sorted. -/
def advertisedRots (diags : List Int) (slots : Nat) (logRatio : Int) : List Int :=
  if logRatio < 0 then (bsgsIndex diags slots slots).rotN2
  else
    let N1 := findBestBSGSRatio diags slots logRatio.toNat
    let b := bsgsIndex diags slots N1
    sortU (b.rotN1 ++ b.rotN2)

/-- `lintrans.GaloisElements` -/
def galoisElements (nthRoot : Nat) (diags : List Int) (slots : Nat) (logRatio : Int) : List Nat :=
  (advertisedRots diags slots logRatio).map (Galois.galEl nthRoot)

/-! ## allocation and encoding -/

def lookupI {β : Type} (k : Int) : List (Int × β) → Option β
  | [] => none
  | (k', v) :: rest => if k' = k then some v else lookupI k rest

/-- `Diagonals.At(i, slots)`: the diagonal stored under `i`, else under the equivalent spelling
    `i - slots` (`i > 0`) resp. `i + slots` (`i < 0`); `none` = error. -/
def diagAt {β : Type} (m : List (Int × β)) (i : Int) (slots : Nat) : Option β :=
  match lookupI i m with
  | some v => some v
  | none => if i > 0 then lookupI (i - slots) m else if i < 0 then lookupI (i + slots) m else none

/-- `NewLinearTransformation`: `(N1, keys of Vec)`; keys sorted (a Go map). -/
def allocate (diags : List Int) (cols : Nat) (logRatio : Int) : Nat × List Int :=
  if logRatio < 0 then
    (0, sortU (diags.map fun i => if i < 0 then i + cols else i))
  else
    let N1 := findBestBSGSRatio diags cols logRatio.toNat
    let b := bsgsIndex diags cols N1
    (N1, sortU (b.index.flatMap fun ji => ji.2.map fun i => ji.1 + i))

/-- `rotateAndEncodeDiagonal`: `rot &= cols-1; if rot != 0 { rotate every row left by rot }` -/
def rotateAndEncode {α : Type} (O : SlotOps α) (cols : Nat) (rot : Int) (v : α) : α :=
  let r := normIdx cols rot
  if r != 0 then O.rot r v else v

/-- the encoded diagonal for the key `k = j + i` of a BSGS transformation: pre-rotation by
    `-j & (cols-1)` where `j` is the giant step of `k` -/
def preRot {α : Type} (O : SlotOps α) (cols N1 : Nat) (k : Int) (v : α) : α :=
  rotateAndEncode O cols (normIdx cols (-(giant cols N1 k))) v

/-- `lintrans.Encode` on a transformation allocated with `(N1, keys)`.
    `none` = an error is returned.  In the naive branch diagonals present in `allocated` but absent
    from `diagonals` silently stay zero; in the BSGS branch diagonals present in `diagonals` but not
    allocated are silently ignored. -/
def encode {α : Type} (O : SlotOps α) (cols : Nat) (N1 : Nat) (keys : List Int)
    (diagonals : List (Int × α)) : Option (List (Int × α)) :=
  if N1 = 0 then
    -- for _, i := range diags: idx must be allocated
    if diagonals.all fun d => keys.contains (if d.1 < 0 then d.1 + cols else d.1) then
      some (keys.map fun k =>
        -- last write wins; keys of a Go map are distinct, so at most the two spellings i and i-cols
        match (diagonals.filter fun d => (if d.1 < 0 then d.1 + (cols : Int) else d.1) == k).getLast? with
        | some d => (k, d.2)
        | none => (k, O.zero))
    else none
  else
    keys.mapM fun k =>
      match diagAt diagonals k cols with
      | some v => some (k, preRot O cols N1 k v)
      | none => none

/-! ## evaluation -/

/-- "first term assigns, the others accumulate" -/
def accum {α : Type} (O : SlotOps α) : List α → Option α
  | [] => none
  | x :: xs => some (xs.foldl O.add x)

/-- what an evaluation leaves in `opOut` -/
inductive EvalRes (α : Type) where
  /-- the slot vector -/
  | val (a : α)
  /-- run-time panic (nil polynomial: a key of `Vec` outside `[0, slots)`) -/
  | panic

/-- one summand of `MultiplyByDiagMatrix`: `k &= slots-1; pt := matrix.Vec[k]` times the input
    rotated by `k`; `none` = `Vec[k]` is the zero-value `ringqp.Poly` (nil dereference) -/
def naiveTerm {α : Type} (O : SlotOps α) (slots : Nat) (vec : List (Int × α)) (v : α) (k : Int) : Option α :=
  match lookupI (normIdx slots k) vec with
  | some pt => some (O.mul pt (O.rot (normIdx slots k) v))
  | none => none

/-- `MultiplyByDiagMatrix` (naive, single hoisting).  Without any diagonal other than (possibly) the
    main one nothing is accumulated in QP: the result is `pt_0 ⊙ v`, resp. zero. -/
def evalNaive {α : Type} (O : SlotOps α) (slots : Nat) (vec : List (Int × α)) (v : α) : EvalRes α :=
  match sortU (vec.map (·.1)) with
  | [] => .val O.zero
  | k0 :: rest =>
    let state := k0 == 0
    let ks := if state then rest else k0 :: rest
    match ks.mapM (naiveTerm O slots vec v) with
    | none => .panic
    | some ts =>
      let pt0 := (lookupI 0 vec).map fun pt => O.mul pt v
      match accum O ts, state with
      | some a, false => .val a
      | some a, true => match pt0 with
        | some p => .val (O.add a p)
        | none => .panic
      | none, _ => .val (pt0.getD O.zero)

/-- inner loop body of `MultiplyByDiagMatrixBSGS`: `pt := matrix.Vec[j+i]` times `ctInPreRot[i]`
    (`ctIn` itself for `i = 0`) -/
def bsgsInner {α : Type} (O : SlotOps α) (vec : List (Int × α)) (v : α) (j i : Int) : Option α :=
  match lookupI (j + i) vec with
  | some pt => some (O.mul pt (if i == 0 then v else O.rot i v))
  | none => none

/-- outer loop body: the inner sum, rotated by the giant step `j` when `j ≠ 0` -/
def bsgsOuter {α : Type} (O : SlotOps α) (vec : List (Int × α)) (v : α) (ji : Int × List Int) : Option α :=
  match ji.2.mapM (bsgsInner O vec v ji.1) with
  | none => none
  | some ts => match accum O ts with
    | none => none
    | some s => some (if ji.1 != 0 then O.rot ji.1 s else s)

/-- `MultiplyByDiagMatrixBSGS` (double hoisting); `ctInPreRot[i] = rot i v`. -/
def evalBSGS {α : Type} (O : SlotOps α) (slots N1 : Nat) (vec : List (Int × α)) (v : α) : EvalRes α :=
  match (bsgsIndex (vec.map (·.1)) slots N1).index.mapM (bsgsOuter O vec v) with
  | none => .panic
  | some ts => match accum O ts with
    | some a => .val a
    | none => .val O.zero                                 -- the zero matrix

/-- one transformation as the evaluator sees it -/
structure LT (α : Type) where
  N1 : Nat
  logCols : Nat
  levelQ : Nat
  scale : Nat
  vec : List (Int × α)

def evalOne {α : Type} (O : SlotOps α) (lt : LT α) (v : α) : EvalRes α :=
  if lt.N1 = 0 then evalNaive O (2 ^ lt.logCols) lt.vec v
  else evalBSGS O (2 ^ lt.logCols) lt.N1 lt.vec v

/-! ## requested Galois keys, in order -/

/-- `MultiplyByDiagMatrix`: one `CheckAndGetGaloisKey` per non-zero key, ascending -/
def reqNaive (slots : Nat) (keys : List Int) : List Int :=
  match sortU keys with
  | [] => []
  | k0 :: rest => ((if k0 == 0 then rest else k0 :: rest).map (normIdx slots))

/-- `PreRotatedCiphertextForDiagonalMatrixMultiplication`: `(requests, new ctPreRot key set)` -/
def reqPreRot (rots : List Int) (have_ : List Int) : List Int × List Int :=
  let kept := have_.filter rots.contains
  rots.foldl (fun (acc : List Int × List Int) i =>
    if i != 0 && !acc.2.contains i then (acc.1 ++ [i], acc.2 ++ [i]) else acc) ([], kept)

/-- `MultiplyByDiagMatrixBSGS`: one `CheckAndGetGaloisKey` per non-zero giant step, ascending -/
def reqGiant (slots N1 : Nat) (keys : List Int) : List Int :=
  ((bsgsIndex keys slots N1).index.map (·.1)).filter (· != 0)

/-- `EvaluateMany`: rotation indices of all Galois-key look-ups, in order; the state is `ctPreRot`. -/
def reqMany (lts : List (Nat × Nat × List Int)) : List Int :=
  (lts.foldl (fun (acc : List Int × List Int) (lt : Nat × Nat × List Int) =>
    let (N1, slots, keys) := lt
    if N1 = 0 then (acc.1 ++ reqNaive slots keys, acc.2)
    else
      let (rq, have_) := reqPreRot (bsgsIndex keys slots N1).rotN2 acc.2
      (acc.1 ++ rq ++ reqGiant slots N1 keys, have_)) ([], [])).1

/-! ## `EvaluateMany` and `EvaluateSequential`

`EvaluateMany` recomputes the hoisted decomposition of `ctIn.Value[1]` for every transformation of
the list (the giant steps of `MultiplyByDiagMatrixBSGS` use the same pool buffer as scratch space);
the pre-rotated ciphertexts `ctPreRot` are shared between the transformations (see `reqMany`). -/

/-- `EvaluateMany(ctIn, lts, opOut)` -/
def evalMany {α : Type} (O : SlotOps α) (lts : List (LT α)) (v : α) : List (EvalRes α) :=
  lts.map fun lt => evalOne O lt v

/-! ## output level and scale -/

/-- `levelQ := min(opOut.Level(), min(ctIn.Level(), matrix.LevelQ))`,
    `opOut.Scale = ctIn.Scale.Mul(matrix.Scale)` (product mod `t` for bgv, `t = 0`: plain product). -/
def outMeta (t outLevel ctLevel ltLevel ctScale ltScale : Nat) : Nat × Nat :=
  (min outLevel (min ctLevel ltLevel), if t = 0 then ctScale * ltScale else ctScale * ltScale % t)

/-- `rlwe.Scale` of the integer scheme: the value and the modulus riding on it (`Mod`; `0` = none, what
    `rlwe.NewScale(k)` builds; `params.NewScale(k)` and `params.DefaultScale()` attach `t`) -/
structure ScaleM where
  value : Nat
  mod : Nat
deriving DecidableEq, Repr

/-- `rlwe.Scale.Mul`: the modulus is the RECEIVER's — the product is reduced iff the receiver carries one -/
def ScaleM.mul (s s1 : ScaleM) : ScaleM :=
  ⟨if s.mod = 0 then s.value * s1.value else s.value * s1.value % s.mod, s.mod⟩

/-- `*opOut.MetaData = *ctIn.MetaData; opOut.Scale = opOut.Scale.Mul(matrix.Scale)`: the CIPHERTEXT's scale is the
    receiver, so the output keeps the ciphertext's modulus however the transformation's scale was built -/
def outScale (ct lt : ScaleM) : ScaleM := ct.mul lt

/-- `EvaluateSequential`: `EvaluateMany(ctIn, lts[:1], {opOut}); Rescale; for i ≥ 1
    { EvaluateMany(opOut, lts[i:i+1], {opOut}); Rescale }` — values only. -/
def evalSeq {α : Type} (O : SlotOps α) (lts : List (LT α)) (v : α) : EvalRes α :=
  match lts with
  | [] => .panic                       -- linearTransformations[:1] of an empty slice
  | lt0 :: rest =>
    rest.foldl (fun (acc : EvalRes α) lt =>
      match acc with
      | .val w => evalOne O lt w
      | r => r) (evalOne O lt0 v)

/-- level and scale along `EvaluateSequential` for bgv (`t` prime, `qmodt[l] = q_l mod t`):
    `Rescale` drops one level and divides the scale by `q_level` modulo `t`; `none` = error
    (rescaling at level 0). -/
def seqMeta (t : Nat) (qmodt : List Nat) (ctLevel ctScale : Nat) (lts : List (Nat × Nat)) : Option (Nat × Nat) :=
  match lts with
  | [] => none
  | (l0, s0) :: rest =>
    let step (lvl sc : Nat) : Option (Nat × Nat) :=
      if lvl = 0 then none
      else some (lvl - 1, sc * Galois.modExp (qmodt.getD lvl 0) (t - 2) t % t)
    let m0 := outMeta t l0 ctLevel l0 ctScale s0
    rest.foldl (fun (acc : Option (Nat × Nat)) (ls : Nat × Nat) =>
      match acc with
      | none => none
      | some (lvl, sc) =>
        let m := outMeta t lvl lvl ls.1 sc ls.2
        step m.1 m.2) (step m0.1 m0.2)

/-! ## permutations -/

/-- `Permutation.GetDiagonals` for one row: mappings `(from, to, scaling)`; result: for every
    diagonal index `(slots + from - to) & (slots-1)` the list of `(to, scaling)` writes, in order
    (a later write to the same position wins). -/
def permDiagIdx (slots : Nat) (from_ to : Int) : Int := normIdx slots ((slots : Int) + from_ - to)

/-- set position `i` of a list -/
def setAt (l : List Nat) (i : Nat) (x : Nat) : List Nat := l.set i x

/-- `Permutation.GetDiagonals`: `rowsN` rows of `slots` columns; mappings `(row, from, to, scaling)`
    in order.  Result: association list diagonal index ↦ vector of `rowsN*slots` values, sorted by index. -/
def permDiagonals (rowsN slots : Nat) (maps : List (Nat × Int × Int × Nat)) : List (Int × List Nat) :=
  let m := maps.foldl (fun (acc : List (Int × List Nat)) (mp : Nat × Int × Int × Nat) =>
    let (row, from_, to, sc) := mp
    let d := permDiagIdx slots from_ to
    let pos := (to + (row * slots : Nat)).toNat
    match lookupI d acc with
    | some _ => acc.map fun kv => if kv.1 = d then (kv.1, setAt kv.2 pos sc) else kv
    | none => acc ++ [(d, setAt (List.replicate (rowsN * slots) 0) pos sc)]) []
  (sortU (m.map (·.1))).filterMap fun k => (lookupI k m).map fun v => (k, v)

/-! ## the execution instance: `rows` independent cyclic rows of `n` integer slots -/

abbrev Slots (n : Nat) := Nat → Fin n → Int

def rotFin (n : Nat) (k : Int) (c : Fin n) : Fin n :=
  ⟨(((c.val : Int) + k) % (n : Int)).toNat, by
    have hn : (0 : Int) < (n : Int) := by have := c.isLt; omega
    have h1 := Int.emod_nonneg ((c.val : Int) + k) (Int.ne_of_gt hn)
    have h2 := Int.emod_lt_of_pos ((c.val : Int) + k) hn
    omega⟩

def fnOps (n : Nat) : SlotOps (Slots n) where
  add a b := fun r c => a r c + b r c
  mul a b := fun r c => a r c * b r c
  rot k a := fun r c => a r (rotFin n k c)
  zero := fun _ _ => 0

/-- a `rows × n` row-major list as a slot function (out-of-range reads give 0) -/
def ofList (n : Nat) (l : List Int) : Slots n :=
  let arr := l.toArray
  fun r c => arr.getD (r * n + c.val) 0

def toList (rows n : Nat) (a : Slots n) : List Int :=
  (List.range rows).flatMap fun r => (List.finRange n).map fun c => a r c

/-- the plaintext matrix–vector product for the matrix whose generalised diagonals are `diag`
    (`M[r][(r+d) mod n] = diag d r`): the specification the theorems compare against. -/
def matVec (n : Nat) (ds : List Int) (diag : Int → Slots n) (v : Slots n) : Slots n :=
  fun r c => (ds.map fun d => diag d r c * v r (rotFin n d c)).foldr (· + ·) 0

end Lattigo.Model.LinTrans
