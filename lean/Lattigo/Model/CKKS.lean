/-
  Model of the *bookkeeping* of `schemes/ckks/evaluator.go` (property C06), core Lean only.

  What is modelled (and tied bit-exactly to the Go code by `harness/c06.go`):

  * `Dy` — a non-negative `big.Float` value as an exact dyadic `m·2^e` (canonical: `m` odd or
    `m = 0 ∧ e = 0`), with the one rounding lattigo's `rlwe.Scale` ever applies: round-to-nearest-even
    to `prec` mantissa bits (`roundRat`), used by `Scale.Mul` / `Scale.Div` (`rlwe.ScalePrecision = 128`,
    `new(big.Float)` has precision 0, so `Mul/Quo` take `max` of the operand precisions = 128).
  * `rnsConst` — `bignum.ToComplex` (rounding of the scalar to `EncodingPrecision` bits) followed by
    `bigComplexToRNSScalar` (product with the scale rounded to `max(prec,128)` bits, `±0.5`, truncation).
  * `Meta` = (level, degree, scale, LogDimensions.Cols) and, for every public `ckks.Evaluator`
    method, the output metadata **as the code computes it** (not as it should be), plus the exact
    integer *effect* of the operation **on every component** `c_0, c_1, c_2` of the result (the
    multipliers applied to the matching component of `op0`, `op1` and of the previous `opOut`, and the
    RNS constants), which the harness reads back from transparent ciphertexts (every component a
    distinct monomial: `op0.c_i = X^(1+4i)`, `op1.c_i = X^(2+4i)`, `opOut.c_i = X^(4+4i)`).

  Not modelled: ring arithmetic on limbs (C01/C02), noise, float64/big.Float FFT (probes only).
-/
namespace Lattigo.CKKS

/-! ## dyadic numbers with `big.Float` rounding -/

/-- non-negative finite `big.Float` value `m · 2^e`. -/
structure Dy where
  m : Nat
  e : Int
deriving DecidableEq, Repr, Inhabited

/-- number of bits of `n` (`0` for `0`). -/
def bitLen (n : Nat) : Nat := if n = 0 then 0 else n.log2 + 1

/-- divide out factors of two (at most `fuel` of them). -/
def stripZeros : Nat → Nat → Int → Nat × Int
  | 0, m, e => (m, e)
  | f + 1, m, e => if m % 2 = 0 then stripZeros f (m / 2) (e + 1) else (m, e)

/-- canonical form. -/
def Dy.norm (m : Nat) (e : Int) : Dy :=
  if m = 0 then ⟨0, 0⟩ else
    let p := stripZeros (bitLen m) m e
    ⟨p.1, p.2⟩

def Dy.zero : Dy := ⟨0, 0⟩
def Dy.ofNat (n : Nat) : Dy := Dy.norm n 0
def Dy.one : Dy := ⟨1, 0⟩

/-- `2^k` for an integer known to be non-negative (`0` exponent otherwise). -/
def pow2 (k : Int) : Nat := 2 ^ k.toNat

/-- `a < b`, `a = b`, `a > b` on values. -/
def Dy.cmp (a b : Dy) : Ordering :=
  let e0 := min a.e b.e
  compare (a.m * pow2 (a.e - e0)) (b.m * pow2 (b.e - e0))

def Dy.lt (a b : Dy) : Bool := a.cmp b == .lt
def Dy.max (a b : Dy) : Dy := if a.cmp b == .lt then b else a

/-- The value `num/den · 2^e` rounded to `prec` mantissa bits, nearest, ties to even
    (`big.Float` default mode).  `den > 0`. -/
def roundRat (prec : Nat) (num den : Nat) (e : Int) : Dy :=
  if num = 0 then Dy.zero else
    -- shift so that the integer quotient has prec+1 or prec+2 bits
    let k : Int := (prec : Int) + 1 + (bitLen den : Int) - (bitLen num : Int)
    let n' := num * pow2 k
    let d' := den * pow2 (-k)
    let q := n' / d'
    let r := n' % d'
    let drop := bitLen q - prec
    let hi := q / 2 ^ drop
    let lo := q % 2 ^ drop
    let half := 2 ^ (drop - 1)
    let up : Bool := decide (half < lo) || (lo == half && (r != 0 || hi % 2 == 1))
    Dy.norm (if up then hi + 1 else hi) (e - k + (drop : Int))

/-- `Scale.Mul` (floating-point scales, `Mod == nil`). -/
def Dy.mul (prec : Nat) (a b : Dy) : Dy := roundRat prec (a.m * b.m) 1 (a.e + b.e)

/-- `Scale.Div`; the divisor must be non-zero (a zero divisor gives `+Inf` in Go; not modelled). -/
def Dy.div (prec : Nat) (a b : Dy) : Dy := roundRat prec a.m b.m (a.e - b.e)

/-- `big.Float.Int`: truncation towards zero. -/
def Dy.toNat (a : Dy) : Nat := if 0 ≤ a.e then a.m * pow2 a.e else a.m / pow2 (-a.e)

/-- `big.Float.IsInt` (canonical form: odd mantissa). -/
def Dy.isInt (a : Dy) : Bool := decide (0 ≤ a.e)

/-- `rlwe.ScalePrecision`. -/
def scalePrec : Nat := 128

def smul (a b : Dy) : Dy := Dy.mul scalePrec a b
def sdiv (a b : Dy) : Dy := Dy.div scalePrec a b

/-! ## signed dyadics: scalar operands -/

/-- signed `big.Float` value `(-1)^neg · mag`. -/
structure SD where
  neg : Bool
  mag : Dy
deriving DecidableEq, Repr, Inhabited

def SD.ofInt (z : Int) : SD := ⟨decide (z < 0), Dy.ofNat z.natAbs⟩

/-- `new(big.Float).SetPrec(prec).Set(x)`: rounding of a scalar to the encoding precision
    (`bignum.ToComplex`). -/
def SD.round (prec : Nat) (x : SD) : SD := ⟨x.neg, roundRat prec x.mag.m 1 x.mag.e⟩

def SD.isInt (x : SD) : Bool := x.mag.isInt

/-- `|t| + 1/2` exactly. -/
def addHalf (t : Dy) : Dy :=
  if 0 ≤ t.e then Dy.norm (t.m * pow2 (t.e + 1) + 1) (-1)
  else Dy.norm (t.m + pow2 (-t.e - 1)) t.e

/-- Fixed-point conversion as lattigo writes it with `big.Float`s of working precision `P`:
    `r := x*scale` (rounded to `P` bits), `r ± 0.5` (rounded again), truncated towards zero.
    Shared by `bigComplexToRNSScalar` (`P = max(prec x, 128)`), `ComplexArbitraryToFixedPointCRT`
    (same `P`), `BigFloatToFixedPointCRT` (`P = values[0].Prec()`) and, with `P = 53`, the float64
    path `SingleFloat64ToFixedPointCRT`. -/
def fixedPoint (P : Nat) (x : SD) (scale : Dy) : Int :=
  if x.mag.m = 0 then 0 else
    let t := Dy.mul P x.mag scale
    let u := let h := addHalf t; roundRat P h.m 1 h.e
    if x.neg then - (u.toNat : Int) else (u.toNat : Int)

/-- One component of `bigComplexToRNSScalar(ring, scale, x)`; `xprec` is the precision of `x`
    (the encoding precision), the product is rounded to `max(xprec, 128)` bits. -/
def rnsConst (xprec : Nat) (x : SD) (scale : Dy) : Int :=
  fixedPoint (Nat.max xprec scalePrec) x scale

/-! ## parameters -/

structure Params where
  /-- the moduli chain `q_0 … q_L` -/
  qs : List Nat
  /-- `LevelsConsumedPerRescaling` -/
  lcpr : Nat
  /-- `EncodingPrecision` -/
  prec : Nat
  /-- `RingType == ConjugateInvariant` -/
  conjInv : Bool
  /-- `NthRoot` (2N standard, 4N conjugate invariant) -/
  nthRoot : Nat
  /-- `LogMaxDimensions().Cols` -/
  logMaxSlots : Nat
  /-- Galois elements for which the evaluator has a key -/
  galEls : List Nat
  /-- relinearisation key present -/
  hasRlk : Bool
deriving Repr, Inhabited

/-- `floor(log2 x)` of a positive dyadic. -/
def Dy.floorLog2 (a : Dy) : Int := (bitLen a.m : Int) - 1 + a.e

/-- `Parameters.EncodingPrecision`: `53` if `log2(scale) ≤ 53`, else `uint(log2 scale)`. -/
def encodingPrecision (defaultScale : Dy) : Nat :=
  if Dy.cmp defaultScale (Dy.norm 1 53) != .gt then 53 else defaultScale.floorLog2.toNat

/-- `Parameters.LevelsConsumedPerRescaling`: `2` iff `round(log2 scale) > 64`, i.e. `scale² ≥ 2^129`
    (float rounding of `math.Log2` at the boundary is not modelled). -/
def levelsConsumed (defaultScale : Dy) : Nat :=
  let sq : Dy := Dy.norm (defaultScale.m * defaultScale.m) (2 * defaultScale.e)
  if Dy.cmp sq (Dy.norm 1 129) == .lt then 1 else 2

def Params.q (P : Params) (i : Nat) : Nat := P.qs.getD i 1

/-- `Q_level = q_0 ⋯ q_level`. -/
def Params.bigQ (P : Params) (level : Nat) : Nat := (P.qs.take (level + 1)).foldl (· * ·) 1

/-- centred representative of `x mod Q_level` in `[-Q/2, Q/2)` as the harness reads it
    (`c ≥ Q>>1 ↦ c − Q`). -/
def centerMod (x : Int) (Q : Nat) : Int :=
  let r := x % (Q : Int)
  if (Q / 2 : Nat) ≤ r.toNat then r - Q else r

/-! ## metadata -/

structure Meta where
  level : Nat
  degree : Nat
  scale : Dy
  logSlots : Nat
deriving DecidableEq, Repr, Inhabited

/-- which operand the receiver `opOut` is -/
inductive Alias | fresh | out0 | out1
deriving DecidableEq, Repr, Inhabited

/-- `oom`: the call succeeds in Go but leaves the state space of the model (negative level). -/
inductive Err | err | panic | oom
deriving DecidableEq, Repr, Inhabited

/-- result: output metadata and the integer effect (op specific, see each op). -/
structure Res where
  md : Meta
  eff : List Int
deriving DecidableEq, Repr, Inhabited

abbrev R := Except Err Res

/-- the constant-scaling factor used for non-Gaussian-integer scalars and for vectors:
    `q_level · q_{level-1} ⋯` (`lcpr` primes); an error if `level < lcpr-1` (since fix C06-5; before,
    `ringQ.SubRings[level-i]` panicked). -/
def primeScale (P : Params) (level : Nat) : Except Err Dy :=
  if level + 1 < P.lcpr then .error .err else
    .ok <| (List.range P.lcpr).foldl (fun acc i =>
      if i = 0 then Dy.ofNat (P.q level) else smul acc (Dy.ofNat (P.q (level - i)))) Dy.one

/-- `Mul(op, scalar, op)` seen from the inside: the scale factor and the two RNS constants.
    `x` are the exact components of the scalar as passed by the caller. -/
def scalarScale (P : Params) (level : Nat) (re im : SD) : Except Err Dy :=
  let re' := re.round P.prec
  let im' := im.round P.prec
  if re'.isInt && im'.isInt then .ok Dy.one else primeScale P level

def consts (P : Params) (re im : SD) (scale : Dy) : Int × Int :=
  (rnsConst P.prec (re.round P.prec) scale, rnsConst P.prec (im.round P.prec) scale)

/-- the multiplier applied by `eval.Mul(ct, k, ct)` for a `*big.Int` `k` (rounded to the encoding
    precision by `ToComplex`, then exact). -/
def bigIntConst (P : Params) (k : Nat) : Int :=
  rnsConst P.prec ((SD.ofInt k).round P.prec) Dy.one

def sgn (sub : Bool) (x : Int) : Int := if sub then -x else x

/-- per-component effect list: `f i` for `i = 0 … deg`, concatenated. -/
def perComp (deg : Nat) (f : Nat → List Int) : List Int := (List.range (deg + 1)).flatMap f

/-- multiplier `k` on the receiver's old components `0 … oDeg` of a result of degree `deg`. -/
def gammaList (k : Int) (oDeg deg Q : Nat) : List Int :=
  perComp deg fun i => [if i ≤ oDeg then centerMod k Q else 0]

/-! ## Add / Sub -/

/-- `Add/Sub` with an `rlwe.ElementInterface` operand: `InitOutputBinaryOp`, `evaluateInPlace`.
    effect, for every component `i` of the result, `[α_i, β_i, γ_i]` with
    `opOut.c_i = α_i·op0.c_i + β_i·op1.c_i + γ_i·opOut_old.c_i`: both operands (scale-matched) up to the
    smaller degree, the scale-matched operand of higher degree alone above it (negated for `Sub` if it
    is `op1`); the receiver's previous content never survives (`γ_i = 0`; the result has the degree of
    the operands since the fix of `InitOutputBinaryOp`). -/
def addElt (P : Params) (sub : Bool) (a b o : Meta) : R :=
  if a.degree + b.degree = 0 then .error .err else
    let level := min (min a.level b.level) o.level
    let degree := max a.degree b.degree
    let ls := max a.logSlots b.logSlots
    let (k0, k1) : Int × Int :=
      match a.scale.cmp b.scale with
      | .gt => (1, bigIntConst P (sdiv a.scale b.scale).toNat)
      | .lt => (bigIntConst P (sdiv b.scale a.scale).toNat, 1)
      | .eq => (1, 1)
    let Q := P.bigQ level
    let minD := min a.degree b.degree
    let eff := perComp degree fun i =>
      if i ≤ minD then [centerMod k0 Q, centerMod (sgn sub k1) Q, 0]
      else if b.degree < a.degree then [centerMod k0 Q, 0, 0] else [0, centerMod (sgn sub k1) Q, 0]
    .ok ⟨⟨level, degree, a.scale.max b.scale, ls⟩, eff⟩

/-- `Add/Sub` with a scalar: the receiver takes `op0`'s scale (since fix C06-1; before, `opOut.Scale`
    was not written).  effect `[±re, ±im]` (added constants). -/
def addScalar (P : Params) (sub : Bool) (a o : Meta) (re im : SD) : R :=
  let level := min a.level o.level
  let (cr, ci) := consts P re im a.scale
  let Q := P.bigQ level
  .ok ⟨⟨level, a.degree, a.scale, a.logSlots⟩,
    [centerMod (sgn sub cr) Q, centerMod (sgn sub ci) Q] ++ perComp a.degree (fun _ => [1])⟩

/-- `Encoder.Embed` length check: `len ≤ MaxSlots` and `len ≤ 2^LogDimensions.Cols`. -/
def encodeOk (P : Params) (logSlots len : Nat) : Bool :=
  decide (logSlots ≤ P.logMaxSlots) && decide (len ≤ 2 ^ logSlots)

/-- `Add/Sub` with a vector: encoded at `op0`'s metadata, then `evaluateInPlace`. -/
def addVec (P : Params) (a o : Meta) (len : Nat) : R :=
  let level := min a.level o.level
  if !encodeOk P a.logSlots len then .error .err else
    .ok ⟨⟨level, a.degree, a.scale, a.logSlots⟩, []⟩

/-! ## Mul -/

/-- `Mul`/`MulRelin` with an element operand (`mulRelin`). -/
def mulElt (P : Params) (relin : Bool) (a b o : Meta) : R :=
  if a.degree + b.degree = 0 then .error .err else
  if a.degree + b.degree > 2 then .error .err else
    let level := min (min a.level b.level) o.level
    let ls := max a.logSlots b.logSlots
    let scale := smul a.scale b.scale
    if a.degree = 1 ∧ b.degree = 1 then
      if relin then
        if P.hasRlk then .ok ⟨⟨level, 1, scale, ls⟩, []⟩ else .error .err
      else .ok ⟨⟨level, 2, scale, ls⟩, []⟩
    else .ok ⟨⟨level, max a.degree b.degree, scale, ls⟩, []⟩

/-- `Mul` with a scalar.  effect `[re, im]`: `opOut = op0 · (re + im·X^{N/2})`. -/
def mulScalar (P : Params) (a o : Meta) (re im : SD) : R := do
  let level := min a.level o.level
  let s ← scalarScale P level re im
  let (cr, ci) := consts P re im s
  let Q := P.bigQ level
  .ok ⟨⟨level, a.degree, smul a.scale s, a.logSlots⟩, perComp a.degree (fun _ => [centerMod cr Q, centerMod ci Q])⟩

/-- `Mul` with a vector: encoded at scale `q_level(·q_{level-1})`, then `mulRelin`. -/
def mulVec (P : Params) (a o : Meta) (len : Nat) : R := do
  let level := min a.level o.level
  let s ← primeScale P level
  if !encodeOk P a.logSlots len then .error .err else
    mulElt P false a ⟨level, 0, s, a.logSlots⟩ ⟨level, a.degree, o.scale, a.logSlots⟩

/-! ## MulThenAdd -/

/-- round a dyadic to float64 precision (`Scale.Float64`), exponent range ignored. -/
def toF64 (a : Dy) : Dy := roundRat 53 a.m 1 a.e

/-- the multiplier `mulRelinThenAdd` applies to the receiver before accumulating, and the new scale. -/
def mtaEltScale (P : Params) (level : Nat) (a b o : Meta) : Except Err (Int × Dy) :=
  let resScale := smul a.scale b.scale
  if o.scale.lt resScale then
    let ratio := sdiv resScale o.scale
    if (toF64 ratio).cmp (Dy.ofNat 2) != .lt then do
      -- eval.Mul(opOut, &ratio.Value, opOut); opOut.Scale = resScale
      let x : SD := ⟨false, ratio⟩
      let s ← scalarScale P level x ⟨false, Dy.zero⟩
      pure ((consts P x ⟨false, Dy.zero⟩ s).1, resScale)
    else pure ((1 : Int), o.scale)
  else pure ((1 : Int), o.scale)

/-- `mulRelinThenAdd`.  effect `[γ_0, γ_1, …]`: `opOut.c_i = kOut·opOut.c_i + (op0 ⊗ op1)_i`
    (`γ_i = kOut` on every component the receiver had). -/
def mulThenAddElt (P : Params) (relin : Bool) (al : Alias) (a b o : Meta) : R := do
  if a.degree + b.degree = 0 then .error .err
  if a.degree + b.degree > 2 then .error .err
  if al != .fresh then .error .err
  let level := min (min a.level b.level) o.level
  let ls := max a.logSlots b.logSlots
  let (kOut, scale) ← mtaEltScale P level a b o
  let Q := P.bigQ level
  if a.degree = 1 ∧ b.degree = 1 then
    if relin then
      if P.hasRlk then .ok ⟨⟨level, max 1 o.degree, scale, ls⟩, gammaList kOut o.degree (max 1 o.degree) Q⟩
      else .error .err
    else .ok ⟨⟨level, 2, scale, ls⟩, gammaList kOut o.degree 2 Q⟩
  else .ok ⟨⟨level, max a.degree o.degree, scale, ls⟩, gammaList kOut o.degree (max a.degree o.degree) Q⟩

/-- the `op0.Scale` vs `opOut.Scale` case split shared by the scalar and vector branches of
    `MulThenAdd`: returns (constant scale, multiplier applied to opOut, new opOut scale). -/
def mtaScale (P : Params) (level : Nat) (isInt : Bool) (a o : Meta) : Except Err (Dy × Int × Dy) :=
  match a.scale.cmp o.scale with
  | .eq =>
    if isInt then .ok (Dy.one, 1, o.scale) else do
      let s ← primeScale P level
      -- eval.Mul(opOut, scaleInt, opOut): scale factor 1 (integer), then opOut.Scale *= s
      .ok (s, bigIntConst P s.toNat, smul (smul o.scale Dy.one) s)
  | .lt => .ok (sdiv o.scale a.scale, 1, o.scale)
  | .gt => .error .err

/-- `MulThenAdd` with a scalar: evaluated at the minimum level, the receiver keeps its higher-degree
    terms, the receiver must not be `op0` (fixes C06-2, C06-3).  effect `[kOut, re, im]`. -/
def mulThenAddScalar (P : Params) (al : Alias) (a o : Meta) (re im : SD) : R := do
  if al != .fresh then .error .err
  let level := min a.level o.level
  let isInt := (re.round P.prec).isInt && (im.round P.prec).isInt
  let (s, kOut, oscale) ← mtaScale P level isInt a o
  let (cr, ci) := consts P re im s
  let Q := P.bigQ level
  let deg := max a.degree o.degree
  .ok ⟨⟨level, deg, oscale, a.logSlots⟩, perComp deg fun i =>
    [if i ≤ o.degree then centerMod kOut Q else 0,
     if i ≤ a.degree then centerMod cr Q else 0, if i ≤ a.degree then centerMod ci Q else 0]⟩

/-- `MulThenAdd` with a vector: scale split as above, encode, then recursion on the element branch. -/
def mulThenAddVec (P : Params) (al : Alias) (a o : Meta) (len : Nat) : R := do
  if al != .fresh then .error .err
  let level := min a.level o.level
  let (s, kOut, oscale) ← mtaScale P level false a o
  if !encodeOk P a.logSlots len then .error .err
  let pt : Meta := ⟨level, 0, s, a.logSlots⟩
  let o' : Meta := ⟨level, max a.degree o.degree, oscale, a.logSlots⟩
  let r ← mulThenAddElt P false al a pt o'
  let (kElt, _) ← mtaEltScale P level a pt o'
  .ok ⟨r.md, gammaList (kOut * kElt) o.degree r.md.degree (P.bigQ level)⟩

/-! ## Rescale, RescaleTo, SetScale, ScaleUp, DropLevel -/

/-- `Rescale`: `lcpr` primes, the scale divided successively by `q_level, q_{level-1}, …`. -/
def rescale (P : Params) (a : Meta) : R :=
  if a.level + 1 ≤ P.lcpr then .error .err else
    let scale := (List.range P.lcpr).foldl (fun s i => sdiv s (Dy.ofNat (P.q (a.level - i)))) a.scale
    .ok ⟨⟨a.level - P.lcpr, a.degree, scale, a.logSlots⟩, []⟩

/-- the loop of `RescaleTo` (`for newLevel > 0`): `n` = current level; divides by `q_n, q_{n-1}, …, q_1`
    while the scale stays `≥ minScale/2`; returns (#rescales, scale). -/
def rescaleToLoop (P : Params) (minHalf : Dy) : Nat → Nat → Dy → Nat × Dy
  | 0, nb, cur => (nb, cur)
  | n + 1, nb, cur =>
    let s := sdiv cur (Dy.ofNat (P.q (n + 1)))
    if s.lt minHalf then (nb, cur) else rescaleToLoop P minHalf n (nb + 1) s

/-- `RescaleTo` (since fix C06-6 the prime `q_0` is never consumed). -/
def rescaleTo (P : Params) (a : Meta) (minScale : Dy) : R :=
  if minScale.m = 0 then .error .err else
  if a.scale.m = 0 then .error .err else
  if a.level = 0 then .error .err else
    let (nb, s) := rescaleToLoop P (sdiv minScale (Dy.ofNat 2)) a.level 0 a.scale
    .ok ⟨⟨a.level - nb, a.degree, s, a.logSlots⟩, [(nb : Int)]⟩

/-- `ring.DivRoundByLastModulus` on one integer coefficient: `⌊(x + ⌊q/2⌋)/q⌋`. -/
def divRound (x : Int) (q : Nat) : Int := (x + ((q / 2 : Nat) : Int)) / (q : Int)

/-- successive division by `q_level, q_{level-1}, …` (`nb` primes). -/
def divRoundMany (P : Params) (level : Nat) : Nat → Int → Int
  | 0, x => x
  | nb + 1, x => divRoundMany P (level - 1) nb (divRound x (P.q level))

/-- `SetScale`: `Mul(ct, target/ct.Scale, ct)`, `RescaleTo(ct, target, ct)`, `ct.Scale = target`.
    effect `[c, nb]`: the content is multiplied by the integer `c`, then `nb` primes are divided out
    (with rounding); the harness observes `divRoundMany nb c`. -/
def setScale (P : Params) (a : Meta) (target : Dy) : R := do
  let ratio : SD := ⟨false, sdiv target a.scale⟩
  let zero : SD := ⟨false, Dy.zero⟩
  let s ← scalarScale P a.level ratio zero
  let c := (consts P ratio zero s).1
  let r ← rescaleTo P ⟨a.level, a.degree, smul a.scale s, a.logSlots⟩ target
  let nb := (r.eff.headD 0).toNat
  let Q := P.bigQ r.md.level
  .ok ⟨{ r.md with scale := target }, perComp a.degree (fun _ => [centerMod (divRoundMany P a.level nb c) Q])⟩

/-- `Scale.Uint64` (`big.Float.Uint64`: truncation, saturating at `2^64-1`). -/
def Dy.toU64 (a : Dy) : Nat := Nat.min a.toNat (2 ^ 64 - 1)

/-- `ScaleUp`: content times `⌊scale⌋` (as uint64), recorded scale times `scale`. -/
def scaleUp (P : Params) (a o : Meta) (scale : Dy) : R :=
  let level := min a.level o.level
  let k := bigIntConst P scale.toU64
  .ok ⟨⟨level, a.degree, smul a.scale scale, a.logSlots⟩, perComp a.degree (fun _ => [centerMod k (P.bigQ level)])⟩

/-- `DropLevel`: `Resize(degree, level - levels)`; `levels > level` yields (without error) a
    ciphertext with no limbs (`Level() = -1`), outside the model's state space. -/
def dropLevel (a : Meta) (levels : Nat) : R :=
  if levels > a.level then .error .oom else .ok ⟨{ a with level := a.level - levels }, []⟩

/-! ## Rotate, Conjugate, Relinearize -/

def powMod (b e m : Nat) : Nat := Id.run do
  let mut r := 1 % m
  let mut bb := b % m
  let mut ee := e
  for _ in [0:64] do
    if ee % 2 = 1 then r := r * bb % m
    bb := bb * bb % m
    ee := ee / 2
  return r

/-- `Parameters.GaloisElement(k)` = `5^(k & (NthRoot-1)) mod NthRoot` (`k` as two's complement). -/
def galoisElement (P : Params) (k : Int) : Nat :=
  powMod 5 (k % (P.nthRoot : Int)).toNat P.nthRoot

/-- `rlwe.Evaluator.Automorphism`. -/
def automorphism (P : Params) (galEl : Nat) (a o : Meta) : R :=
  if a.degree ≠ 1 ∨ o.degree ≠ 1 then .error .err else
  if galEl = 1 then
    -- `opOut.Copy(ctIn)`: `ring.Poly.Copy` resizes the receiver to the level of the input
    .ok ⟨a, []⟩
  else if !P.galEls.contains galEl then .error .err
  else .ok ⟨{ a with level := min a.level o.level }, []⟩

def rotate (P : Params) (k : Int) (a o : Meta) : R := automorphism P (galoisElement P k) a o

def conjugate (P : Params) (a o : Meta) : R :=
  if P.conjInv then .error .err else automorphism P (P.nthRoot - 1) a o

/-- `rlwe.Evaluator.Relinearize`. -/
def relinearize (P : Params) (a o : Meta) : R :=
  if a.degree ≠ 2 then .error .err else
  if !P.hasRlk then .error .err else
    .ok ⟨{ a with level := min a.level o.level, degree := 1 }, []⟩

/-! ## the register machine -/

inductive Op
  | addElt (sub : Bool) (a b o : Meta)
  | addScalar (sub : Bool) (a o : Meta) (re im : SD)
  | addVec (a o : Meta) (len : Nat)
  | mulElt (relin : Bool) (a b o : Meta)
  | mulScalar (a o : Meta) (re im : SD)
  | mulVec (a o : Meta) (len : Nat)
  | mtaElt (relin : Bool) (al : Alias) (a b o : Meta)
  | mtaScalar (al : Alias) (a o : Meta) (re im : SD)
  | mtaVec (al : Alias) (a o : Meta) (len : Nat)
  | rescale (a : Meta)
  | rescaleTo (a : Meta) (minScale : Dy)
  | setScale (a : Meta) (target : Dy)
  | scaleUp (a o : Meta) (scale : Dy)
  | dropLevel (a : Meta) (levels : Nat)
  | rotate (k : Int) (a o : Meta)
  | conjugate (a o : Meta)
  | relinearize (a o : Meta)
deriving Repr

/-- one public `ckks.Evaluator` call. -/
def step (P : Params) : Op → R
  | .addElt sub a b o => addElt P sub a b o
  | .addScalar sub a o re im => addScalar P sub a o re im
  | .addVec a o len => addVec P a o len
  | .mulElt relin a b o => mulElt P relin a b o
  | .mulScalar a o re im => mulScalar P a o re im
  | .mulVec a o len => mulVec P a o len
  | .mtaElt relin al a b o => mulThenAddElt P relin al a b o
  | .mtaScalar al a o re im => mulThenAddScalar P al a o re im
  | .mtaVec al a o len => mulThenAddVec P al a o len
  | .rescale a => rescale P a
  | .rescaleTo a m => rescaleTo P a m
  | .setScale a t => setScale P a t
  | .scaleUp a o s => scaleUp P a o s
  | .dropLevel a n => dropLevel a n
  | .rotate k a o => rotate P k a o
  | .conjugate a o => conjugate P a o
  | .relinearize a o => relinearize P a o

end Lattigo.CKKS
