/-
  C17 — a session: several samplers created over ONE PRNG (as `rlwe.KeyGenerator` / `Encryptor`
  do), each with its own `randomBuffer` shared by all its `AtLevel` views, and a sequence of calls
  `sampler.AtLevel(level).{Read, ReadNew, ReadAndAdd}` on polynomials held in registers.
  The whole state is `(stream, one Buf per sampler, registers)`; the outputs are a function of
  the initial stream and the call sequence only (`determinism`, by construction).
  Core Lean only.
-/
import Lattigo.Model.SamplerUniform
import Lattigo.Model.SamplerTernary
import Lattigo.Model.SamplerGaussian
namespace Lattigo.Sampler
open Lattigo

/-- distribution parameters; floats as float64 bit patterns -/
inductive Kind where
  | uniform
  | ternP (pBits : Nat) (mont : Bool)
  | ternH (hw : Nat) (mont : Bool)
  | gauss (sigmaBits boundBits : Nat) (mont : Bool)
  deriving Repr, BEq, DecidableEq

inductive Op where
  | read | readNew | readAndAdd
  deriving Repr, BEq, DecidableEq

structure Call where
  sampler : Nat
  level : Nat
  op : Op
  reg : Nat
  deriving Repr, BEq, DecidableEq

/-- static part -/
structure Cfg where
  N : Nat
  chain : List Nat
  kinds : List Kind
  fuel : Nat
  orc : Slow

structure St where
  stream : Bytes
  bufs : List Buf
  regs : List Poly
  slow : Bool

def St.init (cfg : Cfg) (stream : Bytes) (regs : List Poly) : St :=
  { stream := stream, bufs := cfg.kinds.map fun _ => Buf.new, regs := regs, slow := false }

/-- one sampler call on the polynomial `pol`: `(result, slow, stream, buffer)`; `qs` are the moduli
    of the `AtLevel` view. -/
def callKind (cfg : Cfg) (k : Kind) (m : Mode) (qs : List Nat) (pol : Poly) (s : Bytes) (b : Buf) :
    Res (Poly × Bool × Bytes × Buf) :=
  match k with
  | .uniform => do
      let (r, s, b) ← uniformRead cfg.fuel m qs pol s b
      pure (r, false, s, b)
  | .ternP pBits mont => do
      let (r, s) ← ternProba cfg.fuel m mont (invDensity pBits) cfg.N qs pol s
      pure (r, false, s, b)
  | .ternH hw mont => do
      let (r, s) ← ternSparse cfg.fuel m mont hw cfg.N qs pol s
      pure (r, false, s, b)
  | .gauss sg bd mont =>
      gaussRead cfg.orc cfg.fuel m mont (SF.ofBits64 sg) (SF.ofBits64 bd) cfg.N qs pol s b

/-- one call of the sequence; `AtLevel` panics above the maximum level -/
def step (cfg : Cfg) (st : St) (c : Call) : Res (Poly × St) :=
  match cfg.kinds[c.sampler]?, st.bufs[c.sampler]? with
  | some k, some b =>
    if c.level ≥ cfg.chain.length then .panic else
    let qs := cfg.chain.take (c.level + 1)
    let (m, pol) : Mode × Poly := match c.op with
      | .read => (.read, st.regs.getD c.reg [])
      | .readNew => (.read, zeroPoly (c.level + 1) cfg.N)
      | .readAndAdd => (.readAndAdd, st.regs.getD c.reg [])
    callKind cfg k m qs pol st.stream b >>= fun (r, slow, s, b) =>
    .ok (r, { stream := s, bufs := st.bufs.set c.sampler b, regs := st.regs.set c.reg r,
              slow := st.slow || slow })
  | _, _ => .panic

/-- terminal status of a run -/
inductive Status where
  | done | exhausted | panic
  deriving Repr, BEq, DecidableEq

/-- run the calls; the result of every call (polynomial, bytes left in the PRNG, slow so far) up to
    the first failure -/
def run (cfg : Cfg) : St → List Call → List (Poly × Nat × Bool) × Status × St
  | st, [] => ([], .done, st)
  | st, c :: cs =>
    match step cfg st c with
    | .ok (r, st') =>
      let (out, fin, stf) := run cfg st' cs
      ((r, st'.stream.length, st'.slow) :: out, fin, stf)
    | .exhausted => ([], .exhausted, st)
    | .panic => ([], .panic, st)

end Lattigo.Sampler
