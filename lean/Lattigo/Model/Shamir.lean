/-
  Model of `multiparty/threshold.go` (t-out-of-N threshold secret sharing), property C15.

  Design choice: the model works per prime modulus on *canonical residues* (`Nat`, reduced with
  `%`), not on Montgomery words.  That this is exact on everything observable through the public API
  is no longer only argued and tied, it is PROVED against the regenerated word-level code
  (`Props/C15Gen.lean`, `Props/C15Words.lean`; hypotheses: `q` prime, `2 < q`, `4q ≤ 2^64`,
  `MontConst q MRedConstant`, `BRedConstant = brc q`, input words `< q`, points `< 2^64`):

  * `ring.EvalPolyScalar` uses `MulScalar` = `MRed(c, MForm(x))` = `c·x mod q` (fully reduced, no
    change of representation of `c`) and `Add` = `CRed(a+b)`, so a Shamir share is the Horner
    evaluation of the *raw words* of the coefficient polynomials (the secret key is stored in
    NTT+Montgomery form, the map is linear, the raw words go through unchanged)
    — `hornerWord_eq`, `share_entry_words`;
  * the Lagrange factors kept in `Combiner.lagrangeCoeffs` are private, lazily reduced
    (`MRedLazy`, range `[0,2q)`) Montgomery representatives of `that/(that−this)`
    (`lagrangeCoeff_gen`); the only use is `MulRNSScalarMontgomery(ownShare, prod)` =
    `MRed(word, prod)`, which is fully reduced and equals `word · Π that/(that−this) mod q`
    — `prodWord_refines`, `additiveWord_eq`, `additive_entry_words`;
  * `Inverse(0) = 0^(q−2) = 0` (no panic, no error), which `powMod` reproduces (it still happens
    inside `NewCombiner` for colliding points; since fix 98b63bb `GenAdditiveShare` refuses to use
    such a factor).

  So the harness compares raw output words with the model's residues, without any conversion.
  What remains tied only (correspondence check, not proved): that `multiparty/threshold.go` and
  `ring.EvalPolyScalar` — struct-heavy code go2lean does not print — call those word functions in
  this order on these slices; the map/slice behaviour (`lagrangeCoeffs[active]` nil ⇒ panic,
  negative threshold ⇒ panic, level checks).  Sampling of the Shamir polynomial's random
  coefficients is property C17 (the harness records what the real sampler produced).

  Structure follows the Go code:
    `evalPolyScalarRows` (`horner` = its action on one word)
                                   ring.EvalPolyScalar (Horner from the last coefficient)
    `subMod`, `powMod`, `inverse`  ring.SubRNSScalar, ring.ModexpMontgomery (square-and-multiply,
                                   exponent q−2), ring.Inverse
    `lagrangeCoeff`                Combiner.lagrangeCoeff (this, that ↦ that/(that−this))
    `newCombiner`                  NewCombiner (table keyed by the raw uint64 point, `spk != own`)
    `pointsCollide`, `lagrangeProd`, `genAdditiveShare`
                                   Combiner.pointsCollide, Combiner.GenAdditiveShare (error rule,
                                   "first t" rule, collision ⇒ err, map miss ⇒ nil slice ⇒ panic)
    `genShamirPolynomial`, `genShamirSecretShare`, `aggregateShares`   Thresholdizer.*
    `evalPolyScalarInto`, `genShamirSecretShareInto`   the same with the receiver's previous content
                                   as an explicit argument (`p2.Copy(p1[last])` kept as a step)
    `genAdditiveShareSt`, `runCalls`   GenAdditiveShare with the Combiner's scratch buffer explicit, and a
                                   sequence of calls on one Combiner (driver op `addshare_seq`)
    `partyAdditiveShare`, `thresholdRun`   the reconstruction run of `testThreshold` (driver op `run`)
  Core Lean only.
-/
namespace Lattigo.Model.Shamir

/-- Outcome of a Go call: value, returned `error`, or run-time panic. -/
inductive Outcome (α : Type) where
  | ok (a : α)
  | err
  | panic
  deriving Repr, DecidableEq

/-! ## Scalars modulo one prime -/

/-- `ring.SubRNSScalar`, one modulus (operands reduced). -/
def subMod (q s1 s2 : Nat) : Nat :=
  if s2 > s1 then s1 + q - s2 else s1 - s2

/-- `ring.ModexpMontgomery`, one modulus, on canonical residues:
`for i := e; i > 0; i >>= 1 { if i&1 == 1 { result = result*x }; x = x*x }`.
`fuel` only makes the recursion structural (so that the kernel can evaluate it); the loop stops
at `e = 0`, and `fuel = e` is always enough. -/
def powLoop (q : Nat) : Nat → Nat → Nat → Nat → Nat
  | 0, _, _, result => result
  | fuel + 1, e, x, result =>
    if e = 0 then result
    else powLoop q fuel (e / 2) (x * x % q) (if e % 2 = 1 then result * x % q else result)

/-- `x^e mod q` by the loop of `ModexpMontgomery` (`result` starts at `MForm(1)`, i.e. `1`). -/
def powMod (q x e : Nat) : Nat := powLoop q e e x (1 % q)

/-- `ring.Inverse`, one modulus: `a^(q-2)`; in particular `inverse q 0 = 0` for `q > 2`. -/
def inverse (q a : Nat) : Nat := powMod q a (q - 2)

/-- `Combiner.lagrangeCoeff(thisKey, thatKey)`, one modulus:
`that/(that − this)` with both keys first reduced modulo `q` (`NewRNSScalarFromUInt64`). -/
def lagrangeCoeff (q thisKey thatKey : Nat) : Nat :=
  let this := thisKey % q
  let that := thatKey % q
  inverse q (subMod q that this) * that % q

/-! ## Horner evaluation (`ring.EvalPolyScalar`) -/

/-- `EvalPolyScalar` seen on one coefficient slot of one modulus:
`p2 = c[last]; for i = last … 1 { p2 = p2·x; p2 = p2 + c[i-1] }`
(`MulScalar` = `MRed(·, MForm(x))` = product with `x mod q`, `Add` = `CRed(·+·)`).
The empty list is unreachable (the row-level function guards it); `0` is a dummy. -/
def horner (q : Nat) (x : Nat) : List Nat → Nat
  | [] => 0
  | [c] => c
  | c :: d :: rest => (horner q x (d :: rest) * (x % q) % q + c) % q

/-! ## ringqp polynomials: rows per modulus -/

/-- rows of a polynomial in RNS form: `rows[i]` holds the `N` words modulo `ms[i]`. -/
abbrev Rows := List (List Nat)

/-- A `ringqp.Poly`: the rows modulo the primes of `Q` followed by the rows modulo the primes of
`P`; `nq` = number of `Q` rows (`LevelQ()+1`), so `LevelP()+1 = rows.length - nq`. -/
structure QP where
  nq : Nat
  rows : Rows
  deriving Repr, DecidableEq

/-- The moduli of a `ringqp.Ring`: `ms = Q-primes ++ P-primes` (the layout of a ringqp
`RNSScalar`), `nq` = number of `Q` primes. -/
structure RingQP where
  nq : Nat
  ms : List Nat
  deriving Repr, DecidableEq

/-- `ringQP.AtLevel(levelQ, levelP)` given row counts `cq = levelQ+1`, `cp = levelP+1`. -/
def RingQP.atCounts (r : RingQP) (cq cp : Nat) : RingQP :=
  ⟨min cq r.nq, (r.ms.take r.nq).take cq ++ (r.ms.drop r.nq).take cp⟩

/-- `ring.MulScalar(p, x, p)` on all rows: each word times `x mod q`. -/
def mulScalarRows (ms : List Nat) (x : Nat) (a : Rows) : Rows :=
  List.zipWith (fun q row => row.map fun w => w * (x % q) % q) ms a

/-- `ring.Add` on all rows: `CRed(a+b)` per word = `(a+b) % q` on reduced operands. -/
def addRows (ms : List Nat) (a b : Rows) : Rows :=
  List.zipWith (fun q (ab : List Nat × List Nat) => List.zipWith (fun x y => (x + y) % q) ab.1 ab.2)
    ms (List.zip a b)

/-- `ring.EvalPolyScalar(p1, x, p2)`: `p2 = p1[last]; for i = last…1 { p2 = p2·x; p2 += p1[i-1] }`,
each step on whole polynomials (all rows).  `none` models the index panic on an empty `p1`. -/
def evalPolyScalarRows (ms : List Nat) (x : Nat) : List Rows → Option Rows
  | [] => none
  | [p] => some p
  | p :: p' :: rest =>
    match evalPolyScalarRows ms x (p' :: rest) with
    | none => none
    | some acc => some (addRows ms (mulScalarRows ms x acc) p)

/-! ### the same evaluation with the RECEIVER made explicit

`ring.EvalPolyScalar(p1, x, p2)` is `p2.Copy(p1[last])` followed by in-place updates
`MulScalar(p2, x, p2); Add(p2, p1[i-1], p2)`.  The in-place updates overwrite every word of `p2`
(the lanes run over `len(p1)` words of every row of the ring's level), so the only place where the
previous content of the receiver could survive is the initial `Copy` (Go `copy(dst, src)` per row).
`evalPolyScalarInto` keeps that step; `Proofs/ShamirRecv.lean` proves that for a receiver of the
shape of the coefficients the result does not depend on its content (and equals
`evalPolyScalarRows`).  (Seeded regression C15-r3m1 dropped the `Copy`: its result is
`old(p2)·x^t + p1(x)`.) -/

/-- Go `copy(dst, src)` on one row: the first `min(len dst, len src)` words are overwritten. -/
def copyWords (dst src : List Nat) : List Nat := src.take dst.length ++ dst.drop src.length

/-- `Poly.CopyLvl(level(src), src)` into `dst` (rows `0 … level(src)`; both at the same level). -/
def copyRows (dst src : Rows) : Rows := List.zipWith copyWords dst src ++ dst.drop src.length

/-- `ring.EvalPolyScalar(p1, x, p2)` with `recv` the content of `p2` on entry. -/
def evalPolyScalarInto (ms : List Nat) (x : Nat) : List Rows → Rows → Option Rows
  | [], _ => none
  | [p], recv => some (copyRows recv p)
  | p :: p' :: rest, recv =>
    match evalPolyScalarInto ms x (p' :: rest) recv with
    | none => none
    | some acc => some (addRows ms (mulScalarRows ms x acc) p)

/-- `ShamirPolynomial.Value`: `t` ringqp polynomials, constant term (the secret) first. -/
abbrev ShamirPoly := List QP

/-- `Thresholdizer.GenShamirPolynomial(threshold, secret)`; `rand` stands for the uniformly
sampled polynomials (sampling itself is property C17; the harness records what the real sampler
produced).  -/
def genShamirPolynomial (threshold : Int) (secret : QP) (rand : List QP) : Outcome ShamirPoly :=
  if threshold < 1 then .err
  else .ok (secret :: rand.take (threshold.toNat - 1))

/-- `Thresholdizer.GenShamirSecretShare(recipient, secretPoly)` = `ringQP.EvalPolyScalar`
(the `Q` rows and the `P` rows go through the same loop, independently per modulus). -/
def genShamirSecretShare (r : RingQP) (recipient : Nat) (sp : ShamirPoly) : Outcome QP :=
  match evalPolyScalarRows r.ms recipient (sp.map (·.rows)) with
  | none => .panic
  | some rows => .ok ⟨r.nq, rows⟩

/-- `GenShamirSecretShare(recipient, secretPoly, &shareOut)` with `recv` the content of `shareOut`
on entry. -/
def genShamirSecretShareInto (r : RingQP) (recipient : Nat) (sp : ShamirPoly) (recv : QP) : Outcome QP :=
  match evalPolyScalarInto r.ms recipient (sp.map (·.rows)) recv.rows with
  | none => .panic
  | some rows => .ok ⟨r.nq, rows⟩

/-- `ringQP.NewPoly()` for ring degree `n`: all words zero. -/
def zeroQP (r : RingQP) (n : Nat) : QP := ⟨r.nq, r.ms.map fun _ => List.replicate n 0⟩

/-- `ringQP.Add`. -/
def addQP (r : RingQP) (a b : QP) : QP := ⟨r.nq, addRows r.ms a.rows b.rows⟩

/-- `Thresholdizer.AggregateShares(share1, share2, out)`: the levels (row counts of the `Q` part
and of the `P` part) of the three polynomials must agree, else `err`. -/
def aggregateShares (r : RingQP) (s1 s2 out : QP) : Outcome QP :=
  if s1.nq ≠ s2.nq ∨ s1.nq ≠ out.nq ∨
     s1.rows.length - s1.nq ≠ s2.rows.length - s2.nq ∨
     s1.rows.length - s1.nq ≠ out.rows.length - out.nq then .err
  else .ok (addQP (r.atCounts s1.nq (s1.rows.length - s1.nq)) s1 s2)

/-- Aggregation of a list of received shares into the accumulator `acc`
(`AggregateShares(acc, s, &acc)` for each `s`, the setup loop of every party). -/
def aggregateAll (r : RingQP) (acc : QP) : List QP → Outcome QP
  | [] => .ok acc
  | s :: rest =>
    match aggregateShares r acc s acc with
    | .ok acc' => aggregateAll r acc' rest
    | .err => .err
    | .panic => .panic

/-! ## Combiner -/

/-- `Combiner`: ring, threshold and the precomputed table `point ↦ RNS scalar`
(a Go map keyed by the raw `uint64` point). -/
structure Combiner where
  ring : RingQP
  threshold : Int
  table : List (Nat × List Nat)
  deriving Repr, DecidableEq

/-- `NewCombiner(params, own, others, threshold)`: one entry per `spk ∈ others` with
`spk != own` (comparison of the raw `uint64`s), value `lagrangeCoeff(own, spk)` per modulus. -/
def newCombiner (r : RingQP) (own : Nat) (others : List Nat) (threshold : Int) : Combiner :=
  { ring := r, threshold := threshold,
    table := (others.filter (· ≠ own)).map fun spk => (spk, r.ms.map fun q => lagrangeCoeff q own spk) }

/-- `MulRNSScalar(prod, coeff, prod)`, per modulus. -/
def mulScalars (ms : List Nat) (a b : List Nat) : List Nat :=
  List.zipWith (fun q (ab : Nat × Nat) => ab.1 * ab.2 % q) ms (List.zip a b)

/-- `Combiner.pointsCollide(a, b)`: the two points are congruent modulo one of the moduli of the
ring (`Q` primes, then `P` primes). -/
def pointsCollide (ms : List Nat) (a b : Nat) : Bool := ms.any fun q => a % q == b % q

/-- the loop `for _, active := range activesPoints[:threshold]` of `GenAdditiveShare` (in list
order): for `active != ownPoint`, FIRST `pointsCollide(ownPoint, active)` ⇒ `err`, THEN the map
lookup (`cmb.lagrangeCoeffs[active]` nil on a miss, `MulRNSScalar` slices it ⇒ `panic`), then the
multiplication. -/
def lagrangeProd (ms : List Nat) (table : List (Nat × List Nat)) (ownPoint : Nat) :
    List Nat → List Nat → Outcome (List Nat)
  | [], prod => .ok prod
  | active :: rest, prod =>
    if active ≠ ownPoint then
      if pointsCollide ms ownPoint active then .err
      else
        match table.lookup active with
        | none => .panic
        | some c => lagrangeProd ms table ownPoint rest (mulScalars ms prod c)
    else lagrangeProd ms table ownPoint rest prod

/-- `MulRNSScalarMontgomery(poly, scalar, out)` on rows. -/
def scaleRows (ms : List Nat) (rows : Rows) (sc : List Nat) : Rows :=
  List.zipWith (fun q (rs : List Nat × Nat) => rs.1.map fun w => w * rs.2 % q) ms (List.zip rows sc)

/-- `Combiner.GenAdditiveShare(activesPoints, ownPoint, ownShare)`.
* fewer than `threshold` active points ⇒ `err`;
* a negative threshold makes `activesPoints[:threshold]` panic;
* going through the first `threshold` active points in order, skipping those equal to `ownPoint`:
  a point congruent to `ownPoint` modulo some modulus ⇒ `err` (fix 98b63bb); a point that is not
  in the table ⇒ panic; whichever comes first;
* otherwise `ownShare` times the product of the factors of the first `threshold` active points
  different from `ownPoint` (whether or not `ownPoint` occurs among them; duplicates are not
  detected).
`ownShare` is assumed to be at the level of the combiner's ring. -/
def genAdditiveShare (cmb : Combiner) (actives : List Nat) (ownPoint : Nat) (ownShare : QP) : Outcome QP :=
  if (actives.length : Int) < cmb.threshold then .err
  else if cmb.threshold < 0 then .panic
  else
    let ms := cmb.ring.ms
    match lagrangeProd ms cmb.table ownPoint (actives.take cmb.threshold.toNat) (ms.map fun q => 1 % q) with
    | .err => .err
    | .panic => .panic
    | .ok prod => .ok ⟨cmb.ring.nq, scaleRows ms ownShare.rows prod⟩

/-! ## The Combiner's scratch buffer made explicit (call history)

`GenAdditiveShare` computes the product in the Combiner's scratch slice `cmb.tmp2`, which survives
from one call to the next (the `Combiner` is passed by value but its slices are shared).  The
step that erases the previous call's content is `copy(prod, cmb.one)`.  `genAdditiveShareSt` keeps
that step and returns the scratch content after the call; `runCalls` threads it through a sequence
of calls on one Combiner.  `Proofs/ShamirHist.lean` proves that the results do not depend on the
scratch content (hence on the history of calls): `runCalls` is the list of the results of the
pure `genAdditiveShare`.  (Seeded regression C15-r5m2 skipped the copy and the loop when a memoised
group — the caller's own slice — compared equal to the current one.) -/

/-- `lagrangeProd` together with the content of the scratch buffer when the loop stops. -/
def lagrangeProdBuf (ms : List Nat) (table : List (Nat × List Nat)) (ownPoint : Nat) :
    List Nat → List Nat → Outcome (List Nat) × List Nat
  | [], prod => (.ok prod, prod)
  | active :: rest, prod =>
    if active ≠ ownPoint then
      if pointsCollide ms ownPoint active then (.err, prod)
      else
        match table.lookup active with
        | none => (.panic, prod)
        | some c => lagrangeProdBuf ms table ownPoint rest (mulScalars ms prod c)
    else lagrangeProdBuf ms table ownPoint rest prod

/-- `GenAdditiveShare` with `tmp2` = content of the Combiner's scratch buffer on entry; returns the
outcome and the scratch content on exit. -/
def genAdditiveShareSt (cmb : Combiner) (tmp2 : List Nat) (actives : List Nat) (ownPoint : Nat)
    (ownShare : QP) : Outcome QP × List Nat :=
  if (actives.length : Int) < cmb.threshold then (.err, tmp2)
  else if cmb.threshold < 0 then (.panic, tmp2)
  else
    let ms := cmb.ring.ms
    let r := lagrangeProdBuf ms cmb.table ownPoint (actives.take cmb.threshold.toNat)
      (copyWords tmp2 (ms.map fun q => 1 % q))
    (match r.1 with
     | .err => .err
     | .panic => .panic
     | .ok prod => .ok ⟨cmb.ring.nq, scaleRows ms ownShare.rows prod⟩, r.2)

/-- one call of `GenAdditiveShare`. -/
structure Call where
  actives : List Nat
  ownPoint : Nat
  share : QP
  deriving Repr, DecidableEq

/-- a sequence of calls on ONE Combiner, the scratch buffer threaded from call to call. -/
def runCalls (cmb : Combiner) : List Nat → List Call → List (Outcome QP)
  | _, [] => []
  | tmp2, c :: rest =>
    let r := genAdditiveShareSt cmb tmp2 c.actives c.ownPoint c.share
    r.1 :: runCalls cmb r.2 rest

/-! ## The protocol run of the property (what the test `testThreshold` does) -/

/-- A party of the reconstruction phase: its public point, the `others` it gave to `NewCombiner`
and the list of active points it passes to `GenAdditiveShare`. -/
structure Party where
  own : Nat
  others : List Nat
  actives : List Nat
  deriving Repr, DecidableEq

/-- `Outcome` bind. -/
def Outcome.bind {α β : Type} : Outcome α → (α → Outcome β) → Outcome β
  | .ok a, f => f a
  | .err, _ => .err
  | .panic, _ => .panic

/-- the additive share party `p` derives: it received one Shamir share from every dealer
(in the order `dealers`), aggregated them into `zero`, and combines. -/
def partyAdditiveShare (r : RingQP) (t : Int) (zero : QP) (dealers : List ShamirPoly) (p : Party) :
    Outcome QP :=
  (dealers.foldr (fun sp acc => (genShamirSecretShare r p.own sp).bind fun s => acc.bind fun l => .ok (s :: l))
      (.ok [])).bind fun received =>
  (aggregateAll r zero received).bind fun tsks =>
  genAdditiveShare (newCombiner r p.own p.others t) p.actives p.own tsks

/-- all active parties derive their additive share; the shares are summed (`ringQP.Add` into a
zero polynomial), as the test and every t-out-of-t protocol implicitly does. -/
def thresholdRun (r : RingQP) (t : Int) (zero : QP) (dealers : List ShamirPoly) (parties : List Party) :
    Outcome QP :=
  (parties.foldr (fun p acc => (partyAdditiveShare r t zero dealers p).bind fun s => acc.bind fun l => .ok (s :: l))
      (.ok [])).bind fun adds =>
  aggregateAll r zero adds

end Lattigo.Model.Shamir
