/-
  Model of the exact (non floating-point) parts of `schemes/ckks/encoder.go` / `utils.go`
  (approximate half of property C07), core Lean only.

  * `rotGroup`            the table `5^i mod m` built in `NewEncoder` (iteratively, `&= m-1`)
  * `bitRev`              `utils.BitReverse64` (index permutation of the special FFT)
  * `fixedPoint`          (in `Model/CKKS.lean`) `*ToFixedPointCRT` with `big.Float` rounding;
    `encodeFP`            the same conversion on exact rationals (no precision loss)
  * `toRNS`, `centerLift` residues and the centred lift used by `polyTo*CRT`
  * `embedCoeffs`         the coefficient layout (`gap`, real part left, imaginary part right; the
                          conjugate-invariant ring has no right half)
  * `roundToPrec`         `decodePublic`'s rounding to a multiple of `2^-logprec`

  The butterfly network of the float64 / big.Float special FFT is not modelled.  Its exact-arithmetic
  specification (evaluation at the odd powers of a primitive 2N-th root and the inverse transform) is
  `Proofs/EncoderCFFT.lean` (`evalOdd`, `interpOdd`, mutually inverse).  The implementation is tied to the
  model on inputs whose encoding is exactly determined: one slot / constant vectors (`encodeConst`, op
  `encslot`) and slot vectors of integer polynomials (`encodePoly`, op `encpoly`: non-constant vectors, every
  slot count, both rings); everything else is a probe in `harness/c07_ckks.go`.
-/
import Lattigo.Model.CKKS

namespace Lattigo.EncoderC
open Lattigo.CKKS

/-! ## index tables -/

/-- `rotGroup` as `NewEncoder` builds it: `fivePows *= 5; fivePows &= m-1` (`m` a power of two). -/
def rotGroupFrom (m : Nat) : Nat → Nat → List Nat
  | 0, _ => []
  | n + 1, cur => cur :: rotGroupFrom m n (cur * 5 % m)

def rotGroup (m : Nat) : List Nat := rotGroupFrom m (m / 4) (1 % m)

/-- `utils.BitReverse64(i, bits)`. -/
def bitRev : Nat → Nat → Nat
  | 0, _ => 0
  | b + 1, i => (i % 2) * 2 ^ b + bitRev b (i / 2)

/-! ## fixed point -/

/-- round half away from zero of `num/den` (`den > 0`): `trunc(x ± 1/2)`. -/
def roundHalfAway (num : Int) (den : Nat) : Int :=
  let q : Nat := (2 * num.natAbs + den) / (2 * den)
  if num < 0 then - (q : Int) else (q : Int)

/-- exact fixed-point encoding of the rational `xn/xd` at the rational scale `sn/sd`. -/
def encodeFP (xn : Int) (xd sn sd : Nat) : Int := roundHalfAway (xn * sn) (xd * sd)

/-- `SingleFloat64ToFixedPointCRT` with both of its branches: the product `|value|·scale` is formed in float64;
    from `2^64` on the rounding is done with 53-bit `big.Float`s (`big.NewFloat(value) + 0.5`, `Int`), below `2^64` in
    a machine word (`uint64(value + 0.5)`, defined because `value + 0.5 ≤ 2^64 − 2^11 + 1/2` rounds below `2^64`).
    Both branches compute `fixedPoint 53` (`singleFloat64_eq_fixedPoint`); the threshold must be exactly `2^64`. -/
def singleFloat64 (x : SD) (scale : Dy) : Int :=
  if x.mag.m = 0 then 0 else
    let t := Dy.mul 53 x.mag scale
    let u := let h := addHalf t; roundRat 53 h.m 1 h.e
    let mag : Nat := if (Dy.norm 1 64).cmp t != .gt then u.toNat /- big.Float branch -/ else u.toNat /- word branch -/
    if x.neg then - (mag : Int) else (mag : Int)

/-- residues of an integer coefficient (Go: `tmp.Mod(xInt, Q)`, Euclidean; the extra `+Q` lattigo
    adds for negative values is absorbed by the following NTT's final reduction). -/
def toRNS (c : Int) (qs : List Nat) : List Nat := qs.map (fun (q : Nat) => (c % (q : Int)).toNat)

/-- the residues written by `*ToFixedPointCRT` (reduced; the Go code may leave `q` for `-0` or an unreduced small
    word, which the following NTT reduces): working precision `P` (`53`: float64 path). -/
def fixedPointRNS (P : Nat) (x : SD) (scale : Dy) (qs : List Nat) : List Nat := toRNS (fixedPoint P x scale) qs

/-- centred lift of a residue mod `Q` (`c ≥ Q>>1 ↦ c − Q`). -/
def centerLift (r Q : Nat) : Int := if Q / 2 ≤ r then (r : Int) - (Q : Int) else (r : Int)

/-! ## coefficient layout -/

/-- coefficient vector (length `N`) of a slot-encoded plaintext with `slots` slots: entry `i·gap` is
    the real part, `N/2 + i·gap` the imaginary part (`gap = N/(2·slots)`); conjugate-invariant ring:
    `gap = N/slots`, no imaginary half. -/
def embedCoeffs (N : Nat) (conjInv : Bool) (slots : Nat) (re im : List Int) : List Int :=
  let gap := if conjInv then N / slots else N / (2 * slots)
  (List.range N).map fun j =>
    if conjInv then
      if j % gap = 0 ∧ j / gap < slots then re.getD (j / gap) 0 else 0
    else if j < N / 2 then
      if j % gap = 0 then re.getD (j / gap) 0 else 0
    else
      let j' := j - N / 2
      if j' % gap = 0 then im.getD (j' / gap) 0 else 0

/-- slot encoding of the constant vector `(re + i·im, …)` (or of one slot): the special IFFT of a
    constant vector is `(c, 0, …, 0)` exactly, so only the first real / imaginary entry is non-zero. -/
def encodeConst (N : Nat) (conjInv : Bool) (P : Nat) (scale : Dy) (slots : Nat) (re im : SD) : List Int :=
  embedCoeffs N conjInv slots [fixedPoint P re scale] [fixedPoint P im scale]

/-- slot encoding of the slot vector of an integer polynomial: if the input values are (a floating-point
    approximation, far inside the rounding margin, of) the canonical embedding of the polynomial with
    integer coefficients `re` (and `im` on the right half) divided by the scale, `Encode` returns exactly
    that polynomial.  In the conjugate-invariant ring the imaginary parts of the inputs are discarded. -/
def encodePoly (N : Nat) (conjInv : Bool) (slots : Nat) (re im : List Int) : List Int :=
  embedCoeffs N conjInv slots re (if conjInv then [] else im)

/-- coefficient-domain encoding (`IsBatched = false`). -/
def encodeCoeffs (N : Nat) (P : Nat) (scale : Dy) (vals : List SD) : List Int :=
  (List.range N).map fun j => match vals[j]? with
    | some v => fixedPoint P v scale
    | none => 0

/-- arbitrary-precision decoding of one coefficient (`polyToFloatCRT/NoCRT`, `polyToComplexCRT/NoCRT`):
    `z.SetInt(c)` (rounded to the `P` bits of the receiver cell) then `z.Quo(z, scale)` (rounded to `P` bits):
    the correctly rounded quotient by the scale ITSELF (any 128-bit scale, not only powers of two). -/
def decodeFP (P : Nat) (c : Int) (scale : Dy) : SD :=
  let x := roundRat P c.natAbs 1 0
  ⟨decide (c < 0), roundRat P x.m scale.m (x.e - scale.e)⟩

/-! ## decodePublic -/

/-- `decodePublic`'s rounding of the rational `num/den` to a multiple of `2^-logprec`, returned as
    the integer numerator `k` (`value = k / 2^logprec`). -/
def roundToPrec (num : Int) (den : Nat) (logprec : Nat) : Int := roundHalfAway (num * 2 ^ logprec) den

end Lattigo.EncoderC
