/-
  C11 — the Galois-element functions as REGENERATED from the Go source (`Lattigo/Gen/Galois.lean`,
  printed by tools/go2lean on every run from core/rlwe/params.go and ring/utils.go), wrapped for the
  driver: the wrappers only convert between the line protocol's values and the generated functions'
  words (a Go `int` is its two's-complement word, see `Lattigo/Word.lean`).

  The driver ops `galel`, `galels`, `modinv`, `dlog`, `ordertwo` execute THESE definitions, so the
  correspondence check runs what the source says today; `Proofs/GenGalois.lean` proves them equal to
  the hand-written model `Model/Galois.lean` (about which `Props/C11.lean` is stated) on the domain
  `1 < NthRoot`, `2·NthRoot ≤ 2^64`.
  Core Lean only.
-/
import Lattigo.Gen.Galois
import Lattigo.Model.Galois

namespace Lattigo.Model.GaloisGen
open Lattigo Lattigo.Model.Galois

/-- the fuel handed to the generated `SolveDiscreteLogGaloisElement` (its `for { }` loop shifts the
    64-bit word `x` right once per iteration and returns when `x == 1`; `Proofs/GenGalois.lean`,
    `dlog_fuel_gen`: every larger fuel gives the same result). -/
def dlogFuel : Nat := 64

/-- `ring.Type` as the generated code sees it (`ring.Standard = Type(0)`, `ring.ConjugateInvariant = Type(1)`). -/
def rtCode : RingType → Nat
  | .standard => Gen.Standard
  | .conjugateInvariant => Gen.ConjugateInvariant

/-- `Parameters.GaloisElement(k)`, generated; `k` a Go `int`. -/
def galEl (nthRoot : Nat) (k : Int) : Nat := Gen.GaloisElement nthRoot (toU64 k)

/-- `Parameters.GaloisElements(ks)`, generated. -/
def galEls (nthRoot : Nat) (ks : List Int) : List Nat := Gen.GaloisElements nthRoot (ks.map toU64)

/-- `Parameters.ModInvGaloisElement(g)`, generated. -/
def modInv (nthRoot g : Nat) : Nat := Gen.ModInvGaloisElement nthRoot g

/-- `Parameters.SolveDiscreteLogGaloisElement(g)`, generated; `none` = no return within `dlogFuel`
    iterations.  The result word is read back as a Go `int`. -/
def solveDiscreteLog (nthRoot g : Nat) : Option Int :=
  (Gen.SolveDiscreteLogGaloisElement dlogFuel nthRoot g).map i64toInt

/-- `Parameters.GaloisElementOrderTwoOrthogonalSubgroup()`, generated; `none` = panic. -/
def orderTwo (rt : RingType) (nthRoot : Nat) : Option Nat :=
  Gen.GaloisElementOrderTwoOrthogonalSubgroup (rtCode rt) nthRoot

end Lattigo.Model.GaloisGen
