/-
  Layer C of the twin: the lazy number-theoretic transforms of ring/ntt.go.

  The Go code is an in-place iterative Cooley–Tukey network (8/16-way unrolled).  Inside one
  stage all butterflies are independent and whether a stage applies the 4q correction depends
  only on the stage.  The twin therefore defines the transforms RECURSIVELY ON HALVES
  (DESIGN.md Appendix B), which yields bit-identical limbs (lazy ones included); the
  correspondence check compares them limb for limb with SubRing.NTT/NTTLazy/INTT/INTTLazy.
  Butterflies and reductions are the REGENERATED definitions (Gen.butterfly, Gen.invbutterfly,
  Gen.MRedLazy …).  Core Lean only.
-/
import Lattigo.Gen.ModRed
import Lattigo.Gen.Butterfly
import Lattigo.Model.BRedConst

namespace Lattigo.NTT
open Lattigo Lattigo.Gen

/-- `x^e mod p` (the value ring.ModExp returns; its BRed loop is exact modular arithmetic) -/
def modExp (x e p : Nat) : Nat :=
  let rec go : Nat → Nat → Nat → Nat → Nat
    | 0, _, _, r => r
    | fuel + 1, x, e, r =>
      if e = 0 then r else
        go fuel (x * x % p) (e / 2) (if e % 2 = 1 then r * x % p else r)
  go 64 (x % p) e (1 % p)

/-- `utils.BitReverse64(i, bitLen)` -/
def bitRev (i bitLen : Nat) : Nat :=
  (List.range bitLen).foldl (fun acc k => acc * 2 + (i / 2 ^ k) % 2) 0

/-- NTT constants of a SubRing (ring/subring.go: generateNTTConstants), `g` the primitive root the
    code found (factoring q−1 is not modelled: `g` is an input, checked by the correspondence). -/
structure Tables where
  n       : Nat
  q       : Nat
  qinv    : Nat
  bred    : Nat × Nat
  nthRoot : Nat
  rootsF  : Array Nat
  rootsB  : Array Nat
  nInv    : Nat
  deriving Repr, Inhabited

def genRoots (q qinv : Nat) (bred : Nat × Nat) (nthRoot : Nat) (psiMont : Nat) : Array Nat :=
  let half := nthRoot / 2
  let logN := Nat.log2 half
  let one := MForm 1 q bred
  let init : Array Nat := Array.replicate half 0
  let init := init.set! 0 one
  let (arr, _) := (List.range (half - 1)).foldl (fun (st : Array Nat × Nat) jm1 =>
      let (arr, prev) := st
      let j := jm1 + 1
      let v := MRed prev psiMont q qinv
      (arr.set! (bitRev j logN) v, v)) (init, one)
  arr

def mkTables (n q nthRoot g : Nat) : Tables :=
  let qinv := GenMRedConstant q
  let bred := brc q
  let half := nthRoot / 2
  let nInv := MForm (modExp half (q - 2) q) q bred
  let psiMont := MForm (modExp g ((q - 1) / nthRoot) q) q bred
  let psiInvMont := MForm (modExp g (q - ((q - 1) / nthRoot) - 1) q) q bred
  { n := n, q := q, qinv := qinv, bred := bred, nthRoot := nthRoot,
    rootsF := genRoots q qinv bred nthRoot psiMont,
    rootsB := genRoots q qinv bred nthRoot psiInvMont,
    nInv := nInv }

/-- Go `2 * Q` / `Q << 1` and `4 * Q` / `Q << 2` on uint64 -/
def twoQ (q : Nat) : Nat := u64mul 2 q
def fourQ (q : Nat) : Nat := u64mul 4 q

/-- one forward butterfly: the reducing one is the regenerated `butterfly`; the non-reducing one is
    the inlined `V = MRedLazy(y, F); x, y = x+V, x+twoQ-V` of the unrolled loops -/
def bfly (reduce : Bool) (psi q qinv : Nat) (u v : Nat) : Nat × Nat :=
  if reduce then butterfly u v psi (twoQ q) (fourQ q) q qinv
  else
    let v' := MRedLazy v psi q qinv
    (u64add u v', u64sub (u64add u (twoQ q)) v')

def ibfly (psi q qinv : Nat) (u v : Nat) : Nat × Nat :=
  invbutterfly u v psi (twoQ q) (fourQ q) q qinv

/-- Forward network below node `j` for a block of length `2^k`; `flag d` says whether the stage at
    depth `d` (counted from the first stage executed) reduces. -/
def fwdRec (roots : Array Nat) (q qinv : Nat) (flag : Nat → Bool) :
    (k : Nat) → (d : Nat) → (j : Nat) → List Nat → List Nat
  | 0, _, _, a => a
  | k + 1, d, j, a =>
    let h := a.length / 2
    let xy := List.zipWith (bfly (flag d) roots[j]! q qinv) (a.take h) (a.drop h)
    fwdRec roots q qinv flag k (d + 1) (2 * j) (xy.map Prod.fst)
      ++ fwdRec roots q qinv flag k (d + 1) (2 * j + 1) (xy.map Prod.snd)

/-- Inverse network: children first, then the node's stage. -/
def invRec (roots : Array Nat) (q qinv : Nat) :
    (k : Nat) → (j : Nat) → List Nat → List Nat
  | 0, _, a => a
  | k + 1, j, a =>
    let h := a.length / 2
    let l := invRec roots q qinv k (2 * j) (a.take h)
    let r := invRec roots q qinv k (2 * j + 1) (a.drop h)
    let xy := List.zipWith (ibfly roots[j]! q qinv) l r
    xy.map Prod.fst ++ xy.map Prod.snd

def unrollMin : Nat := MinimumRingDegreeForLoopUnrolledNTT

/-- reduce schedule of `nttLazy` (N < 16: every stage) / `nttUnrolled16Lazy` -/
def flagStd (n : Nat) (d : Nat) : Bool :=
  if n < unrollMin then true
  else if d = 0 then false
  else if 2 ^ (d + 1) = n then true            -- t = 1: last stage always uses `butterfly`
  else (d + 1) % 2 = 1                         -- bits.Len64(m) odd, m = 2^d

/-- reduce schedule of the conjugate-invariant forward transform: stages m = 2,4,…,N (m = 2^(d+1)) -/
def flagCI (n : Nat) (d : Nat) : Bool :=
  if n < unrollMin then true
  else if 2 ^ (d + 1) = n then true            -- t = 1: last stage always reduces
  else (d + 2) % 2 = 1                         -- bits.Len64(m) odd, m = 2^(d+1)

def log2n (n : Nat) : Nat := Nat.log2 n

/-- `nttCoreLazy` -/
def nttCoreLazy (T : Tables) (a : List Nat) : List Nat :=
  fwdRec T.rootsF T.q T.qinv (flagStd T.n) (log2n T.n) 0 1 a

/-- `inttCoreLazy` -/
def inttCoreLazy (T : Tables) (a : List Nat) : List Nat :=
  invRec T.rootsB T.q T.qinv (log2n T.n) 1 a

def nttStdLazy (T : Tables) (a : List Nat) : List Nat := nttCoreLazy T a
def nttStd (T : Tables) (a : List Nat) : List Nat :=
  (nttCoreLazy T a).map fun x => BRedAdd x T.q T.bred

def inttStd (T : Tables) (a : List Nat) : List Nat :=
  (inttCoreLazy T a).map fun x => MRed x T.nInv T.q T.qinv

/-- `INTTStandardLazy`: for N ≥ 16 the code calls `mulscalarmontgomeryvec` (MRed, NOT lazy);
    for N < 16 it uses MRedLazy. -/
def inttStdLazy (T : Tables) (a : List Nat) : List Nat :=
  (inttCoreLazy T a).map fun x =>
    if T.n < unrollMin then MRedLazy x T.nInv T.q T.qinv else MRed x T.nInv T.q T.qinv

/-! ### conjugate-invariant ring Z[X+X^-1]/(X^2N+1) -/

/-- the twist `p[j], p[N-j] = p[j]+2q−F·p[N-j], p[N-j]+2q−F·p[j]`, `p[N/2] = p[N/2]+2q−F·p[N/2]`, `p[0]` kept -/
def twist (T : Tables) (roots : Array Nat) (a : List Nat) : List Nat :=
  let n := a.length
  let arr := a.toArray
  let f := roots[1]!
  (List.range n).map fun j =>
    if j = 0 then arr[0]!
    else u64sub (u64add arr[j]! (twoQ T.q)) (MRedLazy arr[n - j]! f T.q T.qinv)

def nttCICoreLazy (T : Tables) (a : List Nat) : List Nat :=
  fwdRec T.rootsF T.q T.qinv (flagCI T.n) (log2n T.n) 0 2 (twist T T.rootsF a)

def inttCICoreLazy (T : Tables) (a : List Nat) : List Nat :=
  let b := invRec T.rootsB T.q T.qinv (log2n T.n) 2 a
  let c := twist T T.rootsB b
  match c with
  | [] => []
  | _ :: rest => CRed (u64shl (b.headD 0) 1) T.q :: rest

def nttCILazy (T : Tables) (a : List Nat) : List Nat := nttCICoreLazy T a
def nttCI (T : Tables) (a : List Nat) : List Nat :=
  (nttCICoreLazy T a).map fun x => BRedAdd x T.q T.bred
def inttCI (T : Tables) (a : List Nat) : List Nat :=
  (inttCICoreLazy T a).map fun x => MRed x T.nInv T.q T.qinv
def inttCILazy (T : Tables) (a : List Nat) : List Nat :=
  (inttCICoreLazy T a).map fun x => MRedLazy x T.nInv T.q T.qinv

end Lattigo.NTT
