/-
  C11 — rotate-and-accumulate algorithms and their advertised key lists: executable model of

    core/rlwe/inner_sum.go   : PartialTracesSum, InnerFunction, Replicate, Trace,
                               GaloisElementsForInnerSum / Replicate / Trace
    schemes/bgv/evaluator.go : InnerSum, RotateAndAdd, RotateColumns, RotateRows
    schemes/bgv/params.go    : GaloisElementsForInnerSum / Replicate
    schemes/ckks/evaluator.go: InnerSum, RotateAndAdd, Rotate, Conjugate, RotateHoisted
    schemes/ckks/params.go   : GaloisElementsForInnerSum / Replicate

  The algorithms are written over an abstract carrier `α` (ciphertexts, plaintext slot vectors,
  …) with an addition and the action `aut g` of the automorphism `X ↦ X^g`.  Every algorithm
  returns, next to its value, the ordered list of Galois elements for which it calls
  `EvaluationKeySet.GetGaloisKey` (the *requests*).  `Automorphism` / `AutomorphismHoisted`
  return early (no key lookup) when `galEl == 1`; `AutomorphismHoistedLazy` does not.

  Buffers that the Go code could read before writing them (`accQP`, `opOut`) are explicit
  inputs `acc0`, `out0` (the theorems show that the results do not depend on them).

  This file follows the code after the fixes C11-1 … C11-5 (`/verif/fixes/C11-*.diff`).
  Not modelled here: `ckks.Average` (fix C11-6) and the result metadata (scale, `LogDimensions`, `IsBatched`:
  probed by `harness/c11_meta.go`), sparse packing, the key levels of the Galois keys (probed by
  `harness/c11_keylevels.go`; the `P`-factor of the hoisted-lazy path is proved on C04's model in
  `Props/C11.lean` §6), `GaloisElementsForExpand` / `…ForPack`.

  Core Lean only.
-/
import Lattigo.Model.Galois

namespace Lattigo.Model.InnerSum
open Lattigo Lattigo.Model.Galois

/-- The operations the algorithms use on the carrier. -/
structure Ops (α : Type) where
  /-- `ringQ.Add` / `ringQP.Add` on both components. -/
  add : α → α → α
  /-- action of the automorphism `X ↦ X^g` (key switch included): `Automorphism(ct, g, ·)`. -/
  aut : Nat → α → α
  /-- `Trace`'s pre-multiplication by `gap⁻¹`. -/
  scaleInv : Nat → α → α

/-- Result of an evaluator call: error return, panic, or value + ordered key requests. -/
inductive Res (α : Type) where
  | err : Res α
  | panic : Res α
  | ok (val : α) (reqs : List Nat) : Res α
  deriving Repr

def Res.val? {α} : Res α → Option α
  | .ok v _ => some v
  | _ => none

def Res.reqs {α} : Res α → List Nat
  | .ok _ r => r
  | _ => []

/-- State of the binary-reading loop of `PartialTracesSum` / `InnerFunction`. -/
structure PState (α : Type) where
  /-- `ctInNTT` -/
  ct : α
  /-- `accQP` / `accQ` -/
  acc : α
  /-- `opOut` -/
  out : α
  state : Bool
  copy : Bool
  reqs : List Nat

/-- Records a key request: the lazy hoisted automorphism always looks the key up, the
    others skip the look-up when `g = 1`. -/
def request (lazy : Bool) (g : Nat) (reqs : List Nat) : List Nat :=
  if lazy || g != 1 then reqs ++ [g] else reqs

/-- Body of `for i, j := 0, n; j > 0; i, j = i+1, j>>1 { … }`.
    `f` is the combining function (`Add` for `PartialTracesSum`), `lazy` says whether the
    odd-bit rotation uses `AutomorphismHoistedLazy` (PartialTracesSum) or `Automorphism`
    (InnerFunction). -/
def ptsStep {α} (S : Ops α) (f : α → α → α) (lazy : Bool) (nthRoot n : Nat) (offset : Int)
    (i j : Nat) (st : PState α) : PState α :=
  let st1 : PState α :=
    if j % 2 = 1 then
      -- k := n - (n & ((2 << i) - 1)); the zero test is on k, the rotation amount is k*offset
      let k := n - (n &&& ((2 <<< i) - 1))
      if k ≠ 0 then
        let g := galEl nthRoot (wrapInt ((k : Int) * offset))
        let t := S.aut g st.ct
        if st.copy then
          { st with acc := t, copy := false, reqs := request lazy g st.reqs }
        else
          { st with acc := f st.acc t, reqs := request lazy g st.reqs }
      else
        if n &&& (n - 1) ≠ 0 then
          { st with state := true, out := f st.acc st.ct }
        else
          { st with state := true, out := st.ct }
    else st
  if !st1.state then
    let g := galEl nthRoot (wrapInt (((1 <<< i : Nat) : Int) * offset))
    { st1 with ct := f st1.ct (S.aut g st1.ct), reqs := request false g st1.reqs }
  else st1

/-- The loop; first argument is fuel (`j` loses one bit per turn; 64 suffices for a Go `int`). -/
def ptsLoop {α} (S : Ops α) (f : α → α → α) (lazy : Bool) (nthRoot n : Nat) (offset : Int) :
    Nat → Nat → Nat → PState α → PState α
  | 0, _, _, st => st
  | fuel + 1, i, j, st =>
    if j = 0 then st
    else ptsLoop S f lazy nthRoot n offset fuel (i + 1) (j >>> 1)
          (ptsStep S f lazy nthRoot n offset i j st)

/-- `rlwe.Evaluator.PartialTracesSum(ctIn, offset, n, opOut)`.
    `hasP` = the parameters have an auxiliary modulus (`PCount() > 0`),
    `v` = `ctIn`, `out0` = previous content of `opOut`, `acc0` = previous content of `accQP/P`. -/
def partialTracesSum {α} (S : Ops α) (nthRoot : Nat) (hasP : Bool) (v out0 acc0 : α) (offset n : Int) : Res α :=
  if n ≤ 0 ∨ offset = 0 then .err
  else if !hasP then .err          -- hoisted key-switching needs P
  else if n = 1 then .ok v []
  else
    let st := ptsLoop S S.add true nthRoot n.toNat offset 64 0 n.toNat
      { ct := v, acc := acc0, out := out0, state := false, copy := true, reqs := [] }
    .ok st.out st.reqs

/-- `rlwe.Evaluator.InnerFunction(ctIn, batchSize, n, f, opOut)` (plain key-switching: works
    without P; `batchSize = 0` is accepted and means "combine `n` copies"). -/
def innerFunction {α} (S : Ops α) (f : α → α → α) (nthRoot : Nat) (v out0 acc0 : α)
    (batch n : Int) : Res α :=
  if n ≤ 0 then .err
  else if n = 1 then .ok v []
  else
    let st := ptsLoop S f false nthRoot n.toNat batch 64 0 n.toNat
      { ct := v, acc := acc0, out := out0, state := false, copy := true, reqs := [] }
    .ok st.out st.reqs

/-- `rlwe.Evaluator.Replicate`: `PartialTracesSum(ctIn, -batchSize, n, opOut)`. -/
def replicate {α} (S : Ops α) (nthRoot : Nat) (hasP : Bool) (v out0 acc0 : α) (batch n : Int) : Res α :=
  partialTracesSum S nthRoot hasP v out0 acc0 (wrapInt (-batch)) n

/-- `bgv/ckks Evaluator.RotateAndAdd`: plain `PartialTracesSum`. -/
def rotateAndAdd {α} (S : Ops α) (nthRoot : Nat) (hasP : Bool) (v out0 acc0 : α) (batch n : Int) : Res α :=
  partialTracesSum S nthRoot hasP v out0 acc0 batch n

/-- `ckks.Evaluator.InnerSum` (`slots = ctIn.Slots()`). -/
def innerSumCKKS {α} (S : Ops α) (nthRoot slots : Nat) (hasP : Bool) (v out0 acc0 : α) (batch n : Int) : Res α :=
  let l := wrapInt (n * batch)
  if n ≤ 0 ∨ batch ≤ 0 then .err
  else if l > slots then .err
  else if (toU64 l &&& toU64 (wrapInt (l - 1))) ≠ 0 then .err
  else partialTracesSum S nthRoot hasP v out0 acc0 batch n

/-- `bgv.Evaluator.InnerSum` (`slots = ctIn.Slots()` = both rows). -/
def innerSumBGV {α} (S : Ops α) (nthRoot slots : Nat) (hasP : Bool) (v out0 acc0 : α) (batch n : Int) : Res α :=
  let l := wrapInt (n * batch)
  if n ≤ 0 ∨ batch ≤ 0 then .err
  else if l > slots then .err
  else if (toU64 l &&& toU64 (wrapInt (l - 1))) ≠ 0 then .err
  else if l = slots then
    if n = 1 then .ok v []
    else
      match partialTracesSum S nthRoot hasP v out0 acc0 batch (n / 2) with
      | .ok u reqs =>
        -- RotateRows(opOut, ctTmp); Add(opOut, ctTmp, opOut)
        let g := nthRoot - 1
        .ok (S.add u (S.aut g u)) (request false g reqs)
      | r => r
  else partialTracesSum S nthRoot hasP v out0 acc0 batch n

/-! ### Single rotations -/

/-- `ckks.Evaluator.Rotate` / `bgv.Evaluator.RotateColumns`: `Automorphism(op0, GaloisElement(k), opOut)`. -/
def rotate {α} (S : Ops α) (nthRoot : Nat) (v : α) (k : Int) : Res α :=
  let g := galEl nthRoot k
  .ok (S.aut g v) (request false g [])

/-- `ckks.Evaluator.Conjugate` / `bgv.Evaluator.RotateRows`. -/
def conjugate {α} (S : Ops α) (rt : RingType) (nthRoot : Nat) (v : α) : Res α :=
  match rt with
  | .conjugateInvariant => .err
  | .standard =>
    let g := nthRoot - 1
    .ok (S.aut g v) (request false g [])

/-- `ckks.Evaluator.RotateHoisted(ctIn, rotations, opOut)`: one `AutomorphismHoisted` per entry;
    returns the list of results in the order of `rotations`; `none` = error (no modulus P). -/
def rotateHoisted {α} (S : Ops α) (nthRoot : Nat) (hasP : Bool) (v : α) (ks : List Int) :
    Option (List α × List Nat) :=
  if !hasP then none
  else some (ks.foldl (fun (acc : List α × List Nat) k =>
    let g := galEl nthRoot k
    (acc.1 ++ [S.aut g v], request false g acc.2)) ([], []))

/-! ### Trace -/

/-- Go `1 << s` on `int` for a shift count `s ≥ 0` (0 for `s ≥ 64`, sign wrap at 63). -/
def shlInt (s : Nat) : Int := if s ≥ 64 then 0 else wrapInt ((2 : Int) ^ s)

/-- `log2` of the number of rotations `X ↦ X^(5^k)`: `N/2` in the standard ring, `N` in the
    conjugate-invariant ring. -/
def logRot (rt : RingType) (logNRing : Nat) : Int :=
  match rt with
  | .standard => (logNRing : Int) - 1
  | .conjugateInvariant => logNRing

/-- `for i := logN; i < logRot; i++ { buff = Automorphism(opOut, GaloisElement(1<<i)); opOut += buff }`.
    Arguments: fuel, i. -/
def traceLoop {α} (S : Ops α) (nthRoot bound : Nat) : Nat → Nat → α × List Nat → α × List Nat
  | 0, _, st => st
  | fuel + 1, i, (out, reqs) =>
    if i < bound then
      let g := galEl nthRoot (shlInt i)
      traceLoop S nthRoot bound fuel (i + 1) (S.add out (S.aut g out), request false g reqs)
    else (out, reqs)

/-- `rlwe.Evaluator.Trace(ctIn, logN, opOut)` on a ring of degree `2^logNRing`. -/
def trace {α} (S : Ops α) (rt : RingType) (logNRing : Nat) (v : α) (logN : Int) : Res α :=
  let nthRoot := nthRootOf rt logNRing
  let lr := logRot rt logNRing
  if logN < 0 ∨ logN > lr then .err
  else
    let gap0 := shlInt (lr - logN).toNat
    let gap := if logN = 0 ∧ rt = .standard then wrapInt (gap0 * 2) else gap0
    if gap > 1 then
      let p := traceLoop S nthRoot lr.toNat (lr - logN).toNat logN.toNat (S.scaleInv gap.toNat v, [])
      if logN = 0 ∧ rt = .standard then
        let g := nthRoot - 1
        .ok (S.add p.1 (S.aut g p.1)) (request false g p.2)
      else .ok p.1 p.2
    else .ok v []

/-! ### Advertised key lists -/

/-- insertion without duplicates (the Go code collects rotation amounts in a `map[int]bool`). -/
def insertNew (k : Int) (l : List Int) : List Int := if l.contains k then l else l ++ [k]

/-- The keys of `rotIndex` after `for i := 1; i < n; i <<= 1 { … }` of `GaloisElementsForInnerSum`.
    Arguments: fuel, `i`.  `none` = the Go loop does not terminate (`n > 2^62`). -/
def advLoop (batch n : Int) : Nat → Int → List Int → Option (List Int)
  | 0, _, _ => none
  | fuel + 1, i, acc =>
    if i < n then
      let k1 := wrapInt (i * batch)
      -- k = n - (n & ((i << 1) - 1)); k *= batch      (here 0 < i < n, so `&` is `%`)
      let k2 := wrapInt ((n - n % (2 * i)) * batch)
      advLoop batch n fuel (wrapInt (2 * i)) (insertNew k2 (insertNew k1 acc))
    else some acc

/-- rotation amounts collected by `rlwe.GaloisElementsForInnerSum(params, batch, n)`. -/
def rotationsForInnerSum (batch n : Int) : Option (List Int) := advLoop batch n 64 1 []

/-- `rlwe.GaloisElementsForInnerSum(params, batch, n)`, as a list in loop order (the Go function
    returns it in map-iteration order: compare as multisets). -/
def galoisElementsForInnerSum (nthRoot : Nat) (batch n : Int) : Option (List Nat) :=
  (rotationsForInnerSum batch n).map (galEls nthRoot)

/-- `rlwe.GaloisElementsForReplicate(params, batch, n)`. -/
def galoisElementsForReplicate (nthRoot : Nat) (batch n : Int) : Option (List Nat) :=
  galoisElementsForInnerSum nthRoot (wrapInt (-batch)) n

/-- `bgv.Parameters.GaloisElementsForInnerSum(batch, n)`; `maxSlots = p.MaxSlots()`. -/
def galoisElementsForInnerSumBGV (nthRoot maxSlots : Nat) (batch n : Int) : Option (List Nat) :=
  (galoisElementsForInnerSum nthRoot batch n).map fun l =>
    if wrapInt (n * batch) > (maxSlots >>> 1 : Nat) then l ++ [nthRoot - 1] else l

/-- `bgv.Parameters.GaloisElementsForReplicate(batch, n)`; `ringN = p.N()`. -/
def galoisElementsForReplicateBGV (nthRoot ringN : Nat) (batch n : Int) : Option (List Nat) :=
  (galoisElementsForReplicate nthRoot batch n).map fun l =>
    if n > (ringN >>> 1 : Nat) then l ++ [nthRoot - 1] else l

/-- loop of `GaloisElementsForTrace`: `for i := logN; i < logRot; i++ { append GaloisElement(1<<i) }` -/
def advTraceLoop (nthRoot bound : Nat) : Nat → Nat → List Nat → List Nat
  | 0, _, acc => acc
  | fuel + 1, i, acc =>
    if i < bound then advTraceLoop nthRoot bound fuel (i + 1) (acc ++ [galEl nthRoot (shlInt i)])
    else acc

/-- `rlwe.GaloisElementsForTrace(params, logN)`; `none` = the sanity-check panic. -/
def galoisElementsForTrace (rt : RingType) (logNRing : Nat) (logN : Int) : Option (List Nat) :=
  let nthRoot := nthRootOf rt logNRing
  let lr := logRot rt logNRing
  if logN < 0 ∨ logN > lr then none
  else
    let l := advTraceLoop nthRoot lr.toNat (lr - logN).toNat logN.toNat []
    if logN = 0 ∧ rt = .standard then some (l ++ [nthRoot - 1]) else some l

/-! ### Executable carrier: plaintext slot vectors -/

/-- Layout of the slot vector handled by `slotOps`. -/
inductive Layout
  /-- BGV/BFV standard ring: `row0 ++ row1`; the order-two element swaps the rows. -/
  | bgv
  /-- CKKS standard ring: `re ++ im`; the order-two element negates `im`. -/
  | ckks
  /-- one row (conjugate-invariant ring): no order-two element. -/
  | single
  deriving DecidableEq, Repr

def rotL (k : Nat) (v : List Int) : List Int :=
  if v.length = 0 then v else (v.drop (k % v.length)) ++ (v.take (k % v.length))

/-- Action of `X ↦ X^g` on a slot vector: `g = 5^k` rotates every row left by `k`,
    `g = -5^k` additionally applies the order-two map.  `k` is computed by the model's own
    `solveDiscreteLog`. -/
def slotAut (lay : Layout) (nthRoot : Nat) (g : Nat) (v : List Int) : List Int :=
  match lay with
  | .single =>
    match solveDiscreteLog nthRoot g with
    | some k => rotL k v
    | none => v
  | _ =>
    let h := v.length / 2
    let r0 := v.take h
    let r1 := v.drop h
    if g % 4 = 1 then
      match solveDiscreteLog nthRoot g with
      | some k => rotL k r0 ++ rotL k r1
      | none => v
    else
      match solveDiscreteLog nthRoot (nthRoot - g) with
      | some k =>
        match lay with
        | .bgv => rotL k r1 ++ rotL k r0
        | _ => rotL k r0 ++ (rotL k r1).map (fun x => -x)
      | none => v

/-- modular exponentiation on `Nat` (for the BGV plaintext modulus). -/
def powMod (b e m : Nat) : Nat := modExpLoop m 64 e (b % m) (1 % m)

/-- Slot vectors with entries mod `t` (`t = 0`: plain integers, used for CKKS with
    integer-valued test vectors; then `scaleInv` is exact division). -/
def slotOps (lay : Layout) (nthRoot t : Nat) : Ops (List Int) where
  add a b := List.zipWith (fun x y => if t = 0 then x + y else (x + y) % t) a b
  aut g v := slotAut lay nthRoot g v
  scaleInv gap v :=
    if t = 0 then v.map (fun x => x / gap)
    else v.map (fun x => (x * (powMod gap (t - 2) t : Nat)) % t)

end Lattigo.Model.InnerSum
