/-
  C20 — RGSW ciphertexts and external products (model of core/rgsw/{encryptor,evaluator,elements}.go
  and of the parts of core/rlwe/{gadgetciphertext,params}.go and ring/basis_extension.go they use).
  Core Lean only.

  Two layers:

  * a GENERIC layer over an arbitrary carrier `α` with `[Add α] [Mul α] [Neg α] [Sub α]`: RGSW
    encryption (two gadget ciphertexts, the message added to component 0 of the rows of `Value[0]`
    and to component 1 of the rows of `Value[1]`), the external product as the inner product of the
    shared decomposition with the rows, `Add`, multiplication by `X^a − 1`.  Every theorem of
    `Proofs/RGSW*.lean` / `Props/C20.lean` is about these definitions, for every commutative ring.

  * the EXECUTABLE instance on `Lattigo.RPoly` (canonical RNS rows of R_QP): the gadget vector, the
    digit counts, the greedy partition of the Q primes into RNS digits (`Par.group`) and the TWO digit layouts of
    the evaluator exactly as coded (`digitsBit`: uncentred base-`2^w` digits of `externalProduct32Bit` and
    `externalProductInPlaceSinglePAndBitDecomp`; `digitsGroup`: centred RNS digits of
    `externalProductInPlaceMultipleP`), the rounded division by `P` (`modDown` = `ModDownQPtoQNTT`, exact CRT), and
    two WORD-LEVEL pieces: the 64-bit accumulator of the 32-bit path with its guard (`acc32`, `slot32`, `acc32Fits`)
    and the lazy accumulators of the multi-`P` path with their reduction schedule (`accSched`, `lazySlot`,
    `lazyMargin`).

  Status (details in `Props/C20.lean`): the generic layer carries the identities for every commutative ring; the
  `RPoly` instance carries `C20Stack.extprod_phase_full` and `Props.C20.extprod_noise_closed` (no hypothesis left with an
  auxiliary modulus); the word-level pieces carry `path_eq_guarded` / `extprod_lazy_no_wrap`; their assembly into
  `extProdR` through the NTT is tied by the correspondence (`extprod`, `ep32raw`, `eplazy`), not proved.

  Rows are kept in a FLAT list in the storage order of the code (`i` = RNS digit outer, `j` = base-2
  digit inner).  Sampled values are INPUTS.  Everything is in the canonical representation
  (coefficient domain, out of the Montgomery domain); the Montgomery bookkeeping of the code is
  invisible there (since 103d60d also in the branch without auxiliary modulus, where
  `rlwe.Encryptor.encryptZeroSkFromC1` used to leave the error outside the Montgomery domain).
-/
import Lattigo.Model.RPoly
import Lattigo.Word
import Lattigo.Gen.ModRed

namespace Lattigo.RGSW

/-! ## Generic layer -/

section generic
variable {α : Type} [Add α] [Mul α] [Neg α] [Sub α]

/-- phase (decryption before decoding) of a degree-1 ciphertext -/
def phase (ct : α × α) (s : α) : α := ct.1 + ct.2 * s

/-- `rlwe.Encryptor.encryptZeroSkFromC1QP` (auxiliary modulus present) and `encryptZeroSkFromC1`
    (branch `LevelP() == -1` of `rgsw.Encryptor.EncryptZero`): `c1 = a` uniform, `c0 = e − a·s`; the
    error is moved to the Montgomery domain like everything else. -/
def encZero (a e s : α) : α × α := (e - a * s, a)

/-- `AddPolyTimesGadgetVectorToGadgetCiphertext`, `u = 0`: the message goes to component 0 -/
def addMsg0 (z : α × α) (m : α) : α × α := (z.1 + m, z.2)
/-- `u = 1`: the message goes to component 1 -/
def addMsg1 (z : α × α) (m : α) : α × α := (z.1, z.2 + m)

/-- an RGSW ciphertext: the rows of `Value[0]` and of `Value[1]`, flattened (i outer, j inner) -/
structure Ct (α : Type) where
  v0 : List (α × α)
  v1 : List (α × α)
  deriving Repr, BEq, DecidableEq, Inhabited

/-- rows of `Value[0]`: `ez a e s + (pg·g, 0)`; `pgs` = the scaled gadget vector `P·w_k`,
    `smp` = the samples `(a_k, e_k)` -/
def rows0 (ez : α → α → α → α × α) (s g : α) : List α → List (α × α) → List (α × α)
  | pg :: pgs, (a, e) :: rest => addMsg0 (ez a e s) (pg * g) :: rows0 ez s g pgs rest
  | _, _ => []

/-- rows of `Value[1]`: `ez a e s + (0, pg·g)` -/
def rows1 (ez : α → α → α → α × α) (s g : α) : List α → List (α × α) → List (α × α)
  | pg :: pgs, (a, e) :: rest => addMsg1 (ez a e s) (pg * g) :: rows1 ez s g pgs rest
  | _, _ => []

/-- `rgsw.Encryptor.Encrypt(pt, ct)` for a secret key: `EncryptZero` on every row, then the message
    times the gadget vector is added to both gadget ciphertexts. -/
def encrypt (ez : α → α → α → α × α) (s g : α) (pgs : List α) (smp0 smp1 : List (α × α)) : Ct α :=
  { v0 := rows0 ez s g pgs smp0, v1 := rows1 ez s g pgs smp1 }

/-- `Σ_k d_k · row_k` added to `z`, component-wise (`MulCoeffsMontgomery…ThenAdd`) -/
def dot (z : α × α) : List α → List (α × α) → α × α
  | d :: ds, r :: rs => dot (z.1 + d * r.1, z.2 + d * r.2) ds rs
  | _, _ => z

/-- the external product before the division by `P`:
    `Σ_k d_k(c0)·Value[0]_k + Σ_k d_k(c1)·Value[1]_k`, in the order of the code -/
def extProdLazy (zero : α) (d0 d1 : List α) (rg : Ct α) : α × α :=
  dot (dot (zero, zero) d0 rg.v0) d1 rg.v1

/-- the external product: both components are divided by `P` (`md`; the identity without `P`) -/
def extProd {β : Type} (md : α → β) (zero : α) (d0 d1 : List α) (rg : Ct α) : β × β :=
  let u := extProdLazy zero d0 d1 rg
  (md u.1, md u.2)

def padd (x y : α × α) : α × α := (x.1 + y.1, x.2 + y.2)
def pscale (c : α) (x : α × α) : α × α := (x.1 * c, x.2 * c)

/-- `AddLazy(op *Ciphertext, …)` followed by `Reduce` -/
def Ct.add (A B : Ct α) : Ct α :=
  { v0 := List.zipWith padd A.v0 B.v0, v1 := List.zipWith padd A.v1 B.v1 }

/-- `MulByXPowAlphaMinusOneLazy(ctIn, powXMinusOne, …)` followed by `Reduce`; `x` is `X^a − 1` -/
def Ct.mulBy (x : α) (A : Ct α) : Ct α :=
  { v0 := A.v0.map (pscale x), v1 := A.v1.map (pscale x) }

/-- `MulByXPowAlphaMinusOneThenAddLazy(ctIn, powXMinusOne, …, opOut)` followed by `Reduce` -/
def Ct.mulByThenAdd (x : α) (A out : Ct α) : Ct α := Ct.add out (Ct.mulBy x A)

/-- `AddLazy(op *Plaintext, …)`: the gadget plaintext `pgm_k = pg_k·m` goes to component 0 of the rows of
    `Value[0]` and to component 1 of the rows of `Value[1]` -/
def Ct.addPlain (A : Ct α) (pgm : List α) : Ct α :=
  { v0 := List.zipWith addMsg0 A.v0 pgm, v1 := List.zipWith addMsg1 A.v1 pgm }

end generic

/-! ## Digit counts (core/rlwe/params.go) -/

/-- `bits.Len64(q)` -/
def bitLen (q : Nat) : Nat := if q = 0 then 0 else Nat.log2 q + 1

/-- parameters of one RGSW ciphertext: the moduli of its levels, ring degree, `BaseTwoDecomposition` -/
structure Par where
  qsQ : List Nat
  qsP : List Nat
  n : Nat
  w : Nat
  deriving Repr, Inhabited

namespace Par

def nP (p : Par) : Nat := p.qsP.length
def qsQP (p : Par) : List Nat := p.qsQ ++ p.qsP
def bigP (p : Par) : Nat := RPoly.prod p.qsP

/-- `BaseRNSDecompositionVectorSize(levelQ, levelP)` -/
def rnsSize (p : Par) : Nat :=
  if p.nP = 0 then p.qsQ.length else (p.qsQ.length - 1 + p.nP) / p.nP

/-- `BaseTwoDecompositionVectorSize(levelQ, levelP, w)[i] = ⌈bitlen(q_i)/w⌉` (since 170d739) -/
def rowLen (p : Par) (i : Nat) : Nat :=
  if p.w = 0 ∨ p.nP ≥ 2 then 1 else (bitLen (p.qsQ.getD i 1) + p.w - 1) / p.w

/-- number of base-2 digits of every RNS digit -/
def shape (p : Par) : List Nat := (List.range p.rnsSize).map p.rowLen

/-- the flat index set `(i, j)`, i outer, j inner -/
def idx (p : Par) : List (Nat × Nat) :=
  (List.range p.rnsSize).flatMap fun i => (List.range (p.rowLen i)).map fun j => (i, j)

/-- group width: `levelP + 1`, `1` without `P` -/
def gw (p : Par) : Nat := if p.nP = 0 then 1 else p.nP

/-- Q-row indices of RNS digit `i`: `i·gw + k`, stopping at `levelQ`.  This is THE partition of the Q
    primes into RNS digits, GREEDY: digits `0 … rnsSize−2` take `gw = levelP+1` consecutive primes, the last
    digit what remains (`(4Q,3P)`: `{0,1,2},{3}`, not the balanced `{0,1},{2,3}`).  It is the one of
    `AddPolyTimesGadgetVectorToGadgetCiphertext` (`index = i*(levelP+1)+k`, break at `levelQ+1`), of the
    decomposition (`DecomposeSingleNTT`) and of `rgsw.AddLazy(*Plaintext)` (`start, end = i*nP, (i+1)*nP`);
    `Proofs/RGSWShape.lean`: row `k` belongs to digit `k / gw` and to no other. -/
def group (p : Par) (i : Nat) : List Nat :=
  ((List.range p.gw).map fun k => i * p.gw + k).filter fun x => x < p.qsQ.length

end Par

/-! ## Executable instance -/

/-- the constant polynomial whose row `k` is `vals[k] mod q_k` -/
def constPoly (qs : List Nat) (n : Nat) (vals : List Nat) : RPoly :=
  { qs := qs, c := (qs.zip vals).map fun (q, v) => (v % q) :: List.replicate (n - 1) 0 }

/-- `P·w_{ij}` as an element of `R_QP`: `P·2^{w·j} mod q_k` on the Q rows of digit group `i`, zero
    elsewhere (P rows included).  `P = 1` without auxiliary modulus. -/
def pgElt (p : Par) (i j : Nat) : RPoly :=
  let g := p.group i
  let valsQ := (List.range p.qsQ.length).map fun k =>
    if g.contains k then p.bigP * 2 ^ (p.w * j) else 0
  constPoly p.qsQP p.n (valsQ ++ p.qsP.map fun _ => 0)

def pgList (p : Par) : List RPoly := p.idx.map fun (i, j) => pgElt p i j

/-- `rgsw.Encryptor.Encrypt` over `R_QP` for a secret key -/
def encryptR (p : Par) (s g : RPoly) (smp0 smp1 : List (RPoly × RPoly)) : Ct RPoly :=
  encrypt encZero s g (pgList p) smp0 smp1

/-- `X^alpha − 1` in `R_QP` -/
def xPowMinusOne (p : Par) (alpha : Nat) : RPoly :=
  let one := constPoly p.qsQP p.n (p.qsQP.map fun _ => 1)
  RPoly.sub (RPoly.mulMonomial one alpha) one

/-! ### Decompositions -/

def natsToPoly (qs : List Nat) (v : List Nat) : RPoly :=
  { qs := qs, c := qs.map fun q => v.map fun x => x % q }

/-- `ring.MaskVec(row, j·w, mask, ·)`: base-`2^w` digit `j` of every coefficient; for `w = 0` both paths
    replace the zero mask by `0xFFFF…`, i.e. the single digit is the whole coefficient -/
def maskDigit (w j : Nat) (row : List Nat) : List Nat :=
  if w = 0 then row else row.map fun x => (x / 2 ^ (j * w)) % 2 ^ w

/-- digits of `externalProductInPlaceSinglePAndBitDecomp` (`levelP < 1`) and of `externalProduct32Bit`
    (single modulus, no `P`): NOT centred, lifted to every modulus of QP by `NTTLazy(cw)` (the same small
    integer modulo each prime) -/
def digitsBit (p : Par) (c : RPoly) : List RPoly :=
  p.idx.map fun (i, j) => natsToPoly p.qsQP (maskDigit p.w j (c.c.getD i []))

/-- `Decomposer.DecomposeAndSplit` for one coefficient of RNS digit group `qs`/`rs`: the centred
    representative as coded (single modulus: negative iff `x ≥ q>>1`; several moduli:
    `((x + ⌊Q_g/2⌋) mod Q_g) − ⌊Q_g/2⌋`) -/
def centredDigit (qs rs : List Nat) : Int :=
  match qs, rs with
  | [q], [x] => if x ≥ q / 2 then (x : Int) - q else x
  | _, _ =>
    let Qg := RPoly.prod qs
    let x := RPoly.crt qs rs
    (((x + Qg / 2) % Qg : Nat) : Int) - ((Qg / 2 : Nat) : Int)

/-- digits of `externalProductInPlaceMultipleP` (`levelP ≥ 1`): one centred digit per group -/
def digitsGroup (p : Par) (c : RPoly) : List RPoly :=
  (List.range p.rnsSize).map fun i =>
    let g := p.group i
    let qs := g.map fun k => p.qsQ.getD k 1
    let rows := g.map fun k => c.c.getD k []
    RPoly.ofInts p.qsQP ((RPoly.transpose rows).map fun col => centredDigit qs col)

/-! ### Division by P -/

/-- `BasisExtender.ModDownQPtoQNTT`: `(x − [x]_P) / P mod Q` with `[x]_P` the centred representative
    `((x_P + ⌊P/2⌋) mod P) − ⌊P/2⌋` (exact basis extension) -/
def modDown (qsQ qsP : List Nat) (x : RPoly) : RPoly :=
  let P := RPoly.prod qsP
  let rowsQ := x.c.take qsQ.length
  let rowsP := x.c.drop qsQ.length
  let lift : List Int := (RPoly.transpose rowsP).map fun col =>
    (((RPoly.crt qsP col + P / 2) % P : Nat) : Int) - ((P / 2 : Nat) : Int)
  { qs := qsQ,
    c := (qsQ.zip rowsQ).map fun (q, row) =>
      let pinv := RPoly.modInv (P % q) q
      (row.zip lift).map fun (v, l) => (((v : Int) - l) % (q : Int)).toNat * pinv % q }

def takeQ (qsQ : List Nat) (x : RPoly) : RPoly := { qs := qsQ, c := x.c.take qsQ.length }

/-- `acc32BitFits(q, d)`: the guard of the 32-bit path: `q < 2^29` and the `2·d` unreduced products of a
    stored value (`< q`) and an `NTTLazy` output (`≤ 6q−2`) stay below `2^64` -/
def acc32Fits (q d : Nat) : Bool :=
  q / 2 ^ 29 == 0 && 1 ≤ d && 2 * d ≤ (W - 1) / ((q - 1) * (6 * q - 2))

/-- is the 32-bit path taken (`levelQ == 0 && levelP == -1 && acc32BitFits(q, #digits)`) -/
def fast32 (p : Par) : Bool :=
  p.nP == 0 && p.qsQ.length == 1 && acc32Fits (p.qsQ.getD 0 0) (p.rowLen 0)

/-- the decomposition the evaluator applies to one ciphertext component -/
def digitsOf (p : Par) (c : RPoly) : List RPoly :=
  if p.nP ≤ 1 then digitsBit p c else digitsGroup p c

/-- `Evaluator.ExternalProduct(op0, op1, opOut)`, in place or not, canonical level.  On the 32-bit path
    (`fast32`) the code accumulates on 64-bit words (`acc32`); its guard makes that accumulation exact
    (`Props.C20.path_eq_guarded`), so the result is the exact ring value on every path. -/
def extProdR (p : Par) (ct : RPoly × RPoly) (rg : Ct RPoly) : RPoly × RPoly :=
  let zero := RPoly.zero p.qsQP p.n
  let md : RPoly → RPoly := if p.nP = 0 then takeQ p.qsQ else modDown p.qsQ p.qsP
  extProd md zero (digitsOf p ct.1) (digitsOf p ct.2) rg

/-! ### Word level: the accumulator of `externalProduct32Bit` -/

/-- `acc = r_0·c_0` (`MulCoeffsLazy`), then `acc += r_k·c_k` (`MulCoeffsLazyThenAddLazy`), all on
    `uint64` -/
def acc32 : List Nat → List Nat → Nat
  | r :: rs, c :: cs => (List.zip rs cs).foldl (fun a (x, y) => u64add a (u64mul x y)) (u64mul r c)
  | _, _ => 0

/-- one NTT slot of `externalProduct32Bit` + `IMForm`: `rs` the stored (Montgomery, NTT) row values,
    `cs` the lazily transformed digits at that slot -/
def slot32 (q mrc : Nat) (rs cs : List Nat) : Nat := Gen.IMForm (acc32 rs cs) q mrc

/-- the exact (unwrapped) sum the accumulator stands for -/
def sum32 : List Nat → List Nat → Nat
  | r :: rs, c :: cs => r * c + sum32 rs cs
  | _, _ => 0

/-! ### Word level: the lazy accumulators of `externalProductInPlaceMultipleP` -/

/-- `QiOverflowMargin(levelQ) >> 1` resp. `PiOverflowMargin(levelP) >> 1`: `fam` the primes of the family at the
    level; the Q limbs and the P limbs are reduced on their OWN schedule -/
def lazyMargin (fam : List Nat) : Nat := (W - 1) / (fam.foldl max 0) / 2

/-- one limb of one accumulator: `acc = t_0` (`MulCoeffsMontgomeryLazy`), then `acc += t_k` on `uint64`
    (`MulCoeffsMontgomeryLazyThenAddLazy`); `Reduce` when `reduce % F == F − 1`; at the end `Reduce` if
    `reduce % F != 0`.  `cnt` is the code's `reduce`. -/
def accSchedFrom (p F : Nat) : Nat → Nat → List Nat → Nat
  | acc, cnt, [] => if cnt % F ≠ 0 then acc % p else acc
  | acc, cnt, t :: ts =>
    let a := if cnt = 0 then t else u64add acc t
    let a := if cnt % F = F - 1 then a % p else a
    accSchedFrom p F a (cnt + 1) ts

def accSched (p F : Nat) (terms : List Nat) : Nat := accSchedFrom p F 0 0 terms

/-- one NTT slot of one limb: the terms are `MRedLazy(row, digit)` in the order of the code
    (`k = 0, 1` outer, RNS digit inner) -/
def lazySlot (p mrc F : Nat) (rs cs : List Nat) : Nat :=
  accSched p F (List.zipWith (fun r c => Gen.MRedLazy r c p mrc) rs cs)

end Lattigo.RGSW
