/-
  C08 — wire formats of lattigo's serializable types as a small codec-combinator library.

  A *format description* `Fmt` is a first-order term; `enc`, `size`, `dec` are defined by
  structural recursion on it, so that every theorem of `Proofs/Codec*.lean` is proved once,
  by induction on `Fmt`, and holds for every lattigo type below (each is one `Fmt` term).

  What follows the Go code (read from /repo, see the comment of each definition):
    * the byte layout (`enc`)                         — `WriteTo` of every type;
    * the announced size (`size`)                     — `BinarySize` of every type, INCLUDING
      `EvaluationKey` (seed counted iff present and written, fix C08-G);
    * the decoder (`dec`) over a flat byte list and, generically, over any byte source
      (`decG`), e.g. a stream delivered in chunks (`decC`).
  The model follows /repo with the fixes /verif/fixes/C08-*.diff applied:
    * `dec` has no receiver argument; the Go `ReadFrom` methods decode *into* an existing
      object, which `decInto` models — and proves irrelevant for every lattigo format;
    * fixed-width blocks are read with read-full semantics (`io.ReadFull`, fix C08-B/C), and the
      result does not depend on the size of the reader's buffer (fixes C08-R, C08-T; probes
      `reader_size`); a `buffer.Buffer` is as large as the LENGTH of its backing slice
      (fix C08-S; probes `window_write`);
    * running out of input is `none` (an error; fix C08-A removed the unbounded recursion,
      C08-H/I the index panics); a presence byte other than 0/1 is `none` (fix C08-I3).
  The receiver-dependent behaviour of the Go decoders (state of the object decoded INTO
  leaking into the result) is modelled separately by `decInto` (section "The Go decoders
  decode into a receiver" below; theorems in `Proofs/CodecRecv.lean`).

  Core Lean only; executable (linked into the driver).
-/
namespace Lattigo.Codec

/-! ## Values -/

/-- Abstract value tree of a serializable object. -/
inductive Val where
  | unit : Val
  /-- a scalar field (`uint8/16/32/64`, `int` reinterpreted as `uint64`, a flag, …) -/
  | num : Nat → Val
  /-- an opaque block of bytes (seed, number text, JSON text) -/
  | bytes : List Nat → Val
  | pair : Val → Val → Val
  /-- slice / map entries in wire order -/
  | list : List Val → Val
  /-- nil optional field -/
  | none : Val
  /-- present optional field -/
  | some : Val → Val
  /-- a signed field (Go `int` stored in one two's-complement byte: `LogDimensions.Rows/Cols`) -/
  | int : Int → Val
  deriving Inhabited

/-! ## Little-endian integers, hex digits -/

/-- `w` little-endian bytes of `n` (`binary.LittleEndian.PutUintXX`). -/
def leBytes : Nat → Nat → List Nat
  | 0, _ => []
  | w + 1, n => (n % 256) :: leBytes w (n / 256)

/-- value of a little-endian byte string (`binary.LittleEndian.UintXX`). -/
def leVal : List Nat → Nat
  | [] => 0
  | b :: bs => b + 256 * leVal bs

/-- ASCII code of the lowercase hex digit `d < 16` (`fmt.Sprintf("%02x")`). -/
def hexDigit (d : Nat) : Nat := if d < 10 then 48 + d else 87 + d

/-- inverse of `hexDigit`; `none` for a byte that is not `0-9a-f`. -/
def unhex (c : Nat) : Option Nat :=
  if 48 ≤ c ∧ c ≤ 57 then some (c - 48)
  else if 97 ≤ c ∧ c ≤ 102 then some (c - 87)
  else none

/-- value of two hex digits. -/
def hexPair (a b : Nat) : Option Nat :=
  match unhex a, unhex b with
  | some x, some y => some (16 * x + y)
  | _, _ => none

/-! ## Signed bytes

  `PlaintextMetaData.MarshalJSON` writes `uint8(m.LogDimensions.Rows)` (and `Cols`), Go's
  conversion of an `int` to its low byte, i.e. the two's-complement byte; `UnmarshalJSON` reads
  it back with `int(int8(byte))` (core/rlwe/metadata.go:225, :281). The signed values a byte
  represents are exactly `[-128, 127]`; they are reachable (`RingPackingEvaluator.Split`
  decrements `Cols`, so `{0,0}` becomes `Cols = -1`). -/

/-- Go `uint8(z)` for an `int` `z`: the two's-complement byte. -/
def toByte (z : Int) : Nat := (z % 256).toNat

/-- Go `int(int8(b))` for a byte `b`. -/
def fromByte (n : Nat) : Int := if n < 128 then (n : Int) else (n : Int) - 256

/-- how a `"0x%02x"` field is read back by the Go code -/
inductive HexMode where
  /-- the byte itself (`LogDimensions`) -/
  | byte
  /-- a bool: 1 ↦ true, anything else ↦ false (`PlaintextMetaData.IsBatched/IsBitReversed`) -/
  | flag
  /-- a bool that the decoder can set but never clears (`CiphertextMetaData.IsNTT/IsMontgomery`,
      core/rlwe/metadata.go:393-403); matters only for `decInto` -/
  | sticky
  deriving DecidableEq

/-- value the decoder stores for the decoded byte `n` (fresh receiver). -/
def hexVal : HexMode → Nat → Nat
  | .byte, n => n
  | _, n => if n = 1 then 1 else 0

/-- values representable in the field. -/
def hexBound : HexMode → Nat
  | .byte => 256
  | _ => 2

/-- what a length-prefixed sequence is on the Go side -/
inductive VecKind where
  /-- `structs.Vector` / `structs.Matrix` (`u64` count): receiver elements are reused as the
      receivers of the elements; the count is checked against the unread bytes when they are
      known (`*buffer.Buffer`) before `make` -/
  | slice
  /-- `structs.Map` (`u32` count): the decoded entries REPLACE the receiver's entries, values
      are decoded into fresh objects, nothing is allocated ahead of the data -/
  | map
  /-- a Go map whose decoder keeps the receiver's entries that are not overwritten
      (`structs.Map.ReadFrom` before the fix C08-K; no lattigo format uses it any more) -/
  | mapKeep
  /-- length-prefixed opaque block (`rlwe.Parameters`: `u32` length, at most 2^20) -/
  | block
  deriving DecidableEq

/-! ## Format descriptions -/

/-- Description of a wire format. -/
inductive Fmt where
  /-- nothing on the wire -/
  | unit : Fmt
  /-- `w`-byte little-endian unsigned integer (`buffer.WriteUint8/16/32/64`) -/
  | uint (w : Nat) : Fmt
  /-- fixed block of `n` opaque bytes -/
  | raw (n : Nat) : Fmt
  /-- one byte printed as two lowercase hex digits (the `%02x` of `"0x%02x"`) -/
  | hex2 (m : HexMode) : Fmt
  /-- a signed byte (`Val.int z`, `-128 ≤ z ≤ 127`) printed as the two lowercase hex digits of
      its two's-complement byte -/
  | shex2 : Fmt
  /-- literal text `pre`, then `f`, then literal text `post` (JSON punctuation) -/
  | framed (pre : List Nat) (f : Fmt) (post : List Nat) : Fmt
  /-- `a` then `b` -/
  | pair (a b : Fmt) : Fmt
  /-- `w`-byte element count, then the elements (`structs.Vector/Matrix`: `w = 8`;
      `structs.Map`: `w = 4`, element = `(u64 key, value)`). The kind only matters for
      `decInto` and `allocs`. -/
  | vec (k : VecKind) (w : Nat) (f : Fmt) : Fmt
  /-- presence byte (1 = present, 0 = absent, anything else is an error), then `f` iff
      present. The two flags only matter for
      `decInto`: `keep` = an absent field leaves the receiver's field as it was;
      `reuse` = a present field is decoded into the receiver's existing field. -/
  | opt (keep reuse : Bool) (f : Fmt) : Fmt
  /-- `a`, then `b` iff `p` holds of the value of `a` (seed suffix of a compressed
      `EvaluationKey`). `keep` only matters for `decInto`: when the suffix is not read the
      receiver's suffix field stays as it was. -/
  | tailIf (keep : Bool) (a : Fmt) (p : Val → Bool) (b : Fmt) : Fmt

/-! ## Encoder (`WriteTo`) and announced size (`BinarySize`) -/

/-- bytes written by `WriteTo`. Ill-shaped values encode to junk (`[]`); see `WT`. -/
def enc : Fmt → Val → List Nat
  | .unit, _ => []
  | .uint w, .num n => leBytes w n
  | .raw _, .bytes bs => bs
  | .hex2 _, .num n => [hexDigit (n / 16 % 16), hexDigit (n % 16)]
  | .shex2, .int z => [hexDigit (toByte z / 16 % 16), hexDigit (toByte z % 16)]
  | .framed pre f post, v => pre ++ enc f v ++ post
  | .pair a b, .pair x y => enc a x ++ enc b y
  | .vec _ w f, .list vs => leBytes w vs.length ++ (vs.map (enc f)).flatten
  | .opt _ _ _, .none => [0]
  | .opt _ _ f, .some v => 1 :: enc f v
  | .tailIf _ a p b, .pair x y =>
      enc a x ++ (if p x then (match y with | .some s => enc b s | _ => []) else [])
  | _, _ => []

/-- sum of a list of naturals (kept local: core's `List.sum` lemmas vary). -/
def sumL : List Nat → Nat
  | [] => 0
  | x :: xs => x + sumL xs

/-- number announced by `BinarySize`. For `tailIf` it follows the Go code of
    `EvaluationKey.BinarySize` (after fix C08-G): the suffix is counted iff it is present in
    the object AND written (`Seed != nil && IsCompressed()`). -/
def size : Fmt → Val → Nat
  | .unit, _ => 0
  | .uint w, _ => w
  | .raw n, _ => n
  | .hex2 _, _ => 2
  | .shex2, _ => 2
  | .framed pre f post, v => pre.length + size f v + post.length
  | .pair a b, .pair x y => size a x + size b y
  | .vec _ w f, .list vs => w + sumL (vs.map (size f))
  | .opt _ _ _, .none => 1
  | .opt _ _ f, .some v => 1 + size f v
  | .tailIf _ a p b, .pair x y =>
      size a x + (if p x then (match y with | .some s => size b s | _ => 0) else 0)
  | _, _ => 0

/-- largest opaque block the decoder accepts (`rlwe.Parameters.ReadFrom`, fix C08-C). -/
def blockMax : Nat := 1048576

/-! ## Decoder, generic in the byte source -/

/-- decode `n` items with `d`, threading the source. -/
def decN {σ : Type} (d : σ → Option (Val × σ)) : Nat → σ → Option (List Val × σ)
  | 0, s => some ([], s)
  | n + 1, s =>
    match d s with
    | none => none
    | some (v, s') =>
      match decN d n s' with
      | none => none
      | some (vs, s'') => some (v :: vs, s'')

/-- `decG rd f s`: decode one `f` from the source `s`, where `rd n s` delivers exactly
    `n` bytes or fails (read-full). -/
def decG {σ : Type} (rd : Nat → σ → Option (List Nat × σ)) : Fmt → σ → Option (Val × σ)
  | .unit, s => some (.unit, s)
  | .uint w, s =>
    match rd w s with
    | none => none
    | some (bs, s') => some (.num (leVal bs), s')
  | .raw n, s =>
    match rd n s with
    | none => none
    | some (bs, s') => some (.bytes bs, s')
  | .hex2 m, s =>
    match rd 2 s with
    | some ([a, b], s') =>
      match hexPair a b with
      | some n => some (.num (hexVal m n), s')
      | none => none
    | _ => none
  | .shex2, s =>
    match rd 2 s with
    | some ([a, b], s') =>
      match hexPair a b with
      | some n => some (.int (fromByte n), s')
      | none => none
    | _ => none
  | .framed pre f post, s =>
    match rd pre.length s with
    | none => none
    | some (bs, s1) =>
      if bs = pre then
        match decG rd f s1 with
        | none => none
        | some (v, s2) =>
          match rd post.length s2 with
          | none => none
          | some (cs, s3) => if cs = post then some (v, s3) else none
      else none
  | .pair a b, s =>
    match decG rd a s with
    | none => none
    | some (x, s1) =>
      match decG rd b s1 with
      | none => none
      | some (y, s2) => some (.pair x y, s2)
  | .vec k w f, s =>
    match rd w s with
    | none => none
    | some (bs, s1) =>
      if k = .block ∧ blockMax < leVal bs then none
      else
        match decN (decG rd f) (leVal bs) s1 with
        | none => none
        | some (vs, s2) => some (.list vs, s2)
  | .opt _ _ f, s =>
    match rd 1 s with
    | some ([b], s1) =>
      if b = 1 then
        match decG rd f s1 with
        | none => none
        | some (v, s2) => some (.some v, s2)
      else if b = 0 then some (.none, s1)
      else none
    | _ => none
  | .tailIf _ a p b, s =>
    match decG rd a s with
    | none => none
    | some (x, s1) =>
      if p x then
        match decG rd b s1 with
        | none => none
        | some (y, s2) => some (.pair x (.some y), s2)
      else some (.pair x .none, s1)

/-- read-full on a flat byte list. -/
def readFlat (n : Nat) (bs : List Nat) : Option (List Nat × List Nat) :=
  if n ≤ bs.length then some (bs.take n, bs.drop n) else none

/-- the decoder on a byte list: `some (v, rest)` or `none` (error). -/
def dec (f : Fmt) (bs : List Nat) : Option (Val × List Nat) := decG readFlat f bs

/-! ## Streams delivered in chunks -/

/-- read-full on a stream delivered as a list of chunks (what `io.ReadFull`,
    or `Peek(n)`+`Discard(n)` on a `bufio.Reader`, do on a transport that fragments). -/
def readChunks : Nat → List (List Nat) → Option (List Nat × List (List Nat))
  | 0, cs => some ([], cs)
  | _ + 1, [] => none
  | n + 1, [] :: cs => readChunks (n + 1) cs
  | n + 1, (b :: c) :: cs =>
    match readChunks n (c :: cs) with
    | none => none
    | some (bs, cs') => some (b :: bs, cs')

/-- the decoder on a chunked stream. -/
def decC (f : Fmt) (cs : List (List Nat)) : Option (Val × List (List Nat)) :=
  decG readChunks f cs

/-! ## A transport that returns short counts

  `io.Reader.Read(p)` may return any count `0 ≤ n ≤ len(p)`. The stream is modelled as the list of
  the counts the transport is going to deliver (its chunks; an empty chunk is a `Read` that returns
  0 bytes). `readOnce` is one `Read` call, `readFullLoop` is `io.ReadFull` (what every fixed-width
  read of the library does after the fixes C08-B/C/T: `io.ReadFull`, or `Peek(n)`/`Discard(n)` on a
  `bufio.Reader`, which loops over `Read` in `fill`). `readSingle` is the defective pattern the
  library used to have (one `Read` call whose count is not looked at; the unread part of the buffer
  stays zero). -/

/-- one `Read(p)` with `len(p) = n`: at most `n` bytes, possibly fewer (the next chunk). -/
def readOnce (n : Nat) : List (List Nat) → List Nat × List (List Nat)
  | [] => ([], [])
  | c :: cs => if c.length ≤ n then (c, cs) else (c.take n, c.drop n :: cs)

/-- `io.ReadFull(r, p)` with `len(p) = n`: `Read` until `n` bytes have arrived; `none` when the
    stream ends first. (Unrolled so that it is structurally recursive on the chunks; see
    `readFullLoop_step` for the loop form.) -/
def readFullLoop : Nat → List (List Nat) → Option (List Nat × List (List Nat))
  | 0, cs => some ([], cs)
  | _ + 1, [] => none
  | n + 1, c :: cs =>
    if c.length ≤ n + 1 then
      match readFullLoop (n + 1 - c.length) cs with
      | none => none
      | some (bs, r) => some (c ++ bs, r)
    else some (c.take (n + 1), c.drop (n + 1) :: cs)

/-- the decoder on a transport that returns short counts. -/
def decS (f : Fmt) (cs : List (List Nat)) : Option (Val × List (List Nat)) :=
  decG readFullLoop f cs

/-- the defective pattern: ONE `Read`, short counts accepted, rest of the buffer zero. -/
def readSingle (n : Nat) (cs : List (List Nat)) : Option (List Nat × List (List Nat)) :=
  some ((readOnce n cs).1 ++ List.replicate (n - (readOnce n cs).1.length) 0, (readOnce n cs).2)

/-! ## `MarshalBinary` -/

/-- `MarshalBinary` of every type: allocate `BinarySize()` bytes (`buffer.NewBufferSize`),
    `WriteTo` into them, return the WHOLE buffer; an object that does not fit is an error
    (`buffer.Buffer.Write`, fix C08-S). -/
def marshalBinary (f : Fmt) (v : Val) : Option (List Nat) :=
  if (enc f v).length ≤ size f v then
    some (enc f v ++ List.replicate (size f v - (enc f v).length) 0)
  else none

/-- decode `k` objects back-to-back from one flat stream. -/
def decMany (f : Fmt) : Nat → List Nat → Option (List Val × List Nat) := decN (dec f)

/-! ## The Go decoders decode *into* a receiver

  `ReadFrom`/`UnmarshalBinary` are methods of an existing object. `decInto f r bs` follows
  what they do with the previous content `r` of that object (value tree of the receiver
  before the call; `.unit` stands for a freshly allocated zero object):
    * scalars, opaque blocks, `byte`/`flag` hex fields: overwritten;
    * `sticky` hex fields: set when the input says 1, otherwise left as they were;
    * `slice`/`block`: if the receiver has at least as many elements they are reused as
      receivers of the elements, otherwise new elements (capacity is identified with length, and
      distinct slices of a receiver are assumed not to share memory: the probes `rows_disjoint`
      and `library_receiver` check both on what the library's constructors allocate);
    * `map`: entries decoded into fresh values, the receiver's entries are dropped;
      `mapKeep`: the receiver's entries that are not overwritten stay;
    * `opt keep reuse`: absent ⇒ the receiver's field is kept iff `keep`; present ⇒ decoded
      into the receiver's field iff `reuse`, else into a fresh object;
    * `tailIf keep`: when the suffix is not read the receiver's suffix field stays iff `keep`.
  The leaky flavours (`sticky`, `mapKeep`, `keep = true`) describe the decoders as they were
  before the fixes C08-D/E/F/J/K/L; the formats of the type table below use the flavours of
  the FIXED code, all of which are `Clean`, so that `decInto f r bs = dec f bs` for every
  receiver (`Proofs/CodecRecv.lean: decInto_clean`, `Props/C08.lean: recv_indep`). The `into`
  tie lines check this model against the real decoders on dirty receivers. -/

def fstR : Val → Val
  | .pair a _ => a
  | _ => .unit
def sndR : Val → Val
  | .pair _ b => b
  | _ => .unit
/-- the receiver's optional field as it stays when nothing is assigned -/
def asOpt : Val → Val
  | .some x => .some x
  | _ => .none
def optInner : Val → Val
  | .some x => x
  | _ => .unit
def asList : Val → List Val
  | .list vs => vs
  | _ => []
def flagOf : Val → Nat
  | .num k => k
  | _ => 0
def keyOf : Val → Option Nat
  | .pair (.num k) _ => some k
  | _ => none

/-- map after storing the decoded entries: old entries whose key is not overwritten, then
    the decoded entries in wire order. -/
def mergeMap (old new : List Val) : List Val :=
  old.filter (fun e => !(new.any (fun e' => keyOf e' == keyOf e))) ++ new

/-- decode `n` items, the `i`-th into the `i`-th receiver of `rs` (fresh when exhausted). -/
def decNI (d : Val → List Nat → Option (Val × List Nat)) :
    List Val → Nat → List Nat → Option (List Val × List Nat)
  | _, 0, s => some ([], s)
  | rs, n + 1, s =>
    match d (rs.headD .unit) s with
    | none => none
    | some (v, s') =>
      match decNI d rs.tail n s' with
      | none => none
      | some (vs, s'') => some (v :: vs, s'')

/-- the Go decoder with its receiver. -/
def decInto : Fmt → Val → List Nat → Option (Val × List Nat)
  | .unit, _, s => some (.unit, s)
  | .uint w, _, s =>
    match readFlat w s with
    | none => none
    | some (bs, s') => some (.num (leVal bs), s')
  | .raw n, _, s =>
    match readFlat n s with
    | none => none
    | some (bs, s') => some (.bytes bs, s')
  | .hex2 m, r, s =>
    match readFlat 2 s with
    | some ([a, b], s') =>
      match hexPair a b with
      | some n =>
        match m with
        | .sticky => some (.num (if n = 1 then 1 else flagOf r), s')
        | _ => some (.num (hexVal m n), s')
      | none => none
    | _ => none
  | .shex2, _, s =>
    match readFlat 2 s with
    | some ([a, b], s') =>
      match hexPair a b with
      | some n => some (.int (fromByte n), s')
      | none => none
    | _ => none
  | .framed pre f post, r, s =>
    match readFlat pre.length s with
    | none => none
    | some (bs, s1) =>
      if bs = pre then
        match decInto f r s1 with
        | none => none
        | some (v, s2) =>
          match readFlat post.length s2 with
          | none => none
          | some (cs, s3) => if cs = post then some (v, s3) else none
      else none
  | .pair a b, r, s =>
    match decInto a (fstR r) s with
    | none => none
    | some (x, s1) =>
      match decInto b (sndR r) s1 with
      | none => none
      | some (y, s2) => some (.pair x y, s2)
  | .vec k w f, r, s =>
    match readFlat w s with
    | none => none
    | some (bs, s1) =>
      let n := leVal bs
      if k = .block ∧ blockMax < n then none
      else if k = .mapKeep then
        match decNI (decInto f) [] n s1 with
        | none => none
        | some (vs, s2) => some (.list (mergeMap (asList r) vs), s2)
      else if k = .map then
        match decNI (decInto f) [] n s1 with
        | none => none
        | some (vs, s2) => some (.list vs, s2)
      else
        match decNI (decInto f) (if n ≤ (asList r).length then asList r else []) n s1 with
        | none => none
        | some (vs, s2) => some (.list vs, s2)
  | .opt keep reuse f, r, s =>
    match readFlat 1 s with
    | some ([b], s1) =>
      if b = 1 then
        match decInto f (if reuse then optInner r else .unit) s1 with
        | none => none
        | some (v, s2) => some (.some v, s2)
      else if b = 0 then some (if keep then asOpt r else .none, s1)
      else none
    | _ => none
  | .tailIf keep a p b, r, s =>
    match decInto a (fstR r) s with
    | none => none
    | some (x, s1) =>
      if p x then
        match decInto b .unit s1 with
        | none => none
        | some (y, s2) => some (.pair x (.some y), s2)
      else some (.pair x (if keep then asOpt (sndR r) else .none), s1)

/-- formats whose Go decoder does not look at the receiver. -/
def Clean : Fmt → Prop
  | .hex2 m => m ≠ .sticky
  | .framed _ f _ => Clean f
  | .pair a b => Clean a ∧ Clean b
  | .vec k _ f => k ≠ .mapKeep ∧ Clean f
  | .opt keep _ f => keep = false ∧ Clean f
  | .tailIf keep a _ b => keep = false ∧ Clean a ∧ Clean b
  | _ => True

/-! ## What the Go decoder allocates

  `allocs f bs` lists the slice allocations (`make`, in elements) that the Go decoder issues on
  input `bs` when the number of unread bytes is known (`UnmarshalBinary`, i.e. `ReadFrom` on a
  `*buffer.Buffer`), in order, up to the point where it stops:
    * `slice` (`structs.Vector/Matrix.ReadFrom`, after fix C08-P): the count is compared with
      the unread bytes first; a larger count is an error BEFORE `make`;
    * `map` (`structs.Map.ReadFrom`, after fix C08-K): no allocation ahead of the data;
    * `block` (`rlwe.Parameters.ReadFrom`, after fix C08-C): at most 2^20 bytes.
  On a `bufio.Reader` the unread bytes are unknown and the `slice` check cannot be made: that
  residue is the known finding `C08/structs.Vector.ReadFrom/unchecked-length` (probes only). -/

def allocsN (d : List Nat → Option (Val × List Nat)) (al : List Nat → List Nat) :
    Nat → List Nat → List Nat
  | 0, _ => []
  | n + 1, s =>
    al s ++ (match d s with
      | none => []
      | some (_, s') => allocsN d al n s')

def allocs : Fmt → List Nat → List Nat
  | .framed pre f _, s =>
    match readFlat pre.length s with
    | none => []
    | some (bs, s1) => if bs = pre then allocs f s1 else []
  | .pair a b, s =>
    allocs a s ++ (match dec a s with
      | none => []
      | some (_, s1) => allocs b s1)
  | .vec k w f, s =>
    match readFlat w s with
    | none => []
    | some (bs, s1) =>
      match k with
      | .slice =>
        if leVal bs ≤ s1.length then leVal bs :: allocsN (dec f) (allocs f) (leVal bs) s1 else []
      | .block =>
        if leVal bs ≤ blockMax then leVal bs :: allocsN (dec f) (allocs f) (leVal bs) s1 else []
      | _ => allocsN (dec f) (allocs f) (leVal bs) s1
  | .opt _ _ f, s =>
    match readFlat 1 s with
    | some ([b], s1) => if b = 1 then allocs f s1 else []
    | _ => []
  | .tailIf _ a _ _, s => allocs a s
  | _, _ => []

/-- the element counts of the slices and blocks present in a value, in wire order. -/
def lens : Fmt → Val → List Nat
  | .framed _ f _, v => lens f v
  | .pair a b, .pair x y => lens a x ++ lens b y
  | .vec k _ f, .list vs =>
    match k with
    | .slice | .block => vs.length :: (vs.map (lens f)).flatten
    | _ => (vs.map (lens f)).flatten
  | .opt _ _ f, .some x => lens f x
  | .tailIf _ a _ _, .pair x _ => lens a x
  | _, _ => []

/-- a lower bound of the length of every encoding. -/
def minSize : Fmt → Nat
  | .unit => 0
  | .uint w => w
  | .raw n => n
  | .hex2 _ => 2
  | .shex2 => 2
  | .framed pre f post => pre.length + minSize f + post.length
  | .pair a b => minSize a + minSize b
  | .vec _ w _ => w
  | .opt _ _ _ => 1
  | .tailIf _ a _ _ => minSize a

/-- every slice element takes at least one byte and every block fits `blockMax`
    (true of all lattigo formats; needed because the Go check "count ≤ unread bytes" would
    reject an honest slice of zero-size elements). -/
def PosElems : Fmt → Prop
  | .framed _ f _ => PosElems f
  | .pair a b => PosElems a ∧ PosElems b
  | .vec k _ f => PosElems f ∧ (k = .slice → 1 ≤ minSize f)
  | .opt _ _ f => PosElems f
  | .tailIf _ a _ b => PosElems a ∧ PosElems b
  | _ => True

/-! ## Shapes -/

/-- `Shape f v`: `v` has the constructors `f` expects and its opaque blocks have the announced
    length. No range condition: enough for `size_exact`. -/
def Shape : Fmt → Val → Prop
  | .unit, _ => True
  | .uint _, v => ∃ n, v = .num n
  | .raw n, v => ∃ bs, v = .bytes bs ∧ bs.length = n
  | .hex2 _, v => ∃ n, v = .num n
  | .shex2, v => ∃ z, v = .int z
  | .framed _ f _, v => Shape f v
  | .pair a b, v => ∃ x y, v = .pair x y ∧ Shape a x ∧ Shape b y
  | .vec _ _ f, v => ∃ vs, v = .list vs ∧ ∀ x ∈ vs, Shape f x
  | .opt _ _ f, v => v = .none ∨ ∃ x, v = .some x ∧ Shape f x
  | .tailIf _ a _ b, v => ∃ x y, v = .pair x y ∧ Shape a x ∧
      (y = .none ∨ ∃ s, y = .some s ∧ Shape b s)

/-! ## Well-typed values -/

/-- all entries are bytes -/
def IsBytes (bs : List Nat) : Prop := ∀ b ∈ bs, b < 256

/-- `WT f v`: `v` is a value of format `f` (what a Go object of that type can hold). -/
def WT : Fmt → Val → Prop
  | .unit, v => v = .unit
  | .uint w, v => ∃ n, v = .num n ∧ n < 256 ^ w
  | .raw n, v => ∃ bs, v = .bytes bs ∧ bs.length = n
  | .hex2 m, v => ∃ n, v = .num n ∧ n < hexBound m
  | .shex2, v => ∃ z, v = .int z ∧ -128 ≤ z ∧ z ≤ 127
  | .framed _ f _, v => WT f v
  | .pair a b, v => ∃ x y, v = .pair x y ∧ WT a x ∧ WT b y
  | .vec k w f, v => ∃ vs, v = .list vs ∧ vs.length < 256 ^ w ∧
      (k = .block → vs.length ≤ blockMax) ∧ ∀ x ∈ vs, WT f x
  | .opt _ _ f, v => v = .none ∨ ∃ x, v = .some x ∧ WT f x
  | .tailIf _ a p b, v => ∃ x y, v = .pair x y ∧ WT a x ∧
      ((p x = true ∧ ∃ s, y = .some s ∧ WT b s) ∨ (p x = false ∧ y = .none))

/-- executable check of `WT` (used by the driver and by the non-vacuity examples). -/
def wtb : Fmt → Val → Bool
  | .unit, .unit => true
  | .uint w, .num n => decide (n < 256 ^ w)
  | .raw n, .bytes bs => bs.length == n
  | .hex2 m, .num n => decide (n < hexBound m)
  | .shex2, .int z => decide (-128 ≤ z) && decide (z ≤ 127)
  | .framed _ f _, v => wtb f v
  | .pair a b, .pair x y => wtb a x && wtb b y
  | .vec k w f, .list vs =>
      decide (vs.length < 256 ^ w) && decide (k = .block → vs.length ≤ blockMax) && vs.all (wtb f)
  | .opt _ _ _, .none => true
  | .opt _ _ f, .some x => wtb f x
  | .tailIf _ a p b, .pair x y =>
      wtb a x && (match y with
        | .some s => p x && wtb b s
        | .none => !p x
        | _ => false)
  | _, _ => false

/-! ## The lattigo types -/

/-- bytes of an ASCII literal (kernel-reducible, so that `decide` can run the codecs). -/
def strBytes (s : String) : List Nat := s.toList.map Char.toNat

def u8 : Fmt := .uint 1
def u16 : Fmt := .uint 2
def u32 : Fmt := .uint 4
def u64 : Fmt := .uint 8

/-- fixed block of `n` opaque bytes -/
def bytesN (n : Nat) : Fmt := .raw n

/-- `structs.Vector[T]` (utils/structs/vector.go:86): `u64 len` then the elements. -/
def vecOf (f : Fmt) : Fmt := .vec .slice 8 f
/-- `structs.Matrix[T]` (utils/structs/matrix.go:72): `u64 rows` then `rows × Vector[T]`. -/
def matOf (f : Fmt) : Fmt := .vec .slice 8 (.vec .slice 8 f)
/-- `structs.Map[K,T]` (utils/structs/map.go:44): `u32 count` then `(u64 key, T)` in
    ascending key order. -/
def mapOf (f : Fmt) : Fmt := .vec .map 4 (.pair u64 f)
/-- optional field written as a presence byte; Go decoder (after fixes C08-E, C08-J):
    absent ⇒ the receiver's field is set to nil, present ⇒ decoded into the receiver's
    existing field (`Element.MetaData`, `MemEvaluationKeySet.RelinearizationKey/GaloisKeys`). -/
def optFlag (f : Fmt) : Fmt := .opt false true f
/-- optional field that the Go decoder resets (`bootstrapping.readEvkKey`). -/
def optReset (f : Fmt) : Fmt := .opt false false f
/-- `bootstrapping.EvaluationKeys.MemEvaluationKeySet`: nil when absent (after fix C08-L),
    decoded into a fresh object when present. -/
def optKeepFresh (f : Fmt) : Fmt := .opt false false f

/-- `ring.Poly` (ring/poly.go:113) = `Matrix[uint64]`, `level+1` rows of `N` words. -/
def poly : Fmt := matOf u64
/-- `ringqp.Poly` (ring/ringqp/poly.go:105): `Q` then `P` (`P` may have 0 rows). -/
def polyQP : Fmt := .pair poly poly

/-- width of `big.Float.Text('e', 39)` while the decimal exponent has two digits. -/
def scaleTextLen : Nat := 45

/-- `rlwe.Scale` (core/rlwe/scale.go:192): `{"Value":"<45>","Mod":"<45>"}`; the number
    texts are opaque (`math/big` is outside the model). -/
def scale : Fmt :=
  .framed (strBytes "{\"Value\":\"")
    (.pair (.raw scaleTextLen) (.framed (strBytes "\",\"Mod\":\"") (.raw scaleTextLen) []))
    (strBytes "\"}")

/-- `rlwe.PlaintextMetaData` (core/rlwe/metadata.go:198). Value:
    `(scale, (isBatched, (isBitReversed, (logRows, logCols))))`; `logRows`, `logCols` are
    signed (`Val.int`), one two's-complement byte each. -/
def ptMeta : Fmt :=
  .framed (strBytes "{\"Scale\":")
    (.pair scale
      (.framed (strBytes ",\"IsBatched\":\"0x")
        (.pair (.hex2 .flag)
          (.framed (strBytes "\",\"IsBitReversed\":\"0x")
            (.pair (.hex2 .flag)
              (.framed (strBytes "\",\"LogDimensions\":[\"0x")
                (.pair .shex2 (.framed (strBytes "\",\"0x") .shex2 []))
                []))
            []))
        []))
    (strBytes "\"]}")

/-- `rlwe.CiphertextMetaData` (core/rlwe/metadata.go:350). Value: `(isNTT, isMontgomery)`. -/
def ctMeta : Fmt :=
  .framed (strBytes "{\"IsNTT\":\"0x")
    (.pair (.hex2 .flag) (.framed (strBytes "\",\"IsMontgomery\":\"0x") (.hex2 .flag) []))
    (strBytes "\"}")

/-- `rlwe.MetaData` (core/rlwe/metadata.go:68). -/
def metaData : Fmt :=
  .framed (strBytes "{\"PlaintextMetaData\":")
    (.pair ptMeta (.framed (strBytes ",\"CiphertextMetaData\":") ctMeta []))
    (strBytes "}")

/-- `rlwe.Element[T]` (core/rlwe/element.go:335): `opt(MetaData)` then `Vector[T]`. -/
def element (t : Fmt) : Fmt := .pair (optFlag metaData) (vecOf t)
def ciphertext : Fmt := element poly
def plaintext : Fmt := element poly
def elementQP : Fmt := element polyQP

/-- `rlwe.VectorQP` (core/rlwe/keys.go:168). -/
def vectorQP : Fmt := vecOf polyQP
def publicKey : Fmt := vectorQP
def secretKey : Fmt := polyQP

/-- `rlwe.GadgetCiphertext` (core/rlwe/gadgetciphertext.go:100):
    `u64 BaseTwoDecomposition` then `Matrix[VectorQP]`. -/
def gadget : Fmt := .pair u64 (matOf vectorQP)

/-- `GadgetCiphertext.Degree() == 0` (core/rlwe/gadgetciphertext.go:46,
    `len(ct.Value[0][0]) - 1`), as `EvaluationKey.IsCompressed` computes it after fix C08-H:
    `false` when `Value` or `Value[0]` is empty. -/
def gadgetDegreeZero : Val → Bool
  | .pair _ (.list (.list (.list [_] :: _) :: _)) => true
  | _ => false

def seedLen : Nat := 32

/-- `rlwe.EvaluationKey` (core/rlwe/keys.go:443): gadget ciphertext, then the 32-byte
    seed iff the key is compressed (degree 0). -/
def evalKey : Fmt := .tailIf false gadget gadgetDegreeZero (.raw seedLen)
def relinKey : Fmt := evalKey
/-- `rlwe.GaloisKey` (core/rlwe/keys.go:628). -/
def galoisKey : Fmt := .pair u64 (.pair u64 evalKey)
/-- `rlwe.MemEvaluationKeySet` (core/rlwe/keys.go:818). -/
def evalKeySet : Fmt := .pair (optFlag relinKey) (optFlag (mapOf galoisKey))

/-- `rgsw.Ciphertext` (core/rgsw/elements.go:43). -/
def rgswCiphertext : Fmt := .pair gadget gadget

/-- `polynomial.PowerBasis` (circuits/common/polynomial/power_basis.go:200). -/
def powerBasis : Fmt := .pair u8 (mapOf ciphertext)

/-- `bootstrapping.EvaluationKeys` (circuits/ckks/bootstrapping/keys.go:199). -/
def btpKeys : Fmt :=
  .pair (optReset evalKey) (.pair (optReset evalKey) (.pair (optReset evalKey)
    (.pair (optReset evalKey) (.pair (optReset evalKey) (.pair (optReset evalKey)
      (optKeepFresh evalKeySet))))))

/-- `rlwe.Parameters` (core/rlwe/params.go:662): `u32 len` then the JSON text (opaque). -/
def paramsBlock : Fmt := .vec .block 4 u8

/-! multiparty shares -/
def publicKeyGenShare : Fmt := polyQP                  -- multiparty/keygen_cpk.go:123
def evalKeyGenShare : Fmt := gadget                    -- multiparty/keygen_evk.go:310
def relinKeyGenShare : Fmt := gadget                   -- multiparty/keygen_relin.go:334
def galoisKeyGenShare : Fmt := .pair u64 gadget        -- multiparty/keygen_gal.go:108
def keySwitchShare : Fmt := poly                       -- multiparty/keyswitch_sk.go:191
def publicKeySwitchShare : Fmt := element poly         -- multiparty/keyswitch_pk.go:174
def refreshShare : Fmt := .pair metaData (.pair poly poly)  -- multiparty/refresh.go:24
def shamirSecretShare : Fmt := polyQP                  -- multiparty/threshold.go:187

/-- format by wire name (the driver's and harness's type tokens). -/
def fmtOf : String → Option Fmt
  | "u8" => some u8 | "u32" => some u32 | "u64" => some u64
  | "vecu64" => some (vecOf u64)
  | "vecu32" => some (vecOf u32)
  | "vecu16" => some (vecOf u16)
  | "vecu8" => some (vecOf u8)
  | "mappoly" => some (mapOf poly)
  | "poly" => some poly
  | "polyqp" => some polyQP
  | "scale" => some scale
  | "ptmeta" => some ptMeta
  | "ctmeta" => some ctMeta
  | "meta" => some metaData
  | "ct" => some ciphertext
  | "pt" => some plaintext
  | "elqp" => some elementQP
  | "vecqp" => some vectorQP
  | "pk" => some publicKey
  | "sk" => some secretKey
  | "gct" => some gadget
  | "evk" => some evalKey
  | "rlk" => some relinKey
  | "gk" => some galoisKey
  | "evkset" => some evalKeySet
  | "rgsw" => some rgswCiphertext
  | "pb" => some powerBasis
  | "btpkeys" => some btpKeys
  | "params" => some paramsBlock
  | "cpkshare" => some publicKeyGenShare
  | "evkshare" => some evalKeyGenShare
  | "rlkshare" => some relinKeyGenShare
  | "galshare" => some galoisKeyGenShare
  | "ksshare" => some keySwitchShare
  | "pksshare" => some publicKeySwitchShare
  | "refreshshare" => some refreshShare
  | "shamirshare" => some shamirSecretShare
  | _ => none

/-! ## Which Go field every leaf of a format carries

  `leafCount f` is the number of value-carrying leaves of a format (a slice of scalars is ONE
  field; counts and presence bytes carry no field). `goFields` gives, for every serialisable Go
  type, its format and the Go field each leaf carries, in wire order, in the path notation of the
  harness's reflection walker (`.` field, `?` nilable pointer, `[]` slice, `[i]` array element,
  `{key}`/`{}` map key/value, embedded structs by type name), plus the fields that are NOT
  serialised because they are derived. The harness compares the union with what Go reflection
  finds in the type (tie `fields`), so a field added to a struct without being serialised is
  detected; `Props/C08.lean: codec_fields_complete` proves that the list has exactly one entry per
  leaf of the format. -/

def leafCount : Fmt → Nat
  | .unit => 0
  | .uint _ => 1
  | .raw _ => 1
  | .hex2 _ => 1
  | .shex2 => 1
  | .framed _ f _ => leafCount f
  | .pair a b => leafCount a + leafCount b
  | .vec _ _ f => leafCount f
  | .opt _ _ f => leafCount f
  | .tailIf _ a _ b => leafCount a + leafCount b

def pre (p : String) (l : List String) : List String := l.map (p ++ ·)

def fPoly : List String := ["Coeffs[][]"]
def fPolyQP : List String := pre "Q." fPoly ++ pre "P." fPoly
def fScale : List String := ["Value", "Mod?"]
def fPtMeta : List String :=
  pre "Scale." fScale ++ ["IsBatched", "IsBitReversed", "LogDimensions.Rows", "LogDimensions.Cols"]
def fCtMeta : List String := ["IsNTT", "IsMontgomery"]
def fMeta : List String := pre "PlaintextMetaData." fPtMeta ++ pre "CiphertextMetaData." fCtMeta
def fElement (t : List String) : List String := pre "MetaData?." fMeta ++ pre "Value[]." t
def fGadget : List String := ["BaseTwoDecomposition"] ++ pre "Value[][][]." fPolyQP
def fEvk : List String := pre "GadgetCiphertext." fGadget ++ ["Seed?"]
def fGk : List String := ["GaloisElement", "NthRoot"] ++ pre "EvaluationKey." fEvk
def fEvkSet : List String :=
  pre "RelinearizationKey?.EvaluationKey." fEvk ++ ["GaloisKeys{key}"] ++ pre "GaloisKeys{}." fGk

/-- Go type ↦ (format name, serialised fields in wire order, derived fields not serialised). -/
def goFields : String → Option (String × List String × List String)
  | "structs.Vector[uint64]" => some ("vecu64", ["[]"], [])
  | "structs.Vector[uint32]" => some ("vecu32", ["[]"], [])
  | "structs.Vector[uint16]" => some ("vecu16", ["[]"], [])
  | "structs.Vector[uint8]" => some ("vecu8", ["[]"], [])
  | "structs.Matrix[uint64]" => some ("poly", ["[][]"], [])
  | "structs.Map[uint64,ring.Poly]" => some ("mappoly", ["{key}"] ++ pre "{}." fPoly, [])
  | "ring.Poly" => some ("poly", fPoly, [])
  | "ringqp.Poly" => some ("polyqp", fPolyQP, [])
  | "rlwe.PlaintextMetaData" => some ("ptmeta", fPtMeta, [])
  | "rlwe.CiphertextMetaData" => some ("ctmeta", fCtMeta, [])
  | "rlwe.MetaData" => some ("meta", fMeta, [])
  | "rlwe.Ciphertext" => some ("ct", pre "Element." (fElement fPoly), [])
  /- `Plaintext.Value` is `Element.Value[0]` (re-derived by `ReadFrom`, core/rlwe/plaintext.go) -/
  | "rlwe.Plaintext" => some ("pt", pre "Element." (fElement fPoly), pre "Value." fPoly)
  | "rlwe.Element[ringqp.Poly]" => some ("elqp", fElement fPolyQP, [])
  | "rlwe.VectorQP" => some ("vecqp", pre "[]." fPolyQP, [])
  | "rlwe.PublicKey" => some ("pk", pre "Value[]." fPolyQP, [])
  | "rlwe.SecretKey" => some ("sk", pre "Value." fPolyQP, [])
  | "rlwe.GadgetCiphertext" => some ("gct", fGadget, [])
  | "rlwe.EvaluationKey" => some ("evk", fEvk, [])
  | "rlwe.RelinearizationKey" => some ("rlk", pre "EvaluationKey." fEvk, [])
  | "rlwe.GaloisKey" => some ("gk", fGk, [])
  | "rlwe.MemEvaluationKeySet" => some ("evkset", fEvkSet, [])
  | "rgsw.Ciphertext" => some ("rgsw", pre "Value[0]." fGadget ++ pre "Value[1]." fGadget, [])
  | "polynomial.PowerBasis" =>
    some ("pb", ["Basis", "Value{key}"] ++ pre "Value{}.Element." (fElement fPoly), [])
  | "bootstrapping.EvaluationKeys" =>
    some ("btpkeys", pre "EvkN1ToN2?." fEvk ++ pre "EvkN2ToN1?." fEvk ++ pre "EvkRealToCmplx?." fEvk ++
      pre "EvkCmplxToReal?." fEvk ++ pre "EvkDenseToSparse?." fEvk ++ pre "EvkSparseToDense?." fEvk ++
      pre "MemEvaluationKeySet?." fEvkSet, [])
  /- all fields of `rlwe.Parameters` are private and rebuilt from the JSON of its literal -/
  | "rlwe.Parameters" => some ("params", ["<json>"], [])
  | "multiparty.PublicKeyGenShare" => some ("cpkshare", pre "Value." fPolyQP, [])
  | "multiparty.EvaluationKeyGenShare" => some ("evkshare", pre "GadgetCiphertext." fGadget, [])
  | "multiparty.RelinearizationKeyGenShare" => some ("rlkshare", pre "GadgetCiphertext." fGadget, [])
  | "multiparty.GaloisKeyGenShare" =>
    some ("galshare", ["GaloisElement"] ++ pre "EvaluationKeyGenShare.GadgetCiphertext." fGadget, [])
  | "multiparty.KeySwitchShare" => some ("ksshare", pre "Value." fPoly, [])
  | "multiparty.PublicKeySwitchShare" => some ("pksshare", pre "Element." (fElement fPoly), [])
  | "multiparty.RefreshShare" =>
    some ("refreshshare", pre "MetaData." fMeta ++ pre "EncToShareShare.Value." fPoly ++
      pre "ShareToEncShare.Value." fPoly, [])
  | "multiparty.ShamirSecretShare" => some ("shamirshare", pre "Poly." fPolyQP, [])
  | _ => none

/-- the Go types of `goFields` (the serialisable types that have `WriteTo`/`ReadFrom`). -/
def goTypes : List String :=
  ["structs.Vector[uint64]", "structs.Vector[uint32]", "structs.Vector[uint16]", "structs.Vector[uint8]",
   "structs.Matrix[uint64]", "structs.Map[uint64,ring.Poly]", "ring.Poly", "ringqp.Poly",
   "rlwe.PlaintextMetaData", "rlwe.CiphertextMetaData", "rlwe.MetaData", "rlwe.Ciphertext",
   "rlwe.Plaintext", "rlwe.Element[ringqp.Poly]", "rlwe.VectorQP", "rlwe.PublicKey", "rlwe.SecretKey",
   "rlwe.GadgetCiphertext", "rlwe.EvaluationKey", "rlwe.RelinearizationKey", "rlwe.GaloisKey",
   "rlwe.MemEvaluationKeySet", "rgsw.Ciphertext", "polynomial.PowerBasis",
   "bootstrapping.EvaluationKeys", "rlwe.Parameters", "multiparty.PublicKeyGenShare",
   "multiparty.EvaluationKeyGenShare", "multiparty.RelinearizationKeyGenShare",
   "multiparty.GaloisKeyGenShare", "multiparty.KeySwitchShare", "multiparty.PublicKeySwitchShare",
   "multiparty.RefreshShare", "multiparty.ShamirSecretShare"]

end Lattigo.Codec
