/-
  The REGENERATED integer functions of core/rlwe/params.go (`Gen/Params.lean`), of the polynomial
  evaluator's scheduling arithmetic (`Gen/PolySplit.lean`) and of `lintrans.BSGSIndex`
  (`Gen/LinTrans.lean`), wrapped for the drivers: the wrappers only convert between the line protocol's
  integers and the generated functions' words (a Go `int` is its two's-complement word).

  Executed by: `C19 gen …` (Driver/C19Gen.lean), `C12 margin` (Driver/C12.lean), `C13 split` /
  `C13 optsplit` (Driver/C13.lean).  `Proofs/GenParams.lean`, `GenPolySplit.lean`, `GenLinTrans.lean`
  relate them to the hand-written models and closed forms.
  Core Lean only.
-/
import Lattigo.Gen.Params
import Lattigo.Gen.PolySplit
import Lattigo.Gen.LinTrans

namespace Lattigo.Model.ParamsGen
open Lattigo

/-- `QiOverflowMargin(level)` on the chain `qs`, generated. -/
def qiMargin (qs : List Nat) (level : Int) : Int := i64toInt (Gen.Params.QiOverflowMargin qs (i64ofInt level))
/-- `PiOverflowMargin(level)` on the chain `ps`, generated. -/
def piMargin (ps : List Nat) (level : Int) : Int := i64toInt (Gen.Params.PiOverflowMargin ps (i64ofInt level))
/-- the margin of a whole list of moduli (`level = len - 1`): the C12 op `margin`. -/
def marginAll (qs : List Nat) : Int := qiMargin qs ((qs.length : Int) - 1)

def baseRNS (levelQ levelP : Int) : Int :=
  i64toInt (Gen.Params.BaseRNSDecompositionVectorSize (i64ofInt levelQ) (i64ofInt levelP))
def baseTwo (qs : List Nat) (levelQ levelP w : Int) : List Int :=
  (Gen.Params.BaseTwoDecompositionVectorSize qs (i64ofInt levelQ) (i64ofInt levelP) (i64ofInt w)).map i64toInt
def maxBit (qs ps : List Nat) (levelQ levelP : Int) : Int :=
  i64toInt (Gen.Params.MaxBit qs ps (i64ofInt levelQ) (i64ofInt levelP))
def maxLevelQ (qs : List Nat) : Int := i64toInt (Gen.Params.MaxLevelQ qs)
def maxLevelP (ps : List Nat) : Int := i64toInt (Gen.Params.MaxLevelP ps)
def maxLevel (qs : List Nat) : Int := i64toInt (Gen.Params.MaxLevel qs)

/-- `SplitDegree(n)`, generated (`none` = panic). -/
def splitDegree (n : Int) : Option (Int × Int) :=
  (Gen.PolySplit.SplitDegree (i64ofInt n)).map fun ab => (i64toInt ab.1, i64toInt ab.2)
/-- `OptimalSplit(logDegree)`, generated.  `logDegree ≤ 0` makes Go evaluate `1 << -1` (run-time
    panic, outside the printed subset): `none`. -/
def optimalSplit (logDegree : Int) : Option Int :=
  if logDegree ≤ 0 then none else some (i64toInt (Gen.PolySplit.OptimalSplit (i64ofInt logDegree)))
/-- ckks `PolynomialDepth(degree)`, generated (`none` = panic). -/
def polynomialDepth (levelsPerRescaling degree : Int) : Option Int :=
  (Gen.PolySplit.PolynomialDepth (i64ofInt levelsPerRescaling) (i64ofInt degree)).map i64toInt
/-- the index arithmetic of `BSGSIndex` for one diagonal, generated: `(rot, idxN1, idxN2)`. -/
def bsgsRot (slots N1 rot : Int) : Int × Int × Int :=
  let r := Gen.LinTrans.BSGSIndex_rot (i64ofInt slots) (i64ofInt N1) (i64ofInt rot)
  (i64toInt r.1, i64toInt r.2.1, i64toInt r.2.2)

end Lattigo.Model.ParamsGen
