/-
  Message-level register machine for `schemes/bgv/evaluator.go` (property C05).

  A register is what the library records about a ciphertext or plaintext — level, degree, scale —
  together with the RAW slot vector `slots = message · scale (mod t)`, i.e. what decrypting and
  decoding at scale 1 would give.  `step` performs, on these raw slots, exactly the Z_t arithmetic
  the evaluator performs on the ring elements (`MulScalar r0`, `Scale.Mul`, `Scale.Div`, the `T`
  factor of `tensorStandard`, the `(−Q_ℓ)⁻¹` of `tensorScaleInvariant`, the `q_ℓ⁻¹` of `Rescale`)
  and computes level / degree / scale / error exactly as the Go code does
  (`InitOutputBinaryOp`, `InitOutputUnaryOp`, `Resize` calls, `matchScalesBinary`).

  `Err.err`      the Go method returns a non-nil error.
  `Err.outside`  the Go method returns nil (or panics) but the result is NOT a function of the
                 operands' messages.  After the `fix:` commits C05-1 … C05-9 (and C13-1) only three
                 such cases remain, none reachable through well-typed use: `DropLevel` by more levels
                 than there are, `Relinearize` into a degree-0 receiver, and the unreachable degree
                 pattern of `tensorScaleInvariant`.  They are never emitted as tie lines.

  What links a register to the ciphertext's RNS limbs is NOT in this file: the tie lines compare the model's
  (level, degree, scale, decoded slots) with what the real decryptor + decoder return; Props/C05.lean gives the
  algebra behind each slot operation as identities over any commutative ring (`phase_*`, `phase_mul_si`, with
  `kSI_spec`: the `(−Q_ℓ)⁻¹` used here is the factor `round(t/Q·ct₀⊗ct₁)` leaves on the message).

  Core Lean only.
-/
namespace Lattigo.BGV

/-! ### Z_t helpers -/

/-- square-and-multiply with 64 rounds: the value of `ring.ModExp(x, e, m)` for `e < 2^64` -/
def powModAux : Nat → Nat → Nat → Nat → Nat → Nat
  | 0, _, _, _, r => r
  | f + 1, x, e, m, r =>
    if e = 0 then r else
      powModAux f (x * x % m) (e / 2) m (if e % 2 = 1 then r * x % m else r)

def powMod (x e m : Nat) : Nat := powModAux 64 (x % m) e m (1 % m)

/-- the inverse the code computes: `ring.ModExp(s, t-2, t)` (DecodeRingT, matchScalesBinary,
    MulThenAdd) and `big.Int.ModInverse` (Scale.Div) — equal for prime `t`, `s ≢ 0`. -/
def inv (t s : Nat) : Nat := powMod s (t - 2) t

def vadd (t : Nat) (a b : List Nat) : List Nat := List.zipWith (fun x y => (x + y) % t) a b
def vsub (t : Nat) (a b : List Nat) : List Nat := List.zipWith (fun x y => (x + (t - y % t)) % t) a b
def vmul (t : Nat) (a b : List Nat) : List Nat := List.zipWith (fun x y => x * y % t) a b
def vscale (t c : Nat) (a : List Nat) : List Nat := a.map fun x => x * c % t

/-- residue of a Go integer (`*big.Int`, `int64`, `int`) modulo `t` -/
def ofInt (t : Nat) (z : Int) : Nat := (z % (t : Int)).toNat

/-! ### configuration, registers, operations -/

structure Cfg where
  t   : Nat
  qs  : List Nat
  n   : Nat
  si  : Bool      -- Evaluator.ScaleInvariant
  rlk : Bool      -- the evaluation-key set holds a relinearisation key
  deriving Repr, Inhabited

structure Reg where
  level  : Nat
  degree : Nat
  scale  : Nat
  slots  : List Nat
  deriving Repr, BEq, DecidableEq, Inhabited

inductive Arg
  | reg (r : Reg) | self
  | big (z : Int) | u64 (x : Nat) | i64 (x : Int) | int (x : Int)
  | vu (v : List Nat) | vi (v : List Int)
  | k (k : Nat) | none
  deriving Repr, Inhabited

inductive Out
  | new | inp | into (r : Reg)
  deriving Repr, Inhabited

inductive Op
  | add | sub | mul | mulRelin | mulSI | mulRelinSI | mta | mrta | rescale | relin | drop | matchSL
  deriving Repr, DecidableEq, Inhabited

inductive Err
  | err | outside
  deriving Repr, DecidableEq, Inhabited

abbrev Res := Except Err (List Reg)

/-- `Q_ℓ mod t` -/
def qModT (c : Cfg) (l : Nat) : Nat := (c.qs.take (l + 1)).foldl (fun acc q => acc * (q % c.t) % c.t) (1 % c.t)

/-! ### matchScalesBinary (evaluator.go:1620) -/

def center (x tHalf t : Nat) : Nat := if x ≥ tHalf then t - x else x

/-- `ring.CRed` -/
def cred (x t : Nat) : Nat := if x ≥ t then x - t else x

structure MState where
  a : Nat
  b : Nat
  A : Nat
  B : Nat
  r0 : Nat
  r1 : Nat
  e : Nat
  deriving Repr

def matchStep (t : Nat) (s : MState) : MState :=
  let q := s.a / s.A
  let A' := s.a % s.A
  let B' := cred (t + s.b - s.B * q % t) t
  let upd := A' ≠ 0 ∧ Nat.gcd A' t = 1 ∧ center A' (t / 2) t + center B' (t / 2) t < s.e
  { a := s.A, b := s.B, A := A', B := B',
    r0 := if upd then A' else s.r0,
    r1 := if upd then B' else s.r1,
    e := if upd then center A' (t / 2) t + center B' (t / 2) t else s.e }

def matchLoop (t : Nat) : Nat → MState → MState
  | 0, s => s
  | f + 1, s => if s.A = 0 then s else matchLoop t f (matchStep t s)

def matchInit (t s0 s1 : Nat) : MState :=
  let A := inv t s0 * s1 % t
  { a := t, b := 0, A := A, B := 1, r0 := A, r1 := 1, e := center A (t / 2) t + 1 }

/-- `(r0, r1)` of `matchScalesBinary(scale0, scale1)`; Euclid on 64-bit words ends within 130 rounds -/
def matchScales (t s0 s1 : Nat) : Nat × Nat :=
  let s := matchLoop t 130 (matchInit t s0 s1)
  (s.r0, s.r1)

/-! ### operand decoding -/

def Arg.isScalar : Arg → Bool
  | .big _ | .u64 _ | .i64 _ | .int _ => true
  | _ => false

def Arg.scalar (t : Nat) : Arg → Nat
  | .big z | .i64 z | .int z => ofInt t z
  | .u64 x => x % t
  | _ => 0

/-- residues of a vector operand, zero-filled to `n`; `none` if longer than `n` (Encode errors) -/
def Arg.vec? (t n : Nat) : Arg → Option (List Nat)
  | .vu v => if v.length > n then Option.none else some (v.map (· % t) ++ List.replicate (n - v.length) 0)
  | .vi v => if v.length > n then Option.none else some (v.map (ofInt t) ++ List.replicate (n - v.length) 0)
  | _ => Option.none

def Arg.isVec : Arg → Bool
  | .vu _ | .vi _ => true
  | _ => false

def Arg.reg? (a : Reg) : Arg → Option Reg
  | .reg r => some r
  | .self => some a
  | _ => Option.none

/-- the receiver before the call: a fresh `NewCiphertext(params, d, l)` has scale 1 and zero limbs -/
def outReg (c : Cfg) (o : Out) (a : Reg) (d l : Nat) : Reg :=
  match o with
  | .new => { level := l, degree := d, scale := 1 % c.t, slots := List.replicate c.n 0 }
  | .inp => a
  | .into r => r

def ok1 (r : Reg) : Res := .ok [r]

/-! ### Add / Sub -/

def addSub (c : Cfg) (isSub : Bool) (o : Out) (a : Reg) (b : Arg) : Res :=
  let t := c.t
  match b.reg? a with
  | some rb =>
    let out := outReg c o a (max a.degree rb.degree) (min a.level rb.level)
    if a.degree + rb.degree = 0 then .error .err else
    let level := min (min a.level rb.level) out.level
    let degree := max a.degree rb.degree     -- InitOutputBinaryOp: the receiver is resized to this degree
    if a.scale = rb.scale then
      -- (evaluateInPlace copies op1's higher-degree limbs; `Sub` negates them afterwards)
      ok1 { level := level, degree := degree, scale := a.scale,
            slots := if isSub then vsub t a.slots rb.slots else vadd t a.slots rb.slots }
    else
      let (r0, r1) := matchScales t a.scale rb.scale
      let x := vscale t r0 a.slots
      let y := vscale t r1 rb.slots
      ok1 { level := level, degree := degree, scale := a.scale * r0 % t,
            slots := if isSub then vsub t x y else vadd t x y }
  | Option.none =>
    let out := outReg c o a a.degree a.level
    let level := min a.level out.level
    if b.isScalar then
      -- op1·op0.Scale is added to limb 0; `opOut.Scale = op0.Scale`
      let z := b.scalar t * a.scale % t
      let v := List.replicate a.slots.length z
      ok1 { level := level, degree := a.degree, scale := a.scale,
            slots := if isSub then vsub t a.slots v else vadd t a.slots v }
    else if b.isVec then
      match b.vec? t c.n with
      | Option.none => .error .err
      | some v =>
        let y := vscale t a.scale v
        ok1 { level := level, degree := a.degree, scale := a.scale,
              slots := if isSub then vsub t a.slots y else vadd t a.slots y }
    else .error .err

/-! ### tensoring -/

/-- `InitOutputBinaryOp(op0, op1, 2, opOut)` degree conditions -/
def binChk (a b : Reg) : Bool := a.degree + b.degree ≠ 0 ∧ a.degree + b.degree ≤ 2

/-- `tensorStandard` at `level` -/
def tensorStd (c : Cfg) (relin : Bool) (a b : Reg) (level : Nat) : Res :=
  let t := c.t
  -- "op0 must be of degree at least 1 (a plaintext operand is expected as op1)"
  if a.degree = 0 then .error .err
  else if a.degree = 1 ∧ b.degree = 1 then
    if relin ∧ ¬ c.rlk then .error .err else
    ok1 { level := level, degree := if relin then 1 else 2, scale := a.scale * b.scale % t,
          slots := vmul t a.slots b.slots }
  else
    ok1 { level := level, degree := a.degree, scale := a.scale * b.scale % t,
          slots := vmul t a.slots b.slots }

/-- `tensorScaleInvariant` at `level`: result scale `s0·s1·(t − Q_ℓ mod t)⁻¹` -/
def tensorSI (c : Cfg) (relin : Bool) (a b : Reg) (level : Nat) : Res :=
  let t := c.t
  if a.degree = 0 then .error .err
  else if a.degree ≠ 1 ∨ b.degree ≠ 1 then .error .outside   -- not reachable: callers ensure 1 ≤ deg, sum ≤ 2
  else if relin ∧ ¬ c.rlk then .error .err else
    let k := inv t (t - qModT c level)
    ok1 { level := level, degree := if relin then 1 else 2, scale := a.scale * b.scale % t * k % t,
          slots := vscale t k (vmul t a.slots b.slots) }

/-- scalar branch of `Mul` (evaluator.go:481–503): `opOut.Scale = op0.Scale` -/
def mulScalar (c : Cfg) (o : Out) (a : Reg) (z : Nat) : Res :=
  let out := outReg c o a a.degree a.level
  ok1 { level := min a.level out.level, degree := a.degree, scale := a.scale,
        slots := vscale c.t z a.slots }

def ptOf (level scale : Nat) (t : Nat) (v : List Nat) : Reg :=
  { level := level, degree := 0, scale := scale, slots := vscale t scale v }

def mulStd (c : Cfg) (relin : Bool) (o : Out) (a : Reg) (b : Arg) (newDeg : Nat) : Res :=
  match b.reg? a with
  | some rb =>
    let out := outReg c o a newDeg (min a.level rb.level)
    if ¬ binChk a rb then .error .err else
    tensorStd c relin a rb (min (min a.level rb.level) out.level)
  | Option.none =>
    let out := outReg c o a newDeg a.level
    if b.isScalar then mulScalar c o a (b.scalar c.t)
    else if b.isVec then
      match b.vec? c.t c.n with
      | Option.none => .error .err
      | some v =>
        let level := min a.level out.level
        let pt := ptOf level (1 % c.t) c.t v
        if ¬ binChk a pt then .error .err else
        tensorStd c false a pt level
    else .error .err

def mulInv (c : Cfg) (relin : Bool) (o : Out) (a : Reg) (b : Arg) (newDeg : Nat) : Res :=
  match b.reg? a with
  | some rb =>
    let out := outReg c o a newDeg (min a.level rb.level)
    if ¬ binChk a rb then .error .err else
    let level := min (min a.level rb.level) out.level
    if rb.degree = 0 then tensorStd c relin a rb level else tensorSI c relin a rb level
  | Option.none =>
    let out := outReg c o a newDeg a.level
    if b.isScalar then mulScalar c o a (b.scalar c.t)
    else if b.isVec then
      match b.vec? c.t c.n with
      | Option.none => .error .err
      | some v =>
        let level := min a.level out.level
        tensorStd c relin a (ptOf level (1 % c.t) c.t v) level
    else .error .err

def regDeg (a : Reg) (b : Arg) : Nat := match b.reg? a with | some rb => rb.degree | Option.none => 0

def mulOp (c : Cfg) (op : Op) (o : Out) (a : Reg) (b : Arg) : Res :=
  let isReg := (b.reg? a).isSome
  match op with
  | .mul =>
    if c.si ∧ (isReg ∨ b.isVec) then mulInv c false o a b (a.degree + regDeg a b)
    else mulStd c false o a b (a.degree + regDeg a b)
  | .mulRelin =>
    if c.si then mulInv c true o a b (if isReg then 1 else a.degree)
    else if isReg then mulStd c true o a b 1 else mulStd c false o a b 1
  | .mulSI => mulInv c false o a b (a.degree + regDeg a b)
  | .mulRelinSI => mulInv c true o a b (if isReg then 1 else a.degree)
  | _ => .error .err

/-! ### MulThenAdd / MulRelinThenAdd -/

def accDegree (relin : Bool) (a b r : Reg) : Nat :=
  if a.degree = 1 ∧ b.degree = 1 then (if relin then max 1 r.degree else 2) else max a.degree r.degree

/-- `mulRelinThenAdd` (evaluator.go:1289) with accumulator `r`.  (`if r0 != 1 { MulScalar(c00, r0) }`
    is modelled by an unconditional multiplication: multiplying reduced residues by 1 is the identity.) -/
def accReg (c : Cfg) (relin : Bool) (a b r : Reg) (level : Nat) : Res :=
  if a.degree = 0 then .error .err
  else if (a.degree = 1 ∧ b.degree = 1) ∧ relin = true ∧ c.rlk = false then .error .err
  else if r.scale = a.scale * b.scale % c.t then
    ok1 { level := level, degree := accDegree relin a b r, scale := r.scale,
          slots := vadd c.t r.slots (vmul c.t a.slots b.slots) }
  else
    ok1 { level := level, degree := accDegree relin a b r,
          scale := r.scale * (matchScales c.t (a.scale * b.scale % c.t) r.scale).2 % c.t,
          slots := vadd c.t (vscale c.t (matchScales c.t (a.scale * b.scale % c.t) r.scale).2 r.slots)
                    (vscale c.t (matchScales c.t (a.scale * b.scale % c.t) r.scale).1 (vmul c.t a.slots b.slots)) }

/-- `op1 *= opOut.Scale / op0.Scale` when the scales differ (evaluator.go:1176–1181) -/
def accScalar (t sa so z : Nat) : Nat :=
  if sa = so then z else z * (inv t sa * so % t) % t

def accPtScale (t sa so : Nat) : Nat :=
  if sa = so then 1 % t else inv t sa * so % t

def accOp (c : Cfg) (relin : Bool) (o : Out) (a : Reg) (b : Arg) : Res :=
  let t := c.t
  match o with
  | .into r =>
    (match b.reg? a with
    | some rb =>
      if ¬ binChk a rb then .error .err else
      accReg c (relin ∧ rb.degree ≠ 0) a rb r (min (min a.level rb.level) r.level)
    | Option.none =>
      if b.isScalar then
        -- `opOut.Resize(max(op0.Degree(), opOut.Degree()), min(op0.Level(), opOut.Level()))`
        ok1 { level := min a.level r.level, degree := max a.degree r.degree, scale := r.scale,
              slots := vadd t r.slots (vscale t (accScalar t a.scale r.scale (b.scalar t)) a.slots) }
      else if b.isVec then
        match b.vec? t c.n with
        | Option.none => .error .err
        | some v =>
          let level := min a.level r.level
          let pt := ptOf level (accPtScale t a.scale r.scale) t v
          if ¬ binChk a pt then .error .err else
          accReg c false a pt r level
      else .error .err)
  | _ => .error .err

/-! ### unary operations -/

def rescaleOp (c : Cfg) (o : Out) (a : Reg) : Res :=
  let out := outReg c o a a.degree a.level
  -- scale-invariant evaluator: no rescaling, the receiver becomes a copy of op0
  if c.si then ok1 a else
  if a.level = 0 then .error .err else
  if out.level + 1 < a.level then .error .err else
  -- `opOut.Resize(op0.Degree(), opOut.Level())`: the receiver takes op0's degree
  let qi := inv c.t (c.qs.getD a.level 1 % c.t)
  ok1 { level := a.level - 1, degree := a.degree, scale := a.scale * qi % c.t,
        slots := vscale c.t qi a.slots }

def relinOp (c : Cfg) (o : Out) (a : Reg) : Res :=
  let out := outReg c o a 1 a.level
  if a.degree ≠ 2 then .error .err else
  if ¬ c.rlk then .error .err else
  if out.degree = 0 then .error .outside else
  ok1 { level := min a.level out.level, degree := 1, scale := a.scale, slots := a.slots }

def dropOp (a : Reg) (k : Nat) : Res :=
  if k > a.level then .error .outside else ok1 { a with level := a.level - k }

def matchOp (c : Cfg) (a b : Reg) : Res :=
  let (r0, r1) := matchScales c.t a.scale b.scale
  let level := min a.level b.level
  .ok [ { level := level, degree := a.degree, scale := a.scale * r0 % c.t, slots := vscale c.t r0 a.slots },
        { level := level, degree := b.degree, scale := b.scale * r1 % c.t, slots := vscale c.t r1 b.slots } ]

/-- one call of a public `bgv.Evaluator` method -/
def step (c : Cfg) (op : Op) (o : Out) (a : Reg) (b : Arg) : Res :=
  match op with
  | .add => addSub c false o a b
  | .sub => addSub c true o a b
  | .mul | .mulRelin | .mulSI | .mulRelinSI => mulOp c op o a b
  | .mta => accOp c false o a b
  | .mrta => accOp c true o a b
  | .rescale => rescaleOp c o a
  | .relin => relinOp c o a
  | .drop => (match b with | .k k => dropOp a k | _ => .error .err)
  | .matchSL => (match b with | .reg rb => matchOp c a rb | _ => .error .err)

/-- the decoded message of a register: `DecodeRingT` multiplies by `ModExp(scale, t-2, t)` -/
def val (t : Nat) (r : Reg) : List Nat := vscale t (inv t r.scale) r.slots

/-- register from what the harness observes (decoded slots at the recorded scale) -/
def Reg.ofDecoded (t level degree scale : Nat) (v : List Nat) : Reg :=
  { level := level, degree := degree, scale := scale, slots := vscale t scale v }

/-! ### straight-line programs over a register file -/

inductive ArgRef
  | idx (j : Nat) | imm (b : Arg)
  deriving Repr, Inhabited

inductive OutRef
  | new (dst : Nat) | inp | into (j : Nat)
  deriving Repr, Inhabited

structure Instr where
  op  : Op
  a   : Nat
  b   : ArgRef
  out : OutRef
  deriving Repr, Inhabited

def Instr.arg (rf : List Reg) (i : Instr) : Option Arg :=
  match i.b with
  | .idx j => if j = i.a then some Arg.self else (rf[j]?).map Arg.reg
  | .imm (.reg _) => none        -- registers are referenced by index
  | .imm .self => none
  | .imm b => some b

def Instr.outSpec (rf : List Reg) (i : Instr) : Option (Out × Nat) :=
  match i.out with
  | .new d => some (Out.new, d)
  | .inp => some (Out.inp, i.a)
  | .into j => (rf[j]?).map fun r => (Out.into r, j)

/-- instructions excluded from straight-line programs: `MatchScalesAndLevel` (two results). -/
def guardOK (_c : Cfg) (op : Op) (_o : Out) (_a : Reg) (_b : Arg) : Bool :=
  op != .matchSL

/-- one instruction: operands are read from the register file, the result is stored at `dst` -/
def exec (c : Cfg) (rf : List Reg) (i : Instr) : Except Err (List Reg) :=
  match rf[i.a]?, i.arg rf, i.outSpec rf with
  | some a, some b, some (o, dst) =>
    if guardOK c i.op o a b then
      match step c i.op o a b with
      | .ok [r] => .ok (rf.set dst r)
      | .ok _ => .error .outside
      | .error e => .error e
    else .error .outside
  | _, _, _ => .error .err

def run (c : Cfg) : List Instr → List Reg → Except Err (List Reg)
  | [], rf => .ok rf
  | i :: is, rf =>
    match exec c rf i with
    | .ok rf' => run c is rf'
    | .error e => .error e

end Lattigo.BGV
