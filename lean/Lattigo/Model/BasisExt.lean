/-
  Layer D of the twin (2/3): RNS basis extension, ring/basis_extension.go
  (HPS fast base conversion, https://eprint.iacr.org/2018/117).

  LIMB LEVEL (bit-exact): `genModUpConstants`, `reconstructRNS` (the correction index `v` is computed
  with Lean `Float` = IEEE binary64, the same operations in the same order as the Go code:
  `vi += float64(y)/float64(q)` left to right, then `uint64(vi)`), `multSum` (128-bit accumulate,
  lazy Montgomery reduction, `+ vtimesqmodp[v]`), `modUpExact`, `modUpQtoP`, `modUpPtoQ`,
  `modDownQPtoQ`, `modDownQPtoQNTT`, `modDownQPtoP`, and the small-norm extension of
  ring/ringqp/operations.go and core/rlwe/utils.go.

  INTEGER LEVEL (specification, Proofs/BasisExt*.lean): `hpsY`, `hpsSum`, `hpsV`, `hpsOut`,
  `modDownRes`, `centerInt`.  The limb level is PROVED to refine the integer level (Proofs/BasisExtLimb.lean,
  BasisExtNTT.lean, BasisExtIndex.lean, BasisExtEval.lean) up to ONE named hypothesis on the float index
  (`FidxApprox`: it is the floor of a rational within `ε` of `Σ y_i/q_i`; Lean's `Float` is opaque to the kernel).
  `evalModDown`: twin of `rlwe.Evaluator.ModDown` (one polynomial, distinct buffers); `modDownQPtoQNTTX`: either
  ring type.  `extendSmallLimb` = repaired limb of ringqp (C03-9); `extendSmallLimbWrap` = the unrepaired limb still
  in `rlwe.ExtendBasisSmallNormAndCenterNTTMontgomery`.
  Core Lean only.
-/
import Lattigo.Gen.ModRed
import Lattigo.Gen.VecLanes
import Lattigo.Model.BRedConst
import Lattigo.Model.NTT
import Lattigo.Model.Scaling

namespace Lattigo.BasisExt
open Lattigo Lattigo.Gen Lattigo.Scaling

/-! ## integer level -/

/-- `Q / q_i` -/
def qStar (qs : List Nat) (qi : Nat) : Nat := prodN qs / qi

/-- `y_i = [x · (Q/q_i)⁻¹]_{q_i}` from the residues of `x` -/
def hpsY (qs : List Nat) (xs : List Nat) : List Nat :=
  List.zipWith (fun qi xi => (xi * invMod (qStar qs qi % qi) qi) % qi) qs xs

/-- `Σ y_i · (Q/q_i)` over the integers -/
def hpsSum (qs : List Nat) (ys : List Nat) : Nat :=
  (List.zipWith (fun qi yi => yi * qStar qs qi) qs ys).foldr (· + ·) 0

/-- the exact correction index `v = ⌊Σ y_i / q_i⌋ = ⌊(Σ y_i·Q/q_i) / Q⌋` -/
def hpsV (qs : List Nat) (ys : List Nat) : Nat := hpsSum qs ys / prodN qs

/-- what the code writes for target modulus `p` when it uses correction index `v`:
    `Σ y_i·(Q/q_i) + v·(−Q mod p)  (mod p)` -/
def hpsOut (qs : List Nat) (ys : List Nat) (v p : Nat) : Nat :=
  (hpsSum qs ys + v * (p - prodN qs % p)) % p

/-- `(x_i − e_i)·c mod q_i`, `c` the inverse of `P` modulo `q_i`, `e_i` the extension of `[x]_P` -/
def modDownRes (qi c xi ei : Nat) : Nat := ((xi + qi - ei % qi) * c) % qi

/-- `ringqp.Ring.ExtendBasisSmallNormAndCenter` on one coefficient (code after repair C03-9 of /repo): the residue `c`
    modulo `q0` is centred (`c > q0/2 ↦ −(q0 − c)`), its absolute value is REDUCED modulo `p`
    (`cc := coeff % p`) and the limb is `cc` resp. `−cc mod p` with `−0 = 0`
    (`neg := (p − cc)·((cc | −cc) >> 63)`).  Go's `%` panics for `p = 0`; Lean's gives `coeff`. -/
def extendSmallLimb (q0 p c : Nat) : Nat :=
  let qHalf := u64shr q0 1
  let neg := decide (qHalf < c)
  let coeff := if neg then u64sub q0 c else c
  let sign := if neg then 0 else 1
  let cc := coeff % p
  let ng := u64mul (u64sub p cc) (u64shr (u64or cc (u64neg cc)) 63)
  u64or (u64mul cc sign) (u64mul ng (u64xor sign 1))

/-- `rlwe.ExtendBasisSmallNormAndCenterNTTMontgomery` on one coefficient (core/rlwe/utils.go, NOT changed by C03-9):
    written modulo `p` as `c` resp. `p − (q0 − c)` on uint64 — it wraps when `q0 − c > p`. -/
def extendSmallLimbWrap (q0 p c : Nat) : Nat :=
  let qHalf := u64shr q0 1
  let neg := decide (qHalf < c)
  let coeff := if neg then u64sub q0 c else c
  let sign := if neg then 0 else 1
  u64or (u64mul coeff sign) (u64mul (u64sub p coeff) (u64xor sign 1))

/-- the signed integer a residue modulo `q0` stands for (`c > q0/2 ↦ c − q0`) -/
def centerInt (q0 c : Nat) : Int := if q0 / 2 < c then (c : Int) - q0 else c

/-! ## limb level -/

/-- `ModexpMontgomery(x, e, q, mredconstant, bredconstant)` -/
def modexpMontgomery (x e q qinv : Nat) (bred : Nat × Nat) : Nat :=
  let rec go : Nat → Nat → Nat → Nat → Nat
    | 0, _, _, r => r
    | fuel + 1, x, e, r =>
      if e = 0 then r else
        go fuel (MRed x x q qinv) (e / 2) (if e % 2 = 1 then MRed r x q qinv else r)
  go 64 x e (MForm 1 q bred)

/-- `ModUpConstants` -/
structure MUC where
  qoverqiinvqi : Array Nat
  qoverqimodp  : Array (Array Nat)   -- [j][i]
  vtimesqmodp  : Array (Array Nat)   -- [j][v]
  deriving Repr, Inhabited

/-- the indices `0..n-1` except `i` -/
def others (n i : Nat) : List Nat := (List.range n).filter (· ≠ i)

/-- `GenModUpConstants(Q, P)` -/
def genModUpConstants (Q P : List Nat) : MUC :=
  let Qa := Q.toArray
  let nQ := Q.length
  let qoverqiinvqi := (List.range nQ).map fun i =>
    let qi := Qa[i]!
    let br := brc qi
    let mr := GenMRedConstant qi
    let star := (others nQ i).foldl (fun acc j => MRed acc (MForm Qa[j]! qi br) qi mr) (MForm 1 qi br)
    modexpMontgomery star (qi - 2) qi mr br
  let qoverqimodp := P.map fun pj =>
    let br := brc pj
    let mr := GenMRedConstant pj
    ((List.range nQ).map fun i =>
      let star := (others nQ i).foldl (fun acc u => MRed acc (MForm Qa[u]! pj br) pj mr) 1
      MForm star pj br).toArray
  let vtimesqmodp := P.map fun pj =>
    let br := brc pj
    let mr := GenMRedConstant pj
    let qmodp := Q.foldl (fun acc qi => MRed acc (MForm qi pj br) pj mr) 1
    let v := u64sub pj qmodp
    let (arr, _) := (List.range nQ).foldl (fun (st : Array Nat × Nat) _ =>
        let nxt := CRed (u64add st.2 v) pj
        (st.1.push nxt, nxt)) (#[0], 0)
    arr
  { qoverqiinvqi := qoverqiinvqi.toArray, qoverqimodp := qoverqimodp.toArray, vtimesqmodp := vtimesqmodp.toArray }

/-- Go `float64(x)` for a uint64 -/
def toF (x : Nat) : Float := (UInt64.ofNat x).toFloat

/-- one lane of `reconstructRNS`: the `y_i` and the correction index `v = uint64(Σ float64(y_i)/float64(q_i))`.
    `col` = the coefficient's limbs for moduli `Q[0..]`, `qinvs` the Montgomery constants. -/
def reconstruct (Q qinvs : List Nat) (muc : MUC) (col : List Nat) : List Nat × Nat :=
  let ys := (List.range col.length).map fun i =>
    MRed (col.getD i 0) muc.qoverqiinvqi[i]! (Q.getD i 0) (qinvs.getD i 0)
  let vf := (List.zip ys Q).foldl (fun (acc : Float) (yq : Nat × Nat) => acc + toF yq.1 / toF yq.2) 0.0
  (ys, vf.toUInt64.toNat)

/-- one lane of `multSum(level, …)` for target modulus `q` (constants row `j` of the MUC):
    `ys` has `level+1` entries. -/
def multSum (ys : List Nat) (v : Nat) (q qinv : Nat) (vtimesqmodp qoverqimodp : Array Nat) : Nat :=
  match ys with
  | [] => 0
  | y0 :: rest =>
    let m0 := mul64 y0 qoverqimodp[0]!
    let (rhi, rlo, _) := rest.foldl (fun (st : Nat × Nat × Nat) y =>
        let (rhi, rlo, i) := st
        let m := mul64 y qoverqimodp[i]!
        let a := add64 rlo m.2 0
        (u64add rhi (u64add m.1 a.2), a.1, i + 1)) (m0.1, m0.2, 1)
    let hhi := (mul64 (u64mul rlo qinv) q).1
    u64add (u64add (u64sub rhi hhi) q) vtimesqmodp[v]!

def transpose (rows : Rows) : Rows :=
  match rows with
  | [] => []
  | r :: _ => (List.range r.length).map fun j => rows.map fun rw => rw.getD j 0

/-- `ModUpExact(p1, p2, ringQ, ringP, MUC)`: `p1` has `levelQ+1` rows; returns the `levelP+1` rows of p2
    (values in `[0, 3p)`, NOT reduced). `Q`, `P` are the full chains of the two rings. -/
def modUpExact (Q P : List Nat) (muc : MUC) (levelP : Nat) (p1 : Rows) : Rows :=
  let qinvs := Q.map GenMRedConstant
  let recs := (transpose p1).map (reconstruct Q qinvs muc)
  (List.range (levelP + 1)).map fun j =>
    let pj := P.getD j 0
    let pinv := GenMRedConstant pj
    recs.map fun (ys, v) => multSum ys v pj pinv muc.vtimesqmodp[j]! muc.qoverqimodp[j]!

/-- `AddScalarBigint(pol, s, out)` / `SubScalarBigint` at the given level -/
def addScalarBig (Q : List Nat) (level : Nat) (s : Nat) (p : Rows) : Rows :=
  (List.range (level + 1)).map fun i =>
    let q := Q.getD i 0
    (row p i).map fun x => addscalarvec_lane x (s % q) 0 q

def subScalarBig (Q : List Nat) (level : Nat) (s : Nat) (p : Rows) : Rows :=
  (List.range (level + 1)).map fun i =>
    let q := Q.getD i 0
    (row p i).map fun x => subscalarvec_lane x (s % q) 0 q

/-- `ModulusAtLevel[level] >> 1` -/
def halfModulus (Q : List Nat) (level : Nat) : Nat := prodN (Q.take (level + 1)) / 2

/-- `BasisExtender.ModUpQtoP(levelQ, levelP, polQ, polP)`: the rows of polP.
    (`constantsQtoP[levelQ] = GenModUpConstants(Q[:levelQ+1], P)`.)  With the roles of `Q` and `P`
    exchanged this is `ModUpPtoQ`. -/
def modUp (Q P : List Nat) (levelQ levelP : Nat) (polQ : Rows) : Rows :=
  let qHalf := halfModulus Q levelQ
  let buffQ := addScalarBig Q levelQ qHalf polQ
  let muc := genModUpConstants (Q.take (levelQ + 1)) P
  let polP := modUpExact Q P muc levelP buffQ
  subScalarBig P levelP qHalf polP

def modUpQtoP (Q P : List Nat) (levelQ levelP : Nat) (polQ : Rows) : Rows := modUp Q P levelQ levelP polQ
def modUpPtoQ (Q P : List Nat) (levelP levelQ : Nat) (polP : Rows) : Rows := modUp P Q levelP levelQ polP

/-- `genmodDownConstants(ringQ, ringP)[levelP][i]`: `(p_0⋯p_levelP)⁻¹ mod q_i` in Montgomery form -/
def modDownConst (qi : Nat) (P : List Nat) (levelP : Nat) : Nat :=
  let br := brc qi
  let mr := GenMRedConstant qi
  match (P.take (levelP + 1)) with
  | [] => 0
  | p0 :: rest =>
    rest.foldl (fun acc pj => MRed (MForm (invMod pj qi) qi br) acc qi mr) (MForm (invMod p0 qi) qi br)

/-- the closing loop of the three ModDown functions:
    `SubThenMulScalarMontgomeryTwoModulus(buff[i], p1[i], q_i − modDownConstants[i], p2[i])` -/
def modDownRows (Q P : List Nat) (levelQ levelP : Nat) (buffQ p1Q : Rows) : Rows :=
  (List.range (levelQ + 1)).map fun i =>
    let qi := Q.getD i 0
    let c := u64sub qi (modDownConst qi P levelP)
    let qinv := GenMRedConstant qi
    List.zipWith (fun b x => subthenmulscalarmontgomeryTwoModulusvec_lane b x c 0 qi qinv) (row buffQ i) (row p1Q i)

/-- `ModDownQPtoQ(levelQ, levelP, p1Q, p1P, p2Q)` -/
def modDownQPtoQ (Q P : List Nat) (levelQ levelP : Nat) (p1Q p1P : Rows) : Rows :=
  modDownRows Q P levelQ levelP (modUpPtoQ Q P levelP levelQ p1P) p1Q

/-- `ModDownQPtoP(levelQ, levelP, p1Q, p1P, p2P)` -/
def modDownQPtoP (Q P : List Nat) (levelQ levelP : Nat) (p1Q p1P : Rows) : Rows :=
  modDownRows P Q levelP levelQ (modUpQtoP Q P levelQ levelP p1Q) p1P

/-- `ModDownQPtoQNTT(levelQ, levelP, p1Q, p1P, p2Q)`; `TQ`, `TP` the NTT tables of the two rings -/
def modDownQPtoQNTT (TQ TP : Scaling.Tabs) (Q P : List Nat) (levelQ levelP : Nat) (p1Q p1P : Rows) : Rows :=
  let buffP := (List.range (levelP + 1)).map fun j => NTT.inttStdLazy (Scaling.tab TP j) (row p1P j)
  let buffQ := modUpPtoQ Q P levelP levelQ buffP
  let buffQ := (List.range (levelQ + 1)).map fun i => NTT.nttStdLazy (Scaling.tab TQ i) (row buffQ i)
  modDownRows Q P levelQ levelP buffQ p1Q

/-- `ModDownQPtoQNTT` for either ring type (`Scaling.xfStd`: the function above, by `rfl`) -/
def modDownQPtoQNTTX (F : Scaling.Xf) (TQ TP : Scaling.Tabs) (Q P : List Nat) (levelQ levelP : Nat) (p1Q p1P : Rows) : Rows :=
  let buffP := (List.range (levelP + 1)).map fun j => F.inttLazy (Scaling.tab TP j) (row p1P j)
  let buffQ := modUpPtoQ Q P levelP levelQ buffP
  let buffQ := (List.range (levelQ + 1)).map fun i => F.nttLazy (Scaling.tab TQ i) (row buffQ i)
  modDownRows Q P levelQ levelP buffQ p1Q

theorem modDownQPtoQNTTX_std : modDownQPtoQNTTX Scaling.xfStd = modDownQPtoQNTT := rfl

/-- `rlwe.Evaluator.ModDown(levelQ, levelP, ctQP, ct)` (core/rlwe/evaluator_gadget_product.go) on ONE polynomial
    of the pair (`Value[0]` and `Value[1]` are treated alike), distinct buffers, for either ring type.
    `levelP = none` is Go's `levelP = -1` (no special modulus: copy / change of domain only).
    Returns (rows of `ct.Value[i]`, rows of `ctQP.Value[i].Q` after the call, rows of `ctQP.Value[i].P` after the
    call): in the NTT → coefficient branch with a special modulus the code transforms `ctQP` IN PLACE
    (`INTTLazy`) before `ModDownQPtoQ`, so `ctQP` is rewritten there (and nowhere else). -/
def evalModDown (F : Scaling.Xf) (TQ TP : Scaling.Tabs) (Q P : List Nat) (levelQ : Nat) (levelP : Option Nat)
    (qpNTT ctNTT : Bool) (pQ pP : Rows) : Rows × Rows × Rows :=
  let pQ' := pQ.take (levelQ + 1)
  match levelP with
  | some lp =>
    if qpNTT then
      if ctNTT then (modDownQPtoQNTTX F TQ TP Q P levelQ lp pQ pP, pQ, pP)
      else
        let q' := (List.range (levelQ + 1)).map fun i => F.inttLazy (Scaling.tab TQ i) (row pQ i)
        let p' := (List.range (lp + 1)).map fun j => F.inttLazy (Scaling.tab TP j) (row pP j)
        (modDownQPtoQ Q P levelQ lp q' p', q' ++ pQ.drop (levelQ + 1), p' ++ pP.drop (lp + 1))
    else
      let o := modDownQPtoQ Q P levelQ lp pQ pP
      if ctNTT then (Scaling.nttRowsX F TQ levelQ o, pQ, pP) else (o, pQ, pP)
  | none =>
    if qpNTT = ctNTT then (pQ', pQ, pP)
    else if qpNTT then (Scaling.inttRowsX F TQ levelQ pQ, pQ, pP)
    else (Scaling.nttRowsX F TQ levelQ pQ, pQ, pP)

/-! ### small-norm extension -/

/-- `ringqp.Ring.ExtendBasisSmallNormAndCenter(polyInQ, levelP, polyOutQ, polyOutP)`: rows of polyOutP -/
def extendSmallNorm (q0 : Nat) (P : List Nat) (levelP : Nat) (row0 : List Nat) : Rows :=
  (List.range (levelP + 1)).map fun i => row0.map (extendSmallLimb q0 (P.getD i 0))

/-- `rlwe.ExtendBasisSmallNormAndCenterNTTMontgomery(rQ, rP, polQ, buff, polP)`: rows of polP -/
def extendSmallNormNTTMont (T0 : NTT.Tables) (TP : Scaling.Tabs) (P : List Nat) (levelP : Nat) (row0 : List Nat) : Rows :=
  let q0 := T0.q
  let b := (NTT.inttStd T0 row0).map fun x => IMForm x q0 T0.qinv
  (List.range (levelP + 1)).map fun i =>
    let T := Scaling.tab TP i
    let r := b.map (extendSmallLimbWrap q0 (P.getD i 0))
    (NTT.nttStd T r).map fun x => MForm x T.q T.bred

end Lattigo.BasisExt
