/-
  C17 — samplers as pure functions of the PRNG byte stream.  Common layer.

  * The PRNG (`sampling.PRNG`, an `io.Reader`) is a FINITE list of bytes; `prngRead s n` hands out
    the next `n` bytes or fails (`exhausted`) when fewer than `n` are left.  Every sampler of
    /repo/ring panics when the PRNG returns an error, so `exhausted` is a terminal outcome.
  * `Res` is the outcome of a call: `ok v`, `exhausted` (PRNG ran dry / fuel ran out) or `panic`
    (a Go run-time panic other than the PRNG error: index out of range, explicit `panic`).
  * Loops whose trip count depends on the bytes (rejection sampling, Knuth–Yao walk, ziggurat) are
    defined by structural recursion on a `fuel : Nat`; running out of fuel is reported as
    `exhausted`.  Each iteration consumes at least one bit/word of a finite stream, so the driver's
    fuel (`8 * stream.length + 4096`) is never the binding constraint; all theorems hold for every
    fuel.
  * A polynomial is the list of its rows (`pol.Coeffs`), each row a list of `uint64` values as `Nat`.
  Core Lean only.
-/
import Lattigo.Word
import Lattigo.Gen.ModRed
import Lattigo.Model.BRedConst
namespace Lattigo.Sampler
open Lattigo Lattigo.Gen

abbrev Bytes := List Nat
abbrev Poly := List (List Nat)

inductive Res (α : Type) where
  | ok (v : α)
  | exhausted
  | panic
  deriving Repr, BEq, DecidableEq

instance : Monad Res where
  pure := .ok
  bind x f := match x with
    | .ok v => f v
    | .exhausted => .exhausted
    | .panic => .panic

@[simp] theorem Res.bind_ok {α β} (v : α) (f : α → Res β) : (Res.ok v >>= f) = f v := rfl
@[simp] theorem Res.bind_exhausted {α β} (f : α → Res β) : (Res.exhausted >>= f) = .exhausted := rfl
@[simp] theorem Res.bind_panic {α β} (f : α → Res β) : (Res.panic >>= f) = .panic := rfl
@[simp] theorem Res.pure_eq {α} (v : α) : (pure v : Res α) = .ok v := rfl

/-- `prng.Read(buf)` with `len(buf) = n`: the bytes read and the remaining stream. -/
def prngRead (s : Bytes) (n : Nat) : Res (Bytes × Bytes) :=
  if s.length < n then .exhausted else .ok (s.take n, s.drop n)

/-- `binary.BigEndian.Uint64/Uint32` of the bytes of `b` (all of them). -/
def beNat (b : Bytes) : Nat := b.foldl (fun acc x => acc * 256 + x) 0
/-- `binary.LittleEndian.Uint64/Uint32` of the bytes of `b` (all of them). -/
def leNat : Bytes → Nat
  | [] => 0
  | x :: r => x + 256 * leNat r

/-- The function argument `f(a, b, c)` of the `read` methods. -/
inductive Mode where
  | read        -- `Read`:       `b`
  | readAndAdd  -- `ReadAndAdd`: `CRed(a+b, c)`
  deriving Repr, BEq, DecidableEq

def Mode.f (m : Mode) (a b c : Nat) : Nat :=
  match m with
  | .read => b
  | .readAndAdd => CRed (u64add a b) c

/-- `SubRing.Mask = (1 << bits.Len64(q-1)) - 1` (uint64 arithmetic). -/
def maskOf (q : Nat) : Nat := u64sub (u64shl 1 (len64 (u64sub q 1))) 1

/-- `ring.NewPoly()` at `rows` moduli. -/
def zeroPoly (rows N : Nat) : Poly := List.replicate rows (List.replicate N 0)

/-- rows `0 … level` updated by `g`, the rows above left as they are; Go panics with an index
    out of range when the polynomial has fewer than `level+1` rows. -/
def mapRowsLvl (g : Nat → List Nat → List Nat) : List Nat → Poly → Res Poly
  | [], rest => .ok rest
  | _ :: _, [] => .panic
  | q :: qs, row :: rest => do
      let t ← mapRowsLvl g qs rest
      pure (g q row :: t)

/-- `Ring.MForm(pol, pol)` at the moduli `qs` (rows above are untouched). -/
def mformPoly (qs : List Nat) (pol : Poly) : Res Poly :=
  mapRowsLvl (fun q row => row.map fun a => MForm a q (brc q)) qs pol

end Lattigo.Sampler
