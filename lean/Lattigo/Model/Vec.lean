/-
  Layer B of the twin: the vector kernels of ring/vec_ops.go as exposed by the SubRing methods of
  ring/subring_ops.go.  A kernel is the pointwise application of its (REGENERATED) lane function
  `Gen.K_lane`; the generated theorems `Gen.K_uniform` state that all 8 unrolled lanes of the Go
  loop are that function of their own index.  Core Lean only.
-/
import Lattigo.Gen.VecLanes
import Lattigo.Model.BRedConst

namespace Lattigo.Vec
open Lattigo Lattigo.Gen

/-- the constants a SubRing hands to its kernels -/
structure Sub where
  q    : Nat
  qinv : Nat
  bred : Nat × Nat
  deriving Repr, Inhabited

def mkSub (q : Nat) : Sub := { q := q, qinv := GenMRedConstant q, bred := brc q }

def map1 (f : Nat → Nat) (p1 : List Nat) : List Nat := p1.map f
def map2 (f : Nat → Nat → Nat) (p1 p2 : List Nat) : List Nat := List.zipWith f p1 p2
def map3 (f : Nat → Nat → Nat → Nat) (p1 p2 p3 : List Nat) : List Nat :=
  List.zipWith (fun (a : Nat) (bc : Nat × Nat) => f a bc.1 bc.2) p1 (List.zip p2 p3)

/-- SubRing method name ↦ result vector, following ring/subring_ops.go (which kernel, which
    constants, which argument order).  `p3` is the previous content of the output slice
    (needed by the accumulating kernels); `s0 s1` are the scalar arguments in Go order. -/
def op (s : Sub) (name : String) (p1 p2 p3 : List Nat) (s0 s1 : Nat) : Option (List Nat) :=
  let q := s.q; let qi := s.qinv; let br := s.bred
  match name with
  | "Add" => some <| map3 (fun a b c => addvec_lane a b c q) p1 p2 p3
  | "AddLazy" => some <| map3 (fun a b c => addlazyvec_lane a b c) p1 p2 p3
  | "Sub" => some <| map3 (fun a b c => subvec_lane a b c q) p1 p2 p3
  | "SubLazy" => some <| map3 (fun a b c => sublazyvec_lane a b c q) p1 p2 p3
  | "Neg" => some <| map2 (fun a c => negvec_lane a c q) p1 p3
  | "Reduce" => some <| map2 (fun a c => reducevec_lane a c q br) p1 p3
  | "ReduceLazy" => some <| map2 (fun a c => reducelazyvec_lane a c q br) p1 p3
  | "MulCoeffsLazy" => some <| map3 (fun a b c => mulcoeffslazyvec_lane a b c) p1 p2 p3
  | "MulCoeffsLazyThenAddLazy" => some <| map3 (fun a b c => mulcoeffslazythenaddlazyvec_lane a b c) p1 p2 p3
  | "MulCoeffsBarrett" => some <| map3 (fun a b c => mulcoeffsbarrettvec_lane a b c q br) p1 p2 p3
  | "MulCoeffsBarrettLazy" => some <| map3 (fun a b c => mulcoeffsbarrettlazyvec_lane a b c q br) p1 p2 p3
  | "MulCoeffsBarrettThenAdd" => some <| map3 (fun a b c => mulcoeffsthenaddvec_lane a b c q br) p1 p2 p3
  | "MulCoeffsBarrettThenAddLazy" => some <| map3 (fun a b c => mulcoeffsbarrettthenaddlazyvec_lane a b c q br) p1 p2 p3
  | "MulCoeffsMontgomery" => some <| map3 (fun a b c => mulcoeffsmontgomeryvec_lane a b c q qi) p1 p2 p3
  | "MulCoeffsMontgomeryLazy" => some <| map3 (fun a b c => mulcoeffsmontgomerylazyvec_lane a b c q qi) p1 p2 p3
  | "MulCoeffsMontgomeryThenAdd" => some <| map3 (fun a b c => mulcoeffsmontgomerythenaddvec_lane a b c q qi) p1 p2 p3
  | "MulCoeffsMontgomeryThenAddLazy" => some <| map3 (fun a b c => mulcoeffsmontgomerythenaddlazyvec_lane a b c q qi) p1 p2 p3
  | "MulCoeffsMontgomeryLazyThenAddLazy" => some <| map3 (fun a b c => mulcoeffsmontgomerylazythenaddlazyvec_lane a b c q qi) p1 p2 p3
  | "MulCoeffsMontgomeryThenSub" => some <| map3 (fun a b c => mulcoeffsmontgomerythensubvec_lane a b c q qi) p1 p2 p3
  | "MulCoeffsMontgomeryThenSubLazy" => some <| map3 (fun a b c => mulcoeffsmontgomerythensublazyvec_lane a b c q qi) p1 p2 p3
  | "MulCoeffsMontgomeryLazyThenSubLazy" => some <| map3 (fun a b c => mulcoeffsmontgomerylazythensublazyvec_lane a b c q qi) p1 p2 p3
  | "MulCoeffsMontgomeryLazyThenNeg" => some <| map3 (fun a b c => mulcoeffsmontgomerylazythenNegvec_lane a b c q qi) p1 p2 p3
  | "AddLazyThenMulScalarMontgomery" => some <| map3 (fun a b c => addlazythenmulscalarmontgomeryvec_lane a b s0 c q qi) p1 p2 p3
  | "AddScalarLazyThenMulScalarMontgomery" => some <| map2 (fun a c => addscalarlazythenmulscalarmontgomeryvec_lane a s0 s1 c q qi) p1 p3
  | "AddScalar" => some <| map2 (fun a c => addscalarvec_lane a s0 c q) p1 p3
  | "AddScalarLazy" => some <| map2 (fun a c => addscalarlazyvec_lane a s0 c) p1 p3
  | "AddScalarLazyThenNegTwoModulusLazy" => some <| map2 (fun a c => addscalarlazythenNegTwoModuluslazyvec_lane a s0 c q) p1 p3
  | "SubScalar" => some <| map2 (fun a c => subscalarvec_lane a s0 c q) p1 p3
  | "MulScalarMontgomery" => some <| map2 (fun a c => mulscalarmontgomeryvec_lane a s0 c q qi) p1 p3
  | "MulScalarMontgomeryLazy" => some <| map2 (fun a c => mulscalarmontgomerylazyvec_lane a s0 c q qi) p1 p3
  | "MulScalarMontgomeryThenAdd" => some <| map2 (fun a c => mulscalarmontgomerythenaddvec_lane a s0 c q qi) p1 p3
  | "MulScalarMontgomeryThenAddScalar" => some <| map2 (fun a c => mulscalarmontgomerythenaddscalarvec_lane a s0 s1 c q qi) p1 p3
  | "SubThenMulScalarMontgomeryTwoModulus" => some <| map3 (fun a b c => subthenmulscalarmontgomeryTwoModulusvec_lane a b s0 c q qi) p1 p2 p3
  | "MForm" => some <| map2 (fun a c => mformvec_lane a c q br) p1 p3
  | "MFormLazy" => some <| map2 (fun a c => mformlazyvec_lane a c q br) p1 p3
  | "IMForm" => some <| map2 (fun a c => imformvec_lane a c q qi) p1 p3
  | "ZeroVec" => some <| map1 (fun a => ZeroVec_lane a) p1
  | "MaskVec" => some <| map2 (fun a c => MaskVec_lane a s0 s1 c) p1 p3
  | _ => none

end Lattigo.Vec
