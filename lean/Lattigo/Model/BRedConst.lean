/-
  Model of `ring.GenBRedConstant` (/repo/ring/modular_reduction.go), which uses math/big and is
  therefore not printed by go2lean:

      bigR := 2^128;  bigR.Quo(bigR, q);  mlo := bigR.Uint64();  mhi := bigR.Rsh(bigR, 64).Uint64()
      return [2]uint64{mhi, mlo}

  `big.Int.Uint64()` returns the low 64 bits, hence the two `% W`.  For `q = 1` the high word
  is `2^64` and wraps to `0` (the constant is then useless); for every `q ≥ 2` the `% W` on the
  high word is the identity (`brc_fst`, in Proofs/ModRed.lean).
  Core-only, executable.
-/
import Lattigo.Word
namespace Lattigo

/-- `GenBRedConstant q = [2]uint64{ ⌊2^128/q⌋ >> 64, ⌊2^128/q⌋ mod 2^64 }`. -/
def brc (q : Nat) : Nat × Nat := ((W * W / q) / W % W, (W * W / q) % W)

end Lattigo
