/-
  C17 — `ring.TernarySampler` (/repo/ring/sampler_ternary.go) as a function of the PRNG bytes.

  The sampler holds no byte buffer of its own: a sampler and its `AtLevel` views share only the
  PRNG (`stream`).  The Go loops treat one coefficient at a time and write it to every modulus
  (`for i … { index = …; for j, qi := range moduli { pol.Coeffs[j][i] = f(…, lut[j][index], qi) } }`);
  the model first computes the whole index vector from the bytes and then writes the rows — the
  same values, since the polynomial's content never feeds back into the sampling.
  Core Lean only.
-/
import Lattigo.Model.Sampler
import Lattigo.Model.SamplerFloat
namespace Lattigo.Sampler
open Lattigo Lattigo.Gen

/-- `ternarySamplerPrecision` -/
def ternPrec : Nat := 56

/-- `matrixValues[i]` for modulus `q`: `[0, 1, q-1]`, in Montgomery form if asked. -/
def ternLut (mont : Bool) (q : Nat) : List Nat :=
  if mont then [0, MForm 1 q (brc q), MForm (u64sub q 1) q (brc q)] else [0, 1, u64sub q 1]

/-- `index = (coeff & (sign ^ 1)) | ((sign & coeff) << 1)`: 0 ↦ 0, (1,+) ↦ 1, (1,−) ↦ 2 -/
def ternIndex (coeff sign : Nat) : Nat :=
  u64or (u64and coeff (u64xor sign 1)) (u64shl (u64and sign coeff) 1)

/-- write an index vector to the rows `0 … level` of `pol` -/
def ternApply (m : Mode) (mont : Bool) (qs : List Nat) (pol : Poly) (idx : List Nat) : Res Poly :=
  mapRowsLvl (fun q row =>
    List.zipWith (fun a ix => m.f a ((ternLut mont q).getD ix 0) q) row idx) qs pol

/-- `NewTernarySampler`: does the constructor accept `Ternary{P, H}`?  (`P` as float64 bit pattern,
    not NaN.)  `case X.H < 0 || X.P < 0 || X.P > 1: error; case X.P != 0 && X.H == 0: density;
    case X.P == 0 && X.H != 0: fixed weight; default: error`. -/
def ternCtorOK (pBits : Nat) (H : Int) : Bool :=
  let neg := decide (pBits ≥ 2 ^ 63)
  let mag := pBits % 2 ^ 63
  let isZero := decide (mag = 0)
  let pNeg := neg && !isZero
  let pGt1 := !neg && decide (mag > 0x3FF0000000000000)
  if decide (H < 0) || pNeg || pGt1 then false
  else if !isZero && decide (H = 0) then true
  else if isZero && decide (H ≠ 0) then true
  else false

/-! ### density `P`, `invDensity = 1 - P` -/

/-- `1 - X.P` (float64), as scaled natural; argument: the bit pattern of `X.P` -/
def invDensity (pBits : Nat) : Nat := SF.sub SF.one (SF.ofBits64 pBits)

/-- one row of `computeMatrixTernary`: `x = uint64(g * 2^56)`, bits 55 … 1 of `x` -/
def probaRow (g : Nat) : List Nat :=
  let x := SF.trunc (g * 2 ^ ternPrec) % W
  (List.range (ternPrec - 1)).map fun j => u64and (u64shr x (ternPrec - j - 1)) 1

/-- `matrixProba`: row 0 from `p`, row 1 from `1 - p`; all zero when `p = 0.5` (never computed) -/
def probaMatrix (p : Nat) : List Nat × List Nat :=
  if p = SF.half then (List.replicate (ternPrec - 1) 0, List.replicate (ternPrec - 1) 0)
  else (probaRow p, probaRow (SF.sub SF.one p))

/-- the `p = 0.5` branch of `sampleProba`: `N>>3` coefficient bytes then `N>>3` sign bytes -/
def probaHalfIdx (N : Nat) (s : Bytes) : Res (List Nat × Bytes) := do
  let (cb, s) ← prngRead s (N / 8)
  let (sb, s) ← prngRead s (N / 8)
  let idx := (List.range N).map fun i =>
    let coeff := u64and (u64shr (cb.getD (i / 8) 0) (i % 8)) 1
    let sign := u64and (u64shr (sb.getD (i / 8) 0) (i % 8)) 1
    ternIndex coeff sign
  pure (idx, s)

/-- state of the Knuth–Yao walk: the `N` random bytes, the byte pointer, the PRNG -/
structure KY where
  rb : Bytes
  bp : Nat
  stream : Bytes
  deriving Repr, BEq, DecidableEq

/-- `bytePointer++; if bytePointer >= byteLength { bytePointer = 0; prng.Read(randomBytes) }` -/
def kyNextByte (N : Nat) (k : KY) : Res KY :=
  if k.bp + 1 ≥ N then do
    let (rb, s) ← prngRead k.stream N
    pure { rb := rb, bp := 0, stream := s }
  else .ok { k with bp := k.bp + 1 }

/-- the hit: `d == -1` in row `row` at bit `i`; reads the sign, returns
    `(row, sign, pointer + 1, state)`.  AS CODED: for `i < 7` the sign is bit `i+1` of the current
    byte and the returned pointer is `i+1` too (`pointer = i; … return …, pointer + 1, …`): the next
    walk starts ON the sign bit (known finding C17/ternary-ky-sign-bit-reused). -/
def kyHit (N : Nat) (row i : Nat) (k : KY) : Res (Nat × Nat × Nat × KY) :=
  if i = 7 then do
    let k ← kyNextByte N k
    pure (row, u64and (k.rb.getD k.bp 0) 1, 1, k)
  else
    .ok (row, u64and (u64shr (k.rb.getD k.bp 0) (i + 1)) 1, i + 1, k)

/-- `kysampling`: the walk over the bits, `i` the bit index in the current byte, `d` the distance,
    `col` the column.  A restart (`d > colLen-1` with `colLen = len(matrixProba) = 2`, or the columns
    used up: `col >= len(matrixProba[0]) = 55`) re-enters at the SAME bit with `d = 0, col = 0`. -/
def kyWalk (M : List Nat × List Nat) (N : Nat) : Nat → Nat → Int → Nat → KY → Res (Nat × Nat × Nat × KY)
  | 0, _, _, _, _ => .exhausted
  | fuel + 1, i, d, col, k =>
    if i ≥ 8 then
      -- end of the `for i := pointer; i < 8; i++`: next byte
      kyNextByte N k >>= fun k => kyWalk M N fuel 0 d col k
    else
      let bit : Nat := u64and (u64shr (k.rb.getD k.bp 0) i) 1
      let d : Int := 2 * d + 1 - (bit : Int)
      if d > 1 ∨ col ≥ ternPrec - 1 then kyWalk M N fuel i 0 0 k
      else
        let d := d - (M.2.getD col 0 : Nat)
        if d = -1 then kyHit N 1 i k
        else
          let d := d - (M.1.getD col 0 : Nat)
          if d = -1 then kyHit N 0 i k
          else kyWalk M N fuel (i + 1) d (col + 1) k

/-- the `for i := 0; i < N; i++ { coeff, sign, … = ts.kysampling(…) }` loop -/
def kyLoop (M : List Nat × List Nat) (N fuel : Nat) : Nat → Nat → KY → Res (List Nat × KY)
  | 0, _, k => .ok ([], k)
  | n + 1, pointer, k => do
      let (coeff, sign, pointer, k) ← kyWalk M N fuel pointer 0 0 k
      let (t, k) ← kyLoop M N fuel n pointer k
      pure (ternIndex coeff sign :: t, k)

/-- the general branch of `sampleProba` (`n` coefficients, `n = N` in a complete call) -/
def probaKYIdx (M : List Nat × List Nat) (N fuel : Nat) (n : Nat) (s : Bytes) : Res (List Nat × Bytes) := do
  let (rb, s) ← prngRead s N
  let (idx, k) ← kyLoop M N fuel n 0 { rb := rb, bp := 0, stream := s }
  pure (idx, k.stream)

/-- the sampling half of `sampleProba` (`n` coefficients; `n = N` in a complete call): it depends
    neither on the mode nor on the Montgomery flag -/
def probaIdx (fuel p N n : Nat) (s : Bytes) : Res (List Nat × Bytes) :=
  if p = SF.half then probaHalfIdx N s else probaKYIdx (probaMatrix p) N fuel n s

/-- `sampleProba(pol, f)`; `p` is `invDensity` -/
def ternProba (fuel : Nat) (m : Mode) (mont : Bool) (p : Nat) (N : Nat) (qs : List Nat) (pol : Poly)
    (s : Bytes) : Res (Poly × Bytes) :=
  if p = 0 then .panic
  else if pol.length < qs.length then
    -- index out of range at `pol.Coeffs[len(pol.Coeffs)][0]`: after the first coefficient is drawn
    probaIdx fuel p N 1 s >>= fun _ => .panic
  else
    probaIdx fuel p N N s >>= fun (idx, s) =>
    ternApply m mont qs pol idx >>= fun r => .ok (r, s)

/-! ### fixed Hamming weight -/

/-- `randInt32(prng, mask)` -/
def randInt32 (mask : Nat) (s : Bytes) : Res (Nat × Bytes) := do
  let (b, s) ← prngRead s 4
  pure (u64and mask (beNat b), s)

/-- `j = randInt32(prng, mask); for j >= bound { j = randInt32(prng, mask) }` -/
def drawBelow (mask bound : Nat) : Nat → Bytes → Res (Nat × Bytes)
  | 0, _ => .exhausted
  | fuel + 1, s =>
    randInt32 mask s >>= fun (j, s) =>
    if j ≥ bound then drawBelow mask bound fuel s else .ok (j, s)

/-- `index[j] = index[len(index)-1]; index = index[:len(index)-1]` -/
def swapRemove (index : List Nat) (j : Nat) : List Nat :=
  (index.set j (index.getD (index.length - 1) 0)).dropLast

/-- the `for i := 0; i < ts.hw; i++` loop: `n` iterations left, `i` the iteration number;
    returns the selected `(position, sign bit)` pairs in order and the remaining `index`. -/
def sparseLoop (fuel N : Nat) : Nat → Nat → List Nat → Bytes → Bytes →
    Res (List (Nat × Nat) × List Nat × Bytes)
  | 0, _, index, _, s => .ok ([], index, s)
  | n + 1, i, index, rbs, s => do
      let mask := u64sub (u64shl 1 (len64 (N - i))) 1
      let (j, s) ← drawBelow mask (N - i) fuel s
      let coeff := u64and (u64shr (rbs.getD 0 0) (i % 8)) 1
      let idxj := index.getD j 0
      let index := swapRemove index j
      let rbs := if i % 8 = 7 then rbs.drop 1 else rbs
      let (t, index, s) ← sparseLoop fuel N n (i + 1) index rbs s
      pure ((idxj, coeff) :: t, index, s)

/-- `coeffs[k][idxj] = f(coeffs[k][idxj], m[k][coeff+1], qi)` for the selected positions in order,
    then `coeffs[k][i] = f(coeffs[k][i], 0, qi)` for the positions left in `index` -/
def sparseRow (m : Mode) (lut : List Nat) (q : Nat) (sel : List (Nat × Nat)) (rest : List Nat)
    (row : List Nat) : List Nat :=
  let row := sel.foldl (fun r (pc : Nat × Nat) => r.set pc.1 (m.f (r.getD pc.1 0) (lut.getD (pc.2 + 1) 0) q)) row
  rest.foldl (fun r i => r.set i (m.f (r.getD i 0) 0 q)) row

/-- `if ts.hw > N { ts.hw = N }` -/
def clipHW (hw N : Nat) : Nat := if hw > N then N else hw

/-- `sampleSparse(pol, f)` with `ts.hw = hw` (`hw ≥ 0`) -/
def ternSparse (fuel : Nat) (m : Mode) (mont : Bool) (hw : Nat) (N : Nat) (qs : List Nat) (pol : Poly)
    (s : Bytes) : Res (Poly × Bytes) :=
  prngRead s ((clipHW hw N + 7) / 8) >>= fun (rbs, s) =>
  if pol.length < qs.length then
    -- index out of range at the first write: after the first position is drawn
    sparseLoop fuel N (min (clipHW hw N) 1) 0 (List.range N) rbs s >>= fun _ => .panic
  else
    sparseLoop fuel N (clipHW hw N) 0 (List.range N) rbs s >>= fun (sel, rest, s) =>
    mapRowsLvl (fun q row => sparseRow m (ternLut mont q) q sel rest row) qs pol >>= fun r =>
    .ok (r, s)

end Lattigo.Sampler
