/-
  C16 — collective key switching, share conversion and refresh, scheme-level model.

  Follows /repo/multiparty/{keyswitch_sk,keyswitch_pk,refresh,additive_shares}.go,
  /repo/multiparty/mpbgv/{sharing,refresh,transform}.go, /repo/multiparty/mpckks/{sharing,refresh,
  transform,utils}.go.

  The algebra is generic over a carrier `α` (`[Add α] [Mul α] [Neg α] [Sub α]`); the zero secret key
  used by the share-conversion protocols is an explicit argument `zero`.  Executed on `RPoly`.
  Plaintext-space maps (BGV: `RingT2Q`/`RingQ2T`; CKKS: big-integer coefficient vectors, scaling) are
  concrete functions on `RPoly`/`Int` at the end of the file.  Core Lean only.
-/
import Lattigo.Model.MPShare

namespace Lattigo.MP

section generic
variable {α : Type} [Add α] [Mul α] [Neg α] [Sub α]

/-! ## Collective key switching (keyswitch_sk.go) -/

/-- `KeySwitchProtocol.GenShare`: `c1·(s_in − s_out) + e` -/
def cksShare (c1 sIn sOut e : α) : α := c1 * (sIn - sOut) + e

/-- a `KeySwitchShare` with its level -/
structure LShare (α : Type) where
  level : Nat
  v : α
  deriving Repr, BEq, DecidableEq

/-- `KeySwitchProtocol.AggregateShares(share1, share2, &shareOut)` -/
def cksAggregate (s1 s2 s3 : LShare α) : Res (LShare α) :=
  if s1.level ≠ s2.level ∨ s1.level ≠ s3.level then .err else .ok ⟨s3.level, s1.v + s2.v⟩

/-- `KeySwitchProtocol.KeySwitch`: `(c0 + Σ shares, c1)` at the level of the ciphertext; a combined
    share below that level makes `ring.Add` index out of range -/
def cksKeySwitch (ctLevel : Nat) (c0 c1 : α) (agg : LShare α) : Res (α × α) :=
  if agg.level < ctLevel then .panic else .ok (c0 + agg.v, c1)

/-- level of the output of an out-of-place `KeySwitch` (both protocols): the receiver is resized to
    the level of the input ciphertext, whatever level it was allocated at -/
def ksOutLevel (ctLevel _recvLevel : Nat) : Nat := ctLevel

/-! ## Collective public-key switching (keyswitch_pk.go) -/

/-- `Encryptor.encryptZeroPk` over `Q·p₀` followed by `ModDownQPtoQ`:
    `P⁻¹·((u·pk + e) − δ)` where `δ` is the centred lift of `(u·pk + e) mod p₀` -/
def encZeroPk (pinv pk0 pk1 u e0 e1 d0 d1 : α) : α × α :=
  (pinv * ((u * pk0 + e0) - d0), pinv * ((u * pk1 + e1) - d1))

/-- `Encryptor.encryptZeroPkNoP` -/
def encZeroPkNoP (pk0 pk1 u e0 e1 : α) : α × α := (u * pk0 + e0, u * pk1 + e1)

/-- `PublicKeySwitchProtocol.GenShare`: `(z0 + c1·s + e, z1)` with `z` a fresh encryption of zero
    under the target public key -/
def pcksShare (z : α × α) (c1 s e : α) : α × α := ((z.1 + c1 * s) + e, z.2)

def pcksAggregate (x y : α × α) : α × α := (x.1 + y.1, x.2 + y.2)

/-- `PublicKeySwitchProtocol.KeySwitch`: `(c0 + Σ h0, Σ h1)` -/
def pcksKeySwitch (c0 : α) (agg : α × α) : α × α := (c0 + agg.1, agg.2)

/-! ## Encryption-to-shares / shares-to-encryption (mp*/sharing.go) -/

/-- `EncToShareProtocol.GenShare`, public part: key-switch share to the ZERO key minus the mask
    embedded in `R_Q` (`m`: BGV `t⁻¹·M`, CKKS the integer mask) -/
def e2sShare (zero c1 s e m : α) : α := cksShare c1 s zero e - m

/-- `EncToShareProtocol.GetShare`: the masked plaintext `c0 + Σ public shares` (still in `R_Q`) -/
def e2sMasked (c0 agg : α) : α := agg + c0

/-- `ShareToEncProtocol.GenShare`: key-switch share FROM the zero key on the CRP, plus the share -/
def s2eShare (zero a s e m : α) : α := cksShare a zero s e + m

/-- `ShareToEncProtocol.GetEncryption` -/
def s2eEncryption (agg a : α) : α × α := (agg, a)

/-! ## Refresh / masked transform (mp*/refresh.go, transform.go) -/

/-- one party's refresh share: decryption share with mask `m`, re-encryption share with `m'`
    (`m' = m` for refresh, the transformed mask otherwise) -/
def refreshShare (zero c1 a sIn sOut e1 e2 m m' : α) : α × α :=
  (e2sShare zero c1 sIn e1 m, s2eShare zero a sOut e2 m')

def refreshAggregate (x y : α × α) : α × α := (x.1 + y.1, x.2 + y.2)

/-- `Transform`/`Finalize`: `(pt' + Σ s2e, a)` where `pt'` is the re-embedded (transformed)
    masked plaintext -/
def refreshFinalize (pt' aggS2E a : α) : α × α := (pt' + aggS2E, a)

end generic

/-! ## Concrete plaintext-space maps -/

open Lattigo

/-- coefficient vector placed with a gap: `v[i]` at position `i·gap` of `n` coefficients -/
def spread (n gap : Nat) (v : List Int) : List Int :=
  (List.range n).map fun j => if j % gap == 0 then v.getD (j / gap) 0 else 0

/-- BGV `Encoder.RingT2Q(level, scaleUp = true, …)`: the mask `M ∈ R_t` (coefficients in `[0,t)`)
    embedded in `R_Q` and multiplied by `t⁻¹ mod Q` -/
def ringT2Q (qs : List Nat) (n t : Nat) (M : List Nat) : RPoly :=
  let gap := n / M.length
  let v := spread n gap (M.map Int.ofNat)
  { qs := qs, c := qs.map fun q =>
      let tinv := RPoly.modInv (t % q) q
      v.map fun x => (x.toNat % q) * tinv % q }

/-- BGV `Encoder.RingQ2T(level, scaleDown = true, …)` on one coefficient given by its CRT value:
    multiply by `t` modulo `Q`, centre, reduce modulo `t` -/
def q2tCoeff (Q t x : Nat) : Nat :=
  let y := (x * t % Q + Q / 2) % Q
  (y % t + t - (Q / 2) % t) % t

def ringQ2T (t nT : Nat) (p : RPoly) : List Nat :=
  let Q := RPoly.prod p.qs
  let cols := RPoly.transpose p.c
  let n := cols.length
  let gap := n / nT
  (List.range nT).map fun i => q2tCoeff Q t (RPoly.crt p.qs (cols.getD (i * gap) []))

/-- addition in `R_t` -/
def addT (t : Nat) (x y : List Nat) : List Nat := List.zipWith (fun a b => (a + b) % t) x y

/-- CKKS: integer coefficient vector (`SetCoefficientsBigint` + sparse NTT embedding) -/
def ofBigints (qs : List Nat) (n gap : Nat) (v : List Int) : RPoly := RPoly.ofInts qs (spread n gap v)

/-- CKKS `PolyToBigintCentered(p, gap, ·)` -/
def toBigints (p : RPoly) (gap cnt : Nat) : List Int :=
  let ints := RPoly.toInts p
  (List.range cnt).map fun i => ints.getD (i * gap) 0

/-- CKKS `applyTransformAndScale` without transform: `mask·defaultScale / inputScale` (big.Int.Quo,
    truncated towards zero) -/
def rescaleMask (defaultScale inputScale : Int) (mask : List Int) : List Int :=
  mask.map fun m => Int.tdiv (m * defaultScale) inputScale

/-- `ModDownQPtoQ` with the single auxiliary prime `p` (rows `qs ++ [p]` → rows `qs`):
    the centred lift `δ` of the `p` row and `p⁻¹` per prime of Q -/
def centredLiftP (qs : List Nat) (p : Nat) (x : RPoly) : RPoly :=
  let rowP := x.c.getD qs.length []
  let d : List Int := rowP.map fun v => (Int.ofNat ((v + p / 2) % p)) - Int.ofNat (p / 2)
  RPoly.ofInts qs d

def pinvPoly (qs : List Nat) (p n : Nat) : RPoly :=
  constPoly qs n (qs.map fun q => RPoly.modInv (p % q) q)

def dropRow (x : RPoly) (k : Nat) : RPoly := { qs := x.qs.take k, c := x.c.take k }

/-! ## `mpckks.GetMinimumLevelForRefresh` in exact arithmetic

  The code computes `logBound = λ + ⌈log2 scale⌉`, `maxBound = ⌈logBound + log2 nParties⌉` and adds
  `log2 q_i` until the sum reaches `maxBound` (floating point).  Since `logBound` is an integer,
  `maxBound = logBound + ⌈log2 nParties⌉`, and "Σ log2 q_i ≥ maxBound" is `Π q_i ≥ 2^maxBound`:
  the minimum level is the smallest `L` with `q_0⋯q_L ≥ 2^(logBound + ⌈log2 nParties⌉)`, which is
  what the `nParties` masks of `logBound` bits need (`nParties·2^logBound ≤ Q_L`). -/

/-- `⌈log2 n⌉` for `n ≥ 1` (`0` for `n ≤ 1`): the least `k` with `n ≤ 2^k` -/
def clog2 (n : Nat) : Nat := if n ≤ 1 then 0 else Nat.log2 (n - 1) + 1

/-- number of primes consumed by the loop: least `k` with `acc·q_0⋯q_{k-1} ≥ bound`, `none` if the
    chain is too short -/
def primesNeeded (bound : Nat) : Nat → List Nat → Option Nat
  | acc, qs =>
    if bound ≤ acc then some 0
    else match qs with
      | [] => none
      | q :: rest => (primesNeeded bound (acc * q) rest).map (· + 1)

/-- `(minLevel, logBound)`; `minLevel = −1` when no prime is needed (`maxBound = 0`) -/
def minLevelForRefresh (lambda scale nParties : Nat) (moduli : List Nat) : Option (Int × Nat) :=
  let logBound := lambda + clog2 scale
  match primesNeeded (2 ^ (logBound + clog2 nParties)) 1 moduli with
  | none => none
  | some k => some ((k : Int) - 1, logBound)

/-- The centred-mask no-wrap condition at the level returned by `GetMinimumLevelForRefresh`:
    every mask lies in `[−2^(logBound−1), 2^(logBound−1))`, the plaintext coefficients are below `2^msgBits`;
    the masked plaintext `m − Σ M_i` is recovered without wrapping modulo `Q_minLevel` as soon as
    `2·(n·2^(logBound−1) + 2^msgBits) < Q_minLevel`.  (The minimum level only guarantees
    `n·2^logBound ≤ Q_minLevel`: the room for the message comes from the slack `Q_minLevel − n·2^logBound`.) -/
def noWrapAtMinLevel (lambda scale nParties : Nat) (moduli : List Nat) (msgBits : Nat) :
    Option (Int × Nat × Bool) :=
  match minLevelForRefresh lambda scale nParties moduli with
  | none => none
  | some (ml, lb) =>
    let q := (moduli.take (ml + 1).toNat).foldl (· * ·) 1
    some (ml, lb, decide (2 * (nParties * 2 ^ (lb - 1) + 2 ^ msgBits) < q))

end Lattigo.MP
