/-
  C04 — key switching (model of core/rlwe/evaluator_gadget_product.go,
  evaluator_evaluationkey.go, evaluator_automorphism.go, ring/basis_extension.go
  [Decomposer.DecomposeAndSplit, ModUpPtoQ, ModDownQPtoQ]).  Core Lean only.

  GENERIC layer (any carrier with + * − neg): inner product of the digit matrix with the key,
  division by `P` once the centred remainder `ρ` is known, and the three users of the gadget
  product (`applyEvaluationKey`, `relinearize`, `automorphism{,Hoisted,HoistedLazy}`).

  EXECUTABLE layer on `RPoly`: the digit decomposition exactly as coded (which RNS rows form a
  group, the two different centring conventions of `DecomposeAndSplit`, the shift/mask digits), the centred lift
  `ModUpPtoQ`, and `ModDownQPtoQ`.

  Values are canonical (coefficient domain, reduced): NTT and Montgomery forms are invisible at this level
  (C01/C02).  The lazy `uint64` accumulation with its reduction schedule (`QiOverflowMargin >> 1`) is modelled
  separately at WORD level (`gpLazyLimb`, tie `gplazyw`, no-wrap theorems in `Proofs/KeySwitchLazy`).
  The float index `v = uint64(Σ float64(y_i)/float64(q_i))` of `reconstructRNS{,Centered}` is computed with Lean
  `Float` (IEEE double, same operations in the same order: `floatIndex`), so the model is bit-exact also where the
  float sum lands on the wrong side of an integer (centred boundaries); the phase theorems hold for EVERY value of
  that index (`C04Stack`), only the size of the remainder needs it to be the exact floor (`FloatExactPoly`).
-/
import Lattigo.Model.Gadget
import Lattigo.Model.RGSW

namespace Lattigo.KS

/-! ## Generic layer -/

section generic
variable {α : Type} [Add α] [Mul α] [Neg α] [Sub α]

/-- `Σ_j x_j·(b_j, a_j)` along one key row (`z` is the zero of the carrier) -/
def dotRow (z : α) : List α → List (α × α) → α × α
  | x :: xs, (b, a) :: ks => let r := dotRow z xs ks; (x * b + r.1, x * a + r.2)
  | _, _ => (z, z)

/-- the gadget product before division by `P`: `Σ_{i,j} d_{ij}·evk[i][j]` (both components);
    the sums run over the common shape of `d` and `evk` -/
def dotMat (z : α) : List (List α) → List (List (α × α)) → α × α
  | di :: ds, ei :: es =>
      let r := dotRow z di ei
      let r' := dotMat z ds es
      (r.1 + r'.1, r.2 + r'.2)
  | _, _ => (z, z)

/-- `Σ_j x_j·y_j` -/
def wsumRow (z : α) : List α → List α → α
  | x :: xs, y :: ys => x * y + wsumRow z xs ys
  | _, _ => z

/-- `Σ_{i,j} x_{ij}·y_{ij}` -/
def wsumMat (z : α) : List (List α) → List (List α) → α
  | x :: xs, y :: ys => wsumRow z x y + wsumMat z xs ys
  | _, _ => z

/-- `GadgetProductHoistedLazy`: the caller supplies the RNS digits (`DecomposeNTT`), only the entry
    `j = 0` of every key row is used (the code rejects `BaseTwoDecomposition ≠ 0`). -/
def gadgetProductHoistedLazy (z : α) (decomp : List α) (evk : List (List (α × α))) : α × α :=
  dotMat z (decomp.map fun d => [d]) (evk.map fun r => r.take 1)

/-- `ModDownQPtoQ` on one polynomial, given the centred lift `rho` of its `P` part
    (`ModUpPtoQ`) and `pinv = P⁻¹ (mod Q)`: `(xQ − ρ)·P⁻¹` -/
def modDown (pinv xQ rho : α) : α := (xQ - rho) * pinv

/-- `applyEvaluationKey`: `ks` is the (ModDown-ed) gadget product of `ct.2` -/
def applyEvaluationKey (ks ct : α × α) : α × α := (ct.1 + ks.1, ks.2)

/-- `Relinearize`: `ks` is the gadget product of the degree-2 term `ct.2.2` with the
    relinearisation key -/
def relinearize (ks : α × α) (ct : α × α × α) : α × α := (ct.1 + ks.1, ct.2.1 + ks.2)

/-- `Automorphism` / `AutomorphismHoisted`: key switch with the key for `galEl`
    (which re-encrypts under `σ⁻¹(s)`), add `c0`, then apply `σ` to both components -/
def automorphism (σ : α → α) (ks ct : α × α) : α × α := (σ (ks.1 + ct.1), σ ks.2)

/-- `AutomorphismHoistedLazy`: no division by `P`; `c0` is scaled by `P` (`pc0 = P·c0`, living on the
    Q rows) and added to the first component before `σ`; the result is modulo `QP`. -/
def automorphismHoistedLazy (σ : α → α) (x : α × α) (pc0 : α) : α × α := (σ (x.1 + pc0), σ x.2)

/-- `ApplyEvaluationKey` to a LARGER ring degree: the input (small ring `β`) is first mapped into the
    large ring by `ι : Y ↦ X^{N/n}` (`SwitchCiphertextRingDegree{,NTT}`), then key-switched there with a
    key from `ι(s_small)` to `s_large`; `ksOf c1` is the gadget product of the mapped `c1`. -/
def applyEvaluationKeyUp {β : Type} (ι : β → α) (ksOf : α → α × α) (ct : β × β) : α × α :=
  let c : α × α := (ι ct.1, ι ct.2)
  applyEvaluationKey (ksOf c.2) c

/-- `ApplyEvaluationKey` to a SMALLER ring degree: key switch in the large ring (key from `s_large` to
    `ι(s_small)`), then keep the coefficients of `X^{k·N/n}` (`ρ`). -/
def applyEvaluationKeyDown {β : Type} (ρ : α → β) (ks ct : α × α) : β × β :=
  let r := applyEvaluationKey ks ct
  (ρ r.1, ρ r.2)

end generic

/-! ## Executable layer on `RPoly` -/

open RPoly

/-- column view: the residues of coefficient `t` on the given rows -/
def colOf (rows : List (List Nat)) (t : Nat) : List Nat := rows.map fun r => r.getD t 0

/-- the float index of `reconstructRNS{,Centered}`: `v = uint64(Σ_i float64(y_i)/float64(q_i))`, the
    additions performed left to right starting from `0.0` (IEEE double, as in the Go code) -/
def floatIndex (ms ys : List Nat) : Nat :=
  let vi := (ms.zip ys).foldl
    (fun (acc : Float) (m, y) => acc + (UInt64.ofNat y).toFloat / (UInt64.ofNat m).toFloat) 0.0
  vi.toUInt64.toNat

/-- the `y_i` of `reconstructRNS{,Centered}`: `y_i = (r_i + h)·(M/m_i)⁻¹ mod m_i` (`h` = the additive shift
    `⌊M/2⌋`, already added to the residues by `AddScalarBigint` in `ModUpPtoQ`, added inside
    `reconstructRNSCentered` in `DecomposeAndSplit`) -/
def reconY (ms rs : List Nat) (h : Nat) : List Nat :=
  let M := RPoly.prod ms
  (ms.zip rs).map fun (m, r) => (r + h) % m * RPoly.modInv ((M / m) % m) m % m

/-- what `reconstructRNS{,Centered}` + `multSum` + the final `SubScalarBigint(⌊M/2⌋)` compute, as an
    integer: `Σ_i y_i·(M/m_i) − v·M − ⌊M/2⌋`, with `v` the float index.  When `v = ⌊Σ y_i/m_i⌋` this is
    the centred representative of the input in `[−⌊M/2⌋, M−1−⌊M/2⌋]`; if the float sum lands on the
    wrong side of an integer it is that value `± M` (still congruent to the input modulo `M`). -/
def centerHalfV (v : Nat) (ms ys : List Nat) : Int :=
  let M := RPoly.prod ms
  let s := (ms.zip ys).foldl (fun acc (m, y) => acc + y * (M / m)) 0
  (s : Int) - ((v * M : Nat) : Int) - ((M / 2 : Nat) : Int)

def centerHalf (ms rs : List Nat) : Int :=
  let ys := reconY ms rs (RPoly.prod ms / 2)
  centerHalfV (floatIndex ms ys) ms ys

/-- centring of the copy branch of `DecomposeAndSplit` (`coeff >= q>>1 ⇒ negative`) -/
def centerSingle (q x : Nat) : Int := if x ≥ q / 2 then (x : Int) - (q : Int) else (x : Int)

/-- `Decomposer.DecomposeAndSplit(levelQ, levelP, nbPi, i, c, ·, ·)` followed (for the multi-`P` path)
    by the in-group copy of `DecomposeSingleNTT`: the RNS digit `i` of `c` as an element of
    `R_{Q_ℓ P}`.  `c` lives on `qsQ.take (levelQ+1)`. -/
def decomposeRNS (qsP : List Nat) (nbPi i : Nat) (c : RPoly) : RPoly :=
  let levelQ := c.qs.length - 1
  let n := (c.c.headD []).length
  let start := i * nbPi
  let decompLvl : Int :=
    if levelQ + 1 > nbPi * (i + 1) then (nbPi : Int) - 2 else ((levelQ % nbPi : Nat) : Int) - 1
  let qsOut := c.qs ++ qsP
  if decompLvl < 0 then
    let q := c.qs.getD start 1
    let row := c.c.getD start []
    ofInts qsOut (row.map fun x => centerSingle q x)
  else
    let ed := min (start + nbPi) (levelQ + 1)
    let gq := (c.qs.drop start).take (ed - start)
    let grows := (c.c.drop start).take (ed - start)
    ofInts qsOut ((List.range n).map fun t => centerHalf gq (colOf grows t))

/-- digit `j` in base `2^w` of `x`, as `ring.MaskVec` computes it: `(x >> (j·w)) & (2^w − 1)` -/
def bitDigit (w j x : Nat) : Nat := (x >>> (j * w)) &&& (2 ^ w - 1)

/-- `ring.MaskVec(c[i], j·w, 2^w − 1, cw)`: digit `j` in base `2^w` of the residues modulo `q_i`, used
    as the same small non-negative polynomial on every row of `Q_ℓ P` -/
def decomposeBits (qsP : List Nat) (w i j : Nat) (c : RPoly) : RPoly :=
  let row := c.c.getD i []
  ofInts (c.qs ++ qsP) (row.map fun x => ((bitDigit w j x : Nat) : Int))

/-- the digit matrix consumed by `GadgetProductLazy` for a key with `nP` special primes, base `2^w`
    and row lengths `nJ` (the KEY's `BaseTwoDecompositionVectorSize`): dispatch exactly as coded —
    `levelP > 0` ⇒ `gadgetProductMultiplePLazy`, else `gadgetProductSinglePAndBitDecompLazy` with
    `mask = 2^w − 1` (`mask = 0` ⇒ RNS digits via `DecomposeAndSplit(…, nbPi = 1, …)`: one prime per digit,
    also for a key without `P`; fix C04-2 — before the fix `nbPi = levelP+1`, i.e. `0` without `P`). -/
def decompose (qsP : List Nat) (w : Nat) (nJ : List Nat) (c : RPoly) : List (List RPoly) :=
  let levelQ := c.qs.length - 1
  let nP := qsP.length
  if nP ≥ 2 then
    (List.range (baseRNSDecompositionVectorSize levelQ nP)).map fun i => [decomposeRNS qsP nP i c]
  else
    (List.range (levelQ + 1)).map fun i =>
      if 2 ^ w - 1 = 0 then List.replicate (nJ.getD i 0) (decomposeRNS qsP 1 i c)
      else (List.range (nJ.getD i 0)).map fun j => decomposeBits qsP w i j c

/-- the digits `DecomposeNTT(levelQ, levelP, nbPi, c)` hands to the hoisted variants -/
def decomposeNTT (qsP : List Nat) (nbPi : Nat) (c : RPoly) : List RPoly :=
  let levelQ := c.qs.length - 1
  (List.range (baseRNSDecompositionVectorSize levelQ qsP.length)).map fun i => decomposeRNS qsP nbPi i c

/-- restrict a polynomial of the key (rows `q_0…q_LQ, p_0…p_LP`) to `q_0…q_ℓ, p_0…p_LP` -/
def polyAtLevel (nQkey l : Nat) (a : RPoly) : RPoly :=
  { qs := a.qs.take (l + 1) ++ a.qs.drop nQkey, c := a.c.take (l + 1) ++ a.c.drop nQkey }

def evkAtLevel (nQkey l : Nat) (evk : List (List (RPoly × RPoly))) : List (List (RPoly × RPoly)) :=
  evk.map fun r => r.map fun (b, a) => (polyAtLevel nQkey l b, polyAtLevel nQkey l a)

/-- the Q part (first `nQ` rows) and the P part of an element of `R_{QP}` -/
def partQ (nQ : Nat) (x : RPoly) : RPoly := { qs := x.qs.take nQ, c := x.c.take nQ }
def partP (nQ : Nat) (x : RPoly) : RPoly := { qs := x.qs.drop nQ, c := x.c.drop nQ }

/-- `BasisExtender.ModUpPtoQ`: the centred representative of `x mod P`, reduced modulo every `q_k` -/
def modUpPtoQ (qsQ : List Nat) (xP : RPoly) : RPoly :=
  let n := (xP.c.headD []).length
  ofInts qsQ ((List.range n).map fun t => centerHalf xP.qs (colOf xP.c t))

/-- `P⁻¹ mod q_k` as a constant polynomial of `R_Q` -/
def pinvElt (qsQ qsP : List Nat) (n : Nat) : RPoly :=
  constPoly qsQ n (qsQ.map fun q => modInv (prod qsP % q) q)

/-- `Evaluator.ModDown` on one polynomial (canonical level: the four NTT-flag combinations agree):
    without `P` the Q part is returned as is. -/
def modDownR (nQ : Nat) (x : RPoly) : RPoly :=
  let xQ := partQ nQ x
  let xP := partP nQ x
  if xP.qs.isEmpty then xQ
  else
    let n := (xQ.c.headD []).length
    modDown (pinvElt xQ.qs xP.qs n) xQ (modUpPtoQ xQ.qs xP)

/-- `GadgetProductLazy(levelQ, c, evk)`: result modulo `Q_ℓ P`.  `evk` is at the key's level
    (`nQkey` rows of Q), `c` at level `ℓ ≤ nQkey − 1`. -/
def gadgetProductLazyR (qsP : List Nat) (w nQkey : Nat) (evk : List (List (RPoly × RPoly)))
    (c : RPoly) : RPoly × RPoly :=
  let l := c.qs.length - 1
  let n := (c.c.headD []).length
  let z := zero (c.qs ++ qsP) n
  let d := decompose qsP w (evk.map List.length) c
  dotMat z d (evkAtLevel nQkey l evk)

/-- `GadgetProduct`: lazy product, then `ModDown` of both components -/
def gadgetProductR (qsP : List Nat) (w nQkey : Nat) (evk : List (List (RPoly × RPoly)))
    (c : RPoly) : RPoly × RPoly :=
  let x := gadgetProductLazyR qsP w nQkey evk c
  (modDownR c.qs.length x.1, modDownR c.qs.length x.2)

/-- `GadgetProductHoistedLazy` with the digits of `DecomposeNTT(levelQ, levelP, nbPi, c)` -/
def gadgetProductHoistedLazyR (qsP : List Nat) (nbPi nQkey : Nat) (evk : List (List (RPoly × RPoly)))
    (c : RPoly) : RPoly × RPoly :=
  let l := c.qs.length - 1
  let n := (c.c.headD []).length
  let z := zero (c.qs ++ qsP) n
  gadgetProductHoistedLazy z (decomposeNTT qsP nbPi c) (evkAtLevel nQkey l evk)

def gadgetProductHoistedR (qsP : List Nat) (nbPi nQkey : Nat) (evk : List (List (RPoly × RPoly)))
    (c : RPoly) : RPoly × RPoly :=
  let x := gadgetProductHoistedLazyR qsP nbPi nQkey evk c
  (modDownR c.qs.length x.1, modDownR c.qs.length x.2)

/-- `P·c0` placed on the Q rows of `R_{Q_ℓ P}` (`MulScalarBigint(ctIn.Value[0], P, ctTmp.Value[1].Q)`);
    P rows zero -/
def scaleByP (qsP : List Nat) (c0 : RPoly) : RPoly :=
  let n := (c0.c.headD []).length
  let s := c0.scale (prod qsP)
  { qs := s.qs ++ qsP, c := s.c ++ qsP.map fun _ => List.replicate n 0 }

/-! ## Word level: the lazy `uint64` accumulators of `GadgetProduct{,Hoisted}Lazy`

  `gadgetProductMultiplePLazy`, `gadgetProductSinglePAndBitDecompLazy` and `gadgetProductMultiplePLazyHoisted`
  accumulate, per RNS limb and NTT slot, the terms `MRedLazy(key[i][j], digit[i][j])` WITHOUT reduction
  (`MulCoeffsMontgomeryLazy` for the first term, `MulCoeffsMontgomeryLazyThenAddLazy` after), and reduce when
  `reduce % F == F − 1` with `F = QiOverflowMargin(levelQ) >> 1` (Q limbs) resp. `PiOverflowMargin(levelP) >> 1`
  (P limbs), `reduce` advanced once per `(i, j)`; a final `Reduce` if `reduce % F != 0`.  This is the schedule
  `RGSW.accSched` of the external product (same code shape); the rows below are the raw stored words
  (NTT domain, key in Montgomery form). -/

/-- one limb of one component: `R[k]`, `C[k]` the raw key row / raw digit row of term `k` in the order of the
    code (`i` outer, `j` inner); `fam` the primes of the limb's family at the current level -/
def gpLazyLimb (p mrc : Nat) (fam : List Nat) (R C : List (List Nat)) : List Nat :=
  (List.zip (RPoly.transpose R) (RPoly.transpose C)).map fun (rs, cs) =>
    RGSW.lazySlot p mrc (RGSW.lazyMargin fam) rs cs

/-! ## `RingPackingEvaluator.Expand`: the index arithmetic of the loop -/

/-- the keys of the map `Expand(ct, logGap)` returns, following the loop: `cts = {0}`; for `i < logN`, `n = 2^i`, for
    `j = 0, gap, 2·gap, … < n`: a child `cts[j+n]` is created iff `j + n/gap > 0` (for `n < gap` only the trace step is
    applied to `cts[0]`).  Sorted. -/
def expandKeys (logN logGap : Nat) : List Nat :=
  let gap := 2 ^ logGap
  let ks := (List.range logN).foldl (fun (acc : List Nat) i =>
    let n := 2 ^ i
    let js := (List.range ((n + gap - 1) / gap)).map (· * gap)
    js.foldl (fun (a : List Nat) j => if j + n / gap > 0 then (j + n) :: a else a) acc) [0]
  (List.range (2 ^ logN + 1)).filter fun k => ks.contains k

/-- `Y ↦ X^{gap}` on one row: coefficient `k` goes to position `k·gap`, zeros elsewhere -/
def rowEmbed (gap : Nat) (x : List Nat) : List Nat :=
  x.flatMap fun v => v :: List.replicate (gap - 1) 0

/-- `SwitchCiphertextRingDegree` small → large -/
def embedR (gap : Nat) (a : RPoly) : RPoly := { qs := a.qs, c := a.c.map (rowEmbed gap) }

/-- keep the coefficients at the multiples of `gap` -/
def rowProject (gap : Nat) (x : List Nat) : List Nat :=
  (List.range (x.length / gap)).map fun k => x.getD (k * gap) 0

/-- `SwitchCiphertextRingDegree` large → small -/
def projectR (gap : Nat) (a : RPoly) : RPoly := { qs := a.qs, c := a.c.map (rowProject gap) }

end Lattigo.KS
