/-
  C20 — blind rotation (model of core/rgsw/blindrot/{evaluator,keys,utils,blindrot}.go and of the
  parts of core/rlwe/{evaluator_automorphism,evaluator_gadget_product}.go it uses).  Core Lean only.

  * index bookkeeping of the algorithm AS CODED: modulus switch of the LWE sample to `2N`
    (`modSwitchRLWETo2NLvl`), reversal/negation and rotation of the mask, the discrete-log table
    (`getGaloisElementInverseMap`), the classes (`getDiscreteLogSets`) and the accumulator loop
    (`BlindRotateCore`, `evaluateFromDiscreteLogSets`, window 10; with the fix C20-5: the class of `−1`
    filed under `2N`, zero coefficients skipped) flattened into a SCHEDULE: the list of
    operations (`aut g` = `Automorphism(acc, g, acc)`, `mul j` = external product by the key of index `j`)
    the evaluator performs, in order.
  * the exponent semantics of a schedule (`runExp`): the accumulator holds `φ_t(F)·X^u`.
  * the ciphertext-level execution on `RPoly` (`coreR` = `BlindRotateCore`, `evalSlot` = one slot of `Evaluate`: key
    switching as coded, external products of Model/RGSW.lean).

  Status (details in `Props/C20.lean`): schedule → exponent `b + ⟨a,s⟩` proved for all `N = 2^(k+1) ≥ 4` and all masks of
  the model's mod-switch (`blindrot_exponent_model`); on `RPoly` values `blindrot_evalSlot_phase`; look-up at every exponent
  `blindrot_lookup_all`; requested keys ⊆ generated `brk_keys_requested_subset`.  `gadgetProductR`/`automorphismR` (the key
  switch inside the loop) are tied (`br_eval`, `br_core`), without a general theorem; `scaleUpBits` (the float pipeline of `InitTestPolynomial` in exact
  arithmetic) is tied (`testpoly`) and carries `testpoly_limbs_consistent`, `testpoly_exact`.
-/
import Lattigo.Model.RGSW

namespace Lattigo.RGSW.BlindRot
open Lattigo Lattigo.RGSW

/-- `windowSize` of keys.go -/
def windowSize : Nat := 10
/-- `ring.GaloisGen` -/
def galoisGen : Nat := 5

/-! ## Modulus switch and mask preparation -/

/-- `bignum.DivRound(a, b)` for `a ≥ 0`, `b > 0`: round half up -/
def divRound (a b : Nat) : Nat := if 2 * (a % b) ≥ b then a / b + 1 else a / b

/-- `modSwitchRLWETo2NLvl` on one coefficient `x ∈ [0, Q)`: `round(x·2N/Q) & (2N−1)`, then (for the mask)
    even non-zero values are XORed with 1 -/
def modSwitch (Q twoN : Nat) (makeOdd : Bool) (x : Nat) : Nat :=
  let t := divRound (x * twoN) Q % twoN
  if makeOdd && t % 2 == 0 && t != 0 then t + 1 else t

/-- `a_0, −a_{N−1}, −a_{N−2}, …, −a_1` modulo `2N` (Evaluate, "Conversion from Convolution(a, sk) to
    DotProd(a, sk)") -/
def negRev (twoN : Nat) : List Nat → List Nat
  | [] => []
  | a0 :: rest => a0 :: rest.reverse.map fun x => (twoN - x % twoN) % twoN

/-- `mulBySmallMonomialMod2N(mask, pol, n)`: multiply by `X^n` in `Z_{2N}[X]/(X^{N_LWE}+1)` -/
def mulBySmallMonomial (twoN : Nat) (a : List Nat) (n : Nat) : List Nat :=
  if n = 0 then a
  else (a.drop (a.length - n)).map (fun x => (twoN - x % twoN) % twoN) ++ a.take (a.length - n)

/-! ## Discrete logarithms -/

/-- `5^i mod 2N` -/
def powG (N i : Nat) : Nat := galoisGen ^ i % (2 * N)

/-- `getGaloisElementInverseMap(5, N)`: the assignments in program order; the last one re-files
    `−5^0 = 2N − 1` (which the loop stored as `−0 = 0`, the class of `+1`) under the key `2N`. -/
def dlogTable (N : Nat) : List (Nat × Int) :=
  ((List.range (N / 2)).flatMap fun i => [(powG N i, (i : Int)), (2 * N - powG N i, -(i : Int))])
    ++ [(2 * N - 1, ((2 * N : Nat) : Int))]

/-- map lookup (the LAST assignment of a key wins; a missing key yields Go's zero value `0`) -/
def dlog (N a : Nat) : Int :=
  match (dlogTable N).reverse.find? (fun kv => kv.1 == a) with
  | some kv => kv.2
  | none => 0

/-- `getDiscreteLogSets(a)[k]`: the indices `i` with `a_i ≠ 0` (zero coefficients are skipped) and
    `dlog(a_i) = k`, ascending (`nil` = no entry) -/
def setOf (N : Nat) (a : List Nat) (k : Int) : List Nat :=
  ((List.range a.length).filter fun i => a.getD i 0 != 0).filter fun i => dlog N (a.getD i 0) == k

/-- `getDiscreteLogSets` panics on an even non-zero entry -/
def maskOk (a : List Nat) : Bool := a.all fun x => x % 2 == 1 || x == 0

/-! ## The schedule -/

inductive Step where
  | aut (g : Nat)
  | mul (j : Nat)
  deriving Repr, BEq, DecidableEq, Inhabited

/-- `Parameters.GaloisElement(v) = 5^v mod 2N` -/
def galEl (N v : Nat) : Nat := powG N v

/-- `evaluateFromDiscreteLogSets(GaloisElement, sets, k, v, acc, BRK)`: the operations performed and
    the returned `v` -/
def evalLevel (N : Nat) (a : List Nat) (k : Int) (v : Nat) : List Step × Nat :=
  let set := setOf N a k
  let pre : List Step × Nat :=
    if set.isEmpty then ([], v)
    else ((if v ≠ 0 then [Step.aut (galEl N v)] else []) ++ set.map Step.mul, 0)
  let v2 := pre.2 + 1
  if v2 = windowSize ∨ k = 1 then (pre.1 ++ [Step.aut (galEl N v2)], 0) else (pre.1, v2)

/-- `for i := top; i > 0; i-- { v = evaluateFromDiscreteLogSets(…, sgn·i, v, …) }` -/
def loopLevels (N : Nat) (a : List Nat) (sgn : Int) : Nat → Nat → List Step × Nat
  | 0, v => ([], v)
  | i + 1, v =>
    let r := evalLevel N a (sgn * ((i : Int) + 1)) v
    let rest := loopLevels N a sgn i r.2
    (r.1 ++ rest.1, rest.2)

/-- the class of `−5^0 = 2N − 1` (key `2N`): no power of `5` follows it, so the pending automorphism is
    applied first and `v` is not incremented (the inlined block of `BlindRotateCore`) -/
def midLevel (N : Nat) (a : List Nat) (v : Nat) : List Step × Nat :=
  let set := setOf N a ((2 * N : Nat) : Int)
  if set.isEmpty then ([], v)
  else ((if v ≠ 0 then [Step.aut (galEl N v)] else []) ++ set.map Step.mul, 0)

/-- `BlindRotateCore(a, acc, BRK)`: negative classes `k = −(N/2−1) … −1`, the class `2N` (`= −5^0`),
    `Automorphism(acc, 2N−5)`, positive classes with the `v` left so far, the class `0` with `v = 0`. -/
def coreSchedule (N : Nat) (a : List Nat) : List Step :=
  let neg := loopLevels N a (-1) (N / 2 - 1) 0
  let mid := midLevel N a neg.2
  let pos := loopLevels N a 1 (N / 2 - 1) mid.2
  let last := evalLevel N a 0 0
  neg.1 ++ mid.1 ++ [Step.aut (2 * N - galoisGen)] ++ pos.1 ++ last.1

/-! ## Exponent semantics -/

/-- the accumulator holds `φ_t(F)·X^u`; `aut g` maps `(t, u)` to `(g·t, g·u)`, `mul j` adds the secret
    coefficient `s_j` to `u` (external product by `RGSW(X^{s_j})`).  Integers, to be read modulo `2N`. -/
def stepExp (s : Nat → Int) : Step → Int × Int → Int × Int
  | Step.aut g, (t, u) => ((g : Int) * t, (g : Int) * u)
  | Step.mul j, (t, u) => (t, u + s j)

def runExp (s : Nat → Int) : List Step → Int × Int → Int × Int
  | [], x => x
  | st :: rest, x => runExp s rest (stepExp s st x)

/-- the value a mask coefficient is TREATED as (by its class): `0` if it is zero, `−1` for the class `2N`,
    `±5^{|k|}` for the class `k` -/
def eff (N a : Nat) : Int :=
  let k := dlog N a
  if a = 0 then 0
  else if k = ((2 * N : Nat) : Int) then -1
  else if k < 0 then -((powG N k.natAbs : Nat) : Int) else ((powG N k.natAbs : Nat) : Int)

/-- the mask of slot `index`, and its `b`: everything `Evaluate` derives from the LWE sample.
    `c0`, `c1` the coefficients (in `[0, Q)`) of the sample, `idxs` the requested slots ascending. -/
def prepMask (Q N : Nat) (c1 : List Nat) : List Nat :=
  negRev (2 * N) (c1.map (modSwitch Q (2 * N) true))

def prepB (Q N : Nat) (c0 : List Nat) : List Nat := c0.map (modSwitch Q (2 * N) false)

/-- the masks of the requested slots (`mulBySmallMonomialMod2N(…, index − prevIndex)` cumulatively) -/
def slotMasks (N : Nat) (a0 : List Nat) (idxs : List Nat) : List (Nat × List Nat) :=
  (idxs.foldl (fun (st : Nat × List Nat × List (Nat × List Nat)) idx =>
    let a := mulBySmallMonomial (2 * N) st.2.1 (idx - st.1)
    (idx, a, st.2.2 ++ [(idx, a)])) (0, a0, [])).2.2

/-- initial exponents: `acc = φ_{2N−5}(F·X^b)`, i.e. `t = 2N−5`, `u = (2N−5)·b` -/
def initExp (N b : Nat) : Int × Int := (((2 * N - galoisGen : Nat) : Int), ((2 * N - galoisGen : Nat) : Int) * b)

/-- final `(t mod 2N, u mod 2N)` of one slot -/
def slotExp (N : Nat) (a : List Nat) (b : Nat) (s : List Int) : Nat × Nat :=
  let r := runExp (fun j => s.getD j 0) (coreSchedule N a) (initExp N b)
  ((r.1 % ((2 * N : Nat) : Int)).toNat, (r.2 % ((2 * N : Nat) : Int)).toNat)

/-! ## Ciphertext level -/

/-- generic execution of a schedule -/
def runSteps {γ : Type} (autOp : Nat → γ → γ) (mulOp : Nat → γ → γ) : List Step → γ → γ
  | [], x => x
  | Step.aut g :: rest, x => runSteps autOp mulOp rest (autOp g x)
  | Step.mul j :: rest, x => runSteps autOp mulOp rest (mulOp j x)

/-- centred single-modulus digits of `gadgetProductSinglePAndBitDecompLazy` when `BaseTwoDecomposition = 0`:
    `DecomposeAndSplit(levelQ, levelP, 1, i, …)`: the source row is `i` (since 3f60e57 also without
    auxiliary modulus). -/
def digitsCentred1 (p : Par) (c : RPoly) : List RPoly :=
  (List.range p.rnsSize).map fun i =>
    let k := i
    let q := p.qsQ.getD k 1
    RPoly.ofInts p.qsQP ((c.c.getD k []).map fun x => centredDigit [q] [x])

/-- the decomposition of `Evaluator.GadgetProduct` -/
def digitsKS (p : Par) (c : RPoly) : List RPoly :=
  if p.nP ≥ 2 then digitsGroup p c else if p.w = 0 then digitsCentred1 p c else digitsBit p c

/-- `Evaluator.GadgetProduct(level, cx, evk, ·)`: `Σ_k d_k(cx)·evk_k`, divided by `P` -/
def gadgetProductR (p : Par) (cx : RPoly) (evk : List (RPoly × RPoly)) : RPoly × RPoly :=
  let u := dot (RPoly.zero p.qsQP p.n, RPoly.zero p.qsQP p.n) (digitsKS p cx) evk
  let md : RPoly → RPoly := if p.nP = 0 then takeQ p.qsQ else modDown p.qsQ p.qsP
  (md u.1, md u.2)

/-- `Evaluator.Automorphism(ct, g, ct)`: key switch of `c1`, add `c0`, apply `X ↦ X^g` to both
    (`g = 1`: nothing) -/
def automorphismR (p : Par) (gks : List (Nat × List (RPoly × RPoly))) (g : Nat) (ct : RPoly × RPoly) :
    RPoly × RPoly :=
  if g = 1 then ct
  else
    match gks.find? (fun kv => kv.1 == g) with
    | none => ct
    | some kv =>
      let ks := gadgetProductR p ct.2 kv.2
      (RPoly.aut (ks.1 + ct.1) g, RPoly.aut ks.2 g)

/-- `Evaluator.BlindRotateCore(a, acc, BRK)` on ciphertexts: the schedule of the mask `a` executed with the key
    switching automorphisms and the external products by the blind-rotation keys -/
def coreR (p : Par) (gks : List (Nat × List (RPoly × RPoly))) (brk : List (Ct RPoly))
    (a : List Nat) (acc : RPoly × RPoly) : RPoly × RPoly :=
  runSteps (automorphismR p gks) (fun j ct => extProdR p ct (brk.getD j default)) (coreSchedule p.n a) acc

/-- one slot of `Evaluator.Evaluate`: `acc = (φ_{2N−5}(F·X^b), 0)`, then `BlindRotateCore` -/
def evalSlot (p : Par) (gks : List (Nat × List (RPoly × RPoly))) (brk : List (Ct RPoly))
    (F : RPoly) (a : List Nat) (b : Nat) : RPoly × RPoly :=
  let N := p.n
  coreR p gks brk a (RPoly.aut (RPoly.mulMonomial F b) (2 * N - galoisGen), RPoly.zero p.qsQ N)

/-! ## Test polynomial -/

/-- `InitTestPolynomial` from the table `y k` = (scaled, rounded) value of the function at the grid point
    `k/(N/2)` of `[−1, 1]`: coefficient `i ≤ N/2` is `y(−i)`, coefficient `i > N/2` is `−y(N−i)`. -/
def testPolyInts (N : Nat) (y : Int → Int) : List Int :=
  (List.range N).map fun i => if i ≤ N / 2 then y (-(i : Int)) else -(y ((N : Int) - i))

/-- constant coefficient of `F·X^e` in `Z[X]/(X^N+1)` -/
def lookup (N : Nat) (F : List Int) (e : Int) : Int :=
  let r := (e % ((2 * N : Nat) : Int)).toNat
  if r = 0 then F.getD 0 0
  else if r ≤ N then -(F.getD (N - r) 0)
  else F.getD (2 * N - r) 0

/-! ### `scaleUp` on IEEE doubles, in exact arithmetic

A non-negative finite double is a pair `(m, e)` standing for `m·2^e`.  `InitTestPolynomial` only multiplies two doubles,
adds `0.5` (a `big.Float` of precision 53, i.e. the IEEE addition) and truncates; these three operations are modelled
exactly (round to nearest, ties to even, on the exact product / sum).  Results here are `≥ 1/2` or zero, far from the
overflow threshold, so the exponent range plays no role. -/

/-- strip trailing zero bits: `(m, e) ↦ (m / 2^t, e + t)`, `m / 2^t` odd (or `m = 0`) -/
def stripZeros : Nat → Nat → Int → Nat × Int
  | 0, m, e => (m, e)
  | fuel + 1, m, e => if m ≠ 0 ∧ m % 2 = 0 then stripZeros fuel (m / 2) (e + 1) else (m, e)

/-- magnitude of the double with bit pattern `b` (zero for NaN / infinities, which the harness never feeds), with the
    trailing zeros of the significand stripped -/
def decodeMag (b : Nat) : Nat × Int :=
  let ex : Nat := (b / 2 ^ 52) % 2 ^ 11
  let fr : Nat := b % 2 ^ 52
  if ex = 2047 then (0, 0)
  else if ex = 0 then stripZeros 64 fr (-1074)
  else stripZeros 64 (2 ^ 52 + fr) ((ex : Int) - 1075)

def signBit (b : Nat) : Bool := (b / 2 ^ 63) % 2 == 1

/-- round `m·2^e` to 53 significant bits, nearest, ties to even -/
def rnd53 (x : Nat × Int) : Nat × Int :=
  let m := x.1
  if m < 2 ^ 53 then x
  else
    let sh := Nat.log2 m + 1 - 53
    let q := m / 2 ^ sh
    let r := m % 2 ^ sh
    let half := 2 ^ (sh - 1)
    let q' := if r > half ∨ (r = half ∧ q % 2 = 1) then q + 1 else q
    (q', x.2 + sh)

/-- IEEE product of two magnitudes -/
def fmul (x y : Nat × Int) : Nat × Int := rnd53 (x.1 * y.1, x.2 + y.2)

/-- the exact sum `m·2^e + 1/2` on a common exponent -/
def addHalfExact (x : Nat × Int) : Nat × Int :=
  if x.2 ≥ 0 then (x.1 * 2 ^ (x.2 + 1).toNat + 1, -1) else (x.1 + 2 ^ (-1 - x.2).toNat, x.2)

/-- `x + 0.5` at precision 53 -/
def faddHalf (x : Nat × Int) : Nat × Int := rnd53 (addHalfExact x)

/-- `big.Float.Int`: truncation -/
def truncF (x : Nat × Int) : Nat := if x.2 ≥ 0 then x.1 * 2 ^ x.2.toNat else x.1 / 2 ^ (-x.2).toNat

/-- `⌊m·2^e + 1/2⌋` in exact arithmetic -/
def roundHalfUp (m : Nat) (e : Int) : Nat :=
  if e ≥ 0 then m * 2 ^ e.toNat else (m + 2 ^ ((-e).toNat - 1)) / 2 ^ (-e).toNat

/-- the integer `InitTestPolynomial` stores (before the reduction and the sign): `⌊fl(fl(scale·|value|) + 0.5)⌋` -/
def scaleUpAbs (valueBits scaleBits : Nat) : Nat :=
  truncF (faddHalf (fmul (decodeMag scaleBits) (decodeMag valueBits)))

/-- `value < 0` (false for `−0.0`) -/
def isNegBits (valueBits : Nat) : Bool := signBit valueBits && (decodeMag valueBits).1 != 0

/-- `scaleUp(value, scale, Q)` of utils.go: every limb is the residue of THE SAME integer `scaleUpAbs`, negated modulo
    `Q` for a negative value (`Q − 0 = Q`, unreduced, when the magnitude is a multiple of `Q`). -/
def scaleUpBits (valueBits scaleBits Q : Nat) : Nat :=
  let r := scaleUpAbs valueBits scaleBits % Q
  if isNegBits valueBits then Q - r else r

end Lattigo.RGSW.BlindRot
