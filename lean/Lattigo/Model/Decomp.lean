/-
  Layer D of the twin (3/3): gadget decomposition.
    * `Decomposer.DecomposeAndSplit` (ring/basis_extension.go): RNS digit `[x]_{Q_d}` (centred)
      written in basis QP — by copy/re-centring when the digit modulus is one prime, by HPS fast base
      conversion (`reconstructRNSCentered` + `multSum`) otherwise;
    * `MaskVec` (ring/vec_ops.go): power-of-two digits.
  LIMB LEVEL bit-exact; INTEGER LEVEL `pow2Digit`, `pow2Recombine`, `rnsRecombine` are the
  specification (Proofs/Decomp*.lean).  Core Lean only.
-/
import Lattigo.Model.BasisExt

namespace Lattigo.Decomp
open Lattigo Lattigo.Gen Lattigo.Scaling Lattigo.BasisExt

/-! ## integer level -/

/-- the `j`-th base-`2^w` digit as `MaskVec(p, j·w, 2^w − 1, ·)` computes it -/
def pow2Digit (w j x : Nat) : Nat := MaskVec_lane x (j * w) (2 ^ w - 1) 0

/-- `Σ_{j<n} digit_j · 2^{w·j}` -/
def pow2Recombine (w : Nat) : Nat → Nat → Nat
  | 0, _ => 0
  | n + 1, x => pow2Recombine w n x + pow2Digit w n x * 2 ^ (w * n)

/-- product of a list of digit moduli -/
def prodL (Qs : List Nat) : Nat := prodN Qs

/-- gadget recombination `Σ_i d_i · (Q/Q_i) · [(Q/Q_i)⁻¹]_{Q_i}` for digit moduli `Qs` (pairwise coprime,
    not necessarily prime: `Q_i` is a product of `nbPi` primes), `inv i` the inverse used. -/
def rnsRecombine (Qs : List Nat) (inv : Nat → Nat) (ds : List Int) : Int :=
  (List.zipWith (fun (Qi : Nat) (d : Int) => d * ((prodN Qs / Qi : Nat) : Int) * ((inv Qi : Nat) : Int)) Qs ds).foldr (· + ·) 0

/-! ## limb level -/

/-- Go `int` arithmetic of `DecomposeAndSplit`: `decompLvl` (may be negative) -/
def decompLvl (levelQ nbPi d : Nat) : Int :=
  if (levelQ : Int) > (nbPi : Int) * ((d : Int) + 1) - 1 then (nbPi : Int) - 2
  else (((levelQ : Int) % (nbPi : Int)) : Int) - 1   -- nbPi = 0 never gets here (the first test is `levelQ > -1`)

/-- one coefficient of the copy branch (`decompLvl < 0`) for target modulus `m`:
    `coeff ≥ q>>1 ↦ m − BRedAdd(q − coeff)`, else `BRedAdd(coeff)` -/
def splitLimb (qd m : Nat) (coeff : Nat) : Nat :=
  let neg := decide (u64shr qd 1 ≤ coeff)
  let c := if neg then u64sub qd coeff else coeff
  let pos := if neg then 0 else 1
  let ng := if neg then 1 else 0
  let tmp := BRedAdd c m (brc m)
  u64add (u64mul tmp pos) (u64mul (u64sub m tmp) ng)

/-- one lane of `reconstructRNSCentered(start, end, …)`: `cols` are the limbs for `Q[start..end)` -/
def reconstructCentered (Qd qinvs qHalfModqi : List Nat) (muc : MUC) (col : List Nat) : List Nat × Nat :=
  let ys := (List.range col.length).map fun i =>
    MRed (u64add (col.getD i 0) (qHalfModqi.getD i 0)) muc.qoverqiinvqi[i]! (Qd.getD i 0) (qinvs.getD i 0)
  let vf := (List.zip ys Qd).foldl (fun (acc : Float) (yq : Nat × Nat) => acc + toF yq.1 / toF yq.2) 0.0
  (ys, vf.toUInt64.toNat)

/-- `Decomposer.DecomposeAndSplit(levelQ, levelP, nbPi, d, p0Q, p1Q, p1P)`.
    `Q`, `P` the full chains of the decomposer's rings (`P = []` and `hasP = false` when ringP is nil);
    `levelP` is meaningful only if `hasP`; `prevQ` the previous content of p1Q (its rows inside the
    digit's own moduli are not written by the base conversion but do go through the final
    `SubScalarBigint`).  Returns (rows of p1Q, rows of p1P); `none` = Go panics. -/
def decomposeAndSplit (Q P : List Nat) (hasP : Bool) (levelQ levelP nbPi d : Nat)
    (p0Q prevQ : Rows) : Option (Rows × Rows) :=
  let lvlQStart := d * nbPi
  let dl := decompLvl levelQ nbPi d
  if dl < 0 then
    if lvlQStart > levelQ then none else     -- index out of range on p0Q.Coeffs / Q
    let qd := Q.getD lvlQStart 0
    let src := row p0Q lvlQStart
    let outQ := (List.range (levelQ + 1)).map fun i => src.map (splitLimb qd (Q.getD i 0))
    let outP := if hasP then (List.range (levelP + 1)).map fun i => src.map (splitLimb qd (P.getD i 0)) else []
    some (outQ, outP)
  else
    let dlN := dl.toNat
    let p0idxst := d * nbPi
    let p0idxed := min (p0idxst + nbPi) (levelQ + 1)
    -- MUC := ModUpConstants[nbPi-2][d][decompLvl] = GenModUpConstants(Q[d·nbPi .. d·nbPi+decompLvl+2), Q ++ P[:nbPi])
    let Qd := (Q.drop p0idxst).take (dlN + 2)
    let muc := genModUpConstants Qd (Q ++ P.take nbPi)
    let QBig := prodN ((Q.drop p0idxst).take (p0idxed - p0idxst))
    let QHalf := QBig / 2
    let Qgrp := (Q.drop p0idxst).take (p0idxed - p0idxst)
    let qHalfModqi := Qgrp.map fun q => QHalf % q
    let qinvs := Qgrp.map GenMRedConstant
    let cols := transpose ((List.range (p0idxed - p0idxst)).map fun i => row p0Q (p0idxst + i))
    let recs := cols.map (reconstructCentered Qgrp qinvs qHalfModqi muc)
    let nQ := Q.length
    let ms (m : Nat) (j : Nat) : List Nat :=
      recs.map fun (ys, v) => multSum (ys.take (dlN + 2)) v m (GenMRedConstant m) muc.vtimesqmodp[j]! muc.qoverqimodp[j]!
    let rowsQ := (List.range (levelQ + 1)).map fun j =>
      if j < p0idxst ∨ p0idxed ≤ j then ms (Q.getD j 0) j else row prevQ j
    let rowsP := (List.range (levelP + 1)).map fun j => ms (P.getD j 0) (nQ + j)
    some (subScalarBig Q levelQ QHalf rowsQ, subScalarBig P levelP QHalf rowsP)

/-- `rlwe.Evaluator.DecomposeNTT(levelQ, levelP, nbPi, c2, c2IsNTT, decompQP)` (core/rlwe/evaluator_gadget_product.go):
    for every digit `d < size` the pair (rows of decompQP[d].Q, rows of decompQP[d].P), all in the NTT domain:
    `DecomposeAndSplit` on the coefficient-domain input, `NTT` of every row except the digit's own moduli,
    which are copied from the NTT-domain input. -/
def decomposeNTT (TQ TP : Scaling.Tabs) (Q P : List Nat) (levelQ levelP nbPi size : Nat) (isNTT : Bool)
    (c2 : Rows) : Option (List (Rows × Rows)) :=
  let inv := if isNTT then Scaling.inttRows TQ levelQ c2 else c2
  let ntt := if isNTT then c2 else Scaling.nttRows TQ levelQ c2
  (List.range size).mapM fun d =>
    match decomposeAndSplit Q P true levelQ levelP nbPi d inv ((List.range (levelQ + 1)).map fun _ => []) with
    | none => none
    | some (a, b) =>
      let st := d * nbPi
      let ed := st + nbPi
      let rq := (List.range (levelQ + 1)).map fun x =>
        if st ≤ x ∧ x < ed then row ntt x else NTT.nttStd (Scaling.tab TQ x) (row a x)
      let rp := (List.range (levelP + 1)).map fun j => NTT.nttStd (Scaling.tab TP j) (row b j)
      some (rq, rp)

/-- `DecomposeNTT` for either ring type (`Scaling.xfStd`: the function above, by `rfl`) -/
def decomposeNTTX (F : Scaling.Xf) (TQ TP : Scaling.Tabs) (Q P : List Nat) (levelQ levelP nbPi size : Nat)
    (isNTT : Bool) (c2 : Rows) : Option (List (Rows × Rows)) :=
  let inv := if isNTT then Scaling.inttRowsX F TQ levelQ c2 else c2
  let ntt := if isNTT then c2 else Scaling.nttRowsX F TQ levelQ c2
  (List.range size).mapM fun d =>
    match decomposeAndSplit Q P true levelQ levelP nbPi d inv ((List.range (levelQ + 1)).map fun _ => []) with
    | none => none
    | some (a, b) =>
      let st := d * nbPi
      let ed := st + nbPi
      let rq := (List.range (levelQ + 1)).map fun x =>
        if st ≤ x ∧ x < ed then row ntt x else F.ntt (Scaling.tab TQ x) (row a x)
      let rp := (List.range (levelP + 1)).map fun j => F.ntt (Scaling.tab TP j) (row b j)
      some (rq, rp)

theorem decomposeNTTX_std : decomposeNTTX Scaling.xfStd = decomposeNTT := rfl

/-- `MaskVec(p1, w, mask, p2)` -/
def maskVec (w mask : Nat) (p1 : List Nat) : List Nat := p1.map fun x => MaskVec_lane x w mask 0

end Lattigo.Decomp
