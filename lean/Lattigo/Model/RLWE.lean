/-
  C03 — scheme-level model of `core/rlwe/encryptor.go`, `decryptor.go` and of
  `KeyGenerator.GenSecretKey / GenPublicKey` (`keygenerator.go`).

  The model is GENERIC over a carrier `α` that only has `+ * - neg` (core type classes).  The
  theorems (Proofs/RLWE*.lean, Props/C03.lean) are proved for every commutative ring; the driver
  runs the very same definitions on the executable carrier `RQ` (canonical RNS polynomials of
  `Model/RPoly.lean`, standard or conjugate-invariant ring).

  What a model value is.  A value stands for the polynomial *as stored by the Go code*, pulled back
  to the coefficient domain (the NTT is a ring isomorphism and is transparent here: that is C01's
  business) but with the Montgomery factor KEPT: the Go code's behaviour depends on which operands
  carry the factor `R = 2^64`, and the property quantifies over the `IsMontgomery` flag.  So
  `MulCoeffsMontgomery(x, y)` is `mulMont x y = ofM (x*y)`, the stored secret key is `toM s`, etc.

  The sampled polynomials (`a`, `u`, `e`, …) are INPUTS.  What is modelled about sampling is the call
  sequence: which sampler is read for which value, in which order and at which level.  `Read` followed by
  `Add` and `ReadAndAdd` both leave `c + e` (for every sampler: ring/sampler_*.go, property C17), so the
  two are not distinguished.

  This file follows the code AFTER the fixes C03-1 … C03-11 (/verif/fixes, all applied in /repo): `c1` is stored
  for every target of degree ≥ 1, `EncryptZero` clears `Value[2:]`, the error follows the `IsMontgomery` flag on
  every path, `extSmall` reduces modulo each `p_i` (C03-9), `acceptsBounds` is the distribution check of
  `NewParameters` (C03-10).

  Contents: generic functions (`mulMont`, `montIf`, `clearTail`, `encryptZeroSk/PkNoP/Pk`, `ezSk/ezPkNoP/ezPk`,
  `addPtToCt`, `encrypt`, `hornerMont`, `decrypt`, `genSecretKey`, `genPublicKey`); the executable carrier `RQ`
  (standard and conjugate-invariant product, `mont`, `extSmall`, `modDown`, `acceptsBounds`, `encryptAt`, `decryptAt`);
  `ZPoly` (integer negacyclic ring for the norm statements).  Driver ops: `gensk`, `genpk`, `enc`, `dec`, `accept`.
  Theorems: Proofs/RLWE.lean, RLWENorm.lean, RLWECI.lean, Props/C03.lean (+ colleagues' Props/C03Ring, C03Stack).
-/
import Lattigo.Model.RPoly

namespace Lattigo.RLWE

/-- Montgomery conversions of a carrier: `toM x = x·R`, `ofM x = x·R⁻¹` (`MForm` / `IMForm`). -/
structure Mont (α : Type) where
  toM : α → α
  ofM : α → α

/-- `rlwe.MetaData`: the plaintext part (scale, dimensions, batched, bit-reversed) is opaque and
    copied; the two ciphertext flags are interpreted by the code. -/
structure MetaData (μ : Type) where
  pt : μ
  isNTT : Bool
  isMont : Bool
  deriving BEq, Repr, DecidableEq

structure Pt (α μ : Type) where
  value : α
  md : MetaData μ
  deriving DecidableEq

structure Ct (α μ : Type) where
  value : List α
  md : MetaData μ
  deriving DecidableEq

section generic
variable {α : Type} [Add α] [Mul α] [Neg α] [Sub α]

/-- `ring.MulCoeffsMontgomery(x, y)` = x·y·R⁻¹ -/
def mulMont (M : Mont α) (x y : α) : α := M.ofM (x * y)

/-- `if IsMontgomery { MForm(x) }` -/
def montIf (M : Mont α) (isMont : Bool) (x : α) : α := if isMont then M.toM x else x

/-- `EncryptZero` first clears the terms of degree ≥ 2 of a `*Ciphertext` target (`Value[i].Zero()`) -/
def clearTail : List α → List α
  | c0 :: c1 :: rest => c0 :: c1 :: rest.map (fun o => o - o)
  | l => l

/-! ### secret-key encryption of zero into a `*Ciphertext` (`encryptZeroSk` + `encryptZeroSkFromC1`)

  The error is always obtained with `Read` into a buffer, switched to the Montgomery domain iff the
  target is flagged `IsMontgomery`, and added (in the NTT domain or not: transparent here). -/

/-- `old` is the content of `ct.Value` before the call (length = degree+1), `a` the polynomial drawn
    from the uniform sampler, `e` the polynomial drawn from the error sampler, `sM` the stored secret
    (`toM s`).  `none` = the Go code panics.  A target of degree ≥ 1 receives `a` in `Value[1]`; for a
    degree-0 (compressed) target `c1` stays in a scratch buffer. -/
def encryptZeroSk (M : Mont α) (isMont : Bool) (old : List α) (a e sM : α) : Option (List α) :=
  let c0 := -(mulMont M a sM) + montIf M isMont e
  match old with
  | [] => none
  | [_] => some [c0]
  | _ :: _ :: rest => some (c0 :: a :: rest)

/-! ### public-key encryption of zero -/

/-- `encryptZeroPkNoP` (no auxiliary modulus): `(u·pk0 + e0, u·pk1 + e1)`, then `MForm` iff
    `IsMontgomery`; `pk0M, pk1M` are the stored (Montgomery) key polynomials; draws in the order
    `u`, `e0`, `e1`. -/
def encryptZeroPkNoP (M : Mont α) (isMont : Bool) (old : List α) (u e0 e1 pk0M pk1M : α) :
    Option (List α) :=
  match old with
  | _ :: _ :: rest =>
    some (montIf M isMont (mulMont M u pk0M + e0) :: montIf M isMont (mulMont M u pk1M + e1) :: rest)
  | _ => none

/-- `encryptZeroPk` for a `*Ciphertext` (auxiliary modulus present).  `β` is the carrier of `R_{Q·p₀}`
    (the code fixes `levelP = 0`: only the FIRST prime of `P` is used), `ext` is
    `ExtendBasisSmallNormAndCenter`, `down` is `ModDownQPtoQ` (rounded division by `p₀`).
    The flags are applied at the end: `MForm` iff `IsMontgomery`. -/
def encryptZeroPk {β : Type} [Add β] [Mul β] (MQ : Mont α) (MQP : Mont β) (ext : α → β) (down : β → α)
    (isMont : Bool) (old : List α) (u e0 e1 : α) (pk0M pk1M : β) : Option (List α) :=
  match old with
  | _ :: _ :: rest =>
    let uQP := ext u
    let c0 := mulMont MQP uQP pk0M + ext e0
    let c1 := mulMont MQP uQP pk1M + ext e1
    some (montIf MQ isMont (down c0) :: montIf MQ isMont (down c1) :: rest)
  | _ => none

/-! ### `EncryptZero` on a `*Ciphertext`, per key kind, as a function of the target's metadata and content -/

def ezSk {μ : Type} (M : Mont α) (a e sM : α) : MetaData μ → List α → Option (List α) :=
  fun md old => encryptZeroSk M md.isMont (clearTail old) a e sM

def ezPkNoP {μ : Type} (M : Mont α) (u e0 e1 pk0M pk1M : α) : MetaData μ → List α → Option (List α) :=
  fun md old => encryptZeroPkNoP M md.isMont (clearTail old) u e0 e1 pk0M pk1M

def ezPk {μ β : Type} [Add β] [Mul β] (MQ : Mont α) (MQP : Mont β) (ext : α → β) (down : β → α)
    (u e0 e1 : α) (pk0M pk1M : β) : MetaData μ → List α → Option (List α) :=
  fun md old => encryptZeroPk MQ MQP ext down md.isMont (clearTail old) u e0 e1 pk0M pk1M

/-! ### `addPtToCt`, `Encrypt` -/

/-- `addPtToCt` on stored values, as written.  `ntt`/`intt` are the transforms of the ring.  The mixed
    branches transform the plaintext in the direction named by the PLAINTEXT's own flag (an NTT
    plaintext is transformed again by `NTT`); `Encrypt` never reaches them (`encrypt_flags_agree`). -/
def addPtToCt (ntt intt : α → α) (ptIsNTT ctIsNTT : Bool) (ptVal : α) (ct : List α) : List α :=
  let buff :=
    if ptIsNTT then (if ctIsNTT then ptVal else ntt ptVal)
    else (if ctIsNTT then intt ptVal else ptVal)
  match ct with
  | [] => []
  | c0 :: rest => (c0 + buff) :: rest

/-- `Encryptor.Encrypt(pt, ct)`; `ez md old` is `EncryptZero` on a target with metadata `md`.
    `pt = none` is `Encrypt(nil, ct)` = `EncryptZero(ct)`.  (The level bookkeeping
    `level = min(pt.Level, ct.Level); ct.Resize` is done by `RQ.encryptAt` below.) -/
def encrypt {μ : Type} (ez : MetaData μ → List α → Option (List α)) (ntt intt : α → α)
    (pt : Option (Pt α μ)) (ct : Ct α μ) : Option (Ct α μ) :=
  match pt with
  | none => (ez ct.md ct.value).map fun v => { value := v, md := ct.md }
  | some pt =>
    -- *ct.MetaData = *pt.MetaData
    let md := pt.md
    (ez md ct.value).map fun v =>
      { value := addPtToCt ntt intt pt.md.isNTT md.isNTT pt.value v, md := md }

/-! ### `Decryptor.Decrypt` -/

/-- Horner from the top: `acc = c_d; acc = acc·s + c_{i-1}` (`MulCoeffsMontgomery` with the stored key).
    The periodic `Reduce` of the Go loop is the identity on canonical values. -/
def hornerMont (M : Mont α) (sM : α) : List α → Option α
  | [] => none
  | top :: rest => some (rest.foldl (fun acc c => mulMont M acc sM + c) top)

/-- `Decrypt(ct, pt)`: value and `*pt.MetaData = *ct.MetaData`; `none` = panic (empty `Value`). -/
def decrypt {μ : Type} (M : Mont α) (ct : Ct α μ) (sM : α) : Option (Pt α μ) :=
  (hornerMont M sM ct.value.reverse).map fun v => { value := v, md := ct.md }

/-! ### key generation -/

/-- `genSecretKeyFromSampler`: draw at level Q, extend to P, NTT (transparent), `MForm`. -/
def genSecretKey {β : Type} (MQP : Mont β) (ext : α → β) (sDraw : α) : β := MQP.toM (ext sDraw)

end generic

section qp
variable {β : Type} [Add β] [Mul β] [Neg β] [Sub β]

/-- `encryptZeroSk` case `Element[ringqp.Poly]` + `encryptZeroSkFromC1QP`, degree-1 target (the public
    key): `c1 = a` (uniform draw over QP), `c0 = MForm(ext e) − a·sM·R⁻¹`.  The result is in Montgomery
    form whatever `ct.IsMontgomery` says.  Draw order: `a` first, then `e`. -/
def encryptZeroSkQP {α : Type} (MQP : Mont β) (ext : α → β) (a : β) (e : α) (sM : β) : β × β :=
  (MQP.toM (ext e) - mulMont MQP a sM, a)

/-- `GenPublicKey(sk, pk)` -/
def genPublicKey {α : Type} (MQP : Mont β) (ext : α → β) (a : β) (e : α) (sM : β) : β × β :=
  encryptZeroSkQP MQP ext a e sM

end qp

/-! ## Executable carrier -/

/-- An element of `R_Q`, standard (`Z_Q[X]/(X^N+1)`, `ci = false`) or conjugate-invariant
    (`Z_Q[X+X⁻¹]/(X^{2N}+1)`, `ci = true`, N stored coefficients `c_0 + Σ c_i (X^i + X^{-i})`). -/
structure RQ where
  ci : Bool
  p : RPoly
  deriving BEq, Repr, Inhabited, DecidableEq

namespace RQ

/-- unfold N conjugate-invariant coefficients to the 2N coefficients in `Z_q[X]/(X^{2N}+1)`:
    `c_i` at `i`, `−c_i` at `2N−i` (since `X^{-i} = −X^{2N−i}`) -/
def ciRowEmbed (q : Nat) (x : List Nat) : List Nat :=
  match x with
  | [] => []
  | _ :: tl => x ++ (0 :: (tl.reverse.map fun c => (q - c % q) % q))

def ciRowMul (q : Nat) (x y : List Nat) : List Nat :=
  (RPoly.rowMul q (ciRowEmbed q x) (ciRowEmbed q y)).take x.length

def ciMul (a b : RPoly) : RPoly := RPoly.zipRows ciRowMul a b

instance : Add RQ := ⟨fun a b => ⟨a.ci, a.p + b.p⟩⟩
instance : Sub RQ := ⟨fun a b => ⟨a.ci, a.p - b.p⟩⟩
instance : Neg RQ := ⟨fun a => ⟨a.ci, -a.p⟩⟩
instance : Mul RQ := ⟨fun a b => ⟨a.ci, if a.ci then ciMul a.p b.p else a.p * b.p⟩⟩

/-- 2^64 -/
def Rword : Nat := 18446744073709551616

/-- `MForm` / `IMForm` on canonical rows -/
def mont : Mont RQ where
  toM := fun a => ⟨a.ci, RPoly.mapRows (fun q x => x.map fun c => (c * (Rword % q)) % q) a.p⟩
  ofM := fun a => ⟨a.ci, RPoly.mapRows (fun q x =>
    let ri := RPoly.modInv (Rword % q) q
    x.map fun c => (c * ri) % q) a.p⟩

/-- keep the first `l+1` rows -/
def atLevel (a : RQ) (l : Nat) : RQ := ⟨a.ci, a.p.atLevel l⟩

/-- concatenate the rows of a `Q` part and a `P` part -/
def joinQP (a b : RQ) : RQ := ⟨a.ci, { qs := a.p.qs ++ b.p.qs, c := a.p.c ++ b.p.c }⟩

/-- `ringqp.Ring.ExtendBasisSmallNormAndCenter`: the value of each coefficient is read off row 0 (`> q₀/2`
    means negative) and its magnitude is reduced into every `P` row (`p − (|c| mod p)` when negative, 0
    staying 0).  Precondition for the result to be the same integer polynomial: norm `< q₀/2`
    (`NewParameters` rejects distributions that do not fit when P is present, fix C03-10). -/
def extSmall (ps : List Nat) (x : RQ) : RQ :=
  let q0 := x.p.qs.headD 1
  let row0 := x.p.c.headD []
  let prow := fun (p : Nat) => row0.map fun (c : Nat) =>
    if c > q0 / 2 then (p - (q0 - c) % p) % p else c % p
  ⟨x.ci, { qs := x.p.qs ++ ps, c := x.p.c ++ ps.map prow }⟩

/-- The acceptance rule of `rlwe.NewParameters` for the distributions (fix C03-10): when an auxiliary modulus
    `P` is present, the bounds of the error and of the secret distribution must fit the FIRST prime of `Q`,
    `2·AbsBound < Q[0]`, because `extSmall` reads the value off limb 0.  `be2 = ⌊2·Xe.AbsBound⌋`,
    `bs2 = ⌊2·Xs.AbsBound⌋` (the Go test `2*bound >= float64(q[0])` is `⌊2·bound⌋ ≥ q[0]`). -/
def acceptsBounds (q0 : Nat) (hasP : Bool) (be2 bs2 : Nat) : Bool :=
  !hasP || (decide (be2 < q0) && decide (bs2 < q0))

/-- `BasisExtender.ModDownQPtoQ`: `x` has `nQ` rows over Q followed by rows over P; the result is
    `(x_Q − δ)·P⁻¹ mod q_i` with `δ ≡ x (mod P)` centred: `δ = ((x_P + ⌊P/2⌋) mod P) − ⌊P/2⌋`. -/
def modDown (nQ : Nat) (x : RQ) : RQ :=
  let qs := x.p.qs.take nQ
  let ps := x.p.qs.drop nQ
  let P := RPoly.prod ps
  let half := P / 2
  let prows := x.p.c.drop nQ
  let delta : List Int := (RPoly.transpose prows).map fun col =>
    let shifted := (ps.zip col).map fun (p, c) => (c + half) % p
    ((RPoly.crt ps shifted : Nat) : Int) - (half : Int)
  let rows := (qs.zip (x.p.c.take nQ)).map fun (q, row) =>
    let pinv := RPoly.modInv (P % q) q
    (row.zip delta).map fun (c, d) => ((((c : Int) - d) % (q : Int)).toNat * pinv) % q
  ⟨x.ci, { qs := qs, c := rows }⟩

/-- which encryption key the encryptor holds, as stored (NTT pulled back, Montgomery kept), full level -/
inductive Key where
  | none
  | sk (sQ : RQ)
  | pk (pk0Q pk0P pk1Q pk1P : RQ)

/-- the polynomials drawn during one `EncryptZero`, in call order.
    sk: `a` (uniform sampler), `e0` (xe).  pk: `u` (xs), `e0`, `e1` (xe). -/
structure Draws where
  a : RQ
  u : RQ
  e0 : RQ
  e1 : RQ

/-- `Encryptor.EncryptZero` on a `*Ciphertext` whose polynomials have `l+1` rows.
    `hasP` is `params.PCount() ≠ 0`, `p0` the first prime of P. `none` = panic (the key-less case is
    answered with an error by `encryptAt`). -/
def encryptZeroAt (key : Key) (hasP : Bool) (p0 : Nat) (l : Nat) (d : Draws) {μ : Type}
    (md : MetaData μ) (old : List RQ) : Option (List RQ) :=
  match key with
  | .none => none
  | .sk sQ => ezSk mont d.a d.e0 (sQ.atLevel l) md old
  | .pk pk0Q pk0P pk1Q pk1P =>
    if hasP then
      ezPk mont mont (extSmall [p0]) (modDown (l + 1)) d.u d.e0 d.e1
        (joinQP (pk0Q.atLevel l) (pk0P.atLevel 0)) (joinQP (pk1Q.atLevel l) (pk1P.atLevel 0)) md old
    else
      ezPkNoP mont d.u d.e0 d.e1 (pk0Q.atLevel l) (pk1Q.atLevel l) md old

/-- result of an API call -/
inductive Res (τ : Type) where
  | ok (v : τ)
  | err
  | panic

/-- `Encryptor.Encrypt(pt, ct)` with the level bookkeeping: `level = min(pt.Level(), ct.Level())`,
    `ct.Resize(ct.Degree(), level)`; the ring operations act on the first `level+1` rows of `pt`.
    `lc`, `lp` are the levels of `ct` and `pt`; the draws are made at `level`. -/
def encryptAt {μ : Type} (key : Key) (hasP : Bool) (p0 : Nat) (lc : Nat) (lp : Option Nat) (d : Draws)
    (pt : Option (Pt RQ μ)) (ct : Ct RQ μ) : Res (Nat × Ct RQ μ) :=
  match key with
  | .none => .err
  | _ =>
    if ct.value.isEmpty then .panic else
    let level := match lp with
      | some lp => min lp lc
      | none => lc
    let ct' : Ct RQ μ := { value := ct.value.map (·.atLevel level), md := ct.md }
    let pt' := pt.map fun pt => ({ value := pt.value.atLevel level, md := pt.md } : Pt RQ μ)
    match encrypt (encryptZeroAt key hasP p0 level d) id id pt' ct' with
    | some r => .ok (level, r)
    | none => .panic

/-- `Decryptor.Decrypt(ct, pt)`: `level = min(ct.Level(), pt.Level())`, output at `level`. -/
def decryptAt {μ : Type} (sQ : RQ) (lc lp : Nat) (ct : Ct RQ μ) : Res (Nat × Pt RQ μ) :=
  let level := min lc lp
  let ct' : Ct RQ μ := { value := ct.value.map (·.atLevel level), md := ct.md }
  match decrypt mont ct' (sQ.atLevel level) with
  | some r => .ok (level, r)
  | none => .panic

end RQ
end Lattigo.RLWE

/-! ## The integer ring `Z[X]/(X^N+1)` on coefficient lists (for the norm statements)

  Exact (no modulus) negacyclic product with the same index formula as `RPoly.rowMul`:
  `(a·b)_k = Σ_{i≤k} a_i b_{k-i} − Σ_{i>k} a_i b_{N+k-i}`. -/
namespace Lattigo.ZPoly

def coeff (a : List Int) (i : Nat) : Int := a.getD i 0

def mulTerm (b : List Int) (n k : Nat) (xi : Int × Nat) : Int :=
  if xi.2 ≤ k then xi.1 * coeff b (k - xi.2) else -(xi.1 * coeff b (n + k - xi.2))

def mulCoeff (a b : List Int) (k : Nat) : Int := ((a.zipIdx).map (mulTerm b a.length k)).sum

def mul (a b : List Int) : List Int := (List.range a.length).map (mulCoeff a b)

def add (a b : List Int) : List Int := List.zipWith (· + ·) a b

def sub (a b : List Int) : List Int := List.zipWith (· - ·) a b

def smul (k : Int) (a : List Int) : List Int := a.map (k * ·)

def norm1 (a : List Int) : Nat := (a.map Int.natAbs).sum

def normInf (a : List Int) : Nat := a.foldr (fun x m => max x.natAbs m) 0

end Lattigo.ZPoly
