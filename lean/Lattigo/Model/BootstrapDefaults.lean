/-
  C18 — the shipped default bootstrapping parameter sets: every entry of every `Default…` list of
  circuits/ckks/bootstrapping/default_parameters.go, as a table

      (list, index) ↦ (variable name, announced precision in tenths of a bit, every non-zero field of the literal).

  GENERATED from the source file at /repo HEAD 03bbebc with go/ast (harness/c18_defaults.go:
  `C18_PRINT_DEFAULTS=1 harness gen C18 -seed 1 -tier quick -out /tmp/x 2>table.lean`); regenerate it only when the
  upstream defaults legitimately change. The harness ties to this table, per entry,
    * the RUNTIME value of the list element (reflection over all fields: `default_literal`),
    * the SOURCE literal, its variable name and the "Precision : x bits" of its doc comment (`default_source`),
    * the announced precision the harness uses as threshold of `bootstrap_precision` (`default_announced`),
  so an edited, dropped, added or re-ordered entry is a tie mismatch. Rendering: `Type{field=value,…}` with the non-zero
  fields sorted by name, `&v` a non-nil pointer, `[a,b]` a slice.
-/
namespace Lattigo.Model.Bootstrap

structure ShippedDefault where
  list : String
  idx : Nat
  name : String
  announcedTenths : Int
  literal : String

def shippedDefaults : List ShippedDefault := [
  { list := "DefaultParametersSparse", idx := 0, name := "N16QP1546H192H32", announcedTenths := 266,
    literal := "defaultParametersLiteral{SchemeParams=ParametersLiteral{LogDefaultScale=40,LogN=16,LogP=[61,61,61,61,61],LogQ=[60,40,40,40,40,40,40,40,40,40],Xs=Ternary{H=192}}}" },
  { list := "DefaultParametersSparse", idx := 1, name := "N16QP1547H192H32", announcedTenths := 321,
    literal := "defaultParametersLiteral{BootstrappingParams=ParametersLiteral{CoeffsToSlotsFactorizationDepthAndLogScales=[[58],[58],[58],[58]],LogMessageRatio=&2,Mod1InvDegree=&7,SlotsToCoeffsFactorizationDepthAndLogScales=[[42],[42],[42]]},SchemeParams=ParametersLiteral{LogDefaultScale=45,LogN=16,LogP=[61,61,61,61],LogQ=[60,45,45,45,45,45],Xs=Ternary{H=192}}}" },
  { list := "DefaultParametersSparse", idx := 2, name := "N16QP1553H192H32", announcedTenths := 191,
    literal := "defaultParametersLiteral{BootstrappingParams=ParametersLiteral{CoeffsToSlotsFactorizationDepthAndLogScales=[[53],[53],[53],[53]],EvalModLogScale=&55,SlotsToCoeffsFactorizationDepthAndLogScales=[[30],[30,30]]},SchemeParams=ParametersLiteral{LogDefaultScale=30,LogN=16,LogP=[61,61,61,61,61],LogQ=[55,60,60,60,60,60,60,60],Xs=Ternary{H=192}}}" },
  { list := "DefaultParametersSparse", idx := 3, name := "N15QP768H192H32", announcedTenths := 154,
    literal := "defaultParametersLiteral{BootstrappingParams=ParametersLiteral{CoeffsToSlotsFactorizationDepthAndLogScales=[[49],[49]],EvalModLogScale=&50,SlotsToCoeffsFactorizationDepthAndLogScales=[[30,30]]},SchemeParams=ParametersLiteral{LogDefaultScale=25,LogN=15,LogP=[51,51],LogQ=[33,50,25],Xs=Ternary{H=192}}}" },
  { list := "DefaultParametersDense", idx := 0, name := "N16QP1767H32768H32", announcedTenths := 238,
    literal := "defaultParametersLiteral{SchemeParams=ParametersLiteral{LogDefaultScale=40,LogN=16,LogP=[61,61,61,61,61,61],LogQ=[60,40,40,40,40,40,40,40,40,40,40,40,40,40],Xs=Ternary{H=32768}}}" },
  { list := "DefaultParametersDense", idx := 1, name := "N16QP1788H32768H32", announcedTenths := 298,
    literal := "defaultParametersLiteral{BootstrappingParams=ParametersLiteral{CoeffsToSlotsFactorizationDepthAndLogScales=[[58],[58],[58],[58]],LogMessageRatio=&2,Mod1InvDegree=&7,SlotsToCoeffsFactorizationDepthAndLogScales=[[42],[42],[42]]},SchemeParams=ParametersLiteral{LogDefaultScale=45,LogN=16,LogP=[61,61,61,61,61],LogQ=[60,45,45,45,45,45,45,45,45,45],Xs=Ternary{H=32768}}}" },
  { list := "DefaultParametersDense", idx := 2, name := "N16QP1793H32768H32", announcedTenths := 178,
    literal := "defaultParametersLiteral{BootstrappingParams=ParametersLiteral{CoeffsToSlotsFactorizationDepthAndLogScales=[[53],[53],[53],[53]],EvalModLogScale=&55,SlotsToCoeffsFactorizationDepthAndLogScales=[[30],[30,30]]},SchemeParams=ParametersLiteral{LogDefaultScale=30,LogN=16,LogP=[61,61,61,61,61],LogQ=[55,60,60,60,60,60,60,60,60,60,60,60,60,30],Xs=Ternary{H=32768}}}" },
  { list := "DefaultParametersDense", idx := 3, name := "N15QP880H16384H32", announcedTenths := 173,
    literal := "defaultParametersLiteral{BootstrappingParams=ParametersLiteral{CoeffsToSlotsFactorizationDepthAndLogScales=[[52],[52]],EvalModLogScale=&55,SlotsToCoeffsFactorizationDepthAndLogScales=[[30,30]]},SchemeParams=ParametersLiteral{LogDefaultScale=31,LogN=15,LogP=[56,56],LogQ=[40,31,31,31,31],Xs=Ternary{H=16384}}}" }
]

def shippedDefault? (list : String) (idx : Nat) : Option ShippedDefault :=
  shippedDefaults.find? fun d => d.list == list && d.idx == idx

def shippedListLength (list : String) : Nat := (shippedDefaults.filter fun d => d.list == list).length

/-! ## Documented defaults of the optional fields of `bootstrapping.ParametersLiteral`

  (doc comment of the type and the `Default…` constants of parameters_literal.go at /repo HEAD 7bb6955). They do not depend
  on `Mod1Type`, except that the sine takes no double angle (the field "only applies for cos"). Tied by `literal_default`
  (the `Get…()` of an all-nil literal, per Mod1Type), `literal_default_const` (constants read from the source) and
  `literal_default_doc` ("by default set to x" of the doc comment). `CoeffsToSlots` / `SlotsToCoeffs` are for LogSlots = 15. -/

def literalDefault (mod1Type field : String) : Option String :=
  match field with
  | "LogN" => some "16"
  | "LogSlots" => some "15"
  | "EvalModLogScale" => some "60"
  | "EphemeralSecretWeight" => some "32"
  | "LogMessageRatio" => some "8"
  | "K" => some "16"
  | "Mod1Degree" => some "30"
  | "DoubleAngle" => some (if mod1Type == "SinContinuous" then "0" else "3")
  | "Mod1InvDegree" => some "0"
  | "CoeffsToSlots" => some "56/56/56/56"
  | "SlotsToCoeffs" => some "39/39/39"
  | "Xs" => some "Ternary{H=192}"
  | "IterationsParameters" => some "nil"
  | _ => none

def defaultConst : String → Option String
  | "DefaultLogN" => some "16"
  | "DefaultCoeffsToSlotsFactorizationDepth" => some "4"
  | "DefaultSlotsToCoeffsFactorizationDepth" => some "3"
  | "DefaultCoeffsToSlotsLogScale" => some "56"
  | "DefaultSlotsToCoeffsLogScale" => some "39"
  | "DefaultEvalModLogScale" => some "60"
  | "DefaultEphemeralSecretWeight" => some "32"
  | "DefaultIterations" => some "1"
  | "DefaultMod1Type" => some "CosDiscrete"
  | "DefaultLogMessageRatio" => some "8"
  | "DefaultK" => some "16"
  | "DefaultMod1Degree" => some "30"
  | "DefaultDoubleAngle" => some "3"
  | "DefaultMod1InvDegree" => some "0"
  | "DefaultXs" => some "Ternary{H=192}"
  | _ => none

def defaultDoc : String → Option String
  | "EphemeralSecretWeight" => some "32"
  | "LogMessageRatio" => some "8"
  | "Mod1Type" => some "mod1.CosDiscrete"
  | "K" => some "16"
  | "Mod1Degree" => some "30"
  | "DoubleAngle" => some "3"
  | "Mod1InvDegree" => some "0"
  | _ => none

end Lattigo.Model.Bootstrap
