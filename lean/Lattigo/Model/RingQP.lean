/-
  C01: two small twins of /repo/ring that had no model yet.  Core Lean only.

  1. `ringqp.Ring.MulRNSScalarMontgomery` (ring/ringqp/operations.go) and the layout of an RNS scalar of R_QP:
     one residue per modulus of the WHOLE chain of Q, then the residues modulo the moduli of P — independent of
     the level of the view the operation runs on, so that a scalar computed with the full ring (a Lagrange
     coefficient of multiparty.Combiner) can be applied on `AtLevel(levelQ, levelP)`.
  2. `ring.Ring.Automorphism` OUTSIDE the NTT domain on the conjugate-invariant ring Z[X+X^-1]/(X^2N+1)
     (ring/automorphism.go, first branch): the loop over the 2N exponents of the unfolded polynomial.
-/
import Lattigo.Gen.ModRed
import Lattigo.Model.RPoly

namespace Lattigo.RingQP
open Lattigo Lattigo.Gen

/-- `ring.Ring.MulRNSScalarMontgomery` on `rows` active rows: `s.MulScalarMontgomery(p1.Coeffs[i], scalar[i], …)`,
i.e. `MRed(x, scalar[i], q_i, qinv_i)` on every coefficient of row `i` -/
def mulRNSRows (qs : List Nat) (rows : Nat) (p : List (List Nat)) (s : List Nat) : List (List Nat) :=
  (List.range rows).map fun i =>
    (p.getD i []).map fun x => MRed x (s.getD i 0) (qs.getD i 0) (GenMRedConstant (qs.getD i 0))

/-- `ringqp.Ring.MulRNSScalarMontgomery` with the scalar split at index `split`
(`scalarQ, scalarP := scalar[:split], scalar[split:]`) on the view with `nq` rows of Q and `np` rows of P. -/
def mulRNSScalarMontgomeryAt (split : Nat) (qs ps : List Nat) (nq np : Nat)
    (pQ pP : List (List Nat)) (s : List Nat) : List (List Nat) × List (List Nat) :=
  (mulRNSRows qs nq pQ (s.take split), mulRNSRows ps np pP (s.drop split))

/-- the function as written: the split index is `RingQ.ModuliChainLength()`, the length of the whole chain of Q -/
def mulRNSScalarMontgomery (qs ps : List Nat) (nq np : Nat) (pQ pP : List (List Nat)) (s : List Nat) :
    List (List Nat) × List (List Nat) :=
  mulRNSScalarMontgomeryAt qs.length qs ps nq np pQ pP s

/-- the RNS scalar of the integer `v·2^64` (Montgomery form) in the layout `[all of Q | all of P]` -/
def montScalar (qs ps : List Nat) (v : Nat) : List Nat :=
  qs.map (fun q => v * W % q) ++ ps.map (fun p => v * W % p)

/-! ### `ring.Automorphism`, conjugate-invariant ring, coefficient domain -/

/-- the polynomial of `Z_q[X]/(X^2n+1)` a conjugate-invariant row `x` (length `n`) stands for:
`x_0 + Σ_{j≥1} x_j (X^j + X^-j)`, `X^-j = −X^(2n−j)`; the coefficient of `X^n` is `0` -/
def unfoldCI (q : Nat) (x : List Nat) : List Nat :=
  let n := x.length
  (List.range (2 * n)).map fun i =>
    if i < n then x.getD i 0 else if i = n then 0 else (q - x.getD (2 * n - i) 0 % q) % q

/-- `Ring.Automorphism`, branch `r.Type() == ConjugateInvariant`, on one row: for `i` in `[0, 2N)`,
`indexRaw = i·gen`, `index = indexRaw & (2N−1)`, `tmp = (indexRaw >> log2(2N)) & 1`; when `index < N`:
`idx = i` (resp. `2N − i` and `tmp ^= 1` when `i ≥ N`) and `out[index] = ±in[idx]` (minus iff `tmp = 1`).
The negated coefficient is written in canonical form (the code stores `q − v`, i.e. `q` for `v = 0`). -/
def rowAutCI (g : Nat) (q : Nat) (x : List Nat) : List Nat :=
  let n := x.length
  let r := (List.range (2 * n)).foldl (fun (acc : Array Nat) i =>
    let e := (i * g) % (4 * n)
    let index := e % (2 * n)
    let tmp := e / (2 * n)
    if index < n then
      let idx := if n ≤ i then 2 * n - i else i
      let neg := if n ≤ i then tmp = 0 else tmp = 1
      let v := x[idx]!
      acc.set! index (if neg then (q - v % q) % q else v)
    else acc) (Array.replicate n 0)
  r.toList

def autCI (a : RPoly) (g : Nat) : RPoly := RPoly.mapRows (rowAutCI g) a

end Lattigo.RingQP
