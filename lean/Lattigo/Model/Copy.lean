/-
  C10 — `Copy`: (1) the classification of the fields of every copy constructor of lattigo
  (`ShallowCopy / WithKey / WithPRNG / CopyNew / AtLevel`), as read from the Go sources and tied to
  the reflection walk of the harness (`table <Type.Ctor>` lines must be reproduced exactly);
  (2) copy constructors as functions on records of classified fields with explicit addresses;
  (3) a small-step model of agents (goroutines) running step sequences on a shared store, for the
  non-interference theorem.   Core Lean only.
-/
namespace Lattigo.Copy

/-- role of a field of the COPY relative to the original -/
inductive FieldClass
  | config         -- plain value, copied
  | configChanged  -- plain value NOT carried over (reset / recomputed): `level` of Ring.AtLevel, and
                   -- (`ScaleInvariant` of bgv.Evaluator.WithKey before fix C10-2)
  | sharedRO       -- same memory, never written after construction (parameters, rings, tables, keys)
  | sharedCache    -- same memory, written lazily by either side (rlwe.Evaluator.automorphismIndex BEFORE
                   -- fix C10-4; no field of the current table has this class)
  | sharedScratch  -- same memory used as scratch / PRNG state: documented "cannot be used concurrently"
  | owned          -- freshly allocated, same content (scratch buffers, deep-copied data); "content" includes
                   -- the precision of every big.Float of an arbitrary-precision buffer (ckks.Encoder with
                   -- precision > 53: rows `ckks.Encoder.ShallowCopy[prec…]`)
  | rng            -- freshly allocated, fresh randomness (new PRNG per shallow copy)
  | replaced       -- freshly supplied by the caller or recomputed (new key, new index map)
  | retyped        -- interface field now holding a value of another dynamic type (WithKey sk↔pk)
  | nested         -- a nested object that is itself a shallow copy (fresh shell, shared read-only inside), or an
                   -- object rebuilt by its constructor over the copy's own parts (dft / mod1 evaluators of a
                   -- bootstrapping evaluator, a second `NewEvaluator` instance)
  | nestedScratch  -- a nested object that is a fresh shell around scratch / PRNG state SHARED with the original's
                   -- (a level view of a sampler inside a wrapper: ringqp.UniformSampler.AtLevel)
  | absent         -- nil in both
  | dropped        -- set in the original, nil in the copy (a defect for a copy constructor)
  | added
deriving DecidableEq, Repr

/-- what the reflection walk of the harness can observe -/
def FieldClass.observed : FieldClass → String
  | .config => "config" | .configChanged => "config-changed"
  | .sharedRO => "shared" | .sharedCache => "shared" | .sharedScratch => "shared"
  | .owned => "owned" | .rng => "fresh" | .replaced => "fresh" | .retyped => "retyped"
  | .nested => "mixed" | .nestedScratch => "mixed" | .absent => "nil" | .dropped => "dropped" | .added => "added"

/-- may the field be touched by two goroutines holding the original and the copy? -/
def FieldClass.concurrentSafe : FieldClass → Bool
  | .sharedCache => false | .sharedScratch => false | .nestedScratch => false | _ => true

/-- is the copy complete w.r.t. this field (nothing the original had is lost)? -/
def FieldClass.complete : FieldClass → Bool
  | .dropped => false | .configChanged => false | _ => true

abbrev Row := List (String × FieldClass)

/-- the table: `Type.Ctor` ↦ fields sorted by name (as printed by the harness) -/
def table : List (String × Row) := [
  ("rlwe.Evaluator.ShallowCopy", [("BasisExtender", .nested), ("Decomposer", .sharedRO), ("EvaluationKeySet", .sharedRO), ("EvaluatorBuffers", .owned), ("automorphismIndex", .sharedRO), ("params", .sharedRO)]),
  ("rlwe.Evaluator.WithKey", [("BasisExtender", .sharedScratch), ("Decomposer", .sharedRO), ("EvaluationKeySet", .replaced), ("EvaluatorBuffers", .sharedScratch), ("automorphismIndex", .replaced), ("params", .sharedRO)]),
  ("rlwe.Encryptor.ShallowCopy", [("basisextender", .nested), ("encKey", .sharedRO), ("encryptorBuffers", .owned), ("params", .sharedRO), ("prng", .rng), ("uniformSampler", .nested), ("xeSampler", .nested), ("xsSampler", .nested)]),
  ("rlwe.Encryptor.ShallowCopy[pk]", [("basisextender", .nested), ("encKey", .sharedRO), ("encryptorBuffers", .owned), ("params", .sharedRO), ("prng", .rng), ("uniformSampler", .nested), ("xeSampler", .nested), ("xsSampler", .nested)]),
  ("rlwe.Encryptor.WithKey", [("basisextender", .sharedScratch), ("encKey", .retyped), ("encryptorBuffers", .sharedScratch), ("params", .sharedRO), ("prng", .sharedScratch), ("uniformSampler", .sharedScratch), ("xeSampler", .sharedScratch), ("xsSampler", .sharedScratch)]),
  ("rlwe.Encryptor.WithPRNG", [("basisextender", .sharedScratch), ("encKey", .sharedRO), ("encryptorBuffers", .sharedScratch), ("params", .sharedRO), ("prng", .sharedScratch), ("uniformSampler", .nested), ("xeSampler", .sharedScratch), ("xsSampler", .sharedScratch)]),
  ("rlwe.Decryptor.ShallowCopy", [("buff", .owned), ("params", .sharedRO), ("ringQ", .sharedRO), ("sk", .sharedRO)]),
  ("rlwe.Decryptor.WithKey", [("buff", .owned), ("params", .sharedRO), ("ringQ", .sharedRO), ("sk", .replaced)]),
  ("rlwe.SecretKey.CopyNew", [("Value", .owned)]),
  ("rlwe.PublicKey.CopyNew", [("Value", .owned)]),
  ("rlwe.EvaluationKey.CopyNew", [("GadgetCiphertext", .owned), ("Seed", .absent)]),
  ("rlwe.EvaluationKey.CopyNew[compressed]", [("GadgetCiphertext", .owned), ("Seed", .owned)]),
  ("rlwe.RelinearizationKey.CopyNew", [("EvaluationKey", .owned)]),
  ("rlwe.GaloisKey.CopyNew", [("EvaluationKey", .owned), ("GaloisElement", .config), ("NthRoot", .config)]),
  ("rlwe.Ciphertext.CopyNew", [("Element", .owned)]),
  ("rlwe.Plaintext.CopyNew", [("Element", .owned), ("Value", .owned)]),
  ("rlwe.MemEvaluationKeySet.ShallowCopy", [("GaloisKeys", .sharedRO), ("RelinearizationKey", .sharedRO)]),
  ("ring.BasisExtender.ShallowCopy", [("buffP", .owned), ("buffQ", .owned), ("constantsPtoQ", .sharedRO), ("constantsQtoP", .sharedRO), ("modDownConstantsPtoQ", .sharedRO), ("modDownConstantsQtoP", .sharedRO), ("ringP", .sharedRO), ("ringQ", .sharedRO)]),
  ("ring.Ring.AtLevel", [("ModulusAtLevel", .sharedRO), ("RescaleConstants", .sharedRO), ("SubRings", .sharedRO), ("level", .configChanged)]),
  -- ring-level views and siblings (ring/ring.go): the sibling ring of a ring — also of a VIEW taken AtLevel(l) — has fresh
  -- SubRings (other degree, other NTT), shares the RNS constants and KEEPS the level of the receiver (`config`)
  ("ring.Ring.AtLevel[view-of-view]", [("ModulusAtLevel", .sharedRO), ("RescaleConstants", .sharedRO), ("SubRings", .sharedRO), ("level", .configChanged)]),
  ("ring.Ring.ConjugateInvariantRing", [("ModulusAtLevel", .sharedRO), ("RescaleConstants", .sharedRO), ("SubRings", .replaced), ("level", .config)]),
  ("ring.Ring.ConjugateInvariantRing[AtLevel(1)]", [("ModulusAtLevel", .sharedRO), ("RescaleConstants", .sharedRO), ("SubRings", .replaced), ("level", .config)]),
  ("ring.Ring.StandardRing[of-CI]", [("ModulusAtLevel", .sharedRO), ("RescaleConstants", .sharedRO), ("SubRings", .replaced), ("level", .config)]),
  ("ring.Ring.StandardRing[of-CI][AtLevel(1)]", [("ModulusAtLevel", .sharedRO), ("RescaleConstants", .sharedRO), ("SubRings", .replaced), ("level", .config)]),
  ("ring.Ring.StandardRing[identity]", [("ModulusAtLevel", .sharedRO), ("RescaleConstants", .sharedRO), ("SubRings", .sharedRO), ("level", .config)]),
  ("ring.Ring.StandardRing[identity][AtLevel(1)]", [("ModulusAtLevel", .sharedRO), ("RescaleConstants", .sharedRO), ("SubRings", .sharedRO), ("level", .config)]),
  ("ring.Ring.ConjugateInvariantRing[identity]", [("ModulusAtLevel", .sharedRO), ("RescaleConstants", .sharedRO), ("SubRings", .sharedRO), ("level", .config)]),
  ("ring.Ring.ConjugateInvariantRing[identity][AtLevel(1)]", [("ModulusAtLevel", .sharedRO), ("RescaleConstants", .sharedRO), ("SubRings", .sharedRO), ("level", .config)]),
  ("ring.UniformSampler.AtLevel", [("baseSampler", .nested), ("randomBuffer", .sharedScratch)]),
  ("ring.UniformSampler.WithPRNG", [("baseSampler", .nested), ("randomBuffer", .owned)]),
  ("ring.GaussianSampler.AtLevel", [("baseSampler", .nested), ("montgomery", .config), ("randomBuffer", .sharedScratch), ("xe", .config)]),
  ("ring.TernarySampler.AtLevel", [("baseSampler", .nested), ("hw", .config), ("invDensity", .config), ("matrixProba", .config), ("matrixValues", .sharedRO), ("sample", .config)]),
  ("bgv.Evaluator.ShallowCopy", [("Encoder", .nested), ("Evaluator", .nested), ("ScaleInvariant", .config), ("evaluatorBase", .nested), ("evaluatorBuffers", .owned)]),
  ("bgv.Evaluator.ShallowCopy[ScaleInvariant]", [("Encoder", .nested), ("Evaluator", .nested), ("ScaleInvariant", .config), ("evaluatorBase", .nested), ("evaluatorBuffers", .owned)]),
  ("bgv.Evaluator.WithKey", [("Encoder", .sharedScratch), ("Evaluator", .nested), ("ScaleInvariant", .config), ("evaluatorBase", .sharedRO), ("evaluatorBuffers", .sharedScratch)]),
  ("bgv.Encoder.ShallowCopy", [("bufB", .absent), ("bufQ", .owned), ("bufT", .owned), ("indexMatrix", .sharedRO), ("parameters", .sharedRO), ("paramsQP", .sharedRO), ("qHalf", .sharedRO), ("tInvModQ", .sharedRO)]),
  ("ckks.Evaluator.ShallowCopy", [("Encoder", .nested), ("Evaluator", .nested), ("evaluatorBuffers", .owned)]),
  ("ckks.Evaluator.WithKey", [("Encoder", .sharedScratch), ("Evaluator", .nested), ("evaluatorBuffers", .sharedScratch)]),
  ("ckks.Encoder.ShallowCopy", [("bigintCoeffs", .owned), ("buff", .owned), ("buffCmplx", .replaced), ("m", .config), ("parameters", .sharedRO), ("prec", .config), ("qHalf", .owned), ("roots", .sharedRO), ("rotGroup", .sharedRO)]),
  ("ckks.Encoder.ShallowCopy[prec64]", [("bigintCoeffs", .owned), ("buff", .owned), ("buffCmplx", .owned), ("m", .config), ("parameters", .sharedRO), ("prec", .config), ("qHalf", .owned), ("roots", .sharedRO), ("rotGroup", .sharedRO)]),
  ("ckks.Encoder.ShallowCopy[prec128]", [("bigintCoeffs", .owned), ("buff", .owned), ("buffCmplx", .owned), ("m", .config), ("parameters", .sharedRO), ("prec", .config), ("qHalf", .owned), ("roots", .sharedRO), ("rotGroup", .sharedRO)]),
  ("ckks.Encoder.ShallowCopy[prec256]", [("bigintCoeffs", .owned), ("buff", .owned), ("buffCmplx", .owned), ("m", .config), ("parameters", .sharedRO), ("prec", .config), ("qHalf", .owned), ("roots", .sharedRO), ("rotGroup", .sharedRO)]),
  ("ckks.Encoder.ShallowCopy[LogDefaultScale60]", [("bigintCoeffs", .owned), ("buff", .owned), ("buffCmplx", .owned), ("m", .config), ("parameters", .sharedRO), ("prec", .config), ("qHalf", .owned), ("roots", .sharedRO), ("rotGroup", .sharedRO)]),
  ("rgsw.Evaluator.ShallowCopy", [("Evaluator", .nested)]),
  ("rgsw.Evaluator.WithKey", [("Evaluator", .nested)]),
  ("rgsw.Encryptor.ShallowCopy", [("Encryptor", .nested), ("buffQP", .owned)]),
  ("multiparty.PublicKeyGenProtocol.ShallowCopy", [("gaussianSamplerQ", .nested), ("params", .sharedRO)]),
  ("multiparty.EvaluationKeyGenProtocol.ShallowCopy", [("buff", .owned), ("gaussianSamplerQ", .nested), ("params", .sharedRO)]),
  ("multiparty.GaloisKeyGenProtocol.ShallowCopy", [("EvaluationKeyGenProtocol", .nested), ("skOut", .owned)]),
  ("multiparty.RelinearizationKeyGenProtocol.ShallowCopy", [("buf", .owned), ("gaussianSamplerQ", .nested), ("params", .sharedRO), ("ternarySamplerQ", .nested)]),
  ("multiparty.KeySwitchProtocol.ShallowCopy", [("buf", .owned), ("bufDelta", .owned), ("noise", .config), ("noiseSampler", .nested), ("params", .sharedRO)]),
  ("multiparty.PublicKeySwitchProtocol.ShallowCopy", [("Encryptor", .nested), ("buf", .owned), ("noise", .config), ("noiseSampler", .nested), ("params", .sharedRO)]),
  ("mpbgv.EncToShareProtocol.ShallowCopy", [("KeySwitchProtocol", .nested), ("encoder", .nested), ("maskSampler", .nested), ("params", .sharedRO), ("tmpPlaintextRingQ", .owned), ("tmpPlaintextRingT", .owned), ("zero", .sharedRO)]),
  ("mpbgv.ShareToEncProtocol.ShallowCopy", [("KeySwitchProtocol", .nested), ("encoder", .nested), ("params", .sharedRO), ("tmpPlaintextRingQ", .owned), ("zero", .sharedRO)]),
  ("mpbgv.MaskedTransformProtocol.ShallowCopy", [("e2s", .nested), ("s2e", .nested), ("tmpMask", .owned), ("tmpMaskPerm", .owned), ("tmpPt", .owned)]),
  ("mpckks.EncToShareProtocol.ShallowCopy", [("KeySwitchProtocol", .nested), ("buff", .owned), ("maskBigint", .owned), ("params", .sharedRO), ("zero", .sharedRO)]),
  ("mpckks.ShareToEncProtocol.ShallowCopy", [("KeySwitchProtocol", .nested), ("params", .sharedRO), ("ssBigint", .owned), ("tmp", .owned), ("zero", .sharedRO)]),
  ("mpckks.MaskedLinearTransformationProtocol.ShallowCopy", [("defaultScale", .sharedRO), ("e2s", .nested), ("encoder", .nested), ("mask", .owned), ("noise", .config), ("prec", .config), ("s2e", .nested)]),
  -- rows added for the circuits / ring-packing / blind-rotation / ringqp layers and the missing multiparty constructors.
  -- Notes: (1) dft.Evaluator, mod1.Evaluator and blindrot.Evaluator have NO copy constructor: their rows describe the copy
  -- idiom (`NewEvaluator` over a shallow copy of the ckks evaluator, resp. a second `NewEvaluator` instance); the promoted
  -- `blindrot.Evaluator.ShallowCopy` is `rgsw.Evaluator.ShallowCopy` and returns an *rgsw.Evaluator.
  -- (2) `mpckks.MaskedLinearTransformationProtocol.WithParams` did not carry `noise` over before fix C10-7 (class `.dropped`,
  -- finding C10/mpckks.MaskedLinearTransformationProtocol.WithParams/drops-noise); with the fix the class is `.config`;
  -- `defaultScale` is recomputed from the new parameters (equal content when they are the old ones, as in the tie).
  -- (3) `ringqp.UniformSampler.AtLevel` wraps level views of its two ring samplers: block buffers, read pointers and PRNG are
  -- shared with the receiver, which its doc comment ("a shallow copy") does not say
  -- (finding C10/ringqp.UniformSampler.AtLevel/shares-state-undocumented).
  ("ring.GaussianSampler.AtLevel[montgomery]", [("baseSampler", .nested), ("montgomery", .config), ("randomBuffer", .sharedScratch), ("xe", .config)]),
  ("ring.TernarySampler.AtLevel[P=1/3]", [("baseSampler", .nested), ("hw", .config), ("invDensity", .config), ("matrixProba", .config), ("matrixValues", .sharedRO), ("sample", .config)]),
  ("ring.TernarySampler.AtLevel[H]", [("baseSampler", .nested), ("hw", .config), ("invDensity", .config), ("matrixProba", .config), ("matrixValues", .sharedRO), ("sample", .config)]),
  ("ring.TernarySampler.AtLevel[montgomery]", [("baseSampler", .nested), ("hw", .config), ("invDensity", .config), ("matrixProba", .config), ("matrixValues", .sharedRO), ("sample", .config)]),
  ("ringqp.Ring.AtLevel", [("RingP", .nested), ("RingQ", .nested)]),
  ("ringqp.UniformSampler.AtLevel", [("samplerP", .nestedScratch), ("samplerQ", .nestedScratch)]),
  ("ringqp.UniformSampler.WithPRNG", [("samplerP", .nested), ("samplerQ", .nested)]),
  ("ring.Poly.CopyNew", [("Coeffs", .owned)]),
  ("ringqp.Poly.CopyNew", [("P", .owned), ("Q", .owned)]),
  ("rlwe.GadgetCiphertext.CopyNew", [("BaseTwoDecomposition", .config), ("Value", .owned)]),
  ("rlwe.MetaData.CopyNew", [("CiphertextMetaData", .config), ("PlaintextMetaData", .owned)]),
  ("rlwe.RingPackingEvaluator.ShallowCopy", [("Evaluators", .nested), ("RingPackingEvaluationKey", .sharedRO), ("XInvPow2NTT", .sharedRO), ("XPow2NTT", .sharedRO)]),
  ("rlwe.RingPackingEvaluator.ShallowCopy/Evaluators", [("BasisExtender", .nested), ("Decomposer", .sharedRO), ("EvaluationKeySet", .absent), ("EvaluatorBuffers", .owned), ("automorphismIndex", .absent), ("params", .sharedRO)]),
  ("blindrot.Evaluator.NewEvaluator[second-instance]", [("Evaluator", .nested), ("accumulator", .owned), ("galoisGenDiscreteLog", .owned), ("paramsBR", .sharedRO), ("paramsLWE", .sharedRO), ("poolMod2N", .owned)]),
  ("blindrot.Evaluator.ShallowCopy[promoted:rgsw.Evaluator]", [("Evaluator", .nested)]),
  ("mpbgv.RefreshProtocol.ShallowCopy", [("MaskedTransformProtocol", .nested)]),
  ("mpckks.MaskedLinearTransformationProtocol.WithParams", [("defaultScale", .owned), ("e2s", .nested), ("encoder", .nested), ("mask", .owned), ("noise", .config), ("prec", .config), ("s2e", .nested)]),
  ("mpckks.RefreshProtocol.ShallowCopy", [("MaskedLinearTransformationProtocol", .nested)]),
  ("dft.Evaluator.NewEvaluator[over-ShallowCopy]", [("Evaluator", .nested), ("LTEvaluator", .nested), ("parameters", .sharedRO)]),
  ("mod1.Evaluator.NewEvaluator[over-ShallowCopy]", [("Evaluator", .nested), ("Parameters", .sharedRO), ("PolynomialEvaluator", .nested)]),
  ("bootstrapping.Evaluator.ShallowCopy", [("C2SDFTMatrix", .sharedRO), ("DFTEvaluator", .nested), ("DomainSwitcher", .absent), ("EvaluationKeys", .sharedRO), ("Evaluator", .nested), ("Mod1Evaluator", .nested), ("Mod1Parameters", .sharedRO), ("Parameters", .sharedRO), ("S2CDFTMatrix", .sharedRO), ("SkDebug", .absent), ("xPow2InvN1", .absent), ("xPow2InvN2", .sharedRO), ("xPow2N1", .absent), ("xPow2N2", .sharedRO)]),
  ("bootstrapping.Evaluator.ShallowCopy/DFTEvaluator", [("Evaluator", .nested), ("LTEvaluator", .nested), ("parameters", .sharedRO)]),
  ("bootstrapping.Evaluator.ShallowCopy/Mod1Evaluator", [("Evaluator", .nested), ("Parameters", .sharedRO), ("PolynomialEvaluator", .nested)]),
  ("bootstrapping.Evaluator.ShallowCopy[SkDebug]", [("C2SDFTMatrix", .sharedRO), ("DFTEvaluator", .nested), ("DomainSwitcher", .absent), ("EvaluationKeys", .sharedRO), ("Evaluator", .nested), ("Mod1Evaluator", .nested), ("Mod1Parameters", .sharedRO), ("Parameters", .sharedRO), ("S2CDFTMatrix", .sharedRO), ("SkDebug", .sharedRO), ("xPow2InvN1", .absent), ("xPow2InvN2", .sharedRO), ("xPow2N1", .absent), ("xPow2N2", .sharedRO)]),
  ("bootstrapping.Evaluator.ShallowCopy[N1<N2]", [("C2SDFTMatrix", .sharedRO), ("DFTEvaluator", .nested), ("DomainSwitcher", .absent), ("EvaluationKeys", .sharedRO), ("Evaluator", .nested), ("Mod1Evaluator", .nested), ("Mod1Parameters", .sharedRO), ("Parameters", .sharedRO), ("S2CDFTMatrix", .sharedRO), ("SkDebug", .absent), ("xPow2InvN1", .sharedRO), ("xPow2InvN2", .sharedRO), ("xPow2N1", .sharedRO), ("xPow2N2", .sharedRO)]),
  ("bootstrapping.Evaluator.ShallowCopy[ConjugateInvariant]", [("C2SDFTMatrix", .sharedRO), ("DFTEvaluator", .nested), ("DomainSwitcher", .nested), ("EvaluationKeys", .sharedRO), ("Evaluator", .nested), ("Mod1Evaluator", .nested), ("Mod1Parameters", .sharedRO), ("Parameters", .sharedRO), ("S2CDFTMatrix", .sharedRO), ("SkDebug", .absent), ("xPow2InvN1", .sharedRO), ("xPow2InvN2", .sharedRO), ("xPow2N1", .sharedRO), ("xPow2N2", .sharedRO)])
]

def lookup (name : String) : Option Row := (table.find? (·.1 == name)).map (·.2)

def showRow (r : Row) : String := ",".intercalate (r.map fun (f, c) => f ++ ":" ++ c.observed)

def Row.concurrentSafe (r : Row) : Bool := r.all (·.2.concurrentSafe)
def Row.complete (r : Row) : Bool := r.all (·.2.complete)

/-! ### copy constructors on records -/

structure Field where
  name : String
  addr : Nat      -- identity of the memory the field refers to (0 = plain value / nil)
  val : Nat       -- its content
deriving DecidableEq, Repr

abbrev Obj := List Field

def classOf (r : Row) (name : String) : FieldClass :=
  match r.find? (·.1 == name) with
  | some (_, c) => c
  | none => .config

/-- the copy of one field: `a` is a fresh address, `fresh` a fresh content -/
def copyField (c : FieldClass) (a fresh : Nat) (f : Field) : Field :=
  match c with
  | .config => f
  | .configChanged => { f with val := 0 }
  | .sharedRO | .sharedCache | .sharedScratch => f
  | .owned | .nested | .nestedScratch => { f with addr := a }
  | .rng | .replaced | .retyped | .added => { f with addr := a, val := fresh }
  | .absent => f
  | .dropped => { f with addr := 0, val := 0 }

def copyFrom (r : Row) (next fresh : Nat) : Nat → Obj → Obj
  | _, [] => []
  | i, f :: fs => copyField (classOf r f.name) (next + i) fresh f :: copyFrom r next fresh (i + 1) fs

/-- a copy constructor described by its row; `next` = first unused address (allocator) -/
def applyCtor (r : Row) (next fresh : Nat) (o : Obj) : Obj := copyFrom r next fresh 0 o

/-! ### agents, steps, interleavings -/

abbrev Loc := Nat
abbrev State (α : Type) := Loc → α

/-- a step reads `reads`, writes `writes`; `f σ l` is the value written to `l ∈ writes` -/
structure Step (α : Type) where
  reads : List Loc
  writes : List Loc
  f : State α → Loc → α

def Step.apply {α : Type} (s : Step α) (σ : State α) : State α :=
  fun l => if l ∈ s.writes then s.f σ l else σ l

/-- a schedule: steps tagged with the agent that executes them, in execution order -/
abbrev Sched (α : Type) := List (Nat × Step α)

def runSched {α : Type} : Sched α → State α → State α
  | [], σ => σ
  | (_, s) :: rest, σ => runSched rest (s.apply σ)

/-- the sub-sequence of agent `i`: its sequential program -/
def proj {α : Type} (i : Nat) (sch : Sched α) : Sched α := sch.filter (·.1 == i)

end Lattigo.Copy
