/-
  C17 — `sampling.KeyedPRNG` (/repo/utils/sampling/prng.go) as a state machine.

  The BLAKE2b XOF is an ARBITRARY function `xof key i` = the i-th byte of the output stream for
  `key` (nothing about BLAKE2b is modelled: "distinct keys give unrelated streams" is out of scope).
  The generator's state is `(key, position)`:
    `NewKeyedPRNG(k)` / `NewPRNG()` (k = 64 bytes of crypto/rand)  ↦ (k, 0)
    `Read(buf)`, len n                                            ↦ bytes pos … pos+n−1, pos += n
    `Reset()`                                                      ↦ pos := 0
    `Key()`                                                        ↦ a copy of k
  The sampler models take the not-yet-read part of this stream (`PRNG.rest`) as their `Bytes`.
  Core Lean only.
-/
import Lattigo.Model.Sampler
namespace Lattigo.Sampler

/-- the XOF: key ↦ (position ↦ byte) -/
abbrev XOF := Bytes → Nat → Nat

structure PRNG where
  key : Bytes
  pos : Nat
  deriving Repr, BEq, DecidableEq

namespace PRNG

/-- `NewKeyedPRNG(key)`; also `NewPRNG()` with `key` = the 64 bytes drawn from crypto/rand -/
def new (key : Bytes) : PRNG := { key := key, pos := 0 }

/-- `Read(buf)` with `len(buf) = n` (never fails: the XOF has unknown/unbounded output length) -/
def read (xof : XOF) (p : PRNG) (n : Nat) : Bytes × PRNG :=
  ((List.range n).map fun i => xof p.key (p.pos + i), { p with pos := p.pos + n })

/-- `Reset()` -/
def reset (p : PRNG) : PRNG := { p with pos := 0 }

/-- `Key()` -/
def getKey (p : PRNG) : Bytes := p.key

/-- the first `n` bytes of the generator's stream, from the start -/
def stream (xof : XOF) (p : PRNG) (n : Nat) : Bytes := (List.range n).map (xof p.key)

/-- the operations of a script -/
inductive Op where
  | read (n : Nat)
  | reset
  | key
  | rekey      -- continue with `NewKeyedPRNG(p.Key())`
  deriving Repr, BEq, DecidableEq

/-- run a script; the observable output of every operation (`read`: the bytes, `key`: the key,
    `reset` / `rekey`: nothing) -/
def run (xof : XOF) : PRNG → List Op → List Bytes
  | _, [] => []
  | p, .read n :: ops => (p.read xof n).1 :: run xof (p.read xof n).2 ops
  | p, .reset :: ops => [] :: run xof p.reset ops
  | p, .key :: ops => p.getKey :: run xof p ops
  | p, .rekey :: ops => [] :: run xof (new p.getKey) ops

end PRNG
end Lattigo.Sampler
