/-
  C19 — executable model of lattigo's parameter validation, moduli generation, derived quantities and codecs.
  Hand-written and tied to the code by the correspondence (driver ops in `Driver/C19.lean`); the derived
  quantities of core/rlwe/params.go also exist REGENERATED from the source (`Gen/Params.lean`, `Props/C19Gen.lean`).

  Follows (read-only) /repo, with the fixes /verif/fixes/C19-1 … C19-13 applied:
    core/rlwe/params.go      NewParametersFromLiteral, NewParameters, checkSizeParams, CheckModuli (every modulus
                             < 2^61, Q ∪ P pairwise distinct), checkModuliLogSize, GenModuli (root order range-checked,
                             sizes below it rejected), the level-dependent accessors (QiOverflowMargin = 2^64-1 / max,
                             BaseRNS/BaseTwoDecompositionVectorSize, MaxBit, LogQi, …), GaloisElement*
    ring/ring.go, subring.go NewRingFromType / NewRingWithCustomNTT / generateNTTConstants (degree, non-empty, distinct,
                             prime, ≡ 1 mod NthRoot)
    ring/primes.go           NTTFriendlyPrimesGenerator: upstream / downstream / alternating, exhaustion = error
    schemes/bgv/params.go    NewParameters (plaintext modulus checks; the auxiliary basis skips the primes of Q)
    schemes/ckks/params.go   LogDefaultScale check, slots / depth
    circuits/ckks/bootstrapping  the residual-chain root-order check of NewParametersFromLiteral (`btpResidualCheck`)
    JSON field lists         ring distributions, rlwe.ParametersLiteral, bootstrapping.Parameters / ParametersLiteral
                             (`Key`, `JV`, `encode…` / `decode…`; nested documents with their own codec are opaque)
    spec/security_table.json `tableMax`, and the dump of every exported parameter set (`exportedSets`, generated)

  The model is parametric in an `Oracle` (primality and the two floating point "overlap with the neighbouring
  bit-size" tests of the generator); the driver instantiates it with a deterministic Miller–Rabin test and a
  bit-exact port of Go's `math.Log2` on IEEE doubles (`goOracle`); `exactOracle` reads the two tests exactly and is
  what the kernel can evaluate. Loops that are unbounded `for {}` in Go take a `fuel`; running out of fuel is the
  outcome `hang` (with `StopComplete` and `fuel ≥ 2^65` it cannot occur: `Proofs/ParamsTerm.lean`, `ParamsUp.lean`).
  Not modelled: secret / error distributions beyond "weight 0" / "deviation 0" warnings (acceptance of a distribution
  is probed: `accepted_dist_usable`), the text codec of `Scale`, float formatting.
  Core Lean only.
-/
import Lattigo.Word

namespace Lattigo.Params
open Lattigo

/-! ## constants of core/rlwe/params.go -/

/-- `rlwe.MaxLogN` -/
def MaxLogN : Int := 20
/-- `rlwe.MinLogN` -/
def MinLogN : Int := 4
/-- `rlwe.MaxModuliSize` -/
def MaxModuliSize : Nat := 60
/-- `ring.MinimumRingDegreeForLoopUnrolledOperations` -/
def MinRingDegree : Nat := 8
/-- `ring.GaloisGen` -/
def GaloisGen : Nat := 5

/-! ## outcomes -/

/-- Outcome of a constructor: a value, an error class, a Go panic, or non-termination. -/
inductive Res (α : Type) where
  | ok (a : α)
  | err (cls : String)
  | panic
  | hang
  deriving Repr, DecidableEq

def Res.isOk {α} : Res α → Bool
  | .ok _ => true
  | _ => false

def Res.isErr {α} : Res α → Bool
  | .err _ => true
  | _ => false

/-- primality / float-comparison oracles of the generator -/
structure Oracle where
  /-- `ring.IsPrime` (Baillie–PSW through math/big) -/
  isPrime : Nat → Bool
  /-- `math.Log2(float64(c)) - Size >= 0.5` -/
  stopUp : Nat → Nat → Bool
  /-- `Size - math.Log2(float64(c)) >= 0.5` -/
  stopDown : Nat → Nat → Bool

/-! ## ring/primes.go : NTTFriendlyPrimesGenerator -/

structure Gen where
  size : Nat
  nthRoot : Nat
  next : Nat
  prev : Nat
  checkNext : Bool
  checkPrev : Bool
  deriving Repr, DecidableEq

/-- `NewNTTFriendlyPrimesGenerator(BitSize, NthRoot)` -/
def newGen (bitSize nthRoot : Nat) : Gen :=
  let base := u64add (u64shl 1 bitSize) 1
  { size := bitSize, nthRoot := nthRoot, next := base, prev := u64sub base nthRoot,
    checkNext := !(decide (base > W - 1 - nthRoot)) && !(decide (nthRoot = 0)),
    checkPrev := !(decide (base < nthRoot)) && !(decide (nthRoot = 0)) }

/-- loop of `NextUpstreamPrime`; `c` is the local `NextPrime`. A disabled direction returns the
    exhaustion error (before the fix `for { if false { … } }` never exited). -/
def upLoop (o : Oracle) (g : Gen) : Nat → Nat → Gen × Res Nat
  | 0, _ => (g, .hang)
  | fuel + 1, c =>
    if !g.checkNext then (g, .err "exhausted")
    else if o.stopUp g.size c then ({ g with checkNext := false }, .err "exhausted")
    else if o.isPrime c then ({ g with next := u64add c g.nthRoot }, .ok c)
    else upLoop o g fuel (u64add c g.nthRoot)

def nextUp (o : Oracle) (fuel : Nat) (g : Gen) : Gen × Res Nat := upLoop o g fuel g.next

/-- loop of `NextDownstreamPrime`; `c` is the local `PrevPrime`. -/
def downLoop (o : Oracle) (g : Gen) : Nat → Nat → Gen × Res Nat
  | 0, _ => (g, .hang)
  | fuel + 1, c =>
    if !g.checkPrev then (g, .err "exhausted")
    else if o.stopDown g.size c || decide (c < g.nthRoot) then
      ({ g with checkPrev := false }, .err "exhausted")
    else if o.isPrime c then ({ g with prev := u64sub c g.nthRoot }, .ok c)
    else downLoop o g fuel (u64sub c g.nthRoot)

def nextDown (o : Oracle) (fuel : Nat) (g : Gen) : Gen × Res Nat := downLoop o g fuel g.prev

/-- loop of `NextAlternatingPrime`; locals `np pp cn cp`. -/
def altLoop (o : Oracle) (g : Gen) : Nat → Nat → Nat → Bool → Bool → Gen × Res Nat
  | 0, _, _, _, _ => (g, .hang)
  | fuel + 1, np, pp, cn, cp =>
    if !(cn || cp) then (g, .err "exhausted")
    else
      -- upstream half
      let upStop := cn && (o.stopUp g.size np || decide (np > W - 1 - g.nthRoot))
      if cn && !upStop && o.isPrime np then
        ({ g with next := u64add np g.nthRoot, prev := pp, checkNext := cn, checkPrev := cp }, .ok np)
      else
        let cn1 := cn && !upStop
        let np1 := if cn1 then u64add np g.nthRoot else np
        -- downstream half
        let downStop := cp && (o.stopDown g.size pp || decide (pp < g.nthRoot))
        if cp && !downStop && o.isPrime pp then
          ({ g with next := np1, prev := u64sub pp g.nthRoot, checkNext := cn1, checkPrev := cp }, .ok pp)
        else
          let cp1 := cp && !downStop
          let pp1 := if cp1 then u64sub pp g.nthRoot else pp
          altLoop o g fuel np1 pp1 cn1 cp1

def nextAlt (o : Oracle) (fuel : Nat) (g : Gen) : Gen × Res Nat :=
  altLoop o g fuel g.next g.prev g.checkNext g.checkPrev

/-- `Next…Primes(k)`: the first failure aborts. -/
def nextPrimes (step : Gen → Gen × Res Nat) : Nat → Gen → Gen × Res (List Nat)
  | 0, g => (g, .ok [])
  | k + 1, g =>
    match step g with
    | (g', .ok p) =>
      match nextPrimes step k g' with
      | (g'', .ok ps) => (g'', .ok (p :: ps))
      | (g'', .err c) => (g'', .err c)
      | (g'', .panic) => (g'', .panic)
      | (g'', .hang) => (g'', .hang)
    | (g', .err c) => (g', .err c)
    | (g', .panic) => (g', .panic)
    | (g', .hang) => (g', .hang)

/-- direction: 0 upstream, 1 downstream, 2 alternating -/
def genPrimes (o : Oracle) (fuel : Nat) (dir : Nat) (bitSize nthRoot k : Nat) : Res (List Nat) :=
  let step := if dir = 0 then nextUp o fuel else if dir = 1 then nextDown o fuel else nextAlt o fuel
  (nextPrimes step k (newGen bitSize nthRoot)).2

/-! ## core/rlwe/params.go : size checks -/

/-- `checkSizeParams` -/
def checkSizeParams (logN : Int) : Option String :=
  if logN > MaxLogN then some "logNmax"
  else if logN < MinLogN then some "logNmin"
  else none

/-- first index of a list satisfying `bad` -/
def firstIdx {α} (bad : α → Bool) : List α → Nat → Option Nat
  | [], _ => none
  | x :: xs, i => if bad x then some i else firstIdx bad xs (i + 1)

/-- `bits.Len64(x) > MaxModuliSize+1`: only moduli below `2^61` pass (`8x ≤ 2^64`) -/
def tooManyBits (x : Nat) : Bool := decide (len64 x > MaxModuliSize + 1)

def allDistinct : List Nat → Bool
  | [] => true
  | x :: xs => !xs.contains x && allDistinct xs

/-- `CheckModuli(q, p)`: sizes and primality of Q, then of P, then `AllDistinct(Q ∪ P)`. -/
def checkModuli (o : Oracle) (q p : List Nat) : Option String :=
  match firstIdx tooManyBits q 0 with
  | some i => some s!"qBits:{i}"
  | none =>
  match firstIdx (fun x => !o.isPrime x) q 0 with
  | some i => some s!"qPrime:{i}"
  | none =>
  match firstIdx tooManyBits p 0 with
  | some i => some s!"pBits:{i}"
  | none =>
  match firstIdx (fun x => !o.isPrime x) p 0 with
  | some i => some s!"pPrime:{i}"
  | none => if allDistinct (q ++ p) then none else some "qpNotDistinct"

/-- `checkModuliLogSize` -/
def checkModuliLogSize (logQ logP : List Int) : Option String :=
  match firstIdx (fun (s : Int) => decide (s ≤ 0) || decide (s > (MaxModuliSize : Int))) logQ 0 with
  | some i => some s!"logQsize:{i}"
  | none =>
  match firstIdx (fun (s : Int) => decide (s ≤ 0) || decide (s > (MaxModuliSize : Int) + 1)) logP 0 with
  | some i => some s!"logPsize:{i}"
  | none => none

/-- sizes below the root order are rejected (`2^size ± k·NthRoot + 1` is `1 mod NthRoot` only if
    `NthRoot ∣ 2^size`) -/
def checkSizesAboveRoot (logNthRoot : Int) (logQ logP : List Int) : Option String :=
  match firstIdx (fun (s : Int) => decide (s < logNthRoot)) logQ 0 with
  | some i => some s!"logQbelowRoot:{i}"
  | none =>
  match firstIdx (fun (s : Int) => decide (s < logNthRoot)) logP 0 with
  | some i => some s!"logPbelowRoot:{i}"
  | none => none

/-! ## GenModuli -/

/-- primes for one bit size: downstream only for 61, alternating otherwise (params.go:838) -/
def genForSize (o : Oracle) (fuel : Nat) (nthRoot : Nat) (bitSize count : Nat) : Res (List Nat) :=
  genPrimes o fuel (if bitSize = 61 then 1 else 2) bitSize nthRoot count

/-- generate for each distinct size (first-occurrence order; Go iterates a map, the order only
    matters for *which* failure is reported when several sizes fail differently). -/
def genAll (o : Oracle) (fuel : Nat) (nthRoot : Nat) (req : List Nat) :
    List Nat → Res (List (Nat × List Nat))
  | [] => .ok []
  | s :: rest =>
    match genForSize o fuel nthRoot s (req.count s) with
    | .ok ps =>
      match genAll o fuel nthRoot req rest with
      | .ok tbl => .ok ((s, ps) :: tbl)
      | .err c => .err c
      | .panic => .panic
      | .hang => .hang
    | .err c => .err c
    | .panic => .panic
    | .hang => .hang

def lookupSize (tbl : List (Nat × List Nat)) (s : Nat) : List Nat :=
  match tbl.find? (fun e => e.1 == s) with
  | some e => e.2
  | none => []

/-- the `i`-th request of size `s` receives the `(number of earlier requests of size s)`-th prime -/
def assign (tbl : List (Nat × List Nat)) : List Nat → List Nat → List Nat
  | _, [] => []
  | seen, s :: rest => (lookupSize tbl s).getD (seen.count s) 0 :: assign tbl (s :: seen) rest

/-- `GenModuli(LogNthRoot, logQ, logP)`: the root order must lie in `[MinLogN+1, MaxLogN+2]`, the
    sizes in `]0, 60]` (`]0, 61]` for P) and not below the root order. -/
def genModuli (o : Oracle) (fuel : Nat) (logNthRoot : Int) (logQ logP : List Int) :
    Res (List Nat × List Nat) :=
  if logNthRoot < MinLogN + 1 || logNthRoot > MaxLogN + 2 then .err "logNthRoot"
  else
  match checkModuliLogSize logQ logP with
  | some c => .err c
  | none =>
  match checkSizesAboveRoot logNthRoot logQ logP with
  | some c => .err c
  | none =>
    let rq := logQ.map Int.toNat
    let rp := logP.map Int.toNat
    let req := rq ++ rp
    let nthRoot := 2 ^ logNthRoot.toNat
    match genAll o fuel nthRoot req req.eraseDups with
    | .ok tbl =>
      let all := assign tbl [] req
      .ok (all.take rq.length, all.drop rq.length)
    | .err _ => .err "genExhausted"
    | .panic => .panic
    | .hang => .hang

/-! ## ring construction checks (ring/ring.go:278, ring/subring.go:107) -/

def isPow2 (n : Nat) : Bool := decide (n &&& (n - 1) = 0)

/-- per-modulus check of `SubRing.generateNTTConstants` -/
def subRingCheck (o : Oracle) (n nthRoot : Nat) (m : Nat) : Option String :=
  if n = 0 || m = 0 then some "missing"
  else if !o.isPrime m then some s!"notPrime:{m}"
  else if m &&& (nthRoot - 1) != 1 then some s!"notNTT:{m}"
  else none

def firstSome {α β} (f : α → Option β) : List α → Option β
  | [] => none
  | x :: xs => match f x with
    | some b => some b
    | none => firstSome f xs

/-- `NewRingWithCustomNTT(N, Moduli, ntt, NthRoot)`: `none` = ring built. -/
def newRing (o : Oracle) (n : Nat) (moduli : List Nat) (nthRoot : Nat) : Option String :=
  if n < MinRingDegree || (!isPow2 n && n != 0) then some "ringDegree"
  else if moduli.isEmpty then some "emptyChain"
  else if !allDistinct moduli then some "notDistinct"
  else firstSome (subRingCheck o n nthRoot) moduli

/-- `NewRingFromType`: ring type 0 = Standard (2N-th root), 1 = ConjugateInvariant (4N-th root). -/
def newRingFromType (o : Oracle) (n : Nat) (moduli : List Nat) (ringType : Nat) : Option String :=
  if ringType = 0 then newRing o n moduli (2 * n)
  else if ringType = 1 then newRing o n moduli (4 * n)
  else some "ringType"

/-! ## NewParameters / NewParametersFromLiteral -/

/-- the accepted parameter object (what the accessors read) -/
structure Accepted where
  logN : Nat
  q : List Nat
  p : List Nat
  ringType : Nat
  deriving Repr, DecidableEq

def Accepted.n (a : Accepted) : Nat := 2 ^ a.logN
/-- `Parameters.NthRoot()` = `RingQ().NthRoot()` -/
def Accepted.nthRoot (a : Accepted) : Nat := if a.ringType = 0 then 2 * a.n else 4 * a.n

/-- `NewParameters(logn, q, p, xs, xe, ringType, …)`.
    `xsWeight0`: the secret distribution has expected Hamming weight 0; `xeStd0`: error std ≤ 0.
    Both are *warnings* returned as a non-nil error together with valid parameters. -/
def newParameters (o : Oracle) (logN : Int) (q p : List Nat) (ringType : Nat)
    (xsWeight0 xeStd0 : Bool) : Res Accepted :=
  match checkSizeParams logN with
  | some c => .err c
  | none =>
  match checkModuli o q p with
  | some c => .err c
  | none =>
    let n := 2 ^ logN.toNat
    match newRingFromType o n q ringType with
    | some c => .err s!"ringQ:{c}"
    | none =>
    match (if p.isEmpty then none else newRingFromType o n p ringType) with
    | some c => .err s!"ringP:{c}"
    | none =>
      if xsWeight0 && xeStd0 then .err "warnXsXe"
      else if xsWeight0 then .err "warnXs"
      else if xeStd0 then .err "warnXe"
      else .ok { logN := logN.toNat, q := q, p := p, ringType := ringType }

/-- `rlwe.ParametersLiteral` (fields that influence acceptance). `none` = nil slice. -/
structure Literal where
  logN : Int
  logNthRoot : Int := 0
  q : Option (List Nat) := none
  p : Option (List Nat) := none
  logQ : Option (List Int) := none
  logP : Option (List Int) := none
  ringType : Nat := 0
  xsWeight0 : Bool := false
  xeStd0 : Bool := false
  deriving Repr

/-- Go's `nil`-if-empty convention of `append` on a nil slice -/
def nilIfEmpty (l : List Nat) : Option (List Nat) := if l.isEmpty then none else some l

/-- `NewParametersFromLiteral` -/
def newParametersFromLiteral (o : Oracle) (fuel : Nat) (lit : Literal) : Res Accepted :=
  if lit.q.isNone && lit.logQ.isNone then .err "noQ"
  else if lit.q.isSome && lit.logQ.isSome then .err "bothQ"
  else if lit.p.isSome && lit.logP.isSome then .err "bothP"
  else
    let gen : Res (Option (List Nat) × Option (List Nat)) :=
      if lit.logQ.isSome || lit.logP.isSome then
        match checkSizeParams lit.logN with
        | some c => .err c
        | none =>
        if lit.ringType = 0 || lit.ringType = 1 then
          let l := max (lit.logN + (if lit.ringType = 0 then 1 else 2)) lit.logNthRoot
          match genModuli o fuel l (lit.logQ.getD []) (lit.logP.getD []) with
          | .ok (q, p) => .ok (nilIfEmpty q, nilIfEmpty p)
          | .err c => .err s!"gen:{c}"
          | .panic => .panic
          | .hang => .hang
        else .ok (none, none)
      else .ok (none, none)
    match gen with
    | .err c => .err c
    | .panic => .panic
    | .hang => .hang
    | .ok (gq, gp) =>
      let q := (gq.orElse fun _ => lit.q).getD []
      let p := (gp.orElse fun _ => lit.p).getD []
      newParameters o lit.logN q p lit.ringType lit.xsWeight0 lit.xeStd0

/-- `ckks.NewParametersFromLiteral`: the rlwe checks, then `LogDefaultScale > 128` is rejected
    (the error text also says "or < 0", which is not checked: negative values are accepted). -/
def ckksNewFromLiteral (o : Oracle) (fuel : Nat) (lit : Literal) (logDefaultScale : Int) : Res Accepted :=
  match newParametersFromLiteral o fuel lit with
  | .ok a => if logDefaultScale > 128 then .err "logDefaultScale" else .ok a
  | r => r

/-! ## derived quantities -/

def Accepted.maxLevel (a : Accepted) : Int := (a.q.length : Int) - 1
def Accepted.maxLevelP (a : Accepted) : Int := (a.p.length : Int) - 1
/-- `LogNthRoot() = bits.Len64(NthRoot-1)` -/
def Accepted.logNthRoot (a : Accepted) : Nat := len64 (a.nthRoot - 1)
def Accepted.qProd (a : Accepted) : Nat := a.q.foldl (· * ·) 1
def Accepted.pProd (a : Accepted) : Nat := a.p.foldl (· * ·) 1

/-- modular exponentiation (definition side of `ring.ModExp`) -/
def powMod (x e m : Nat) : Nat := (x ^ e) % m

/-- fast square-and-multiply, used by the executable oracles -/
def powModFast (x e m : Nat) : Nat :=
  let rec go : Nat → Nat → Nat → Nat → Nat
    | 0, _, _, acc => acc
    | fuel + 1, b, e, acc =>
      if e = 0 then acc
      else go fuel (b * b % m) (e / 2) (if e % 2 = 1 then acc * b % m else acc)
  go (e.log2 + 2) (x % m) e (1 % m)

/-- `GaloisElement(k) = GaloisGen^(k mod NthRoot) mod NthRoot` (`uint64(k) & (NthRoot-1)`) -/
def Accepted.galoisElement (a : Accepted) (k : Int) : Nat :=
  powModFast GaloisGen (k % (a.nthRoot : Int)).toNat a.nthRoot

/-- `ModInvGaloisElement` -/
def Accepted.modInvGaloisElement (a : Accepted) (g : Nat) : Nat :=
  powModFast g (a.nthRoot - 1) a.nthRoot

/-- `GaloisElementOrderTwoOrthogonalSubgroup` (Standard ring only) -/
def Accepted.galoisConj (a : Accepted) : Nat := a.nthRoot - 1

def insertSorted (x : Int) : List Int → List Int
  | [] => [x]
  | y :: ys => if x < y then x :: y :: ys else if x = y then y :: ys else y :: insertSorted x ys

/-- rotation set of `GaloisElementsForInnerSum(batch, n)` (a Go map: a set), sorted -/
def innerSumRotations (batch n : Int) : List Int :=
  let rec go : Nat → Int → List Int → List Int
    | 0, _, acc => acc
    | fuel + 1, i, acc =>
      if i < n then
        let k1 := i * batch
        let k2 := (n - Int.ofNat (n.toNat &&& ((2 * i).toNat - 1))) * batch
        go fuel (2 * i) (insertSorted k2 (insertSorted k1 acc))
      else acc
  go 64 1 []

def sortNat (l : List Nat) : List Nat :=
  l.foldl (fun acc x =>
    let rec ins : List Nat → List Nat
      | [] => [x]
      | y :: ys => if x ≤ y then x :: y :: ys else y :: ins ys
    ins acc) []

/-- `GaloisElementsForInnerSum`, as a sorted list (the Go order is a map order) -/
def Accepted.galoisInnerSum (a : Accepted) (batch n : Int) : List Nat :=
  sortNat ((innerSumRotations batch n).map a.galoisElement)

/-- `GaloisElementsForTrace(logN')` for the Standard ring -/
def Accepted.galoisTrace (a : Accepted) (l : Nat) : List Nat :=
  let rots := (List.range (a.logN - 1 - l)).map fun j => a.galoisElement (2 ^ (l + j) : Nat)
  if l = 0 then rots ++ [a.galoisConj] else rots

/-! ### level-dependent accessors of core/rlwe/params.go -/

def maxList (l : List Nat) : Nat := l.foldl max 0

/-- `floor(2^64 / max(l))`: how many residues modulo the moduli of `l` can be added in a `uint64`
    before it can wrap. The code computes `math.MaxUint64 / max`, which is the same for a modulus
    that does not divide `2^64` (every odd modulus > 1). -/
def overflowMargin (l : List Nat) : Nat := (W - 1) / maxList l

/-- `QiOverflowMargin(level)`: margin of `Q[:level+1]` (the maximum, not the prime of the level) -/
def Accepted.qiOverflowMargin (a : Accepted) (level : Nat) : Int :=
  if a.q.isEmpty then -1 else (overflowMargin (a.q.take (level + 1)) : Int)

/-- `PiOverflowMargin(level)`; `-1` without P or at level `-1` -/
def Accepted.piOverflowMargin (a : Accepted) (level : Int) : Int :=
  if a.p.isEmpty || level < 0 then -1 else (overflowMargin (a.p.take (level.toNat + 1)) : Int)

/-- `BaseRNSDecompositionVectorSize(levelQ, levelP) = ceil((levelQ+1)/(levelP+1))`, `levelQ+1` without P -/
def baseRNSDecompositionVectorSize (levelQ : Nat) (levelP : Int) : Nat :=
  if levelP = -1 then levelQ + 1 else (levelQ + levelP.toNat + 1) / (levelP.toNat + 1)

/-- `BaseTwoDecompositionVectorSize(levelQ, levelP, w)`: digits of base `2^w` per prime of Q,
    `ceil(bitlen(q_i)/w)`; all 1 when `w = 0` or a P of two or more primes is in use. -/
def Accepted.baseTwoDecompositionVectorSize (a : Accepted) (levelP : Int) (w : Nat) : List Nat :=
  if w = 0 || levelP > 0 then a.q.map (fun _ => 1) else a.q.map (fun q => (len64 q + w - 1) / w)

/-- `MaxBit(levelQ, levelP)` -/
def Accepted.maxBit (a : Accepted) (levelQ : Nat) (levelP : Int) : Nat :=
  let mq := maxList ((a.q.take (levelQ + 1)).map len64)
  if a.p.isEmpty || levelP < 0 then mq else max mq (maxList ((a.p.take (levelP.toNat + 1)).map len64))

/-- `round(log2 q)` in exact arithmetic (`LogQi`, `LogPi`): the `S` with `2^(2S-1) < q² < 2^(2S+1)` -/
def roundLog2 (q : Nat) : Nat :=
  let b := len64 q
  if q * q > 2 ^ (2 * b - 1) then b else b - 1

/-- `LogQLvl(level)`: bit length of `Q[0]·…·Q[level]` (ckks) -/
def Accepted.logQLvl (a : Accepted) (level : Nat) : Nat := len64 ((a.q.take (level + 1)).foldl (· * ·) 1)

/-! ### CKKS -/
def Accepted.ckksMaxSlots (a : Accepted) : Nat := if a.ringType = 0 then a.n / 2 else a.n
def Accepted.ckksLogMaxSlots (a : Accepted) : Nat := if a.ringType = 0 then a.logN - 1 else a.logN
/-- `LevelsConsumedPerRescaling` -/
def levelsPerRescale (logDefaultScale : Int) : Int := if logDefaultScale ≤ 64 then 1 else 2
def Accepted.ckksMaxDepth (a : Accepted) (logDefaultScale : Int) : Int :=
  Int.tdiv a.maxLevel (levelsPerRescale logDefaultScale)

/-! ## schemes/bgv/params.go : NewParameters -/

/-- the loop `for order = 1<<bits.Len64(t); t&(order-1) != 1 && order != 0; order >>= 1 {}` -/
def orderLoop (t : Nat) : Nat → Nat → Nat
  | 0, order => order
  | fuel + 1, order =>
    if (t &&& u64sub order 1) != 1 && order != 0 then orderLoop t fuel (order / 2) else order

def cyclotomicOrder (t : Nat) : Nat := orderLoop t 66 (u64shl 1 (len64 t))

/-- the auxiliary basis: the next `need` downstream primes that are not in `avoid` -/
def qmulLoop (o : Oracle) (fuel : Nat) (avoid : List Nat) : Nat → Nat → Gen → Res (List Nat)
  | 0, _, _ => .hang
  | outer + 1, need, g =>
    if need = 0 then .ok []
    else
      match nextDown o fuel g with
      | (g', .ok p) =>
        if avoid.contains p then qmulLoop o fuel avoid outer need g'
        else
          match qmulLoop o fuel avoid outer (need - 1) g' with
          | .ok ps => .ok (p :: ps)
          | r => r
      | (_, .err c) => .err c
      | (_, .panic) => .panic
      | (_, .hang) => .hang

structure BgvAccepted where
  /-- degree of the plaintext ring `ringT` -/
  nT : Nat
  /-- moduli of the auxiliary basis `ringQMul` -/
  qMul : List Nat
  deriving Repr, DecidableEq

/-- `bgv.NewParameters(rlweParams, t)` for accepted `rlweParams` with `NTTFlag = true`. -/
def bgvNew (o : Oracle) (fuel : Nat) (a : Accepted) (t : Nat) : Res BgvAccepted :=
  if t = 0 then .err "t0"
  else if a.q.contains t then .err "tInQ"
  else if t > a.q.headD 0 then .err "tBig"
  else
    let nb := (len64 a.qProd + a.logN + 60) / 61       -- ceil((BitLen(Q)+LogN)/61.0)
    match qmulLoop o fuel a.q (nb + a.q.length + 1) nb (newGen 61 a.nthRoot) with
    | .err _ => .err "genExhausted"
    | .panic => .panic
    | .hang => .hang
    | .ok primes =>
      match newRing o a.n primes (2 * a.n) with
      | some c => .err s!"ringQMul:{c}"
      | none =>
        let order := cyclotomicOrder t
        if order < 16 then .err "order"
        else
          let nT := min a.n (order / 2)
          match newRing o nT [t] (2 * nT) with
          | some c => .err s!"ringT:{c}"
          | none => .ok { nT := nT, qMul := primes }

def BgvAccepted.maxSlots (b : BgvAccepted) : Nat := 2 * (b.nT / 2)
def BgvAccepted.logMaxSlots (b : BgvAccepted) : Nat := 1 + (Nat.log2 b.nT - 1)

/-! ## security table (mirror of /verif/spec/security_table.json) -/

/-- secret kind: `0` = dense ternary (P = 2/3, or fixed weight ≥ N/2), otherwise the Hamming weight -/
def secretKind (logN : Nat) (xsH : Nat) : Nat := if xsH = 0 || 2 * xsH ≥ 2 ^ logN then 0 else xsH

/-- largest tabulated `log2(QP)` for 128-bit security, `none` when the table has no row. -/
def tableMax (logN kind : Nat) : Option Nat :=
  if kind = 0 then
    match logN with
    | 10 => some 27
    | 11 => some 54
    | 12 => some 109
    | 13 => some 218
    | 14 => some 438
    | 15 => some 881
    | 16 => some 1793
    | _ => none
  else if kind = 192 then
    match logN with
    | 15 => some 768
    | 16 => some 1550
    | _ => none
  else if kind = 32 then
    match logN with
    | 16 => some 115
    | _ => none
  else none

def prodList (l : List Nat) : Nat := l.foldl (· * ·) 1

/-- Convention of `exported_within_table`: a set is within the table iff `log2(Q·P) < T + 1/2`,
    i.e. `(Q·P)² < 2^(2T+1)` (the tabulated integers are rounded estimator outputs and the library
    itself sizes moduli by `round(log2 ·)`). -/
def withinTable (logN xsH : Nat) (q p : List Nat) : Bool :=
  match tableMax logN (secretKind logN xsH) with
  | some t => decide ((prodList q * prodList p) ^ 2 < 2 ^ (2 * t + 1))
  | none => false

/-- The strict reading `Q·P < 2^T` (`bitlen(QP) ≤ T`), reported next to it. -/
def withinTableStrict (logN xsH : Nat) (q p : List Nat) : Bool :=
  match tableMax logN (secretKind logN xsH) with
  | some t => decide (prodList q * prodList p < 2 ^ t)
  | none => false

/-! ## exported example / default literals (dump of the real library, after GenModuli) -/

/-- one exported parameter set as dumped by the harness (`exported` lines): name, ring degree,
    Hamming weight of the secret protecting it (0 = the default P=2/3 ternary), moduli. -/
structure ExportedSet where
  name : String
  logN : Nat
  xsH : Nat
  /-- part of `exported_within_table` (false for the informational `…:ephemeral` rows) -/
  checked : Bool
  /-- recorded finding: this set is above the table -/
  above : Bool
  q : List Nat
  p : List Nat
  deriving Repr

def ExportedSet.same (s : ExportedSet) (name : String) (logN xsH : Nat) (q p : List Nat) : Bool :=
  s.name == name && s.logN == logN && s.xsH == xsH && s.q == q && s.p == p

def ExportedSet.within (s : ExportedSet) : Bool := withinTable s.logN s.xsH s.q s.p

/- Regenerate with `python3 c19_exported.py o/ops.txt Lattigo/Model/Params.lean` (script text in the
   header of harness/c19.go). The `exported` tie lines answer `known=1` only when the real code
   still produces exactly these sets, so a change of the library's literals breaks the tie. -/
-- BEGIN GENERATED exportedSets
def exportedSets : List ExportedSet := [
  { name := "rlwe.ExampleParametersLogN14LogQP438", logN := 14, xsH := 0, checked := true, above := false,
    q := [35184376545281, 34359214081, 34362359809, 34357116929, 34356068353],
    p := [1125899902124033, 1125899915231233] },
  { name := "bgv.ExampleParameters128BitLogN14LogQP438", logN := 14, xsH := 0, checked := true, above := false,
    q := [1099511922689, 536903681, 536641537, 537133057, 536608769, 536543233, 537296897, 536215553, 537591809, 537722881, 535920641, 537886721],
    p := [1099512938497, 549755486209] },
  { name := "ckks.ExampleParameters128BitLogN14LogQP438", logN := 14, xsH := 0, checked := true, above := false,
    q := [36028797019488257, 35184372744193, 35184373006337, 35184373989377, 35184368877569, 35184368025601, 35184376545281],
    p := [36028797020209153, 36028797017456641] },
  { name := "examples.BGVParamsN12QP109", logN := 12, xsH := 0, checked := true, above := false,
    q := [549755731969, 2147565569],
    p := [549755904001] },
  { name := "examples.BGVParamsN13QP218", logN := 13, xsH := 0, checked := true, above := false,
    q := [4398046150657, 8589852673, 8590163969, 8590245889, 8589475841],
    p := [17592186028033] },
  { name := "examples.BGVParamsN14QP438", logN := 14, xsH := 0, checked := true, above := false,
    q := [17592186175489, 17179967489, 17179672577, 17180262401, 17180295169, 17180393473, 17179410433, 17180557313, 17180950529, 17178525697],
    p := [17592186273793, 17592186372097] },
  { name := "examples.BGVParamsN15QP880", logN := 15, xsH := 0, checked := true, above := false,
    q := [140737488486401, 17179672577, 17180262401, 17179410433, 17180393473, 17181442049, 17183014913, 17176854529, 17183408129, 17183932417, 17175674881, 17174691841, 17185570817, 17186357249, 17173774337, 17186947073, 17172791297, 17187667969, 17172594689, 17188126721],
    p := [140737487306753, 140737486716929, 140737486520321, 140737485864961] },
  { name := "examples.BGVScaleInvariantParamsN12QP109", logN := 12, xsH := 0, checked := true, above := false,
    q := [549755731969, 549755904001],
    p := [2147565569] },
  { name := "examples.BGVScaleInvariantParamsN13QP218", logN := 13, xsH := 0, checked := true, above := false,
    q := [36028797018652673, 18014398508400641, 18014398510645249],
    p := [36028797019389953] },
  { name := "examples.BGVScaleInvariantParamsN14QP438", logN := 14, xsH := 0, checked := true, above := false,
    q := [36028797019389953, 36028797019488257, 36028797020209153, 18014398508400641, 18014398510661633, 18014398508138497],
    p := [72057594038321153, 36028797017456641] },
  { name := "examples.BGVScaleInvariantParamsN15QP880", logN := 15, xsH := 0, checked := true, above := false,
    q := [1152921504606584833, 1152921504608747521, 576460752301785089, 288230376154267649, 288230376155185153, 288230376155250689, 288230376147582977, 288230376147386369, 288230376147320833, 288230376156758017, 288230376157413377, 288230376158396417],
    p := [1152921504614055937, 1152921504598720513, 1152921504615628801] },
  { name := "examples.CKKSComplexParamsN12QP109", logN := 12, xsH := 0, checked := true, above := false,
    q := [274877816833, 4294991873],
    p := [549755731969] },
  { name := "examples.CKKSComplexParamsN13QP218", logN := 13, xsH := 0, checked := true, above := false,
    q := [8589852673, 1073692673, 1073643521, 1073872897, 1073971201, 1073479681],
    p := [34359754753] },
  { name := "examples.CKKSComplexParamsN14QP438", logN := 14, xsH := 0, checked := true, above := false,
    q := [35184372121601, 17179967489, 17179672577, 17180262401, 17180295169, 17180393473, 17179410433, 17180557313, 17180950529, 17178525697],
    p := [17592186175489, 8796092858369] },
  { name := "examples.CKKSComplexParamsN15QP881", logN := 15, xsH := 0, checked := true, above := false,
    q := [2251799813554177, 1099512938497, 1099510054913, 1099514314753, 1099507695617, 1099515691009, 1099516280833, 1099516542977, 1099516870657, 1099506515969, 1099518246913, 1099504549889, 1099503894529, 1099503370241, 1099520606209, 1099502714881, 1099502518273, 1099521458177],
    p := [1125899908022273, 1125899908612097, 1125899904679937] },
  { name := "examples.CKKSComplexParamsPN16QP1761", logN := 16, xsH := 0, checked := true, above := false,
    q := [72057594038321153, 35184372744193, 35184373006337, 35184368025601, 35184376545281, 35184377331713, 35184378511361, 35184379035649, 35184365273089, 35184380870657, 35184363569153, 35184382967809, 35184383229953, 35184383754241, 35184385196033, 35184358850561, 35184386899969, 35184388734977, 35184355704833, 35184353083393, 35184351772673, 35184394240001, 35184350330881, 35184398958593, 35184399351809, 35184346267649, 35184345088001, 35184343908353, 35184404070401, 35184339320833, 35184337354753, 35184410361857, 35184411279361, 35184412065793],
    p := [36028797019488257, 36028797023420417, 36028797014376449, 36028797024206849] },
  { name := "examples.CKKSRealParamsN12QP109", logN := 12, xsH := 0, checked := true, above := false,
    q := [274878136321, 4295049217],
    p := [549755731969] },
  { name := "examples.CKKSRealParamsN13QP218", logN := 13, xsH := 0, checked := true, above := false,
    q := [8590163969, 1073643521, 1073872897, 1073971201, 1073479681, 1074266113],
    p := [34359771137] },
  { name := "examples.CKKSRealParamsN14QP438", logN := 14, xsH := 0, checked := true, above := false,
    q := [70368744570881, 17179672577, 17180262401, 17179410433, 17180393473, 17181442049, 17183014913, 17176854529, 17183408129, 17183932417],
    p := [8796093349889, 8796090597377] },
  { name := "examples.CKKSRealParamsN15QP881", logN := 15, xsH := 0, checked := true, above := false,
    q := [2251799813554177, 1099512938497, 1099510054913, 1099507695617, 1099515691009, 1099516870657, 1099506515969, 1099504549889, 1099503894529, 1099503370241, 1099502714881, 1099521458177, 1099522375681, 1099500617729, 1099523555329, 1099499569153, 1099499175937, 1099525128193],
    p := [1125899908022273, 1125899903827969, 1125899911168001] },
  { name := "examples.CKKSRealParamsPN16QP1761", logN := 16, xsH := 0, checked := true, above := false,
    q := [72057594036879361, 35184376545281, 35184377331713, 35184365273089, 35184385196033, 35184350330881, 35184399351809, 35184345088001, 35184404070401, 35184339320833, 35184410361857, 35184414031873, 35184415080449, 35184415866881, 35184330145793, 35184329097217, 35184423731201, 35184320708609, 35184318087169, 35184316776449, 35184430022657, 35184430809089, 35184314941441, 35184436314113, 35184440246273, 35184307077121, 35184440770561, 35184306290689, 35184446537729, 35184301047809, 35184297639937, 35184452567041, 35184454402049, 35184454926337],
    p := [36028797019488257, 36028797023420417, 36028797024206849, 36028797005856769] },
  { name := "bootstrapping.N16QP1546H192H32:residual", logN := 16, xsH := 192, checked := true, above := false,
    q := [1152921504606584833, 1099512938497, 1099510054913, 1099507695617, 1099515691009, 1099516870657, 1099506515969, 1099504549889, 1099503894529, 1099503370241],
    p := [2305843009211596801, 2305843009210023937, 2305843009208713217, 2305843009202159617, 2305843009201242113] },
  { name := "bootstrapping.N16QP1546H192H32:bootstrapping", logN := 16, xsH := 192, checked := true, above := false,
    q := [1152921504606584833, 1099512938497, 1099510054913, 1099507695617, 1099515691009, 1099516870657, 1099506515969, 1099504549889, 1099503894529, 1099503370241, 549754109953, 549753978881, 549753716737, 1152921504614055937, 1152921504598720513, 1152921504615628801, 1152921504616808449, 1152921504597016577, 1152921504595968001, 1152921504618381313, 1152921504620347393, 72057594038321153, 72057594036879361, 72057594035306497, 72057594040680449],
    p := [2305843009211596801, 2305843009210023937, 2305843009208713217, 2305843009202159617, 2305843009201242113] },
  { name := "bootstrapping.N16QP1546H192H32:ephemeral", logN := 16, xsH := 32, checked := false, above := false,
    q := [1152921504606584833],
    p := [2305843009211596801] },
  { name := "bootstrapping.N16QP1547H192H32:residual", logN := 16, xsH := 192, checked := true, above := false,
    q := [1152921504606584833, 35184372744193, 35184373006337, 35184368025601, 35184376545281, 35184377331713],
    p := [2305843009211596801, 2305843009210023937, 2305843009208713217, 2305843009202159617] },
  { name := "bootstrapping.N16QP1547H192H32:bootstrapping", logN := 16, xsH := 192, checked := true, above := false,
    q := [1152921504606584833, 35184372744193, 35184373006337, 35184368025601, 35184376545281, 35184377331713, 4398044938241, 4398043496449, 4398042972161, 1152921504614055937, 1152921504598720513, 1152921504615628801, 1152921504616808449, 1152921504597016577, 1152921504595968001, 1152921504618381313, 1152921504620347393, 1152921504592822273, 1152921504592429057, 1152921504622575617, 288230376155250689, 288230376147386369, 288230376158396417, 288230376160755713],
    p := [2305843009211596801, 2305843009210023937, 2305843009208713217, 2305843009202159617] },
  { name := "bootstrapping.N16QP1547H192H32:ephemeral", logN := 16, xsH := 32, checked := false, above := false,
    q := [1152921504606584833],
    p := [2305843009211596801] },
  { name := "bootstrapping.N16QP1553H192H32:residual", logN := 16, xsH := 192, checked := true, above := false,
    q := [36028797019488257, 1152921504606584833, 1152921504614055937, 1152921504598720513, 1152921504615628801, 1152921504616808449, 1152921504597016577, 1152921504595968001],
    p := [2305843009211596801, 2305843009210023937, 2305843009208713217, 2305843009202159617, 2305843009201242113] },
  { name := "bootstrapping.N16QP1553H192H32:bootstrapping", logN := 16, xsH := 192, checked := true, above := false,
    q := [36028797019488257, 1152921504606584833, 1152921504614055937, 1152921504598720513, 1152921504615628801, 1152921504616808449, 1152921504597016577, 1152921504595968001, 1152921504618381313, 1152921504620347393, 36028797023420417, 36028797014376449, 36028797024206849, 36028797013327873, 36028797025124353, 36028797010444289, 36028797032202241, 36028797005856769, 9007199255658497, 9007199256051713, 9007199257362433, 9007199252119553],
    p := [2305843009211596801, 2305843009210023937, 2305843009208713217, 2305843009202159617] },
  { name := "bootstrapping.N16QP1553H192H32:ephemeral", logN := 16, xsH := 32, checked := false, above := false,
    q := [36028797019488257],
    p := [2305843009211596801] },
  { name := "bootstrapping.N15QP768H192H32:residual", logN := 15, xsH := 192, checked := true, above := false,
    q := [8589475841, 1125899908022273, 33292289],
    p := [2251799813554177, 2251799814799361] },
  { name := "bootstrapping.N15QP768H192H32:bootstrapping-with-LogN15", logN := 15, xsH := 192, checked := true, above := true,
    q := [8589475841, 1125899908022273, 33292289, 1152921504606584833, 1125899908612097, 1125899904679937, 1125899909398529, 1125899903827969, 1125899910316033, 1125899903500289, 1125899903107073, 1125899911168001, 562949952700417, 562949954142209],
    p := [2305843009211662337, 2305843009211596801, 2305843009211400193] },
  { name := "bootstrapping.N15QP768H192H32:ephemeral", logN := 15, xsH := 32, checked := false, above := false,
    q := [8589475841],
    p := [2305843009211662337] },
  { name := "bootstrapping.N16QP1767H32768H32:residual", logN := 16, xsH := 32768, checked := true, above := false,
    q := [1152921504606584833, 1099512938497, 1099510054913, 1099507695617, 1099515691009, 1099516870657, 1099506515969, 1099504549889, 1099503894529, 1099503370241, 1099502714881, 1099521458177, 1099522375681, 1099500617729],
    p := [2305843009211596801, 2305843009210023937, 2305843009208713217, 2305843009202159617, 2305843009201242113, 2305843009200586753] },
  { name := "bootstrapping.N16QP1767H32768H32:bootstrapping", logN := 16, xsH := 32768, checked := true, above := false,
    q := [1152921504606584833, 1099512938497, 1099510054913, 1099507695617, 1099515691009, 1099516870657, 1099506515969, 1099504549889, 1099503894529, 1099503370241, 1099502714881, 1099521458177, 1099522375681, 1099500617729, 549754109953, 549753978881, 549753716737, 1152921504614055937, 1152921504598720513, 1152921504615628801, 1152921504616808449, 1152921504597016577, 1152921504595968001, 1152921504618381313, 1152921504620347393, 72057594038321153, 72057594036879361, 72057594035306497, 72057594040680449],
    p := [2305843009211596801, 2305843009210023937, 2305843009208713217, 2305843009202159617, 2305843009201242113] },
  { name := "bootstrapping.N16QP1767H32768H32:ephemeral", logN := 16, xsH := 32, checked := false, above := false,
    q := [1152921504606584833],
    p := [2305843009211596801] },
  { name := "bootstrapping.N16QP1788H32768H32:residual", logN := 16, xsH := 32768, checked := true, above := false,
    q := [1152921504606584833, 35184372744193, 35184373006337, 35184368025601, 35184376545281, 35184377331713, 35184378511361, 35184379035649, 35184365273089, 35184380870657],
    p := [2305843009211596801, 2305843009210023937, 2305843009208713217, 2305843009202159617, 2305843009201242113] },
  { name := "bootstrapping.N16QP1788H32768H32:bootstrapping", logN := 16, xsH := 32768, checked := true, above := false,
    q := [1152921504606584833, 35184372744193, 35184373006337, 35184368025601, 35184376545281, 35184377331713, 35184378511361, 35184379035649, 35184365273089, 35184380870657, 4398044938241, 4398043496449, 4398042972161, 1152921504614055937, 1152921504598720513, 1152921504615628801, 1152921504616808449, 1152921504597016577, 1152921504595968001, 1152921504618381313, 1152921504620347393, 1152921504592822273, 1152921504592429057, 1152921504622575617, 288230376155250689, 288230376147386369, 288230376158396417, 288230376160755713],
    p := [2305843009211596801, 2305843009210023937, 2305843009208713217, 2305843009202159617, 2305843009201242113] },
  { name := "bootstrapping.N16QP1788H32768H32:ephemeral", logN := 16, xsH := 32, checked := false, above := false,
    q := [1152921504606584833],
    p := [2305843009211596801] },
  { name := "bootstrapping.N16QP1793H32768H32:residual", logN := 16, xsH := 32768, checked := true, above := false,
    q := [36028797019488257, 1152921504606584833, 1152921504614055937, 1152921504598720513, 1152921504615628801, 1152921504616808449, 1152921504597016577, 1152921504595968001, 1152921504618381313, 1152921504620347393, 1152921504592822273, 1152921504592429057, 1152921504622575617, 1073872897],
    p := [2305843009211596801, 2305843009210023937, 2305843009208713217, 2305843009202159617, 2305843009201242113] },
  { name := "bootstrapping.N16QP1793H32768H32:bootstrapping", logN := 16, xsH := 32768, checked := true, above := true,
    q := [36028797019488257, 1152921504606584833, 1152921504614055937, 1152921504598720513, 1152921504615628801, 1152921504616808449, 1152921504597016577, 1152921504595968001, 1152921504618381313, 1152921504620347393, 1152921504592822273, 1152921504592429057, 1152921504622575617, 1073872897, 1152921504589938689, 1152921504625328129, 36028797023420417, 36028797014376449, 36028797024206849, 36028797013327873, 36028797025124353, 36028797010444289, 36028797032202241, 36028797005856769, 9007199255658497, 9007199256051713, 9007199257362433, 9007199252119553],
    p := [2305843009211596801, 2305843009210023937, 2305843009208713217, 2305843009202159617, 2305843009201242113] },
  { name := "bootstrapping.N16QP1793H32768H32:ephemeral", logN := 16, xsH := 32, checked := false, above := false,
    q := [36028797019488257],
    p := [2305843009211596801] },
  { name := "bootstrapping.N15QP880H16384H32:residual", logN := 15, xsH := 16384, checked := true, above := false,
    q := [1099512938497, 2147352577, 2146959361, 2148728833, 2148794369],
    p := [72057594038321153, 72057594037338113] },
  { name := "bootstrapping.N15QP880H16384H32:bootstrapping-with-LogN15", logN := 15, xsH := 16384, checked := true, above := true,
    q := [1099512938497, 2147352577, 2146959361, 2148728833, 2148794369, 1152921504606584833, 36028797019488257, 36028797020209153, 36028797017456641, 36028797020602369, 36028797020864513, 36028797023420417, 36028797014704129, 36028797014573057, 4503599627763713, 4503599628353537],
    p := [2305843009211662337, 2305843009211596801, 2305843009211400193, 2305843009210023937] },
  { name := "bootstrapping.N15QP880H16384H32:ephemeral", logN := 15, xsH := 32, checked := false, above := false,
    q := [1099512938497],
    p := [2305843009211662337] }
]
-- END GENERATED exportedSets

/-! ## the JSON field lists of the parameter codecs

  `MarshalBinary` of every parameter struct is its JSON encoding (rlwe prefixes a length), so the codec
  is determined by the list of JSON fields, their `omitempty` tags, and what the decoder does with an
  absent field.  The model below has one object = ordered list of `(Key, JV)`; sub-documents whose own
  text codec is outside C19 (the `Scale` text, a whole `ckks.Parameters`, the `MatrixLiteral`s, the mod1
  literal) are opaque `blob`s, a `float64` is an opaque code with `0` for `+0.0` (Go's float ⇄ JSON text
  round trip is exact), the ring-type and distribution-type strings are their enum values. -/

inductive Key where
  | LogN | LogNthRoot | Q | P | LogQ | LogP | Xe | Xs | RingType | DefaultScale | NTTFlag
  | Type | H | Sigma | Bound
  | ResidualParameters | BootstrappingParameters | SlotsToCoeffsParameters | Mod1ParametersLiteral
  | CoeffsToSlotsParameters | IterationsParameters | EphemeralSecretWeight | CircuitOrder
  | BootstrappingPrecision | ReservedPrimeBitSize
  | LogSlots | CoeffsToSlotsFactorizationDepthAndLogScales | SlotsToCoeffsFactorizationDepthAndLogScales
  | EvalModLogScale | Mod1Type | LogMessageRatio | K | Mod1Degree | DoubleAngle | Mod1InvDegree
  deriving DecidableEq, Repr

def Key.name : Key → String
  | .LogN => "LogN" | .LogNthRoot => "LogNthRoot" | .Q => "Q" | .P => "P" | .LogQ => "LogQ" | .LogP => "LogP"
  | .Xe => "Xe" | .Xs => "Xs" | .RingType => "RingType" | .DefaultScale => "DefaultScale" | .NTTFlag => "NTTFlag"
  | .Type => "Type" | .H => "H" | .Sigma => "Sigma" | .Bound => "Bound"
  | .ResidualParameters => "ResidualParameters" | .BootstrappingParameters => "BootstrappingParameters"
  | .SlotsToCoeffsParameters => "SlotsToCoeffsParameters" | .Mod1ParametersLiteral => "Mod1ParametersLiteral"
  | .CoeffsToSlotsParameters => "CoeffsToSlotsParameters" | .IterationsParameters => "IterationsParameters"
  | .EphemeralSecretWeight => "EphemeralSecretWeight" | .CircuitOrder => "CircuitOrder"
  | .BootstrappingPrecision => "BootstrappingPrecision" | .ReservedPrimeBitSize => "ReservedPrimeBitSize"
  | .LogSlots => "LogSlots"
  | .CoeffsToSlotsFactorizationDepthAndLogScales => "CoeffsToSlotsFactorizationDepthAndLogScales"
  | .SlotsToCoeffsFactorizationDepthAndLogScales => "SlotsToCoeffsFactorizationDepthAndLogScales"
  | .EvalModLogScale => "EvalModLogScale" | .Mod1Type => "Mod1Type" | .LogMessageRatio => "LogMessageRatio"
  | .K => "K" | .Mod1Degree => "Mod1Degree" | .DoubleAngle => "DoubleAngle" | .Mod1InvDegree => "Mod1InvDegree"

/-- a JSON value, as far as the parameter codecs distinguish values -/
inductive JV where
  | null
  | num (n : Int)
  | bool (b : Bool)
  | ring (t : Nat)          -- "Standard" / "ConjugateInvariant" / "Invalid"
  | dtype (t : Nat)         -- "Ternary" = 0 / "DiscreteGaussian" = 1 / "Uniform" = 2
  | flt (code : Nat)        -- a float64; code 0 is +0.0
  | unums (l : List Nat)    -- []uint64
  | nums (l : List Int)     -- []int
  | numss (l : List (List Int))
  | flts (l : List Nat)     -- []float64
  | blob (code : Nat)       -- a sub-document with its own codec
  | obj (fields : List (Key × JV))

abbrev JObj := List (Key × JV)

def JObj.get (o : JObj) (k : Key) : Option JV := o.lookup k

/-- a field tagged `omitempty` is dropped when `empty` -/
def omitIf (empty : Bool) (k : Key) (v : JV) : JObj := if empty then [] else [(k, v)]

/-! ### ring.DistributionParameters -/

/-- `ring.Ternary{P, H}`, `ring.DiscreteGaussian{Sigma, Bound}`, `ring.Uniform{}` -/
inductive Dist where
  | ternary (p : Nat) (h : Int)
  | gaussian (sigma bound : Nat)
  | uniform
  deriving DecidableEq, Repr

/-- the distributions' `MarshalJSON`: Ternary writes `Type` plus its non-zero fields (`omitempty`), Gaussian
    `Type`, `Sigma`, `Bound` always (fix C19-12: they were `omitempty` but are required by the decoder) -/
def encodeDist : Dist → JV
  | .ternary p h => .obj ([(Key.Type, .dtype 0)] ++ omitIf (p == 0) .P (.flt p) ++ omitIf (h == 0) .H (.num h))
  | .gaussian s b => .obj [(Key.Type, .dtype 1), (Key.Sigma, .flt s), (Key.Bound, .flt b)]
  | .uniform => .obj [(Key.Type, .dtype 2)]

/-- `ring.ParametersFromMap`: a Ternary needs exactly one of `P`, `H` non-zero, a Gaussian needs both
    `Sigma` and `Bound` to be PRESENT -/
def decodeDist : JV → Except String Dist
  | .obj fs =>
    match JObj.get fs .Type with
    | some (.dtype 2) => .ok .uniform
    | some (.dtype 0) =>
      match (match JObj.get fs .P with | some (.flt p) => some p | none => some 0 | _ => none),
            (match JObj.get fs .H with | some (.num h) => some h | none => some 0 | _ => none) with
      | some p, some h => if (p != 0) == (h != 0) then .error "ternary: exactly one of P, H" else .ok (.ternary p h)
      | _, _ => .error "ternary: field type"
    | some (.dtype 1) =>
      match JObj.get fs .Sigma, JObj.get fs .Bound with
      | some (.flt s), some (.flt b) => .ok (.gaussian s b)
      | _, _ => .error "gaussian: Sigma and Bound are required"
    | _ => .error "distribution type"
  | _ => .error "distribution: not an object"

/-- the distributions that survive their own codec: every Gaussian, Uniform, and a Ternary with exactly one of
    `P`, `H` set — which is also what `NewParameters` accepts (fix C19-13) apart from the `P = H = 0` warning -/
def Dist.codecOK : Dist → Bool
  | .ternary p h => (p != 0) != (h != 0)
  | .gaussian _ _ => true
  | .uniform => true

def decodeOptDist : Option JV → Except String (Option Dist)
  | none => .ok none
  | some .null => .ok none
  | some v => (decodeDist v).map some

/-! ### rlwe.ParametersLiteral -/

/-- `rlwe.ParametersLiteral`; `none` is a nil slice / nil interface -/
structure RlweLit where
  logN : Int
  logNthRoot : Int
  q : Option (List Nat)
  p : Option (List Nat)
  logQ : Option (List Int)
  logP : Option (List Int)
  xe : Option Dist
  xs : Option Dist
  ringType : Nat
  defaultScale : Nat        -- opaque: the Scale text
  nttFlag : Bool
  deriving DecidableEq, Repr

def emptyOpt {α} : Option (List α) → Bool
  | none => true
  | some l => l.isEmpty

/-- `json.Marshal(rlwe.ParametersLiteral)`: the struct tags of core/rlwe/params.go:54 (all but `LogN` and
    `DefaultScale` are `omitempty`; on a struct-typed field the tag has no effect) -/
def encodeRlweLit (l : RlweLit) : JObj :=
  [(Key.LogN, .num l.logN)] ++
  omitIf (l.logNthRoot == 0) .LogNthRoot (.num l.logNthRoot) ++
  omitIf (emptyOpt l.q) .Q (.unums (l.q.getD [])) ++
  omitIf (emptyOpt l.p) .P (.unums (l.p.getD [])) ++
  omitIf (emptyOpt l.logQ) .LogQ (.nums (l.logQ.getD [])) ++
  omitIf (emptyOpt l.logP) .LogP (.nums (l.logP.getD [])) ++
  omitIf l.xe.isNone .Xe ((l.xe.map encodeDist).getD .null) ++
  omitIf l.xs.isNone .Xs ((l.xs.map encodeDist).getD .null) ++
  omitIf (l.ringType == 0) .RingType (.ring l.ringType) ++
  [(Key.DefaultScale, .blob l.defaultScale)] ++
  omitIf (!l.nttFlag) .NTTFlag (.bool l.nttFlag)

def getNum (o : JObj) (k : Key) : Except String Int :=
  match o.get k with
  | none => .ok 0
  | some .null => .ok 0
  | some (.num n) => .ok n
  | _ => .error s!"{k.name}: number expected"

def getUNums (o : JObj) (k : Key) : Except String (Option (List Nat)) :=
  match o.get k with
  | none => .ok none
  | some .null => .ok none
  | some (.unums l) => .ok (some l)
  | _ => .error s!"{k.name}: array expected"

def getNums (o : JObj) (k : Key) : Except String (Option (List Int)) :=
  match o.get k with
  | none => .ok none
  | some .null => .ok none
  | some (.nums l) => .ok (some l)
  | _ => .error s!"{k.name}: array expected"

/-- `(*rlwe.ParametersLiteral).UnmarshalJSON` (with fix C19-8: `LogNthRoot` is read) -/
def decodeRlweLit (o : JObj) : Except String RlweLit := do
  let logN ← getNum o .LogN
  let root ← getNum o .LogNthRoot
  let q ← getUNums o .Q
  let p ← getUNums o .P
  let logQ ← getNums o .LogQ
  let logP ← getNums o .LogP
  let xs ← decodeOptDist (o.get .Xs)
  let xe ← decodeOptDist (o.get .Xe)
  let rt ← (match o.get .RingType with
    | none => .ok 0
    | some (.ring t) => if t ≤ 1 then .ok t else .error "invalid ring type"
    | _ => .error "RingType: string expected" : Except String Nat)
  let sc ← (match o.get .DefaultScale with
    | none => .ok 0
    | some (.blob c) => .ok c
    | _ => .error "DefaultScale" : Except String Nat)
  let ntt ← (match o.get .NTTFlag with
    | none => .ok false
    | some (.bool b) => .ok b
    | _ => .error "NTTFlag" : Except String Bool)
  return { logN := logN, logNthRoot := root, q := q, p := p, logQ := logQ, logP := logP, xe := xe, xs := xs,
           ringType := rt, defaultScale := sc, nttFlag := ntt }

/-- `omitempty` cannot tell an empty slice from a nil one -/
def normSlice {α} : Option (List α) → Option (List α)
  | some [] => none
  | x => x

def RlweLit.normalize (l : RlweLit) : RlweLit :=
  { l with q := normSlice l.q, p := normSlice l.p, logQ := normSlice l.logQ, logP := normSlice l.logP }

/-! ### bootstrapping.Parameters and bootstrapping.ParametersLiteral -/

structure Iter where
  precision : Option (List Nat)
  reserved : Int
  deriving DecidableEq, Repr

def encodeIter : Option Iter → JV
  | none => .null
  | some it => .obj [(Key.BootstrappingPrecision, match it.precision with | none => .null | some l => .flts l),
                     (Key.ReservedPrimeBitSize, .num it.reserved)]

def decodeIter : Option JV → Except String (Option Iter)
  | none => .ok none
  | some .null => .ok none
  | some (.obj fs) => do
    let pr ← (match JObj.get fs .BootstrappingPrecision with
      | none => .ok none
      | some .null => .ok none
      | some (.flts l) => .ok (some l)
      | _ => .error "BootstrappingPrecision" : Except String (Option (List Nat)))
    let r ← getNum fs .ReservedPrimeBitSize
    return some { precision := pr, reserved := r }
  | _ => .error "IterationsParameters"

/-- `bootstrapping.Parameters` (the five nested parameter objects are opaque) -/
structure BtpParams where
  residual : Nat
  bootstrapping : Nat
  s2c : Nat
  mod1 : Nat
  c2s : Nat
  iterations : Option Iter
  ephemeralSecretWeight : Int
  circuitOrder : Int
  deriving DecidableEq, Repr

/-- `bootstrapping.Parameters.MarshalJSON`: eight fields, none of them `omitempty` -/
def encodeBtp (p : BtpParams) : JObj :=
  [(Key.ResidualParameters, .blob p.residual), (Key.BootstrappingParameters, .blob p.bootstrapping),
   (Key.SlotsToCoeffsParameters, .blob p.s2c), (Key.Mod1ParametersLiteral, .blob p.mod1),
   (Key.CoeffsToSlotsParameters, .blob p.c2s), (Key.IterationsParameters, encodeIter p.iterations),
   (Key.EphemeralSecretWeight, .num p.ephemeralSecretWeight), (Key.CircuitOrder, .num p.circuitOrder)]

def getBlob (o : JObj) (k : Key) : Except String Nat :=
  match o.get k with
  | none => .ok 0
  | some (.blob c) => .ok c
  | _ => .error s!"{k.name}: object expected"

/-- `(*bootstrapping.Parameters).UnmarshalJSON`: an absent field is the zero value (no defaulting) -/
def decodeBtp (o : JObj) : Except String BtpParams := do
  let r ← getBlob o .ResidualParameters
  let b ← getBlob o .BootstrappingParameters
  let s ← getBlob o .SlotsToCoeffsParameters
  let m ← getBlob o .Mod1ParametersLiteral
  let c ← getBlob o .CoeffsToSlotsParameters
  let it ← decodeIter (o.get .IterationsParameters)
  let e ← getNum o .EphemeralSecretWeight
  let co ← getNum o .CircuitOrder
  return { residual := r, bootstrapping := b, s2c := s, mod1 := m, c2s := c, iterations := it,
           ephemeralSecretWeight := e, circuitOrder := co }

/-- `bootstrapping.ParametersLiteral`: pointer fields are `Option`s (`none` = nil = "use the default") -/
structure BtpLit where
  logN : Option Int
  logP : Option (List Int)
  xs : Option Dist
  xe : Option Dist
  logSlots : Option Int
  c2s : Option (List (List Int))
  s2c : Option (List (List Int))
  evalModLogScale : Option Int
  ephemeralSecretWeight : Option Int
  iterations : Option Iter
  mod1Type : Int
  logMessageRatio : Option Int
  k : Option Int
  mod1Degree : Option Int
  doubleAngle : Option Int
  mod1InvDegree : Option Int
  deriving DecidableEq, Repr

def encPtr : Option Int → JV
  | none => .null
  | some n => .num n

def decPtr (o : JObj) (k : Key) : Except String (Option Int) :=
  match o.get k with
  | none => .ok none
  | some .null => .ok none
  | some (.num n) => .ok (some n)
  | _ => .error s!"{k.name}: number expected"

/-- `json.Marshal(bootstrapping.ParametersLiteral)`: sixteen fields, no `omitempty`: nil ⇒ `null`, `&0` ⇒ `0` -/
def encodeBtpLit (l : BtpLit) : JObj :=
  [(Key.LogN, encPtr l.logN),
   (Key.LogP, match l.logP with | none => .null | some v => .nums v),
   (Key.Xs, (l.xs.map encodeDist).getD .null),
   (Key.Xe, (l.xe.map encodeDist).getD .null),
   (Key.LogSlots, encPtr l.logSlots),
   (Key.CoeffsToSlotsFactorizationDepthAndLogScales, match l.c2s with | none => .null | some v => .numss v),
   (Key.SlotsToCoeffsFactorizationDepthAndLogScales, match l.s2c with | none => .null | some v => .numss v),
   (Key.EvalModLogScale, encPtr l.evalModLogScale),
   (Key.EphemeralSecretWeight, encPtr l.ephemeralSecretWeight),
   (Key.IterationsParameters, encodeIter l.iterations),
   (Key.Mod1Type, .num l.mod1Type),
   (Key.LogMessageRatio, encPtr l.logMessageRatio),
   (Key.K, encPtr l.k),
   (Key.Mod1Degree, encPtr l.mod1Degree),
   (Key.DoubleAngle, encPtr l.doubleAngle),
   (Key.Mod1InvDegree, encPtr l.mod1InvDegree)]

def getNumss (o : JObj) (k : Key) : Except String (Option (List (List Int))) :=
  match o.get k with
  | none => .ok none
  | some .null => .ok none
  | some (.numss l) => .ok (some l)
  | _ => .error s!"{k.name}: array of arrays expected"

/-- `(*bootstrapping.ParametersLiteral).UnmarshalJSON` (fix C19-9: `Xs`/`Xe` through `ParametersFromMap`) -/
def decodeBtpLit (o : JObj) : Except String BtpLit := do
  let logN ← decPtr o .LogN
  let logP ← getNums o .LogP
  let xs ← decodeOptDist (o.get .Xs)
  let xe ← decodeOptDist (o.get .Xe)
  let logSlots ← decPtr o .LogSlots
  let c2s ← getNumss o .CoeffsToSlotsFactorizationDepthAndLogScales
  let s2c ← getNumss o .SlotsToCoeffsFactorizationDepthAndLogScales
  let ev ← decPtr o .EvalModLogScale
  let eph ← decPtr o .EphemeralSecretWeight
  let it ← decodeIter (o.get .IterationsParameters)
  let mt ← getNum o .Mod1Type
  let lmr ← decPtr o .LogMessageRatio
  let k ← decPtr o .K
  let md ← decPtr o .Mod1Degree
  let da ← decPtr o .DoubleAngle
  let mi ← decPtr o .Mod1InvDegree
  return { logN := logN, logP := logP, xs := xs, xe := xe, logSlots := logSlots, c2s := c2s, s2c := s2c,
           evalModLogScale := ev, ephemeralSecretWeight := eph, iterations := it, mod1Type := mt,
           logMessageRatio := lmr, k := k, mod1Degree := md, doubleAngle := da, mod1InvDegree := mi }

/-- names of the top-level keys, in emission order, and of those whose value is `null` -/
def keyNames (o : JObj) : List String := o.map (·.1.name)
def nullKeys (o : JObj) : List String := (o.filter fun kv => match kv.2 with | .null => true | _ => false).map (·.1.name)
def subKeys (v : Option JV) : List String :=
  match v with
  | some (.obj fs) => keyNames fs
  | _ => []

/-! ### rlwe.Scale: the text of `DefaultScale` inside the parameter encodings

  `Scale.MarshalJSON` writes `Value` and `Mod` as `big.Float.Text('e', 39)` (40 significant digits) of 128-bit floats;
  `UnmarshalJSON` parses `Value` into a 128-bit `big.Float` and `Mod` into a `big.Float` of the default precision 64, then
  takes its integer part. For INTEGER scales and moduli below `10^40` the text holds every digit, so the codec is:
  exact decimal text, then rounding to the decoder's mantissa width. (Non-integer scales: probes only.) -/

/-- round `n` to `p` significant bits, ties to even: what parsing an exact decimal integer into a `p`-bit float gives -/
def roundMant (p n : Nat) : Nat :=
  let b := len64' n
  if b ≤ p then n
  else
    let sh := b - p
    let q := n / 2 ^ sh
    let r := n % 2 ^ sh
    let half := 2 ^ (sh - 1)
    let q' := if r > half || (r == half && q % 2 == 1) then q + 1 else q
    q' * 2 ^ sh
where
  /-- bit length of an arbitrary natural number -/
  len64' (n : Nat) : Nat := if n = 0 then 0 else Nat.log2 n + 1

/-- `Text('e', 39)` of a natural number below `10^40`: `d.ddd…d` with 39 digits after the point, `e+XX` -/
def sciText (n : Nat) : String :=
  let zeros (k : Nat) : String := String.ofList (List.replicate k '0')
  if n = 0 then "0." ++ zeros 39 ++ "e+00"
  else
    let ds := (Nat.toDigits 10 n)
    let e := ds.length - 1
    let frac := (ds.drop 1).take 39
    String.ofList (ds.take 1) ++ "." ++ String.ofList frac ++ zeros (39 - frac.length) ++
      "e+" ++ (if e < 10 then "0" else "") ++ toString e

/-- an integer `rlwe.Scale`: `Value` and `Mod` (`none` = nil) -/
structure ScaleInt where
  value : Nat
  mod : Option Nat
  deriving DecidableEq, Repr

/-- the two numbers `Scale.MarshalJSON` writes (exactly, for numbers below `10^40`); a nil `Mod` is written as 0 -/
def encodeScaleInt (s : ScaleInt) : Nat × Nat := (s.value, s.mod.getD 0)

/-- `Scale.UnmarshalJSON` with mantissa widths `pv` for `Value` (128 in the code) and `pm` for `Mod` (64 in the code:
    `new(big.Float).SetString`); a zero `Mod` is nil -/
def decodeScaleInt (pv pm : Nat) (t : Nat × Nat) : ScaleInt :=
  { value := roundMant pv t.1, mod := if roundMant pm t.2 = 0 then none else some (roundMant pm t.2) }

/-! ### the literal of an accepted object (`Parameters.ParametersLiteral()`), for the re-validation theorem -/

def Accepted.literal (a : Accepted) : Literal :=
  { logN := a.logN, q := some a.q, p := some a.p, ringType := a.ringType }

/-! ### bootstrapping: the residual chain must be NTT-friendly for the bootstrapping ring -/

/-- the root order `bootstrapping.NewParametersFromLiteral` uses: the larger of the residual ring's and `2·2^LogN` of the
    bootstrapping literal (`LogN` defaults to 16) -/
def btpNthRoot (resLogN ringType btpLogN : Nat) : Nat :=
  max ((if ringType = 0 then 2 else 4) * 2 ^ resLogN) (2 * 2 ^ btpLogN)

/-- `for i, q := range residual.Q() { if q&(NthRoot-1) != 1 { error } }`: index of the first offending prime -/
def btpResidualCheck (resLogN ringType btpLogN : Nat) (q : List Nat) : Option Nat :=
  firstIdx (fun x => x &&& (btpNthRoot resLogN ringType btpLogN - 1) != 1) q 0

/-! ## executable oracles -/

def smallPrimes : List Nat := [2, 3, 5, 7, 11, 13, 17, 19, 23, 29, 31, 37]

/-- one Miller–Rabin round, `n - 1 = d·2^s`, witness `a` -/
def mrRound (n d s a : Nat) : Bool :=
  let x := powModFast a d n
  if x = 1 || x = n - 1 then true
  else
    let rec sq : Nat → Nat → Bool
      | 0, _ => false
      | k + 1, x =>
        let x := x * x % n
        if x = n - 1 then true else sq k x
    sq (s - 1) x

def oddPart : Nat → Nat → Nat → Nat × Nat
  | 0, d, s => (d, s)
  | fuel + 1, d, s => if d % 2 = 0 && d != 0 then oddPart fuel (d / 2) (s + 1) else (d, s)

/-- deterministic Miller–Rabin with the first 12 prime bases (exact below 3.3·10^24) -/
def isPrimeMR (n : Nat) : Bool :=
  if n < 2 then false
  else if smallPrimes.contains n then true
  else if smallPrimes.any (fun p => n % p = 0) then false
  else
    let (d, s) := oddPart (n.log2 + 1) (n - 1) 0
    smallPrimes.all (fun a => mrRound n d s a)

/-! ### Go's `math.Log2` on IEEE-754 doubles (math/log.go, math/log10.go; amd64, no FMA) -/

def fbits (b : UInt64) : Float := Float.ofBits b

/-- `math.log` for a finite `x > 0` -/
def goLog (x : Float) : Float :=
  let ln2Hi := fbits 0x3fe62e42fee00000
  let ln2Lo := fbits 0x3dea39ef35793c76
  let l1 := fbits 0x3FE5555555555593
  let l2 := fbits 0x3FD999999997FA04
  let l3 := fbits 0x3FD2492494229359
  let l4 := fbits 0x3FCC71C51D8E78AF
  let l5 := fbits 0x3FC7466496CB03DE
  let l6 := fbits 0x3FC39A09D078C69F
  let l7 := fbits 0x3FC2F112DF3E5244
  let sqrt2half := fbits 0x3FE6A09E667F3BCD
  let (f1, ki) := x.frExp
  let (f1, ki) := if f1 < sqrt2half then (f1 * 2, ki - 1) else (f1, ki)
  let f := f1 - 1
  let k := Float.ofInt ki
  let s := f / (2 + f)
  let s2 := s * s
  let s4 := s2 * s2
  let t1 := s2 * (l1 + s4 * (l3 + s4 * (l5 + s4 * l7)))
  let t2 := s4 * (l2 + s4 * (l4 + s4 * l6))
  let r := t1 + t2
  let hfsq := 0.5 * f * f
  k * ln2Hi - ((hfsq - (s * (hfsq + r) + k * ln2Lo)) - f)

/-- `math.Log2` for a finite `x > 0` -/
def goLog2 (x : Float) : Float :=
  let (frac, e) := x.frExp
  if frac == 0.5 then Float.ofInt (e - 1)
  else goLog frac * fbits 0x3FF71547652B82FE + Float.ofInt e

/-- `float64(c)` for a `uint64` -/
def u64ToFloat (c : Nat) : Float := (UInt64.ofNat c).toFloat

/-- `math.Log2(float64(c))`; Go returns `-Inf` for 0 -/
def log2OfU64 (c : Nat) : Float := if c = 0 then fbits 0xFFF0000000000000 else goLog2 (u64ToFloat c)

def stopUpFloat (size c : Nat) : Bool := log2OfU64 c - Float.ofNat size >= 0.5
def stopDownFloat (size c : Nat) : Bool := Float.ofNat size - log2OfU64 c >= 0.5

/-- the oracle the driver runs -/
def goOracle : Oracle := { isPrime := isPrimeMR, stopUp := stopUpFloat, stopDown := stopDownFloat }

/-- the exact-arithmetic reading of the two float tests: `c ≥ 2^(S+1/2)` and `c ≤ 2^(S-1/2)` -/
def stopUpExact (size c : Nat) : Bool := decide (c * c ≥ 2 ^ (2 * size + 1))
def stopDownExact (size c : Nat) : Bool := decide (2 * (c * c) ≤ 2 ^ (2 * size))

/-- the idealised oracle: exact comparisons instead of the float ones (decidable in the kernel) -/
def exactOracle : Oracle := { isPrime := isPrimeMR, stopUp := stopUpExact, stopDown := stopDownExact }

/-- default fuel of the driver -/
def driverFuel : Nat := 4000000

end Lattigo.Params
