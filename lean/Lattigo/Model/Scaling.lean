/-
  Layer D of the twin (1/3): division of an RNS polynomial by its last modulus, ring/scaling.go.

  LIMB LEVEL (bit-exact twin of the Go code, built from the REGENERATED lanes `Gen.*_lane`, the
  bit-exact NTT of Model/NTT.lean and the `RescaleConstants` table of ring/ring.go):
      divFloor, divFloorNTT, divFloorMany, divFloorManyNTT,
      divRound, divRoundNTT, divRoundMany, divRoundManyNTT
  None of them modifies its input (`DivRoundByLastModulus` did before the repair C02-1 of /repo).
  `Xf`, `div*NTTX`: the same NTT-domain functions for either ring type (standard / conjugate-invariant);
  with `xfStd` they ARE `div*NTT` (`rfl`), with `xfCI` they are tied only (driver op `divci`).
  Proved (Proofs/ScalingRefine.lean, ScalingNTT.lean, ScalingNTTRange.lean): every limb of all 8 standard-ring
  functions = residue (resp. forward NTT of the residues) of the floored / round-half-up quotient, every ring degree.

  INTEGER LEVEL (the specification the limb level refines, Proofs/Scaling*.lean):
      divFloorRes / divFloorInt / divRoundInt : the per-modulus formula on residues.
  Core Lean only.
-/
import Lattigo.Gen.ModRed
import Lattigo.Gen.VecLanes
import Lattigo.Model.BRedConst
import Lattigo.Model.NTT

namespace Lattigo.Scaling
open Lattigo Lattigo.Gen

abbrev Rows := List (List Nat)

def row (p : Rows) (i : Nat) : List Nat := p.getD i []
def modulus (qs : List Nat) (i : Nat) : Nat := qs.getD i 0

/-! ## integer level -/

/-- residues of an integer -/
def residues (qs : List Nat) (x : Nat) : List Nat := qs.map fun q => x % q

/-- product of a chain -/
def prodN : List Nat → Nat
  | [] => 1
  | q :: qs => q * prodN qs

/-- the inverse the code uses everywhere: `ModExp(a, q-2, q)` (Fermat) -/
def invMod (a q : Nat) : Nat := NTT.modExp a (q - 2) q

/-- `(x_i − x_ℓ)·c mod q_i`, `c` the inverse of `q_ℓ` modulo `q_i` -/
def divFloorRes (qi c xi xl : Nat) : Nat := ((xi + qi - xl % qi) * c) % qi

/-- DivFloorByLastModulus on residues: `xs` the residues modulo `qs`, `xl` the residue modulo `ql` -/
def divFloorInt (qs : List Nat) (ql : Nat) (xs : List Nat) (xl : Nat) : List Nat :=
  List.zipWith (fun qi xi => divFloorRes qi (invMod ql qi) xi xl) qs xs

/-- `(q_ℓ − 1) >> 1` -/
def half (ql : Nat) : Nat := (ql - 1) / 2

/-- DivRoundByLastModulus on residues: add `(q_ℓ−1)/2` to every residue, then divide (floored) -/
def divRoundInt (qs : List Nat) (ql : Nat) (xs : List Nat) (xl : Nat) : List Nat :=
  divFloorInt qs ql (List.zipWith (fun qi xi => (xi + half ql % qi) % qi) qs xs) ((xl + half ql) % ql)

/-- one division step on the residue vector of a chain `qs` (last element = the modulus divided by) -/
def stepFloorInt (qs : List Nat) (xs : List Nat) : List Nat :=
  divFloorInt qs.dropLast (qs.getLastD 1) xs.dropLast (xs.getLastD 0)

def stepRoundInt (qs : List Nat) (xs : List Nat) : List Nat :=
  divRoundInt qs.dropLast (qs.getLastD 1) xs.dropLast (xs.getLastD 0)

/-- `nb` successive divisions (what `Div*ByLastModulusMany` compute) -/
def manyFloorInt : Nat → List Nat → List Nat → List Nat
  | 0, _, xs => xs
  | nb + 1, qs, xs => manyFloorInt nb qs.dropLast (stepFloorInt qs xs)

def manyRoundInt : Nat → List Nat → List Nat → List Nat
  | 0, _, xs => xs
  | nb + 1, qs, xs => manyRoundInt nb qs.dropLast (stepRoundInt qs xs)

/-! ## limb level -/

/-- `rewRescaleConstants`: `RescaleConstants[j-1][i] = MForm(q_i − ModExp(q_j, q_i−2, q_i), q_i)` -/
def rescaleConst (qi qj : Nat) : Nat := MForm (u64sub qi (invMod qj qi)) qi (brc qi)

/-- one limb of `DivFloorByLastModulus`:
    `SubThenMulScalarMontgomeryTwoModulus(p0[level], p0[i], RescaleConstants[level-1][i])` -/
def divFloorLimb (qi ql : Nat) (xi xl : Nat) : Nat :=
  subthenmulscalarmontgomeryTwoModulusvec_lane xl xi (rescaleConst qi ql) 0 qi (GenMRedConstant qi)

/-- `DivFloorByLastModulus` at level `level`: rows `0..level-1` of `p1` -/
def divFloor (qs : List Nat) (level : Nat) (p0 : Rows) : Rows :=
  (List.range level).map fun i =>
    List.zipWith (divFloorLimb (modulus qs i) (modulus qs level)) (row p0 i) (row p0 level)

/-- `pHalf := (q_ℓ − 1) >> 1` -/
def pHalf (ql : Nat) : Nat := u64shr (u64sub ql 1) 1

/-- the last row after `AddScalar(p0[level], pHalf, p0[level])` -/
def roundLastLimb (ql xl : Nat) : Nat := addscalarvec_lane xl (pHalf ql) 0 ql

/-- the scalar `s.Modulus - BRedAdd(pHalf, s.Modulus, s.BRedConstant)` -/
def roundScalar (qi ql : Nat) : Nat := u64sub qi (BRedAdd (pHalf ql) qi (brc qi))

/-- the scalar `MRed(q_i − BRedAdd(pHalf, q_i), RescaleConstants[level-1][i])`, i.e. `(−pHalf)·(−q_ℓ⁻¹) mod q_i` -/
def roundConst (qi ql : Nat) : Nat :=
  MRed (roundScalar qi ql) (rescaleConst qi ql) qi (GenMRedConstant qi)

/-- one limb of `DivRoundByLastModulus` (`xl'` is the already shifted last row, staged in the output):
    `SubThenMulScalarMontgomeryTwoModulus(buff, p0[i], RescaleConstants[level-1][i], p1[i])` then
    `AddScalar(p1[i], roundConst, p1[i])` -/
def divRoundLimb (qi ql : Nat) (xi xl' : Nat) : Nat :=
  addscalarvec_lane (divFloorLimb qi ql xi xl') (roundConst qi ql) 0 qi

/-- `DivRoundByLastModulus(p0, p1)`: rows `0..level-1` of `p1`.  `p0` is NOT modified (since the repair of
    /repo: the shifted last row is staged in the last output row; for the in-place call `p1 = p0` in p0's own
    last row, which is dead after the call).  At level 0 the function returns at once. -/
def divRound (qs : List Nat) (level : Nat) (p0 : Rows) : Rows :=
  let ql := modulus qs level
  let last' := (row p0 level).map (roundLastLimb ql)
  (List.range level).map fun i =>
    List.zipWith (divRoundLimb (modulus qs i) ql) (row p0 i) last'

/-- `nb` successive `DivFloorByLastModulus` starting at `level` (buffer aliasing `buff, buff` is harmless:
    row `i` of the output depends on rows `i` and `level` of the input only) -/
def iterFloor (qs : List Nat) : Nat → Nat → Rows → Rows
  | 0, _, p => p
  | nb + 1, level, p => iterFloor qs nb (level - 1) (divFloor qs level p)

def iterRound (qs : List Nat) : Nat → Nat → Rows → Rows
  | 0, _, p => p
  | nb + 1, level, p => iterRound qs nb (level - 1) (divRound qs level p)

/-- `DivFloorByLastModulusMany(nbRescales, p0, buff, p1)`; `none` = the Go code panics
    (`AtLevel(-1)`) -/
def divFloorMany (qs : List Nat) (level nb : Nat) (p0 : Rows) : Option Rows :=
  if nb = 0 then some (p0.take (level + 1))
  else if nb = 1 then some (divFloor qs level p0)          -- at level 0: the loop body never runs
  else if nb > level then none
  else some (iterFloor qs nb level p0)

/-- `DivRoundByLastModulusMany` (p0 is not modified) -/
def divRoundMany (qs : List Nat) (level nb : Nat) (p0 : Rows) : Option Rows :=
  if nb = 0 then some (p0.take (level + 1))
  else if nb = 1 then some (divRound qs level p0)
  else if nb > level then none
  else some (iterRound qs nb level p0)

/-! ### NTT-domain variants -/

/-- per-modulus NTT tables of the ring (index = position in the chain) -/
abbrev Tabs := List NTT.Tables

def tab (T : Tabs) (i : Nat) : NTT.Tables := T.getD i default

def mkTabs (n : Nat) (qs gs : List Nat) : Tabs :=
  List.zipWith (fun q g => NTT.mkTables n q (2 * n) g) qs gs

/-- `DivFloorByLastModulusNTT(p0, buff, p1)`.  The last row goes through the REDUCING `INTT` (repair C02-4 of
    /repo; the code used `INTTLazy`, whose values in `[1, 2q_ℓ)` for `N < 16` made the quotient off by one). -/
def divFloorNTT (T : Tabs) (qs : List Nat) (level : Nat) (p0 : Rows) : Rows :=
  let b0 := NTT.inttStd (tab T level) (row p0 level)
  (List.range level).map fun i =>
    let b1 := NTT.nttStdLazy (tab T i) b0
    List.zipWith (divFloorLimb (modulus qs i) (modulus qs level)) (row p0 i) b1

/-- `DivRoundByLastModulusNTT(p0, buff, p1)` (does not modify p0; reducing `INTT` of the last row, repair C02-4) -/
def divRoundNTT (T : Tabs) (qs : List Nat) (level : Nat) (p0 : Rows) : Rows :=
  let ql := modulus qs level
  let b := (NTT.inttStd (tab T level) (row p0 level)).map (roundLastLimb ql)
  (List.range level).map fun i =>
    let qi := modulus qs i
    let c := b.map fun x => addscalarlazyvec_lane x (roundScalar qi ql) 0
    let d := NTT.nttStdLazy (tab T i) c
    List.zipWith (divFloorLimb qi ql) (row p0 i) d

def inttRows (T : Tabs) (level : Nat) (p : Rows) : Rows :=
  (List.range (level + 1)).map fun i => NTT.inttStd (tab T i) (row p i)

def nttRows (T : Tabs) (level : Nat) (p : Rows) : Rows :=
  (List.range (level + 1)).map fun i => NTT.nttStd (tab T i) (row p i)

/-- `DivFloorByLastModulusManyNTT` -/
def divFloorManyNTT (T : Tabs) (qs : List Nat) (level nb : Nat) (p0 : Rows) : Option Rows :=
  if nb = 0 then some (p0.take (level + 1))
  else if nb > level then none
  else some (nttRows T (level - nb) (iterFloor qs nb level (inttRows T level p0)))

/-- `DivRoundByLastModulusManyNTT` -/
def divRoundManyNTT (T : Tabs) (qs : List Nat) (level nb : Nat) (p0 : Rows) : Option Rows :=
  if nb = 0 then some (p0.take (level + 1))
  else if nb = 1 then some (divRoundNTT T qs level p0)
  else if nb > level then none
  else some (nttRows T (level - nb) (iterRound qs nb level (inttRows T level p0)))

/-! ### the same four functions for either ring type

`Xf` bundles the four `SubRing` transforms of a ring type (standard `Z[X]/(X^N+1)` or conjugate-invariant
`Z[X+X^-1]/(X^2N+1)`); the `…X` functions are the NTT-domain divisions written once for both.  With `xfStd`
they ARE the functions above (`divFloorNTTX_std` … by `rfl`); with `xfCI` they are the twin of the same Go code
running on a `NewRingConjugateInvariant` ring (tied by the `divci` lines of the correspondence). -/

structure Xf where
  ntt      : NTT.Tables → List Nat → List Nat
  nttLazy  : NTT.Tables → List Nat → List Nat
  intt     : NTT.Tables → List Nat → List Nat
  inttLazy : NTT.Tables → List Nat → List Nat

def xfStd : Xf := ⟨NTT.nttStd, NTT.nttStdLazy, NTT.inttStd, NTT.inttStdLazy⟩
def xfCI : Xf := ⟨NTT.nttCI, NTT.nttCILazy, NTT.inttCI, NTT.inttCILazy⟩

def mkTabsCI (n : Nat) (qs gs : List Nat) : Tabs :=
  List.zipWith (fun q g => NTT.mkTables n q (4 * n) g) qs gs

def divFloorNTTX (F : Xf) (T : Tabs) (qs : List Nat) (level : Nat) (p0 : Rows) : Rows :=
  let b0 := F.intt (tab T level) (row p0 level)
  (List.range level).map fun i =>
    let b1 := F.nttLazy (tab T i) b0
    List.zipWith (divFloorLimb (modulus qs i) (modulus qs level)) (row p0 i) b1

def divRoundNTTX (F : Xf) (T : Tabs) (qs : List Nat) (level : Nat) (p0 : Rows) : Rows :=
  let ql := modulus qs level
  let b := (F.intt (tab T level) (row p0 level)).map (roundLastLimb ql)
  (List.range level).map fun i =>
    let qi := modulus qs i
    let c := b.map fun x => addscalarlazyvec_lane x (roundScalar qi ql) 0
    let d := F.nttLazy (tab T i) c
    List.zipWith (divFloorLimb qi ql) (row p0 i) d

def inttRowsX (F : Xf) (T : Tabs) (level : Nat) (p : Rows) : Rows :=
  (List.range (level + 1)).map fun i => F.intt (tab T i) (row p i)

def nttRowsX (F : Xf) (T : Tabs) (level : Nat) (p : Rows) : Rows :=
  (List.range (level + 1)).map fun i => F.ntt (tab T i) (row p i)

def divFloorManyNTTX (F : Xf) (T : Tabs) (qs : List Nat) (level nb : Nat) (p0 : Rows) : Option Rows :=
  if nb = 0 then some (p0.take (level + 1))
  else if nb > level then none
  else some (nttRowsX F T (level - nb) (iterFloor qs nb level (inttRowsX F T level p0)))

def divRoundManyNTTX (F : Xf) (T : Tabs) (qs : List Nat) (level nb : Nat) (p0 : Rows) : Option Rows :=
  if nb = 0 then some (p0.take (level + 1))
  else if nb = 1 then some (divRoundNTTX F T qs level p0)
  else if nb > level then none
  else some (nttRowsX F T (level - nb) (iterRound qs nb level (inttRowsX F T level p0)))

theorem divFloorNTTX_std : divFloorNTTX xfStd = divFloorNTT := rfl
theorem divRoundNTTX_std : divRoundNTTX xfStd = divRoundNTT := rfl
theorem divFloorManyNTTX_std : divFloorManyNTTX xfStd = divFloorManyNTT := rfl
theorem divRoundManyNTTX_std : divRoundManyNTTX xfStd = divRoundManyNTT := rfl

end Lattigo.Scaling
