/-
  Integer (BGV/BFV) encoder of schemes/bgv/encoder.go (property C07, integer half).

  `permuteMatrix`, `EncodeRingT` / `DecodeRingT` (uint64 and int64 paths, sign trick, zero fill),
  `RingT2Q` / `RingQ2T` (gap embedding, T⁻¹ lift, level-0 and level>0 branches, gap = 1 and gap > 1),
  `Encode` / `Decode` (batched and coefficient domain), `Embed` / `EmbedScale` (`embed`: the Q part or a plain
  `ring.Poly`; `embedP` / `ringT2P`: the P part of a `ringqp.Poly`, after fix C07-5).  The Q side is a canonical
  `RPoly` (coefficient domain, reduced rows) — what `Canon` of the harness returns for the polynomial after undoing
  NTT / Montgomery form according to the metadata.  Scalar products and reductions are written as exact modular
  arithmetic (their word-level implementations MRed / MForm / BRedAdd are C01's `ModRed` theorems); the transform over
  Z_t is the bit-exact `NTT.nttStd` / `NTT.inttStd`.  `ring.ModUpExact` (level > 0, gap = 1) is modelled as exact: the
  real one is off by one within ~2^-40·Q of ±Q/2 (probe `modupexact_zone` pins the zone down; tie lines avoid it).
  Every function here is executed by the driver (`C07 bgv …` ops) and has a general theorem in Props/C07.lean; core Lean only.
-/
import Lattigo.Model.NTT
import Lattigo.Model.RPoly

namespace Lattigo.EncoderT
open Lattigo

/-! ### slot permutation (encoder.go:98) -/

/-- `pow, pow·5 mod m, …` (`k` terms): the successive values of `pow` in the loop -/
def powers5 (m : Nat) : Nat → Nat → List Nat
  | 0, _ => []
  | k + 1, p => p :: powers5 m k (p * 5 % m)

/-- `perm[i] = bitrev((5^i mod 2N) >> 1)`, `perm[i + N/2] = N − 1 − perm[i]` -/
def permuteMatrix (logN : Nat) : List Nat :=
  let n := 2 ^ logN
  let half := n / 2
  let pows := powers5 (2 * n) half 1
  let row0 := pows.map fun p => NTT.bitRev (p / 2) logN
  row0 ++ row0.map fun pos => n - pos - 1

/-! ### values → residues -/

/-- int64 path (encoder.go:221–228): `sign = uint64(c)>>63`, `abs = BRedAdd(uint64(c·((sign^1)−sign)))`,
    `sign·(T−abs) | (sign^1)·abs`.  NOTE: for negative multiples of `t` the result is `t`, not `0`. -/
def i64Slot (t : Nat) (c : Int) : Nat :=
  let u := (c % (W : Int)).toNat
  let sign := u / 2 ^ 63
  let m := if sign = 0 then u else (W - u) % W
  let abs := m % t
  if sign = 1 then t - abs else abs

/-- the loop `for i, c := range vals { pt[perm[i]] = c }` -/
def setAll : List Nat → List Nat → List Nat → List Nat
  | p :: ps, v :: vs, buf => setAll ps vs (buf.set p v)
  | _, _, buf => buf

def scatter (perm : List Nat) (vals : List Nat) (buf : List Nat) : List Nat := setAll perm vals buf

/-- `for i := valLen; i < N; i++ { pt[perm[i]] = 0 }` -/
def zeroFill (perm : List Nat) (start : Nat) (buf : List Nat) : List Nat :=
  setAll (perm.drop start) (List.replicate (perm.length - start) 0) buf

def mulScalar (t s : Nat) (p : List Nat) : List Nat := p.map fun x => x * s % t

/-- `EncodeRingT` on `[]uint64` (`buf` = previous content of the destination polynomial) -/
def encodeRingTU (T : NTT.Tables) (perm : List Nat) (vals : List Nat) (scale : Nat) (buf : List Nat) :
    Option (List Nat) :=
  if vals.length > perm.length then none else
  let a := scatter perm vals buf
  let a := a.map (· % T.q)                         -- ringT.Reduce(pT, pT)
  let a := zeroFill perm vals.length a
  some (mulScalar T.q scale (NTT.inttStd T a))

/-- `EncodeRingT` on `[]int64` (no `Reduce` on this path) -/
def encodeRingTI (T : NTT.Tables) (perm : List Nat) (vals : List Int) (scale : Nat) (buf : List Nat) :
    Option (List Nat) :=
  if vals.length > perm.length then none else
  let a := scatter perm (vals.map (i64Slot T.q)) buf
  let a := zeroFill perm vals.length a
  some (mulScalar T.q scale (NTT.inttStd T a))

def scaleInv (t scale : Nat) : Nat := NTT.modExp scale (t - 2) t

/-- the centring of the int64 outputs (encoder.go:342): `value >= T>>1 → value − T` -/
def centerI64 (t : Nat) (x : Nat) : Int := if x ≥ t / 2 then (x : Int) - t else x

/-- `DecodeRingT` into a `[]uint64` of length `len` -/
def decodeRingTU (T : NTT.Tables) (perm : List Nat) (scale : Nat) (pT : List Nat) (len : Nat) : List Nat :=
  let c := NTT.nttStd T (mulScalar T.q (scaleInv T.q scale) pT)
  (perm.take len).map fun p => c.getD p 0

def decodeRingTI (T : NTT.Tables) (perm : List Nat) (scale : Nat) (pT : List Nat) (len : Nat) : List Int :=
  (decodeRingTU T perm scale pT len).map (centerI64 T.q)

/-! ### Z_t[Y]/(Y^n+1) ⇄ Z_Q[X]/(X^N+1) -/

def gapEmbed (gap bigN : Nat) (p : List Nat) : List Nat :=
  (List.range bigN).map fun j => if j % gap = 0 then p.getD (j / gap) 0 else 0

/-- `RingT2Q(level, scaleUp, pT, pQ)`, canonical rows -/
def ringT2Q (qs : List Nat) (t bigN : Nat) (scaleUp : Bool) (p : List Nat) : RPoly :=
  let gap := bigN / p.length
  let bigQ := RPoly.prod qs
  let tinv := RPoly.modInv (t % bigQ) bigQ
  let e := gapEmbed gap bigN p
  { qs := qs, c := qs.map fun q => e.map fun x => if scaleUp then x * (tinv % q) % q else x % q }

def column (rows : List (List Nat)) (j : Nat) : List Nat := rows.map fun r => r.getD j 0

/-- `RingQ2T(level, scaleDown = true, pQ, pT)` with `pT` of degree `n` -/
def ringQ2T (t n : Nat) (a : RPoly) : List Nat :=
  let qs := a.qs
  let bigN := (a.c.headD []).length
  let gap := bigN / n
  let rows := (qs.zip a.c).map fun (q, r) => r.map fun x => x * (t % q) % q     -- MulScalar(pQ, T)
  if qs.length > 1 then
    let bigQ := RPoly.prod qs
    let h := bigQ / 2
    if gap = 1 then
      (List.range n).map fun j =>
        let x := RPoly.crt qs (column rows j)
        let y := (x + h) % bigQ                    -- AddScalarBigint(qHalf); ModUpExact
        (y % t + t - h % t) % t                    -- SubScalarBigint(qHalf)
    else
      (List.range n).map fun j =>
        let x := RPoly.crt qs (column rows (j * gap))
        let c : Int := if x ≥ h then (x : Int) - bigQ else x   -- PolyToBigintCentered
        (c % (t : Int)).toNat                      -- SetCoefficientsBigint
  else
    let q0 := qs.headD 1
    let h := q0 / 2
    let row := rows.headD []
    (List.range n).map fun j =>
      let x := row.getD (j * gap) 0
      let y := (x + h) % q0                        -- AddScalar(q0>>1)
      (y % t + t - h % t) % t                      -- Reduce mod t; SubScalar

/-! ### Encode / Decode -/

structure Params where
  T     : NTT.Tables        -- plaintext ring: degree n, modulus t
  perm  : List Nat
  bigN  : Nat               -- ciphertext ring degree
  qs    : List Nat          -- moduli at the plaintext's level
  deriving Inhabited

inductive Vals
  | u (v : List Nat) | i (v : List Int)
  deriving Repr, Inhabited

/-- `Encoder.Encode(values, pt)` → canonical plaintext polynomial -/
def encode (P : Params) (batched : Bool) (scale : Nat) (vals : Vals) : Option RPoly :=
  let t := P.T.q
  let n := P.T.n
  if batched then
    let pT := match vals with
      | .u v => encodeRingTU P.T P.perm v scale (List.replicate n 0)
      | .i v => encodeRingTI P.T P.perm v scale (List.replicate n 0)
    pT.map (ringT2Q P.qs t P.bigN true)
  else
    let raw : Option (List Nat) := match vals with
      | .u v => if v.length > n then none else some (v ++ List.replicate (n - v.length) 0)
      | .i v => if v.length > n then none else some (v.map (i64Slot t) ++ List.replicate (n - v.length) 0)
    raw.map fun r => ringT2Q P.qs t P.bigN true (mulScalar t scale r)

/-- `Encoder.EmbedScale(values, scaleUp, metadata, polyOut)` (`Embed` = `scaleUp := false`): the rows over the
    moduli `mods` of the receiver (the Q part at its level, or the P part), in CANONICAL form — the code then
    applies NTT if `metadata.IsNTT` and multiplies by 2^64 if `metadata.IsMontgomery`, which the harness undoes
    (`Canon`) according to the same metadata before comparing. -/
def embed (P : Params) (mods : List Nat) (scaleUp : Bool) (scale : Nat) (vals : Vals) : Option RPoly :=
  let n := P.T.n
  let pT := match vals with
    | .u v => encodeRingTU P.T P.perm v scale (List.replicate n 0)
    | .i v => encodeRingTI P.T P.perm v scale (List.replicate n 0)
  pT.map (ringT2Q mods P.T.q P.bigN scaleUp)

/-- P part of `EmbedScale(values, scaleUp, metadata, ringqp.Poly{Q, P})` (encoder.go:278–297, after fix C07-5):
    the gap embedding reduced modulo the moduli `ps` of `P`, multiplied — if `scaleUp` — by the SAME integer
    `T⁻¹ mod Q_levelQ` as the Q part (`ecd.tInvModQ[levelQ]`, `ringP.MulScalarBigint`). -/
def ringT2P (qs ps : List Nat) (t bigN : Nat) (scaleUp : Bool) (p : List Nat) : RPoly :=
  let gap := bigN / p.length
  let bigQ := RPoly.prod qs
  let tinv := RPoly.modInv (t % bigQ) bigQ
  let e := gapEmbed gap bigN p
  { qs := ps, c := ps.map fun m => e.map fun x => if scaleUp then x * (tinv % m) % m else x % m }

def embedP (P : Params) (ps : List Nat) (scaleUp : Bool) (scale : Nat) (vals : Vals) : Option RPoly :=
  let n := P.T.n
  let pT := match vals with
    | .u v => encodeRingTU P.T P.perm v scale (List.replicate n 0)
    | .i v => encodeRingTI P.T P.perm v scale (List.replicate n 0)
  pT.map (ringT2P P.qs ps P.T.q P.bigN scaleUp)

/-- `Encoder.Decode(pt, values)` with `len(values) = len` -/
def decodeU (P : Params) (batched : Bool) (scale : Nat) (a : RPoly) (len : Nat) : List Nat :=
  let t := P.T.q
  let pT := ringQ2T t P.T.n a
  if batched then decodeRingTU P.T P.perm scale pT len
  else (mulScalar t (scaleInv t scale) pT).take len

def decodeI (P : Params) (batched : Bool) (scale : Nat) (a : RPoly) (len : Nat) : List Int :=
  (decodeU P batched scale a len).map (centerI64 P.T.q)

end Lattigo.EncoderT
