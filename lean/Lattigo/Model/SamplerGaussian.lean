/-
  C17 — `ring.GaussianSampler` (/repo/ring/sampler_gaussian.go) as a function of the PRNG bytes.

  Shared state of a sampler and its `AtLevel` views: the PRNG (`stream`) and the `*randomBuffer`
  (`Buf`).  NOTE (as coded): `read` refills the 1024-byte buffer at EVERY call but keeps `ptr`
  where the previous call left it.

  float64: the fast path of the ziggurat (`x = float64(j) * float64(wn[i])`, > 98 % of the draws),
  the scaling by sigma, the comparison with the bound and the rounding are computed exactly on
  `Nat` (see SamplerFloat.lean).  The two slow branches use `math.Log` / `math.Exp` (not IEEE
  operations, results platform dependent): their accept/reject decisions and the value of the base
  strip are an ORACLE parameter (`Slow`); byte consumption around them is modelled exactly.  A call
  that consulted the oracle is flagged `slow` and the driver reports the line as `inconclusive`.
  All theorems hold for every oracle.
  Core Lean only.
-/
import Lattigo.Model.Sampler
import Lattigo.Model.SamplerUniform
import Lattigo.Model.SamplerFloat
import Lattigo.Model.SamplerGaussTables
namespace Lattigo.Sampler
open Lattigo Lattigo.Gen

/-- the `math.Log` / `math.Exp` branches of `normFloat64` -/
structure Slow where
  /-- base strip (`i == 0`): from the numerators `u1, u2 < 2^53` of the two `randF64()` calls
      (`randF64 = float64(u) / float64(2^53-1)`): `x = -log(u1')/rn`, `y = -log(u2')`;
      `some (x + rn)` (scaled by 2^1074) when `y + y >= x * x`, else `none` -/
  base : Nat → Nat → Option Nat
  /-- wedge (`i > 0`): `fn[i] + float32(randF64()) * (fn[i-1] - fn[i]) < float32(math.Exp(-0.5*x*x))`
      from `i`, `x` (scaled) and the numerator `u` -/
  wedge : Nat → Nat → Nat → Bool

/-- the closure `read()`: `if ptr == buffLen { prng.Read(buff); ptr = 0 }` -/
def gRefillIfFull (s : Bytes) (b : Buf) : Res (Bytes × Buf) :=
  if b.ptr = bufLen then refill s else .ok (s, b)

/-- `randU32()`: little-endian uint32 at `ptr` (a `uint32`: reduced mod 2^32), then `ptr += 8` -/
def randU32 (s : Bytes) (b : Buf) : Res (Nat × Bytes × Buf) := do
  let (s, b) ← gRefillIfFull s b
  pure (leNat ((b.data.drop b.ptr).take 4) % 4294967296, s, { b with ptr := b.ptr + 8 })

/-- numerator of `randF64()`: little-endian uint64 at `ptr` masked to 53 bits, then `ptr += 8` -/
def randU53 (s : Bytes) (b : Buf) : Res (Nat × Bytes × Buf) := do
  let (s, b) ← gRefillIfFull s b
  pure (u64and (leNat ((b.data.drop b.ptr).take 8)) 0x1fffffffffffff, s, { b with ptr := b.ptr + 8 })

/-- the inner `for { x = -log(randF64())/rn; y = -log(randF64()); if y+y >= x*x { break } }` -/
def baseLoop (orc : Slow) : Nat → Bytes → Buf → Res (Nat × Bytes × Buf)
  | 0, _, _ => .exhausted
  | fuel + 1, s, b =>
    randU53 s b >>= fun (u1, s, b) =>
    randU53 s b >>= fun (u2, s, b) =>
    match orc.base u1 u2 with
    | some x => .ok (x, s, b)
    | none => baseLoop orc fuel s b

/-- the head of one ziggurat round, from the 32 random bits `ju`:
    `j = ju & 0x7fffffff; sign = ju >> 31; i = j & 0x7F; x = float64(j) * float64(wn[i])` and the
    fast-path test `uint32(j) < kn[i]`; returns `(x, sign, i, fast)` -/
def zigHead (ju : Nat) : Nat × Nat × Nat × Bool :=
  let j := u64and ju 0x7fffffff
  let i := u64and j 0x7f
  (SF.mul (SF.ofNat j) (SF.ofBits32 (Zig.wn.getD i 0)), u64shr ju 31, i, decide (j < Zig.kn.getD i 0))

/-- `normFloat64()`: `(|x|, sign, slow?, stream, buffer)`; `slow` is sticky -/
def normF (orc : Slow) : Nat → Bool → Bytes → Buf → Res (Nat × Nat × Bool × Bytes × Buf)
  | 0, _, _, _ => .exhausted
  | fuel + 1, slow, s, b =>
    randU32 s b >>= fun (ju, s, b) =>
    let z := zigHead ju
    if z.2.2.2 then .ok (z.1, z.2.1, slow, s, b)
    else if z.2.2.1 = 0 then
      baseLoop orc fuel s b >>= fun (x, s, b) => .ok (x, z.2.1, true, s, b)
    else
      randU53 s b >>= fun (u, s, b) =>
      if orc.wedge z.2.2.1 z.1 u then .ok (z.1, z.2.1, true, s, b) else normF orc fuel true s b

/-- `for { candidate; if accepted { break } }`: repeat `step` until it yields a value -/
def retry {α : Type} (step : Bool → Bytes → Buf → Res (Option α × Bool × Bytes × Buf)) :
    Nat → Bool → Bytes → Buf → Res (α × Bool × Bytes × Buf)
  | 0, _, _, _ => .exhausted
  | fuel + 1, slow, s, b =>
    step slow s b >>= fun (r, slow, s, b) =>
    match r with
    | some a => .ok (a, slow, s, b)
    | none => retry step fuel slow s b

/-- small path, one candidate: `norm, sign = normFloat64(); if v := norm*sigma; v <= bound
    { coeffInt = uint64(v+0.5); break }` -/
def smallStep (orc : Slow) (sigma bound : Nat) (fuel : Nat) (slow : Bool) (s : Bytes) (b : Buf) :
    Res (Option (Nat × Nat) × Bool × Bytes × Buf) :=
  -- `r = (norm, sign, slow, stream, buffer)`
  normF orc fuel slow s b >>= fun r =>
  .ok (if SF.mul r.1 sigma ≤ bound then some (SF.trunc (SF.add (SF.mul r.1 sigma) SF.half) % W, r.2.1)
       else none, r.2.2)

/-- small path, one coefficient `(coeffInt, sign)` -/
def gaussCoeff (orc : Slow) (sigma bound : Nat) (fuel : Nat) :
    Bool → Bytes → Buf → Res ((Nat × Nat) × Bool × Bytes × Buf) :=
  retry (smallStep orc sigma bound fuel) fuel

/-- `crypto/rand.Int(reader, max)` for `max > 0` (go1.23): rejection on `k` bytes, big endian,
    top byte masked; reads from the PRNG directly (NOT through the sampler's buffer) -/
def randIntLoop (max k bmask : Nat) : Nat → Bytes → Res (Nat × Bytes)
  | 0, _ => .exhausted
  | fuel + 1, s =>
    prngRead s k >>= fun (bytes, s) =>
    let n := match bytes with
      | [] => 0
      | x :: r => beNat (u64and x bmask :: r)
    if n < max then .ok (n, s) else randIntLoop max k bmask fuel s

def randInt (fuel : Nat) (max : Nat) (s : Bytes) : Res (Nat × Bytes) :=
  let bl := SF.bitLen (max - 1)
  if bl = 0 then .ok (0, s) else
    let b := if bl % 8 = 0 then 8 else bl % 8
    randIntLoop max ((bl + 7) / 8) (2 ^ b - 1) fuel s

/-- big-number path: the candidate signed integer built from one normal draw -/
def bigCand (fuel : Nat) (sigma : Nat) (norm sign : Nat) (s : Bytes) : Res (Int × Bytes) :=
  -- `normFlo.SetFloat64(norm*sigma + 0.5); normFlo.Int(normInt)`
  let normInt := SF.trunc (SF.add (SF.mul norm sigma) SF.half)
  -- `normIntLowBits.Rsh(normInt, 53)`
  let low := normInt / 9007199254740992
  -- `if normIntLowBits > 0 { normInt.Add(normInt, bignum.RandInt(g.prng, normIntLowBits)) }`
  (if low > 0 then randInt fuel low s >>= fun r => .ok (normInt + r.1, r.2)
    else .ok (normInt, s)) >>= fun r =>
  -- `normInt.Mul(normInt, 2*sign-1)`
  .ok ((r.1 : Int) * (2 * (sign : Int) - 1), r.2)

/-- big-number path, one candidate; accepted when `normInt.CmpAbs(boundInt) < 1` -/
def bigStep (orc : Slow) (sigma : Nat) (boundInt : Int) (fuel : Nat) (slow : Bool) (s : Bytes) (b : Buf) :
    Res (Option Int × Bool × Bytes × Buf) :=
  -- `r = (norm, sign, slow, stream, buffer)`, `c = (normInt, stream)`
  normF orc fuel slow s b >>= fun r =>
  bigCand fuel sigma r.1 r.2.1 r.2.2.2.1 >>= fun c =>
  .ok (if (c.1.natAbs : Int) ≤ boundInt then some c.1 else none, r.2.2.1, c.2, r.2.2.2.2)

/-- big-number path, one coefficient: the signed integer `normInt` -/
def gaussCoeffBig (orc : Slow) (sigma : Nat) (boundInt : Int) (fuel : Nat) :
    Bool → Bytes → Buf → Res (Int × Bool × Bytes × Buf) :=
  retry (bigStep orc sigma boundInt fuel) fuel

/-- `n` coefficients with `step` -/
def gaussVec {α : Type} (step : Bool → Bytes → Buf → Res (α × Bool × Bytes × Buf)) :
    Nat → Bool → Bytes → Buf → Res (List α × Bool × Bytes × Buf)
  | 0, slow, s, b => .ok ([], slow, s, b)
  | n + 1, slow, s, b => do
      let (c, slow, s, b) ← step slow s b
      let (t, slow, s, b) ← gaussVec step n slow s b
      pure (c :: t, slow, s, b)

/-- the RNS value written for `(coeffInt, sign)`:
    `c := coeffInt % qi; neg := (qi - c) * ((c | -c) >> 63); (c*sign) | neg*(sign^1)` -/
def gaussLimb (q : Nat) (cs : Nat × Nat) : Nat :=
  let c := cs.1 % q
  let neg := u64mul (u64sub q c) (u64shr (u64or c (u64neg c)) 63)
  u64or (u64mul c cs.2) (u64mul neg (u64xor cs.2 1))

/-- `coeff.Mod(normInt, Qi[j]).Uint64()` (Euclidean remainder) -/
def gaussLimbBig (q : Nat) (x : Int) : Nat := (x % (q : Int)).toNat

/-- `sigma > 0x20000000000000 && bound > 0xffffffffffffffff` (the second constant rounds to 2^64) -/
def isBigPath (sigma bound : Nat) : Bool :=
  decide (sigma > 2 ^ 53 * SF.one) && decide (bound > 2 ^ 64 * SF.one)

/-- the sampling half of `read` (`n` coefficients), small-norm path: `(coeffInt, sign)` pairs -/
def gaussSmall (orc : Slow) (fuel : Nat) (sigma bound : Nat) (n : Nat) (s : Bytes) (b : Buf) :
    Res (List (Nat × Nat) × Bool × Bytes × Buf) :=
  gaussVec (gaussCoeff orc sigma bound fuel) n false s b

/-- the sampling half of `read` (`n` coefficients), big-number path: signed integers -/
def gaussBig (orc : Slow) (fuel : Nat) (sigma bound : Nat) (n : Nat) (s : Bytes) (b : Buf) :
    Res (List Int × Bool × Bytes × Buf) :=
  gaussVec (gaussCoeffBig orc sigma (SF.trunc bound) fuel) n false s b

/-- `GaussianSampler.read(pol, f)` before the final `MForm`, at the moduli `qs` -/
def gaussReadPlain (orc : Slow) (fuel : Nat) (m : Mode) (sigma bound : Nat) (N : Nat)
    (qs : List Nat) (pol : Poly) (s : Bytes) (b : Buf) : Res (Poly × Bool × Bytes × Buf) :=
  -- `g.prng.Read(g.randomBufferN)`: refill, `ptr` untouched
  prngRead s bufLen >>= fun (d, s) =>
  let b : Buf := { data := d, ptr := b.ptr }
  if pol.length < qs.length then
    -- index out of range at the first write: after the first coefficient is drawn
    if isBigPath sigma bound then gaussBig orc fuel sigma bound (min N 1) s b >>= fun _ => .panic
    else gaussSmall orc fuel sigma bound (min N 1) s b >>= fun _ => .panic
  else if isBigPath sigma bound then
    gaussBig orc fuel sigma bound N s b >>= fun (xs, slow, s, b) =>
    mapRowsLvl (fun q row => List.zipWith (fun a x => m.f a (gaussLimbBig q x) q) row xs) qs pol
      >>= fun r => .ok (r, slow, s, b)
  else
    gaussSmall orc fuel sigma bound N s b >>= fun (cs, slow, s, b) =>
    mapRowsLvl (fun q row => List.zipWith (fun a c => m.f a (gaussLimb q c) q) row cs) qs pol
      >>= fun r => .ok (r, slow, s, b)

/-- `Ring.Add(pol, e, pol)` at the moduli `qs`: `CRed(a + b, q)` on the rows below the level; an
    index out of range when either polynomial has too few rows -/
def addPolyLvl : List Nat → Poly → Poly → Res Poly
  | [], rest, _ => .ok rest
  | _ :: _, [], _ => .panic
  | _ :: _, _ :: _, [] => .panic
  | q :: qs, a :: as, e :: es =>
      addPolyLvl qs as es >>= fun t => .ok (List.zipWith (fun x y => CRed (u64add x y) q) a e :: t)

/-- `Read` / `ReadAndAdd` of a Gaussian sampler at the moduli `qs` (= chain[: level+1]); `sigma`,
    `bound` scaled by 2^1074.  Returns the polynomial, the `slow` flag, the stream and the buffer.
    * `read` ends with `if g.montgomery { g.baseRing.MForm(pol, pol) }`;
    * `ReadAndAdd` of a Montgomery sampler is `e := NewPoly(); Read(e); Add(pol, e, pol)`. -/
def gaussRead (orc : Slow) (fuel : Nat) (m : Mode) (mont : Bool) (sigma bound : Nat) (N : Nat)
    (qs : List Nat) (pol : Poly) (s : Bytes) (b : Buf) : Res (Poly × Bool × Bytes × Buf) :=
  if mont then
    match m with
    | .read =>
      gaussReadPlain orc fuel .read sigma bound N qs pol s b >>= fun (r, slow, s, b) =>
      mformPoly qs r >>= fun r => .ok (r, slow, s, b)
    | .readAndAdd =>
      gaussReadPlain orc fuel .read sigma bound N qs (zeroPoly qs.length N) s b >>= fun (e, slow, s, b) =>
      mformPoly qs e >>= fun e =>
      addPolyLvl qs pol e >>= fun r => .ok (r, slow, s, b)
  else gaussReadPlain orc fuel m sigma bound N qs pol s b

end Lattigo.Sampler
