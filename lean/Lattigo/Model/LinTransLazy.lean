/-
  C12 — the lazy-accumulation SCHEDULE of the ciphertext layer of

    circuits/common/lintrans/lintrans_evaluator.go : MultiplyByDiagMatrix, MultiplyByDiagMatrixBSGS
    core/rlwe/params.go                            : QiOverflowMargin, PiOverflowMargin

  What is modelled: the counters `cnt0`, `cnt1`, `i`, the margins `QiOverF`, `PiOverF`, the tests
  `cnt % QiOverF == QiOverF-1` / `cnt % QiOverF != 0` / `len(keys) % QiOverF == 0` that decide where
  `ringQ.Reduce` / `ringP.Reduce` are called, where `ModDownQPtoQNTT` is called, and — for ONE uint64
  word of an accumulator — the values it takes (`accLoop`): lazy Montgomery products are added with
  wrap-around at 2^64 and reduced modulo `q` at the reduce points.
  What is NOT modelled: the polynomials themselves (gadget products, automorphisms, ModDown).
  Go `int` arithmetic: `%` is the truncated remainder (`Int.tmod`), `>> 1` the floor division by 2.
  Core Lean only.
-/
namespace Lattigo.Model.LinTrans.Lazy

/-! ## margins -/

/-- `Parameters.QiOverflowMargin(level)` / `PiOverflowMargin(level)` on the moduli `qs = q_0 … q_level`:
    `int(2^64 / max qs)`, `-1` without moduli.  (The Go code divides in float64; the tie line
    `margin` compares.) -/
def overflowMargin (qs : List Nat) : Int :=
  if qs.isEmpty then -1 else ((2 ^ 64 / qs.foldl max 0 : Nat) : Int)

/-- `QiOverF := params.QiOverflowMargin(levelQ) >> 1` (BSGS; the naive algorithm does not halve) -/
def halved (m : Int) : Int := m / 2

/-- `cnt % M == M - 1` -/
def reduceNow (M : Int) (cnt : Nat) : Bool := Int.tmod (cnt : Int) M == M - 1

/-- `cnt % M != 0` (after a loop of the BSGS algorithm) -/
def reduceAtEnd (M : Int) (cnt : Nat) : Bool := Int.tmod (cnt : Int) M != 0

/-- `len(keys) % M == 0` (after the loop of the naive algorithm) -/
def reduceAtEndNaive (M : Int) (len : Nat) : Bool := Int.tmod (len : Int) M == 0

/-! ## the schedule as a sequence of events -/

inductive Ev where
  /-- `tmp = pt[j+i] ⊙ ct[i]` (`MulCoeffsMontgomeryLazy`): first baby step of a giant step -/
  | mulAssign (j i : Int)
  /-- `tmp += pt[j+i] ⊙ ct[i]` (`MulCoeffsMontgomeryLazyThenAddLazy`) -/
  | mulAdd (j i : Int)
  | reduceInnerQ
  | reduceInnerP
  /-- `ModDownQPtoQNTT` of the inner sum (giant step `j ≠ 0`, before its key switch) -/
  | modDownInner (j : Int)
  /-- the giant step's contribution assigns (`cnt0 = 0`) / is added lazily to the output in QP -/
  | outerAssign (j : Int)
  | outerAdd (j : Int)
  | reduceOuterQ
  | reduceOuterP
  /-- the two final `ModDownQPtoQNTT` (of `c0`, `c1`) -/
  | modDownFinal
  deriving DecidableEq, Repr

def evIf (b : Bool) (e : Ev) : List Ev := if b then [e] else []

/-- INNER LOOP of `MultiplyByDiagMatrixBSGS` for the giant step `j`, from counter value `cnt` -/
def innerLoop (MQ MP : Int) (j : Int) : Nat → List Int → List Ev
  | _, [] => []
  | cnt, i :: is =>
    [if cnt = 0 then Ev.mulAssign j i else Ev.mulAdd j i]
      ++ evIf (reduceNow MQ cnt) .reduceInnerQ ++ evIf (reduceNow MP cnt) .reduceInnerP
      ++ innerLoop MQ MP j (cnt + 1) is

/-- one giant step: inner loop, the reductions after it, ModDown + rotation (`j ≠ 0`), accumulation
    into the output, the reductions of the output -/
def giantStep (MQ MP : Int) (cnt0 : Nat) (ji : Int × List Int) : List Ev :=
  innerLoop MQ MP ji.1 0 ji.2
    ++ evIf (reduceAtEnd MQ ji.2.length) .reduceInnerQ ++ evIf (reduceAtEnd MP ji.2.length) .reduceInnerP
    ++ evIf (ji.1 != 0) (.modDownInner ji.1)
    ++ [if cnt0 = 0 then Ev.outerAssign ji.1 else Ev.outerAdd ji.1]
    ++ evIf (reduceNow MQ cnt0) .reduceOuterQ ++ evIf (reduceNow MP cnt0) .reduceOuterP

def outerLoop (MQ MP : Int) : Nat → List (Int × List Int) → List Ev
  | _, [] => []
  | cnt0, ji :: rest => giantStep MQ MP cnt0 ji ++ outerLoop MQ MP (cnt0 + 1) rest

/-- `MultiplyByDiagMatrixBSGS`: the events for the index `index` (giant step ↦ baby steps, as
    `BSGSIndex` returns it, keys sorted), `MQ = QiOverflowMargin(levelQ) >> 1`,
    `MP = PiOverflowMargin(levelP) >> 1`.  The zero matrix returns before any of this. -/
def bsgsSchedule (MQ MP : Int) (index : List (Int × List Int)) : List Ev :=
  if index.isEmpty then []
  else outerLoop MQ MP 0 index
    ++ evIf (reduceAtEnd MQ index.length) .reduceOuterQ ++ evIf (reduceAtEnd MP index.length) .reduceOuterP
    ++ [.modDownFinal]

/-- `MultiplyByDiagMatrix` (naive): `nkeys` non-zero rotations, every product is accumulated with
    `MulCoeffsMontgomeryThenAdd` (NOT lazy: the accumulator stays below `q`); `MQ`, `MP` not halved.
    Events: `outerAssign/outerAdd k` per rotation and the reductions. -/
def naiveLoop (MQ MP : Int) : Nat → List Int → List Ev
  | _, [] => []
  | i, k :: ks =>
    [if i = 0 then Ev.outerAssign k else Ev.outerAdd k]
      ++ evIf (reduceNow MQ i) .reduceOuterQ ++ evIf (reduceNow MP i) .reduceOuterP
      ++ naiveLoop MQ MP (i + 1) ks

def naiveSchedule (MQ MP : Int) (keys : List Int) : List Ev :=
  if keys.isEmpty then []
  else naiveLoop MQ MP 0 keys
    ++ evIf (reduceAtEndNaive MQ keys.length) .reduceOuterQ ++ evIf (reduceAtEndNaive MP keys.length) .reduceOuterP
    ++ [.modDownFinal]

/-! ## one accumulator word -/

/-- one uint64 word of an accumulator (a coefficient of the limb with modulus `q`) through a lazily
    accumulating loop with margin `M`: `ps` are the summands (outputs of `MRedLazy`, resp. reduced
    words for the outer loop), the first one assigns.  Returns the sums AS INTEGERS before the
    wrap-around (`raws`: no wrap-around happened iff each is below 2^64) and the final word. -/
def accLoop (q : Nat) (M : Int) : Nat → Nat → List Nat → List Nat × Nat
  | _, acc, [] => ([], acc)
  | cnt, acc, p :: ps =>
    let raw := if cnt = 0 then p else acc + p
    let a := raw % 2 ^ 64
    let a := if reduceNow M cnt then a % q else a          -- ring.Reduce (BRedAdd): a mod q
    let r := accLoop q M (cnt + 1) a ps
    (raw :: r.1, r.2)

/-- the loop followed by `if cnt % M != 0 { Reduce }` -/
def accRun (q : Nat) (M : Int) (ps : List Nat) : List Nat × Nat :=
  let r := accLoop q M 0 0 ps
  (r.1, if reduceAtEnd M ps.length then r.2 % q else r.2)

end Lattigo.Model.LinTrans.Lazy
