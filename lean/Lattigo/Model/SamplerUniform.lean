/-
  C17 — `ring.UniformSampler` (/repo/ring/sampler_uniform.go) and `ringqp.UniformSampler`
  (/repo/ring/ringqp/samplers.go) as functions of the PRNG byte stream.

  State shared by a sampler and all its `AtLevel` views: the PRNG (`stream`, the bytes not yet
  handed out) and the `*randomBuffer` (`Buf`: 1024 bytes and the read pointer).  `AtLevel` copies
  the two pointers, so every view acts on the same `(stream, Buf)`; a view is just a level.
  Core Lean only.
-/
import Lattigo.Model.Sampler
namespace Lattigo.Sampler
open Lattigo Lattigo.Gen

/-- `randomBuffer`: `randomBufferN` (1024 bytes) and `ptr`. -/
structure Buf where
  data : Bytes
  ptr : Nat
  deriving Repr, BEq, DecidableEq

def bufLen : Nat := 1024

/-- `newRandomBuffer()` -/
def Buf.new : Buf := { data := List.replicate bufLen 0, ptr := 0 }

/-- `prng.Read(buffer); ptr = 0` -/
def refill (s : Bytes) : Res (Bytes × Buf) := do
  let (b, s') ← prngRead s bufLen
  pure (s', { data := b, ptr := 0 })

/-- The inner `for { … }` of `UniformSampler.read`: one coefficient in `[0, q)`.
    Returns the value, the stream and the buffer. -/
def drawU (q mask : Nat) : Nat → Bytes → Buf → Res (Nat × Bytes × Buf)
  | 0, _, _ => .exhausted
  | fuel + 1, s, b =>
    -- `if ptr == byteArrayLength { prng.Read(buffer); ptr = 0 }`
    (if b.ptr = bufLen then refill s else .ok (s, b)) >>= fun (s, b) =>
    -- `randomUint = binary.BigEndian.Uint64(buffer[ptr:ptr+8]) & mask; ptr += 8`
    let w := u64and (beNat ((b.data.drop b.ptr).take 8)) mask
    let b := { b with ptr := b.ptr + 8 }
    if w < q then .ok (w, s, b) else drawU q mask fuel s b

/-- `for i := 0; i < N; i++ { …; coeffs[i] = f(coeffs[i], randomUint, qi) }` over one row. -/
def drawRowU (fuel : Nat) (m : Mode) (q mask : Nat) : List Nat → Bytes → Buf → Res (List Nat × Bytes × Buf)
  | [], s, b => .ok ([], s, b)
  | a :: row, s, b => do
      let (w, s, b) ← drawU q mask fuel s b
      let (t, s, b) ← drawRowU fuel m q mask row s b
      pure (m.f a w q :: t, s, b)

/-- `for j := 0; j < level+1; j++ { … }`; `qs` are the moduli `0 … level`. -/
def drawRowsU (fuel : Nat) (m : Mode) : List Nat → Poly → Bytes → Buf → Res (Poly × Bytes × Buf)
  | [], rest, s, b => .ok (rest, s, b)
  | _ :: _, [], _, _ => .panic
  | q :: qs, row :: rest, s, b => do
      let (r, s, b) ← drawRowU fuel m q (maskOf q) row s b
      let (t, s, b) ← drawRowsU fuel m qs rest s b
      pure (r :: t, s, b)

/-- `UniformSampler.read(pol, f)` on the view whose moduli are `qs` (= chain[: level+1]). -/
def uniformRead (fuel : Nat) (m : Mode) (qs : List Nat) (pol : Poly) (s : Bytes) (b : Buf) :
    Res (Poly × Bytes × Buf) :=
  -- `if ptr = u.ptr; ptr == 0 || ptr == byteArrayLength { prng.Read(u.randomBufferN); ptr = 0 }`
  (if b.ptr = 0 ∨ b.ptr = bufLen then refill s else .ok (s, b)) >>= fun (s, b) =>
  drawRowsU fuel m qs pol s b

/-- `ReadNew`: `pol = baseRing.NewPoly(); Read(pol)` -/
def uniformReadNew (fuel : Nat) (qs : List Nat) (N : Nat) (s : Bytes) (b : Buf) :
    Res (Poly × Bytes × Buf) :=
  uniformRead fuel .read qs (zeroPoly qs.length N) s b

/-! ### ringqp.UniformSampler: two `ring.UniformSampler`s (own buffers) over ONE prng -/

structure QPBufs where
  bQ : Buf
  bP : Buf
  deriving Repr, BEq, DecidableEq

/-- `ringqp.UniformSampler.Read(p)`: `samplerQ.Read(p.Q)` then `samplerP.Read(p.P)`; a `none`
    modulus list stands for a nil sampler (level −1 in `AtLevel`). -/
def qpRead (fuel : Nat) (qsQ qsP : Option (List Nat)) (pQ pP : Poly) (s : Bytes) (bs : QPBufs) :
    Res (Poly × Poly × Bytes × QPBufs) := do
  let (rQ, s, bQ) ← match qsQ with
    | some qs => uniformRead fuel .read qs pQ s bs.bQ
    | none => .ok (pQ, s, bs.bQ)
  let (rP, s, bP) ← match qsP with
    | some qs => uniformRead fuel .read qs pP s bs.bP
    | none => .ok (pP, s, bs.bP)
  pure (rQ, rP, s, { bQ := bQ, bP := bP })

/-! ### The unbuffered specification: words are taken one after the other from a word list -/

/-- one coefficient from a list of 64-bit words: skip the rejected ones -/
def specDraw (q mask : Nat) : List Nat → Option (Nat × List Nat)
  | [] => none
  | w :: ws => if u64and w mask < q then some (u64and w mask, ws) else specDraw q mask ws

def specRow (m : Mode) (q mask : Nat) : List Nat → List Nat → Option (List Nat × List Nat)
  | [], ws => some ([], ws)
  | a :: row, ws =>
    match specDraw q mask ws with
    | none => none
    | some (w, ws) =>
      match specRow m q mask row ws with
      | none => none
      | some (t, ws) => some (m.f a w q :: t, ws)

def specRows (m : Mode) : List Nat → Poly → List Nat → Option (Poly × List Nat)
  | [], rest, ws => some (rest, ws)
  | _ :: _, [], _ => none
  | q :: qs, row :: rest, ws =>
    match specRow m q (maskOf q) row ws with
    | none => none
    | some (r, ws) =>
      match specRows m qs rest ws with
      | none => none
      | some (t, ws) => some (r :: t, ws)

/-- the big-endian 64-bit words of a byte string (a trailing partial word is dropped) -/
def wordsBE : Bytes → List Nat
  | a0 :: a1 :: a2 :: a3 :: a4 :: a5 :: a6 :: a7 :: rest =>
      beNat [a0, a1, a2, a3, a4, a5, a6, a7] :: wordsBE rest
  | _ => []

/-- the bytes the sampler family has not consumed yet, seen from inside a call: the rest of the
    buffer, then the stream -/
def pendingIn (s : Bytes) (b : Buf) : Bytes := b.data.drop b.ptr ++ s

/-- the same at a call boundary, where `ptr == 0` (never filled) and `ptr == 1024` (used up) both
    mean "refill first" -/
def pendingAtCall (s : Bytes) (b : Buf) : Bytes :=
  if b.ptr = 0 ∨ b.ptr = bufLen then s else b.data.drop b.ptr ++ s

end Lattigo.Sampler
