/-
  C04 — gadget ciphertexts / evaluation keys (model of core/rlwe/keygenerator.go,
  gadgetciphertext.go, params.go, keys.go).  Core Lean only.

  Two layers:

  * a GENERIC layer over an arbitrary carrier `α` with `[Add α] [Mul α] [Neg α] [Sub α]`
    (the scheme-level algebra: encryption of zero, gadget rows, key generation, compression and
    expansion).  All theorems of `Proofs/Gadget*.lean`, `Proofs/KeySwitch*.lean` and
    `Props/C04.lean` are about these definitions, for every commutative ring `α`.

  * the EXECUTABLE instance on `Lattigo.RPoly` (canonical RNS polynomials modulo QP): the
    concrete gadget vector exactly as `AddPolyTimesGadgetVectorToGadgetCiphertext` lays it out
    on the RNS rows, and the digit counts exactly as `params.go` computes them.

  Sampled values (`a_{ij}`, `e_{ij}`, the secrets) are INPUTS of the model; the order in which
  the key generator draws them (i outer, j inner; per row first `a` from the uniform sampler,
  then `e` from the error sampler) is the row-major order of the `samples` matrix.
-/
import Lattigo.Model.RPoly

namespace Lattigo.KS

/-! ## Digit counts (core/rlwe/params.go) -/

/-- `int(math.Round(math.Log2(float64(q))))` as an exact integer criterion:
    `round(log2 q) = k+1` iff `q ≥ 2^(k+1/2)` iff `q² ≥ 2^(2k+1)` where `k = ⌊log2 q⌋`
    (`2^(k+1/2)` is irrational, so there is no tie for an integer `q`).
    [IEEE hypothesis, monitored by the tie `dims`: `math.Log2` is accurate to far better than the
    distance of an at most 61-bit integer to `2^(k+1/2)` on every explored input.] -/
def roundLog2 (q : Nat) : Nat :=
  let k := Nat.log2 q
  if q * q ≥ 2 ^ (2 * k + 1) then k + 1 else k

/-- `Parameters.LogQi` (no longer used by the digit counts since fix C04-1) -/
def logQi (qs : List Nat) : List Nat := qs.map roundLog2

/-- `Parameters.BaseRNSDecompositionVectorSize(levelQ, levelP)`; `nP = levelP + 1`
    (`nP = 0` is the code's `levelP == -1`). -/
def baseRNSDecompositionVectorSize (levelQ nP : Nat) : Nat :=
  if nP = 0 then levelQ + 1 else (levelQ + nP) / nP

/-- `bits.Len64(q)`: the bit length of `q` (`0` for `q = 0`) -/
def bitLen (q : Nat) : Nat := if q = 0 then 0 else Nat.log2 q + 1

/-- one entry of `Parameters.BaseTwoDecompositionVectorSize`: the number of base-`2^w` digits the
    code allots to the prime `q`: `⌈bitlen(q)/w⌉` (fix C04-1; before the fix it was
    `⌈round(log2 q)/w⌉`, see `baseTwoDigitsRoundLog2`). -/
def baseTwoDigits (q w : Nat) : Nat := (bitLen q + w - 1) / w

/-- the PRE-FIX digit count `⌈round(log2 q)/w⌉` (kept only for the regression theorems: it drops the
    top bit of the residues for primes in `(2^k, 2^{k+1/2})` when `w ∣ k`) -/
def baseTwoDigitsRoundLog2 (q w : Nat) : Nat := (roundLog2 q + w - 1) / w

/-- `Parameters.BaseTwoDecompositionVectorSize(levelQ, levelP, w)`: one entry per prime of the FULL
    chain `qs` (the code ignores `levelQ`); all ones if `w = 0` or `levelP > 0`. -/
def baseTwoDecompositionVectorSize (qs : List Nat) (nP w : Nat) : List Nat :=
  if w = 0 ∨ nP ≥ 2 then qs.map fun _ => 1 else qs.map fun q => baseTwoDigits q w

/-- shape of a gadget ciphertext as allocated by `NewGadgetCiphertext`: `nI` rows, row `i` has
    `BaseTwoDecompositionVectorSize[i]` entries (index `i` of the per-prime list, as coded). -/
def gadgetShape (qs : List Nat) (levelQ nP w : Nat) : List Nat :=
  let b := baseTwoDecompositionVectorSize qs nP w
  (List.range (baseRNSDecompositionVectorSize levelQ nP)).map fun i => b.getD i 0

/-! ## Generic layer -/

section generic
variable {α : Type} [Add α] [Mul α] [Neg α] [Sub α]

/-- phase (decryption before decoding) of a degree-1 ciphertext -/
def phase (ct : α × α) (s : α) : α := ct.1 + ct.2 * s

/-- `encryptZeroSkFromC1QP`: `c1 = a` (uniform), `c0 = e − a·s` (`MulCoeffsMontgomeryThenSub`) -/
def encZero (a e s : α) : α × α := (e - a * s, a)

/-- one entry of an evaluation key: an encryption of zero under `sOut`, plus `pgs` (= `P·g_{ij}·sIn`)
    added to the first component (`AddPolyTimesGadgetVectorToGadgetCiphertext`) -/
def evkRow (a e sOut pgs : α) : α × α := ((encZero a e sOut).1 + pgs, a)

/-- row `i` of the key: entries `j = j0, j0+1, …` -/
def genRowFrom (pg : Nat → Nat → α) (sIn sOut : α) (i : Nat) : Nat → List (α × α) → List (α × α)
  | _, [] => []
  | j, (a, e) :: rest => evkRow a e sOut (pg i j * sIn) :: genRowFrom pg sIn sOut i (j + 1) rest

/-- rows `i = i0, i0+1, …` -/
def genFrom (pg : Nat → Nat → α) (sIn sOut : α) : Nat → List (List (α × α)) → List (List (α × α))
  | _, [] => []
  | i, row :: rest => genRowFrom pg sIn sOut i 0 row :: genFrom pg sIn sOut (i + 1) rest

/-- `KeyGenerator.genEvaluationKey(skIn, skOut, evk)`; `samples[i][j] = (a_{ij}, e_{ij})` in the order
    the generator draws them; `pg i j = P·g_{ij}` the (scaled) gadget vector. -/
def genEvaluationKey (pg : Nat → Nat → α) (sIn sOut : α) (samples : List (List (α × α))) :
    List (List (α × α)) := genFrom pg sIn sOut 0 samples

/-- `GenRelinearizationKey`: input key `s²`, output key `s` -/
def genRelinearizationKey (pg : Nat → Nat → α) (s : α) (samples : List (List (α × α))) :=
  genEvaluationKey pg (s * s) s samples

/-- `GenGaloisKey(galEl)`: input key `s`, output key `σ_{galEl⁻¹}(s)`; `σinv` is the automorphism for
    `galEl⁻¹ mod 2N`. -/
def genGaloisKey (σinv : α → α) (pg : Nat → Nat → α) (s : α) (samples : List (List (α × α))) :=
  genEvaluationKey pg s (σinv s) samples

/-- a compressed key keeps only the first components (and the seed of the `a` stream) -/
def compress (evk : List (List (α × α))) : List (List α) := evk.map fun r => r.map Prod.fst

/-- `EvaluationKey.Expand`: pair the stored first components with the `a` stream regenerated from the
    seed, drawn in the same order (i outer, j inner) -/
def expand (c0 : List (List α)) (as : List (List α)) : List (List (α × α)) :=
  List.zipWith (fun r ar => List.zip r ar) c0 as

end generic

/-! ## Executable instance: the gadget vector on RNS rows -/

/-- the constant polynomial whose row `k` is `vals[k] mod q_k` -/
def constPoly (qs : List Nat) (n : Nat) (vals : List Nat) : RPoly :=
  { qs := qs,
    c := (qs.zip vals).map fun (q, v) => (v % q) :: List.replicate (n - 1) 0 }

/-- the Q-row indices touched for RNS digit `i` by `AddPolyTimesGadgetVectorToGadgetCiphertext`:
    `index = i·(levelP+1) + k`, `k = 0 … levelP` (`levelP := 0` when there is no `P`), stopping at the
    first `index ≥ levelQ + 1` (`break`). -/
def gadgetRowIdx (levelQ nP i : Nat) : List Nat :=
  let m := if nP = 0 then 1 else nP
  ((List.range m).map fun k => i * m + k).takeWhile fun idx => idx < levelQ + 1

/-- `P·g_{ij}` as an element of `R_{QP}`: on the Q rows of digit group `i` the scalar
    `P·2^{w·j} mod q_k` (`buff = P·pt`, then `·2^w` once per `j`), `0` on every other row, P rows
    included (nothing is added there).  Without `P` (`nP = 0`) the factor `P` is `1`. -/
def pgElt (qsQ qsP : List Nat) (n w i j : Nat) : RPoly :=
  let levelQ := qsQ.length - 1
  let idx := gadgetRowIdx levelQ qsP.length i
  let P := RPoly.prod qsP
  let valsQ := (List.range qsQ.length).map fun k =>
    if idx.contains k then P * 2 ^ (w * j) else 0
  constPoly (qsQ ++ qsP) n (valsQ ++ qsP.map fun _ => 0)

/-- reshape a flat, row-major list according to `shape` (missing entries are dropped) -/
def reshape {β : Type} : List Nat → List β → List (List β)
  | [], _ => []
  | k :: ks, l => l.take k :: reshape ks (l.drop k)

/-- inverse Galois element as `Parameters.ModInvGaloisElement`: `galEl^(2N−1) mod 2N` -/
def powMod (b e m : Nat) : Nat :=
  (List.range e).foldl (fun acc _ => acc * b % m) (1 % m)

def modInvGaloisElement (n galEl : Nat) : Nat := powMod galEl (2 * n - 1) (2 * n)

/-- concrete key generation over `R_{QP}` (`qsQ`, `qsP` = the moduli of the KEY's levels; `qsAll` =
    the full Q chain of the parameters, which is what the digit counts look at) -/
def genEvaluationKeyR (qsAll qsQ qsP : List Nat) (n w : Nat) (sIn sOut : RPoly)
    (flat : List (RPoly × RPoly)) : List (List (RPoly × RPoly)) :=
  let shape := gadgetShape qsAll (qsQ.length - 1) qsP.length w
  genEvaluationKey (pgElt qsQ qsP n w) sIn sOut (reshape shape flat)

/-! ## The metadata record of a key and its derived forms -/

/-- what identifies the FORMAT of an evaluation key besides its rows: `BaseTwoDecomposition`, levels
    (`lp = -1`: no `P`), degree (0 = compressed), digit counts, and for Galois keys the Galois element and
    `NthRoot`; the seed of a compressed key. -/
structure KeyMeta where
  w : Nat
  lq : Nat
  lp : Int
  deg : Nat
  nI : Nat
  nJ : List Nat
  galEl : Nat
  nthRoot : Nat
  seed : List Nat
  deriving Repr, BEq, DecidableEq

/-- `CopyNew`, serialisation round trips, fetching a key back from a `MemEvaluationKeySet`, `ShallowCopy`:
    every derived form of a key is THE SAME key — identity on the record (and on the rows). -/
def KeyMeta.derived (m : KeyMeta) : KeyMeta := m

/-- the record is consistent with the shape the parameters prescribe for `(lq, lp, w)` -/
def KeyMeta.wellFormed (qsAll : List Nat) (m : KeyMeta) : Bool :=
  let nP := if m.lp < 0 then 0 else m.lp.toNat + 1
  m.nJ == gadgetShape qsAll m.lq nP m.w && m.nI == m.nJ.length

end Lattigo.KS
