/-
  Word-level semantics of Go's `uint64` on `Nat`.

  Every Go `uint64` value is a `Nat < W`.  Every Go operator is modelled by the
  function below that wraps explicitly.  This file is the *semantics* the
  translator `tools/go2lean` prints into (it is part of the trusted base, §1.3 of
  DESIGN.md): the translator only prints applications of these functions.
  Core-only (no Mathlib), executable.
-/
namespace Lattigo

/-- 2^64 as a literal, so that `omega` sees it. -/
@[reducible] def W : Nat := 18446744073709551616

theorem W_eq : W = 2 ^ 64 := by decide

/-- Go `a + b` on uint64. -/
def u64add (a b : Nat) : Nat := (a + b) % W
/-- Go `a - b` on uint64 (operands assumed `< W`). -/
def u64sub (a b : Nat) : Nat := (a + W - b % W) % W
/-- Go `a * b` on uint64. -/
def u64mul (a b : Nat) : Nat := (a * b) % W
/-- Go unary `-a` on uint64. -/
def u64neg (a : Nat) : Nat := (W - a % W) % W
/-- Go `a << k` on uint64 (`k` an `int`/`uint`; Go yields 0 for `k ≥ 64`). -/
def u64shl (a k : Nat) : Nat := (a * 2 ^ k) % W
/-- Go `a >> k` on uint64. -/
def u64shr (a k : Nat) : Nat := a / 2 ^ k
/-- Go `a & b`. -/
def u64and (a b : Nat) : Nat := a &&& b
/-- Go `a | b`. -/
def u64or (a b : Nat) : Nat := a ||| b
/-- Go `a ^ b`. -/
def u64xor (a b : Nat) : Nat := a ^^^ b

/-- `bits.Mul64(x, y) = (hi, lo)`. -/
def mul64 (x y : Nat) : Nat × Nat := ((x * y) / W % W, (x * y) % W)
/-- `bits.Add64(x, y, carry) = (sum, carryOut)`. -/
def add64 (x y c : Nat) : Nat × Nat := ((x + y + c) % W, (x + y + c) / W)
/-- `bits.Len64(x)`: minimum number of bits to represent `x` (0 for 0). -/
def len64 (x : Nat) : Nat := if x = 0 then 0 else Nat.log2 x + 1

/-- `bits.Reverse64(x)`: bit `k` of `x` (`k < 64`) moves to position `63 − k` (bits `≥ 64` of the
    `Nat` are ignored, as the conversion `uint64(x)` does). -/
def reverse64 (x : Nat) : Nat :=
  (List.range 64).foldl (fun acc k => acc * 2 + (x / 2 ^ k) % 2) 0
/-- `utils.BitReverse64(x, bitLen) = bits.Reverse64(uint64(x)) >> (64 - bitLen)` (utils/utils.go).
    `bitLen` is a Go `int`; the shift count `64 - bitLen` is printed as the word subtraction, so a
    `bitLen` of `-1` (two's complement `W − 1`) gives the count 65 and the result 0, as in Go.  A
    `bitLen > 64` is a negative shift count in Go (run-time panic) and is outside the model. -/
def bitRev64 (x bitLen : Nat) : Nat := u64shr (reverse64 x) (u64sub 64 bitLen)

/-- A constant-bound `for i := 0; i < n; i++ { s = f s }`. -/
def loopN {σ : Type} : Nat → (σ → σ) → σ → σ
  | 0, _, s => s
  | n + 1, f, s => loopN n f (f s)

/-- The 8 unrolled lanes of a window kernel: lane `k` writes index `k`. -/
def lanes8 (f : Nat → Nat) : List (Nat × Nat) :=
  [(0, f 0), (1, f 1), (2, f 2), (3, f 3), (4, f 4), (5, f 5), (6, f 6), (7, f 7)]

/-- Go `bool` → used in `if`. Comparisons are on `Nat` directly. -/
abbrev u64ge (a b : Nat) : Bool := decide (b ≤ a)
abbrev u64gt (a b : Nat) : Bool := decide (b < a)
abbrev u64le (a b : Nat) : Bool := decide (a ≤ b)
abbrev u64lt (a b : Nat) : Bool := decide (a < b)
abbrev u64eq (a b : Nat) : Bool := decide (a = b)
abbrev u64ne (a b : Nat) : Bool := decide (a ≠ b)

/-! ### typed mode of the printer (tools/go2lean/typed.go): general loops, `%`, Go `int`

  A Go `int` (64 bit) is represented by its two's-complement WORD, a `Nat < W`: the conversions
  `uint64(k)` and `int(u)` are the identity on words, and `+ - * & | ^ << == !=` and unary `-` are the
  same word operations as for `uint64` (`u64add` …).  Only the operations below depend on the sign. -/

/-- `for cond { body }` on the loop-carried state `s`, cut off after `fuel` iterations:
    the condition is tested before every iteration; when the fuel is exhausted the current state is
    returned WITHOUT testing the condition again.  The printer uses it only (a) with a fuel for which
    the condition is false by then (`fuel = 64` for a loop that shifts a 64-bit word right by `K ≥ 1`
    in every iteration and runs while the word is `> 0` / `!= 0`), or (b) with `fuel` an explicit
    parameter, for a `for { … return … }` loop whose state carries `ret_ : Option result` and whose
    condition is `ret_.isNone`; then `ret_ = none` at the end means "no return within `fuel`
    iterations". -/
def loopWhile {σ : Type} : Nat → (σ → Bool) → (σ → σ) → σ → σ
  | 0, _, _, s => s
  | n + 1, c, f, s => if c s then loopWhile n c f (f s) else s

/-- Go `a % b` on uint64 (`b = 0` is a run-time panic in Go: outside the model). -/
def u64mod (a b : Nat) : Nat := a % b

/-- the value of the Go `int` whose two's-complement word is `a` (`a < W`). -/
def i64toInt (a : Nat) : Int := if a < 9223372036854775808 then (a : Int) else (a : Int) - 18446744073709551616

/-- Go `a >> k` on `int`: arithmetic shift (`x >> k = ~(~x >> k)` for negative `x`);
    `k ≥ 64` gives `0` / `-1` as in Go.  A negative count is a run-time panic in Go: outside the model. -/
def i64shr (a k : Nat) : Nat :=
  if a < 9223372036854775808 then a / 2 ^ k else W - 1 - (W - 1 - a) / 2 ^ k

/-- Go comparisons on `int`. -/
abbrev i64lt (a b : Nat) : Bool := decide (i64toInt a < i64toInt b)
abbrev i64le (a b : Nat) : Bool := decide (i64toInt a ≤ i64toInt b)
abbrev i64gt (a b : Nat) : Bool := decide (i64toInt b < i64toInt a)
abbrev i64ge (a b : Nat) : Bool := decide (i64toInt b ≤ i64toInt a)

/-! ### typed mode v3: Go `int` division, slices of words, the float64 margin quotient -/

/-- the two's-complement word of an integer (reduction modulo `2^64`). -/
def i64ofInt (z : Int) : Nat := (z % 18446744073709551616).toNat

/-- Go `a / b` on `int`: truncated (toward zero) division, exact for ALL operands (`MinInt64 / -1`
    wraps to `MinInt64` as in Go); `b = 0` is a run-time panic in Go: outside the model. -/
def i64div (a b : Nat) : Nat := i64ofInt (Int.tdiv (i64toInt a) (i64toInt b))
/-- Go `a % b` on `int`: the remainder of the truncated division (sign of the dividend). -/
def i64mod (a b : Nat) : Nat := i64ofInt (Int.tmod (i64toInt a) (i64toInt b))
/-- Go `a / b` on uint64 (`b = 0` panics in Go: outside the model). -/
def u64div (a b : Nat) : Nat := a / b

/-- Go `len(xs)` as an `int` (a length is far below `2^63`). -/
def sliceLen (xs : List Nat) : Nat := xs.length
/-- Go `xs[:k]` (`k` the word of a non-negative `int`).  `k > cap(xs)` panics in Go, and
    `len(xs) < k ≤ cap(xs)` re-slices into the capacity: both outside the model, which needs `k ≤ len(xs)`. -/
def sliceTake (xs : List Nat) (k : Nat) : List Nat := xs.take k
/-- Go `xs[i]` (`i ≥ len(xs)` or negative panics in Go: outside the model). -/
def sliceAt (xs : List Nat) (i : Nat) : Nat := xs.getD i 0
/-- Go `make([]T, n)`: `n` zero words. -/
def sliceMake (n : Nat) : List Nat := List.replicate n 0
/-- Go `slices.Max(xs)` on `[]uint64` (the empty slice panics in Go: outside the model). -/
def slicesMax (xs : List Nat) : Nat := xs.foldl max 0

/-- Go `float64(n)` for a `uint64` `n`, as the (integer) VALUE of the resulting float: IEEE-754
    binary64, round to nearest, ties to even (53-bit significand; exact below `2^53`). -/
def f64ofU64 (n : Nat) : Nat :=
  if n < 9007199254740992 then n
  else
    let s := Nat.log2 n - 52
    let m := n / 2 ^ s
    let r := n % 2 ^ s
    let m' := if 2 ^ s < 2 * r ∨ (2 * r = 2 ^ s ∧ m % 2 = 1) then m + 1 else m
    m' * 2 ^ s

/-- Go `int(x / y)` for float64 `x`, `y` whose values are the positive integers `a ≥ b`:
    the IEEE-754 binary64 quotient (a normal number in `[1, 2^64]`, rounded to nearest, ties to even,
    53-bit significand: `m'·2^(e-52)` with `e = ⌊log2 (a/b)⌋`) followed by Go's truncating
    float→int conversion.  A result `≥ 2^63` is implementation-defined in Go: outside the model. -/
def f64quoToInt (a b : Nat) : Nat :=
  let e := Nat.log2 (a / b)
  let d := b * 2 ^ e
  let m := a * 4503599627370496 / d
  let r := a * 4503599627370496 % d
  let m' := if d < 2 * r ∨ (2 * r = d ∧ m % 2 = 1) then m + 1 else m
  m' * 2 ^ e / 4503599627370496

end Lattigo
