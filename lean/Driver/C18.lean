import Driver.Util
import Lattigo.Model.Bootstrap
import Lattigo.Model.BootstrapDefaults

/-!
  C18 line protocol (all arguments `key=value`):

  * `helper_rot enc= logN= logSlots= levels= repack= bitrev= bsgs=`
        → sorted Galois elements of `dft.MatrixLiteral.GaloisElements`
  * `lt_index enc= logN= logSlots= levels= repack= bitrev= bsgs=`
        → per matrix of `dft.NewMatrixFromLiteral`: `N1:sorted keys of Vec`, joined by `;`
  * `generated logN= logSlots= c2s= s2c= bsgs=`  → sorted Galois elements of the returned key set
  * `required  logN= logSlots= c2s= s2c= bsgs=`  → sorted Galois elements requested by one `Bootstrap`
  * `inventory q= p= eph= diff= ci= logN= logSlots= c2s= s2c= bsgs=`
        → `name/prot/levelQ/levelP;…` (prot: letters r,d,s) or `panic`
  * `layout res= s2c= c2s= cosd= sinc= deg= k= da= inv= rsv= logp=`
        → `qCount,pCount,s2cLevelQ,mod1LevelQ,c2sLevelQ,mod1Depth,checks`
  * `needed res= s2c= c2s= m1= rsv= logp=` → `name/minLevelQ/levelP;…` per key kind (`*` = any LevelP)
  * `scaleconst q0= evalmod= ratio= logscale= k= ci=` → `round(log2 Q0),-log2 qDiv,log2 ScalingFactor,log2 StCScaling,C2SScaling num/den`
  * `scaledown qs= logscale= ratio= level=` → `level,scaleUpBigint,product of rescaled primes` or `err` (`Evaluator.ScaleDown`)
  * `dft_layers enc= logSlots= [logN= repack= bitrev=]` → the fully split factorisation: per matrix `diag:codes;…` (codes: exponent of ζ, 4n = zero), matrices joined by `/`
  * `literal_default mod1type= field=`, `literal_default_const name=`, `literal_default_doc field=` → documented defaults of the
    optional literal fields
  * `default_list list=`, `default_literal list= idx=`, `default_source list= idx=`, `default_announced list= idx=` →
    the table of shipped default parameter sets (`Lattigo/Model/BootstrapDefaults.lean`)
  * `mod1_gain da= inv= logs=` → log2 of the gain of `EvaluateAndScaleNew(ct, 2^logs)` over `EvaluateNew(ct)`
  * `stages res= s2c= c2s= m1= rsv=` → levels after ModUp, CoeffsToSlots, EvalMod, SlotsToCoeffs
  * `output res= s2c= c2s= m1= rsv= iter= logscale=` → `level,scale`
  * `probe …` → `holds`
-/
namespace Driver.C18
open Driver
open Lattigo.Model.Bootstrap

def natArg (toks : List String) (k : String) : Option Nat := (kv? toks k).bind parseNat?
def vecArg (toks : List String) (k : String) : Option (List Nat) := (kv? toks k).bind parseVec?
def boolArg (toks : List String) (k : String) : Option Bool := (natArg toks k).map (· != 0)

def matLit? (toks : List String) : Option (MatLit × Nat) := do
  let enc ← boolArg toks "enc"
  let logN ← natArg toks "logN"
  let logSlots ← natArg toks "logSlots"
  let levels ← vecArg toks "levels"
  let repack ← boolArg toks "repack"
  let bitrev ← boolArg toks "bitrev"
  let bsgs ← natArg toks "bsgs"
  pure ({ encode := enc, logSlots := logSlots, levels := levels, repack := repack,
          bitReversed := bitrev, logBSGS := bsgs }, logN)

def galLit? (toks : List String) : Option GalLit := do
  let logN ← natArg toks "logN"
  let logSlots ← natArg toks "logSlots"
  let c2s ← vecArg toks "c2s"
  let s2c ← vecArg toks "s2c"
  let bsgs ← natArg toks "bsgs"
  pure { logN := logN, logSlots := logSlots, c2sLevels := c2s, s2cLevels := s2c, logBSGS := bsgs }

def schedLit? (toks : List String) (m1 : Nat) : Option SchedLit := do
  let res ← natArg toks "res"
  let s2c ← natArg toks "s2c"
  let c2s ← natArg toks "c2s"
  let rsv ← boolArg toks "rsv"
  let logp := match kv? toks "logp" with
    | some "def" => none
    | some s => parseNat? s
    | none => none
  pure { residualQ := res, s2cGroups := s2c, c2sGroups := c2s, mod1Depth := m1, reserved := rsv, logPLen := logp }

def protStr (p : List SecretKind) : String :=
  String.join (p.map fun
    | .residual => "r"
    | .dense => "d"
    | .sparse => "s")

def keyStr (k : KeyRec) : String :=
  k.name ++ "/" ++ protStr k.protectedBy ++ "/" ++ toString k.levelQ ++ "/" ++ toString k.levelP

def b2s (b : Bool) : String := if b then "1" else "0"

def handle (toks : List String) : String :=
  match toks with
  | "probe" :: _ => "holds"
  | "helper_rot" :: rest =>
    match matLit? rest with
    | some (d, logN) => showVec (sortL (dedupL ((helperRotations d logN).map (galEl logN))))
    | none => badOp
  | "lt_index" :: rest =>
    match matLit? rest with
    | some (d, logN) =>
      let cols := 2 ^ d.logdSlots logN
      let ms := (genMatricesIndex d logN).map fun diags =>
        let n1 := findBestBSGSRatio diags cols d.logBSGS
        toString n1 ++ ":" ++ showVec (sortL (ltVecKeys diags cols n1))
      if ms.isEmpty then "-" else ";".intercalate ms
    | none => badOp
  | "generated" :: rest =>
    match galLit? rest with
    | some g => showVec (sortL (generatedGalois g))
    | none => badOp
  | "required" :: rest =>
    match galLit? rest with
    | some g => showVec (sortL (requiredGalois g))
    | none => badOp
  | "inventory" :: rest =>
    match galLit? rest, natArg rest "q", natArg rest "p", boolArg rest "eph", boolArg rest "diff", boolArg rest "ci" with
    | some g, some q, some p, some eph, some diff, some ci =>
      match genEvaluationKeys { qCount := q, pCount := p, ephemeral := eph, ringDiffers := diff, conjInv := ci }
              (generatedGalois g) with
      | some ks => ";".intercalate (ks.map keyStr)
      | none => "panic"
    | _, _, _, _, _, _ => badOp
  | "layout" :: rest =>
    match boolArg rest "cosd", boolArg rest "sinc", natArg rest "deg", natArg rest "k", natArg rest "da", natArg rest "inv" with
    | some cosd, some sinc, some deg, some k, some da, some inv =>
      let m1 := mod1Depth cosd sinc deg k da inv
      match schedLit? rest m1 with
      | some s => showVec [s.qCount, s.pCount, s.s2cLevelQ, s.mod1LevelQ, s.c2sLevelQ, m1, if s.newEvaluatorChecks then 1 else 0]
      | none => badOp
    | _, _, _, _, _, _ => badOp
  | "needed" :: rest =>
    match natArg rest "m1" with
    | some m1 =>
      match schedLit? rest m1 with
      | some s =>
        let names := ["EvkN1ToN2", "EvkN2ToN1", "EvkRealToCmplx", "EvkCmplxToReal", "EvkDenseToSparse",
                      "EvkSparseToDense", "rlk", "gk"]
        ";".intercalate (names.map fun n =>
          n ++ "/" ++ toString (neededLevelQ s n) ++ "/" ++
            (match neededLevelP s n with | some lp => toString lp | none => "*"))
      | none => badOp
    | none => badOp
  | "scaleconst" :: rest =>
    match natArg rest "q0", natArg rest "evalmod", natArg rest "ratio", natArg rest "logscale", natArg rest "k", boolArg rest "ci" with
    | some q0, some em, some r, some ls, some k, some ci =>
      let l : ScaleLit := { q0 := q0, evalModLogScale := em, logMessageRatio := r, logDefaultScale := ls, k := k, conjInv := ci }
      showVec [roundLog2 q0, l.qDivNegLog, em] ++ "," ++ toString l.s2cScalingLog ++ "," ++
        toString l.c2sScaling.1 ++ "/" ++ toString l.c2sScaling.2
    | _, _, _, _, _, _ => badOp
  | "scaledown" :: rest =>
    match vecArg rest "qs", natArg rest "logscale", natArg rest "ratio", natArg rest "level" with
    | some qs, some ls, some r, some l =>
      match scaleDown qs (2 ^ ls) r l with
      | some (lv, n, den) => let g := Nat.gcd n den; showVec [lv, n / g, den / g]
      | none => "err"
    | _, _, _, _ => badOp
  | "dft_layers" :: rest =>
    match boolArg rest "enc", natArg rest "logSlots" with
    | some enc, some ls =>
      let logN := (natArg rest "logN").getD (ls + 1)
      let repack := (boolArg rest "repack").getD false
      let bitrev := (boolArg rest "bitrev").getD false
      let n := 2 ^ ls
      let d : MatLit := { encode := enc, logSlots := ls, levels := List.replicate ls 1, repack := repack,
                          bitReversed := bitrev, logBSGS := 1 }
      let len := if d.sparseRepack logN then 2 * n else n
      let layer : Nat → Layer RootSum := fun lvl =>
        let l := dftLayerBR enc bitrev ls lvl
        { rot := l.rot, a := fun x => .ent (l.a x), b := fun x => .ent (l.b x), c := fun x => .ent (l.c x) }
      let code : RootSum → Nat := fun
        | .ent e => e.code n
        | .bad => 4 * n + 1
      let mats := (genMatricesFull d logN (.ent .zero) (.ent (.pos 0)) (.ent (.pos n)) layer).map fun M =>
        ";".intercalate ((M.map fun iv => (iv.1, toString iv.1 ++ ":" ++ showVec ((List.range len).map fun x => code (iv.2 x)))).toArray.qsort
          (fun x y => x.1 < y.1) |>.toList.map (·.2))
      "/".intercalate mats
    | _, _ => badOp
  | "literal_default" :: rest =>
    match kv? rest "mod1type", kv? rest "field" with
    | some t, some f => (literalDefault t f).getD "none"
    | _, _ => badOp
  | "literal_default_const" :: rest =>
    match kv? rest "name" with
    | some n => (defaultConst n).getD "none"
    | none => badOp
  | "literal_default_doc" :: rest =>
    match kv? rest "field" with
    | some f => (defaultDoc f).getD "none"
    | none => badOp
  | "default_list" :: rest =>
    match kv? rest "list" with
    | some l => toString (shippedListLength l)
    | none => badOp
  | "default_literal" :: rest =>
    match kv? rest "list", natArg rest "idx" with
    | some l, some i => match shippedDefault? l i with
      | some d => d.literal
      | none => "none"
    | _, _ => badOp
  | "default_source" :: rest =>
    match kv? rest "list", natArg rest "idx" with
    | some l, some i => match shippedDefault? l i with
      | some d => d.name ++ ";" ++ toString d.announcedTenths ++ ";" ++ d.literal
      | none => "none"
    | _, _ => badOp
  | "default_announced" :: rest =>
    match kv? rest "list", natArg rest "idx" with
    | some l, some i => match shippedDefault? l i with
      | some d => toString d.announcedTenths
      | none => "none"
    | _, _ => badOp
  | "mod1_gain" :: rest =>
    match natArg rest "da", natArg rest "inv", (kv? rest "logs").bind parseInt? with
    | some da, some inv, some k => toString (mod1GainLog da (inv != 0) k)
    | _, _, _ => badOp
  | "stages" :: rest =>
    match natArg rest "m1" with
    | some m1 =>
      match schedLit? rest m1 with
      | some s => match s.stages with
        | .ok v => showVec v
        | .error e => e
      | none => badOp
    | none => badOp
  | "output" :: rest =>
    match natArg rest "m1", boolArg rest "iter", natArg rest "logscale" with
    | some m1, some iter, some ls =>
      match schedLit? rest m1 with
      | some s => match s.outputLevel iter with
        | some l => showVec [l, 2 ^ ls]
        | none => "err"
      | none => badOp
    | _, _, _ => badOp
  | _ => badOp

end Driver.C18
