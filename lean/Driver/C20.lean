import Driver.Util
import Lattigo.Model.RGSW
import Lattigo.Model.BlindRot

/-
  Line-protocol handler of property C20 (RGSW external products, blind rotation).
  Every line is self-contained: `key=value` tokens after the op name.
-/
namespace Driver.C20
open Driver Lattigo Lattigo.RGSW Lattigo.RGSW.BlindRot

def parsePolys? (s : String) : Option (List (List (List Nat))) :=
  if s == "-" then some [] else (s.splitOn "/").mapM parseMat?

def parseIVecs? (s : String) : Option (List (List Int)) :=
  if s == "-" then some [] else (s.splitOn "/").mapM parseIVec?

def showPolys (ps : List (List (List Nat))) : String :=
  if ps.isEmpty then "-" else "/".intercalate (ps.map showMat)

def showNats (v : List Nat) : String := showVec v

def getPar (toks : List String) : Option Par := do
  let n ← (kv? toks "n") >>= parseNat?
  let q ← (kv? toks "Q") >>= parseVec?
  let p ← (kv? toks "P") >>= parseVec?
  let w ← (kv? toks "w") >>= parseNat?
  pure { qsQ := q, qsP := p, n := n, w := w }

def mkPoly (qs : List Nat) (rows : List (List Nat)) : RPoly := { qs := qs, c := rows }

/-- four lists of QP polynomials `x00 x01 x10 x11` → an RGSW ciphertext -/
def getRGSW (toks : List String) (pre : String) (qs : List Nat) : Option (Ct RPoly) := do
  let p00 ← (kv? toks (pre ++ "00")) >>= parsePolys?
  let p01 ← (kv? toks (pre ++ "01")) >>= parsePolys?
  let p10 ← (kv? toks (pre ++ "10")) >>= parsePolys?
  let p11 ← (kv? toks (pre ++ "11")) >>= parsePolys?
  pure { v0 := (p00.zip p01).map fun (a, b) => (mkPoly qs a, mkPoly qs b),
         v1 := (p10.zip p11).map fun (a, b) => (mkPoly qs a, mkPoly qs b) }

def showRGSW (c : Ct RPoly) : String :=
  showPolys (c.v0.map fun r => r.1.c) ++ "|" ++ showPolys (c.v0.map fun r => r.2.c) ++ "|" ++
  showPolys (c.v1.map fun r => r.1.c) ++ "|" ++ showPolys (c.v1.map fun r => r.2.c)

def showCt (c : RPoly × RPoly) : String := showPolys [c.1.c, c.2.c]

/-- lift the Q rows of a plaintext to QP (the P rows are never touched by the gadget vector) -/
def liftQ (p : Par) (rows : List (List Nat)) : RPoly :=
  { qs := p.qsQP, c := rows ++ p.qsP.map fun _ => List.replicate p.n 0 }

def hEnc (toks : List String) : Option String := do
  let p ← getPar toks
  let s ← (kv? toks "s") >>= parseIVec?
  let g ← (kv? toks "g") >>= parseMat?
  let a0 ← (kv? toks "a0") >>= parsePolys?
  let e0 ← (kv? toks "e0") >>= parseIVecs?
  let a1 ← (kv? toks "a1") >>= parsePolys?
  let e1 ← (kv? toks "e1") >>= parseIVecs?
  let qs := p.qsQP
  let sP := RPoly.ofInts qs s
  let smp0 := (a0.zip e0).map fun (a, e) => (mkPoly qs a, RPoly.ofInts qs e)
  let smp1 := (a1.zip e1).map fun (a, e) => (mkPoly qs a, RPoly.ofInts qs e)
  let ct := encryptR p sP (liftQ p g) smp0 smp1
  pure (showVec p.shape ++ "|" ++ showRGSW ct)

def getCt (toks : List String) (key : String) (qs : List Nat) : Option (RPoly × RPoly) := do
  let c ← (kv? toks key) >>= parsePolys?
  match c with
  | [a, b] => pure (mkPoly qs a, mkPoly qs b)
  | _ => none

def hExtProd (toks : List String) : Option String := do
  let p ← getPar toks
  let inplace ← (kv? toks "inplace") >>= parseNat?
  let ct ← getCt toks "c" p.qsQ
  let rg ← getRGSW toks "r" p.qsQP
  let _ := inplace
  pure (showCt (extProdR p ct rg))

def hAdd (toks : List String) : Option String := do
  let p ← getPar toks
  let a ← getRGSW toks "a" p.qsQP
  let b ← getRGSW toks "b" p.qsQP
  pure (showRGSW (Ct.add a b))

def hMulXm1 (toks : List String) (thenAdd : Bool) : Option String := do
  let p ← getPar toks
  let alpha ← (kv? toks "alpha") >>= parseNat?
  let a ← getRGSW toks "a" p.qsQP
  let x := xPowMinusOne p alpha
  if thenAdd then do
    let b ← getRGSW toks "b" p.qsQP
    pure (showRGSW (Ct.mulByThenAdd x a b))
  else pure (showRGSW (Ct.mulBy x a))

def hAddPt (toks : List String) : Option String := do
  let p ← getPar toks
  let m ← (kv? toks "m") >>= parseMat?
  let a ← getRGSW toks "a" p.qsQP
  pure (showRGSW (Ct.addPlain a ((pgList p).map fun pg => pg * liftQ p m)))

def hEp32 (toks : List String) : Option String := do
  let q ← (kv? toks "q") >>= parseNat?
  let mrc ← (kv? toks "mrc") >>= parseNat?
  let r0 ← (kv? toks "r0") >>= parseMat?
  let r1 ← (kv? toks "r1") >>= parseMat?
  let c ← (kv? toks "c") >>= parseMat?
  let cT := RPoly.transpose c
  let o0 := (List.zip (RPoly.transpose r0) cT).map fun (rs, cs) => slot32 q mrc rs cs
  let o1 := (List.zip (RPoly.transpose r1) cT).map fun (rs, cs) => slot32 q mrc rs cs
  pure (showVec o0 ++ "|" ++ showVec o1)

/-! ### blind rotation -/

def showStep : Step → String
  | Step.aut g => "a" ++ toString g
  | Step.mul j => "m" ++ toString j

/-- the requests the logging key set sees: automorphisms by `1` need no key -/
def showSched (st : List Step) : String :=
  let vis := st.filter fun x => match x with | Step.aut g => g != 1 | _ => true
  if vis.isEmpty then "-" else ",".intercalate (vis.map showStep)

def dedupSorted (l : List Nat) : List Nat :=
  (l.toArray.qsort (· < ·)).toList.eraseDups

def hKeyset (toks : List String) : Option String := do
  let n ← (kv? toks "n") >>= parseNat?
  let nl ← (kv? toks "nl") >>= parseNat?
  let els := ((List.range windowSize).map fun i => galEl n (i + 1)) ++ [2 * n - galoisGen]
  pure (showVec (dedupSorted els) ++ "|" ++ toString nl)

/-- coefficients in `[0, Q)` of an LWE-ring polynomial given by canonical rows -/
def crtCoeffs (qs : List Nat) (rows : List (List Nat)) : List Nat :=
  (RPoly.transpose rows).map fun col => RPoly.crt qs col

structure LweIn where
  n : Nat
  masks : List (Nat × List Nat)
  bs : List Nat

def getLwe (toks : List String) : Option LweIn := do
  let n ← (kv? toks "n") >>= parseNat?
  let ql ← (kv? toks "ql") >>= parseVec?
  let c0 ← (kv? toks "c0") >>= parseMat?
  let c1 ← (kv? toks "c1") >>= parseMat?
  let idx ← (kv? toks "idx") >>= parseVec?
  let Q := RPoly.prod ql
  let a0 := prepMask Q n (crtCoeffs ql c1)
  let b := prepB Q n (crtCoeffs ql c0)
  pure { n := n, masks := slotMasks n a0 idx, bs := b }

def hSched (toks : List String) : Option String := do
  let l ← getLwe toks
  let outs := l.masks.map fun (_, a) => if maskOk a then showSched (coreSchedule l.n a) else "panic"
  pure ("|".intercalate outs)

def hTestPoly (toks : List String) : Option String := do
  let n ← (kv? toks "n") >>= parseNat?
  let q ← (kv? toks "Q") >>= parseVec?
  let scale ← (kv? toks "scale") >>= parseNat?
  let vals ← (kv? toks "vals") >>= parseVec?
  let _ := n
  pure (showMat (q.map fun qi => vals.map fun v => scaleUpBits v scale qi % qi))

def getKeyList (toks : List String) (qs : List Nat) (i : Nat) : Option (List (RPoly × RPoly)) := do
  let k0 ← (kv? toks ("k" ++ toString i ++ "0")) >>= parsePolys?
  let k1 ← (kv? toks ("k" ++ toString i ++ "1")) >>= parsePolys?
  pure ((k0.zip k1).map fun (a, b) => (mkPoly qs a, mkPoly qs b))

def hEval (toks : List String) : Option String := do
  let p ← getPar toks
  let l ← getLwe toks
  let f ← (kv? toks "f") >>= parseMat?
  let gk ← (kv? toks "gk") >>= parseVec?
  let nb ← (kv? toks "nb") >>= parseNat?
  let tie ← (kv? toks "tie") >>= parseVec?
  let gks ← (List.range gk.length).mapM fun i => do
    let k ← getKeyList toks p.qsQP i
    pure (gk.getD i 0, k)
  let brk ← (List.range nb).mapM fun j => getRGSW toks ("b" ++ toString j ++ "_") p.qsQP
  let F := mkPoly p.qsQ f
  let outs := tie.map fun pos =>
    match l.masks[pos]? with
    | some (idx, a) => showCt (evalSlot p gks brk F a (l.bs.getD idx 0))
    | none => "bad-slot"
  pure ("|".intercalate outs)

def hCore (toks : List String) : Option String := do
  let p ← getPar toks
  let a ← (kv? toks "a") >>= parseVec?
  let acc ← getCt toks "acc" p.qsQ
  let gk ← (kv? toks "gk") >>= parseVec?
  let nb ← (kv? toks "nb") >>= parseNat?
  let gks ← (List.range gk.length).mapM fun i => do
    let k ← getKeyList toks p.qsQP i
    pure (gk.getD i 0, k)
  let brk ← (List.range nb).mapM fun j => getRGSW toks ("b" ++ toString j ++ "_") p.qsQP
  pure (if maskOk a then showCt (coreR p gks brk a acc) else "panic")

def hEpLazy (toks : List String) : Option String := do
  let p ← (kv? toks "p") >>= parseNat?
  let mrc ← (kv? toks "mrc") >>= parseNat?
  let fam ← (kv? toks "fam") >>= parseVec?
  let r0 ← (kv? toks "r0") >>= parseMat?
  let r1 ← (kv? toks "r1") >>= parseMat?
  let c ← (kv? toks "c") >>= parseMat?
  let F := lazyMargin fam
  let cT := RPoly.transpose c
  let o0 := (List.zip (RPoly.transpose r0) cT).map fun (rs, cs) => lazySlot p mrc F rs cs
  let o1 := (List.zip (RPoly.transpose r1) cT).map fun (rs, cs) => lazySlot p mrc F rs cs
  pure (showVec o0 ++ "|" ++ showVec o1)

def handle (toks : List String) : String :=
  let r : Option String :=
    match toks with
    | "rgsw_enc" :: rest => hEnc rest
    | "extprod" :: rest => hExtProd rest
    | "rgsw_add" :: rest => hAdd rest
    | "rgsw_mulxm1" :: rest => hMulXm1 rest false
    | "rgsw_mulxm1add" :: rest => hMulXm1 rest true
    | "rgsw_addpt" :: rest => hAddPt rest
    | "ep32raw" :: rest => hEp32 rest
    | "eplazy" :: rest => hEpLazy rest
    | "newplaintext_badtype" :: _ => some "err"
    | "addlazy_badtype" :: _ => some "panic"
    | "br_keyset" :: rest => hKeyset rest
    | "br_sched" :: rest => hSched rest
    | "testpoly" :: rest => hTestPoly rest
    | "br_eval" :: rest => hEval rest
    | "br_core" :: rest => hCore rest
    | _ => none
  r.getD badOp

end Driver.C20
