import Driver.Util
import Lattigo.Model.ParamsGen

/-
  `C19 pgen …` (the op name `gen` is taken by the prime generator): the derived quantities of core/rlwe/params.go, executed on the definitions REGENERATED
  from the Go source (`Lattigo/Gen/Params.lean` through `Model/ParamsGen.lean`).  Lines come from
  harness/c19_gen.go.  Vectors `a,b,c`, `-` = empty.

    pgen qmargin <Q> <level>                 → QiOverflowMargin(level)
    pgen pmargin <P> <level>                 → PiOverflowMargin(level)
    pgen brns <levelQ> <levelP>              → BaseRNSDecompositionVectorSize(levelQ, levelP)
    pgen btwo <Q> <levelQ> <levelP> <w>      → BaseTwoDecompositionVectorSize(levelQ, levelP, w)
    pgen maxbit <Q> <P> <levelQ> <levelP>    → MaxBit(levelQ, levelP)
    pgen levels <Q> <P>                      → MaxLevel MaxLevelQ MaxLevelP
-/
namespace Driver.C19Gen
open Driver Lattigo.Model.ParamsGen

def handle (toks : List String) : String :=
  let r : Option String := do
    match toks with
    | ["qmargin", qs, l] =>
      let qs ← parseVec? qs; let l ← parseInt? l
      pure (toString (qiMargin qs l))
    | ["pmargin", ps, l] =>
      let ps ← parseVec? ps; let l ← parseInt? l
      pure (toString (piMargin ps l))
    | ["brns", lq, lp] =>
      let lq ← parseInt? lq; let lp ← parseInt? lp
      pure (toString (baseRNS lq lp))
    | ["btwo", qs, lq, lp, w] =>
      let qs ← parseVec? qs; let lq ← parseInt? lq; let lp ← parseInt? lp; let w ← parseInt? w
      pure (showIVec (baseTwo qs lq lp w))
    | ["maxbit", qs, ps, lq, lp] =>
      let qs ← parseVec? qs; let ps ← parseVec? ps; let lq ← parseInt? lq; let lp ← parseInt? lp
      pure (toString (maxBit qs ps lq lp))
    | ["levels", qs, ps] =>
      let qs ← parseVec? qs; let ps ← parseVec? ps
      pure s!"{maxLevel qs} {maxLevelQ qs} {maxLevelP ps}"
    | _ => none
  r.getD badOp

end Driver.C19Gen
