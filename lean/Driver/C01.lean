import Driver.Util
import Lattigo.Gen.ModRed
import Lattigo.Gen.Butterfly
import Lattigo.Gen.VecLanes
import Lattigo.Gen.Automorphism
import Lattigo.Model.BRedConst
import Lattigo.Model.Vec
import Lattigo.Model.NTT
import Lattigo.Model.RPoly
import Lattigo.Model.RingQP

namespace Driver.C01
open Driver Lattigo Lattigo.Gen

def nats? (l : List String) : Option (List Nat) := l.mapM (·.toNat?)

def word (fn : String) (a : List Nat) : Option String :=
  match fn, a with
  | "genmred", [q] => some (toString (GenMRedConstant q))
  | "genbred", [q] => some s!"{(brc q).1},{(brc q).2}"
  | "mred", [x, y, q, qi] => some (toString (MRed x y q qi))
  | "mredlazy", [x, y, q, qi] => some (toString (MRedLazy x y q qi))
  | "bred", [x, y, q] => some (toString (BRed x y q (brc q)))
  | "bredlazy", [x, y, q] => some (toString (BRedLazy x y q (brc q)))
  | "bredadd", [x, q] => some (toString (BRedAdd x q (brc q)))
  | "bredaddlazy", [x, q] => some (toString (BRedAddLazy x q (brc q)))
  | "mform", [x, q] => some (toString (MForm x q (brc q)))
  | "mformlazy", [x, q] => some (toString (MFormLazy x q (brc q)))
  | "imform", [x, q, qi] => some (toString (IMForm x q qi))
  | "imformlazy", [x, q, qi] => some (toString (IMFormLazy x q qi))
  | "cred", [x, q] => some (toString (CRed x q))
  | _, _ => none

def nttOp (kind : String) (T : NTT.Tables) (a : List Nat) : Option (List Nat) :=
  match kind with
  | "std" => some (NTT.nttStd T a)
  | "stdlazy" => some (NTT.nttStdLazy T a)
  | "istd" => some (NTT.inttStd T a)
  | "istdlazy" => some (NTT.inttStdLazy T a)
  | "ci" => some (NTT.nttCI T a)
  | "cilazy" => some (NTT.nttCILazy T a)
  | "ici" => some (NTT.inttCI T a)
  | "icilazy" => some (NTT.inttCILazy T a)
  | _ => none

/-- `ring.AutomorphismNTTIndex`: the definition REGENERATED from ring/automorphism.go
    (`Gen.AutomorphismNTTIndex`, closed form: `Props/C01Aut.lean: autIndex_spec`).  An error return
    is printed as the empty table (the harness drops the error: `idx, _ := …`; `Vec(nil)` is `-`). -/
def autIndex (n nthRoot gal : Nat) : List Nat := (AutomorphismNTTIndex n nthRoot gal).getD []

/-! ### Ring construction: which parameters `ring.NewRing*` / `Ring.UnmarshalJSON` accept
(`ring/ring.go: NewRingWithCustomNTT`, `ring/subring.go: NewSubRingWithCustomNTT, generateNTTConstants`).
Theorems: `Lattigo/Props/C01CI.lean`. -/

/-- no divisor `m` of `q` with `d ≤ m`, `m·m ≤ q` (trial division, `fuel` candidates) -/
def noDivFrom (q : Nat) : Nat → Nat → Bool
  | 0, _ => true
  | fuel + 1, d =>
    if d * d > q then true else if q % d = 0 then false else noDivFrom q fuel (d + 1)

/-- `ring.IsPrime` as a decidable predicate (trial division; `primeTD_iff`: it is `Nat.Prime`) -/
def primeTD (q : Nat) : Bool := decide (2 ≤ q) && noDivFrom q q 2

/-- the degree test `N < 8 || N&(N-1) != 0` of the constructors, negated -/
def acceptDegree (n : Nat) : Bool := !(decide (n < 8) || (n &&& (n - 1)) != 0)

/-- `generateNTTConstants`: `IsPrime(Modulus)` and `Modulus & (NthRoot-1) == 1` -/
def acceptModulus (nthRoot q : Nat) : Bool := primeTD q && (q &&& (nthRoot - 1)) == 1

/-- `utils.AllDistinct` -/
def allDistinct : List Nat → Bool
  | [] => true
  | x :: xs => !xs.contains x && allDistinct xs

/-- a ring of degree `n` over the chain `qs` with roots of unity of order `nthRoot` is constructed
    (no error) exactly when this holds -/
def accept (n nthRoot : Nat) (qs : List Nat) : Bool :=
  acceptDegree n && !qs.isEmpty && allDistinct qs && qs.all (acceptModulus nthRoot)

def handle (toks : List String) : String :=
  match toks with
  | ["qpmulrns", qs, ps, nq, np, rowsQ, rowsP, sc] =>
    match parseVec? qs, parseVec? ps, nq.toNat?, np.toNat?, parseMat? rowsQ, parseMat? rowsP, parseVec? sc with
    | some qs, some ps, some nq, some np, some rq, some rp, some sc =>
      let r := RingQP.mulRNSScalarMontgomery qs ps nq np rq rp sc
      s!"{showMat r.1}|{showMat r.2}"
    | _, _, _, _, _, _, _ => badOp
  | ["rpautci", qs, gal, rows] =>
    match parseVec? qs, gal.toNat?, parseMat? rows with
    | some qs, some gal, some rows => showMat ((RingQP.autCI { qs := qs, c := rows } gal).c)
    | _, _, _ => badOp
  | ["accept", _ctor, n, nth, qs] =>
    match n.toNat?, nth.toNat?, parseVec? qs with
    | some n, some nth, some qs => if accept n nth qs then "1" else "0"
    | _, _, _ => badOp
  | "w" :: fn :: args =>
    match nats? args with
    | some a => (word fn a).getD badOp
    | none => badOp
  | ["vec", name, q, s0, s1, p1, p2, p3] =>
    match q.toNat?, s0.toNat?, s1.toNat?, parseVec? p1, parseVec? p2, parseVec? p3 with
    | some q, some s0, some s1, some p1, some p2, some p3 =>
      match Vec.op (Vec.mkSub q) name p1 p2 p3 s0 s1 with
      | some v => showVec v
      | none => badOp
    | _, _, _, _, _, _ => badOp
  | ["tables", n, q, nth, g] =>
    match n.toNat?, q.toNat?, nth.toNat?, g.toNat? with
    | some n, some q, some nth, some g =>
      let T := NTT.mkTables n q nth g
      s!"{showVec T.rootsF.toList}|{showVec T.rootsB.toList}|{T.nInv}|{T.qinv}|{T.bred.1},{T.bred.2}"
    | _, _, _, _ => badOp
  | ["ntt", kind, n, q, nth, g, a] =>
    match n.toNat?, q.toNat?, nth.toNat?, g.toNat?, parseVec? a with
    | some n, some q, some nth, some g, some a =>
      match nttOp kind (NTT.mkTables n q nth g) a with
      | some v => showVec v
      | none => badOp
    | _, _, _, _, _ => badOp
  | ["rpmul", q, a, b] =>
    match q.toNat?, parseVec? a, parseVec? b with
    | some q, some a, some b => showVec (RPoly.rowMul q a b)
    | _, _, _ => badOp
  | ["rpaut", qs, gal, rows] =>
    match parseVec? qs, gal.toNat?, parseMat? rows with
    | some qs, some gal, some rows => showMat ((RPoly.aut { qs := qs, c := rows } gal).c)
    | _, _, _ => badOp
  | ["rpmono", qs, k, rows] =>
    match parseVec? qs, k.toInt?, parseMat? rows with
    | some qs, some k, some rows =>
      -- ring.MultByMonomial computes `(k + 2N) % 2N` with Go's truncated `%`: for k < -2N the shift is
      -- negative and the code indexes out of range (panic)
      let n := (rows.headD []).length
      if k + 2 * (n : Int) < 0 then "panic"
      else showMat ((RPoly.mulMonomial { qs := qs, c := rows } k).c)
    | _, _, _ => badOp
  | ["ringop", name, qs, arg, rows1, rows2] =>
    match parseVec? qs, arg.toInt?, parseMat? rows1, parseMat? rows2 with
    | some qs, some k, some r1, some r2 =>
      let a : RPoly := { qs := qs, c := r1 }
      let b : RPoly := { qs := qs, c := r2 }
      let addK (sgn : Int) : RPoly :=
        { qs := qs, c := (qs.zip r1).map fun ((q : Nat), (row : List Nat)) =>
            row.map fun (x : Nat) => (((x : Int) + sgn * k) % (q : Int)).toNat }
      let res : Option RPoly :=
        match name with
        | "MulScalar" | "MulScalarBigint" => some (RPoly.scaleInt a k)
        | "MulScalarThenAdd" | "MulScalarBigintThenAdd" => some (b + RPoly.scaleInt a k)
        | "MulScalarThenSub" => some (b - RPoly.scaleInt a k)
        | "AddScalar" | "AddScalarBigint" => some (addK 1)
        | "SubScalar" | "SubScalarBigint" => some (addK (-1))
        | "EvalPolyScalar" => some (RPoly.scaleInt (RPoly.scaleInt a k + b) k + a)   -- Horner over [p, p2, p]
        | "Add" => some (a + b)
        | "Sub" => some (a - b)
        | "Neg" => some (-a)
        | _ => none
      match res with
      | some r => showMat r.c
      | none => badOp
    | _, _, _, _ => badOp
  | ["autidx", n, nth, gal] =>
    match n.toNat?, nth.toNat?, gal.toNat? with
    | some n, some nth, some gal => showVec (autIndex n nth gal)
    | _, _, _ => badOp
  | _ => badOp

end Driver.C01
