import Driver.Util
import Lattigo.Gen.ModRed
import Lattigo.Gen.Butterfly
import Lattigo.Gen.VecLanes

namespace Driver.C01
open Driver Lattigo Lattigo.Gen

def nat3 (a b c : String) : Option (Nat × Nat × Nat) := do
  some (← a.toNat?, ← b.toNat?, ← c.toNat?)

def handle (toks : List String) : String :=
  match toks with
  | ["mred", x, y, q, qi] => match (x.toNat?, y.toNat?, q.toNat?, qi.toNat?) with
      | (some x, some y, some q, some qi) => toString (MRed x y q qi)
      | _ => badOp
  | _ => badOp

end Driver.C01
