import Driver.Util
import Lattigo.Model.Store

/-
  C09 handler.  Tie lines (everything else is a probe, answered `holds` by the dispatcher):
    alias  <op> <pattern> <s0> <s1>   predicted outcome class of the aliased call vs the call with a
                                      fresh distinct output (`same-as-fresh` / `differs`); s0, s1 are
                                      the (small integer) scales given to op0 / op1 in the model run
    inputs <op> <s0> <s1>             are all arguments other than the output unchanged
                                      (`same-as-fresh` = unchanged, `differs` = some argument rewritten)
    hist <op> <s0> <s1>               the call into a used receiver / with used buffers against the clean call
    addhist <d0> <d1> <dOut>          ct+ct Add with an output that previously had degree dOut
    aliasd <opD> <pattern> <d0> <d1> <dOut> <s0> <s1>
                                      degree-aware operations (operands of degree d0, d1 ≤ 2; a distinct receiver
                                      previously of degree dOut ≤ 2): `same-as-fresh` / `differs` / `err` / `panic`
    shape <opS> <pattern> <sh0> <sh1> <shOut>
                                      levels `l0,l1,…` of the polynomials of op0, op1 and the receiver before the
                                      call ⇒ levels of the receiver's polynomials after it, or `err` / `panic`
  ops: ckksEval ckksMul ckksMulRelin bgvTensor bgvTensorRelin bgvTensorSI bgvTensorSIRelin
       bgvMatchScale bgvAddBig bgvMulBig rlweAut rlwePTS:<n> divRound divRoundNTT
       encryptSk decryptNTT decryptCoeff ckgGenShare evkGenShareP:<1|2> evkGenShareNoP:<1|2|3>
  opD: ckksAdd ckksSub ckksMul ckksMulRelin bgvMul bgvMulRelin
  opS: addLike ckksMul ckksMulRelin bgvMul bgvMulRelin bgvMulSI bgvMulRelinSI unaryBig rlweAut rlwePTS
  patterns: distinct out=op0 out=op1 op0=op1 all
-/
namespace Driver.C09
open Driver Lattigo.Store

def parseOp? (s : String) : Option Op :=
  match s with
  | "ckksEval" => some .ckksEval
  | "ckksMul" => some .ckksMul
  | "ckksMulRelin" => some .ckksMulRelin
  | "bgvTensor" => some .bgvTensor
  | "bgvTensorRelin" => some .bgvTensorRelin
  | "bgvTensorSI" => some .bgvTensorSI
  | "bgvTensorSIRelin" => some .bgvTensorSIRelin
  | "bgvMatchScale" => some .bgvMatchScale
  | "bgvAddBig" => some .bgvAddBig
  | "bgvMulBig" => some .bgvMulBig
  | "rlweAut" => some .rlweAut
  | "divRound" => some .divRound
  | "divRoundNTT" => some .divRoundNTT
  | "encryptSk" => some .encryptSk
  | "decryptNTT" => some (.decrypt true)
  | "decryptCoeff" => some (.decrypt false)
  | "ckgGenShare" => some .ckgGenShare
  | "evkGenShareP:1" => some (.evkGenShare true 1)
  | "evkGenShareP:2" => some (.evkGenShare true 2)
  | "evkGenShareNoP:1" => some (.evkGenShare false 1)
  | "evkGenShareNoP:2" => some (.evkGenShare false 2)
  | "evkGenShareNoP:3" => some (.evkGenShare false 3)
  | _ =>
    match s.splitOn ":" with
    | ["rlwePTS", n] => (parseNat? n).bind fun k => if k = 0 ∨ k > 4096 then none else some (.rlwePTS k)
    | _ => none

def parseAlias? (s : String) : Option Alias :=
  match s with
  | "distinct" => some .distinct
  | "out=op0" => some .outOp0
  | "out=op1" => some .outOp1
  | "op0=op1" => some .op0Op1
  | "all" => some .allEq
  | _ => none

def parseOpD? (s : String) : Option OpD :=
  match s with
  | "ckksAdd" => some .ckksAdd
  | "ckksSub" => some .ckksSub
  | "ckksMul" => some .ckksMul
  | "ckksMulRelin" => some .ckksMulRelin
  | "bgvMul" => some .bgvMul
  | "bgvMulRelin" => some .bgvMulRelin
  | _ => none

def parseOpS? (s : String) : Option OpS :=
  match s with
  | "addLike" => some .addLike
  | "ckksMul" => some (.ckksMul false)
  | "ckksMulRelin" => some (.ckksMul true)
  | "bgvMul" => some (.bgvMul false)
  | "bgvMulRelin" => some (.bgvMul true)
  | "bgvMulSI" => some (.bgvMulSI false)
  | "bgvMulRelinSI" => some (.bgvMulSI true)
  | "unaryBig" => some .unaryBig
  | "rlweAut" => some .rlweAut
  | "rlwePTS" => some .rlwePTS
  | _ => none

/-- a non-empty list of at most 4 levels ≤ 64 -/
def parseShape? (s : String) : Option Shape :=
  let parts := s.splitOn ","
  let vals := parts.filterMap parseNat?
  if vals.length ≠ parts.length ∨ vals.isEmpty ∨ vals.length > 4 ∨ vals.any (· > 64) then none else some vals

def showOutcomeD : OutcomeD → String
  | .sameAsFresh => "same-as-fresh"
  | .differs => "differs"
  | .err => "err"
  | .panic => "panic"

def showShape : Gen Shape → String
  | .ok s => ",".intercalate (s.map toString)
  | .err => "err"
  | .panic => "panic"

def showOutcome : Outcome → String
  | .sameAsFresh => "same-as-fresh"
  | .differs => "differs"

def handle (toks : List String) : String :=
  match toks with
  | ["alias", op, pat, s0, s1] =>
    match parseOp? op, parseAlias? pat, parseInt? s0, parseInt? s1 with
    | some o, some a, some x, some y => showOutcome (predictAlias o a x y)
    | _, _, _, _ => badOp
  | ["inputs", op, s0, s1] =>
    match parseOp? op, parseInt? s0, parseInt? s1 with
    | some o, some x, some y => showOutcome (predictInputs o x y)
    | _, _, _ => badOp
  | ["hist", op, s0, s1] =>
    match parseOp? op, parseInt? s0, parseInt? s1 with
    | some o, some x, some y => showOutcome (predictHistory o x y)
    | _, _, _ => badOp
  | ["addhist", d0, d1, dOut] =>
    match parseNat? d0, parseNat? d1, parseNat? dOut with
    | some a, some b, some c => if a > 8 ∨ b > 8 ∨ c > 8 then badOp else showOutcome (predictAddHistory a b c)
    | _, _, _ => badOp
  | ["aliasd", op, pat, d0, d1, dOut, s0, s1] =>
    match parseOpD? op, parseAlias? pat, parseNat? d0, parseNat? d1, parseNat? dOut, parseInt? s0, parseInt? s1 with
    | some o, some a, some x, some y, some z, some u, some v =>
      if x > 2 ∨ y > 2 ∨ z > 2 then badOp else showOutcomeD (predictAliasD o a x y z u v)
    | _, _, _, _, _, _, _ => badOp
  | ["shape", op, pat, s0, s1, sOut] =>
    match parseOpS? op, parseAlias? pat, parseShape? s0, parseShape? s1, parseShape? sOut with
    | some o, some a, some x, some y, some z => showShape (predictShape o a x y z)
    | _, _, _, _, _ => badOp
  | _ => badOp

end Driver.C09
