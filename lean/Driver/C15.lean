import Driver.Util
import Lattigo.Model.Shamir

/-
  C15 line protocol (all numbers decimal, `v` = vector `a,b,c`, `M` = matrix, rows joined by `;`).
  A ring is `nq ms` (number of Q primes, all primes Q then P); a ringqp polynomial is the matrix of
  its raw words, one row per prime.

    genpoly <nq> <threshold> <secret:M> <k> <rand_1:M> … <rand_k:M>
        → `err` | the t coefficient polynomials joined by `|`
    share <nq> <ms:v> <x> <t> <c_0:M> … <c_{t-1}:M>
        → GenShamirSecretShare at point x : `panic` | M
    share_into <nq> <ms:v> <x> <t> <recv:M> <c_0:M> … <c_{t-1}:M>
        → GenShamirSecretShare at point x into a receiver whose previous content is recv : `panic` | M
    agg <nq> <ms:v> <nq1> <s1:M> <nq2> <s2:M> <nqo> <out:M>
        → AggregateShares : `err` | M
    aggall <nq> <ms:v> <N> <n> <s_1:M> … <s_n:M>
        → shares aggregated one after the other into a zero polynomial : `err` | M
    addshare <nq> <ms:v> <threshold> <own> <others:v> <ownPoint> <actives:v> <share:M>
        → NewCombiner(own, others, threshold).GenAdditiveShare(actives, ownPoint, share) : `err` | `panic` | M
    addshare_seq <nq> <ms:v> <threshold> <own> <others:v> <k> <call_1> … <call_k>
        call = `ownPoint:actives:share`; ONE combiner, the calls in sequence (scratch buffer threaded)
        → the k outcomes joined by `|`
    run <nq> <ms:v> <threshold> <N> <nd> <dealer_1> … <dealer_nd> <np> <party_1> … <party_np>
        dealer = its Shamir polynomial, coefficient matrices joined by `|`
        party  = `own:others:actives`
        → thresholdRun (sum of the additive shares of the listed parties) : `err` | `panic` | M
-/
namespace Driver.C15
open Driver Lattigo.Model.Shamir

def showOutcome : Outcome QP → String
  | .ok a => showMat a.rows
  | .err => "err"
  | .panic => "panic"

def parseMats? (toks : List String) : Option (List (List (List Nat))) := toks.mapM parseMat?

def parseParty? (s : String) : Option Party :=
  match s.splitOn ":" with
  | [o, oth, act] => do some ⟨← o.toNat?, ← parseVec? oth, ← parseVec? act⟩
  | _ => none

def parseDealer? (nq : Nat) (s : String) : Option ShamirPoly := do
  let ms ← (s.splitOn "|").mapM parseMat?
  some (ms.map fun m => ⟨nq, m⟩)

def parseCall? (nq : Nat) (s : String) : Option Call :=
  match s.splitOn ":" with
  | [o, act, sh] => do some ⟨← parseVec? act, ← o.toNat?, ⟨nq, ← parseMat? sh⟩⟩
  | _ => none

def handleOpt (toks : List String) : Option String :=
  match toks with
  | "addshare_seq" :: nq :: ms :: thr :: own :: others :: k :: rest => do
      let r : RingQP := ⟨← nq.toNat?, ← parseVec? ms⟩
      let thr ← thr.toInt?
      let own ← own.toNat?
      let others ← parseVec? others
      let k ← k.toNat?
      let calls ← rest.mapM (parseCall? r.nq)
      if calls.length ≠ k then none
      some ("|".intercalate ((runCalls (newCombiner r own others thr) (r.ms.map fun _ => 0) calls).map showOutcome))
  | "genpoly" :: nq :: thr :: secret :: k :: rest => do
      let nq ← nq.toNat?
      let thr ← thr.toInt?
      let secret ← parseMat? secret
      let k ← k.toNat?
      let rand ← parseMats? rest
      if rand.length ≠ k then none
      match genShamirPolynomial thr ⟨nq, secret⟩ (rand.map fun m => ⟨nq, m⟩) with
      | .ok sp => some ("|".intercalate (sp.map fun c => showMat c.rows))
      | .err => some "err"
      | .panic => some "panic"
  | "share" :: nq :: ms :: x :: t :: rest => do
      let nq ← nq.toNat?
      let ms ← parseVec? ms
      let x ← x.toNat?
      let t ← t.toNat?
      let cs ← parseMats? rest
      if cs.length ≠ t then none
      some (showOutcome (genShamirSecretShare ⟨nq, ms⟩ x (cs.map fun m => ⟨nq, m⟩)))
  | "share_into" :: nq :: ms :: x :: t :: recv :: rest => do
      let nq ← nq.toNat?
      let ms ← parseVec? ms
      let x ← x.toNat?
      let t ← t.toNat?
      let recv ← parseMat? recv
      let cs ← parseMats? rest
      if cs.length ≠ t then none
      some (showOutcome (genShamirSecretShareInto ⟨nq, ms⟩ x (cs.map fun m => ⟨nq, m⟩) ⟨nq, recv⟩))
  | ["agg", nq, ms, nq1, s1, nq2, s2, nqo, out] => do
      let r : RingQP := ⟨← nq.toNat?, ← parseVec? ms⟩
      let a : QP := ⟨← nq1.toNat?, ← parseMat? s1⟩
      let b : QP := ⟨← nq2.toNat?, ← parseMat? s2⟩
      let o : QP := ⟨← nqo.toNat?, ← parseMat? out⟩
      some (showOutcome (aggregateShares r a b o))
  | "aggall" :: nq :: ms :: n :: cnt :: rest => do
      let r : RingQP := ⟨← nq.toNat?, ← parseVec? ms⟩
      let n ← n.toNat?
      let cnt ← cnt.toNat?
      let ss ← parseMats? rest
      if ss.length ≠ cnt then none
      some (showOutcome (aggregateAll r (zeroQP r n) (ss.map fun m => ⟨r.nq, m⟩)))
  | ["addshare", nq, ms, thr, own, others, ownPoint, actives, share] => do
      let r : RingQP := ⟨← nq.toNat?, ← parseVec? ms⟩
      let thr ← thr.toInt?
      let own ← own.toNat?
      let others ← parseVec? others
      let ownPoint ← ownPoint.toNat?
      let actives ← parseVec? actives
      let share ← parseMat? share
      some (showOutcome (genAdditiveShare (newCombiner r own others thr) actives ownPoint ⟨r.nq, share⟩))
  | "run" :: nq :: ms :: thr :: n :: nd :: rest => do
      let r : RingQP := ⟨← nq.toNat?, ← parseVec? ms⟩
      let thr ← thr.toInt?
      let n ← n.toNat?
      let nd ← nd.toNat?
      let dealers ← (rest.take nd).mapM (parseDealer? r.nq)
      if dealers.length ≠ nd then none
      match rest.drop nd with
      | np :: ps => do
          let np ← np.toNat?
          let parties ← ps.mapM parseParty?
          if parties.length ≠ np then none
          some (showOutcome (thresholdRun r thr (zeroQP r n) dealers parties))
      | [] => none
  | _ => none

def handle (toks : List String) : String := (handleOpt toks).getD badOp

end Driver.C15
