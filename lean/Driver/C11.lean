import Driver.Util
import Lattigo.Model.Galois
import Lattigo.Model.GaloisGen
import Lattigo.Model.InnerSum

/-
  Line-protocol handler for property C11.  Ops (see harness/c11.go):

    galel N k | galels N ks | modinv N g | dlog N g | ordertwo rt N | nttindex n N g
    adv-innersum N batch n | adv-replicate N batch n
    adv-innersum-bgv N maxSlots batch n | adv-replicate-bgv N ringN batch n
    adv-trace rt logNRing logN                                     (lists printed sorted)
    pts|replicate|innerfunction[-reqs] lay N t hasP batch n vec    -> "reqs vec" (or "reqs")
    innersum-bgv|innersum-ckks[-reqs] lay N t hasP slots batch n vec
    trace[-reqs] lay rt logNRing t logN vec
    rotate[-reqs] lay N t k vec | conj[-reqs] lay rt N t vec | rothoisted lay N t hasP ks vec

  `galel`, `galels`, `modinv`, `dlog`, `ordertwo` execute the definitions REGENERATED from the Go source
  (`Lattigo/Gen/Galois.lean` through the wrappers of `Model/GaloisGen.lean`), not the hand-written
  `Model/Galois.lean`; `Props/C11Gen.lean` (`driver_ops_gen`) proves the two equal.
-/
namespace Driver.C11
open Driver Lattigo.Model.Galois Lattigo.Model.InnerSum

def sortNat (l : List Nat) : List Nat := l.mergeSort (fun a b => decide (a ≤ b))

def showOptSorted : Option (List Nat) → String
  | some l => showVec (sortNat l)
  | none => "panic"

def parseLay? : String → Option Layout
  | "bgv" => some .bgv
  | "ckks" => some .ckks
  | "single" => some .single
  | _ => none

def parseRt? : String → Option RingType
  | "std" => some .standard
  | "ci" => some .conjugateInvariant
  | _ => none

def showRes (valueTie : Bool) : Res (List Int) → String
  | .err => "err"
  | .panic => "panic"
  | .ok v r => if valueTie then showVec r ++ " " ++ showIVec v else showVec r

/-- strip a `-reqs` suffix -/
def splitReqs (op : String) : String × Bool :=
  if op.endsWith "-reqs" then ((op.dropEnd 5).toString, false) else (op, true)

def zerosLike (v : List Int) : List Int := v.map (fun _ => 0)

def handleEval (op : String) (valueTie : Bool) (args : List String) : Option String := do
  match op, args with
  | "pts", [lay, N, t, hp, b, n, vec] | "replicate", [lay, N, t, hp, b, n, vec]
  | "innerfunction", [lay, N, t, hp, b, n, vec] =>
    let lay ← parseLay? lay; let N ← parseNat? N; let t ← parseNat? t
    let hasP := hp == "1"
    let b ← parseInt? b; let n ← parseInt? n; let v ← parseIVec? vec
    let S := slotOps lay N t
    let z := zerosLike v
    let r := match op with
      | "pts" => partialTracesSum S N hasP v z z b n
      | "replicate" => replicate S N hasP v z z b n
      | _ => innerFunction S S.add N v z z b n
    pure (showRes valueTie r)
  | "innersum-bgv", [lay, N, t, hp, slots, b, n, vec] | "innersum-ckks", [lay, N, t, hp, slots, b, n, vec] =>
    let lay ← parseLay? lay; let N ← parseNat? N; let t ← parseNat? t; let slots ← parseNat? slots
    let hasP := hp == "1"
    let b ← parseInt? b; let n ← parseInt? n; let v ← parseIVec? vec
    let S := slotOps lay N t
    let z := zerosLike v
    let r := if op == "innersum-bgv" then innerSumBGV S N slots hasP v z z b n
             else innerSumCKKS S N slots hasP v z z b n
    pure (showRes valueTie r)
  | "trace", [lay, rt, logNRing, t, l, vec] =>
    let lay ← parseLay? lay; let rt ← parseRt? rt; let logNRing ← parseNat? logNRing
    let t ← parseNat? t; let l ← parseInt? l; let v ← parseIVec? vec
    let S := slotOps lay (nthRootOf rt logNRing) t
    pure (showRes valueTie (trace S rt logNRing v l))
  | "rotate", [lay, N, t, k, vec] =>
    let lay ← parseLay? lay; let N ← parseNat? N; let t ← parseNat? t
    let k ← parseInt? k; let v ← parseIVec? vec
    pure (showRes valueTie (rotate (slotOps lay N t) N v k))
  | "conj", [lay, rt, N, t, vec] =>
    let lay ← parseLay? lay; let rt ← parseRt? rt; let N ← parseNat? N; let t ← parseNat? t
    let v ← parseIVec? vec
    pure (showRes valueTie (conjugate (slotOps lay N t) rt N v))
  | "rothoisted", [lay, N, t, hp, ks, vec] =>
    let lay ← parseLay? lay; let N ← parseNat? N; let t ← parseNat? t
    let ks ← parseIVec? ks; let v ← parseIVec? vec
    match rotateHoisted (slotOps lay N t) N (hp == "1") v ks with
    | some (outs, reqs) => pure (" ".intercalate (showVec reqs :: outs.map showIVec))
    | none => pure "err"
  | _, _ => none

def handle (toks : List String) : String :=
  let r : Option String := do
    match toks with
    | ["galel", N, k] =>
      let N ← parseNat? N; let k ← parseInt? k
      pure (toString (Lattigo.Model.GaloisGen.galEl N k))
    | ["galels", N, ks] =>
      let N ← parseNat? N; let ks ← parseIVec? ks
      pure (showVec (Lattigo.Model.GaloisGen.galEls N ks))
    | ["modinv", N, g] =>
      let N ← parseNat? N; let g ← parseNat? g
      pure (toString (Lattigo.Model.GaloisGen.modInv N g))
    | ["dlog", N, g] =>
      let N ← parseNat? N; let g ← parseNat? g
      pure (match Lattigo.Model.GaloisGen.solveDiscreteLog N g with | some k => toString k | none => "diverges")
    | ["ordertwo", rt, N] =>
      let rt ← parseRt? rt; let N ← parseNat? N
      pure (match Lattigo.Model.GaloisGen.orderTwo rt N with | some g => toString g | none => "panic")
    | ["nttindex", n, N, g] =>
      let n ← parseNat? n; let N ← parseNat? N; let g ← parseNat? g
      pure (match automorphismNTTIndex n N g with | some l => showVec l | none => "err")
    | ["adv-innersum", N, b, n] =>
      let N ← parseNat? N; let b ← parseInt? b; let n ← parseInt? n
      pure (showOptSorted (galoisElementsForInnerSum N b n))
    | ["adv-replicate", N, b, n] =>
      let N ← parseNat? N; let b ← parseInt? b; let n ← parseInt? n
      pure (showOptSorted (galoisElementsForReplicate N b n))
    | ["adv-innersum-bgv", N, ms, b, n] =>
      let N ← parseNat? N; let ms ← parseNat? ms; let b ← parseInt? b; let n ← parseInt? n
      pure (showOptSorted (galoisElementsForInnerSumBGV N ms b n))
    | ["adv-replicate-bgv", N, rn, b, n] =>
      let N ← parseNat? N; let rn ← parseNat? rn; let b ← parseInt? b; let n ← parseInt? n
      pure (showOptSorted (galoisElementsForReplicateBGV N rn b n))
    | ["adv-trace", rt, logNRing, l] =>
      let rt ← parseRt? rt; let logNRing ← parseNat? logNRing; let l ← parseInt? l
      pure (showOptSorted (galoisElementsForTrace rt logNRing l))
    | op :: args =>
      let (op, valueTie) := splitReqs op
      handleEval op valueTie args
    | _ => none
  r.getD badOp

end Driver.C11
