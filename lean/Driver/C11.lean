import Driver.Util

namespace Driver.C11
open Driver

/-- stub: replaced by the property's real handler -/
def handle (_toks : List String) : String := badOp

end Driver.C11
