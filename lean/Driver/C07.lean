import Driver.Util
import Lattigo.Model.EncoderT

/-
  C07 line protocol, integer half (harness/c07_bgv.go); first token after C07 is `bgv`:

    bgv perm <logN>                                                         ⇒ perm vector
    bgv ringt   t= g= n= scale= kind=u|i vals=                              ⇒ EncodeRingT coefficients | err
    bgv unringt t= g= n= scale= kind=u|i len= p=<vec>                       ⇒ DecodeRingT values
    bgv encode  t= g= n= N= qs= scale= batched=0|1 kind=u|i vals=           ⇒ canonical plaintext rows | err
    bgv decode  t= g= n= N= qs= scale= batched=0|1 kind=u|i len= rows=<mat> ⇒ Decode values
    bgv embed   t= g= n= N= qs=<moduli of the receiver part> up=0|1 scale= kind=u|i vals=
                                                                            ⇒ canonical rows of EmbedScale | err
    bgv embedp  t= g= n= N= qs=<Q moduli at the level of the Q part> ps=<P moduli> up=0|1 scale= kind=u|i vals=
                                                                            ⇒ canonical rows of the P part | err
-/
namespace Driver.C07
open Driver Lattigo Lattigo.EncoderT

def nat? (toks : List String) (k : String) : Option Nat := (kv? toks k).bind parseNat?

def tables? (toks : List String) : Option NTT.Tables := do
  let t ← nat? toks "t"
  let g ← nat? toks "g"
  let n ← nat? toks "n"
  pure (NTT.mkTables n t (2 * n) g)

def vals? (toks : List String) : Option Vals := do
  let kind ← kv? toks "kind"
  let v ← kv? toks "vals"
  if kind == "u" then (parseVec? v).map Vals.u else (parseIVec? v).map Vals.i

def params? (toks : List String) : Option Params := do
  let T ← tables? toks
  let bigN ← nat? toks "N"
  let qs ← (kv? toks "qs").bind parseVec?
  pure { T := T, perm := permuteMatrix (Nat.log2 T.n), bigN := bigN, qs := qs }

def handleBgv (toks : List String) : Option String :=
  match toks with
  | ["perm", k] => (parseNat? k).map fun k => showVec (permuteMatrix k)
  | "ringt" :: rest => do
    let T ← tables? rest
    let scale ← nat? rest "scale"
    let v ← vals? rest
    let perm := permuteMatrix (Nat.log2 T.n)
    let buf := List.replicate T.n 0
    let r := match v with
      | .u v => encodeRingTU T perm v scale buf
      | .i v => encodeRingTI T perm v scale buf
    pure (match r with | some p => showVec p | none => "err")
  | "unringt" :: rest => do
    let T ← tables? rest
    let scale ← nat? rest "scale"
    let kind ← kv? rest "kind"
    let len ← nat? rest "len"
    let p ← (kv? rest "p").bind parseVec?
    let perm := permuteMatrix (Nat.log2 T.n)
    pure (if kind == "u" then showVec (decodeRingTU T perm scale p len)
          else showIVec (decodeRingTI T perm scale p len))
  | "encode" :: rest => do
    let P ← params? rest
    let scale ← nat? rest "scale"
    let batched ← nat? rest "batched"
    let v ← vals? rest
    pure (match encode P (batched == 1) scale v with | some a => showMat a.c | none => "err")
  | "embed" :: rest => do
    let P ← params? rest
    let scale ← nat? rest "scale"
    let up ← nat? rest "up"
    let v ← vals? rest
    pure (match embed P P.qs (up == 1) scale v with | some a => showMat a.c | none => "err")
  | "embedp" :: rest => do
    let P ← params? rest
    let ps ← (kv? rest "ps").bind parseVec?
    let scale ← nat? rest "scale"
    let up ← nat? rest "up"
    let v ← vals? rest
    pure (match embedP P ps (up == 1) scale v with | some a => showMat a.c | none => "err")
  | "decode" :: rest => do
    let P ← params? rest
    let scale ← nat? rest "scale"
    let batched ← nat? rest "batched"
    let kind ← kv? rest "kind"
    let len ← nat? rest "len"
    let rows ← (kv? rest "rows").bind parseMat?
    let a : RPoly := { qs := P.qs, c := rows }
    pure (if kind == "u" then showVec (decodeU P (batched == 1) scale a len)
          else showIVec (decodeI P (batched == 1) scale a len))
  | _ => none

def handle (toks : List String) : String :=
  match toks with
  | "bgv" :: rest => (handleBgv rest).getD badOp
  | _ => badOp

end Driver.C07
