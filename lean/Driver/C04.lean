import Driver.Util
import Lattigo.Model.Gadget
import Lattigo.Model.KeySwitch

/-
  C04 line protocol (see harness/c04.go):

  dims  Q P lq lp w                                        → nI;n_0,…            (digit counts)
  evk   comp kind N Q P lq lp w galEl s s2 A E [A2]        → shape|polys         (key generation)
        comp 0 = plain, 1 = compressed (first components only), 2 = compressed then expanded with the
        seed-regenerated stream A2;  kind gen|relin|gal
  gp|gpl|gph|gphl|apply|relin|aut|auth|autl|autlmd|applyup|applydown  N Q P lq lp w isNTT galEl nbPi shape evk ct   → polys
        (for applyup/applydown the galEl slot carries gap = N/n)
  keymeta type form w lq lp deg nI nJ galEl nthRoot seed    → the record of the derived key (= the original's)
  gplazyw p= mrc= fam= r0= r1= c=                            → raw words of one limb of the lazy accumulators
  expandidx logN logGap                                     → keys of the map RingPackingEvaluator.Expand returns
  A list of polynomials is `rows;rows;…` joined by `/`.
-/
namespace Driver.C04
open Driver Lattigo Lattigo.KS

def parsePolys? (s : String) : Option (List (List (List Nat))) :=
  if s == "-" then some [] else (s.splitOn "/").mapM parseMat?

def parseIVecs? (s : String) : Option (List (List Int)) :=
  if s == "-" then some [] else (s.splitOn "/").mapM parseIVec?

def showPolys (ps : List RPoly) : String :=
  if ps.isEmpty then "-" else "/".intercalate (ps.map fun p => showMat p.c)

def mkPoly (qs : List Nat) (rows : List (List Nat)) : RPoly := { qs := qs, c := rows }

def pairs {β : Type} : List β → List (β × β)
  | b :: a :: rest => (b, a) :: pairs rest
  | _ => []

/-- moduli of a key / lazy result at levels (lq, lp); `lp = -1` ⇒ no P -/
def levels (Q P : List Nat) (lq : Nat) (lp : Int) : List Nat × List Nat :=
  (Q.take (lq + 1), if lp < 0 then [] else P.take (lp.toNat + 1))

def handleDims (toks : List String) : Option String := do
  match toks with
  | [q, p, lq, lp, w] =>
    let Q ← parseVec? q
    let _P ← parseVec? p
    let lq ← lq.toNat?
    let lp ← lp.toInt?
    let w ← w.toNat?
    let nP := if lp < 0 then 0 else lp.toNat + 1
    some (toString (baseRNSDecompositionVectorSize lq nP) ++ ";" ++
      showVec (baseTwoDecompositionVectorSize Q nP w))
  | _ => none

def handleEvk (toks : List String) : Option String := do
  match toks with
  | comp :: kind :: n :: q :: p :: lq :: lp :: w :: galEl :: s :: s2 :: a :: e :: rest =>
    let comp ← comp.toNat?
    let n ← n.toNat?
    let Q ← parseVec? q
    let P ← parseVec? p
    let lq ← lq.toNat?
    let lp ← lp.toInt?
    let w ← w.toNat?
    let galEl ← galEl.toNat?
    let s ← parseIVec? s
    let A ← parsePolys? a
    let E ← parseIVecs? e
    let (qsQ, qsP) := levels Q P lq lp
    let qs := qsQ ++ qsP
    let flat := (A.map (mkPoly qs)).zip (E.map (RPoly.ofInts qs))
    let sR := RPoly.ofInts qs s
    let shape := gadgetShape Q (qsQ.length - 1) qsP.length w
    let samples := reshape shape flat
    let pg := pgElt qsQ qsP n w
    let key ← match kind with
      | "gen" => do
          let s2 ← parseIVec? s2
          some (genEvaluationKey pg sR (RPoly.ofInts qs s2) samples)
      | "relin" => some (genRelinearizationKey pg sR samples)
      | "gal" =>
          let ginv := modInvGaloisElement n galEl
          some (genGaloisKey (fun x => x.aut ginv) pg sR samples)
      | _ => none
    let shapeOut := key.map List.length
    match comp with
    | 0 => some (showVec shapeOut ++ "|" ++ showPolys (key.flatten.flatMap fun (b, a) => [b, a]))
    | 1 => some (showVec shapeOut ++ "|" ++ showPolys (compress key).flatten)
    | 2 => do
        let a2 ← rest.head?
        let A2 ← parsePolys? a2
        let full := expand (compress key) (reshape shape (A2.map (mkPoly qs)))
        some (showVec (full.map List.length) ++ "|" ++
          showPolys (full.flatten.flatMap fun (b, a) => [b, a]))
    | _ => none
  | _ => none

def handleKs (op : String) (toks : List String) : Option String := do
  match toks with
  | [n, q, p, lq, lp, w, _isNTT, galEl, nbPi, shape, evk, ct] =>
    let _n ← n.toNat?
    let Q ← parseVec? q
    let P ← parseVec? p
    let lq ← lq.toNat?
    let lp ← lp.toInt?
    let w ← w.toNat?
    let galEl ← galEl.toNat?
    let nbPi ← nbPi.toNat?
    let shape ← parseVec? shape
    let evkP ← parsePolys? evk
    let ctP ← parsePolys? ct
    let (qsQ, qsP) := levels Q P lq lp
    let qsKey := qsQ ++ qsP
    let key := reshape shape (pairs (evkP.map (mkPoly qsKey)))
    let nQkey := qsQ.length
    let lvlRows := (ctP.headD []).length
    let qsCt := Q.take lvlRows
    let cts := ctP.map (mkPoly qsCt)
    let σ := fun (x : RPoly) => x.aut galEl
    match op, cts with
    | "gp", [c] =>
        let r := gadgetProductR qsP w nQkey key c
        some (showPolys [r.1, r.2])
    | "gpl", [c] =>
        let r := gadgetProductLazyR qsP w nQkey key c
        some (showPolys [r.1, r.2])
    | "apply", [c0, c1] =>
        let r := applyEvaluationKey (gadgetProductR qsP w nQkey key c1) (c0, c1)
        some (showPolys [r.1, r.2])
    | "relin", [c0, c1, c2] =>
        let r := relinearize (gadgetProductR qsP w nQkey key c2) (c0, c1, c2)
        some (showPolys [r.1, r.2])
    | "aut", [c0, c1] =>
        let r := automorphism σ (gadgetProductR qsP w nQkey key c1) (c0, c1)
        some (showPolys [r.1, r.2])
    | "auth", [c0, c1] =>
        let r := automorphism σ (gadgetProductHoistedR qsP nbPi nQkey key c1) (c0, c1)
        some (showPolys [r.1, r.2])
    | "autl", [c0, c1] =>
        let r := automorphismHoistedLazy σ (gadgetProductHoistedLazyR qsP nbPi nQkey key c1)
          (scaleByP qsP c0)
        some (showPolys [r.1, r.2])
    | "autlmd", [c0, c1] =>
        -- AutomorphismHoistedLazy, then Evaluator.ModDown by the KEY's P
        let r := automorphismHoistedLazy σ (gadgetProductHoistedLazyR qsP nbPi nQkey key c1)
          (scaleByP qsP c0)
        some (showPolys [modDownR c1.qs.length r.1, modDownR c1.qs.length r.2])
    | "gph", [c] =>
        let r := gadgetProductHoistedR qsP nbPi nQkey key c
        some (showPolys [r.1, r.2])
    | "gphl", [c] =>
        let r := gadgetProductHoistedLazyR qsP nbPi nQkey key c
        some (showPolys [r.1, r.2])
    | "applyup", [c0, c1] =>
        -- galEl slot = gap; the ciphertext is in the small ring
        let r := applyEvaluationKeyUp (embedR galEl) (gadgetProductR qsP w nQkey key) (c0, c1)
        some (showPolys [r.1, r.2])
    | "applydown", [c0, c1] =>
        let r := applyEvaluationKeyDown (projectR galEl) (gadgetProductR qsP w nQkey key c1) (c0, c1)
        some (showPolys [r.1, r.2])
    | _, _ => none
  | _ => none

def handleKeyMeta (toks : List String) : Option String := do
  match toks with
  | [_typ, _form, w, lq, lp, deg, nI, nJ, galEl, nthRoot, seed] =>
    let m : KeyMeta := {
      w := ← w.toNat?, lq := ← lq.toNat?, lp := ← lp.toInt?, deg := ← deg.toNat?, nI := ← nI.toNat?,
      nJ := ← parseVec? nJ, galEl := ← galEl.toNat?, nthRoot := ← nthRoot.toNat?, seed := ← parseHex? seed }
    let d := m.derived
    some (s!"{d.w} {d.lq} {d.lp} {d.deg} {d.nI} {showVec d.nJ} {d.galEl} {d.nthRoot} {showHex d.seed}")
  | _ => none

/-- `gplazyw p=… mrc=… fam=… r0=… r1=… c=…`: raw accumulators of one limb of `GadgetProduct{,Hoisted}Lazy` -/
def handleGpLazyW (toks : List String) : Option String := do
  let p ← (kv? toks "p") >>= parseNat?
  let mrc ← (kv? toks "mrc") >>= parseNat?
  let fam ← (kv? toks "fam") >>= parseVec?
  let r0 ← (kv? toks "r0") >>= parseMat?
  let r1 ← (kv? toks "r1") >>= parseMat?
  let c ← (kv? toks "c") >>= parseMat?
  some (showVec (gpLazyLimb p mrc fam r0 c) ++ "|" ++ showVec (gpLazyLimb p mrc fam r1 c))

def handle (toks : List String) : String :=
  let r := match toks with
    | "dims" :: rest => handleDims rest
    | "evk" :: rest => handleEvk rest
    | "keymeta" :: rest => handleKeyMeta rest
    | "gplazyw" :: rest => handleGpLazyW rest
    | ["expandidx", logN, logGap] => do
        some (showVec (expandKeys (← logN.toNat?) (← logGap.toNat?)))
    | op :: rest => handleKs op rest
    | _ => none
  r.getD badOp

end Driver.C04
