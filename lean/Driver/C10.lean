import Driver.Util
import Lattigo.Model.Copy

/-
  C10 handler.  Tie line:
    table <Type.Ctor>   the model's classification of every field of the copy against the original,
                        printed with the classes the reflection walk can observe
                        (config | config-changed | shared | owned | fresh | mixed | nil | dropped | retyped)
  Everything else is a probe (answered `holds` by the dispatcher).
-/
namespace Driver.C10
open Driver Lattigo.Copy

def handle (toks : List String) : String :=
  match toks with
  | ["table", name] =>
    match lookup name with
    | some r => showRow r
    | none => badOp
  | ["child", "done"] => "ok"
  | _ => badOp

end Driver.C10
