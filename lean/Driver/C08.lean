import Driver.Util
import Lattigo.Model.Codec

/-
  C08 line protocol.

  Value trees (no spaces): `_` unit · decimal number · `x<hex>` opaque bytes (`x` = empty) · `i<int>` signed field (`i-1`) ·
  `(a,b)` pair (`(a,b,c)` = `(a,(b,c))`) · `[a,b,…]` list (`[]` empty) · `~` nil optional ·
  `?v` present optional.

  ops (first token after `C08`):
    enc  <ty> <val>                → hex of the model encoding
    size <ty> <val>                → announced size (`BinarySize`)
    wt   <ty> <val>                → 1/0 well-typed
    dec  <ty> <hex>                → `ok <consumed> <val>` | `err`
    decc <ty> <sizes> <hex>        → same through the chunked reader (chunk sizes cycle)
    decs <ty> <sizes> <hex>        → same through `io.ReadFull` loops over a short-count transport
    marshal <ty> <val>             → hex of `MarshalBinary` (buffer of `BinarySize` bytes) | err
    fields <ty> <gotype>           → sorted Go field paths the model declares for the type
    many <ty> <k> <hex>            → `ok <consumed> [v1,…,vk]` | `err`  (back-to-back)
    into <ty> <recvval> <hex>      → `ok <consumed> <val>` | `err`  (Go `ReadFrom` into a
                                      receiver holding `recvval`; the receiver-leak model)
-/
namespace Driver.C08
open Driver Lattigo.Codec

/-! value tree parser / printer -/

partial def parseVal : List Char → Option (Val × List Char)
  | '_' :: r => some (.unit, r)
  | '~' :: r => some (.none, r)
  | '?' :: r => do
      let (v, r') ← parseVal r
      some (.some v, r')
  | 'i' :: '-' :: r =>
      let ds := r.takeWhile Char.isDigit
      if ds.isEmpty then none
      else some (.int (-((String.ofList ds).toNat! : Int)), r.dropWhile Char.isDigit)
  | 'i' :: r =>
      let ds := r.takeWhile Char.isDigit
      if ds.isEmpty then none
      else some (.int ((String.ofList ds).toNat! : Int), r.dropWhile Char.isDigit)
  | 'x' :: r =>
      let hexs := r.takeWhile (fun c => hexDigit? c |>.isSome)
      let rest := r.dropWhile (fun c => hexDigit? c |>.isSome)
      match parseHex? (if hexs.isEmpty then "-" else String.ofList hexs) with
      | some bs => some (.bytes bs, rest)
      | none => none
  | '(' :: r => do
      let (a, r1) ← parseVal r
      parseTuple a r1
  | '[' :: ']' :: r => some (.list [], r)
  | '[' :: r => do
      let (a, r1) ← parseVal r
      parseList [a] r1
  | cs =>
      let ds := cs.takeWhile Char.isDigit
      if ds.isEmpty then none
      else some (.num (String.ofList ds).toNat!, cs.dropWhile Char.isDigit)
where
  parseTuple (a : Val) : List Char → Option (Val × List Char)
    | ')' :: r => some (a, r)
    | ',' :: r => do
        let (b, r1) ← parseVal r
        let (t, r2) ← parseTuple b r1
        some (.pair a t, r2)
    | _ => none
  parseList (acc : List Val) : List Char → Option (Val × List Char)
    | ']' :: r => some (.list acc.reverse, r)
    | ',' :: r => do
        let (b, r1) ← parseVal r
        parseList (b :: acc) r1
    | _ => none

def parseVal? (s : String) : Option Val :=
  match parseVal s.toList with
  | some (v, []) => some v
  | _ => none

partial def showVal : Val → String
  | .unit => "_"
  | .num n => toString n
  | .bytes bs => "x" ++ (if bs.isEmpty then "" else showHex bs)
  | .pair a b => "(" ++ showVal a ++ "," ++ showTail b
  | .list vs => "[" ++ ",".intercalate (vs.map showVal) ++ "]"
  | .none => "~"
  | .some v => "?" ++ showVal v
  | .int z => "i" ++ toString z
where
  /-- pairs print right-nested without inner parentheses: `(a,b,c)` -/
  showTail : Val → String
    | .pair a b => showVal a ++ "," ++ showTail b
    | v => showVal v ++ ")"

/-- split a flat list into chunks whose sizes cycle through `sizes` (size 0 = empty chunk). -/
partial def chunk (sizes : List Nat) (bs : List Nat) : List (List Nat) :=
  let rec go (szs : List Nat) (bs : List Nat) (acc : List (List Nat)) (idle : Nat) : List (List Nat) :=
    if bs.isEmpty then acc.reverse
    else match szs with
      | [] => if idle > sizes.length then (bs :: acc).reverse else go sizes bs acc (idle + 1)
      | k :: rest => go rest (bs.drop k) (bs.take k :: acc) (if k = 0 then idle + 1 else 0)
  if sizes.isEmpty then [bs] else go sizes bs [] 0

/-- Go maps are rendered in ascending key order: sort the entries of every map node. -/
def insertByKey (e : Val) : List Val → List Val
  | [] => [e]
  | x :: xs => if (keyOf e).getD 0 < (keyOf x).getD 0 then e :: x :: xs else x :: insertByKey e xs

partial def canon : Fmt → Val → Val
  | .framed _ f _, v => canon f v
  | .pair a b, .pair x y => .pair (canon a x) (canon b y)
  | .vec m _ f, .list vs =>
    let vs' := vs.map (canon f)
    .list (if m = .map ∨ m = .mapKeep then vs'.foldr insertByKey [] else vs')
  | .opt _ _ f, .some x => .some (canon f x)
  | .tailIf _ a _ _, .pair x y => .pair (canon a x) y
  | _, v => v

def showDec (total : Nat) : Option (Val × List Nat) → String
  | some (v, rest) => s!"ok {total - rest.length} {showVal v}"
  | none => "err"

def handle (toks : List String) : String :=
  match toks with
  | ["enc", ty, v] =>
    match fmtOf ty, parseVal? v with
    | some f, some v => showHex (enc f v)
    | _, _ => badOp
  | ["size", ty, v] =>
    match fmtOf ty, parseVal? v with
    | some f, some v => toString (size f v)
    | _, _ => badOp
  | ["wt", ty, v] =>
    match fmtOf ty, parseVal? v with
    | some f, some v => if wtb f v then "1" else "0"
    | _, _ => badOp
  | ["dec", ty, h] =>
    match fmtOf ty, parseHex? h with
    | some f, some bs => showDec bs.length (dec f bs)
    | _, _ => badOp
  | ["decc", ty, sizes, h] =>
    match fmtOf ty, parseVec? sizes, parseHex? h with
    | some f, some szs, some bs =>
      showDec bs.length ((decC f (chunk szs bs)).map fun p => (p.1, p.2.flatten))
    | _, _, _ => badOp
  | ["decs", ty, sizes, h] =>
    match fmtOf ty, parseVec? sizes, parseHex? h with
    | some f, some szs, some bs =>
      showDec bs.length ((decS f (chunk szs bs)).map fun p => (p.1, p.2.flatten))
    | _, _, _ => badOp
  | ["marshal", ty, v] =>
    match fmtOf ty, parseVal? v with
    | some f, some v =>
      match marshalBinary f v with
      | some bs => showHex bs
      | none => "err"
    | _, _ => badOp
  | ["fields", ty, g] =>
    match goFields g with
    | some (ty', ser, der) =>
      if ty' == ty then ",".intercalate ((ser ++ der).toArray.qsort (· < ·)).toList else badOp
    | none => badOp
  | ["many", ty, k, h] =>
    match fmtOf ty, parseNat? k, parseHex? h with
    | some f, some k, some bs =>
      match decMany f k bs with
      | some (vs, rest) => s!"ok {bs.length - rest.length} {showVal (.list vs)}"
      | none => "err"
    | _, _, _ => badOp
  | ["into", ty, r, h] =>
    match fmtOf ty, parseVal? r, parseHex? h with
    | some f, some r, some bs =>
      showDec bs.length ((decInto f r bs).map fun p => (canon f p.1, p.2))
    | _, _, _ => badOp
  | _ => badOp

end Driver.C08
