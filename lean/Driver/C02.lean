import Driver.Util
import Lattigo.Model.Scaling
import Lattigo.Model.BasisExt
import Lattigo.Model.Decomp
import Lattigo.Model.Gadget

/-
  C02 line protocol (all numbers decimal, vectors `a,b`, matrices rows joined by `;`, `-` empty):

  div <kind> N qs gs level nb p0          -> p1|p0after            (kind: floor floorntt floormany floormanyntt
                                                                     round roundntt roundmany roundmanyntt)
  modupexact Q P levelQ levelP p1         -> rows (raw, unreduced)  ring.ModUpExact with GenModUpConstants(Q[:levelQ+1], P)
  modup qtop|ptoq Q P levelQ levelP pol   -> rows                   BasisExtender.ModUpQtoP / ModUpPtoQ
  moddown qptoq|qptop Q P levelQ levelP p1Q p1P            -> rows
  moddownntt N Q gQ P gP levelQ levelP p1Q p1P             -> rows  ModDownQPtoQNTT
  decomp Q P hasP levelQ levelP nbPi d p0Q prevQ           -> rowsQ|rowsP
  decompntt N Q gQ P gP levelQ levelP nbPi size isNTT c2   -> rowsQ|rowsP/…  rlwe.Evaluator.DecomposeNTT (one pair per digit)
  divci / moddownnttci / decompnttci      same as div (4 NTT kinds) / moddownntt / decompntt on a conjugate-invariant ring (NthRoot = 4N)
  evalmoddown ci N Q gQ P gP levelQ levelP+1 qpNTT ctNTT pQ pP -> ct|ctQP.Q after|ctQP.P after   rlwe.Evaluator.ModDown, one polynomial
  gadgetrow qsQ qsP N w i j               -> rows (Q then P)        P·2^(w·j) on the Q rows of RNS digit i (C04's KS.pgElt), pt = 1
  mask w mask p1                          -> vec                    ring.MaskVec
  extsmall q0 P levelP row0               -> rows                   ringqp ExtendBasisSmallNormAndCenter
  extsmallntt N q0 g0 P gP levelP row0    -> rows                   rlwe.ExtendBasisSmallNormAndCenterNTTMontgomery
  int floor|round qs nb xs                -> residues               integer-level spec `manyFloorInt`/`manyRoundInt`
  int hps qs ps xs                        -> v|ys|outs              integer-level HPS with exact v
  int pow2 w n x                          -> digits|recombined
-/
namespace Driver.C02
open Driver Lattigo

def showRows (m : List (List Nat)) : String := showMat m

def divOp (kind : String) (n : Nat) (qs gs : List Nat) (level nb : Nat) (p0 : List (List Nat)) : String :=
  let T := Scaling.mkTabs n qs gs
  let pair (p1 : List (List Nat)) (p0' : List (List Nat)) : String := s!"{showRows p1}|{showRows p0'}"
  match kind with
  | "floor" => pair (Scaling.divFloor qs level p0) p0
  | "floorntt" => pair (Scaling.divFloorNTT T qs level p0) p0
  | "round" => pair (Scaling.divRound qs level p0) p0
  | "roundntt" => pair (Scaling.divRoundNTT T qs level p0) p0
  | "floormany" => match Scaling.divFloorMany qs level nb p0 with
      | some p1 => pair p1 p0
      | none => "panic"
  | "floormanyntt" => match Scaling.divFloorManyNTT T qs level nb p0 with
      | some p1 => pair p1 p0
      | none => "panic"
  | "roundmany" => match Scaling.divRoundMany qs level nb p0 with
      | some p1 => pair p1 p0
      | none => "panic"
  | "roundmanyntt" => match Scaling.divRoundManyNTT T qs level nb p0 with
      | some p1 => pair p1 p0
      | none => "panic"
  | _ => badOp

def handle (toks : List String) : String :=
  match toks with
  | ["divci", kind, n, qs, gs, level, nb, p0] =>
    match n.toNat?, parseVec? qs, parseVec? gs, level.toNat?, nb.toNat?, parseMat? p0 with
    | some n, some qs, some gs, some level, some nb, some p0 =>
      let T := Scaling.mkTabsCI n qs gs
      let F := Scaling.xfCI
      let pair (p1 : List (List Nat)) : String := s!"{showRows p1}|{showRows p0}"
      match kind with
      | "floorntt" => pair (Scaling.divFloorNTTX F T qs level p0)
      | "roundntt" => pair (Scaling.divRoundNTTX F T qs level p0)
      | "floormanyntt" => match Scaling.divFloorManyNTTX F T qs level nb p0 with
          | some p1 => pair p1
          | none => "panic"
      | "roundmanyntt" => match Scaling.divRoundManyNTTX F T qs level nb p0 with
          | some p1 => pair p1
          | none => "panic"
      | _ => badOp
    | _, _, _, _, _, _ => badOp
  | ["moddownnttci", n, Q, gQ, P, gP, lq, lp, p1Q, p1P] =>
    match n.toNat?, parseVec? Q, parseVec? gQ, parseVec? P, parseVec? gP, lq.toNat?, lp.toNat?, parseMat? p1Q, parseMat? p1P with
    | some n, some Q, some gQ, some P, some gP, some lq, some lp, some p1Q, some p1P =>
      showRows (BasisExt.modDownQPtoQNTTX Scaling.xfCI (Scaling.mkTabsCI n Q gQ) (Scaling.mkTabsCI n P gP) Q P lq lp p1Q p1P)
    | _, _, _, _, _, _, _, _, _ => badOp
  | ["decompnttci", n, Q, gQ, P, gP, lq, lp, nbPi, size, isNTT, c2] =>
    match n.toNat?, parseVec? Q, parseVec? gQ, parseVec? P, parseVec? gP, lq.toNat?, lp.toNat?, nbPi.toNat?, size.toNat?, isNTT.toNat?, parseMat? c2 with
    | some n, some Q, some gQ, some P, some gP, some lq, some lp, some nbPi, some size, some isNTT, some c2 =>
      match Decomp.decomposeNTTX Scaling.xfCI (Scaling.mkTabsCI n Q gQ) (Scaling.mkTabsCI n P gP) Q P lq lp nbPi size (isNTT != 0) c2 with
      | some ds => "/".intercalate (ds.map fun (a, b) => s!"{showRows a}|{showRows b}")
      | none => "panic"
    | _, _, _, _, _, _, _, _, _, _, _ => badOp
  | ["evalmoddown", ci, n, Q, gQ, P, gP, lq, lp, qpNTT, ctNTT, pQ, pP] =>
    -- lp = levelP + 1 (0 = Go's levelP = -1)
    match ci.toNat?, n.toNat?, parseVec? Q, parseVec? gQ, parseVec? P, parseVec? gP, lq.toNat?, lp.toNat?, qpNTT.toNat?, ctNTT.toNat?, parseMat? pQ, parseMat? pP with
    | some ci, some n, some Q, some gQ, some P, some gP, some lq, some lp, some qpNTT, some ctNTT, some pQ, some pP =>
      let F := if ci != 0 then Scaling.xfCI else Scaling.xfStd
      let mk := if ci != 0 then Scaling.mkTabsCI else Scaling.mkTabs
      let r := BasisExt.evalModDown F (mk n Q gQ) (mk n P gP) Q P lq (if lp = 0 then none else some (lp - 1))
        (qpNTT != 0) (ctNTT != 0) pQ pP
      s!"{showRows r.1}|{showRows r.2.1}|{showRows r.2.2}"
    | _, _, _, _, _, _, _, _, _, _, _, _ => badOp
  | ["gadgetrow", qsQ, qsP, n, w, i, j] =>
    -- rlwe.AddPolyTimesGadgetVectorToGadgetCiphertext(pt = 1, zero gadget ciphertext): the rows (Q then P) of Value[i][j][0]
    match parseVec? qsQ, parseVec? qsP, n.toNat?, w.toNat?, i.toNat?, j.toNat? with
    | some qsQ, some qsP, some n, some w, some i, some j => showRows (KS.pgElt qsQ qsP n w i j).c
    | _, _, _, _, _, _ => badOp
  | ["div", kind, n, qs, gs, level, nb, p0] =>
    match n.toNat?, parseVec? qs, parseVec? gs, level.toNat?, nb.toNat?, parseMat? p0 with
    | some n, some qs, some gs, some level, some nb, some p0 => divOp kind n qs gs level nb p0
    | _, _, _, _, _, _ => badOp
  | ["modupexact", Q, P, lq, lp, p1] =>
    match parseVec? Q, parseVec? P, lq.toNat?, lp.toNat?, parseMat? p1 with
    | some Q, some P, some lq, some lp, some p1 =>
      showRows (BasisExt.modUpExact Q P (BasisExt.genModUpConstants (Q.take (lq + 1)) P) lp p1)
    | _, _, _, _, _ => badOp
  | ["modup", dir, Q, P, lq, lp, pol] =>
    match parseVec? Q, parseVec? P, lq.toNat?, lp.toNat?, parseMat? pol with
    | some Q, some P, some lq, some lp, some pol =>
      if dir == "qtop" then showRows (BasisExt.modUpQtoP Q P lq lp pol)
      else if dir == "ptoq" then showRows (BasisExt.modUpPtoQ Q P lp lq pol)
      else badOp
    | _, _, _, _, _ => badOp
  | ["moddown", dir, Q, P, lq, lp, p1Q, p1P] =>
    match parseVec? Q, parseVec? P, lq.toNat?, lp.toNat?, parseMat? p1Q, parseMat? p1P with
    | some Q, some P, some lq, some lp, some p1Q, some p1P =>
      if dir == "qptoq" then showRows (BasisExt.modDownQPtoQ Q P lq lp p1Q p1P)
      else if dir == "qptop" then showRows (BasisExt.modDownQPtoP Q P lq lp p1Q p1P)
      else badOp
    | _, _, _, _, _, _ => badOp
  | ["moddownntt", n, Q, gQ, P, gP, lq, lp, p1Q, p1P] =>
    match n.toNat?, parseVec? Q, parseVec? gQ, parseVec? P, parseVec? gP, lq.toNat?, lp.toNat?, parseMat? p1Q, parseMat? p1P with
    | some n, some Q, some gQ, some P, some gP, some lq, some lp, some p1Q, some p1P =>
      showRows (BasisExt.modDownQPtoQNTT (Scaling.mkTabs n Q gQ) (Scaling.mkTabs n P gP) Q P lq lp p1Q p1P)
    | _, _, _, _, _, _, _, _, _ => badOp
  | ["decomp", Q, P, hasP, lq, lp, nbPi, d, p0Q, prevQ] =>
    match parseVec? Q, parseVec? P, hasP.toNat?, lq.toNat?, lp.toNat?, nbPi.toNat?, d.toNat?, parseMat? p0Q, parseMat? prevQ with
    | some Q, some P, some hasP, some lq, some lp, some nbPi, some d, some p0Q, some prevQ =>
      match Decomp.decomposeAndSplit Q P (hasP != 0) lq lp nbPi d p0Q prevQ with
      | some (a, b) => s!"{showRows a}|{showRows b}"
      | none => "panic"
    | _, _, _, _, _, _, _, _, _ => badOp
  | ["decompntt", n, Q, gQ, P, gP, lq, lp, nbPi, size, isNTT, c2] =>
    match n.toNat?, parseVec? Q, parseVec? gQ, parseVec? P, parseVec? gP, lq.toNat?, lp.toNat?, nbPi.toNat?, size.toNat?, isNTT.toNat?, parseMat? c2 with
    | some n, some Q, some gQ, some P, some gP, some lq, some lp, some nbPi, some size, some isNTT, some c2 =>
      match Decomp.decomposeNTT (Scaling.mkTabs n Q gQ) (Scaling.mkTabs n P gP) Q P lq lp nbPi size (isNTT != 0) c2 with
      | some ds => "/".intercalate (ds.map fun (a, b) => s!"{showRows a}|{showRows b}")
      | none => "panic"
    | _, _, _, _, _, _, _, _, _, _, _ => badOp
  | ["mask", w, mask, p1] =>
    match w.toNat?, mask.toNat?, parseVec? p1 with
    | some w, some mask, some p1 => showVec (Decomp.maskVec w mask p1)
    | _, _, _ => badOp
  | ["extsmall", q0, P, lp, row0] =>
    match q0.toNat?, parseVec? P, lp.toNat?, parseVec? row0 with
    | some q0, some P, some lp, some row0 => showRows (BasisExt.extendSmallNorm q0 P lp row0)
    | _, _, _, _ => badOp
  | ["extsmallntt", n, q0, g0, P, gP, lp, row0] =>
    match n.toNat?, q0.toNat?, g0.toNat?, parseVec? P, parseVec? gP, lp.toNat?, parseVec? row0 with
    | some n, some q0, some g0, some P, some gP, some lp, some row0 =>
      showRows (BasisExt.extendSmallNormNTTMont (NTT.mkTables n q0 (2 * n) g0) (Scaling.mkTabs n P gP) P lp row0)
    | _, _, _, _, _, _, _ => badOp
  | ["int", "floor", qs, nb, xs] =>
    match parseVec? qs, nb.toNat?, parseVec? xs with
    | some qs, some nb, some xs => showVec (Scaling.manyFloorInt nb qs xs)
    | _, _, _ => badOp
  | ["int", "round", qs, nb, xs] =>
    match parseVec? qs, nb.toNat?, parseVec? xs with
    | some qs, some nb, some xs => showVec (Scaling.manyRoundInt nb qs xs)
    | _, _, _ => badOp
  | ["int", "hps", qs, ps, xs] =>
    match parseVec? qs, parseVec? ps, parseVec? xs with
    | some qs, some ps, some xs =>
      let ys := BasisExt.hpsY qs xs
      let v := BasisExt.hpsV qs ys
      s!"{v}|{showVec ys}|{showVec (ps.map fun p => BasisExt.hpsOut qs ys v p)}"
    | _, _, _ => badOp
  | ["int", "pow2", w, n, x] =>
    match w.toNat?, n.toNat?, x.toNat? with
    | some w, some n, some x =>
      s!"{showVec ((List.range n).map fun j => Decomp.pow2Digit w j x)}|{Decomp.pow2Recombine w n x}"
    | _, _, _ => badOp
  | _ => badOp

end Driver.C02
