import Driver.Util
import Driver.C01
import Driver.C02
import Driver.C03
import Driver.C04
import Driver.C05
import Driver.C06
import Driver.C07
import Driver.C07CKKS
import Driver.C08
import Driver.C09
import Driver.C10
import Driver.C11
import Driver.C12
import Driver.C13
import Driver.C14
import Driver.C15
import Driver.C16
import Driver.C17
import Driver.C18
import Driver.C19
import Driver.C19Gen
import Driver.C20

/-
  Model driver: reads one operation per line on stdin (`<PROP> <op> <args…>`), runs the
  executable Lean model, prints one canonical output line per input line.
  A `probe` line is a property predicate evaluated on the real code by the harness; the
  specification's answer is always `holds`.
-/
open Driver

def dispatch (toks : List String) : String :=
  match toks with
  | _ :: "probe" :: _ => "holds"
  | "C01" :: rest => C01.handle rest
  | "C02" :: rest => C02.handle rest
  | "C03" :: rest => C03.handle rest
  | "C04" :: rest => C04.handle rest
  | "C05" :: rest => C05.handle rest
  | "C06" :: rest => C06.handle rest
  | "C07" :: "ckks" :: rest => C07CKKS.handle ("ckks" :: rest)
  | "C07" :: rest => C07.handle rest
  | "C08" :: rest => C08.handle rest
  | "C09" :: rest => C09.handle rest
  | "C10" :: rest => C10.handle rest
  | "C11" :: rest => C11.handle rest
  | "C12" :: rest => C12.handle rest
  | "C13" :: rest => C13.handle rest
  | "C14" :: rest => C14.handle rest
  | "C15" :: rest => C15.handle rest
  | "C16" :: rest => C16.handle rest
  | "C17" :: rest => C17.handle rest
  | "C18" :: rest => C18.handle rest
  | "C19" :: "pgen" :: rest => C19Gen.handle rest
  | "C19" :: rest => C19.handle rest
  | "C20" :: rest => C20.handle rest
  | _ => badOp

partial def loop (h : IO.FS.Stream) (out : IO.FS.Stream) : IO Unit := do
  let line ← h.getLine
  if line.isEmpty then return ()
  let toks := (line.trimAscii.toString.splitOn " ").filter (· ≠ "")
  out.putStrLn (dispatch toks)
  loop h out

def main : IO Unit := do
  let stdin ← IO.getStdin
  let stdout ← IO.getStdout
  loop stdin stdout
