import Driver.Util
import Driver.C01

/-
  Model driver: reads one operation per line on stdin (`<PROP> <op> <args…>`), runs the
  executable Lean model, prints one canonical output line per input line.
  A `probe` line is a property predicate evaluated on the real code by the harness; the
  specification's answer is always `holds`.
-/
open Driver

def dispatch (toks : List String) : String :=
  match toks with
  | _ :: "probe" :: _ => "holds"
  | "C01" :: rest => C01.handle rest
  | _ => badOp

partial def loop (h : IO.FS.Stream) (out : IO.FS.Stream) : IO Unit := do
  let line ← h.getLine
  if line.isEmpty then return ()
  let toks := (line.trimAscii.toString.splitOn " ").filter (· ≠ "")
  out.putStrLn (dispatch toks)
  loop h out

def main : IO Unit := do
  let stdin ← IO.getStdin
  let stdout ← IO.getStdout
  loop stdin stdout
