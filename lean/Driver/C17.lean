import Driver.Util
import Lattigo.Model.SamplerSession
import Lattigo.Model.SamplerPRNG

/-
  C17 driver.  Ops (all self-contained):

    sess N=<n> Q=<chain> S=<kind;kind;…> stream=<desc> regs=<mat/mat/…> calls=<c;c;…>
        kind:  u | tp:<P float64 bits>:<mont 0|1> | th:<H>:<mont> | g:<sigma bits>:<bound bits>:<mont>
        call:  <sampler>.<level>.<r|n|a>.<register>       (Read / ReadNew / ReadAndAdd)
        out:   <matrix>@<bytes consumed so far> per call, joined by `|`, then `|exhausted` / `|panic`
               if the run stopped; `inconclusive` if a Gaussian draw left the ziggurat fast path
    qp N=<n> Q=<chain> P=<chain> stream=<desc> fill=<v> calls=<lq.lp.r|n;…>   (level `-` = −1 / nil)
        out:   <matQ>/<matP>@<consumed> per call
    ctor <P bits> <H>               NewTernarySampler accepts? `ok` / `err`
    matrix <P bits>                 computeMatrixTernary: `<invDensity bits> <row0>;<row1>`
    tables kn|wn|fn|rn              the ziggurat tables as integers / bit patterns
    fmul|fadd|fsub a b, fofnat n, ftrunc a     soft-float vs hardware (bit patterns)
    randu v mask stream=<desc>      ring.RandUniform: `<value>@<consumed>`
    randint max stream=<desc>       bignum.RandInt:  `<value>@<consumed>`
    mask q                          SubRing.Mask
    prng key=<hex> xof=<hex> ops=<o,o,…>   sampling.KeyedPRNG as (key, position); `xof` = the first
        bytes of the BLAKE2b-XOF output for `key` (the oracle); ops: r<n> Read n bytes, reset, k Key(),
        rekey (continue with NewKeyedPRNG(p.Key())).  out: `|`-joined: bytes (hex), `k:<hex>`, `.`
  stream descriptor: segments joined by `+`:  x<hex> | r<2 hex digits>*<count> | s<seed>*<count>
  (SplitMix64 bytes, little endian).
-/
namespace Driver.C17
open Driver Lattigo Lattigo.Sampler

/-! stream descriptors -/

def smBytes (seed count : Nat) : List Nat := Id.run do
  let mut s := seed
  let mut out : Array Nat := #[]
  let words := (count + 7) / 8
  for _ in [0:words] do
    s := u64add s 0x9E3779B97F4A7C15
    let z := s
    let z := u64mul (u64xor z (z >>> 30)) 0xBF58476D1CE4E5B9
    let z := u64mul (u64xor z (z >>> 27)) 0x94D049BB133111EB
    let z := u64xor z (z >>> 31)
    for k in [0:8] do
      out := out.push ((z >>> (8 * k)) % 256)
  return (out.toList.take count)

def parseSeg? (t : String) : Option (List Nat) :=
  match t.toList with
  | 'x' :: rest => parseHex? (String.ofList rest)
  | 'r' :: rest =>
    match (String.ofList rest).splitOn "*" with
    | [h, c] => do
      let b ← parseHex? h
      let n ← c.toNat?
      match b with
      | [v] => some (List.replicate n v)
      | _ => none
    | _ => none
  | 's' :: rest =>
    match (String.ofList rest).splitOn "*" with
    | [sd, c] => do
      let s ← sd.toNat?
      let n ← c.toNat?
      some (smBytes s n)
    | _ => none
  | _ => none

def parseStream? (t : String) : Option (List Nat) :=
  if t == "-" then some [] else do
    let segs ← (t.splitOn "+").mapM parseSeg?
    some segs.flatten

/-! hardware-float oracle for the `math.Log` / `math.Exp` branches (lines that use it are
    reported `inconclusive`, the values only steer the byte consumption) -/

def toF (scaled : Nat) : Float := Float.ofBits (SF.toBits64 scaled).toUInt64
def ofF (x : Float) : Nat := SF.ofBits64 x.toBits.toNat

def hwOracle : Slow where
  base u1 u2 :=
    let den := Float.ofNat 0x1fffffffffffff
    let rn := Float.ofBits Zig.rnBits.toUInt64
    let invRn := Float.ofBits Zig.invRnBits.toUInt64
    let x := (-(Float.log (Float.ofNat u1 / den))) * invRn
    let y := -(Float.log (Float.ofNat u2 / den))
    if y + y >= x * x then some (ofF (x + rn)) else none
  wedge i x u :=
    let den := Float.ofNat 0x1fffffffffffff
    let fi := Float32.ofBits (Zig.fn.getD i 0).toUInt32
    let fi1 := Float32.ofBits (Zig.fn.getD (i - 1) 0).toUInt32
    let xf := toF x
    let r32 := (Float.ofNat u / den).toFloat32
    fi + r32 * (fi1 - fi) < (Float.exp (-0.5 * xf * xf)).toFloat32

/-! parsing -/

def parseBool? (s : String) : Option Bool :=
  if s == "1" then some true else if s == "0" then some false else none

def parseKind? (t : String) : Option Kind :=
  match t.splitOn ":" with
  | ["u"] => some .uniform
  | ["tp", p, m] => do some (.ternP (← p.toNat?) (← parseBool? m))
  | ["th", h, m] => do some (.ternH (← h.toNat?) (← parseBool? m))
  | ["g", s, b, m] => do some (.gauss (← s.toNat?) (← b.toNat?) (← parseBool? m))
  | _ => none

def parseCall? (t : String) : Option Call :=
  match t.splitOn "." with
  | [s, l, o, r] => do
    let op ← match o with
      | "r" => some Op.read | "n" => some Op.readNew | "a" => some Op.readAndAdd | _ => none
    some { sampler := ← s.toNat?, level := ← l.toNat?, op := op, reg := ← r.toNat? }
  | _ => none

def parseList? {α} (f : String → Option α) (sep : String) (t : String) : Option (List α) :=
  if t == "-" then some [] else (t.splitOn sep).mapM f

def fuelFor (stream : List Nat) : Nat := 8 * stream.length + 4096

def handleSess (toks : List String) : Option String := do
  let N ← (← kv? toks "N").toNat?
  let chain ← parseVec? (← kv? toks "Q")
  let kinds ← parseList? parseKind? ";" (← kv? toks "S")
  let stream ← parseStream? (← kv? toks "stream")
  let regs ← parseList? parseMat? "/" (← kv? toks "regs")
  let calls ← parseList? parseCall? ";" (← kv? toks "calls")
  let cfg : Cfg := { N := N, chain := chain, kinds := kinds, fuel := fuelFor stream, orc := hwOracle }
  let total := stream.length
  let (outs, fin, _) := run cfg (St.init cfg stream regs) calls
  if outs.any (fun o => o.2.2) then some "inconclusive" else
  let parts := outs.map fun (p, left, _) => showMat p ++ "@" ++ toString (total - left)
  let parts := match fin with
    | .done => parts
    | .exhausted => parts ++ ["exhausted"]
    | .panic => parts ++ ["panic"]
  some ("|".intercalate parts)

/-- ringqp call: levels (`none` = −1), op -/
def parseQPCall? (t : String) : Option (Option Nat × Option Nat × Bool) :=
  match t.splitOn "." with
  | [lq, lp, o] => do
    let l1 ← if lq == "-" then some none else (lq.toNat?).map some
    let l2 ← if lp == "-" then some none else (lp.toNat?).map some
    let isNew ← match o with | "n" => some true | "r" => some false | _ => none
    some (l1, l2, isNew)
  | _ => none

def handleQP (toks : List String) : Option String := do
  let N ← (← kv? toks "N").toNat?
  let cQ ← parseVec? (← kv? toks "Q")
  let cP ← parseVec? (← kv? toks "P")
  let stream ← parseStream? (← kv? toks "stream")
  let fill ← (← kv? toks "fill").toNat?
  let calls ← parseList? parseQPCall? ";" (← kv? toks "calls")
  let fuel := fuelFor stream
  let total := stream.length
  let rec go (calls : List (Option Nat × Option Nat × Bool)) (s : Bytes) (bs : QPBufs)
      (acc : List String) : List String :=
    match calls with
    | [] => acc.reverse
    | (lq, lp, isNew) :: rest =>
      if (match lq with | some l => l ≥ cQ.length | none => false) ||
         (match lp with | some l => l ≥ cP.length | none => false) then ("panic" :: acc).reverse else
      let qsQ := lq.map fun l => cQ.take (l + 1)
      let qsP := lp.map fun l => cP.take (l + 1)
      let mk (c : List Nat) (l : Option Nat) : Poly :=
        if isNew then (match l with | some l => zeroPoly (l + 1) N | none => [])
        else List.replicate c.length (List.replicate N fill)
      match qpRead fuel qsQ qsP (mk cQ lq) (mk cP lp) s bs with
      | .ok (rQ, rP, s, bs) =>
        go rest s bs ((showMat rQ ++ "/" ++ showMat rP ++ "@" ++ toString (total - s.length)) :: acc)
      | .exhausted => ("exhausted" :: acc).reverse
      | .panic => ("panic" :: acc).reverse
  some ("|".intercalate (go calls stream { bQ := Buf.new, bP := Buf.new } []))

def handle (toks : List String) : String :=
  let r : Option String :=
    match toks with
    | "sess" :: rest => handleSess rest
    | "qp" :: rest => handleQP rest
    | ["matrix", p] => do
      let pb ← p.toNat?
      let inv := invDensity pb
      let M := probaMatrix inv
      some (toString (SF.toBits64 inv) ++ " " ++ showVec M.1 ++ ";" ++ showVec M.2)
    | ["ctor", p, h] => do
      some (if ternCtorOK (← p.toNat?) (← h.toInt?) then "ok" else "err")
    | ["tables", "kn"] => some (showVec Zig.kn.toList)
    | ["tables", "wn"] => some (showVec Zig.wn.toList)
    | ["tables", "fn"] => some (showVec Zig.fn.toList)
    | ["tables", "rn"] => some (showVec [Zig.rnBits, Zig.invRnBits])
    | ["fmul", a, b] => do some (toString (SF.toBits64 (SF.mul (SF.ofBits64 (← a.toNat?)) (SF.ofBits64 (← b.toNat?)))))
    | ["fadd", a, b] => do some (toString (SF.toBits64 (SF.add (SF.ofBits64 (← a.toNat?)) (SF.ofBits64 (← b.toNat?)))))
    | ["fsub", a, b] => do some (toString (SF.toBits64 (SF.sub (SF.ofBits64 (← a.toNat?)) (SF.ofBits64 (← b.toNat?)))))
    | ["fofnat", n] => do some (toString (SF.toBits64 (SF.ofNat (← n.toNat?))))
    | ["fof32", n] => do some (toString (SF.toBits64 (SF.ofBits32 (← n.toNat?))))
    | ["ftrunc", a] => do some (toString (SF.trunc (SF.ofBits64 (← a.toNat?))))
    | ["randu", v, mask, st] => do
      let v ← v.toNat?
      let mask ← mask.toNat?
      let stream ← parseStream? (← kv? [st] "stream")
      -- `RandUniform`: `randInt64(prng, mask)` until `< v`: 8 bytes big endian straight from the PRNG
      let rec go (fuel : Nat) (s : Bytes) : String :=
        match fuel with
        | 0 => "exhausted"
        | fuel + 1 =>
          match prngRead s 8 with
          | .ok (b, s) =>
            let w := u64and mask (beNat b)
            if w < v then toString w ++ "@" ++ toString (stream.length - s.length) else go fuel s
          | _ => "exhausted"
      some (go (fuelFor stream) stream)
    | ["randint", mx, st] => do
      let mx ← mx.toNat?
      let stream ← parseStream? (← kv? [st] "stream")
      if mx = 0 then some "panic" else
      match randInt (fuelFor stream) mx stream with
      | .ok (v, s) => some (toString v ++ "@" ++ toString (stream.length - s.length))
      | .exhausted => some "exhausted"
      | .panic => some "panic"
    | "prng" :: rest => do
      let key ← parseHex? (← kv? rest "key")
      let table ← parseHex? (← kv? rest "xof")
      let ops ← parseList? (fun (o : String) =>
        if o == "reset" then some PRNG.Op.reset
        else if o == "k" then some PRNG.Op.key
        else if o == "rekey" then some PRNG.Op.rekey
        else match o.toList with
          | 'r' :: n => (String.ofList n).toNat?.map PRNG.Op.read
          | _ => none) "," (← kv? rest "ops")
      let tab := table.toArray
      -- the oracle: the stream of `key` is the table; any other key gets a different stream
      let xof : XOF := fun k i => if k == key then tab.getD i 0 else 255 - tab.getD i 0
      let outs := PRNG.run xof (PRNG.new key) ops
      let parts := (ops.zip outs).map fun (o, b) =>
        match o with
        | .read _ => showHex b
        | .key => "k:" ++ showHex b
        | _ => "."
      some ("|".intercalate parts)
    | ["mask", q] => do some (toString (maskOf (← q.toNat?)))
    | _ => none
  r.getD badOp

end Driver.C17
