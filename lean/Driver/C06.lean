import Driver.Util
import Lattigo.Model.CKKS

/-
  C06 line protocol (all integers):
    C06 <op> <qs> <lcpr> <prec> <ci> <nthRoot> <logMaxSlots> <galEls> <rlk> <args…> <e0|e1>
  meta  = level,degree,mant,exp,logSlots      (scale = mant·2^exp, mant odd or 0)
  dy/sd = mant,exp                             (sd: signed mantissa)
  output: `level,degree,mant,exp,logSlots eff` (eff = comma list or `-`, only with e1) | err | panic
    C06 params <dy>   ⇒  `prec lcpr`
-/
namespace Driver.C06
open Driver Lattigo.CKKS

def parseDy? (s : String) : Option Dy :=
  match parseIVec? s with
  | some [m, e] => if m < 0 then none else some (Dy.norm m.toNat e)
  | _ => none

def parseSD? (s : String) : Option SD :=
  match parseIVec? s with
  | some [m, e] => some ⟨decide (m < 0), Dy.norm m.natAbs e⟩
  | _ => none

def parseMeta? (s : String) : Option Meta :=
  match parseIVec? s with
  | some [l, d, m, e, ls] =>
    if l < 0 ∨ d < 0 ∨ m < 0 ∨ ls < 0 then none
    else some ⟨l.toNat, d.toNat, Dy.norm m.toNat e, ls.toNat⟩
  | _ => none

def parseBool? (s : String) : Option Bool :=
  if s == "1" then some true else if s == "0" then some false else none

def parseAlias? (s : String) : Option Alias :=
  if s == "f" then some .fresh else if s == "0" then some .out0 else if s == "1" then some .out1 else none

def showMeta (m : Meta) : String :=
  s!"{m.level},{m.degree},{m.scale.m},{m.scale.e},{m.logSlots}"

def showR (withEff : Bool) : R → String
  | .error .err => "err"
  | .error .panic => "panic"
  | .error .oom => "oom"
  | .ok r => if withEff then showMeta r.md ++ " " ++ showIVec r.eff else showMeta r.md

def parseParams? : List String → Option (Params × List String)
  | qs :: lcpr :: prec :: ci :: nth :: lms :: gal :: rlk :: rest => do
    let qs ← parseVec? qs
    let lcpr ← parseNat? lcpr
    let prec ← parseNat? prec
    let ci ← parseBool? ci
    let nth ← parseNat? nth
    let lms ← parseNat? lms
    let gal ← parseVec? gal
    let rlk ← parseBool? rlk
    some (⟨qs, lcpr, prec, ci, nth, lms, gal, rlk⟩, rest)
  | _ => none

def parseOp? (op : String) (args : List String) : Option Op :=
  match op, args with
  | "addelt", [s, a, b, o] => do
    some (.addElt (← parseBool? s) (← parseMeta? a) (← parseMeta? b) (← parseMeta? o))
  | "addsc", [s, a, o, re, im] => do
    some (.addScalar (← parseBool? s) (← parseMeta? a) (← parseMeta? o) (← parseSD? re) (← parseSD? im))
  | "addvec", [a, o, n] => do some (.addVec (← parseMeta? a) (← parseMeta? o) (← parseNat? n))
  | "mulelt", [r, a, b, o] => do
    some (.mulElt (← parseBool? r) (← parseMeta? a) (← parseMeta? b) (← parseMeta? o))
  | "mulsc", [a, o, re, im] => do
    some (.mulScalar (← parseMeta? a) (← parseMeta? o) (← parseSD? re) (← parseSD? im))
  | "mulvec", [a, o, n] => do some (.mulVec (← parseMeta? a) (← parseMeta? o) (← parseNat? n))
  | "mtaelt", [r, al, a, b, o] => do
    some (.mtaElt (← parseBool? r) (← parseAlias? al) (← parseMeta? a) (← parseMeta? b) (← parseMeta? o))
  | "mtasc", [al, a, o, re, im] => do
    some (.mtaScalar (← parseAlias? al) (← parseMeta? a) (← parseMeta? o) (← parseSD? re) (← parseSD? im))
  | "mtavec", [al, a, o, n] => do
    some (.mtaVec (← parseAlias? al) (← parseMeta? a) (← parseMeta? o) (← parseNat? n))
  | "rescale", [a] => do some (.rescale (← parseMeta? a))
  | "rescaleto", [a, m] => do some (.rescaleTo (← parseMeta? a) (← parseDy? m))
  | "setscale", [a, t] => do some (.setScale (← parseMeta? a) (← parseDy? t))
  | "scaleup", [a, o, s] => do some (.scaleUp (← parseMeta? a) (← parseMeta? o) (← parseDy? s))
  | "droplevel", [a, n] => do some (.dropLevel (← parseMeta? a) (← parseNat? n))
  | "rotate", [k, a, o] => do some (.rotate (← parseInt? k) (← parseMeta? a) (← parseMeta? o))
  | "conj", [a, o] => do some (.conjugate (← parseMeta? a) (← parseMeta? o))
  | "relin", [a, o] => do some (.relinearize (← parseMeta? a) (← parseMeta? o))
  | _, _ => none

def handle (toks : List String) : String :=
  match toks with
  | ["params", d] =>
    match parseDy? d with
    | some d => s!"{encodingPrecision d} {levelsConsumed d}"
    | none => badOp
  | op :: rest =>
    match parseParams? rest with
    | some (P, args) =>
      match args.getLast? with
      | some e =>
        match parseOp? op args.dropLast with
        | some o => showR (e == "e1") (step P o)
        | none => badOp
      | none => badOp
    | none => badOp
  | _ => badOp

end Driver.C06
