import Driver.Util
import Lattigo.Model.MPShare

/-
  C14 line protocol.  `v` vector, `iv` signed vector, `M` matrix (rows joined by `;`), `IM` matrix of
  signed rows.  A ring is `<qs:v> <ps:v> <n>`; a polynomial over it is the matrix of its canonical
  rows q_0…q_L,p_0…p_K; several polynomials are concatenated row-wise.
  Conjugate-invariant ring Z[X+X⁻¹]/(X^2N+1): the harness writes every element UNFOLDED in the standard
  ring of degree 2N (`c_i = a_i`, `c_{2N−i} = −a_i`, `c_N = 0`; `n = 2N` on the line), a subring in which
  products are negacyclic and `X ↦ X^g` acts modulo NthRoot = 4N = 2n — the same model applies unchanged.
  `G` (gadget share / key) = `<levelQ> <levelP> <base2> <shape:v> <deg+1> <rows:M>` (polys in order i,j,k).
  `T` (aggregation tree) = postfix, comma separated: `0,1,+,2,+`.

    cpk_share R <a:M> <s:iv> <e:iv>                        → M
    cpk_key <agg:M> <a:M>                                  → M|M
    agg <ms:v> T <k> <sh_1:M> … <sh_k:M>                   → M        (component-wise, no validation)
    evk_share R <skInLvl> <skOutLvl> <skInLvlP> <skOutLvlP> <sIn:iv> <sOut:iv> <crpShape:v> <crp:M> <e:IM> <lq> <lp> <b2> <shape:v>
                                                           → err | panic | M
    evk_agg R G1 G2 G3                                     → err | panic | M
    evk_aggtree R T <k> G_1 … G_k                          → err | panic | M
    evk_key R G <crpShape:v> <crp:M> G                     → err | panic | M
    gal_share R <skLvl> <bufLvl> <skLvlP> <bufLvlP> <s:iv> <galEl> <crpShape:v> <crp:M> <e:IM> <lq> <lp> <b2> <shape:v>
                                                           → err | panic | g M
    gal_agg R g G g G g G   /  gal_aggtree R T <k> (g G)…  → err | panic | g M
    gal_key R g G <crpShape:v> <crp:M> g G                 → err | panic | g M
    rkg_r1 R <b2> <shape:v> <crp:M> <s:iv> <u:iv> <e0:IM> <e1:IM>   → M
    rkg_r2 R <shape:v> <r1agg:M> <s:iv> <u:iv> <e2:IM>     → M
    rkg_key R <shape:v> <r1:M> <r2:M>                      → M
    crs <n> <k> (<qs:v> <ps:v> <count>)×k <stream:hex>     → M|…|M <next 8 CRS bytes, big endian>
        the k SampleCRP calls in sequence from position 0 of the stream (raw sampled words)
-/
namespace Driver.C14
open Driver Lattigo Lattigo.MP

def parseIMat? (s : String) : Option (List (List Int)) :=
  if s == "-" then some [] else (s.splitOn ";").mapM parseIVec?

def chunk {β : Type} (k : Nat) (l : List β) : List (List β) :=
  if k = 0 then [] else
  let rec go (fuel : Nat) (l : List β) (acc : List (List β)) : List (List β) :=
    match fuel with
    | 0 => acc.reverse
    | fuel + 1 => if l.isEmpty then acc.reverse else go fuel (l.drop k) (l.take k :: acc)
  go (l.length + 1) l []

/-- arrange a flat list along a shape -/
def unflatten {β : Type} (shape : List Nat) (l : List β) : List (List β) :=
  (shape.foldl (fun (acc : List (List β) × List β) k => (acc.1 ++ [acc.2.take k], acc.2.drop k)) ([], l)).1

def polysOf (ms : List Nat) (rows : List (List Nat)) : List RPoly :=
  (chunk ms.length rows).map fun r => ⟨ms, r⟩

def rowsOf (m : List RPoly) : List (List Nat) := m.flatMap (·.c)

def showCube (v : Mat (List RPoly)) : String := showMat (rowsOf (v.flatten.flatten))

def parseTree? (s : String) : Option AggTree :=
  let step (st : Option (List AggTree)) (tok : String) : Option (List AggTree) := do
    let st ← st
    if tok == "+" then
      match st with
      | r :: l :: rest => some (AggTree.node l r :: rest)
      | _ => none
    else some (AggTree.leaf (← tok.toNat?) :: st)
  match (s.splitOn ",").foldl step (some []) with
  | some [t] => some t
  | _ => none

/-- moduli of a share at its own levels, inside the line's ring -/
def msAt (qs ps : List Nat) (lq : Nat) (lp : Int) : List Nat :=
  qs.take (lq + 1) ++ ps.take (lp + 1).toNat

/-- six tokens → gadget share; returns the rest -/
def parseG? (qs ps : List Nat) : List String → Option (GShare RPoly × List String)
  | lq :: lp :: b2 :: shape :: k :: rows :: rest => do
      let lq ← lq.toNat?
      let lp ← lp.toInt?
      let b2 ← b2.toNat?
      let shape ← parseVec? shape
      let k ← k.toNat?
      let rows ← parseMat? rows
      let ms := msAt qs ps lq lp
      let polys := polysOf ms rows
      let entries := chunk k polys
      some (⟨lq, lp, b2, unflatten shape entries⟩, rest)
  | _ => none

def zeroLike (g : GShare RPoly) : GShare RPoly :=
  { g with val := g.val.map fun r => r.map fun e => e.map fun p => RPoly.zero p.qs (p.c.headD []).length }

def showRes (r : Res (GShare RPoly)) : String :=
  match r with
  | .ok g => showCube g.val
  | .err => "err"
  | .panic => "panic"

def showGalRes (r : Res (GalShare RPoly)) : String :=
  match r with
  | .ok g => toString g.galEl ++ " " ++ showCube g.sh.val
  | .err => "err"
  | .panic => "panic"

def parseGal? (qs ps : List Nat) : List String → Option (GalShare RPoly × List String)
  | g :: rest => do
      let g ← g.toNat?
      let (sh, rest) ← parseG? qs ps rest
      some (⟨g, sh⟩, rest)
  | _ => none

def parseMany? {β : Type} (p : List String → Option (β × List String)) : Nat → List String → Option (List β × List String)
  | 0, rest => some ([], rest)
  | k + 1, toks => do
      let (x, rest) ← p toks
      let (xs, rest) ← parseMany? p k rest
      some (x :: xs, rest)

def errPolys (ms : List Nat) (shape : List Nat) (e : List (List Int)) : Mat RPoly :=
  unflatten shape (e.map (RPoly.ofInts ms))

/-- an allocated share: only levels and shape matter -/
def allocShare (ms : List Nat) (n lq : Nat) (lp : Int) (b2 : Nat) (shape : List Nat) : GShare RPoly :=
  ⟨lq, lp, b2, shape.map fun k => (List.range k).map fun _ => [RPoly.zero ms n]⟩

def handleOpt (toks : List String) : Option String :=
  match toks with
  | ["cpk_share", qs, ps, _n, a, s, e] => do
      let ms := (← parseVec? qs) ++ (← parseVec? ps)
      let a : RPoly := ⟨ms, ← parseMat? a⟩
      let s := RPoly.ofInts ms (← parseIVec? s)
      let e := RPoly.ofInts ms (← parseIVec? e)
      some (showMat (cpkShare a s e).c)
  | ["cpk_key", agg, a] => do
      let agg ← parseMat? agg
      let a ← parseMat? a
      let pk := genPublicKey agg a
      some (showMat pk.1 ++ "|" ++ showMat pk.2)
  | "agg" :: ms :: tree :: k :: rest => do
      let ms ← parseVec? ms
      let tree ← parseTree? tree
      let k ← k.toNat?
      let shs ← rest.mapM parseMat?
      if shs.length ≠ k ∨ ms.isEmpty then none
      let polys : List RPoly := shs.map fun rows =>
        ⟨(List.range rows.length).map fun i => ms[i % ms.length]!, rows⟩
      if tree.leaves.any (· ≥ k) then none
      some (showMat (tree.eval (· + ·) (fun i => polys[i]!)).c)
  | ["evk_share", qs, ps, n, skInLvl, skOutLvl, skInLvlP, skOutLvlP, sIn, sOut, crpShape, crp, e, lq, lp, b2, shape] => do
      let qs ← parseVec? qs
      let ps ← parseVec? ps
      let n ← n.toNat?
      let ms := qs ++ ps
      let crpShape ← parseVec? crpShape
      let crp := unflatten crpShape (polysOf ms (← parseMat? crp))
      let e := errPolys ms crpShape (← parseIMat? e)
      let out := allocShare ms n (← lq.toNat?) (← lp.toInt?) (← b2.toNat?) (← parseVec? shape)
      let w := gadgetWs qs ps n out.base2 crpShape
      some (showRes (evkGenShare (← skInLvl.toNat?) (← skOutLvl.toNat?) (← skInLvlP.toInt?) (← skOutLvlP.toInt?)
        (RPoly.ofInts ms (← parseIVec? sIn)) (RPoly.ofInts ms (← parseIVec? sOut)) crp w e out))
  | "evk_agg" :: qs :: ps :: _n :: rest => do
      let qs ← parseVec? qs
      let ps ← parseVec? ps
      let (g1, rest) ← parseG? qs ps rest
      let (g2, rest) ← parseG? qs ps rest
      let (g3, rest) ← parseG? qs ps rest
      if !rest.isEmpty then none
      some (showRes (evkAggregate g1 g2 g3))
  | "evk_aggtree" :: qs :: ps :: _n :: tree :: k :: rest => do
      let qs ← parseVec? qs
      let ps ← parseVec? ps
      let tree ← parseTree? tree
      let k ← k.toNat?
      let (gs, rest) ← parseMany? (parseG? qs ps) k rest
      if !rest.isEmpty ∨ tree.leaves.any (· ≥ k) ∨ k = 0 then none
      let d := gs.headD ⟨0, 0, 0, []⟩
      some (showRes (tree.evalM (fun x y => evkAggregate x y (zeroLike x)) (fun i => gs.getD i d)))
  | "evk_key" :: qs :: ps :: _n :: rest => do
      let qs ← parseVec? qs
      let ps ← parseVec? ps
      let (sh, rest) ← parseG? qs ps rest
      match rest with
      | crpShape :: crp :: rest =>
        let crpShape ← parseVec? crpShape
        let crp := unflatten crpShape (polysOf (msAt qs ps sh.levelQ sh.levelP) (← parseMat? crp))
        let (evk, rest) ← parseG? qs ps rest
        if !rest.isEmpty then none
        some (showRes (genEvaluationKey sh crp evk))
      | _ => none
  | ["gal_share", qs, ps, n, skLvl, bufLvl, skLvlP, bufLvlP, s, galEl, crpShape, crp, e, lq, lp, b2, shape] => do
      let qs ← parseVec? qs
      let ps ← parseVec? ps
      let n ← n.toNat?
      let ms := qs ++ ps
      let galEl ← galEl.toNat?
      let crpShape ← parseVec? crpShape
      let crp := unflatten crpShape (polysOf ms (← parseMat? crp))
      let e := errPolys ms crpShape (← parseIMat? e)
      let out := allocShare ms n (← lq.toNat?) (← lp.toInt?) (← b2.toNat?) (← parseVec? shape)
      let w := gadgetWs qs ps n out.base2 crpShape
      let ginv := galInv galEl n
      some (showGalRes (galGenShare (fun p => RPoly.aut p ginv) (← skLvl.toNat?) (← bufLvl.toNat?)
        (← skLvlP.toInt?) (← bufLvlP.toInt?) (RPoly.ofInts ms (← parseIVec? s)) galEl crp w e ⟨0, out⟩))
  | "gal_agg" :: qs :: ps :: _n :: rest => do
      let qs ← parseVec? qs
      let ps ← parseVec? ps
      let (g1, rest) ← parseGal? qs ps rest
      let (g2, rest) ← parseGal? qs ps rest
      let (g3, rest) ← parseGal? qs ps rest
      if !rest.isEmpty then none
      some (showGalRes (galAggregate g1 g2 g3))
  | "gal_aggtree" :: qs :: ps :: _n :: tree :: k :: rest => do
      let qs ← parseVec? qs
      let ps ← parseVec? ps
      let tree ← parseTree? tree
      let k ← k.toNat?
      let (gs, rest) ← parseMany? (parseGal? qs ps) k rest
      if !rest.isEmpty ∨ tree.leaves.any (· ≥ k) ∨ k = 0 then none
      let d := gs.headD ⟨0, ⟨0, 0, 0, []⟩⟩
      some (showGalRes (tree.evalM (fun x y => galAggregate x y ⟨0, zeroLike x.sh⟩) (fun i => gs.getD i d)))
  | "gal_key" :: qs :: ps :: _n :: rest => do
      let qs ← parseVec? qs
      let ps ← parseVec? ps
      let (sh, rest) ← parseGal? qs ps rest
      match rest with
      | crpShape :: crp :: rest =>
        let crpShape ← parseVec? crpShape
        let crp := unflatten crpShape (polysOf (msAt qs ps sh.sh.levelQ sh.sh.levelP) (← parseMat? crp))
        let (gk, rest) ← parseGal? qs ps rest
        if !rest.isEmpty then none
        some (showGalRes (genGaloisKey sh crp gk))
      | _ => none
  | ["rkg_r1", qs, ps, n, b2, shape, crp, s, u, e0, e1] => do
      let qs ← parseVec? qs
      let ps ← parseVec? ps
      let n ← n.toNat?
      let b2 ← b2.toNat?
      let ms := qs ++ ps
      let shape ← parseVec? shape
      let crp := unflatten shape (polysOf ms (← parseMat? crp))
      let e0 := errPolys ms shape (← parseIMat? e0)
      let e1 := errPolys ms shape (← parseIMat? e1)
      let e := List.zipWith List.zip e0 e1
      let w := gadgetWs qs ps n b2 shape
      let out := allocShare ms n (qs.length - 1) ((ps.length : Int) - 1) b2 shape
      some (showCube (rkgRoundOne (RPoly.ofInts ms (← parseIVec? s)) (RPoly.ofInts ms (← parseIVec? u)) crp w e out).val)
  | ["rkg_r2", qs, ps, n, shape, r1, s, u, e2] => do
      let qs ← parseVec? qs
      let ps ← parseVec? ps
      let n ← n.toNat?
      let ms := qs ++ ps
      let shape ← parseVec? shape
      let r1v := unflatten shape (chunk 2 (polysOf ms (← parseMat? r1)))
      let e2 := errPolys ms shape (← parseIMat? e2)
      let out := allocShare ms n (qs.length - 1) ((ps.length : Int) - 1) 0 shape
      let round1 : GShare RPoly := { out with val := r1v }
      some (showCube (rkgRoundTwo (RPoly.ofInts ms (← parseIVec? s)) (RPoly.ofInts ms (← parseIVec? u)) round1 e2 out).val)
  | ["rkg_key", qs, ps, _n, shape, r1, r2] => do
      let qs ← parseVec? qs
      let ps ← parseVec? ps
      let ms := qs ++ ps
      let shape ← parseVec? shape
      let r1v := unflatten shape (chunk 2 (polysOf ms (← parseMat? r1)))
      let r2v := unflatten shape (chunk 1 (polysOf ms (← parseMat? r2)))
      let g1 : GShare RPoly := ⟨qs.length - 1, (ps.length : Int) - 1, 0, r1v⟩
      let g2 : GShare RPoly := ⟨qs.length - 1, (ps.length : Int) - 1, 0, r2v⟩
      some (showCube (genRelinKey g1 g2).val)
  | "crs" :: n :: k :: rest => do
      let n ← n.toNat?
      let k ← k.toNat?
      let rec reqs : Nat → List String → Option (List CRPRequest × List String)
        | 0, r => some ([], r)
        | k + 1, qs :: ps :: cnt :: r => do
            let (rs, r) ← reqs k r
            some (⟨← parseVec? qs, ← parseVec? ps, n, ← cnt.toNat?⟩ :: rs, r)
        | _, _ => none
      let (rs, rest) ← reqs k rest
      match rest with
      | [hex] =>
        let bytes ← parseHex? hex
        match runCRS rs bytes with
        | .ok (polys, rest) =>
          some ("|".intercalate (polys.flatten.map showMat) ++ " " ++ toString (Sampler.beNat (rest.take 8)))
        | _ => some "err"
      | _ => none
  | _ => none

def handle (toks : List String) : String := (handleOpt toks).getD badOp

end Driver.C14
