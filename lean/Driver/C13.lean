import Driver.Util
import Lattigo.Model.PolyEval
import Lattigo.Model.ParamsGen

/-
  C13 line protocol.
    split <n>                         → a b                     (SplitDegree)
    optsplit <logDegree>              → logSplit                (bignum.OptimalSplit)
    depth <degree>                    → Depth()                 (bignum.Polynomial.Depth)
    factorize <cheb 0|1> <n> <coeffs> → q r                     (bignum.Polynomial.Factorize)
    eval t= q= slots= cheb= lazy= lvl= scale= tscale= x= map=<a,b|c,d>|- (P <coeffs>)+
                                      → tr=<trace> st=<status> [lvl= scale= vals= ps=]
    eval-ckks-lazy …                  same as eval (ckks, Lazy = true): needs the ckks MulThenAdd fix C06-6/7
    genpower t= q= slots= cheb= lvl= scale= x= n= lazy=  → tr= st= pb=<k:level:degree,…> [val=]  (GenPower on a fresh basis)
    normiters <num> <den>             → steps of inverse.IntervalNormalization for log2max = num/den
    chebeval <a> <b> <x> <coeffs>     → bignum.Polynomial.Evaluate, Chebyshev basis on [a, b] (integral change of basis)
    cob slots= map= iv=<a:b|a:b>      → PolynomialVector.ChangeOfBasis: per-slot 8·scalar ; 8·constant
    optional token pf=<oe,oe,…> (vectors): raw IsOdd/IsEven of every polynomial
    optional tokens of eval: inv=0|1 (bgv.Evaluator.ScaleInvariant), odd=0|1 even=0|1 (IsOdd/IsEven as
    set by the user), pre=<op,op,…>|- : EvaluateFromPowerBasis on a basis the caller filled with
    g<n> / g<n>l (GenPower(n, lazy=false/true)), f<n>:<level>:<scale> (fresh encryption of x^n), d<n> (delete X^n)
-/
namespace Driver.C13
open Driver
open Lattigo.Model.PolyEval

def parsePolys : List String → Option (List (List Int))
  | [] => some []
  | "P" :: c :: rest => do
    let c ← parseIVec? c
    let r ← parsePolys rest
    some (c :: r)
  | _ => none

def parseMap (s : String) : Option (Option (List (List Nat))) :=
  if s == "-" then some none
  else ((s.splitOn "|").mapM parseVec?).map some

def parsePre (s : String) : Option (List PreOp) :=
  if s == "-" then some []
  else (s.splitOn ",").mapM fun e =>
    match e.toList with
    | 'g' :: body =>
      if body.getLast? == some 'l' then (parseNat? (String.ofList body.dropLast)).map fun n => PreOp.gen n true
      else (parseNat? (String.ofList body)).map fun n => PreOp.gen n false
    | 'd' :: body => (parseNat? (String.ofList body)).map fun n => PreOp.del n
    | 'f' :: body =>
      match (String.ofList body).splitOn ":" with
      | [n, l, sc] => do
        let n ← parseNat? n
        let l ← parseNat? l
        let sc ← parseNat? sc
        some (PreOp.fresh n l sc)
      | _ => none
    | _ => none

def flag (toks : List String) (k : String) (dflt : Bool) : Bool :=
  match kv? toks k with
  | some "1" => true
  | some "0" => false
  | _ => dflt

def evalLine (toks : List String) : Option String := do
  let t ← (kv? toks "t") >>= parseNat?
  let q ← (kv? toks "q") >>= parseVec?
  let slots ← (kv? toks "slots") >>= parseNat?
  let cheb ← (kv? toks "cheb") >>= parseNat?
  let lazy ← (kv? toks "lazy") >>= parseNat?
  let lvl ← (kv? toks "lvl") >>= parseNat?
  let scale ← (kv? toks "scale") >>= parseNat?
  let tscale ← (kv? toks "tscale") >>= parseNat?
  let x ← (kv? toks "x") >>= parseIVec?
  let mapping ← (kv? toks "map") >>= parseMap
  let polys ← parsePolys (toks.dropWhile (· != "P"))
  -- pf=<oe,oe,…>: the raw (IsOdd, IsEven) flags of each polynomial of a vector; the vector's flags are `vecFlags`
  let pflags : List (Bool × Bool) := match kv? toks "pf" with
    | some s => (s.splitOn ",").map fun e => (e.toList.getD 0 '1' == '1', e.toList.getD 1 '1' == '1')
    | none => []
  let odd := if pflags.isEmpty then flag toks "odd" true else (vecFlags pflags).1
  let even := if pflags.isEmpty then flag toks "even" true else (vecFlags pflags).2
  let env : Env := { t := t, q := q, cheb := cheb == 1, slots := slots, inv := flag toks "inv" false,
                     odd := odd, even := even, pflags := pflags }
  let xin := if t = 0 then List.replicate slots 0 else x
  let (tr, st, o) ← match kv? toks "pre" with
    | none => some (run env polys mapping (lazy == 1) lvl scale tscale xin)
    | some ps => (parsePre ps).map fun pre => runFrom env pre polys mapping (lazy == 1) lvl scale tscale xin
  let trs := if tr.isEmpty then "-" else ";".intercalate tr
  match o with
  | none => some s!"tr={trs} st={st}"
  | some o =>
    if t = 0 then some s!"tr={trs} st={st} lvl={o.level} val=ok"
    else
      -- layer (A): Paterson–Stockmeyer recursion on values, per slot
      let deg := (polys.headD []).length - 1
      let logSplit := optimalSplit (bitLen deg)
      let ps := (List.range slots).map fun j =>
        let poly : List Int := match mapping with
          | none => polys.headD []
          | some m => (m.zip polys).foldl (fun acc mc => if mc.1.contains j then mc.2 else acc) []
        (psRec intOps (cheb == 1) logSplit (x.getD j 0) (deg + 2) poly) % (t : Int)
      -- under user-set flags the machine's values stand for themselves (layer (A) is flagless)
      let ps := if odd && even then ps else o.val
      some s!"tr={trs} st={st} lvl={o.level} scale={o.scale} vals={showIVec o.val} ps={showIVec ps}"

/-- `genpower t= q= slots= cheb= lvl= scale= x= n= lazy=`: PowerBasis.GenPower(n, lazy) on a fresh basis →
    `tr= st= pb=<k:level:degree,…> [val=<slot values of X^n>]` -/
def genLine (toks : List String) : Option String := do
  let t ← (kv? toks "t") >>= parseNat?
  let q ← (kv? toks "q") >>= parseVec?
  let slots ← (kv? toks "slots") >>= parseNat?
  let cheb ← (kv? toks "cheb") >>= parseNat?
  let lazy ← (kv? toks "lazy") >>= parseNat?
  let lvl ← (kv? toks "lvl") >>= parseNat?
  let scale ← (kv? toks "scale") >>= parseNat?
  let n ← (kv? toks "n") >>= parseNat?
  let x ← (kv? toks "x") >>= parseIVec?
  let env : Env := { t := t, q := q, cheb := cheb == 1, slots := slots }
  let xin := if t = 0 then List.replicate slots 0 else x
  let (tr, st, pb) := runGen env n (lazy == 1) lvl scale xin
  let trs := if tr.isEmpty then "-" else ";".intercalate tr
  let pbs := ",".intercalate (pb.map fun e => s!"{e.1}:{e.2.level}:{e.2.deg}")
  let val := match pb.find? (·.1 == n) with
    | some e => if t = 0 || st != "ok" then "" else s!" val={showIVec e.2.val}"
    | none => ""
  some s!"tr={trs} st={st} pb={pbs}{val}"

def cobLine (toks : List String) : Option String := do
  let slots ← (kv? toks "slots") >>= parseNat?
  let m ← (kv? toks "map") >>= parseMap
  let ivs ← ((← kv? toks "iv").splitOn "|").mapM fun e =>
    match e.splitOn ":" with
    | [a, b] => do some ((← parseInt? a), (← parseInt? b))
    | _ => none
  let (s8, c8) := changeOfBasisVec8 slots (m.getD []) ivs
  some s!"{showIVec s8};{showIVec c8}"

def handle (toks : List String) : String :=
  match toks with
  | ["split", n] =>
    match parseNat? n with
    | some n =>
      -- executes the definition REGENERATED from power_basis.go (Gen/PolySplit.lean via Model/ParamsGen.lean)
      match Lattigo.Model.ParamsGen.splitDegree (n : Int) with
      | some (a, b) => s!"{a} {b}"
      | none => "panic"
    | none => badOp
  | ["optsplit", n] =>
    match parseNat? n with
    | some n =>
      -- regenerated from utils/bignum/polynomial.go; logDegree = 0 is `1 << -1` in Go (panic)
      match Lattigo.Model.ParamsGen.optimalSplit (n : Int) with
      | some s => toString s
      | none => "panic"
    | none => badOp
  | ["depth", n] =>
    match parseNat? n with
    | some n => toString (depthCheck n)
    | none => badOp
  | ["factorize", cheb, n, cs] =>
    match parseNat? cheb, parseNat? n, parseIVec? cs with
    | some cheb, some n, some cs =>
      if factorizeGuard n cs.length then "panic" else
      let (q, r) := factorize intOps (cheb == 1) n cs
      s!"{showIVec q} {showIVec r}"
    | _, _, _ => badOp
  | ["normiters", num, den] =>
    match parseNat? num, parseNat? den with
    | some num, some den => toString (normIters num den)
    | _, _ => badOp
  | ["chebeval", a, b, x, cs] =>
    match parseInt? a, parseInt? b, parseInt? x, parseIVec? cs with
    | some a, some b, some x, some cs => toString (chebEval a b x cs)
    | _, _, _, _ => badOp
  | "cob" :: rest => (cobLine rest).getD badOp
  | "genpower" :: rest => (genLine rest).getD badOp
  | "eval" :: rest => (evalLine rest).getD badOp
  | "eval-ckks-lazy" :: rest => (evalLine rest).getD badOp   -- depends on the ckks MulThenAdd fix (C06-6/7)
  | _ => badOp

end Driver.C13
