import Driver.Util
import Lattigo.Model.PolyEval

/-
  C13 line protocol.
    split <n>                         → a b                     (SplitDegree)
    optsplit <logDegree>              → logSplit                (bignum.OptimalSplit)
    depth <degree>                    → Depth()                 (bignum.Polynomial.Depth)
    factorize <cheb 0|1> <n> <coeffs> → q r                     (bignum.Polynomial.Factorize)
    eval t= q= slots= cheb= lazy= lvl= scale= tscale= x= map=<a,b|c,d>|- (P <coeffs>)+
                                      → tr=<trace> st=<status> [lvl= scale= vals= ps=]
    eval-ckks-lazy …                  same as eval (ckks, Lazy = true): needs the ckks MulThenAdd fix C06-6/7
-/
namespace Driver.C13
open Driver
open Lattigo.Model.PolyEval

def parsePolys : List String → Option (List (List Int))
  | [] => some []
  | "P" :: c :: rest => do
    let c ← parseIVec? c
    let r ← parsePolys rest
    some (c :: r)
  | _ => none

def parseMap (s : String) : Option (Option (List (List Nat))) :=
  if s == "-" then some none
  else ((s.splitOn "|").mapM parseVec?).map some

def evalLine (toks : List String) : Option String := do
  let t ← (kv? toks "t") >>= parseNat?
  let q ← (kv? toks "q") >>= parseVec?
  let slots ← (kv? toks "slots") >>= parseNat?
  let cheb ← (kv? toks "cheb") >>= parseNat?
  let lazy ← (kv? toks "lazy") >>= parseNat?
  let lvl ← (kv? toks "lvl") >>= parseNat?
  let scale ← (kv? toks "scale") >>= parseNat?
  let tscale ← (kv? toks "tscale") >>= parseNat?
  let x ← (kv? toks "x") >>= parseIVec?
  let mapping ← (kv? toks "map") >>= parseMap
  let polys ← parsePolys (toks.dropWhile (· != "P"))
  let env : Env := { t := t, q := q, cheb := cheb == 1, slots := slots }
  let (tr, st, o) := run env polys mapping (lazy == 1) lvl scale tscale (if t = 0 then List.replicate slots 0 else x)
  let trs := if tr.isEmpty then "-" else ";".intercalate tr
  match o with
  | none => some s!"tr={trs} st={st}"
  | some o =>
    if t = 0 then some s!"tr={trs} st={st} lvl={o.level} val=ok"
    else
      -- layer (A): Paterson–Stockmeyer recursion on values, per slot
      let deg := (polys.headD []).length - 1
      let logSplit := optimalSplit (bitLen deg)
      let ps := (List.range slots).map fun j =>
        let poly : List Int := match mapping with
          | none => polys.headD []
          | some m => (m.zip polys).foldl (fun acc mc => if mc.1.contains j then mc.2 else acc) []
        (psRec intOps (cheb == 1) logSplit (x.getD j 0) (deg + 2) poly) % (t : Int)
      some s!"tr={trs} st={st} lvl={o.level} scale={o.scale} vals={showIVec o.val} ps={showIVec ps}"

def handle (toks : List String) : String :=
  match toks with
  | ["split", n] =>
    match parseNat? n with
    | some n => let (a, b) := splitDegree n; s!"{a} {b}"
    | none => badOp
  | ["optsplit", n] =>
    match parseNat? n with
    | some n => if n = 0 then "panic" else toString (optimalSplit n)   -- 1 << -1
    | none => badOp
  | ["depth", n] =>
    match parseNat? n with
    | some n => toString (depthCheck n)
    | none => badOp
  | ["factorize", cheb, n, cs] =>
    match parseNat? cheb, parseNat? n, parseIVec? cs with
    | some cheb, some n, some cs =>
      if factorizeGuard n cs.length then "panic" else
      let (q, r) := factorize intOps (cheb == 1) n cs
      s!"{showIVec q} {showIVec r}"
    | _, _, _ => badOp
  | "eval" :: rest => (evalLine rest).getD badOp
  | "eval-ckks-lazy" :: rest => (evalLine rest).getD badOp   -- depends on the ckks MulThenAdd fix (C06-6/7)
  | _ => badOp

end Driver.C13
