import Driver.Util
import Lattigo.Model.BGV

/-
  C05 line protocol (harness/c05.go):

    step t=<t> qs=<q0,..> n=<slots> si=<0|1> rlk=<0|1> op=<name> out=<new|inp|inp1|into:REG> a=REG b=ARG
        ⇒ REG | REG REG | err | outside
    match t=<t> s0=<s0> s1=<s1>  ⇒  r0 r1

  REG = level/degree/scale/v0,v1,…  with v the DECODED slots (message) at the recorded scale.
  ARG = r:REG | self | big:<int> | u64:<n> | i64:<n> | int:<n> | vu:<vec> | vi:<ivec> | k:<n> | none
-/
namespace Driver.C05
open Driver Lattigo.BGV

def parseReg? (t : Nat) (s : String) : Option Reg :=
  match s.splitOn "/" with
  | [l, d, sc, v] => do
    let l ← parseNat? l
    let d ← parseNat? d
    let sc ← parseNat? sc
    let v ← parseVec? v
    pure (Reg.ofDecoded t l d sc v)
  | _ => none

def showReg (t : Nat) (r : Reg) : String :=
  s!"{r.level}/{r.degree}/{r.scale}/{showVec (val t r)}"

def splitTag (s : String) : String × String :=
  match s.splitOn ":" with
  | tag :: rest => (tag, ":".intercalate rest)
  | [] => ("", "")

def parseArg? (t : Nat) (s : String) : Option Arg :=
  let (tag, body) := splitTag s
  match tag with
  | "r" => (parseReg? t body).map Arg.reg
  | "self" => some Arg.self
  | "big" => (parseInt? body).map Arg.big
  | "u64" => (parseNat? body).map Arg.u64
  | "i64" => (parseInt? body).map Arg.i64
  | "int" => (parseInt? body).map Arg.int
  | "vu" => (parseVec? body).map Arg.vu
  | "vi" => (parseIVec? body).map Arg.vi
  | "k" => (parseNat? body).map Arg.k
  | "none" => some Arg.none
  | _ => none

def parseOut? (t : Nat) (s : String) : Option Out :=
  let (tag, body) := splitTag s
  match tag with
  | "new" => some Out.new
  | "inp" => some Out.inp
  | "into" => (parseReg? t body).map Out.into
  | _ => none

def parseOp? : String → Option Op
  | "add" => some .add | "sub" => some .sub | "mul" => some .mul | "mulrelin" => some .mulRelin
  | "mulsi" => some .mulSI | "mulrelinsi" => some .mulRelinSI | "mta" => some .mta | "mrta" => some .mrta
  | "rescale" => some .rescale | "relin" => some .relin | "drop" => some .drop | "match" => some .matchSL
  | _ => none

def handleStep (toks : List String) : Option String := do
  let t ← (kv? toks "t").bind parseNat?
  let qs ← (kv? toks "qs").bind parseVec?
  let n ← (kv? toks "n").bind parseNat?
  let si ← (kv? toks "si").bind parseNat?
  let rlk ← (kv? toks "rlk").bind parseNat?
  let op ← (kv? toks "op").bind parseOp?
  let a ← (kv? toks "a").bind (parseReg? t)
  let b ← (kv? toks "b").bind (parseArg? t)
  -- `inp1`: the receiver is the second operand (a register)
  let o ← match kv? toks "out", b with
    | some "inp1", .reg rb => some (Out.into rb)
    | some "inp1", _ => none
    | some s, _ => parseOut? t s
    | none, _ => none
  let c : Cfg := { t := t, qs := qs, n := n, si := si == 1, rlk := rlk == 1 }
  match step c op o a b with
  | .ok rs => pure (" ".intercalate (rs.map (showReg t)))
  | .error .err => pure "err"
  | .error .outside => pure "outside"

def handleMatch (toks : List String) : Option String := do
  let t ← (kv? toks "t").bind parseNat?
  let s0 ← (kv? toks "s0").bind parseNat?
  let s1 ← (kv? toks "s1").bind parseNat?
  let (r0, r1) := matchScales t s0 s1
  pure s!"{r0} {r1}"

def handle (toks : List String) : String :=
  match toks with
  | "step" :: rest => (handleStep rest).getD badOp
  | "match" :: rest => (handleMatch rest).getD badOp
  | _ => badOp

end Driver.C05
