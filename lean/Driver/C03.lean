import Driver.Util
import Lattigo.Model.RLWE

/-
  Line-protocol handler of property C03 (encryption / decryption / key generation).
  Every line carries `n= ci= q= p= maxl=` (and an informative `xe=`) followed by op-specific `key=value` tokens; polynomials
  are matrices of canonical rows (coefficient domain, Montgomery factor kept), lists of polynomials are
  joined by `|`.

    gensk  draw=                                   -> skq= skp=
    genpk  aq= ap= e= skq= skp=                    -> pk0q= pk0p= pk1q= pk1p=
    enc    key=sk|pk|none deg= lc= cntt= cmont= cmeta= old= haspt=0|1 [lp= pntt= pmont= pmeta= pt=]
           sk: a= e0= skq= skp=     pk: u= e0= e1= pk0q= pk0p= pk1q= pk1p=
                                                   -> ok lvl= ntt= mont= meta= ct=  | err | panic
    dec    lc= lpt= ntt= mont= meta= ct= skq= skp= -> ok lvl= ntt= mont= meta= pt=  | panic
    accept be2= bs2=                               -> accepted | rejected   (distribution bounds vs Q[0], fix C03-10)
-/
namespace Driver.C03
open Driver Lattigo Lattigo.RLWE

structure Hdr where
  n : Nat
  ci : Bool
  q : List Nat
  p : List Nat
  maxl : Nat

def getNat (toks : List String) (k : String) : Option Nat := (kv? toks k).bind (·.toNat?)
def getBool (toks : List String) (k : String) : Option Bool := (getNat toks k).map (· != 0)
def getVec (toks : List String) (k : String) : Option (List Nat) := (kv? toks k).bind parseVec?
def getMat (toks : List String) (k : String) : Option (List (List Nat)) := (kv? toks k).bind parseMat?

def parseHdr (toks : List String) : Option Hdr := do
  let n ← getNat toks "n"
  let ci ← getBool toks "ci"
  let q ← getVec toks "q"
  let p ← getVec toks "p"
  let maxl ← getNat toks "maxl"
  some { n, ci, q, p, maxl }

/-- a polynomial whose rows are the first rows of the chain `qs` -/
def mkRQ (ci : Bool) (qs : List Nat) (m : List (List Nat)) : RQ :=
  ⟨ci, { qs := qs.take m.length, c := m }⟩

def getQ (h : Hdr) (toks : List String) (k : String) : Option RQ := (getMat toks k).map (mkRQ h.ci h.q)
def getP (h : Hdr) (toks : List String) (k : String) : Option RQ := (getMat toks k).map (mkRQ h.ci h.p)

def parsePolys (h : Hdr) (s : String) : Option (List RQ) :=
  (s.splitOn "|").mapM fun t => (parseMat? t).map (mkRQ h.ci h.q)

def showPolys (l : List RQ) : String := "|".intercalate (l.map fun x => showMat x.p.c)

def b2s (b : Bool) : String := if b then "1" else "0"

def zeroRQ (h : Hdr) (l : Nat) : RQ := ⟨h.ci, RPoly.zero (h.q.take (l + 1)) h.n⟩

def handleGenSk (h : Hdr) (toks : List String) : Option String := do
  let draw ← getQ h toks "draw"
  let sk : RQ := genSecretKey RQ.mont (RQ.extSmall h.p) draw
  let nQ := draw.p.c.length
  some s!"skq={showMat (sk.p.c.take nQ)} skp={showMat (sk.p.c.drop nQ)}"

def handleGenPk (h : Hdr) (toks : List String) : Option String := do
  let aq ← getQ h toks "aq"
  let ap ← getP h toks "ap"
  let e ← getQ h toks "e"
  let skq ← getQ h toks "skq"
  let skp ← getP h toks "skp"
  let (c0, c1) := genPublicKey RQ.mont (RQ.extSmall h.p) (RQ.joinQP aq ap) e (RQ.joinQP skq skp)
  let nQ := aq.p.c.length
  some (s!"pk0q={showMat (c0.p.c.take nQ)} pk0p={showMat (c0.p.c.drop nQ)} " ++
        s!"pk1q={showMat (c1.p.c.take nQ)} pk1p={showMat (c1.p.c.drop nQ)}")

def handleEnc (h : Hdr) (toks : List String) : Option String := do
  let keyS ← kv? toks "key"
  let lc ← getNat toks "lc"
  let cntt ← getBool toks "cntt"
  let cmont ← getBool toks "cmont"
  let cmeta ← kv? toks "cmeta"
  let old ← (kv? toks "old").bind (parsePolys h)
  let haspt ← getBool toks "haspt"
  let ct : Ct RQ String := { value := old, md := { pt := cmeta, isNTT := cntt, isMont := cmont } }
  let (pt, lp) ← if haspt then do
      let lp ← getNat toks "lp"
      let pntt ← getBool toks "pntt"
      let pmont ← getBool toks "pmont"
      let pmeta ← kv? toks "pmeta"
      let v ← getQ h toks "pt"
      some (some ({ value := v, md := { pt := pmeta, isNTT := pntt, isMont := pmont } } : Pt RQ String), some lp)
    else some (none, none)
  let level := match lp with
    | some lp => min lp lc
    | none => lc
  let z := zeroRQ h level
  let (key, draws) ← match keyS with
    | "none" => some (RQ.Key.none, ({ a := z, u := z, e0 := z, e1 := z } : RQ.Draws))
    | "sk" => do
        let a ← getQ h toks "a"
        let e0 ← getQ h toks "e0"
        let skq ← getQ h toks "skq"
        some (RQ.Key.sk skq, { a := a, u := z, e0 := e0, e1 := z })
    | "pk" => do
        let u ← getQ h toks "u"
        let e0 ← getQ h toks "e0"
        let e1 ← getQ h toks "e1"
        let pk0q ← getQ h toks "pk0q"
        let pk0p ← getP h toks "pk0p"
        let pk1q ← getQ h toks "pk1q"
        let pk1p ← getP h toks "pk1p"
        some (RQ.Key.pk pk0q pk0p pk1q pk1p, { a := z, u := u, e0 := e0, e1 := e1 })
    | _ => none
  match RQ.encryptAt key (!h.p.isEmpty) (h.p.headD 1) lc lp draws pt ct with
  | .err => some "err"
  | .panic => some "panic"
  | .ok (l, r) =>
    some s!"ok lvl={l} ntt={b2s r.md.isNTT} mont={b2s r.md.isMont} meta={r.md.pt} ct={showPolys r.value}"

def handleDec (h : Hdr) (toks : List String) : Option String := do
  let lc ← getNat toks "lc"
  let lpt ← getNat toks "lpt"
  let ntt ← getBool toks "ntt"
  let mont ← getBool toks "mont"
  let md ← kv? toks "meta"
  let cts ← (kv? toks "ct").bind (parsePolys h)
  let skq ← getQ h toks "skq"
  let ct : Ct RQ String := { value := cts, md := { pt := md, isNTT := ntt, isMont := mont } }
  match RQ.decryptAt skq lc lpt ct with
  | .err => some "err"
  | .panic => some "panic"
  | .ok (l, r) =>
    some s!"ok lvl={l} ntt={b2s r.md.isNTT} mont={b2s r.md.isMont} meta={r.md.pt} pt={showMat r.value.p.c}"

/-- `accept be2= bs2=`: does `NewParameters` accept distributions with these (doubled, floored) bounds on the
    chain `q`, `p` of the header? -/
def handleAccept (h : Hdr) (toks : List String) : Option String := do
  let be2 ← getNat toks "be2"
  let bs2 ← getNat toks "bs2"
  some (if RQ.acceptsBounds (h.q.headD 0) (!h.p.isEmpty) be2 bs2 then "accepted" else "rejected")

def handle (toks : List String) : String :=
  match toks with
  | op :: rest =>
    match parseHdr rest with
    | none => badOp
    | some h =>
      let r := match op with
        | "gensk" => handleGenSk h rest
        | "genpk" => handleGenPk h rest
        | "enc" => handleEnc h rest
        | "dec" => handleDec h rest
        | "accept" => handleAccept h rest
        | _ => none
      r.getD badOp
  | _ => badOp

end Driver.C03
