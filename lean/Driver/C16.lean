import Driver.Util
import Lattigo.Model.MPSwitch

/-
  C16 line protocol (`v` vector, `iv` signed vector, `M` matrix of canonical rows).

    cks_share <qs:v> <n> <c1:M> <sIn:iv> <sOut:iv> <e:iv>                 → M
    cks_agg <qs:v> <l1> <M1> <l2> <M2> <l3> <M3>                          → err | M
    cks_ks <qs:v> <ctLevel> <c0:M> <c1:M> <aggLevel> <agg:M> <recvLevel>  → panic | <outLevel> M|M
        (the receiver, allocated at `recvLevel`, is resized to the input's level)
    agg <ms:v> T <k> <sh_1:M> … <sh_k:M>                                  → M   (component-wise)
    pcks_share <qs:v> <p0|-> <n> <lvl> <pk0:M> <pk1:M> <u:iv> <e0:iv> <e1:iv> <c1:M> <s:iv> <e:iv>  → M|M
    pcks_ks <qs:v> <ctLevel> <c0:M> <h0:M> <h1:M> <recvLevel>             → <outLevel> M|M
    bgv_e2s <qs:v> <n> <t> <c1:M> <s:iv> <e:iv> <mask:v>                  → M
    bgv_get <qs:v> <n> <t> <nT> <agg:M> <c0:M> <secret:v|->               → v
    bgv_s2e <qs:v> <n> <t> <a:M> <s:iv> <e:iv> <share:v>                  → M
    bgv_fin <qsIn:v> <qsOut:v> <n> <t> <nT> <aggE2S:M> <c0:M> <aggS2E:M> <a:M> <f:v>   → v|M|M
        the masked plaintext (reduced mod t), then the output ct built from `f` = the (transformed)
        masked plaintext as stored by the code (words of `RingQ2T` may lie in [t, 2t))
    ckks_e2s <qs:v> <n> <gap> <c1:M> <s:iv> <e:iv> <mask:iv>              → M
    ckks_get <qs:v> <n> <gap> <cnt> <agg:M> <c0:M>                        → iv
    ckks_s2e <qs:v> <n> <gap> <a:M> <s:iv> <e:iv> <share:iv>              → M
    ckks_scale <defaultScale> <inputScale> <mask:iv>                      → iv
    ckks_minlevel <lambda> <scale:nat> <nParties> <moduli:v>              → <minLevel> <logBound> <ok>
        GetMinimumLevelForRefresh in exact integer arithmetic
    ckks_nowrap <lambda> <scale:nat> <nParties> <moduli:v> <msgBits>      → <minLevel> <logBound> <ok> <nowrap>
        nowrap = [2·(nParties·2^(logBound−1) + 2^msgBits) < Q_minLevel]
    ckks_fin <qsIn:v> <qsOut:v> <n> <gap> <cnt> <aggE2S:M> <c0:M> <aggS2E:M> <a:M> <defaultScale> <inputScale>  → iv|M|M
-/
namespace Driver.C16
open Driver Lattigo Lattigo.MP

def parseTree? (s : String) : Option AggTree :=
  let step (st : Option (List AggTree)) (tok : String) : Option (List AggTree) := do
    let st ← st
    if tok == "+" then
      match st with
      | r :: l :: rest => some (AggTree.node l r :: rest)
      | _ => none
    else some (AggTree.leaf (← tok.toNat?) :: st)
  match (s.splitOn ",").foldl step (some []) with
  | some [t] => some t
  | _ => none

def poly (qs : List Nat) (rows : List (List Nat)) : RPoly := ⟨qs, rows⟩

def zeroOf (qs : List Nat) (n : Nat) : RPoly := RPoly.zero qs n

def handleOpt (toks : List String) : Option String :=
  match toks with
  | ["cks_share", qs, _n, c1, sIn, sOut, e] => do
      let qs ← parseVec? qs
      let c1 := poly qs (← parseMat? c1)
      some (showMat (cksShare c1 (RPoly.ofInts qs (← parseIVec? sIn)) (RPoly.ofInts qs (← parseIVec? sOut))
        (RPoly.ofInts qs (← parseIVec? e))).c)
  | ["cks_agg", qs, l1, m1, l2, m2, l3, m3] => do
      let qs ← parseVec? qs
      let mk (l : Nat) (m : List (List Nat)) : LShare RPoly := ⟨l, poly (qs.take (l + 1)) m⟩
      match cksAggregate (mk (← l1.toNat?) (← parseMat? m1)) (mk (← l2.toNat?) (← parseMat? m2))
          (mk (← l3.toNat?) (← parseMat? m3)) with
      | .ok r => some (showMat r.v.c)
      | .err => some "err"
      | .panic => some "panic"
  | ["cks_ks", qs, ctLevel, c0, c1, aggLevel, agg, recvLevel] => do
      let recvLevel ← recvLevel.toNat?
      let qs ← parseVec? qs
      let ctLevel ← ctLevel.toNat?
      let aggLevel ← aggLevel.toNat?
      let aggP : RPoly := poly (qs.take (aggLevel + 1)) (← parseMat? agg)
      match cksKeySwitch ctLevel (poly qs (← parseMat? c0)) (poly qs (← parseMat? c1)) ⟨aggLevel, aggP⟩ with
      | .ok (a, b) => some (toString (ksOutLevel ctLevel recvLevel) ++ " " ++ showMat a.c ++ "|" ++ showMat b.c)
      | .err => some "err"
      | .panic => some "panic"
  | "agg" :: ms :: tree :: k :: rest => do
      let ms ← parseVec? ms
      let tree ← parseTree? tree
      let k ← k.toNat?
      let shs ← rest.mapM parseMat?
      if shs.length ≠ k ∨ ms.isEmpty then none
      let polys : List RPoly := shs.map fun rows =>
        ⟨(List.range rows.length).map fun i => ms[i % ms.length]!, rows⟩
      if tree.leaves.any (· ≥ k) then none
      some (showMat (tree.eval (· + ·) (fun i => polys[i]!)).c)
  | ["pcks_share", qs, p0, n, lvl, pk0, pk1, u, e0, e1, c1, s, e] => do
      let qs ← parseVec? qs
      let n ← n.toNat?
      let lvl ← lvl.toNat?
      let u ← parseIVec? u
      let e0 ← parseIVec? e0
      let e1 ← parseIVec? e1
      let pk0 ← parseMat? pk0
      let pk1 ← parseMat? pk1
      let z : RPoly × RPoly ←
        if p0 == "-" then
          some (encZeroPkNoP (poly qs pk0) (poly qs pk1) (RPoly.ofInts qs u) (RPoly.ofInts qs e0) (RPoly.ofInts qs e1))
        else do
          let p ← p0.toNat?
          let ms := qs ++ [p]
          -- u·pk + e over Q·p₀, then the division by p₀ on the rows of Q
          let x0 := RPoly.ofInts ms u * poly ms pk0 + RPoly.ofInts ms e0
          let x1 := RPoly.ofInts ms u * poly ms pk1 + RPoly.ofInts ms e1
          let k := qs.length
          some (encZeroPk (pinvPoly qs p n) (dropRow (poly ms pk0) k) (dropRow (poly ms pk1) k)
            (RPoly.ofInts qs u) (RPoly.ofInts qs e0) (RPoly.ofInts qs e1) (centredLiftP qs p x0) (centredLiftP qs p x1))
      -- the ciphertext part only touches the rows up to min(share level, ct level)
      let ql := qs.take (lvl + 1)
      let low := pcksShare (dropRow z.1 (lvl + 1), dropRow z.2 (lvl + 1)) (poly ql (← parseMat? c1))
        (RPoly.ofInts ql (← parseIVec? s)) (RPoly.ofInts ql (← parseIVec? e))
      some (showMat (low.1.c ++ z.1.c.drop (lvl + 1)) ++ "|" ++ showMat z.2.c)
  | ["pcks_ks", qs, ctLevel, c0, h0, h1, recvLevel] => do
      let qs ← parseVec? qs
      let r := pcksKeySwitch (poly qs (← parseMat? c0)) (poly qs (← parseMat? h0), poly qs (← parseMat? h1))
      some (toString (ksOutLevel (← ctLevel.toNat?) (← recvLevel.toNat?)) ++ " " ++ showMat r.1.c ++ "|" ++ showMat r.2.c)
  | ["bgv_e2s", qs, n, t, c1, s, e, mask] => do
      let qs ← parseVec? qs
      let n ← n.toNat?
      let t ← t.toNat?
      let m := ringT2Q qs n t (← parseVec? mask)
      some (showMat (e2sShare (zeroOf qs n) (poly qs (← parseMat? c1)) (RPoly.ofInts qs (← parseIVec? s))
        (RPoly.ofInts qs (← parseIVec? e)) m).c)
  | ["bgv_get", qs, _n, t, nT, agg, c0, secret] => do
      let qs ← parseVec? qs
      let t ← t.toNat?
      let nT ← nT.toNat?
      let masked := ringQ2T t nT (e2sMasked (poly qs (← parseMat? c0)) (poly qs (← parseMat? agg)))
      if secret == "-" then some (showVec masked)
      else some (showVec (addT t (← parseVec? secret) masked))
  | ["bgv_s2e", qs, n, t, a, s, e, share] => do
      let qs ← parseVec? qs
      let n ← n.toNat?
      let t ← t.toNat?
      let m := ringT2Q qs n t (← parseVec? share)
      some (showMat (s2eShare (zeroOf qs n) (poly qs (← parseMat? a)) (RPoly.ofInts qs (← parseIVec? s))
        (RPoly.ofInts qs (← parseIVec? e)) m).c)
  | ["bgv_fin", qsIn, qsOut, n, t, nT, aggE2S, c0, aggS2E, a, f] => do
      let qsIn ← parseVec? qsIn
      let qsOut ← parseVec? qsOut
      let n ← n.toNat?
      let t ← t.toNat?
      let nT ← nT.toNat?
      let masked := ringQ2T t nT (e2sMasked (poly qsIn (← parseMat? c0)) (poly qsIn (← parseMat? aggE2S)))
      let f ← parseVec? f
      let ct := refreshFinalize (ringT2Q qsOut n t f) (poly qsOut (← parseMat? aggS2E)) (poly qsOut (← parseMat? a))
      some (showVec masked ++ "|" ++ showMat ct.1.c ++ "|" ++ showMat ct.2.c)
  | ["ckks_e2s", qs, n, gap, c1, s, e, mask] => do
      let qs ← parseVec? qs
      let n ← n.toNat?
      let gap ← gap.toNat?
      let m := ofBigints qs n gap (← parseIVec? mask)
      some (showMat (e2sShare (zeroOf qs n) (poly qs (← parseMat? c1)) (RPoly.ofInts qs (← parseIVec? s))
        (RPoly.ofInts qs (← parseIVec? e)) m).c)
  | ["ckks_get", qs, _n, gap, cnt, agg, c0] => do
      let qs ← parseVec? qs
      let gap ← gap.toNat?
      let cnt ← cnt.toNat?
      some (showIVec (toBigints (e2sMasked (poly qs (← parseMat? c0)) (poly qs (← parseMat? agg))) gap cnt))
  | ["ckks_s2e", qs, n, gap, a, s, e, share] => do
      let qs ← parseVec? qs
      let n ← n.toNat?
      let gap ← gap.toNat?
      let m := ofBigints qs n gap (← parseIVec? share)
      some (showMat (s2eShare (zeroOf qs n) (poly qs (← parseMat? a)) (RPoly.ofInts qs (← parseIVec? s))
        (RPoly.ofInts qs (← parseIVec? e)) m).c)
  | ["ckks_scale", ds, is, mask] => do
      some (showIVec (rescaleMask (← ds.toInt?) (← is.toInt?) (← parseIVec? mask)))
  | ["ckks_fin", qsIn, qsOut, n, gap, cnt, aggE2S, c0, aggS2E, a, ds, is] => do
      let qsIn ← parseVec? qsIn
      let qsOut ← parseVec? qsOut
      let n ← n.toNat?
      let gap ← gap.toNat?
      let cnt ← cnt.toNat?
      let masked := toBigints (e2sMasked (poly qsIn (← parseMat? c0)) (poly qsIn (← parseMat? aggE2S))) gap cnt
      let scaled := rescaleMask (← ds.toInt?) (← is.toInt?) masked
      let ct := refreshFinalize (ofBigints qsOut n gap scaled) (poly qsOut (← parseMat? aggS2E)) (poly qsOut (← parseMat? a))
      some (showIVec masked ++ "|" ++ showMat ct.1.c ++ "|" ++ showMat ct.2.c)
  | ["ckks_minlevel", lambda, scale, nParties, moduli] => do
      match minLevelForRefresh (← lambda.toNat?) (← scale.toNat?) (← nParties.toNat?) (← parseVec? moduli) with
      | some (l, lb) => some (toString l ++ " " ++ toString lb ++ " 1")
      | none => some "0 0 0"
  | ["ckks_nowrap", lambda, scale, nParties, moduli, msgBits] => do
      match noWrapAtMinLevel (← lambda.toNat?) (← scale.toNat?) (← nParties.toNat?) (← parseVec? moduli) (← msgBits.toNat?) with
      | some (l, lb, b) => some (toString l ++ " " ++ toString lb ++ " 1 " ++ (if b then "1" else "0"))
      | none => some "0 0 0 0"
  | _ => none

def handle (toks : List String) : String := (handleOpt toks).getD badOp

end Driver.C16
