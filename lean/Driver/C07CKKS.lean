import Driver.Util
import Driver.C06
import Lattigo.Model.EncoderC

/-
  CKKS half of the C07 line protocol (first token after the property id is `ckks`):
    ckks encslot <N> <ci> <qs> <P> <scale dy> <slots> <re sd> <im sd>   ⇒ centred coefficients (N ints)
    ckks enccoef <N> <qs> <P> <scale dy> <v0;v1;…  (sd each)>            ⇒ centred coefficients (N ints)
    ckks fixedpoint <P> <scale dy> <x sd> <qs>                          ⇒ residues mod q_i (P = 53: float64 path)
    ckks decodecoef <P> <scale dy> <c>                                  ⇒ mant,exp of round_P(round_P(c)/scale)
    ckks encpoly <N> <ci> <qs> <slots> <re ints> <im ints>               ⇒ centred coefficients (N ints)
    ckks rotgroup <m>                                                   ⇒ table
    ckks bitrev <bits> <i>                                              ⇒ index
    ckks roundprec <num> <den> <logprec>                                ⇒ k
-/
namespace Driver.C07CKKS
open Driver Lattigo.CKKS Lattigo.EncoderC

def bigQ (qs : List Nat) : Nat := qs.foldl (· * ·) 1

def center (qs : List Nat) (v : List Int) : String :=
  let Q := bigQ qs
  showIVec (v.map fun c => centerMod c Q)

def handle (toks : List String) : String :=
  match toks with
  | ["ckks", "encslot", n, ci, qs, p, sc, slots, re, im] =>
    match parseNat? n, C06.parseBool? ci, parseVec? qs, parseNat? p, C06.parseDy? sc, parseNat? slots,
          C06.parseSD? re, C06.parseSD? im with
    | some n, some ci, some qs, some p, some sc, some slots, some re, some im =>
      center qs (encodeConst n ci p sc slots re im)
    | _, _, _, _, _, _, _, _ => badOp
  | ["ckks", "enccoef", n, qs, p, sc, vals] =>
    match parseNat? n, parseVec? qs, parseNat? p, C06.parseDy? sc, (vals.splitOn ";").mapM C06.parseSD? with
    | some n, some qs, some p, some sc, some vals => center qs (encodeCoeffs n p sc vals)
    | _, _, _, _, _ => badOp
  | ["ckks", "encpoly", n, ci, qs, slots, re, im] =>
    match parseNat? n, C06.parseBool? ci, parseVec? qs, parseNat? slots, parseIVec? re, parseIVec? im with
    | some n, some ci, some qs, some slots, some re, some im => center qs (encodePoly n ci slots re im)
    | _, _, _, _, _, _ => badOp
  | ["ckks", "fixedpoint", p, sc, x, qs] =>
    match parseNat? p, C06.parseDy? sc, C06.parseSD? x, parseVec? qs with
    | some p, some sc, some x, some qs =>
      showVec (if p == 53 then toRNS (singleFloat64 x sc) qs else fixedPointRNS p x sc qs)
    | _, _, _, _ => badOp
  | ["ckks", "decodecoef", p, sc, cf] =>
    match parseNat? p, C06.parseDy? sc, parseInt? cf with
    | some p, some sc, some cf =>
      let r := decodeFP p cf sc
      if r.mag.m = 0 then "0,0" else s!"{if r.neg then "-" else ""}{r.mag.m},{r.mag.e}"
    | _, _, _ => badOp
  | ["ckks", "rotgroup", m] =>
    match parseNat? m with
    | some m => showVec (rotGroup m)
    | none => badOp
  | ["ckks", "bitrev", b, i] =>
    match parseNat? b, parseNat? i with
    | some b, some i => toString (bitRev b i)
    | _, _ => badOp
  | ["ckks", "roundprec", num, den, lp] =>
    match parseInt? num, parseNat? den, parseNat? lp with
    | some num, some den, some lp => toString (roundToPrec num den lp)
    | _, _, _ => badOp
  | _ => badOp

end Driver.C07CKKS
