/-
  Line-protocol helpers for the model driver (core-only).
  Numbers are decimal; a vector is `a,b,c` (`-` = empty); a matrix is rows joined by `;`.
-/
namespace Driver

def parseNat? (s : String) : Option Nat := s.toNat?

def parseInt? (s : String) : Option Int := s.toInt?

def parseVec? (s : String) : Option (List Nat) :=
  if s == "-" then some [] else (s.splitOn ",").mapM (·.toNat?)

def parseIVec? (s : String) : Option (List Int) :=
  if s == "-" then some [] else (s.splitOn ",").mapM (·.toInt?)

def parseMat? (s : String) : Option (List (List Nat)) :=
  if s == "-" then some [] else (s.splitOn ";").mapM parseVec?

def showVec (v : List Nat) : String :=
  if v.isEmpty then "-" else ",".intercalate (v.map toString)

def showIVec (v : List Int) : String :=
  if v.isEmpty then "-" else ",".intercalate (v.map toString)

def showMat (m : List (List Nat)) : String :=
  if m.isEmpty then "-" else ";".intercalate (m.map showVec)

def hexDigit? (c : Char) : Option Nat :=
  if '0' ≤ c ∧ c ≤ '9' then some (c.toNat - '0'.toNat)
  else if 'a' ≤ c ∧ c ≤ 'f' then some (c.toNat - 'a'.toNat + 10)
  else none

/-- bytes from lowercase hex (`-` = empty) -/
def parseHex? (s : String) : Option (List Nat) :=
  if s == "-" then some [] else
  let rec go : List Char → List Nat → Option (List Nat)
    | [], acc => some acc.reverse
    | [_], _ => none
    | a :: b :: rest, acc => do
        let x ← hexDigit? a
        let y ← hexDigit? b
        go rest ((16 * x + y) :: acc)
  go s.toList []

def hexOf (n : Nat) : Char := if n < 10 then Char.ofNat (48 + n) else Char.ofNat (87 + n)

def showHex (b : List Nat) : String :=
  if b.isEmpty then "-" else String.ofList (b.flatMap fun x => [hexOf (x / 16 % 16), hexOf (x % 16)])

/-- `key=value` lookup in a token list. -/
def kv? (toks : List String) (key : String) : Option String :=
  toks.findSome? fun t =>
    match t.splitOn "=" with
    | k :: rest => if k == key && !rest.isEmpty then some ("=".intercalate rest) else none
    | _ => none

def badOp : String := "bad-op"

end Driver
