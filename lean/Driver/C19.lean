import Driver.Util
import Lattigo.Model.Params

/-
  C19 line protocol (all tokens after the op name are `key=value`; vectors `a,b,c`, `-` = empty
  slice, `nil` = nil slice):

    isprime n=<u64>                                    → 0|1
    overlap dir=<u|d> size=<S> c=<u64>                 → 0|1          (the generator's float tests)
    gen dir=<0|1|2> bits=<S> root=<NthRoot> k=<count>  → ok <vec> | err | hang
    genmoduli root=<LogNthRoot> logQ=<ivec> logP=<ivec>→ ok Q=<vec> P=<vec> | err:<cls> | panic | hang
    rlwe_new logN= root= rt= Q= P= LogQ= LogP= xs=<def|H:h> xe=<def|G:s>
                                                       → accept Q= P= nthroot= | err:<cls> | panic | hang
    rlwe_direct logN= rt= Q= P=                        → rlwe.NewParameters called directly: accept … | err:<cls>
    ckks_new  (same keys) lds=<LogDefaultScale>        → idem, plus err:logDefaultScale
    bgv_new logN= rt= Q= P= t=                         → accept nT= slots= logslots= qmul= | err:<cls>
    derived logN= rt= Q= P= lds= ks=<ivec> is=<b:n;…> tr=<ivec>
    accessors logN= rt= Q= P= ws=<vec>                 → qim= pim= brns= maxbit= b2= logqi= logpi= qlvl= counts= maxlevels=
    codec_keys type=<rlweLit|btp|btpLit> <fields>        → keys=<JSON keys in emission order> [nulls=] [xs= xe= it=]
    scale_json value=<nat> mod=<u64>                     → value=<Text('e',39)> mod=<Text('e',39)> as Scale.MarshalJSON writes them
    exported name= logN= xsH= Q= P=                    → bitQ= bitP= bitQP= kind= table= within= strict= known=
    table logN= kind=                                  → <T> | none
-/
namespace Driver.C19
open Driver Lattigo Lattigo.Params

def optVec? (s : String) : Option (Option (List Nat)) :=
  if s == "nil" then some none else (parseVec? s).map some

def optIVec? (s : String) : Option (Option (List Int)) :=
  if s == "nil" then some none else (parseIVec? s).map some

def showRes {α} (f : α → String) : Res α → String
  | .ok a => f a
  | .err c => "err:" ++ c
  | .panic => "panic"
  | .hang => "hang"

def b2s (b : Bool) : String := if b then "1" else "0"

/-- `xs=def | H:<h>`: weight 0 iff `H:0` (Ternary{H:0,P:0}) -/
def xsWeight0? (s : String) : Option Bool :=
  if s == "def" then some false
  else match s.splitOn ":" with
    | ["H", h] => h.toNat?.map (· == 0)
    | _ => none

/-- `xe=def | G:<sigma>`: std ≤ 0 iff sigma = 0 -/
def xeStd0? (s : String) : Option Bool :=
  if s == "def" then some false
  else match s.splitOn ":" with
    | ["G", h] => h.toNat?.map (· == 0)
    | _ => none

def parseLiteral? (toks : List String) : Option Literal := do
  let logN ← (← kv? toks "logN").toInt?
  let root ← (← kv? toks "root").toInt?
  let rt ← (← kv? toks "rt").toNat?
  let q ← optVec? (← kv? toks "Q")
  let p ← optVec? (← kv? toks "P")
  let lq ← optIVec? (← kv? toks "LogQ")
  let lp ← optIVec? (← kv? toks "LogP")
  let xs ← xsWeight0? (← kv? toks "xs")
  let xe ← xeStd0? (← kv? toks "xe")
  some { logN := logN, logNthRoot := root, q := q, p := p, logQ := lq, logP := lp,
         ringType := rt, xsWeight0 := xs, xeStd0 := xe }

def showAccepted (a : Accepted) : String :=
  s!"accept Q={showVec a.q} P={showVec a.p} nthroot={a.nthRoot}"

def parseAccepted? (toks : List String) : Option Accepted := do
  let logN ← (← kv? toks "logN").toNat?
  let rt ← (← kv? toks "rt").toNat?
  let q ← parseVec? (← kv? toks "Q")
  let p ← parseVec? (← kv? toks "P")
  some { logN := logN, q := q, p := p, ringType := rt }

def parsePairs? (s : String) : Option (List (Int × Int)) :=
  if s == "-" then some [] else
  (s.splitOn ";").mapM fun t =>
    match t.splitOn ":" with
    | [a, b] => do some (← a.toInt?, ← b.toInt?)
    | _ => none

def handleDerived (toks : List String) : Option String := do
  let a ← parseAccepted? toks
  let lds ← (← kv? toks "lds").toInt?
  let ks ← parseIVec? (← kv? toks "ks")
  let is ← parsePairs? (← kv? toks "is")
  let tr ← parseVec? (← kv? toks "tr")
  let gal := ks.map a.galoisElement
  let galInv := gal.map a.modInvGaloisElement
  let isum := is.map fun (b, n) => showVec (a.galoisInnerSum b n)
  let rep := is.map fun (b, n) => showVec (a.galoisInnerSum (-b) n)
  let trs := tr.map fun l => showVec (if a.ringType = 0 then a.galoisTrace l else [])
  some (s!"N={a.n} nthroot={a.nthRoot} lognthroot={a.logNthRoot} maxlevel={a.maxLevel} " ++
    s!"maxlevelP={a.maxLevelP} qcount={a.q.length} pcount={a.p.length} " ++
    s!"slots={a.ckksMaxSlots} logslots={a.ckksLogMaxSlots} depth={a.ckksMaxDepth lds} " ++
    s!"bitQ={len64 a.qProd} bitP={if a.p.isEmpty then 0 else len64 a.pProd} " ++
    s!"gal={showVec gal} galinv={showVec galInv} " ++
    s!"isum={";".intercalate isum} rep={";".intercalate rep} tr={";".intercalate trs}")

def showIRows (rows : List (List Int)) : String :=
  if rows.isEmpty then "-" else ";".intercalate (rows.map showIVec)

/-- every level-dependent accessor at every level (see harness/c19_derived.go) -/
def handleAccessors (toks : List String) : Option String := do
  let a ← parseAccepted? toks
  let ws ← parseVec? (← kv? toks "ws")
  let nq := a.q.length
  let np := a.p.length
  let lps : List Int := (List.range (np + 1)).map fun i => Int.ofNat i - 1    -- -1 … np-1
  let qim := (List.range nq).map a.qiOverflowMargin
  let pim := lps.map a.piOverflowMargin
  let brns := (List.range nq).map fun lq => lps.map fun lp => (baseRNSDecompositionVectorSize lq lp : Int)
  let maxbit := (List.range nq).map fun lq => lps.map fun lp => (a.maxBit lq lp : Int)
  let b2 := ws.flatMap fun w => ([-1, 0, 1] : List Int).map fun lp =>
    (a.baseTwoDecompositionVectorSize lp w).map Int.ofNat
  let logqi := a.q.map roundLog2
  let logpi := a.p.map roundLog2
  let qlvl := (List.range nq).map a.logQLvl
  some (s!"qim={showIVec qim} pim={showIVec pim} brns={showIRows brns} maxbit={showIRows maxbit} " ++
    s!"b2={showIRows b2} logqi={showVec logqi} logpi={showVec logpi} qlvl={showVec qlvl} " ++
    s!"counts={nq},{np},{nq + np} maxlevels={a.maxLevel},{a.maxLevel},{a.maxLevelP}")

/-! codec field lists (`codec_keys`) -/

def showNames (l : List String) : String := if l.isEmpty then "-" else ",".intercalate l

def parseDist? (s : String) : Option (Option Dist) :=
  if s == "nil" then some none
  else if s == "U" then some (some .uniform)
  else match s.splitOn ":" with
    | ["T", p, h] => do some (some (.ternary (← p.toNat?) (← h.toInt?)))
    | ["G", a, b] => do some (some (.gaussian (← a.toNat?) (← b.toNat?)))
    | _ => none

def parsePtr? (s : String) : Option (Option Int) := if s == "nil" then some none else s.toInt?.map some

def parseIter? (s : String) : Option (Option Iter) :=
  if s == "nil" then some none
  else match s.splitOn ":" with
    | [pr, r] => do
      let r ← r.toInt?
      if pr == "nil" then some (some { precision := none, reserved := r })
      else some (some { precision := some (List.replicate (← pr.toNat?) 1), reserved := r })
    | _ => none

def parseRows? (s : String) : Option (Option (List (List Int))) :=
  if s == "nil" then some none
  else if s == "-" then some (some [])
  else ((s.splitOn ";").mapM parseIVec?).map some

def handleCodecKeys (toks : List String) : Option String := do
  let ty ← kv? toks "type"
  if ty == "rlweLit" then
    let logN ← (← kv? toks "logN").toInt?
    let root ← (← kv? toks "root").toInt?
    let q ← optVec? (← kv? toks "Q")
    let p ← optVec? (← kv? toks "P")
    let logQ ← optIVec? (← kv? toks "LogQ")
    let logP ← optIVec? (← kv? toks "LogP")
    let xe ← parseDist? (← kv? toks "xe")
    let xs ← parseDist? (← kv? toks "xs")
    let rt ← (← kv? toks "rt").toNat?
    let ntt := (← kv? toks "ntt") == "1"
    let o := encodeRlweLit ⟨logN, root, q, p, logQ, logP, xe, xs, rt, 0, ntt⟩
    some s!"keys={showNames (keyNames o)} xs={showNames (subKeys (o.get .Xs))} xe={showNames (subKeys (o.get .Xe))}"
  else if ty == "btp" then
    let it ← parseIter? (← kv? toks "it")
    let eph ← (← kv? toks "eph").toInt?
    let co ← (← kv? toks "co").toInt?
    let o := encodeBtp ⟨1, 2, 3, 4, 5, it, eph, co⟩
    some s!"keys={showNames (keyNames o)} nulls={showNames (nullKeys o)} it={showNames (subKeys (o.get .IterationsParameters))}"
  else if ty == "btpLit" then
    let logN ← parsePtr? (← kv? toks "logN")
    let logP ← optIVec? (← kv? toks "logP")
    let xs ← parseDist? (← kv? toks "xs")
    let xe ← parseDist? (← kv? toks "xe")
    let logSlots ← parsePtr? (← kv? toks "logSlots")
    let c2s ← parseRows? (← kv? toks "c2s")
    let s2c ← parseRows? (← kv? toks "s2c")
    let ev ← parsePtr? (← kv? toks "ev")
    let eph ← parsePtr? (← kv? toks "eph")
    let it ← parseIter? (← kv? toks "it")
    let m1t ← (← kv? toks "m1t").toInt?
    let lmr ← parsePtr? (← kv? toks "lmr")
    let k ← parsePtr? (← kv? toks "k")
    let md ← parsePtr? (← kv? toks "md")
    let da ← parsePtr? (← kv? toks "da")
    let mi ← parsePtr? (← kv? toks "mi")
    let o := encodeBtpLit ⟨logN, logP, xs, xe, logSlots, c2s, s2c, ev, eph, it, m1t, lmr, k, md, da, mi⟩
    some (s!"keys={showNames (keyNames o)} nulls={showNames (nullKeys o)} xs={showNames (subKeys (o.get .Xs))} " ++
      s!"xe={showNames (subKeys (o.get .Xe))} it={showNames (subKeys (o.get .IterationsParameters))}")
  else none

def handleExported (toks : List String) : Option String := do
  let name ← kv? toks "name"
  let logN ← (← kv? toks "logN").toNat?
  let xsH ← (← kv? toks "xsH").toNat?
  let q ← parseVec? (← kv? toks "Q")
  let p ← parseVec? (← kv? toks "P")
  let known := exportedSets.any (·.same name logN xsH q p)
  let kind := secretKind logN xsH
  let tbl := match tableMax logN kind with
    | some t => toString t
    | none => "none"
  some (s!"bitQ={len64 (prodList q)} bitP={if p.isEmpty then 0 else len64 (prodList p)} " ++
    s!"bitQP={len64 (prodList q * prodList p)} kind={kind} table={tbl} " ++
    s!"within={b2s (withinTable logN xsH q p)} strict={b2s (withinTableStrict logN xsH q p)} " ++
    s!"known={b2s known}")

def handle (toks : List String) : String :=
  match toks with
  | "isprime" :: rest =>
    match (kv? rest "n").bind String.toNat? with
    | some n => b2s (goOracle.isPrime n)
    | none => badOp
  | "overlap" :: rest =>
    match (kv? rest "dir", (kv? rest "size").bind String.toNat?, (kv? rest "c").bind String.toNat?) with
    | (some "u", some s, some c) => b2s (goOracle.stopUp s c)
    | (some "d", some s, some c) => b2s (goOracle.stopDown s c)
    | _ => badOp
  | "gen" :: rest =>
    match ((kv? rest "dir").bind String.toNat?, (kv? rest "bits").bind String.toNat?,
           (kv? rest "root").bind String.toNat?, (kv? rest "k").bind String.toNat?) with
    | (some d, some b, some r, some k) =>
      match genPrimes goOracle driverFuel d b r k with
      | .ok ps => "ok " ++ showVec ps
      | .err _ => "err"
      | .panic => "panic"
      | .hang => "hang"
    | _ => badOp
  | "genmoduli" :: rest =>
    match ((kv? rest "root").bind String.toInt?, (kv? rest "logQ").bind parseIVec?,
           (kv? rest "logP").bind parseIVec?) with
    | (some l, some lq, some lp) =>
      showRes (fun (qp : List Nat × List Nat) => s!"ok Q={showVec qp.1} P={showVec qp.2}")
        (genModuli goOracle driverFuel l lq lp)
    | _ => badOp
  | "rlwe_new" :: rest =>
    match parseLiteral? rest with
    | some lit => showRes showAccepted (newParametersFromLiteral goOracle driverFuel lit)
    | none => badOp
  | "rlwe_direct" :: rest =>
    match ((kv? rest "logN").bind String.toInt?, (kv? rest "rt").bind String.toNat?,
           (kv? rest "Q").bind parseVec?, (kv? rest "P").bind parseVec?) with
    | (some logN, some rt, some q, some p) =>
      showRes showAccepted (newParameters goOracle logN q p rt false false)
    | _ => badOp
  | "ckks_new" :: rest =>
    match (parseLiteral? rest, (kv? rest "lds").bind String.toInt?) with
    | (some lit, some lds) => showRes showAccepted (ckksNewFromLiteral goOracle driverFuel lit lds)
    | _ => badOp
  | "bgv_new" :: rest =>
    match (parseAccepted? rest, (kv? rest "t").bind String.toNat?) with
    | (some a, some t) =>
      showRes (fun (b : BgvAccepted) =>
          s!"accept nT={b.nT} slots={b.maxSlots} logslots={b.logMaxSlots} qmul={showVec b.qMul}")
        (bgvNew goOracle driverFuel a t)
    | _ => badOp
  | "derived" :: rest => (handleDerived rest).getD badOp
  | "accessors" :: rest => (handleAccessors rest).getD badOp
  | "codec_keys" :: rest => (handleCodecKeys rest).getD badOp
  | "scale_json" :: rest =>
    match ((kv? rest "value").bind String.toNat?, (kv? rest "mod").bind String.toNat?) with
    | (some v, some m) => s!"value={sciText v} mod={sciText m}"
    | _ => badOp
  | "exported" :: rest => (handleExported rest).getD badOp
  | "table" :: rest =>
    match ((kv? rest "logN").bind String.toNat?, (kv? rest "kind").bind String.toNat?) with
    | (some l, some k) => match tableMax l k with
      | some t => toString t
      | none => "none"
    | _ => badOp
  | _ => badOp

end Driver.C19
