import Driver.Util
import Lattigo.Model.LinTrans
import Lattigo.Model.LinTransLazy
import Lattigo.Model.ParamsGen

/-
  C12 line protocol.
    bsgsindex <diags> <slots> <N1>            → <j:i,i|j:i> <rotN1> <rotN2>
    bestratio <diags> <slots> <logMaxRatio>   → N1
    galels <nthRoot> <diags> <slots> <ratio>  → Galois elements (naive: in order; BSGS: sorted)
    alloc <diags> <logCols> <ratio>           → N1 <keys of Vec>
    at <keys> <i> <slots>                     → key found | err
    permdiags <half> (M <row> <from> <to> <scaling>)*   → idx:vec|idx:vec   (bgv: two rows; keys as the map has them)
    permdiagsc <n> (M 0 <from> <to> <scaling>)*         → idx:vec|idx:vec   (ckks: one row)
    margin <moduli>                           → QiOverflowMargin / PiOverflowMargin (-1 without moduli);
                                                executes the definition REGENERATED from core/rlwe/params.go
                                                (Gen/Params.lean via Model/ParamsGen.lean, float64 semantics
                                                included), not the hand-written `Lazy.overflowMargin`
    eval <scheme> nth= t= rows= logcols= mode= inplace= ctlvl= ctscale= outlvl= qmodt= v=
         (LT ratio= lvl= scale= [skind=] (D <idx> <vals>)*)*
      bgv: the output scale is printed as <value>%<modulus>
-/
namespace Driver.C12
open Driver
open Lattigo.Model.LinTrans
open Lattigo.Model

def showIdx (index : List (Int × List Int)) : String :=
  if index.isEmpty then "-" else "|".intercalate (index.map fun ji => s!"{ji.1}:{showIVec ji.2}")

structure RawLT where
  ratio : Int
  lvl : Nat
  scale : Nat
  skind : Nat   -- 2: the transformation's scale carries NO modulus (rlwe.NewScale), else the scheme's
  diags : List (Int × List Int)

/-- split the token list at the `LT` markers -/
def splitLTs : List String → List (List String)
  | [] => []
  | toks =>
    let rec go (cur : List String) (acc : List (List String)) : List String → List (List String)
      | [] => (cur.reverse :: acc).reverse
      | "LT" :: rest => go [] (cur.reverse :: acc) rest
      | t :: rest => go (t :: cur) acc rest
    go [] [] toks

def parseDiags : List String → Option (List (Int × List Int))
  | [] => some []
  | "D" :: i :: vals :: rest => do
    let i ← parseInt? i
    let vs ← parseIVec? vals
    let r ← parseDiags rest
    some ((i, vs) :: r)
  | _ => none

def parseLT (toks : List String) : Option RawLT := do
  let ratio ← (kv? toks "ratio") >>= parseInt?
  let lvl ← (kv? toks "lvl") >>= parseNat?
  let scale ← (kv? toks "scale") >>= parseNat?
  let ds ← parseDiags (toks.dropWhile (· != "D"))
  let skind := ((kv? toks "skind") >>= parseNat?).getD 0
  some { ratio, lvl, scale, skind, diags := ds }

def redT (t : Nat) (x : Int) : Int := if t = 0 then x else x % (t : Int)

def evalLine (toks : List String) : Option String := do
  let blocks := splitLTs toks
  let hd ← blocks.head?
  let nth ← (kv? hd "nth") >>= parseNat?
  let t ← (kv? hd "t") >>= parseNat?
  let rows ← (kv? hd "rows") >>= parseNat?
  let logCols ← (kv? hd "logcols") >>= parseNat?
  let mode ← kv? hd "mode"
  let ctlvl ← (kv? hd "ctlvl") >>= parseNat?
  let ctscale ← (kv? hd "ctscale") >>= parseNat?
  let outlvl ← (kv? hd "outlvl") >>= parseNat?
  let qmodt ← (kv? hd "qmodt") >>= parseVec?
  let v ← (kv? hd "v") >>= parseIVec?
  let raws ← (blocks.drop 1).mapM parseLT
  let cols := 2 ^ logCols
  let O := fnOps cols
  let vv : Slots cols := ofList cols v
  -- allocation + encoding
  let built := raws.map fun r =>
    let idx := r.diags.map (·.1)
    let (N1, keys) := allocate idx cols r.ratio
    let dg : List (Int × Slots cols) := r.diags.map fun (d : Int × List Int) => (d.1, ofList cols d.2)
    let adv0 := galoisElements nth idx cols r.ratio
    let adv := if r.ratio < 0 then adv0 else (sortU (adv0.map Int.ofNat)).map Int.toNat
    (N1, keys, adv, encode O cols N1 keys dg, r)
  let head := String.join (built.map fun (N1, keys, adv, _, _) =>
    s!"lt N1={N1} keys={showIVec keys} adv={showVec adv} ")
  if built.any fun (_, _, _, e, _) => e.isNone then
    return head ++ "encode-err"
  let lts : List (LinTrans.LT (Slots cols)) := built.filterMap fun (N1, _, _, e, r) =>
    e.map fun vec => { N1 := N1, logCols := logCols, levelQ := r.lvl, scale := r.scale, vec := vec }
  let req := (reqMany (lts.map fun lt => (lt.N1, cols, lt.vec.map (·.1)))).map (Galois.galEl nth)
  let showVals (r : EvalRes (Slots cols)) : String :=
    match r with
    | .val a => showIVec ((toList rows cols a).map (redT t))
    | _ => "wrong"
  let isPanic (r : EvalRes (Slots cols)) : Bool := match r with | .panic => true | _ => false
  if mode == "seq" then
    -- requests: one EvaluateMany per step (ctPreRot is not shared between calls); the sequence
    -- stops at the first failing Rescale (level 0)
    let req := ((lts.foldl (fun (acc : List Int × Option Nat) lt =>
      match acc.2 with
      | none => acc
      | some l =>
        let m := min l lt.levelQ
        (acc.1 ++ reqMany [(lt.N1, cols, lt.vec.map (·.1))], if m = 0 then none else some (m - 1)))
      ([], some ctlvl)).1).map (Galois.galEl nth)
    let r := evalSeq O lts vv
    if isPanic r then return head ++ s!"req={showVec req} panic"
    if t = 0 then
      -- ckks: level only (one level per step), scale not tied
      let lvl := lts.foldl (fun (acc : Option Nat) lt =>
        match acc with
        | none => none
        | some l => let m := min l lt.levelQ; if m = 0 then none else some (m - 1)) (some ctlvl)
      match lvl with
      | none => return head ++ s!"req={showVec req} err"
      | some l => return head ++ s!"req={showVec req} ok out lvl={l} scale=- vals={showVals r}"
    else
      match seqMeta t qmodt ctlvl ctscale (lts.map fun lt => (lt.levelQ, lt.scale)) with
      | none => return head ++ s!"req={showVec req} err"
      | some (l, sc) => return head ++ s!"req={showVec req} ok out lvl={l} scale={sc}%{t} vals={showVals r}"
  else
    let rs := evalMany O lts vv
    if rs.any isPanic then return head ++ s!"req={showVec req} panic"
    let outs := ((lts.zip rs).zip (raws.map (·.skind))).map fun ((lt, r), skind) =>
      let ol := if mode == "many" || mode == "new" then lt.levelQ else outlvl
      let m := outMeta t ol ctlvl lt.levelQ ctscale lt.scale
      if t = 0 then s!" out lvl={m.1} scale={m.2} vals={showVals r}"
      else
        -- value AND modulus of the output scale (`out_scale_spec`: = (outMeta …).2 and t)
        let sc := outScale ⟨ctscale, t⟩ ⟨lt.scale, if skind = 2 then 0 else t⟩
        s!" out lvl={m.1} scale={sc.value}%{sc.mod} vals={showVals r}"
    return head ++ s!"req={showVec req} ok" ++ String.join outs

def parsePerm : List String → Option (List (Nat × Int × Int × Nat))
  | [] => some []
  | "M" :: r :: f :: t :: s :: rest => do
    let r ← parseNat? r
    let f ← parseInt? f
    let t ← parseInt? t
    let s ← parseNat? s
    let tl ← parsePerm rest
    some ((r, f, t, s) :: tl)
  | _ => none

def handle (toks : List String) : String :=
  match toks with
  | ["bsgsindex", ds, slots, n1] =>
    match parseIVec? ds, parseNat? slots, parseNat? n1 with
    | some ds, some slots, some n1 =>
      let b := bsgsIndex ds slots n1
      s!"{showIdx b.index} {showIVec b.rotN1} {showIVec b.rotN2}"
    | _, _, _ => badOp
  | ["bestratio", ds, slots, lr] =>
    match parseIVec? ds, parseNat? slots, parseNat? lr with
    | some ds, some slots, some lr => toString (findBestBSGSRatio ds slots lr)
    | _, _, _ => badOp
  | ["galels", nth, ds, slots, ratio] =>
    match parseNat? nth, parseIVec? ds, parseNat? slots, parseInt? ratio with
    | some nth, some ds, some slots, some ratio =>
      let g := galoisElements nth ds slots ratio
      showVec (if ratio < 0 then g else (sortU (g.map Int.ofNat)).map Int.toNat)
    | _, _, _, _ => badOp
  | ["alloc", ds, logCols, ratio] =>
    match parseIVec? ds, parseNat? logCols, parseInt? ratio with
    | some ds, some lc, some ratio =>
      let (n1, keys) := allocate ds (2 ^ lc) ratio
      s!"{n1} {showIVec keys}"
    | _, _, _ => badOp
  | ["at", ds, i, slots] =>
    match parseIVec? ds, parseInt? i, parseNat? slots with
    | some ds, some i, some slots =>
      match diagAt (ds.map fun d => (d, d)) i slots with
      | some d => toString d
      | none => "err"
    | _, _, _ => badOp
  | "permdiags" :: half :: rest =>
    match parseNat? half, parsePerm rest with
    | some half, some maps =>
      let r := permDiagonals 2 half maps
      if r.isEmpty then "-" else "|".intercalate (r.map fun kv => s!"{kv.1}:{showVec kv.2}")
    | _, _ => badOp
  | ["margin", qs] =>
    match parseVec? qs with
    | some qs => toString (Lattigo.Model.ParamsGen.marginAll qs)
    | none => badOp
  | "permdiagsc" :: n :: rest =>   -- ckks: one row of n slots
    match parseNat? n, parsePerm rest with
    | some n, some maps =>
      let r := permDiagonals 1 n maps
      if r.isEmpty then "-" else "|".intercalate (r.map fun kv => s!"{kv.1}:{showVec kv.2}")
    | _, _ => badOp
  | "eval" :: rest => (evalLine rest).getD badOp
  | _ => badOp

end Driver.C12
