-- This module serves as the root of the `Lattigo` library.
-- Import modules here that should be built as part of the library.
import Lattigo.Basic
