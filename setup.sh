#!/bin/sh
# Build the framework from files on disk only (offline).
set -e
cd "$(dirname "$0")"
export GOFLAGS=-mod=mod GOPROXY=off GOSUMDB=off GOTOOLCHAIN=local CGO_ENABLED=0
mkdir -p .run evidence replays
(cd tools/go2lean && go build -o ../../.run/go2lean .)
rm -rf .run/gen && ./.run/go2lean -repo "${VERIF_REPO:-/repo}" -out .run/gen
mkdir -p lean/Lattigo/Gen && cp .run/gen/* lean/Lattigo/Gen/
(cd lean && lake build driver && lake build Lattigo)
cp "${VERIF_REPO:-/repo}/go.sum" harness/go.sum
(cd harness && go build -tags verif -o ../.run/harness-warm . )
echo setup done
